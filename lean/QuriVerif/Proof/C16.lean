import QuriVerif.Model.C16
/-
  C16 — helper lemmas (core Lean only).
-/
set_option linter.unusedSimpArgs false
set_option linter.unusedVariables false
namespace QV.C16

/-! ### Gaussian integers -/
namespace GI

@[simp] theorem mul_zero_right (a : GI) : mul a zero = zero := by simp [mul, zero]
@[simp] theorem zero_mul_left (a : GI) : mul zero a = zero := by simp [mul, zero]
@[simp] theorem add_zero_right (a : GI) : add a zero = a := by simp [add, zero]
@[simp] theorem zero_add_left (a : GI) : add zero a = a := by simp [add, zero]
@[simp] theorem one_mul_left (a : GI) : mul one a = a := by simp [mul, one]

theorem emod4 (k : Int) : k % 4 = 0 ∨ k % 4 = 1 ∨ k % 4 = 2 ∨ k % 4 = 3 := by omega

theorem I_mul_iPow (k : Int) : mul I (iPow k) = iPow (k + 1) := by
  rcases emod4 k with h | h | h | h
  · have h' : (k + 1) % 4 = 1 := by omega
    simp [iPow, h, h', mul, I, one]
  · have h' : (k + 1) % 4 = 2 := by omega
    simp [iPow, h, h', mul, I, one, neg]
  · have h' : (k + 1) % 4 = 3 := by omega
    simp [iPow, h, h', mul, I, one, neg]
  · have h' : (k + 1) % 4 = 0 := by omega
    simp [iPow, h, h', mul, I, one, neg]

theorem negI_mul_iPow (k : Int) : mul (neg I) (iPow k) = iPow (k + (-1)) := by
  rcases emod4 k with h | h | h | h
  · have h' : (k + (-1)) % 4 = 3 := by omega
    simp [iPow, h, h', mul, I, one, neg]
  · have h' : (k + (-1)) % 4 = 0 := by omega
    simp [iPow, h, h', mul, I, one, neg]
  · have h' : (k + (-1)) % 4 = 1 := by omega
    simp [iPow, h, h', mul, I, one, neg]
  · have h' : (k + (-1)) % 4 = 2 := by omega
    simp [iPow, h, h', mul, I, one, neg]

theorem negOne_mul_iPow (k : Int) : mul (neg one) (iPow k) = iPow (k + 2) := by
  rcases emod4 k with h | h | h | h
  · have h' : (k + 2) % 4 = 2 := by omega
    simp [iPow, h, h', mul, I, one, neg]
  · have h' : (k + 2) % 4 = 3 := by omega
    simp [iPow, h, h', mul, I, one, neg]
  · have h' : (k + 2) % 4 = 0 := by omega
    simp [iPow, h, h', mul, I, one, neg]
  · have h' : (k + 2) % 4 = 1 := by omega
    simp [iPow, h, h', mul, I, one, neg]

end GI

/-! ### xor facts -/

theorem xor_eq_iff (x m y : Nat) : x ^^^ m = y ↔ x = y ^^^ m := by
  constructor
  · intro h; rw [← h, Nat.xor_assoc, Nat.xor_self, Nat.xor_zero]
  · intro h; rw [h, Nat.xor_assoc, Nat.xor_self, Nat.xor_zero]

theorem testBit_xor_pow_self (x q : Nat) : (x ^^^ 2 ^ q).testBit q = !x.testBit q := by
  simp [Nat.testBit_xor, Nat.testBit_two_pow_self]

theorem xor_pow_ne (x q : Nat) : x ^^^ 2 ^ q ≠ x := by
  intro h
  have := congrArg (fun y => y.testBit q) h
  simp [testBit_xor_pow_self] at this

/-! ### the three per-gate facts and `pauli_track` -/

theorem single_sound (s s' : CB) (p : P1) (i : Nat) (h : addSinglePauli s p i = .ok s') :
    apply1 (pauliMat p) i (ket s) = ket s' := by
  unfold addSinglePauli at h
  split at h
  · cases h
  · injection h with h
    subst h
    funext x
    cases p with
    | X =>
      simp only [apply1, ket, pauliMat, Nat.one_shiftLeft]
      have hr : ∀ r : Bool, (r = !r) = False := by intro r; cases r <;> simp
      simp only [hr, if_true, if_false, GI.zero_mul_left, GI.zero_add_left, GI.one_mul_left, ite_self]
      simp only [xor_eq_iff x (2 ^ i) s.bits]
    | Y =>
      simp only [apply1, ket, Nat.one_shiftLeft]
      by_cases hx : x = s.bits ^^^ 2 ^ i
      · have hx' : x ^^^ 2 ^ i = s.bits := (xor_eq_iff _ _ _).mpr hx
        have hne : x ≠ s.bits := by rw [hx]; exact xor_pow_ne _ _
        have hb : x.testBit i = !s.bits.testBit i := by rw [hx]; exact testBit_xor_pow_self _ _
        simp only [hx', hne, if_true, if_false, GI.mul_zero_right, GI.zero_add_left, hb]
        cases hs : s.bits.testBit i
        · simp [pauliMat, GI.I_mul_iPow, hx]
        · simp [pauliMat, GI.negI_mul_iPow, hx]
      · have hx' : ¬ x ^^^ 2 ^ i = s.bits := fun e => hx ((xor_eq_iff _ _ _).mp e)
        simp only [hx', if_false, GI.mul_zero_right, GI.add_zero_right, hx]
        by_cases hxs : x = s.bits
        · cases hb : x.testBit i <;> simp [pauliMat, hxs]
        · simp [hxs]
    | Z =>
      simp only [apply1, ket]
      by_cases hx : x = s.bits
      · subst hx
        have hne : ¬ s.bits ^^^ 2 ^ i = s.bits := xor_pow_ne _ _
        simp only [hne, if_false, GI.mul_zero_right, GI.add_zero_right, if_true]
        cases hs : s.bits.testBit i
        · simp [pauliMat]
        · simp [pauliMat, GI.negOne_mul_iPow]
      · simp only [hx, if_false, GI.mul_zero_right, GI.zero_add_left]
        by_cases hx' : x ^^^ 2 ^ i = s.bits
        · have hb : (x ^^^ 2 ^ i).testBit i = !x.testBit i := testBit_xor_pow_self _ _
          cases hbx : x.testBit i <;> simp [pauliMat, hx']
        · simp [hx']

theorem semFactors_cons (i : Nat) (p : P1) (fs : List (Nat × P1)) (ψ : Amp) :
    semFactors ((i, p) :: fs) ψ = semFactors fs (apply1 (pauliMat p) i ψ) := rfl

theorem factors_sound (s s' : CB) (l : List (Nat × Nat)) (h : addFactors s l = .ok s') :
    ∃ fs, pairFactors l = some fs ∧ semFactors fs (ket s) = ket s' := by
  induction l generalizing s with
  | nil =>
    simp only [addFactors] at h
    injection h with h
    exact ⟨[], rfl, by rw [h]; rfl⟩
  | cons a r ih =>
    obtain ⟨i, pid⟩ := a
    simp only [addFactors] at h
    cases hp : pauliOfId pid with
    | none => simp [hp] at h
    | some p =>
      simp only [hp] at h
      cases h1 : addSinglePauli s p i with
      | error e => simp [h1] at h
      | ok s1 =>
        simp only [h1] at h
        obtain ⟨fs, hf, hs⟩ := ih s1 h
        refine ⟨(i, p) :: fs, by simp [pairFactors, hp, hf], ?_⟩
        rw [semFactors_cons, single_sound s s1 p i h1]
        exact hs

theorem gate_sound (s s' : CB) (g : RGate) (h : addPauli s g = .ok s') :
    ∃ fs, factors g = some fs ∧ semFactors fs (ket s) = ket s' := by
  unfold addPauli at h
  unfold factors
  split at h
  · rename_i hk; simp only [hk]; exact factors_sound s s' _ h
  · rename_i hk; simp only [hk]
    split at h
    · cases h
    · rename_i i r ht
      exact ⟨[(i, .X)], by simp, by simp only [semFactors, List.foldl]; exact single_sound s s' .X i h⟩
  · rename_i hk; simp only [hk]
    split at h
    · cases h
    · rename_i i r ht
      exact ⟨[(i, .Y)], by simp, by simp only [semFactors, List.foldl]; exact single_sound s s' .Y i h⟩
  · rename_i hk; simp only [hk]
    split at h
    · cases h
    · rename_i i r ht
      exact ⟨[(i, .Z)], by simp, by simp only [semFactors, List.foldl]; exact single_sound s s' .Z i h⟩
  · cases h

theorem semPaulis_cons (g : RGate) (gs : List RGate) (ψ : Amp) :
    semPaulis (g :: gs) ψ = semPaulis gs (semFactors ((factors g).getD []) ψ) := rfl

theorem track_sound (s s' : CB) (gs : List RGate) (h : track s gs = .ok s') :
    semPaulis gs (ket s) = ket s' := by
  induction gs generalizing s with
  | nil => simp only [track] at h; injection h with h; rw [h]; rfl
  | cons g gs ih =>
    simp only [track] at h
    cases h1 : addPauli s g with
    | error e => simp [h1] at h
    | ok s1 =>
      simp only [h1] at h
      obtain ⟨fs, hf, hs⟩ := gate_sound s s1 g h1
      rw [semPaulis_cons, hf]
      simp only [Option.getD_some, hs]
      exact ih s1 h

/-- every gate of an accepted list has a factorisation (the identity default of `semPaulis` is never used) -/
theorem track_factors (s s' : CB) (gs : List RGate) (h : track s gs = .ok s') :
    ∀ g ∈ gs, (factors g).isSome = true := by
  induction gs generalizing s with
  | nil => intro g hg; cases hg
  | cons g gs ih =>
    simp only [track] at h
    cases h1 : addPauli s g with
    | error e => simp [h1] at h
    | ok s1 =>
      simp only [h1] at h
      obtain ⟨fs, hf, _⟩ := gate_sound s s1 g h1
      intro g' hg'
      cases hg' with
      | head => simp [hf]
      | tail _ hg' => exact ih s1 h g' hg'

/-! ### invariants of the tuple: qubit count fixed, bits stay in range -/

theorem single_inv (s s' : CB) (p : P1) (i : Nat) (h : addSinglePauli s p i = .ok s') :
    s'.n = s.n ∧ i < s.n ∧ (s.wf → s'.wf) := by
  unfold addSinglePauli at h
  split at h
  · cases h
  · rename_i hi
    injection h with h
    subst h
    refine ⟨rfl, by omega, ?_⟩
    intro hw
    unfold CB.wf at *
    have hp : 2 ^ i < 2 ^ s.n := Nat.pow_lt_pow_right (by omega) (by omega)
    cases p <;> simp only [Nat.one_shiftLeft] <;> first | exact Nat.xor_lt_two_pow hw hp | exact hw

theorem factors_inv (s s' : CB) (l : List (Nat × Nat)) (h : addFactors s l = .ok s') :
    s'.n = s.n ∧ (∀ a ∈ l, a.1 < s.n) ∧ (s.wf → s'.wf) := by
  induction l generalizing s with
  | nil => simp only [addFactors] at h; injection h with h; subst h; simp
  | cons a r ih =>
    obtain ⟨i, pid⟩ := a
    simp only [addFactors] at h
    cases hp : pauliOfId pid with
    | none => simp [hp] at h
    | some p =>
      simp only [hp] at h
      cases h1 : addSinglePauli s p i with
      | error e => simp [h1] at h
      | ok s1 =>
        simp only [h1] at h
        obtain ⟨hn, hi, hw⟩ := single_inv s s1 p i h1
        obtain ⟨hn', hr, hw'⟩ := ih s1 h
        refine ⟨by omega, ?_, fun w => hw' (hw w)⟩
        intro a ha
        cases ha with
        | head => exact hi
        | tail _ ha => have := hr a ha; omega

theorem gate_inv (s s' : CB) (g : RGate) (h : addPauli s g = .ok s') : s'.n = s.n ∧ (s.wf → s'.wf) := by
  unfold addPauli at h
  split at h
  · have := factors_inv s s' _ h; exact ⟨this.1, this.2.2⟩
  all_goals first
    | (split at h
       · cases h
       · have := single_inv s s' _ _ h; exact ⟨this.1, this.2.2⟩)
    | cases h

theorem track_inv (s s' : CB) (gs : List RGate) (h : track s gs = .ok s') : s'.n = s.n ∧ (s.wf → s'.wf) := by
  induction gs generalizing s with
  | nil => simp only [track] at h; injection h with h; subst h; simp
  | cons g gs ih =>
    simp only [track] at h
    cases h1 : addPauli s g with
    | error e => simp [h1] at h
    | ok s1 =>
      simp only [h1] at h
      have a := gate_inv s s1 g h1
      have b := ih s1 h
      exact ⟨by omega, fun w => b.2 (a.2 w)⟩

/-! ### sparse semantics: structure of the superposition circuit -/

theorem runS_append (g1 g2 : List RGate) (v : SVec) :
    runS (g1 ++ g2) v = (runS g1 v).bind (runS g2) := by
  induction g1 generalizing v with
  | nil => simp [runS]
  | cons g gs ih =>
    simp only [List.cons_append, runS]
    cases stepS g v with
    | none => simp
    | some v' => simp [ih]

theorem mod_pow_succ (bits n : Nat) :
    bits % 2 ^ (n + 1) = bits % 2 ^ n ^^^ (if bits.testBit n then 2 ^ n else 0) := by
  apply Nat.eq_of_testBit_eq
  intro i
  by_cases hb : bits.testBit n
  · simp only [hb, if_true, Nat.testBit_xor, Nat.testBit_mod_two_pow, Nat.testBit_two_pow]
    by_cases h1 : i < n
    · have : ¬ n = i := by omega
      have h2 : i < n + 1 := by omega
      simp [h1, h2, this]
    · by_cases h3 : i = n
      · subst h3; simp [hb]
      · have h2 : ¬ i < n + 1 := by omega
        have : ¬ n = i := by omega
        simp [h1, h2, this]
  · simp only [hb, Nat.xor_zero, Nat.testBit_mod_two_pow]
    by_cases h1 : i < n
    · have h2 : i < n + 1 := by omega
      simp [h1, h2]
    · by_cases h3 : i = n
      · subst h3; simp [hb]
      · have h2 : ¬ i < n + 1 := by omega
        simp [h1, h2]

/-- the X prefix maps `|x⟩` to `|x xor (bits mod 2^n)⟩` -/
theorem runS_xGates (n bits x : Nat) (r : Poly) :
    runS (xGates n bits) [(x, r)] = some [(x ^^^ bits % 2 ^ n, r)] := by
  induction n with
  | zero => simp [xGates, runS, Nat.mod_one]
  | succ n ih =>
    simp only [xGates, runS_append, ih, Option.bind_some, mod_pow_succ bits n]
    by_cases hb : bits.testBit n
    · simp [hb, runS, stepS, stepTerm, Nat.xor_assoc]
    · simp [hb, runS]

theorem maskOf_append (l : List Nat) (t : Nat) : maskOf (l ++ [t]) = maskOf l ^^^ 2 ^ t := by
  simp [maskOf, List.foldl_append]

theorem maskOf_rotTargets (n m : Nat) : maskOf (rotTargets n m) = m % 2 ^ n := by
  induction n with
  | zero => simp [rotTargets, maskOf, Nat.mod_one]
  | succ n ih =>
    simp only [rotTargets, mod_pow_succ m n]
    by_cases hb : m.testBit n
    · simp [hb, maskOf_append, ih]
    · simp [hb, ih]

theorem lowestFrom_spec (x f i d : Nat) (h : lowestFrom x f i = some d) :
    x.testBit d = true ∧ i ≤ d ∧ d < i + f := by
  induction f generalizing i with
  | zero => simp [lowestFrom] at h
  | succ f ih =>
    simp only [lowestFrom] at h
    split at h
    · rename_i hb; injection h with h; subst h; exact ⟨hb, Nat.le_refl _, by omega⟩
    · have := ih (i + 1) h; exact ⟨this.1, by omega, by omega⟩

theorem lowestFrom_none (x f i : Nat) (h : lowestFrom x f i = none) :
    ∀ j, i ≤ j → j < i + f → x.testBit j = false := by
  induction f generalizing i with
  | zero => intro j h1 h2; omega
  | succ f ih =>
    simp only [lowestFrom] at h
    split at h
    · cases h
    · rename_i hb
      intro j h1 h2
      by_cases hj : j = i
      · subst hj; simpa using hb
      · exact ih (i + 1) h j (by omega) (by omega)

theorem lowestFrom_some_of_bit (x f i j : Nat) (h1 : i ≤ j) (h2 : j < i + f) (hb : x.testBit j = true) :
    ∃ d, lowestFrom x f i = some d := by
  cases h : lowestFrom x f i with
  | some d => exact ⟨d, rfl⟩
  | none => have := lowestFrom_none x f i h j h1 h2; rw [hb] at this; cases this

theorem all_ones (ts : List Nat) : ((ts.map fun _ => 1).all (· == 1) && (ts.map fun _ => 1).length == ts.length) = true := by
  induction ts with
  | nil => rfl
  | cons t r ih => simp

theorem xor_xor_self_left (a b : Nat) : a ^^^ (a ^^^ b) = b := by
  rw [← Nat.xor_assoc, Nat.xor_self, Nat.zero_xor]

/-! ### amplitudes of the prepared state and the ring identity -/

/-- twice the amplitude on `|a⟩` after X-prefix, rotation and RZ; `bd` = bit of `b` at the RZ qubit
    (so the bit of `a` there is `¬bd`) -/
def ampA (bd : Bool) (pa pb : Int) : Poly :=
  Poly.mul (if (!bd) = true then (rzAngle (if bd = true then 1 else -1) pa pb).ph
            else (rzAngle (if bd = true then 1 else -1) pa pb).ph (-1))
    (Poly.mul (Poly.add rotAngle.ph (rotAngle.ph (-1))) Poly.one)

def ampB (bd : Bool) (pa pb : Int) : Poly :=
  Poly.mul (if bd = true then (rzAngle (if bd = true then 1 else -1) pa pb).ph
            else (rzAngle (if bd = true then 1 else -1) pa pb).ph (-1))
    (Poly.mul (Poly.neg (Poly.sub rotAngle.ph (rotAngle.ph (-1)))) Poly.one)

theorem phase_congr (k k' : Int) (ex : Exps) (h : k % 16 = k' % 16) : Poly.phase k ex = Poly.phase k' ex := by
  unfold Poly.phase; rw [h]

theorem uPow_congr (k k' : Int) (h : k % 16 = k' % 16) : Poly.uPow k = Poly.uPow k' := by
  unfold Poly.uPow; rw [h]

theorem rz_ph_congr (bd : Bool) (m : Int) (hm : m = 1 ∨ m = -1) (pa pb : Int) :
    (rzAngle (if bd = true then 1 else -1) pa pb).ph m
      = (rzAngle (if bd = true then 1 else -1) (pa % 8) (pb % 8)).ph m := by
  unfold Angle.ph rzAngle
  apply phase_congr
  cases bd <;> rcases hm with hm | hm <;> subst hm <;> simp only [if_true, if_false, Bool.false_eq_true] <;> omega

theorem iPowP_congr (k : Int) : iPowP k = iPowP (k % 8) := by
  unfold iPowP; apply uPow_congr; omega

theorem iPowP_neg_congr (k : Int) : iPowP (-k) = iPowP (-(k % 8)) := by
  unfold iPowP; apply uPow_congr; omega

theorem ampA_congr (bd : Bool) (pa pb : Int) : ampA bd pa pb = ampA bd (pa % 8) (pb % 8) := by
  unfold ampA
  rw [rz_ph_congr bd 1 (Or.inl rfl) pa pb, rz_ph_congr bd (-1) (Or.inr rfl) pa pb]

theorem ampB_congr (bd : Bool) (pa pb : Int) : ampB bd pa pb = ampB bd (pa % 8) (pb % 8) := by
  unfold ampB
  rw [rz_ph_congr bd 1 (Or.inl rfl) pa pb, rz_ph_congr bd (-1) (Or.inr rfl) pa pb]

theorem globalPhase_congr (bd : Bool) (pa pb : Int) : globalPhase bd pa pb = globalPhase bd (pa % 8) (pb % 8) := by
  unfold globalPhase
  simp only []
  rw [rz_ph_congr bd 1 (Or.inl rfl) pa pb, rz_ph_congr bd (-1) (Or.inr rfl) pa pb, iPowP_neg_congr pa]

theorem targetA_congr (pa : Int) : targetA pa = targetA (pa % 8) := by
  unfold targetA; rw [iPowP_congr]

theorem targetB_congr (pb : Int) : targetB pb = targetB (pb % 8) := by
  unfold targetB; rw [iPowP_congr]

/-- the identity on all residues (128 closed instances over the exact ring) -/
def ampTable : Bool :=
  (List.range 8).all fun pa => (List.range 8).all fun pb => [true, false].all fun bd =>
    decide (ampA bd (pa : Int) (pb : Int) = Poly.mul (globalPhase bd (pa : Int) (pb : Int)) (targetA (pa : Int))) &&
    decide (ampB bd (pa : Int) (pb : Int) = Poly.mul (globalPhase bd (pa : Int) (pb : Int)) (targetB (pb : Int)))

theorem ampTable_ok : ampTable = true := by decide +kernel

theorem amp_identity_res (bd : Bool) (pa pb : Nat) (ha : pa < 8) (hb : pb < 8) :
    ampA bd (pa : Int) (pb : Int) = Poly.mul (globalPhase bd (pa : Int) (pb : Int)) (targetA (pa : Int)) ∧
    ampB bd (pa : Int) (pb : Int) = Poly.mul (globalPhase bd (pa : Int) (pb : Int)) (targetB (pb : Int)) := by
  have h := ampTable_ok
  unfold ampTable at h
  rw [List.all_eq_true] at h
  have h1 := h pa (List.mem_range.mpr ha)
  rw [List.all_eq_true] at h1
  have h2 := h1 pb (List.mem_range.mpr hb)
  rw [List.all_eq_true] at h2
  have h3 := h2 bd (by cases bd <;> simp)
  rw [Bool.and_eq_true] at h3
  exact ⟨of_decide_eq_true h3.1, of_decide_eq_true h3.2⟩

theorem amp_identity (bd : Bool) (pa pb : Int) :
    ampA bd pa pb = Poly.mul (globalPhase bd pa pb) (targetA pa) ∧
    ampB bd pa pb = Poly.mul (globalPhase bd pa pb) (targetB pb) := by
  have ha0 : 0 ≤ pa % 8 := Int.emod_nonneg _ (by omega)
  have hb0 : 0 ≤ pb % 8 := Int.emod_nonneg _ (by omega)
  have ha : ((pa % 8).toNat : Int) = pa % 8 := Int.toNat_of_nonneg ha0
  have hb : ((pb % 8).toNat : Int) = pb % 8 := Int.toNat_of_nonneg hb0
  have h := amp_identity_res bd (pa % 8).toNat (pb % 8).toNat (by omega) (by omega)
  rw [ha, hb] at h
  rw [ampA_congr, ampB_congr, globalPhase_congr, targetA_congr pa, targetB_congr pb]
  exact h

/-! ### the circuit of `comp_basis_superposition` on `|0…0⟩` -/

theorem runS_x_ket0 (n bits : Nat) (h : bits < 2 ^ n) : runS (xGates n bits) ket0 = some [(bits, Poly.one)] := by
  unfold ket0
  rw [runS_xGates, Nat.mod_eq_of_lt h, Nat.zero_xor]

theorem supCircuit_shape (sa sb : CB) (gs : List RGate) (hn : sa.n = sb.n) (hne : sa.bits ≠ sb.bits)
    (h : supCircuit sa sb = .ok gs) :
    ∃ d, lowestFrom (sa.bits ^^^ sb.bits) 64 0 = some d ∧
      gs = xGates sa.n sa.bits ++
        [rotGate (rotTargets sa.n (sa.bits ^^^ sb.bits)),
         rzGate d (if sb.bits.testBit d = true then 1 else -1) sa.phase sb.phase] := by
  unfold supCircuit at h
  simp only [hn, ne_eq, not_true_eq_false, if_false, hne] at h
  unfold differentBitIndex lowestBitIndex at h
  by_cases hz : sa.bits ^^^ sb.bits = 0
  · simp [hz] at h
  · cases hl : lowestFrom (sa.bits ^^^ sb.bits) 64 0 with
    | none => simp [hz, hl] at h
    | some i =>
      simp only [hz, if_false, hl] at h
      injection h with h
      exact ⟨i, rfl, by rw [← h, hn]⟩

theorem sup_run (sa sb : CB) (gs : List RGate) (hn : sa.n = sb.n) (hwa : sa.wf) (hwb : sb.wf)
    (hne : sa.bits ≠ sb.bits) (h : supCircuit sa sb = .ok gs) :
    ∃ d, lowestFrom (sa.bits ^^^ sb.bits) 64 0 = some d ∧ d < sa.n ∧
      runS gs ket0 = some [(sa.bits, ampA (sb.bits.testBit d) sa.phase sb.phase),
                           (sb.bits, ampB (sb.bits.testBit d) sa.phase sb.phase)] := by
  obtain ⟨d, hd, hgs⟩ := supCircuit_shape sa sb gs hn hne h
  have hbit := (lowestFrom_spec _ _ _ _ hd).1
  unfold CB.wf at hwa hwb
  rw [← hn] at hwb
  have hx : sa.bits ^^^ sb.bits < 2 ^ sa.n := Nat.xor_lt_two_pow hwa hwb
  have hdn : d < sa.n := by
    apply Decidable.byContradiction
    intro hc
    have : 2 ^ sa.n ≤ 2 ^ d := Nat.pow_le_pow_right (by omega) (by omega)
    have := Nat.testBit_lt_two_pow (Nat.lt_of_lt_of_le hx this)
    rw [hbit] at this; cases this
  refine ⟨d, hd, hdn, ?_⟩
  have hab : sa.bits.testBit d = !sb.bits.testBit d := by
    rw [Nat.testBit_xor] at hbit
    cases h1 : sa.bits.testBit d <;> cases h2 : sb.bits.testBit d <;> simp [h1, h2] at hbit ⊢
  rw [hgs, runS_append, runS_x_ket0 _ _ hwa]
  simp only [Option.bind_some, runS, stepS, stepTerm, rotGate, rzGate, all_ones, if_true,
    maskOf_rotTargets, Nat.mod_eq_of_lt hx, xor_xor_self_left, List.append_nil, List.cons_append,
    List.nil_append, hab]
  rfl

/-! ### derivation histories -/

def obsAt (st : List St) (i : Nat) : Option Obs := (st[i]?).map St.obs

/-- `st'` extends `st`: nothing that could be observed on an existing object has changed -/
def Ext (st st' : List St) : Prop := st.length ≤ st'.length ∧ ∀ i, i < st.length → obsAt st' i = obsAt st i

theorem Ext.refl (st : List St) : Ext st st := ⟨Nat.le_refl _, fun _ _ => rfl⟩

theorem Ext.trans {a b c : List St} (h1 : Ext a b) (h2 : Ext b c) : Ext a c :=
  ⟨Nat.le_trans h1.1 h2.1, fun i hi => by rw [h2.2 i (Nat.lt_of_lt_of_le hi h1.1), h1.2 i hi]⟩

theorem Ext.push (st : List St) (x : St) : Ext st (st ++ [x]) := by
  refine ⟨by simp, fun i hi => ?_⟩
  unfold obsAt
  rw [List.getElem?_append_left hi]

theorem setAt_length (l : List St) (i : Nat) (x : St) : (setAt l i x).length = l.length := by
  induction l generalizing i with
  | nil => rfl
  | cons y r ih => cases i <;> simp [setAt, ih]

theorem setAt_get (l : List St) (i j : Nat) (x : St) :
    (setAt l i x)[j]? = if j = i then (l[j]?).map (fun _ => x) else l[j]? := by
  induction l generalizing i j with
  | nil => simp [setAt]
  | cons y r ih =>
    cases i with
    | zero => cases j <;> simp [setAt]
    | succ i => cases j <;> simp [setAt, ih]

theorem mem_setAt (l : List St) (i : Nat) (x y : St) (h : y ∈ setAt l i x) : y ∈ l ∨ y = x := by
  induction l generalizing i with
  | nil => simp [setAt] at h
  | cons z r ih =>
    cases i with
    | zero =>
      simp only [setAt, List.mem_cons] at h
      rcases h with h | h
      · exact Or.inr h
      · exact Or.inl (List.mem_cons_of_mem _ h)
    | succ i =>
      simp only [setAt, List.mem_cons] at h
      rcases h with h | h
      · exact Or.inl (by rw [h]; exact List.mem_cons_self)
      · rcases ih i h with h | h
        · exact Or.inl (List.mem_cons_of_mem _ h)
        · exact Or.inr h

theorem obs_fill (s : CB) (c : Option (List RGate)) :
    (St.cb s (some (c.getD (xGates s.n s.bits)))).obs = (St.cb s c).obs := by
  cases c <;> rfl

/-- filling the cache slot is not observable -/
theorem Ext.fill (st : List St) (src : Nat) (s : CB) (c : Option (List RGate)) (h : st[src]? = some (.cb s c)) :
    Ext st (setAt st src (.cb s (some (c.getD (xGates s.n s.bits))))) := by
  refine ⟨by rw [setAt_length]; exact Nat.le_refl _, fun i _ => ?_⟩
  unfold obsAt
  rw [setAt_get]
  by_cases hi : i = src
  · subst hi; simp [h, obs_fill]
  · simp [hi]

theorem step_ext (st : List St) (op : Op) : Ext st (step st op).1 := by
  cases op with
  | mk n bits => simp only [step]; split <;> first | exact Ext.refl _ | exact Ext.push _ _
  | mkVec n vid => exact Ext.push _ _
  | derive src seq =>
    simp only [step]
    split
    · exact Ext.refl _
    · rename_i s c hs
      split
      · split <;> first | exact Ext.refl _ | exact Ext.push _ _
      · split
        · exact Ext.fill st src s c hs
        · exact Ext.trans (Ext.fill st src s c hs) (Ext.push _ _)
    · split <;> first | exact Ext.refl _ | exact Ext.push _ _
    · split <;> first | exact Ext.refl _ | exact Ext.push _ _
  | pauli src g =>
    simp only [step]
    split
    · exact Ext.refl _
    · split <;> first | exact Ext.refl _ | exact Ext.push _ _
    · exact Ext.refl _
  | touch src =>
    simp only [step]
    split
    · exact Ext.refl _
    · rename_i s c hs; exact Ext.fill st src s c hs
    · exact Ext.refl _
  | sup a b =>
    simp only [step]
    split
    · split
      · exact Ext.refl _
      · split
        · split <;> first | exact Ext.refl _ | exact Ext.push _ _
        · exact Ext.refl _
    · exact Ext.refl _

theorem run_ext (st : List St) (ops : List Op) : Ext st (run st ops) := by
  induction ops generalizing st with
  | nil => exact Ext.refl _
  | cons op ops ih => exact Ext.trans (step_ext st op) (ih _)

def Coh (st : List St) : Prop := ∀ s ∈ st, s.coherent

theorem Coh.push {st : List St} (h : Coh st) (x : St) (hx : x.coherent) : Coh (st ++ [x]) := by
  intro s hs
  rcases List.mem_append.mp hs with hs | hs
  · exact h s hs
  · simp at hs; rw [hs]; exact hx

theorem Coh.fill {st : List St} (h : Coh st) (src : Nat) (s : CB) (c : Option (List RGate))
    (hs : st[src]? = some (.cb s c)) : Coh (setAt st src (.cb s (some (c.getD (xGates s.n s.bits))))) := by
  intro y hy
  rcases mem_setAt _ _ _ _ hy with hy | hy
  · exact h y hy
  · rw [hy]
    have hm : St.cb s c ∈ st := List.mem_of_getElem? hs
    have := h _ hm
    cases c with
    | none => simp [St.coherent]
    | some c0 => simpa [St.coherent] using this

theorem step_coh (st : List St) (op : Op) (h : Coh st) : Coh (step st op).1 := by
  cases op with
  | mk n bits => simp only [step]; split <;> first | exact h | exact h.push _ trivial
  | mkVec n vid => exact h.push _ trivial
  | derive src seq =>
    simp only [step]
    split
    · exact h
    · rename_i s c hs
      split
      · split <;> first | exact h | exact h.push _ trivial
      · split
        · exact h.fill src s c hs
        · exact (h.fill src s c hs).push _ trivial
    · split <;> first | exact h | exact h.push _ trivial
    · split <;> first | exact h | exact h.push _ trivial
  | pauli src g =>
    simp only [step]
    split
    · exact h
    · split <;> first | exact h | exact h.push _ trivial
    · exact h
  | touch src =>
    simp only [step]
    split
    · exact h
    · rename_i s c hs; exact h.fill src s c hs
    · exact h
  | sup a b =>
    simp only [step]
    split
    · split
      · exact h
      · split
        · split <;> first | exact h | exact h.push _ trivial
        · exact h
    · exact h

theorem run_coh (st : List St) (ops : List Op) (h : Coh st) : Coh (run st ops) := by
  induction ops generalizing st with
  | nil => exact h
  | cons op ops ih => exact ih _ (step_coh st op h)

def WfStore (st : List St) : Prop := ∀ s c, St.cb s c ∈ st → s.wf

theorem mkCB_wf (n : Nat) (bits : Int) (s : CB) (h : mkCB n bits = .ok s) : s.wf ∧ s.n = n ∧ s.phase = 0 := by
  unfold mkCB at h
  split at h
  · cases h
  · rename_i hb
    injection h with h
    subst h
    refine ⟨?_, rfl, rfl⟩
    unfold CB.wf
    simp only
    have h1 : (0 : Int) ≤ bits := by omega
    have h2 : bits < ((2 ^ n : Nat) : Int) := by
      have : ((2 ^ n : Nat) : Int) = (2 : Int) ^ n := by simp
      omega
    omega

theorem WfStore.push_cb {st : List St} (h : WfStore st) (s : CB) (c : Option (List RGate)) (hs : s.wf) :
    WfStore (st ++ [.cb s c]) := by
  intro s' c' hm
  rcases List.mem_append.mp hm with hm | hm
  · exact h s' c' hm
  · simp at hm; rw [hm.1]; exact hs

theorem WfStore.push_other {st : List St} (h : WfStore st) (x : St) (hx : ∀ s c, x ≠ .cb s c) :
    WfStore (st ++ [x]) := by
  intro s' c' hm
  rcases List.mem_append.mp hm with hm | hm
  · exact h s' c' hm
  · simp at hm; exact absurd hm.symm (hx s' c')

theorem WfStore.fill {st : List St} (h : WfStore st) (src : Nat) (s : CB) (c : Option (List RGate))
    (hs : st[src]? = some (.cb s c)) (x : Option (List RGate)) : WfStore (setAt st src (.cb s x)) := by
  intro s' c' hm
  rcases mem_setAt _ _ _ _ hm with hm | hm
  · exact h s' c' hm
  · injection hm with h1 h2; rw [h1]; exact h s c (List.mem_of_getElem? hs)

theorem step_wf (st : List St) (op : Op) (h : WfStore st) : WfStore (step st op).1 := by
  cases op with
  | mk n bits =>
    simp only [step]
    split
    · exact h
    · rename_i s hs; exact h.push_cb s none (mkCB_wf n bits s hs).1
  | mkVec n vid => exact h.push_other _ (by intro s c e; cases e)
  | derive src seq =>
    simp only [step]
    split
    · exact h
    · rename_i s c hs
      have hw : s.wf := h s c (List.mem_of_getElem? hs)
      split
      · split
        · exact h
        · rename_i s' ht; exact h.push_cb s' none ((track_inv s s' _ ht).2 hw)
      · split
        · exact h.fill src s c hs _
        · exact (h.fill src s c hs _).push_other _ (by intro s c e; cases e)
    · split
      · exact h
      · exact h.push_other _ (by intro s c e; cases e)
    · split
      · exact h
      · exact h.push_other _ (by intro s c e; cases e)
  | pauli src g =>
    simp only [step]
    split
    · exact h
    · rename_i s c hs
      have hw : s.wf := h s c (List.mem_of_getElem? hs)
      split
      · exact h
      · rename_i s' ht; exact h.push_cb s' none ((gate_inv s s' g ht).2 hw)
    · exact h
  | touch src =>
    simp only [step]
    split
    · exact h
    · rename_i s c hs; exact h.fill src s c hs _
    · exact h
  | sup a b =>
    simp only [step]
    split
    · split
      · exact h
      · split
        · split
          · exact h
          · exact h.push_other _ (by intro s c e; cases e)
        · exact h
    · exact h

theorem run_wf (st : List St) (ops : List Op) (h : WfStore st) : WfStore (run st ops) := by
  induction ops generalizing st with
  | nil => exact h
  | cons op ops ih => exact ih _ (step_wf st op h)

/-! ### which inputs are rejected -/

theorem supCircuit_ok_iff (sa sb : CB) :
    (∃ gs, supCircuit sa sb = .ok gs) ↔
      sa.n = sb.n ∧ (sa.bits = sb.bits ∨ ∃ d, d < 64 ∧ sa.bits.testBit d ≠ sb.bits.testBit d) := by
  constructor
  · rintro ⟨gs, h⟩
    by_cases hn : sa.n = sb.n
    · refine ⟨hn, ?_⟩
      by_cases hb : sa.bits = sb.bits
      · exact Or.inl hb
      · obtain ⟨d, hd, _⟩ := supCircuit_shape sa sb gs hn hb h
        have := lowestFrom_spec _ _ _ _ hd
        refine Or.inr ⟨d, by omega, ?_⟩
        have hx := this.1
        rw [Nat.testBit_xor] at hx
        intro e; rw [e] at hx; simp at hx
    · simp [supCircuit, hn] at h
  · rintro ⟨hn, h⟩
    by_cases hb : sa.bits = sb.bits
    · exact ⟨xGates sa.n sa.bits, by simp [supCircuit, hn, hb]⟩
    · rcases h with h | ⟨d, hd, hne⟩
      · exact absurd h hb
      · have hbit : (sa.bits ^^^ sb.bits).testBit d = true := by
          rw [Nat.testBit_xor]
          cases h1 : sa.bits.testBit d <;> cases h2 : sb.bits.testBit d <;> simp [h1, h2] at hne ⊢
        obtain ⟨i, hi⟩ := lowestFrom_some_of_bit (sa.bits ^^^ sb.bits) 64 0 d (by omega) (by omega) hbit
        have hz : sa.bits ^^^ sb.bits ≠ 0 := by
          intro e; rw [e] at hbit; simp at hbit
        exact ⟨xGates sa.n sa.bits ++ [rotGate (rotTargets sa.n (sa.bits ^^^ sb.bits)),
          rzGate i (if sb.bits.testBit i = true then 1 else -1) sa.phase sb.phase],
          by simp [supCircuit, hn, hb, differentBitIndex, lowestBitIndex, hz, hi]⟩

/-- below 2^64 two different bit patterns differ at an index below 64 -/
theorem differ_below (a b n : Nat) (ha : a < 2 ^ n) (hb : b < 2 ^ n) (hne : a ≠ b) :
    ∃ d, d < n ∧ a.testBit d ≠ b.testBit d := by
  apply Decidable.byContradiction
  intro hc
  apply hne
  apply Nat.eq_of_testBit_eq
  intro i
  by_cases hi : i < n
  · apply Decidable.byContradiction
    intro hd
    exact hc ⟨i, hi, hd⟩
  · have h1 : 2 ^ n ≤ 2 ^ i := Nat.pow_le_pow_right (by omega) (by omega)
    rw [Nat.testBit_lt_two_pow (Nat.lt_of_lt_of_le ha h1), Nat.testBit_lt_two_pow (Nat.lt_of_lt_of_le hb h1)]

/-- a Pauli-kind gate as the factories `X`, `Y`, `Z`, `Pauli` build it: a target, ids in 1..3 -/
def wfPauliGate (g : RGate) : Bool :=
  match g.kind with
  | .Pauli => (List.zip g.targets g.paulis).all fun p => (pauliOfId p.2).isSome
  | .X | .Y | .Z => !g.targets.isEmpty
  | _ => false

/-- the qubit indices the bookkeeping looks at -/
def usedIdx (g : RGate) : List Nat :=
  match g.kind with
  | .Pauli => (List.zip g.targets g.paulis).map (·.1)
  | _ => g.targets.take 1

theorem single_ok_iff (s : CB) (p : P1) (i : Nat) :
    (∃ s', addSinglePauli s p i = .ok s') ↔ i < s.n := by
  unfold addSinglePauli
  by_cases h : i ≥ s.n
  · simp [h]
  · simp [h]; omega

theorem single_err (s : CB) (p : P1) (i : Nat) (e : Err) (h : addSinglePauli s p i = .error e) : e = .value := by
  unfold addSinglePauli at h
  split at h
  · injection h with h; exact h.symm
  · cases h

theorem factors_ok_iff (s : CB) (l : List (Nat × Nat)) (hw : ∀ a ∈ l, (pauliOfId a.2).isSome = true) :
    ((∃ s', addFactors s l = .ok s') ↔ ∀ a ∈ l, a.1 < s.n) ∧
      (∀ e, addFactors s l = .error e → e = .value) := by
  induction l generalizing s with
  | nil => simp [addFactors]
  | cons a r ih =>
    obtain ⟨i, pid⟩ := a
    have hp := hw (i, pid) List.mem_cons_self
    cases hpp : pauliOfId pid with
    | none => simp [hpp] at hp
    | some p =>
      simp only [addFactors, hpp]
      cases h1 : addSinglePauli s p i with
      | error e =>
        have hi : ¬ i < s.n := fun hi => by
          obtain ⟨s', hs'⟩ := (single_ok_iff s p i).mpr hi
          rw [hs'] at h1; cases h1
        constructor
        · constructor
          · rintro ⟨s', hs'⟩; cases hs'
          · intro h; exact absurd (h (i, pid) List.mem_cons_self) hi
        · intro e' he'; injection he' with he'; rw [← he']; exact single_err s p i e h1
      | ok s1 =>
        have hi : i < s.n := (single_ok_iff s p i).mp ⟨s1, h1⟩
        have hn := (single_inv s s1 p i h1).1
        have := ih s1 (fun a ha => hw a (List.mem_cons_of_mem _ ha))
        simp only []
        constructor
        · rw [this.1, hn]
          constructor
          · intro h a ha
            cases ha with
            | head => exact hi
            | tail _ ha => exact h a ha
          · intro h a ha; exact h a (List.mem_cons_of_mem _ ha)
        · exact this.2

theorem gate_ok_iff (s : CB) (g : RGate) (hw : wfPauliGate g = true) :
    ((∃ s', addPauli s g = .ok s') ↔ ∀ i ∈ usedIdx g, i < s.n) ∧
      (∀ e, addPauli s g = .error e → e = .value) := by
  unfold wfPauliGate at hw
  unfold addPauli usedIdx
  split at hw
  · rename_i hk
    simp only [hk]
    have := factors_ok_iff s (List.zip g.targets g.paulis) (by simpa [List.all_eq_true] using hw)
    constructor
    · rw [this.1]; simp
    · exact this.2
  all_goals first
    | (rename_i hk
       simp only [hk]
       cases ht : g.targets with
       | nil => simp [ht] at hw
       | cons i r =>
         simp only [List.take_succ_cons, List.take_zero, List.mem_singleton, forall_eq]
         exact ⟨single_ok_iff s _ i, fun e he => single_err s _ i e he⟩)
    | cases hw

theorem track_ok_iff_aux (s : CB) (gs : List RGate) (hw : ∀ g ∈ gs, wfPauliGate g = true) :
    ((∃ s', track s gs = .ok s') ↔ ∀ g ∈ gs, ∀ i ∈ usedIdx g, i < s.n) ∧
      (∀ e, track s gs = .error e → e = .value) := by
  induction gs generalizing s with
  | nil => simp [track]
  | cons g gs ih =>
    have hg := gate_ok_iff s g (hw g List.mem_cons_self)
    simp only [track]
    cases h1 : addPauli s g with
    | error e =>
      have hno : ¬ ∀ i ∈ usedIdx g, i < s.n := fun h => by
        obtain ⟨s', hs'⟩ := hg.1.mpr h
        rw [hs'] at h1; cases h1
      constructor
      · constructor
        · rintro ⟨s', hs'⟩; cases hs'
        · intro h; exact absurd (h g List.mem_cons_self) hno
      · intro e' he'; injection he' with he'; rw [← he']; exact hg.2 e h1
    | ok s1 =>
      have hi := hg.1.mp ⟨s1, h1⟩
      have hn := (gate_inv s s1 g h1).1
      have := ih s1 (fun g' hg' => hw g' (List.mem_cons_of_mem _ hg'))
      simp only []
      constructor
      · rw [this.1, hn]
        constructor
        · intro h g' hg'
          cases hg' with
          | head => exact hi
          | tail _ hg' => exact h g' hg'
        · intro h g' hg'; exact h g' (List.mem_cons_of_mem _ hg')
      · exact this.2

/-- a single monomial `± u^e·x^ex` : a number of modulus one for every value of the angles -/
def isUnitMono (p : Poly) : Bool :=
  match p with
  | [(_, c)] => c == 1 || c == -1
  | _ => false

def phaseTable : Bool :=
  (List.range 8).all fun pa => (List.range 8).all fun pb => [true, false].all fun bd =>
    isUnitMono (globalPhase bd (pa : Int) (pb : Int))

theorem phaseTable_ok : phaseTable = true := by decide +kernel

theorem globalPhase_unit (bd : Bool) (pa pb : Int) : isUnitMono (globalPhase bd pa pb) = true := by
  have ha0 : 0 ≤ pa % 8 := Int.emod_nonneg _ (by omega)
  have hb0 : 0 ≤ pb % 8 := Int.emod_nonneg _ (by omega)
  have ha : ((pa % 8).toNat : Int) = pa % 8 := Int.toNat_of_nonneg ha0
  have hb : ((pb % 8).toNat : Int) = pb % 8 := Int.toNat_of_nonneg hb0
  have h := phaseTable_ok
  unfold phaseTable at h
  rw [List.all_eq_true] at h
  have h1 := h (pa % 8).toNat (List.mem_range.mpr (by omega))
  rw [List.all_eq_true] at h1
  have h2 := h1 (pb % 8).toNat (List.mem_range.mpr (by omega))
  rw [List.all_eq_true] at h2
  have h3 := h2 bd (by cases bd <;> simp)
  rw [ha, hb] at h3
  rw [globalPhase_congr]
  exact h3

theorem scaleS_sup (l : List RGate) (hl : ∀ g ∈ l, scaleOf g = 0) (ts : List Nat) (d : Nat) (sgn pa pb : Int) :
    scaleS (l ++ [rotGate ts, rzGate d sgn pa pb]) = 1 := by
  have h0 : ∀ (l : List RGate) (k : Nat), (∀ g ∈ l, scaleOf g = 0) → (l.map scaleOf).foldl (· + ·) k = k := by
    intro l
    induction l with
    | nil => intro k _; rfl
    | cons g r ih =>
      intro k h
      simp only [List.map_cons, List.foldl_cons, h g List.mem_cons_self, Nat.add_zero]
      exact ih k (fun g' hg' => h g' (List.mem_cons_of_mem _ hg'))
  unfold scaleS
  rw [List.map_append, List.foldl_append, h0 l 0 hl]
  rfl

theorem scaleOf_xGates (n bits : Nat) : ∀ g ∈ xGates n bits, scaleOf g = 0 := by
  induction n with
  | zero => intro g hg; simp [xGates] at hg
  | succ n ih =>
    intro g hg
    simp only [xGates, List.mem_append] at hg
    rcases hg with hg | hg
    · exact ih g hg
    · split at hg
      · simp at hg; rw [hg]; rfl
      · simp at hg

end QV.C16
