import QuriVerif.Props.ReflectLift
import QuriVerif.Proof.MeasSound
/-
  C08, operator level (over ℂ): the measurement circuit is unitary and the Born rule turns the operator identity
  `V·P = Z_supp(P)·V` of `Proof/MeasSound` into `⟨ψ|P|ψ⟩ = Σ_x sign_P(x)·|(Vψ)_x|²`, on every register size.

    * §1  finite sums: list sums over `List.range` as `Finset.range` sums; the linear-algebra core `born_core`;
    * §2  adjoints of single gates (kinds H, S, Sdag, X, Y, Z on one wire): `dagG`, entrywise
          `star (U r k) = U† k r` (`hop_single_adj`), `g ; g† = 1` (kernel-checked 2×2 templates `pairT`,
          lifted by `identity_template_uop`);
    * §3  circuits of such gates (`Cliff1`): `hop_dag_entry`, `hop_dag_inverse`, `unitary_cols`;
    * §4  the Born rule for a member of a qubit-wise commuting set (`born_pauli`), norm preservation
          (`born_norm`), linear extension to weighted sums (`born_group`).
  The operators are the honest ones, `U = hop φ V` (`opC` divided by `√2^semK`).
-/
namespace QV.MatSound
open QV QV.Poly QV.Props.Reflect
open scoped BigOperators

/-! ### §1  finite sums -/

theorem list_range_sum (N : ℕ) (f : ℕ → ℂ) :
    ((List.range N).map f).sum = ∑ i ∈ Finset.range N, f i := by
  induction N with
  | zero => simp
  | succ N ih => rw [List.range_succ, List.map_append, List.sum_append, ih, Finset.sum_range_succ]; simp

/-- **linear-algebra core of the Born rule**: if the columns of `U` are orthonormal on the block and
    `U·A = diag(s)·U`, then `ψ†Aψ = Σ_x s_x |(Uψ)_x|²` -/
theorem born_core (N : ℕ) (U A : ℕ → ℕ → ℂ) (s ψ : ℕ → ℂ)
    (hU : ∀ r, r < N → ∀ k, k < N →
      ∑ x ∈ Finset.range N, star (U x r) * U x k = if r = k then 1 else 0)
    (hA : ∀ x, x < N → ∀ j, j < N → ∑ k ∈ Finset.range N, U x k * A k j = s x * U x j) :
    ∑ r ∈ Finset.range N, ∑ j ∈ Finset.range N, star (ψ r) * A r j * ψ j
      = ∑ x ∈ Finset.range N, s x *
          (star (∑ j ∈ Finset.range N, U x j * ψ j) * ∑ j ∈ Finset.range N, U x j * ψ j) := by
  -- expand the right-hand side into a triple sum
  have hR : ∀ x ∈ Finset.range N, s x *
      (star (∑ j ∈ Finset.range N, U x j * ψ j) * ∑ j ∈ Finset.range N, U x j * ψ j)
      = ∑ r ∈ Finset.range N, ∑ j ∈ Finset.range N,
          star (ψ r) * ψ j * (star (U x r) * ∑ k ∈ Finset.range N, U x k * A k j) := by
    intro x hx
    have hx' := Finset.mem_range.mp hx
    rw [star_sum, Finset.sum_mul_sum, Finset.mul_sum]
    apply Finset.sum_congr rfl
    intro r _
    rw [Finset.mul_sum]
    apply Finset.sum_congr rfl
    intro j hj
    rw [hA x hx' j (Finset.mem_range.mp hj), star_mul']
    ring
  have hswap : ∑ x ∈ Finset.range N, ∑ r ∈ Finset.range N, ∑ j ∈ Finset.range N,
        star (ψ r) * ψ j * (star (U x r) * ∑ k ∈ Finset.range N, U x k * A k j)
      = ∑ r ∈ Finset.range N, ∑ j ∈ Finset.range N, ∑ x ∈ Finset.range N,
        star (ψ r) * ψ j * (star (U x r) * ∑ k ∈ Finset.range N, U x k * A k j) := by
    rw [Finset.sum_comm]
    apply Finset.sum_congr rfl
    intro r _
    rw [Finset.sum_comm]
  rw [Finset.sum_congr rfl hR, hswap]
  apply Finset.sum_congr rfl
  intro r hr
  apply Finset.sum_congr rfl
  intro j hj
  have hr' := Finset.mem_range.mp hr
  -- Σ_x star ψ_r ψ_j (star U_xr Σ_k U_xk A_kj) = star ψ_r ψ_j Σ_k (Σ_x star U_xr U_xk) A_kj
  rw [← Finset.mul_sum]
  have : ∑ x ∈ Finset.range N, star (U x r) * ∑ k ∈ Finset.range N, U x k * A k j
      = ∑ k ∈ Finset.range N, (∑ x ∈ Finset.range N, star (U x r) * U x k) * A k j := by
    rw [Finset.sum_congr rfl (fun x _ => Finset.mul_sum _ _ _), Finset.sum_comm]
    apply Finset.sum_congr rfl
    intro k _
    rw [Finset.sum_mul]
    apply Finset.sum_congr rfl
    intro x _
    ring
  rw [this, Finset.sum_congr rfl (fun k hk => by rw [hU r hr' k (Finset.mem_range.mp hk)])]
  simp only [ite_mul, one_mul, zero_mul]
  rw [Finset.sum_ite_eq (Finset.range N) r, if_pos hr]
  ring

/-! ### the honest operator of a gate list

  (`Proof/CtrlSound` has the same notion as `uop`; it cannot be imported together with `Proof/MeasSound`, both
  chains declare a lemma `evalMat_ofFn`, so the few facts needed are restated here under other names.) -/

/-- the ring's `√2` in ℂ -/
noncomputable def sq2 : ℂ := zetaC ^ 2 - zetaC ^ 6

theorem eval_sqrt2_sq2 (φ : ℕ → ℝ) : eval zetaC (rhoC φ) Poly.sqrt2 = sq2 := eval_sqrt2

theorem sq2_ne_zero : sq2 ≠ 0 := by
  have := eval_sqrt2_ne_zero (ζ := zetaC) (ρ := rhoC fun _ => 0) zetaC_pow_eight two_ne_zero
  rwa [eval_sqrt2_sq2] at this

/-- the operator denoted by a gate list: `opC` with its power of `√2` divided out -/
noncomputable def hop (φ : ℕ → ℝ) (gs : List Gate) (r j : ℕ) : ℂ := opC φ gs r j / sq2 ^ semK gs

theorem semK_app (a b : List Gate) : semK (a ++ b) = semK a + semK b := by simp [semK]

theorem hop_nil (φ : ℕ → ℝ) (r j : ℕ) : hop φ [] r j = idMat r j := by
  unfold hop opC
  simp [semK]
  rfl

theorem hop_append (φ : ℕ → ℝ) (n : ℕ) (a b : List Gate) (wb : WellFormed n b) (r j : ℕ)
    (hr : r < 2 ^ n) :
    hop φ (a ++ b) r j = ((List.range (2 ^ n)).map fun k => hop φ b r k * hop φ a k j).sum := by
  unfold hop opC
  rw [semCirc_append, actCirc_eq_sum n b wb _ r j hr, semK_app, pow_add, div_eq_mul_inv,
    ← sum_map_mul_right]
  congr 1
  apply List.map_congr_left
  intro k _
  rw [div_mul_div_comm, mul_comm (sq2 ^ semK b), div_eq_mul_inv]

theorem hop_remove (φ : ℕ → ℝ) (n : ℕ) (pre mid post : List Gate) (wfm : WellFormed n mid)
    (wfp : WellFormed n post)
    (h : ∀ r, r < 2 ^ n → ∀ j, j < 2 ^ n → hop φ mid r j = idMat r j)
    (r : ℕ) (hr : r < 2 ^ n) (j : ℕ) : hop φ (pre ++ mid ++ post) r j = hop φ (pre ++ post) r j := by
  have hs : sq2 ^ semK mid ≠ 0 := pow_ne_zero _ sq2_ne_zero
  have hm : ∀ r, r < 2 ^ n → ∀ k, k < 2 ^ n →
      semCirc zetaC (rhoC φ) mid r k = sq2 ^ semK mid * semCirc zetaC (rhoC φ) [] r k := by
    intro r hr k hk
    have := h r hr k hk
    unfold hop opC at this
    rw [div_eq_iff hs] at this
    rw [this, mul_comm]; rfl
  have := replace_sound n pre mid [] post wfm (WellFormed.nil n) wfp _ hm r hr j
  unfold hop opC
  rw [this, List.append_nil, semK_app, semK_app, semK_app, pow_add, pow_add, pow_add,
    mul_comm (sq2 ^ semK pre) (sq2 ^ semK mid), mul_assoc, mul_div_mul_left _ _ hs]

theorem idgate_entry (φ : ℕ → ℝ) (n t : ℕ) (ht : t < n) (r j : ℕ) (hr : r < 2 ^ n) :
    opC φ [G .Identity [] [t] []] r j = idMat r j := by
  have hid : IsIdGate zetaC (rhoC φ) n (G .Identity [] [t] []) := by
    refine ⟨by simp [G, Gate.wires], by intro w h; simp [G, Gate.wires] at h; omega, ?_⟩
    intro a b ha hb
    have ha' : a < 2 := by simpa [G, Gate.wires] using ha
    have hb' : b < 2 := by simpa [G, Gate.wires] using hb
    rcases two_cases ha' with rfl | rfl <;> rcases two_cases hb' with rfl | rfl <;>
      simp [Gate.localMat, G, evalMat, evalRow, eval_one, eval_nil, idMat]
  exact actCirc_idGates n [_] (fun g' hg' => by
    simp only [List.mem_singleton] at hg'; subst hg'; exact hid) j idMat r hr

/-! ### §2  adjoints of single gates -/

/-- the ring's `√2` is the real `√2` -/
theorem sq2_real : sq2 = ((Real.sqrt 2 : ℝ) : ℂ) := by
  have h2 : zetaC ^ 2 = Complex.exp (((Real.pi / 4 : ℝ) : ℂ) * Complex.I) := by
    unfold zetaC; rw [← Complex.exp_nat_mul]; congr 1; push_cast; ring
  have h6 : zetaC ^ 6 = - Complex.exp (-(((Real.pi / 4 : ℝ) : ℂ)) * Complex.I) := by
    unfold zetaC; rw [← Complex.exp_nat_mul]
    have : ((6 : ℕ) : ℂ) * (↑Real.pi * Complex.I / 8)
        = ↑Real.pi * Complex.I + -(((Real.pi / 4 : ℝ) : ℂ)) * Complex.I := by push_cast; ring
    rw [this, Complex.exp_add, Complex.exp_pi_mul_I]; ring
  unfold sq2
  rw [h2, h6, sub_neg_eq_add, ← Complex.two_cos, ← Complex.ofReal_cos, Real.cos_pi_div_four]
  push_cast; ring

theorem star_sq2 : star (sq2) = sq2 := by
  rw [sq2_real]; exact Complex.conj_ofReal _

/-- the single-wire kinds whose adjoint is in the vocabulary -/
def K1 : List Kind := [.H, .S, .Sdag, .X, .Y, .Z]

/-- kind of the adjoint gate -/
def dagK (k : Kind) : Kind := if k = .S then .Sdag else if k = .Sdag then .S else k

/-- the adjoint of a canonical one-wire gate -/
def dagG (g : Gate) : Gate := { g with kind := dagK g.kind }

/-- a canonical gate `G k [] [q]` of a kind in `K1` on a wire `< n` -/
def Cliff1 (n : ℕ) (g : Gate) : Prop := ∃ k ∈ K1, ∃ q, q < n ∧ g = G k [] [q] []

theorem dagG_G (k : Kind) (q : ℕ) : dagG (G k [] [q] []) = G (dagK k) [] [q] [] := rfl

theorem dagK_mem {k : Kind} (h : k ∈ K1) : dagK k ∈ K1 := by
  simp only [K1, List.mem_cons, List.mem_nil_iff, or_false] at h
  rcases h with rfl | rfl | rfl | rfl | rfl | rfl <;> decide

theorem cliff1_dag {n : ℕ} {g : Gate} (h : Cliff1 n g) : Cliff1 n (dagG g) := by
  obtain ⟨k, hk, q, hq, rfl⟩ := h
  exact ⟨dagK k, dagK_mem hk, q, hq, dagG_G k q⟩

theorem cliff1_wf {n : ℕ} {g : Gate} (h : Cliff1 n g) : WellFormed n [g] := by
  obtain ⟨k, _, q, hq, rfl⟩ := h
  intro g' hg'
  simp only [List.mem_singleton] at hg'
  subst hg'
  exact ⟨by simp [G, Gate.wires], by intro w hw; simp [G, Gate.wires] at hw; omega⟩

theorem star_zeta4 : star (zetaC ^ 4) = -(zetaC ^ 4) := by
  rw [zetaC_pow_four]; exact Complex.conj_I

theorem conj_zeta4 : (starRingEnd ℂ) zetaC ^ 4 = -zetaC ^ 4 := by
  rw [← map_pow]; exact star_zeta4

/-- local matrices: `star (L_g a b) = L_{g†} b a`, same scale -/
theorem loc_adj (φ : ℕ → ℝ) (k : Kind) (hk : k ∈ K1) (q a b : ℕ) (ha : a < 2) (hb : b < 2) :
    star (evalMat zetaC (rhoC φ) (G k [] [q] []).localMat.m a b)
      = evalMat zetaC (rhoC φ) (G (dagK k) [] [q] []).localMat.m b a ∧
    (G (dagK k) [] [q] []).localMat.k = (G k [] [q] []).localMat.k := by
  simp only [K1, List.mem_cons, List.mem_nil_iff, or_false] at hk
  rcases hk with rfl | rfl | rfl | rfl | rfl | rfl <;>
    rcases two_cases ha with rfl | rfl <;> rcases two_cases hb with rfl | rfl <;>
    simp [dagK, Gate.localMat, G, evalMat, evalRow, eval_neg, eval_one, eval_nil, eval_I, conj_zeta4]

/-- **one gate on the register**: `star (U r k) = U† k r` -/
theorem hop_single_adj (φ : ℕ → ℝ) (n : ℕ) (g : Gate) (hg : Cliff1 n g) (r k : ℕ) (hr : r < 2 ^ n)
    (hk : k < 2 ^ n) :
    star (hop φ [g] r k) = hop φ [dagG g] k r := by
  obtain ⟨kd, hkd, q, hq, rfl⟩ := hg
  rw [dagG_G]
  have hw1 : (G kd [] [q] []).wires = [q] := rfl
  have hw2 : (G (dagK kd) [] [q] []).wires = [q] := rfl
  have hnd : ([q] : List ℕ).Nodup := by simp
  have hlt : ∀ w ∈ ([q] : List ℕ), w < n := by intro w hw; simp at hw; omega
  unfold hop opC
  rw [semCirc_single n _ (hw1 ▸ hnd) (hw1 ▸ hlt) r k hr hk,
    semCirc_single n _ (hw2 ▸ hnd) (hw2 ▸ hlt) k r hk hr, hw1, hw2]
  have hsk : semK [G (dagK kd) [] [q] []] = semK [G kd [] [q] []] := by
    simp only [semK, List.map_cons, List.map_nil]
    rw [(loc_adj φ kd hkd q 0 0 (by norm_num) (by norm_num)).2]
  rw [hsk, star_div₀, star_pow, star_sq2]
  congr 1
  by_cases hc : Gate.clearBits [q] r = Gate.clearBits [q] k
  · rw [if_pos hc, if_pos hc.symm]
    have hl : ∀ x, Gate.locIdx [q] x < 2 := by
      intro x; have := locIdx_lt [q] x; simpa using this
    exact (loc_adj φ kd hkd q _ _ (hl r) (hl k)).1
  · rw [if_neg hc, if_neg (fun h => hc h.symm), star_zero]

/-- the templates `g ; g† = Identity` on one wire -/
def pairT (k : Kind) : Template := ⟨1, G .Identity [] [0] [], [G k [] [0] [], G (dagK k) [] [0] []]⟩

theorem pairT_ok : (K1.all fun k => (pairT k).checkExact) = true := by decide +kernel

/-- **`g ; g† = 1`** on the register -/
theorem hop_pair (φ : ℕ → ℝ) (n : ℕ) (g : Gate) (hg : Cliff1 n g) (r j : ℕ) (hr : r < 2 ^ n)
    (hj : j < 2 ^ n) : hop φ [g, dagG g] r j = idMat r j := by
  obtain ⟨k, hk, q, hq, rfl⟩ := hg
  have hc := List.all_eq_true.mp pairT_ok k hk
  have hP : Placement (fun _ : ℕ => q) 1 n := ⟨fun a ha b hb _ => by omega, fun _ _ => hq⟩
  have wfb : WellFormed 1 (pairT k).body := by
    intro g hg
    simp only [pairT, List.mem_cons, List.mem_nil_iff, or_false] at hg
    rcases hg with rfl | rfl <;>
      exact ⟨by simp [G, Gate.wires], by intro w hw; simp [G, Gate.wires] at hw; omega⟩
  have wft : WellFormed 1 [(pairT k).target] := by
    intro g hg
    simp only [pairT, List.mem_singleton] at hg
    subst hg
    exact ⟨by simp [G, Gate.wires], by intro w hw; simp [G, Gate.wires] at hw; omega⟩
  have hkb : ∀ g ∈ (pairT k).body, g.kind ≠ .UnitaryMatrix := by
    intro g hg
    simp only [pairT, List.mem_cons, List.mem_nil_iff, or_false] at hg
    have hk' := dagK_mem hk
    simp only [K1, List.mem_cons, List.mem_nil_iff, or_false] at hk hk'
    rcases hg with rfl | rfl
    · rcases hk with rfl | rfl | rfl | rfl | rfl | rfl <;> decide
    · show dagK k ≠ Kind.UnitaryMatrix
      rcases hk' with h | h | h | h | h | h <;> rw [h] <;> decide
  have h1 := Template.instance_exact (ζ := zetaC) (ρ := rhoC φ) zetaC_pow_eight (rhoC_ne_zero φ)
    two_ne_zero (pairT k) hc wfb wft hP [] hkb
    (by show Kind.Identity ≠ Kind.UnitaryMatrix; decide) r hr j hj
  have e1 : ((pairT k).body.map (Gate.subst [])).map (Gate.relabel fun _ => q)
      = [G k [] [q] [], dagG (G k [] [q] [])] := rfl
  have e2 : ((pairT k).target.subst []).relabel (fun _ => q) = G .Identity [] [q] [] := rfl
  have hk0 : semK [(pairT k).target] = 0 := rfl
  have hkk : semK (pairT k).body = semK [G k [] [q] [], dagG (G k [] [q] [])] := rfl
  rw [e1, e2, hk0, pow_zero, div_one, eval_sqrt2_sq2, hkk] at h1
  unfold hop
  show opC φ _ r j / _ = _
  unfold opC
  rw [h1]
  have := idgate_entry φ n q hq r j hr
  unfold opC at this
  rw [this]
  exact mul_div_cancel_left₀ _ (pow_ne_zero _ sq2_ne_zero)

/-! ### §3  circuits of such gates -/

/-- the adjoint circuit: daggered gates in reverse order -/
def dagList (V : List Gate) : List Gate := (V.map dagG).reverse

theorem dagList_snoc (V : List Gate) (g : Gate) : dagList (V ++ [g]) = dagG g :: dagList V := by
  simp [dagList]

theorem wf_cliff {n : ℕ} {V : List Gate} (h : ∀ g ∈ V, Cliff1 n g) : WellFormed n V :=
  fun g hg => cliff1_wf (h g hg) g (List.mem_singleton.mpr rfl)

theorem cliff_dagList {n : ℕ} {V : List Gate} (h : ∀ g ∈ V, Cliff1 n g) :
    ∀ g ∈ dagList V, Cliff1 n g := by
  intro g hg
  obtain ⟨g0, hg0, rfl⟩ := List.mem_map.mp (List.mem_reverse.mp hg)
  exact cliff1_dag (h g0 hg0)

/-- **entrywise adjoint of a circuit**: `star (U r j) = U† j r` -/
theorem hop_dag_entry (φ : ℕ → ℝ) (n : ℕ) : ∀ (V : List Gate), (∀ g ∈ V, Cliff1 n g) →
    ∀ r, r < 2 ^ n → ∀ j, j < 2 ^ n →
      star (hop φ V r j) = hop φ (dagList V) j r := by
  intro V
  induction V using List.reverseRec with
  | nil =>
    intro _ r _ j _
    rw [hop_nil]
    show star (idMat r j : ℂ) = hop φ [] j r
    rw [hop_nil]
    unfold idMat
    by_cases e : r = j
    · rw [if_pos e, if_pos e.symm, star_one]
    · rw [if_neg e, if_neg (fun h => e h.symm), star_zero]
  | append_singleton V g ih =>
    intro h r hr j hj
    have hV : ∀ g' ∈ V, Cliff1 n g' := fun g' hg' => h g' (by simp [hg'])
    have hg := h g (by simp)
    rw [hop_append φ n V [g] (cliff1_wf hg) r j hr, dagList_snoc,
      show dagG g :: dagList V = [dagG g] ++ dagList V from rfl,
      hop_append φ n [dagG g] (dagList V) (wf_cliff (cliff_dagList hV)) j r hj,
      list_range_sum, list_range_sum, star_sum]
    apply Finset.sum_congr rfl
    intro k hk
    have hk' := Finset.mem_range.mp hk
    rw [star_mul', hop_single_adj φ n g hg r k hr hk', ih hV k hk' j hj, mul_comm]

/-- **`V ; V† = 1`** as circuits -/
theorem hop_dag_inverse (φ : ℕ → ℝ) (n : ℕ) : ∀ (V : List Gate), (∀ g ∈ V, Cliff1 n g) →
    ∀ r, r < 2 ^ n → ∀ j, j < 2 ^ n → hop φ (V ++ dagList V) r j = idMat r j := by
  intro V
  induction V using List.reverseRec with
  | nil => intro _ r _ j _; exact hop_nil φ r j
  | append_singleton V g ih =>
    intro h r hr j hj
    have hV : ∀ g' ∈ V, Cliff1 n g' := fun g' hg' => h g' (by simp [hg'])
    have hg := h g (by simp)
    have e : V ++ [g] ++ dagList (V ++ [g]) = V ++ [g, dagG g] ++ dagList V := by
      rw [dagList_snoc]; simp
    have wfp : WellFormed n [g, dagG g] :=
      WellFormed.append (a := [g]) (cliff1_wf hg) (cliff1_wf (cliff1_dag hg))
    rw [e, hop_remove φ n V [g, dagG g] (dagList V) wfp
      (wf_cliff (cliff_dagList hV)) (fun r hr j hj => hop_pair φ n g hg r j hr hj) r hr j]
    exact ih hV r hr j hj

/-- **the columns of `U` are orthonormal** (`U†U = 1` entrywise) -/
theorem unitary_cols (φ : ℕ → ℝ) (n : ℕ) (V : List Gate) (h : ∀ g ∈ V, Cliff1 n g) (r k : ℕ)
    (hr : r < 2 ^ n) (hk : k < 2 ^ n) :
    ∑ x ∈ Finset.range (2 ^ n), star (hop φ V x r) * hop φ V x k
      = if r = k then 1 else 0 := by
  have h1 := hop_dag_inverse φ n V h r hr k hk
  rw [hop_append φ n V (dagList V) (wf_cliff (cliff_dagList h)) r k hr, list_range_sum] at h1
  rw [show (if r = k then (1 : ℂ) else 0) = idMat r k from rfl, ← h1]
  apply Finset.sum_congr rfl
  intro x hx
  rw [hop_dag_entry φ n V h x (Finset.mem_range.mp hx) r hr]

/-! ### §4  the Born rule for the measurement circuit of a qubit-wise commuting set -/

/-- the gates of the model's measurement circuit are canonical H / Sdag gates -/
theorem cliff_meas (n : ℕ) (gates : List C07.MGate) (wf : WellFormed n (gates.map MGate.toGate)) :
    ∀ g ∈ gates.map MGate.toGate, Cliff1 n g := by
  intro g hg
  have hw := wf g hg
  obtain ⟨m, _, rfl⟩ := List.mem_map.mp hg
  cases m with
  | H q => exact ⟨.H, by decide, q, hw.2 q (by simp [MGate.toGate, G, Gate.wires]), rfl⟩
  | Sdag q => exact ⟨.Sdag, by decide, q, hw.2 q (by simp [MGate.toGate, G, Gate.wires]), rfl⟩

/-- `⟨ψ| A |ψ⟩` on the `2^n` block -/
noncomputable def expv (n : ℕ) (A : ℕ → ℕ → ℂ) (ψ : ℕ → ℂ) : ℂ :=
  ∑ r ∈ Finset.range (2 ^ n), ∑ j ∈ Finset.range (2 ^ n), star (ψ r) * A r j * ψ j

/-- amplitude of outcome `x` after the circuit `V`: `(Uψ)_x` -/
noncomputable def ampl (φ : ℕ → ℝ) (n : ℕ) (V : List Gate) (ψ : ℕ → ℂ) (x : ℕ) : ℂ :=
  ∑ j ∈ Finset.range (2 ^ n), hop φ V x j * ψ j

/-- Born weight of outcome `x`: `|(Uψ)_x|²` -/
noncomputable def prob (φ : ℕ → ℝ) (n : ℕ) (V : List Gate) (ψ : ℕ → ℂ) (x : ℕ) : ℝ :=
  Complex.normSq (ampl φ n V ψ x)

theorem prob_eq (φ : ℕ → ℝ) (n : ℕ) (V : List Gate) (ψ : ℕ → ℂ) (x : ℕ) :
    ((prob φ n V ψ x : ℝ) : ℂ) = star (ampl φ n V ψ x) * ampl φ n V ψ x := by
  unfold prob; rw [Complex.normSq_eq_conj_mul_self]; rfl

/-- the reconstructor's sign as a number -/
def sgn (P : C06.Label) (x : ℕ) : ℂ := if C07.reconstructor P x then -1 else 1

/-- the matrix of a Pauli label -/
noncomputable def pauliMat (φ : ℕ → ℝ) (P : C06.Label) : ℕ → ℕ → ℂ := opC φ (labelGates P)

/-- `V·P = diag(sign_P)·V` for the honest operator of the measurement circuit -/
theorem hop_eigen (φ : ℕ → ℝ) (n : ℕ) (set : List C07.Label) (gates : List C07.MGate)
    (h : C07.measCircuit set = .ok gates) (hsup : ∀ L ∈ set, Sup n L) (P : C06.Label) (hP : P ∈ set)
    (hok : LabelOK n P) (x : ℕ) (hx : x < 2 ^ n) (j : ℕ) (hj : j < 2 ^ n) :
    ∑ k ∈ Finset.range (2 ^ n), hop φ (gates.map MGate.toGate) x k * pauliMat φ P k j
      = sgn P x * hop φ (gates.map MGate.toGate) x j := by
  obtain ⟨wfV, _⟩ := measCircuit_sound (ζ := zetaC) (ρ := rhoC φ) zetaC_pow_eight (rhoC_ne_zero φ)
    two_ne_zero n set gates h hsup P hP (fun e he => (hok.2 e he).2)
  have he := meas_eigen (ζ := zetaC) (ρ := rhoC φ) zetaC_pow_eight (rhoC_ne_zero φ) two_ne_zero n set
    gates h hsup P hP hok x hx j hj
  rw [semCirc_append, actCirc_eq_sum n _ wfV _ x j hx, list_range_sum] at he
  unfold hop pauliMat opC sgn
  rw [Finset.sum_congr rfl (fun k _ => div_mul_eq_mul_div _ _ _)]
  simp only [div_eq_mul_inv]
  rw [← Finset.sum_mul, he, mul_assoc]

/-- **Born rule for one Pauli of the set**: `⟨ψ|P|ψ⟩ = Σ_x sign_P(x)·|(Vψ)_x|²` -/
theorem born_pauli (φ : ℕ → ℝ) (n : ℕ) (set : List C07.Label) (gates : List C07.MGate)
    (h : C07.measCircuit set = .ok gates) (hsup : ∀ L ∈ set, Sup n L) (P : C06.Label) (hP : P ∈ set)
    (hok : LabelOK n P) (ψ : ℕ → ℂ) :
    expv n (pauliMat φ P) ψ
      = ∑ x ∈ Finset.range (2 ^ n), sgn P x * (prob φ n (gates.map MGate.toGate) ψ x : ℂ) := by
  obtain ⟨wfV, _⟩ := measCircuit_sound (ζ := zetaC) (ρ := rhoC φ) zetaC_pow_eight (rhoC_ne_zero φ)
    two_ne_zero n set gates h hsup P hP (fun e he => (hok.2 e he).2)
  have hc := cliff_meas n gates wfV
  unfold expv
  rw [born_core (2 ^ n) (hop φ (gates.map MGate.toGate)) (pauliMat φ P) (sgn P) ψ
    (fun r hr k hk => unitary_cols φ n _ hc r k hr hk)
    (fun x hx j hj => hop_eigen φ n set gates h hsup P hP hok x hx j hj)]
  apply Finset.sum_congr rfl
  intro x _
  rw [prob_eq]; rfl

/-- **norm preservation**: `⟨ψ|ψ⟩ = Σ_x |(Vψ)_x|²` for every circuit of `Cliff1` gates -/
theorem born_norm (φ : ℕ → ℝ) (n : ℕ) (V : List Gate) (hc : ∀ g ∈ V, Cliff1 n g) (ψ : ℕ → ℂ) :
    ∑ r ∈ Finset.range (2 ^ n), star (ψ r) * ψ r
      = ∑ x ∈ Finset.range (2 ^ n), (prob φ n V ψ x : ℂ) := by
  have := born_core (2 ^ n) (hop φ V) (fun r j => if r = j then 1 else 0) (fun _ => 1) ψ
    (fun r hr k hk => unitary_cols φ n V hc r k hr hk)
    (fun x hx j hj => by
      simp only [mul_ite, mul_one, mul_zero, one_mul]
      rw [Finset.sum_ite_eq' (Finset.range (2 ^ n)) j, if_pos (Finset.mem_range.mpr hj)])
  have hl : ∑ r ∈ Finset.range (2 ^ n), ∑ j ∈ Finset.range (2 ^ n),
      star (ψ r) * (if r = j then (1 : ℂ) else 0) * ψ j
      = ∑ r ∈ Finset.range (2 ^ n), star (ψ r) * ψ r := by
    apply Finset.sum_congr rfl
    intro r hr
    simp only [mul_ite, mul_one, mul_zero, ite_mul, zero_mul]
    rw [Finset.sum_ite_eq (Finset.range (2 ^ n)) r, if_pos hr]
  rw [← hl, this]
  apply Finset.sum_congr rfl
  intro x _
  rw [one_mul, prob_eq]; rfl

/-- **linear extension**: a weighted sum of Paulis of the set is estimated from ONE outcome distribution -/
theorem born_group (φ : ℕ → ℝ) (n : ℕ) (set : List C07.Label) (gates : List C07.MGate)
    (h : C07.measCircuit set = .ok gates) (hsup : ∀ L ∈ set, Sup n L) (ψ : ℕ → ℂ) :
    ∀ (terms : List (C06.Label × ℂ)), (∀ t ∈ terms, t.1 ∈ set ∧ LabelOK n t.1) →
      (terms.map fun t => t.2 * expv n (pauliMat φ t.1) ψ).sum
        = ∑ x ∈ Finset.range (2 ^ n), (prob φ n (gates.map MGate.toGate) ψ x : ℂ)
            * (terms.map fun t => t.2 * sgn t.1 x).sum := by
  intro terms
  induction terms with
  | nil => intro _; simp
  | cons t terms ih =>
    intro ht
    have h0 := ht t (List.mem_cons_self ..)
    rw [List.map_cons, List.sum_cons, ih (fun u hu => ht u (List.mem_cons_of_mem _ hu)),
      born_pauli φ n set gates h hsup t.1 h0.1 h0.2 ψ, Finset.mul_sum, ← Finset.sum_add_distrib]
    apply Finset.sum_congr rfl
    intro x _
    rw [List.map_cons, List.sum_cons]
    ring

end QV.MatSound
