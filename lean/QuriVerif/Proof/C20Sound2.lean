import QuriVerif.Proof.C20Sound
/-
  C20 — under an alias-free configuration every step (other than reading the stored back reference of
  a bound circuit) is alias-free and keeps the flag invariant.
-/
set_option linter.unusedSimpArgs false
namespace QV.C20

def SSim (cfg : Cfg) (s : St) (op : Op) : Prop :=
  (step cfg s op).safe = true ∧ FInv (step cfg s op).st

theorem ss_newC {cfg : Cfg} (hs : cfg.sound = true) {s : St} (hI : Inv s) (hF : FInv s) (n : Nat) : SSim cfg s (.newC n) := by
  simp only [SSim, step, Op.target]
  have := (sound_fam hs .qc).nf
  simp only [Cfg.fam, Cls.par] at this
  exact ⟨by trivial, push_c_f _ (allocR_f _ hI hF (fun _ => by simpa using this))⟩

theorem ss_newP {cfg : Cfg} (hs : cfg.sound = true) {s : St} (hI : Inv s) (hF : FInv s) (n : Nat) : SSim cfg s (.newP n) := by
  simp only [SSim, step, Op.target]
  have := (sound_fam hs .pqc).nf
  simp only [Cfg.fam, Cls.par] at this
  exact ⟨by trivial, push_c_f _ (allocR_f _ hI hF (fun _ => by simpa using this))⟩

theorem ss_newL {cfg : Cfg} (hs : cfg.sound = true) {s : St} (hI : Inv s) (hF : FInv s) (n : Nat) : SSim cfg s (.newL n) := by
  simp only [SSim, step, Op.target]
  have := (sound_fam hs .pqc).nf
  simp only [Cfg.fam, Cls.par] at this
  have h1 := allocR_f ⟨newRV .pqc n, cfg.par.newFlag, none, 0⟩ hI hF (fun _ => by simpa using this)
  have i1 := allocR_inv ⟨newRV .pqc n, cfg.par.newFlag, none, 0⟩ hI (by intro n h; cases h)
  exact ⟨by trivial, push_c_f _ (allocL_f _ i1 h1)⟩

theorem ss_mut {cfg : Cfg} {s : St} (hF : FInv s) (op : Op) (h : Nat) (ht : op.target = some h) : SSim cfg s op := by
  simp only [SSim, step, ht]
  by_cases hh : h < s.nH
  · cases e : s.hs h with
    | s r => simp only [hh, if_true]; exact ⟨by trivial, hF⟩
    | c r =>
      simp only [hh, if_true]
      by_cases hm : (s.readRef r).mu = true
      · simp only [hm, if_true]
        cases mutV s.look s.np (sameRef s r op) op (s.readRef r) with
        | none => exact ⟨by trivial, hF⟩
        | some m => exact ⟨by trivial, (writeRef_f cfg hF r m.core).set_np m.np⟩
      · simp only [hm]; exact ⟨by trivial, hF⟩
  · simp only [hh, if_false]; exact ⟨by trivial, hF⟩

theorem ss_freeze {cfg : Cfg} (hs : cfg.sound = true) {s : St} (hI : Inv s) (hF : FInv s) (h : Nat) : SSim cfg s (.freeze h) := by
  simp only [SSim, step, Op.target]
  by_cases hh : h < s.nH
  · cases e : s.hs h with
    | c r =>
      simp only [hh, e, if_true]
      obtain ⟨f1, f2, _⟩ := freezeRef_f hs hI hF (refOK_of_handle hI hh (.inl e))
      exact ⟨f2, push_c_f _ f1⟩
    | s r => simp only [hh, e, if_true]; exact ⟨by trivial, hF⟩
  · simp only [hh, if_false]; exact ⟨by trivial, hF⟩

theorem ss_mkState {cfg : Cfg} (hs : cfg.sound = true) {s : St} (hI : Inv s) (hF : FInv s) (h : Nat) : SSim cfg s (.mkState h) := by
  simp only [SSim, step, Op.target]
  by_cases hh : h < s.nH
  · cases e : s.hs h with
    | c r =>
      simp only [hh, e, if_true]
      obtain ⟨f1, f2, f3⟩ := freezeRef_f hs hI hF (refOK_of_handle hI hh (.inl e))
      exact ⟨f2, push_s_f _ f1 f3⟩
    | s r => simp only [hh, e, if_true]; exact ⟨by trivial, hF⟩
  · simp only [hh, if_false]; exact ⟨by trivial, hF⟩

theorem ss_mutCopy {cfg : Cfg} (hs : cfg.sound = true) {s : St} (hI : Inv s) (hF : FInv s) (h : Nat) : SSim cfg s (.mutCopy h) := by
  simp only [SSim, step, Op.target]
  by_cases hh : h < s.nH
  · cases e : s.hs h with
    | c r =>
      have hr := refOK_of_handle hI hh (.inl e)
      cases r with
      | r a => simp only [hh, e, if_true]; exact ⟨by trivial, push_c_f _ (copyR_f hs hI hF a)⟩
      | l l => simp only [hh, e, if_true]; exact ⟨by trivial, push_c_f _ (copyL_f hs hI hF hr)⟩
    | s r => simp only [hh, e, if_true]; exact ⟨by trivial, hF⟩
  · simp only [hh, if_false]; exact ⟨by trivial, hF⟩

theorem ss_immCtor {cfg : Cfg} (hs : cfg.sound = true) {s : St} (hI : Inv s) (hF : FInv s) (h : Nat) : SSim cfg s (.immCtor h) := by
  simp only [SSim, step, Op.target]
  by_cases hh : h < s.nH
  · cases e : s.hs h with
    | c r =>
      have hr := refOK_of_handle hI hh (.inl e)
      cases r with
      | r a =>
        simp only [hh, e, if_true]
        obtain ⟨f1, f2⟩ := ctorR_f hs hI hF hr
        exact ⟨f2, push_c_f _ f1⟩
      | l l =>
        simp only [hh, e, if_true]
        obtain ⟨f1, f2, _⟩ := ctorL_f hs hI hF hr
        exact ⟨f2, push_c_f _ f1⟩
    | s r => simp only [hh, e, if_true]; exact ⟨by trivial, hF⟩
  · simp only [hh, if_false]; exact ⟨by trivial, hF⟩

theorem ss_primitive {cfg : Cfg} (hs : cfg.sound = true) {s : St} (hI : Inv s) (hF : FInv s) (h : Nat) : SSim cfg s (.primitive h) := by
  simp only [SSim, step, Op.target]
  by_cases hh : h < s.nH
  · cases e : s.hs h with
    | c r =>
      have hr := refOK_of_handle hI hh (.inl e)
      cases r with
      | r a =>
        simp only [hh, e, if_true]
        by_cases hp : (s.rs a).v.cls.par = true
        · simp only [hp, if_true]
          obtain ⟨f1, f2⟩ := freezeR_f hs hI hF hr
          exact ⟨f2, push_c_f _ f1⟩
        · simp only [hp]; exact ⟨by trivial, hF⟩
      | l l =>
        simp only [hh, e, if_true]
        obtain ⟨f1, f2⟩ := freezeR_f hs hI hF (hI.b2 l hr)
        exact ⟨f2, push_c_f _ f1⟩
    | s r => simp only [hh, e, if_true]; exact ⟨by trivial, hF⟩
  · simp only [hh, if_false]; exact ⟨by trivial, hF⟩

theorem ss_combine_core {cfg : Cfg} (hs : cfg.sound = true) {s : St} (hI : Inv s) (hF : FInv s) {r : Ref}
    (hr : RefOK s r) (a : CV ⊕ List G) :
    (match combineV (s.readRef r) a with
      | .error e => (⟨s, .err e, true⟩ : Res)
      | .ok res =>
        ⟨(allocCV s res (combineMeta cfg s r (s.readRef r) res).1 (combineMeta cfg s r (s.readRef r) res).2).1.push
          (.c (allocCV s res (combineMeta cfg s r (s.readRef r) res).1 (combineMeta cfg s r (s.readRef r) res).2).2),
         .ok, true⟩).safe = true ∧
    FInv (match combineV (s.readRef r) a with
      | .error e => (⟨s, .err e, true⟩ : Res)
      | .ok res =>
        ⟨(allocCV s res (combineMeta cfg s r (s.readRef r) res).1 (combineMeta cfg s r (s.readRef r) res).2).1.push
          (.c (allocCV s res (combineMeta cfg s r (s.readRef r) res).1 (combineMeta cfg s r (s.readRef r) res).2).2),
         .ok, true⟩).st := by
  cases hc : combineV (s.readRef r) a with
  | error er => exact ⟨by trivial, hF⟩
  | ok res =>
    simp only []
    refine ⟨by trivial, push_c_f _ ?_⟩
    rw [combineMeta_imm hs]
    exact allocCV_f hI hF res _ (fun n hn => combineMeta_dc (sound_base hs) hI hr res n hn)

theorem ss_combine {cfg : Cfg} (hs : cfg.sound = true) {s : St} (hI : Inv s) (hF : FInv s) (h : Nat) (src : Src) :
    SSim cfg s (.combine h src) := by
  simp only [SSim, step, Op.target]
  by_cases hh : h < s.nH
  · cases e : s.hs h with
    | c r =>
      have hr := refOK_of_handle hI hh (.inl e)
      simp only [hh, e, if_true]
      cases src with
      | lit gs => exact ss_combine_core hs hI hF hr _
      | h j =>
        simp only []
        cases lookC s.look j with
        | none => exact ⟨by trivial, hF⟩
        | some w => exact ss_combine_core hs hI hF hr _
    | s r => simp only [hh, e, if_true]; exact ⟨by trivial, hF⟩
  · simp only [hh, if_false]; exact ⟨by trivial, hF⟩

theorem ss_bind {cfg : Cfg} (hs : cfg.sound = true) {s : St} (hI : Inv s) (hF : FInv s) (h : Nat) (vals : List Int) :
    SSim cfg s (.bind h vals) := by
  simp only [SSim, step, Op.target]
  by_cases hh : h < s.nH
  · cases e : s.hs h with
    | c r =>
      have hr := refOK_of_handle hI hh (.inl e)
      simp only [hh, e, if_true]
      cases hb : bindCV (s.readRef r) vals with
      | none => exact ⟨by trivial, hF⟩
      | some x =>
        cases x with
        | error er => exact ⟨by trivial, hF⟩
        | ok v =>
          simp only []
          obtain ⟨h1, _⟩ := bindCV_ok hI hr hb
          exact ⟨by trivial, push_c_f _ (bindR_f hs hI hF h1 v (bindCV_cls hb)).1⟩
    | s r => simp only [hh, e, if_true]; exact ⟨by trivial, hF⟩
  · simp only [hh, if_false]; exact ⟨by trivial, hF⟩

theorem ss_stBind {cfg : Cfg} (hs : cfg.sound = true) {s : St} (hI : Inv s) (hF : FInv s) (h : Nat) (vals : List Int) :
    SSim cfg s (.stBind h vals) := by
  simp only [SSim, step, Op.target]
  by_cases hh : h < s.nH
  · cases e : s.hs h with
    | s r =>
      have hr := refOK_of_handle hI hh (.inr e)
      simp only [hh, e, if_true]
      cases hb : bindCV (s.readRef r) vals with
      | none => exact ⟨by trivial, hF⟩
      | some x =>
        cases x with
        | error er => exact ⟨by trivial, hF⟩
        | ok v =>
          simp only []
          obtain ⟨h1, _⟩ := bindCV_ok hI hr hb
          obtain ⟨b1, b2⟩ := bindR_f hs hI hF h1 v (bindCV_cls hb)
          exact ⟨by trivial, push_s_f _ b1 (by simpa [St.refMut] using b2)⟩
    | c r => simp only [hh, e, if_true]; exact ⟨by trivial, hF⟩
  · simp only [hh, if_false]; exact ⟨by trivial, hF⟩

theorem ss_stCircuit {cfg : Cfg} {s : St} (hF : FInv s) (h : Nat) : SSim cfg s (.stCircuit h) := by
  simp only [SSim, step, Op.target]
  by_cases hh : h < s.nH
  · cases e : s.hs h with
    | s r =>
      simp only [hh, e, if_true]
      exact ⟨by simp [hF.f2 h r hh e], push_c_f _ hF⟩
    | c r => simp only [hh, e, if_true]; exact ⟨by trivial, hF⟩
  · simp only [hh, if_false]; exact ⟨by trivial, hF⟩

theorem ss_obs {cfg : Cfg} {s : St} (hF : FInv s) (h : Nat) : SSim cfg s (.obs h) := by
  simp only [SSim, step, Op.target]
  by_cases hh : h < s.nH
  · simp only [hh, if_true]; exact ⟨by trivial, hF⟩
  · simp only [hh, if_false]; exact ⟨by trivial, hF⟩

theorem ss_eq {cfg : Cfg} {s : St} (hF : FInv s) (h j : Nat) : SSim cfg s (.eq h j) := by
  simp only [SSim, step, Op.target]
  by_cases hh : h < s.nH
  · cases e : s.hs h with
    | c r =>
      simp only [hh, e, if_true]
      by_cases hj : j < s.nH
      · cases e' : s.hs j with
        | c r' =>
          simp only [hj, e', if_true]
          cases eqV (s.readRef r) (s.readRef r') <;> exact ⟨by trivial, hF⟩
        | s r' => simp only [hj, e', if_true]; exact ⟨by trivial, hF⟩
      · simp only [hj, if_false]; exact ⟨by trivial, hF⟩
    | s r => simp only [hh, e, if_true]; exact ⟨by trivial, hF⟩
  · simp only [hh, if_false]; exact ⟨by trivial, hF⟩

theorem ss_depth {cfg : Cfg} {s : St} (hF : FInv s) (h : Nat) : SSim cfg s (.depth h) := by
  simp only [SSim, step, Op.target]
  by_cases hh : h < s.nH
  · cases e : s.hs h with
    | c r =>
      simp only [hh, e, if_true]
      cases (s.rs (refAddr s r)).dc with
      | some d => exact ⟨by trivial, hF⟩
      | none => exact ⟨by trivial, setDC_f hF _ _⟩
    | s r => simp only [hh, e, if_true]; exact ⟨by trivial, hF⟩
  · simp only [hh, if_false]; exact ⟨by trivial, hF⟩

end QV.C20
