import QuriVerif.Model.C17
import Mathlib.Tactic.Linarith
import Mathlib.Tactic.Ring
/-
  C17 — helper lemmas: IEEE comparison lemmas, `_check_valid_probability`, the validation prefix of each
  scalar factory against its documented range, abstract square roots (`SqrtRing`), 2×2 Kraus completeness.
-/
set_option linter.unusedSimpArgs false
set_option linter.unusedSectionVars false
set_option linter.unnecessarySeqFocus false
namespace QV.C17

/-! ## evaluation lemmas -/

@[simp] theorem XR.lt_fin_fin (a b : Rat) : XR.lt (.fin a) (.fin b) = decide (a < b) := rfl
@[simp] theorem XR.le_fin_fin (a b : Rat) : XR.le (.fin a) (.fin b) = decide (a ≤ b) := rfl
@[simp] theorem XR.add_fin_fin (A : Arith) (a b : Rat) : XR.add A (.fin a) (.fin b) = .fin (A.rnd (a + b)) := rfl
@[simp] theorem XR.sub_fin_fin (A : Arith) (a b : Rat) : XR.sub A (.fin a) (.fin b) = .fin (A.rnd (a + -b)) := rfl
@[simp] theorem XR.mul_fin_fin (A : Arith) (a b : Rat) : XR.mul A (.fin a) (.fin b) = .fin (A.rnd (a * b)) := rfl
@[simp] theorem exact_rnd (q : Rat) : exact.rnd q = q := rfl

@[simp] theorem accepts_nil (A : Arith) (pc : BExpr) (ps : List XR) : accepts A pc [] ps = true := rfl
@[simp] theorem accepts_cons (A : Arith) (pc : BExpr) (g : Guard) (gs : List Guard) (ps : List XR) :
    accepts A pc (g :: gs) ps = (!(g.fails A pc ps) && accepts A pc gs ps) := by
  simp [accepts]

/-- `_check_valid_probability` raises exactly outside [0,1] — for every non-NaN argument -/
theorem probCheck_eq (A : Arith) (x : XR) (h : x.isNaN = false) :
    specProbCheck.eval A [x] = !x.isProb := by
  cases x <;> simp_all [specProbCheck, BExpr.eval, Expr.eval, XR.lt, XR.isProb, XR.isNaN]
  grind

/-- … and lets NaN through (every IEEE comparison with NaN is false) -/
theorem probCheck_nan (A : Arith) : specProbCheck.eval A [.nan] = false := by
  simp [specProbCheck, BExpr.eval, Expr.eval, XR.lt]

theorem isNaN_of_noNaN {ps : List XR} (h : noNaN ps = true) : ∀ x ∈ ps, x.isNaN = false := by
  intro x hx
  have := (List.all_eq_true.mp h) x hx
  simpa using this

/-! ## abstract square roots and 2×2 Kraus completeness -/


/-- a commutative ring containing ℚ with a square root on the non-negative rationals
    (instance: ℝ with `Real.sqrt`, see `Props/C17Deep.lean`) -/
structure SqrtRing (R : Type) [CommRing R] where
  ι : ℚ →+* R
  sqrt : ℚ → R
  sqrt_sq : ∀ q, 0 ≤ q → sqrt q * sqrt q = ι q
  sqrt_zero : sqrt 0 = 0

structure M2 (R : Type) where
  a : R
  b : R
  c : R
  d : R

variable {R : Type} [CommRing R]

def M2.zero : M2 R := ⟨0, 0, 0, 0⟩
def M2.one : M2 R := ⟨1, 0, 0, 1⟩
def M2.add (x y : M2 R) : M2 R := ⟨x.a + y.a, x.b + y.b, x.c + y.c, x.d + y.d⟩
/-- Kᵀ·K -/
def M2.gram (k : M2 R) : M2 R :=
  ⟨k.a * k.a + k.c * k.c, k.a * k.b + k.c * k.d, k.b * k.a + k.d * k.c, k.b * k.b + k.d * k.d⟩

def EV.den (S : SqrtRing R) : EV → Option R
  | .val neg sq => if 0 ≤ sq then some ((if neg then -1 else 1) * S.sqrt sq) else none
  | _ => none

def M2.ofEV (S : SqrtRing R) : List (List EV) → Option (M2 R)
  | [[a, b], [c, d]] =>
    match EV.den S a, EV.den S b, EV.den S c, EV.den S d with
    | some a, some b, some c, some d => some ⟨a, b, c, d⟩
    | _, _, _, _ => none
  | _ => none

/-- Σ KᵀK of the denoted matrices (`none` if an entry is NaN/∞ or a matrix is not 2×2) -/
def gramSum (S : SqrtRing R) : List (List (List EV)) → Option (M2 R)
  | [] => some M2.zero
  | k :: ks =>
    match M2.ofEV S k, gramSum S ks with
    | some m, some acc => some (M2.add m.gram acc)
    | _, _ => none

/-- the evaluated Kraus matrices denote, in `S`, real 2×2 matrices with Σ KᵀK = 1 -/
def Complete (S : SqrtRing R) (ks : List (List (List EV))) : Prop := gramSum S ks = some M2.one

theorem den_of_sq (S : SqrtRing R) {e : EV} {q : Rat} (h : e.sq? = some q) :
    ∃ x, EV.den S e = some x ∧ x * x = S.ι q ∧ (q = 0 → x = 0) := by
  cases e with
  | val neg sq =>
    simp only [EV.sq?] at h
    split at h
    · rename_i hq
      cases h
      refine ⟨(if neg then -1 else 1) * S.sqrt q, by simp [EV.den, hq], ?_, ?_⟩
      · have := S.sqrt_sq _ hq
        cases neg <;> simp [this]
      · intro h0; subst h0; simp [S.sqrt_zero]
    · cases h
  | nan => simp [EV.sq?] at h
  | inf n => simp [EV.sq?] at h

theorem gram_of_gramQ (S : SqrtRing R) {k : List (List EV)} {x y : Rat} (h : gramQ k = some (x, y)) :
    ∃ m, M2.ofEV S k = some m ∧ m.gram = ⟨S.ι x, 0, 0, S.ι y⟩ := by
  match k, h with
  | [[a, b], [c, d]], h =>
    simp only [gramQ] at h
    split at h
    · rename_i qa qb qc qd ha hb hc hd
      split at h
      · rename_i hz
        cases h
        obtain ⟨xa, ea, sa, za⟩ := den_of_sq S ha
        obtain ⟨xb, eb, sb, zb⟩ := den_of_sq S hb
        obtain ⟨xc, ec, sc, zc⟩ := den_of_sq S hc
        obtain ⟨xd, ed, sd, zd⟩ := den_of_sq S hd
        refine ⟨⟨xa, xb, xc, xd⟩, by simp [M2.ofEV, ea, eb, ec, ed], ?_⟩
        have hab : xa * xb = 0 := by
          rcases hz.1 with h | h
          · simp [za h]
          · simp [zb h]
        have hcd : xc * xd = 0 := by
          rcases hz.2 with h | h
          · simp [zc h]
          · simp [zd h]
        simp only [M2.gram, sa, sb, sc, sd, hab, hcd, mul_comm xb xa, mul_comm xd xc, add_zero, map_add]
      · cases h
    · cases h

theorem gramSum_of_gramSumQ (S : SqrtRing R) : ∀ (ks : List (List (List EV))) {x y : Rat},
    gramSumQ ks = some (x, y) → gramSum S ks = some ⟨S.ι x, 0, 0, S.ι y⟩ := by
  intro ks
  induction ks with
  | nil => intro x y h; simp only [gramSumQ, Option.some.injEq, Prod.mk.injEq] at h; simp [gramSum, M2.zero, ← h.1, ← h.2]
  | cons k ks ih =>
    intro x y h
    simp only [gramSumQ] at h
    split at h
    · rename_i x1 y1 x2 y2 h1 h2
      cases h
      obtain ⟨m, hm, hg⟩ := gram_of_gramQ S h1
      simp [gramSum, hm, ih h2, hg, M2.add]
    · cases h

/-- soundness of the rational-level decision: it implies Σ KᵀK = 1 in every `SqrtRing` -/
theorem complete_of_completeQ (S : SqrtRing R) (ks : List (List (List EV))) (h : completeQ ks = true) :
    Complete S ks := by
  simp only [completeQ, beq_iff_eq] at h
  simp [Complete, gramSum_of_gramSumQ S ks h, M2.one]


/-! ## templates on finite parameters -/


theorem eval_fin (A : Arith) (ps : List Rat) : ∀ (e : Expr), e.finite ps.length = true →
    e.eval A (ps.map .fin) = .fin (e.evalQ A ps) := by
  intro e
  induction e with
  | num q => intro _; rfl
  | inf => intro h; simp [Expr.finite] at h
  | par i =>
    intro h
    simp only [Expr.finite, decide_eq_true_eq] at h
    simp [Expr.eval, Expr.evalQ, List.getD, h]
  | add a b iha ihb =>
    intro h
    simp only [Expr.finite, Bool.and_eq_true] at h
    simp [Expr.eval, Expr.evalQ, iha h.1, ihb h.2]
  | sub a b iha ihb =>
    intro h
    simp only [Expr.finite, Bool.and_eq_true] at h
    simp [Expr.eval, Expr.evalQ, iha h.1, ihb h.2]
  | mul a b iha ihb =>
    intro h
    simp only [Expr.finite, Bool.and_eq_true] at h
    simp [Expr.eval, Expr.evalQ, iha h.1, ihb h.2]

theorem foldl_mul_fin (qs : List Rat) : ∀ c : Rat,
    (qs.map XR.fin).foldl (XR.mul exact) (.fin c) = .fin (qs.foldl (· * ·) c) := by
  induction qs with
  | nil => intro c; rfl
  | cons q qs ih => intro c; simp [List.foldl, ih]

/-- on finite parameters with non-negative radicands an entry evaluates to ±√(coef²·∏ radicand) -/
theorem value_fin (A : Arith) (ps : List Rat) (e : Entry)
    (hf : ∀ r ∈ e.rads, r.finite ps.length = true) (hn : ∀ r ∈ e.rads, 0 ≤ r.evalQ A ps) :
    e.value A (ps.map .fin) = .val (decide (e.coef < 0)) (e.sqQ A ps) := by
  have hmap : e.rads.map (·.eval A (ps.map .fin)) = (e.rads.map (·.evalQ A ps)).map XR.fin := by
    rw [List.map_map]
    apply List.map_congr_left
    intro r hr
    simp [eval_fin A ps r (hf r hr)]
  have hall : ((e.rads.map (·.evalQ A ps)).map XR.fin).all XR.sqrtDomain = true := by
    simp only [List.all_map, List.all_eq_true]
    intro r hr
    simpa [XR.sqrtDomain] using hn r hr
  simp only [Entry.value, hmap, hall, if_true, foldl_mul_fin, Entry.sqQ]

theorem sq?_value_fin (A : Arith) (ps : List Rat) (e : Entry)
    (hf : ∀ r ∈ e.rads, r.finite ps.length = true) (hn : ∀ r ∈ e.rads, 0 ≤ r.evalQ A ps) :
    (e.value A (ps.map .fin)).sq? = some (e.sqQ A ps) ∧ (e.coef = 0 → e.sqQ A ps = 0) := by
  have hnn : ∀ (qs : List Rat) (c : Rat), 0 ≤ c → (∀ q ∈ qs, 0 ≤ q) → 0 ≤ qs.foldl (· * ·) c := by
    intro qs
    induction qs with
    | nil => intro c hc _; simpa using hc
    | cons q qs ih =>
      intro c hc h
      simp only [List.foldl]
      exact ih _ (mul_nonneg hc (h q (by simp))) (fun x hx => h x (by simp [hx]))
  have hz : ∀ (qs : List Rat), qs.foldl (· * ·) (0 : Rat) = 0 := by
    intro qs; induction qs with
    | nil => rfl
    | cons q qs ih => simp [List.foldl, ih]
  constructor
  · rw [value_fin A ps e hf hn]
    have : 0 ≤ e.sqQ A ps := by
      apply hnn
      · have : (0:Rat) ≤ ((e.coef * e.coef : Int) : Rat) := by exact_mod_cast mul_self_nonneg e.coef
        exact this
      · intro q hq
        simp only [List.mem_map] at hq
        obtain ⟨r, hr, rfl⟩ := hq
        exact hn r hr
    simp [EV.sq?, this]
  · intro h0
    simp [Entry.sqQ, h0, hz]




theorem mem_tplRads_cons {k : KMat} {ks : List KMat} {r : Expr} :
    r ∈ tplRads (k :: ks) ↔ r ∈ tplRads [k] ∨ r ∈ tplRads ks := by
  simp [tplRads]

/-- the symbolic Σ KᵀK of a template is the Σ KᵀK of its evaluation, when every radicand is finite and ≥ 0 -/
theorem gramSumQ_of_tplGram (A : Arith) (ps : List Rat) : ∀ (tpl : List KMat) {x y : Rat},
    (∀ r ∈ tplRads tpl, r.finite ps.length = true) → (∀ r ∈ tplRads tpl, 0 ≤ r.evalQ A ps) →
    tplGram A ps tpl = some (x, y) → gramSumQ (tpl.map (KMat.value A (ps.map .fin))) = some (x, y) := by
  intro tpl
  induction tpl with
  | nil => intro x y _ _ h; simpa [tplGram, gramSumQ] using h
  | cons k ks ih =>
    intro x y hf hn h
    match k, h with
    | [[a, b], [c, d]], h =>
      simp only [tplGram] at h
      split at h
      · rename_i hz
        split at h
        · rename_i x' y' hks
          cases h
          have hfk : ∀ r ∈ tplRads ks, r.finite ps.length = true := fun r hr => hf r (mem_tplRads_cons.mpr (Or.inr hr))
          have hnk : ∀ r ∈ tplRads ks, 0 ≤ r.evalQ A ps := fun r hr => hn r (mem_tplRads_cons.mpr (Or.inr hr))
          have ihk := ih hfk hnk hks
          have me : ∀ e ∈ [a, b, c, d], ∀ r ∈ e.rads, r ∈ tplRads ([[a, b], [c, d]] :: ks) := by
            intro e he r hr
            apply mem_tplRads_cons.mpr; left
            simp only [tplRads, List.flatMap_cons, List.flatMap_nil, List.append_nil, List.mem_append]
            simp only [List.mem_cons, List.mem_nil_iff, or_false] at he
            rcases he with rfl | rfl | rfl | rfl <;> simp [hr]
          obtain ⟨va, za⟩ := sq?_value_fin A ps a (fun r hr => hf r (me a (by simp) r hr)) (fun r hr => hn r (me a (by simp) r hr))
          obtain ⟨vb, zb⟩ := sq?_value_fin A ps b (fun r hr => hf r (me b (by simp) r hr)) (fun r hr => hn r (me b (by simp) r hr))
          obtain ⟨vc, zc⟩ := sq?_value_fin A ps c (fun r hr => hf r (me c (by simp) r hr)) (fun r hr => hn r (me c (by simp) r hr))
          obtain ⟨vd, zd⟩ := sq?_value_fin A ps d (fun r hr => hf r (me d (by simp) r hr)) (fun r hr => hn r (me d (by simp) r hr))
          have hz' : (a.sqQ A ps = 0 ∨ b.sqQ A ps = 0) ∧ (c.sqQ A ps = 0 ∨ d.sqQ A ps = 0) :=
            ⟨hz.1.imp za zb, hz.2.imp zc zd⟩
          simp [gramSumQ, gramQ, KMat.value, va, vb, vc, vd, hz', ihk]
        · cases h
      · cases h




/-- A template whose symbolic Σ KᵀK is (1,1) on parameters where its radicands are finite and non-negative
    evaluates to a complete Kraus set in every `SqrtRing`. -/
theorem complete_of_tplGram {R : Type} [CommRing R] (S : SqrtRing R) (A : Arith) (ps : List Rat) (tpl : List KMat)
    (hf : ∀ r ∈ tplRads tpl, r.finite ps.length = true) (hn : ∀ r ∈ tplRads tpl, 0 ≤ r.evalQ A ps)
    (hg : tplGram A ps tpl = some (1, 1)) :
    completeQ (tpl.map (KMat.value A (ps.map .fin))) = true ∧ Complete S (tpl.map (KMat.value A (ps.map .fin))) := by
  have h : completeQ (tpl.map (KMat.value A (ps.map .fin))) = true := by
    simp [completeQ, gramSumQ_of_tplGram A ps tpl hf hn hg]
  exact ⟨h, complete_of_completeQ S _ h⟩

/-- side goal "radicands are finite expressions" -/
macro "c17_finite" : tactic => `(tactic| (simp only [List.length]; decide))
/-- side goal "radicands are ≥ 0" (hypotheses: the documented range, as inequalities) -/
macro "c17_rads" : tactic =>
  `(tactic| (simp [tplRads, specKraus, Expr.evalQ] <;> grind))
/-- side goal "symbolic Σ KᵀK = (1,1)" -/
macro "c17_gram" : tactic =>
  `(tactic| (simp [tplGram, specKraus, Entry.sqQ, Expr.evalQ] <;> first | done | ring1 | (refine ⟨?_, ?_⟩ <;> ring1)))


/-! ## rounding, mixtures, thermal Choi matrix -/


/-- what the theorems assume of floating-point rounding: monotone, fixes 0 and 1 (true of IEEE-754
    round-to-nearest; `exact` satisfies it trivially) -/
structure Faithful (A : Arith) : Prop where
  mono : ∀ a b, a ≤ b → A.rnd a ≤ A.rnd b
  zero : A.rnd 0 = 0
  one : A.rnd 1 = 1

theorem exact_faithful : Faithful exact := ⟨fun _ _ h => h, rfl, rfl⟩

theorem Faithful.nonneg {A : Arith} (F : Faithful A) {x : Rat} (h : 0 ≤ x) : 0 ≤ A.rnd x := by
  have := F.mono 0 x h; rwa [F.zero] at this

theorem Faithful.le_one {A : Arith} (F : Faithful A) {x : Rat} (h : x ≤ 1) : A.rnd x ≤ 1 := by
  have := F.mono x 1 h; rwa [F.one] at this

theorem flip_sum (k : Kind) (hk : k.isFlip = true) (q : Rat) : (flipWeights k q).sum = 1 := by
  cases k <;> simp [Kind.isFlip] at hk <;> simp [flipWeights] <;> ring

theorem flip_nonneg_iff (k : Kind) (hk : k.isFlip = true) (q : Rat) :
    (∀ w ∈ flipWeights k q, 0 ≤ w) ↔ (0 ≤ q ∧ q ≤ 1) := by
  cases k <;> simp [Kind.isFlip] at hk <;> simp [flipWeights]
  · grind
  · grind
  · constructor
    · rintro ⟨h1, h2, h3, h4⟩
      constructor <;> nlinarith
    · rintro ⟨h0, h1⟩
      have : 0 ≤ 1 - q := by linarith
      exact ⟨mul_self_nonneg _, mul_nonneg h0 this, mul_self_nonneg _, mul_nonneg h0 this⟩
  · grind

theorem thermal_choi (a e s : Rat) (ha0 : 0 ≤ a) (ha1 : a ≤ 1) (he : e * e ≤ 1 - a) (hs0 : 0 ≤ s) (hs1 : s ≤ 1) :
    0 ≤ s * a ∧ 0 ≤ (1 - s) * a ∧ 0 ≤ 1 - s * a ∧ 0 ≤ 1 - (1 - s) * a ∧
    e * e ≤ (1 - s * a) * (1 - (1 - s) * a) := by
  have h1 : 0 ≤ 1 - s := by linarith
  refine ⟨mul_nonneg hs0 ha0, mul_nonneg h1 ha0, ?_, ?_, ?_⟩
  · nlinarith
  · nlinarith
  · nlinarith [mul_nonneg (mul_nonneg hs0 h1) (mul_nonneg ha0 ha0)]

/-! ## probability lists -/


theorem finVals_map_fin (qs : List Rat) : finVals (qs.map .fin) = some qs := by
  induction qs with
  | nil => rfl
  | cons q qs ih => simp [finVals, ih]

@[simp] theorem pySum_fin (A : Arith) (qs : List Rat) : pySum A (qs.map .fin) = .fin (A.rnd qs.sum) := by
  simp [pySum, finVals_map_fin]

theorem isProb_fin {x : XR} (h : x.isProb = true) : ∃ q, x = .fin q ∧ 0 ≤ q ∧ q ≤ 1 := by
  cases x <;> simp_all [XR.isProb]

/-- a NaN-free list passes the per-element probability check iff it is a list of finite numbers in [0,1] -/
theorem allProb_iff (A : Arith) (xs : List XR) (hn : noNaN xs = true) :
    (xs.all fun x => !(specProbCheck.eval A [x])) = true ↔ ∃ qs : List Rat, xs = qs.map .fin ∧ ∀ q ∈ qs, 0 ≤ q ∧ q ≤ 1 := by
  induction xs with
  | nil => simp
  | cons x xs ih =>
    have hx : x.isNaN = false := isNaN_of_noNaN hn x (by simp)
    have hxs : noNaN xs = true := by
      simp only [noNaN, List.all_cons, Bool.and_eq_true] at hn ⊢; exact hn.2
    simp only [List.all_cons, Bool.and_eq_true, probCheck_eq A x hx, Bool.not_not, ih hxs]
    constructor
    · rintro ⟨hp, qs, rfl, hq⟩
      obtain ⟨q, rfl, h0, h1⟩ := isProb_fin hp
      exact ⟨q :: qs, by simp, by simpa using ⟨⟨h0, h1⟩, hq⟩⟩
    · rintro ⟨qs, he, hq⟩
      cases qs with
      | nil => simp at he
      | cons q qs =>
        simp only [List.map_cons, List.cons.injEq] at he
        obtain ⟨rfl, rfl⟩ := he
        have := hq q (by simp)
        exact ⟨by simp [XR.isProb, this.1, this.2], qs, rfl, fun q' h' => hq q' (by simp [h'])⟩

/-- validation of a probability list (PauliNoise / ProbabilisticNoise), exact arithmetic, NaN-free input:
    accepted iff all entries are finite numbers in [0,1] and their sum is at most 1 + eq_tolerance -/
theorem probListOk_iff (tol : Rat) (xs : List XR) (hn : noNaN xs = true) :
    probListOk exact specProbCheck (.fin tol) xs = true ↔
      ∃ qs : List Rat, xs = qs.map .fin ∧ (∀ q ∈ qs, 0 ≤ q ∧ q ≤ 1) ∧ qs.sum ≤ 1 + tol := by
  simp only [probListOk, Bool.and_eq_true, allProb_iff exact xs hn]
  constructor
  · rintro ⟨⟨qs, rfl, hq⟩, hs⟩
    refine ⟨qs, rfl, hq, ?_⟩
    simp at hs
    linarith
  · rintro ⟨qs, rfl, hq, hs⟩
    refine ⟨⟨qs, rfl, hq⟩, ?_⟩
    simp
    linarith



/-- everything an accepted `PauliNoise` guarantees (exact arithmetic, NaN-free probabilities) -/
theorem pauliNoise_ok (name : String) (paulis : List (List Nat)) (probs : List XR) (nIdx : Nat) (tol : Rat)
    (ins : Instr) (hn : noNaN probs = true)
    (h : pauliNoise exact specProbCheck name paulis probs nIdx (.fin tol) = .ok ins) :
    ins.pauliList = paulis ∧ paulis ≠ [] ∧ paulis.length = probs.length ∧
    (∀ r ∈ paulis, r.length = ins.qubitCount ∧ ∀ i ∈ r, i ≤ 3) ∧
    ∃ qs : List Rat, ins.probList = qs.map .fin ∧ probs = qs.map .fin ∧ (∀ q ∈ qs, 0 ≤ q ∧ q ≤ 1) ∧ qs.sum ≤ 1 + tol := by
  simp only [pauliNoise] at h
  split_ifs at h with h1 h2 h3 h4 h5 h6 h7
  cases h
  simp only [Bool.not_eq_true', Bool.not_eq_false] at h4
  obtain ⟨qs, hq⟩ := (probListOk_iff tol probs hn).mp h4
  refine ⟨rfl, by simpa using h1, by simpa using h3, ?_, qs, hq.1, hq⟩
  intro r hr
  constructor
  · simp only [List.any_eq_true, decide_eq_true_eq, not_exists, not_and, not_not] at h6
    simpa using h6 r hr
  · intro i hi
    simp only [List.any_eq_true, decide_eq_true_eq, not_exists, not_and, not_lt] at h5
    exact h5 r hr i hi



theorem sum_nonneg_of (qs : List Rat) (h : ∀ q ∈ qs, 0 ≤ q) : 0 ≤ qs.sum := by
  induction qs with
  | nil => simp
  | cons q qs ih =>
    simp only [List.sum_cons]
    have := h q (by simp)
    have := ih (fun x hx => h x (by simp [hx]))
    linarith

/-- everything an accepted `ProbabilisticNoise` guarantees: the stored probability list (after the
    identity completion) is non-negative, sums to exactly 1 when the given sum is ≤ 1 and never exceeds 1 + tol;
    one matrix per probability -/
theorem probabilisticNoise_ok (ms : List (List (List Rat))) (probs : List XR) (nIdx : Nat) (tol : Rat) (ht : 0 ≤ tol)
    (ins : Instr) (hn : noNaN probs = true)
    (h : probabilisticNoise exact specProbCheck ms probs nIdx (.fin tol) = .ok ins) :
    ∃ qs ws : List Rat, probs = qs.map .fin ∧ ins.probList = ws.map .fin ∧ (∀ w ∈ ws, 0 ≤ w ∧ w ≤ 1) ∧
      (qs.sum ≤ 1 → ws.sum = 1) ∧ ws.sum ≤ 1 + tol ∧ ins.gateMatrices.length = ws.length ∧ ms.length = qs.length := by
  simp only [probabilisticNoise] at h
  split_ifs at h with h1 h2 h3 h4 hlt
  all_goals simp only [Bool.not_eq_true', Bool.not_eq_false] at h4
  all_goals obtain ⟨qs, rfl, hq, hs⟩ := (probListOk_iff tol probs hn).mp h4
  all_goals have h0 : 0 ≤ qs.sum := sum_nonneg_of qs (fun q hq' => (hq q hq').1)
  all_goals have h3' : ms.length = qs.length := by simpa using h3
  all_goals simp only [pySum_fin, exact_rnd, XR.lt_fin_fin, decide_eq_true_eq] at hlt
  all_goals split at h
  all_goals first | cases h | skip
  all_goals split_ifs at h with h5
  all_goals cases h
  · refine ⟨qs, qs ++ [1 + -qs.sum], rfl, by simp, ?_, ?_, ?_, ?_, h3'⟩
    · intro w hw
      simp only [List.mem_append, List.mem_singleton] at hw
      rcases hw with hw | rfl
      · exact hq w hw
      · constructor <;> linarith
    · intro _; simp
    · simp; linarith
    · simp [h3']
  · refine ⟨qs, qs, rfl, rfl, hq, ?_, hs, by simpa using h3', h3'⟩
    intro h; linarith

/-! ## general depolarizing -/


theorem pauliProduct_length (n : Nat) : (pauliProduct n).length = 4 ^ n := by
  induction n with
  | zero => rfl
  | succ n ih => simp [pauliProduct, List.length_flatMap, ih]; omega

theorem pauliProduct_rows (n : Nat) : ∀ r ∈ pauliProduct n, r.length = n ∧ ∀ i ∈ r, i ≤ 3 := by
  induction n with
  | zero => intro r hr; simp [pauliProduct] at hr; subst hr; simp
  | succ n ih =>
    intro r hr
    simp only [pauliProduct, List.mem_flatMap, List.mem_map] at hr
    obtain ⟨a, ha, r', hr', rfl⟩ := hr
    obtain ⟨hl, hi⟩ := ih r' hr'
    refine ⟨by simp [hl], ?_⟩
    intro i hi'
    simp only [List.mem_cons] at hi'
    rcases hi' with rfl | h
    · simp at ha; omega
    · exact hi i h

theorem pauliProduct_head (n : Nat) : (pauliProduct n).head? = some (List.replicate n 0) := by
  induction n with
  | zero => rfl
  | succ n ih =>
    cases h : pauliProduct n with
    | nil => simp [h] at ih
    | cons r rs =>
      simp [h] at ih
      simp [pauliProduct, h, ih, List.replicate_succ]

theorem four_pow_pos (n : Nat) : 1 ≤ 4 ^ n := Nat.one_le_pow _ _ (by omega)

theorem sum_replicate_rat (k : Nat) (x : Rat) : (List.replicate k x).sum = (k : Rat) * x := by
  induction k with
  | zero => simp
  | succ k ih => simp [List.replicate_succ, ih]; ring

/-- the weights `GeneralDepolarizingNoise` builds: 1 - p for the identity string, p/(4ⁿ-1) for each of the other
    4ⁿ-1 Pauli strings; non-negative, each ≤ 1, summing to exactly 1 -/
theorem generalDepol_weights (q : Rat) (n : Nat) (hn : 0 < n) (h0 : 0 ≤ q) (h1 : q ≤ 1) :
    ∃ ws : List Rat, generalDepolProbs exact (.fin q) n = ws.map .fin ∧ ws.length = 4 ^ n ∧ ws.sum = 1 ∧
      (∀ w ∈ ws, 0 ≤ w ∧ w ≤ 1) ∧ ws.head? = some (1 - q) := by
  have hp : 4 ≤ 4 ^ n := by
    calc 4 = 4 ^ 1 := by norm_num
      _ ≤ 4 ^ n := Nat.pow_le_pow_right (by omega) hn
  obtain ⟨k, hk⟩ : ∃ k, 4 ^ n - 1 = k := ⟨_, rfl⟩
  have hk1 : 1 ≤ k := by omega
  have hd : (0 : Rat) < (k : Rat) := by exact_mod_cast hk1
  have hd1 : (1 : Rat) ≤ (k : Rat) := by exact_mod_cast hk1
  refine ⟨(1 - q) :: List.replicate k (q / (k : Rat)), ?_, ?_, ?_, ?_, rfl⟩
  · simp only [generalDepolProbs, hk, xrDiv, ne_of_gt hd, if_false, XR.sub_fin_fin, exact_rnd, List.map_cons,
      List.map_replicate, sub_eq_add_neg]
  · simp; omega
  · rw [List.sum_cons, sum_replicate_rat, mul_div_cancel₀ _ (ne_of_gt hd)]; ring
  · intro w hw
    simp only [List.mem_cons, List.mem_replicate] at hw
    rcases hw with rfl | ⟨_, rfl⟩
    · constructor <;> linarith
    · constructor
      · exact div_nonneg h0 (le_of_lt hd)
      · have : q / (k : Rat) * k = q := div_mul_cancel₀ q (ne_of_gt hd)
        have h2 : 0 ≤ q / (k : Rat) := div_nonneg h0 (le_of_lt hd)
        nlinarith



theorem noNaN_map_fin (qs : List Rat) : noNaN (qs.map .fin) = true := by
  simp [noNaN, XR.isNaN]

/-- `GeneralDepolarizingNoise` (exact arithmetic) accepts exactly: qubit_count > 0, 0 ≤ p ≤ 1, and a qubit filter
    that is empty or of length qubit_count — the inner `PauliNoise` validation never fires; the result carries
    all 4ⁿ Pauli strings of length n with the weights of `generalDepol_weights`. -/
theorem generalDepol_spec (q : Rat) (n nIdx : Nat) :
    (0 < n ∧ 0 ≤ q ∧ q ≤ 1 ∧ qubitIndicesBad n nIdx = false →
      generalDepolarizing exact specProbCheck (.fin q) n nIdx =
        .ok { name := "GeneralDepolarizingNoise", qubitCount := n, params := [], pauliList := pauliProduct n,
              probList := generalDepolProbs exact (.fin q) n }) ∧
    (¬(0 < n ∧ 0 ≤ q ∧ q ≤ 1 ∧ qubitIndicesBad n nIdx = false) →
      generalDepolarizing exact specProbCheck (.fin q) n nIdx = .error .valueError) := by
  constructor
  · rintro ⟨hn, h0, h1, hb⟩
    obtain ⟨ws, hws, hlen, hsum, hw, -⟩ := generalDepol_weights q n hn h0 h1
    have hpc : specProbCheck.eval exact [XR.fin q] = false := by
      rw [probCheck_eq _ _ rfl]; simp [XR.isProb, h0, h1]
    have hok : probListOk exact specProbCheck (.fin (1 / 100000000)) (generalDepolProbs exact (.fin q) n) = true := by
      rw [hws]
      exact (probListOk_iff _ _ (noNaN_map_fin ws)).mpr ⟨ws, rfl, hw, by rw [hsum]; norm_num⟩
    have hhead : (pauliProduct n).headD [] = List.replicate n 0 := by
      have := pauliProduct_head n
      cases h : pauliProduct n with
      | nil => simp [h] at this
      | cons r rs => simp [h] at this; simp [List.headD, this]
    have hne : (pauliProduct n).isEmpty = false := by
      have := pauliProduct_length n
      have := four_pow_pos n
      cases h : pauliProduct n with
      | nil => simp [h] at *; omega
      | cons _ _ => rfl
    have hl : (pauliProduct n).length = (generalDepolProbs exact (.fin q) n).length := by
      rw [hws, List.length_map, hlen, pauliProduct_length]
    have hpe : (generalDepolProbs exact (.fin q) n).isEmpty = false := by
      simp [generalDepolProbs]
    have hids : (pauliProduct n).any (fun r => r.any fun i => decide (3 < i)) = false := by
      simp only [List.any_eq_false, List.any_eq_true, decide_eq_true_eq, not_exists, not_and, not_lt]
      intro r hr i hi
      exact (pauliProduct_rows n r hr).2 i hi
    have hlens : (pauliProduct n).any (fun r => decide (r.length ≠ ((pauliProduct n).headD []).length)) = false := by
      simp only [hhead, List.length_replicate, List.any_eq_false, decide_eq_true_eq, not_not]
      intro r hr
      exact (pauliProduct_rows n r hr).1
    have hlens' : (pauliProduct n).any (fun r => decide ¬r.length = n) = false := by
      simpa only [hhead, List.length_replicate, ne_eq] using hlens
    have hn0 : n ≠ 0 := by omega
    simp only [generalDepolarizing, hn0, if_false, hpc, Bool.false_eq_true, hb, pauliNoise, hne, hpe, hl, ne_eq,
      not_true_eq_false, hok, Bool.not_true, hids, hlens, hlens', hhead, List.length_replicate]
  · intro h
    simp only [generalDepolarizing]
    by_cases hn : n = 0
    · simp [hn]
    · by_cases hp : specProbCheck.eval exact [XR.fin q] = true
      · simp [hn, hp]
      · by_cases hb : qubitIndicesBad n nIdx = true
        · simp [hn, hp, hb]
        · exfalso
          apply h
          rw [probCheck_eq _ _ rfl] at hp
          simp [XR.isProb] at hp
          exact ⟨by omega, hp.1, hp.2, by simpa using hb⟩

end QV.C17
