import QuriVerif.Proof.C05Amp
/- C05: binary symplectic vectors, `transition_amp_comp_basis` and the Kronecker-product export
   compute the matrix elements of the specification -/
namespace QV.C05
open K

/-! ### dense masks -/

def xD : List P1 → Nat
  | [] => 0
  | p :: r => bitOf p.flips + 2 * xD r
def zD : List P1 → Nat
  | [] => 0
  | p :: r => bitOf p.hasZ + 2 * zD r
def yD : List P1 → Nat
  | [] => 0
  | p :: r => bitOf (p == .Y) + yD r

theorem xor_bit (b x : Nat) (f : Bool) :
    b ^^^ (bitOf f + 2 * x) = 2 * ((b / 2) ^^^ x) + bitOf ((b % 2 == 1) != f) := by
  have hf := bitOf_le f
  have h1 : (b ^^^ (bitOf f + 2 * x)) / 2 = (b / 2) ^^^ x := by
    rw [Nat.xor_div_two]; congr 1; omega
  have h2 : (b ^^^ (bitOf f + 2 * x)) % 2 = bitOf ((b % 2 == 1) != f) := by
    have hx := @Nat.xor_mod_two_eq_one b (bitOf f + 2 * x)
    have hX : (bitOf f + 2 * x) % 2 = bitOf f := by omega
    rw [hX] at hx
    clear h1 hX
    generalize b ^^^ (bitOf f + 2 * x) = A at *
    have hA := Nat.mod_two_eq_zero_or_one A
    rcases Nat.mod_two_eq_zero_or_one b with hb | hb <;> cases f <;> simp [hb, bitOf] at hx ⊢ <;> omega
  have := Nat.div_add_mod (b ^^^ (bitOf f + 2 * x)) 2
  rw [h1, h2] at this
  exact this.symm

/-- the image of a basis state is `b xor x` -/
theorem actD_image (ps : List P1) (b : Nat) : (actD ps b).2 = b ^^^ xD ps := by
  induction ps generalizing b with
  | nil => simp [actD, xD]
  | cons p r ih => simp only [actD, xD, ih, xor_bit]

theorem popc_zero (f : Nat) : popc f 0 = 0 := by
  induction f with
  | zero => rfl
  | succ f ih => simp [popc, ih]

theorem popc_fuel (f k n : Nat) (h : n < 2 ^ f) : popc (f + k) n = popc f n := by
  induction f generalizing n with
  | zero =>
    have : n = 0 := by simpa using h
    subst this; simp [popc_zero, popc]
  | succ f ih =>
    have : f + 1 + k = (f + k) + 1 := by omega
    rw [this]
    simp only [popc]
    rw [ih (n / 2) (by rw [Nat.pow_succ] at h; omega)]

/-- the fuel of `popcount` suffices: the defining recursion of the bit count -/
theorem popcount_step (n : Nat) : popcount n = n % 2 + popcount (n / 2) := by
  unfold popcount
  cases n with
  | zero => rfl
  | succ n =>
    simp only [popc]
    congr 1
    have h1 : (n + 1) / 2 < 2 ^ ((n + 1) / 2) := Nat.lt_two_pow_self
    have h2 : (n + 1) / 2 ≤ n := by omega
    obtain ⟨k, hk⟩ := Nat.exists_eq_add_of_le h2
    have := popc_fuel ((n + 1) / 2) k ((n + 1) / 2) h1
    rw [← hk] at this
    exact this

theorem and_bit (z m : Nat) (a c : Bool) :
    (bitOf a + 2 * z) &&& (2 * m + bitOf c) = 2 * (z &&& m) + bitOf (a && c) := by
  have ha := bitOf_le a
  have hc := bitOf_le c
  have h1 : ((bitOf a + 2 * z) &&& (2 * m + bitOf c)) / 2 = z &&& m := by
    rw [Nat.and_div_two]; congr 1 <;> omega
  have h2 : ((bitOf a + 2 * z) &&& (2 * m + bitOf c)) % 2 = bitOf (a && c) := by
    have hx := @Nat.and_mod_two_eq_one (bitOf a + 2 * z) (2 * m + bitOf c)
    have hA : (bitOf a + 2 * z) % 2 = bitOf a := by omega
    have hC : (2 * m + bitOf c) % 2 = bitOf c := by omega
    rw [hA, hC] at hx
    clear h1 hA hC
    generalize (bitOf a + 2 * z) &&& (2 * m + bitOf c) = A at *
    have hA := Nat.mod_two_eq_zero_or_one A
    cases a <;> cases c <;> simp [bitOf] at hx ⊢ <;> omega
  have := Nat.div_add_mod ((bitOf a + 2 * z) &&& (2 * m + bitOf c)) 2
  rw [h1, h2] at this
  exact this.symm

theorem ph_symplectic (p : P1) (b : Bool) :
    p.ph b % 4 = (3 * bitOf (p == .Y) + 2 * bitOf (p.hasZ && (b != p.flips))) % 4 := by
  cases p <;> cases b <;> decide

/-- the phase in symplectic form: `(-i)^{#Y} · (-1)^{|z & image|}` (Y = -i·Z·X) -/
theorem actD_phase (ps : List P1) (b : Nat) :
    (actD ps b).1 % 4 = (3 * yD ps + 2 * popcount (zD ps &&& (b ^^^ xD ps))) % 4 := by
  induction ps generalizing b with
  | nil => simp [actD, yD, zD, popcount, popc]
  | cons p r ih =>
    simp only [actD, yD, zD, xD, xor_bit, and_bit]
    rw [popcount_step]
    have h1 : (2 * (zD r &&& (b / 2 ^^^ xD r)) + bitOf (p.hasZ && ((b % 2 == 1) != p.flips))) % 2
        = bitOf (p.hasZ && ((b % 2 == 1) != p.flips)) := by
      have := bitOf_le (p.hasZ && ((b % 2 == 1) != p.flips)); omega
    have h2 : (2 * (zD r &&& (b / 2 ^^^ xD r)) + bitOf (p.hasZ && ((b % 2 == 1) != p.flips))) / 2
        = zD r &&& (b / 2 ^^^ xD r) := by
      have := bitOf_le (p.hasZ && ((b % 2 == 1) != p.flips)); omega
    rw [h1, h2]
    have := ih (b / 2)
    have := ph_symplectic p (b % 2 == 1)
    omega

/-! ### sparse sums are dense masks -/

theorem xD_tab (g : P1 → Bool) (D : List P1 → Nat) (hD0 : D [] = 0) (hD : ∀ p r, D (p :: r) = bitOf (g p) + 2 * D r)
    (f : Nat → P1) (k n : Nat) :
    2 ^ k * D (tab f k n) = psum (fun j => bitOf (g (f j)) * 2 ^ j) k n := by
  induction n generalizing k with
  | zero => simp [tab, psum, hD0]
  | succ n ih =>
    simp only [tab, psum, hD]
    rw [← ih (k + 1), Nat.pow_succ, Nat.mul_add]
    have : 2 ^ k * (2 * D (tab f (k + 1) n)) = 2 ^ k * 2 * D (tab f (k + 1) n) := by
      rw [Nat.mul_assoc]
    rw [this, Nat.mul_comm (2 ^ k) (bitOf _)]

def sx (l : Label) : Nat := (l.map fun e => bitOf e.2.flips * 2 ^ e.1).sum
def sz (l : Label) : Nat := (l.map fun e => bitOf e.2.hasZ * 2 ^ e.1).sum
def sy (l : Label) : Nat := (l.map fun e => bitOf (e.2 == .Y)).sum

theorem bsv_fold (l : Label) (s : BSV) :
    (l.foldl bsvStep s).x = s.x + sx l ∧ (l.foldl bsvStep s).z = s.z + sz l ∧
    (l.foldl bsvStep s).ph % 4 = (s.ph + 3 * sy l) % 4 := by
  induction l generalizing s with
  | nil => simp [sx, sz, sy]
  | cons e r ih =>
    obtain ⟨i, p⟩ := e
    rw [List.foldl_cons]
    have h := ih (bsvStep s (i, p))
    simp only [sx, sz, sy, List.map_cons, List.sum_cons] at h ⊢
    rw [h.1, h.2.1, h.2.2]
    cases p <;> simp [bsvStep, P1.flips, P1.hasZ, bitOf, Nat.one_shiftLeft] <;> omega

theorem sx_dense {l : Label} (h : Valid l) {N : Nat} (hN : bound l ≤ N) : sx l = xD (toDense l N) := by
  have h1 := sum_entries (fun j a => bitOf a.flips * 2 ^ j) (fun j => by simp [P1.flips, bitOf]) l (valid_nodup h) N
    (fun e he => Nat.lt_of_lt_of_le (idx_lt_bound he) hN)
  have h2 := xD_tab P1.flips xD rfl (fun _ _ => rfl) (lookup l) 0 N
  unfold sx toDense
  rw [h1, ← h2]; simp

theorem sz_dense {l : Label} (h : Valid l) {N : Nat} (hN : bound l ≤ N) : sz l = zD (toDense l N) := by
  have h1 := sum_entries (fun j a => bitOf a.hasZ * 2 ^ j) (fun j => by simp [P1.hasZ, bitOf]) l (valid_nodup h) N
    (fun e he => Nat.lt_of_lt_of_le (idx_lt_bound he) hN)
  have h2 := xD_tab P1.hasZ zD rfl (fun _ _ => rfl) (lookup l) 0 N
  unfold sz toDense
  rw [h1, ← h2]; simp

theorem yD_tab (f : Nat → P1) (k n : Nat) : yD (tab f k n) = psum (fun j => bitOf (f j == .Y)) k n := by
  induction n generalizing k with
  | zero => rfl
  | succ n ih => simp only [tab, psum, yD, ih]

theorem sy_dense {l : Label} (h : Valid l) {N : Nat} (hN : bound l ≤ N) : sy l = yD (toDense l N) := by
  have h1 := sum_entries (fun _ a => bitOf (a == .Y)) (fun j => by simp [bitOf]) l (valid_nodup h) N
    (fun e he => Nat.lt_of_lt_of_le (idx_lt_bound he) hN)
  unfold sy toDense
  rw [h1, yD_tab]

/-- **`pauli_label_to_bsv` in terms of the specification**: image = `n xor x`, phase = `i^ph · (-1)^{|z & image|}` -/
theorem bsv_sound {l : Label} (h : Valid l) (n : Nat) :
    (actL l n).2 = n ^^^ (bsv l).x ∧
    (actL l n).1 % 4 = ((bsv l).ph + 2 * popcount ((bsv l).z &&& (n ^^^ (bsv l).x))) % 4 := by
  have hb := bsv_fold l ⟨0, 0, 0⟩
  have hN : bound l ≤ bound l := Nat.le_refl _
  unfold bsv
  simp only [Nat.zero_add] at hb
  rw [hb.1, hb.2.1, sx_dense h hN, sz_dense h hN]
  unfold actL
  refine ⟨actD_image _ n, ?_⟩
  rw [actD_phase, ← sy_dense h hN]
  have := hb.2.2
  omega

/-! ### transition amplitudes -/

def tlist (r : TRepr) (x : Nat) : List (K × Nat) := (tget r x).getD []

theorem tlist_tappend (r : TRepr) (x : Nat) (v : K × Nat) (y : Nat) :
    tlist (tappend r x v) y = if y = x then tlist r y ++ [v] else tlist r y := by
  induction r with
  | nil =>
    unfold tlist
    simp only [tappend, tget]
    by_cases h : x = y
    · subst h; simp
    · have h' : ¬ y = x := fun e => h e.symm
      simp [h, h']
  | cons e t ih =>
    obtain ⟨k, w⟩ := e
    unfold tlist at ih ⊢
    simp only [tappend]
    split
    · rename_i hk; subst hk
      simp only [tget]
      by_cases h : k = y
      · subst h; simp
      · have h' : ¬ y = k := fun e => h e.symm
        simp [h, h']
    · rename_i hk
      simp only [tget]
      by_cases h : k = y
      · subst h
        have h' : ¬ k = x := hk
        simp [h']
      · simp only [h, if_false]; exact ih

theorem tlist_repr (op : Op) (r : TRepr) (x : Nat) :
    tlist (op.foldl (fun r e => tappend r (bsv e.1).x (K.mul e.2 (K.ipow (bsv e.1).ph), (bsv e.1).z)) r) x
      = tlist r x ++ (op.filter fun e => (bsv e.1).x = x).map
          fun e => (K.mul e.2 (K.ipow (bsv e.1).ph), (bsv e.1).z) := by
  induction op generalizing r with
  | nil => simp
  | cons e t ih =>
    rw [List.foldl_cons, ih, tlist_tappend]
    by_cases h : (bsv e.1).x = x
    · rw [if_pos h.symm]
      simp [h, List.append_assoc]
    · rw [if_neg (fun e => h e.symm)]
      simp [h]

theorem foldl_add_sum {α} (g : α → K) (l : List α) (v : K) :
    l.foldl (fun v a => K.add v (g a)) v = K.add v (K.sum (l.map g)) := by
  induction l generalizing v with
  | nil => simp
  | cons a r ih => rw [List.foldl_cons, ih, List.map_cons, K.sum_cons, K.add_assoc']

theorem sum_filter {α} (P : α → Bool) (g : α → K) (l : List α) :
    K.sum ((l.filter P).map g) = K.sum (l.map fun a => if P a then g a else K.zero) := by
  induction l with
  | nil => rfl
  | cons a r ih =>
    by_cases h : P a = true
    · simp [h, ih]
    · simp [h, ih]

theorem paritySign_eq (k : Nat) : paritySign k = K.ipow (2 * popcount k) := by
  unfold paritySign K.ipow K.ofInt
  rcases Nat.mod_two_eq_zero_or_one (popcount k) with h | h
  · have : (2 * popcount k) % 4 = 0 := by omega
    rw [h, this]; rfl
  · have : (2 * popcount k) % 4 = 2 := by omega
    rw [h, this]; rfl

theorem xor_eq_iff (n x m : Nat) : n ^^^ x = m ↔ x = m ^^^ n := by
  constructor
  · intro h; rw [← h, Nat.xor_comm n x, Nat.xor_assoc, Nat.xor_self, Nat.xor_zero]
  · intro h; rw [h, Nat.xor_comm m n, ← Nat.xor_assoc, Nat.xor_self, Nat.zero_xor]

/-- **`transition_amp_comp_basis` is the matrix element `<m|O|n>`** -/
theorem tamp_sound' (op : Op) (h : OpValid op) (m n : Nat) : tamp (tampRepr op) m n = amp op m n := by
  have ht : tamp (tampRepr op) m n
      = (tlist (tampRepr op) (m ^^^ n)).foldl (fun v cz => K.add v (K.mul (paritySign (cz.2 &&& m)) cz.1)) K.zero := by
    unfold tamp tlist
    cases tget (tampRepr op) (m ^^^ n) <;> rfl
  rw [ht]
  unfold tampRepr
  rw [tlist_repr, foldl_add_sum]
  simp only [tlist, tget, Option.getD_none, List.nil_append, K.zero_add', List.map_map]
  rw [sum_filter, amp_eq]
  congr 1
  apply List.map_congr_left
  intro e he
  have hb := bsv_sound (h e he) n
  simp only [Function.comp, term, ampL]
  by_cases hx : (bsv e.1).x = m ^^^ n
  · have h2 : (actL e.1 n).2 = m := by rw [hb.1]; exact (xor_eq_iff _ _ _).2 hx
    simp only [hx, decide_true, if_true, h2]
    rw [paritySign_eq, K.mul_comm' (K.ipow _), K.mul_assoc', ← K.ipow_add]
    congr 1
    apply K.ipow_congr
    have h3 := hb.2
    rw [← hb.1, h2] at h3
    omega
  · have h2 : ¬ (actL e.1 n).2 = m := by rw [hb.1]; exact fun h' => hx ((xor_eq_iff _ _ _).1 h')
    simp [hx, h2]

/-! ### Kronecker product export -/

theorem tab_getElem (f : Nat → P1) (k n j : Nat) (hj : j < (tab f k n).length) : (tab f k n)[j] = f (k + j) := by
  induction n generalizing k j with
  | zero => simp [tab] at hj
  | succ n ih =>
    cases j with
    | zero => simp [tab]
    | succ j =>
      simp only [tab, List.getElem_cons_succ]
      rw [ih (k + 1) j]
      congr 1; omega

theorem place_getElem (l : List (Nat × P1)) (N : Nat) (acc : List P1) (hacc : acc.length = N)
    (hn : (l.map (·.1)).Nodup) (hb : ∀ e ∈ l, e.1 < N) (hI : ∀ e ∈ l, e.2 ≠ .I) (j : Nat) (hj : j < N) :
    ((l.foldl (fun acc e => acc.set (N - e.1 - 1) e.2) acc)[j]?).getD .I
      = if lookup l (N - 1 - j) ≠ .I then lookup l (N - 1 - j) else (acc[j]?).getD .I := by
  induction l generalizing acc with
  | nil => simp [lookup]
  | cons e r ih =>
    obtain ⟨i, p⟩ := e
    rw [List.map_cons, List.nodup_cons] at hn
    have hi : i < N := hb (i, p) (by simp)
    have hp : p ≠ .I := hI (i, p) (by simp)
    rw [List.foldl_cons, ih (acc.set (N - i - 1) p) (by simp [hacc]) hn.2
      (fun e he => hb e (by simp [he])) (fun e he => hI e (by simp [he]))]
    simp only [lookup]
    by_cases hij : i = N - 1 - j
    · have hri : lookup r (N - 1 - j) = .I := by
        rw [← hij]
        exact lookup_eq_I_of_not_idx fun e he hei => hn.1 (hei ▸ List.mem_map_of_mem (f := (·.1)) he)
      have hj' : N - i - 1 = j := by omega
      simp [hij, hri, hp, hacc, hj]
      have : N - (N - 1 - j) - 1 = j := by omega
      simp [this]
    · have hj' : N - i - 1 ≠ j := by omega
      simp only [hij, if_false]
      rw [List.getElem?_set_ne hj']

theorem placeList_reverse {l : Label} (h : Valid l) {N : Nat} (hN : bound l ≤ N) :
    (placeList l N).reverse = toDense l N := by
  have hlen : (placeList l N).length = N := by
    unfold placeList
    suffices ∀ acc : List P1, acc.length = N →
        (l.foldl (fun acc e => acc.set (N - e.1 - 1) e.2) acc).length = N from this _ (by simp)
    induction l with
    | nil => intro acc h; exact h
    | cons e r ih =>
      intro acc hacc
      rw [List.foldl_cons]
      exact ih ⟨List.Pairwise.of_cons h.1, fun e he => h.2 e (by simp [he])⟩
        (by obtain ⟨i, p⟩ := e; simp only [bound] at hN; omega) _ (by simp [hacc])
  apply List.ext_getElem
  · simp [hlen, toDense, tab_length]
  · intro j h1 h2
    have hj : j < N := by simpa [hlen] using h1
    rw [List.getElem_reverse]
    have ht : (toDense l N)[j]'h2 = lookup l (0 + j) := tab_getElem (lookup l) 0 N j h2
    rw [ht, Nat.zero_add]
    have hp := place_getElem l N (List.replicate N .I) (by simp) (valid_nodup h)
      (fun e he => Nat.lt_of_lt_of_le (idx_lt_bound he) hN) h.2 (N - 1 - j) (by omega)
    have hidx : N - 1 - (N - 1 - j) = j := by omega
    rw [hidx] at hp
    have hrep : ((List.replicate N P1.I)[N - 1 - j]?).getD .I = .I := by
      cases hr : (List.replicate N P1.I)[N - 1 - j]? with
      | none => rfl
      | some v =>
        have := List.mem_of_getElem? hr
        rw [List.mem_replicate] at this
        simp [this.2]
    rw [hrep] at hp
    have hval : (if lookup l j ≠ .I then lookup l j else .I) = lookup l j := by
      by_cases hl : lookup l j = .I <;> simp [hl]
    rw [hval] at hp
    have hidx2 : (placeList l N).length - 1 - j = N - 1 - j := by rw [hlen]
    have hget : (placeList l N)[(placeList l N).length - 1 - j]?
        = some ((placeList l N)[(placeList l N).length - 1 - j]'(by omega)) := List.getElem?_eq_getElem _
    have hfin : ((placeList l N)[(placeList l N).length - 1 - j]?).getD .I = lookup l j := by
      rw [hidx2]; exact hp
    rw [hget] at hfin
    simpa using hfin

/-- entries of the Kronecker product of the reversed list = action of the dense string -/
theorem kronRev_spec (ps : List P1) (m n : Nat) (hm : m < 2 ^ ps.length) (hn : n < 2 ^ ps.length) :
    kronRev ps m n = if (actD ps n).2 = m then K.ipow (actD ps n).1 else K.zero := by
  induction ps generalizing m n with
  | nil =>
    have h1 : m = 0 := by simpa using hm
    have h2 : n = 0 := by simpa using hn
    subst h1; subst h2
    rfl
  | cons p r ih =>
    rw [List.length_cons, Nat.pow_succ] at hm hn
    have ha : actD (p :: r) n = ((p.ph (n % 2 == 1) + (actD r (n / 2)).1) % 4,
        2 * (actD r (n / 2)).2 + bitOf ((n % 2 == 1) != p.flips)) := rfl
    simp only [kronRev]
    rw [ha, ih (m / 2) (n / 2) (by omega) (by omega)]
    dsimp only
    unfold mat1
    have hb := bitOf_le ((n % 2 == 1) != p.flips)
    by_cases h1 : (actD r (n / 2)).2 = m / 2
    · by_cases h2 : (m % 2 == 1) = ((n % 2 == 1) != p.flips)
      · have h3 : 2 * (actD r (n / 2)).2 + bitOf ((n % 2 == 1) != p.flips) = m := by
          rw [h1, ← h2]; exact bit_decomp m
        rw [if_pos h1, if_pos h2, if_pos h3, ← K.ipow_add]
        apply K.ipow_congr
        omega
      · have h3 : ¬ 2 * (actD r (n / 2)).2 + bitOf ((n % 2 == 1) != p.flips) = m := by
          intro h3
          apply h2
          rw [← h3, bit_mod]
        rw [if_neg h2, if_neg h3]; simp
    · have h3 : ¬ 2 * (actD r (n / 2)).2 + bitOf ((n % 2 == 1) != p.flips) = m := by
        intro h3
        apply h1
        rw [← h3, bit_div]
      rw [if_neg h1, if_neg h3]; simp

theorem sparseLabel_sound {l : Label} (h : Valid l) {N : Nat} {f : Nat → Nat → K}
    (hs : sparseLabel l N = .ok f) (m n : Nat) (hm : m < 2 ^ N) (hn : n < 2 ^ N) : f m n = ampL l m n := by
  unfold sparseLabel at hs
  split at hs
  · simp at hs
  · rename_i h1
    split at hs
    · simp at hs
    · simp at hs
      subst hs
      have hN : bound l ≤ N := by
        cases l with
        | nil => simp [bound]
        | cons e r => simp at h1; omega
      rw [placeList_reverse h hN, kronRev_spec _ _ _ (by simpa [toDense, tab_length] using hm)
        (by simpa [toDense, tab_length] using hn)]
      unfold ampL
      rw [actL_eq hN]

theorem sparseTerms_sound (op : Op) (h : OpValid op) {N : Nat} {f : Nat → Nat → K}
    (hs : sparseTerms op N = .ok f) (m n : Nat) (hm : m < 2 ^ N) (hn : n < 2 ^ N) : f m n = amp op m n := by
  induction op generalizing f with
  | nil => simp [sparseTerms] at hs; subst hs; rfl
  | cons e r ih =>
    obtain ⟨l, c⟩ := e
    simp only [sparseTerms] at hs
    split at hs
    · rename_i g g' hg hg'
      simp at hs; subst hs
      show K.add (K.mul c (g m n)) (g' m n) = _
      rw [amp_cons, term, sparseLabel_sound (h (l, c) (by simp)) hg m n hm hn,
        ih (fun e he => h e (by simp [he])) hg']
    · simp at hs
    · simp at hs

theorem sparse_final (op : Op) (h : OpValid op) (N k : Nat) (f : Nat → Nat → K)
    (hs : (match sparseTerms op N with
      | .error e => (Except.error e : Except Err (Nat × (Nat → Nat → K)))
      | .ok f => .ok (N, f)) = .ok (k, f))
    (m n : Nat) (hm : m < 2 ^ k) (hn : n < 2 ^ k) : f m n = amp op m n := by
  cases hg : sparseTerms op N with
  | error e => rw [hg] at hs; simp at hs
  | ok g =>
    rw [hg] at hs
    simp at hs
    obtain ⟨h1, h2⟩ := hs
    subst h1; subst h2
    exact sparseTerms_sound op h hg m n hm hn

/-- **the matrix export agrees with the denotation**: every entry of `get_sparse_matrix(op, n_qubits)`
    is `<m|op|n>` (whenever the export does not raise) -/
theorem sparseOp_sound' (op : Op) (h : OpValid op) (n? : Option Nat) {k : Nat} {f : Nat → Nat → K}
    (hs : sparseOp op n? = .ok (k, f)) (m n : Nat) (hm : m < 2 ^ k) (hn : n < 2 ^ k) : f m n = amp op m n := by
  unfold sparseOp at hs
  split at hs
  · rename_i he
    simp at hs
    have : op = [] := by simpa using he
    subst this
    rw [← hs.2]; rfl
  · cases n? with
    | some N => exact sparse_final op h N k f hs m n hm hn
    | none =>
      simp only at hs
      split at hs
      · simp at hs
      · exact sparse_final op h _ k f hs m n hm hn

end QV.C05
