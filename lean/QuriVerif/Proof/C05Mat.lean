import QuriVerif.Proof.C05Amp
/- C05: the product in matrix form  <m|AB|n> = Σ_k <m|A|k><k|B|n>  over a register that holds B -/
namespace QV.C05
open K

/-- Σ_{k < M} g k -/
def rangeSum (g : Nat → K) : Nat → K
  | 0 => K.zero
  | M + 1 => K.add (rangeSum g M) (g M)

theorem rangeSum_indicator (g : Nat → K) (k0 : Nat) (c : K) (M : Nat) :
    rangeSum (fun k => K.mul (g k) (if k0 = k then c else K.zero)) M
      = if k0 < M then K.mul (g k0) c else K.zero := by
  induction M with
  | zero => simp [rangeSum]
  | succ M ih =>
    simp only [rangeSum, ih]
    by_cases h1 : k0 < M
    · have : k0 ≠ M := by omega
      have h2 : k0 < M + 1 := by omega
      simp [h1, this, h2]
    · by_cases h2 : k0 = M
      · subst h2; simp
      · have : ¬ k0 < M + 1 := by omega
        simp [h1, h2, this]

theorem rangeSum_sum {α} (h : Nat → α → K) (b : List α) (M : Nat) :
    rangeSum (fun k => K.sum (b.map (h k))) M = K.sum (b.map fun f => rangeSum (fun k => h k f) M) := by
  induction M with
  | zero => simp [rangeSum, K.sum_map_zero]
  | succ M ih =>
    simp only [rangeSum, ih]
    rw [← K.sum_map_add]

theorem rangeSum_congr (g g' : Nat → K) (M : Nat) (h : ∀ k, k < M → g k = g' k) : rangeSum g M = rangeSum g' M := by
  induction M with
  | zero => rfl
  | succ M ih =>
    simp only [rangeSum]
    rw [ih (fun k hk => h k (by omega)), h M (by omega)]

theorem actD_lt (ps : List P1) (b : Nat) (h : b < 2 ^ ps.length) : (actD ps b).2 < 2 ^ ps.length := by
  induction ps generalizing b with
  | nil => simpa [actD] using h
  | cons p r ih =>
    simp only [actD, List.length_cons]
    have hb : b / 2 < 2 ^ r.length := by
      rw [List.length_cons, Nat.pow_succ] at h; omega
    have := ih (b / 2) hb
    have := bitOf_le ((b % 2 == 1) != p.flips)
    rw [Nat.pow_succ]; omega

theorem actL_lt {l : Label} {N : Nat} (h : bound l ≤ N) {b : Nat} (hb : b < 2 ^ N) : (actL l b).2 < 2 ^ N := by
  rw [actL_eq h]
  have := actD_lt (toDense l N) b (by simpa [toDense, tab_length] using hb)
  simpa [toDense, tab_length] using this

/-- **`op1 * op2` denotes the matrix product `M1 @ M2`** on every register that holds `op2` -/
theorem amp_mul_matrix (a b : Op) (ha : OpValid a) (hb : OpValid b) (N : Nat)
    (hN : ∀ f ∈ b, bound f.1 ≤ N) (m n : Nat) (hn : n < 2 ^ N) :
    amp (mul a b) m n = rangeSum (fun k => K.mul (amp a m k) (amp b k n)) (2 ^ N) := by
  rw [amp_mul' a b ha hb]
  have h1 : (fun k => K.mul (amp a m k) (amp b k n))
      = fun k => K.sum (b.map fun f => K.mul (K.mul (amp a m k) f.2) (ampL f.1 k n)) := by
    funext k
    rw [amp_eq b, ← K.sum_map_mul_left, List.map_map]
    congr 1
    apply List.map_congr_left
    intro f _
    simp [term, K.mul_assoc']
  rw [h1, rangeSum_sum]
  congr 1
  apply List.map_congr_left
  intro f hf
  have h2 : (fun k => K.mul (K.mul (amp a m k) f.2) (ampL f.1 k n))
      = fun k => K.mul (K.mul (amp a m k) f.2) (if (actL f.1 n).2 = k then K.ipow (actL f.1 n).1 else K.zero) := by
    funext k; rfl
  rw [h2, rangeSum_indicator (fun k => K.mul (amp a m k) f.2), if_pos (actL_lt (hN f hf) hn)]
  ext <;> simp [K.mul] <;> grind

end QV.C05
