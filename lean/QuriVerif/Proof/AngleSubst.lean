import QuriVerif.Proof.MatSound
/-
  Angle substitution (generic field `K`): ONE kernel-checked symbolic template covers every concrete
  (affine) angle choice.

  `Gate.localMat` reads the parameters only through `(g.p i).ph m`, and `eval ζ ρ (a.ph m) = θ(a)^m`
  with `θ(a) = ζ^k · Π ρⱼ^cⱼ` (`eval_ph`).  Hence reading a gate with parameters `as` under `ρ` is
  reading the gate with parameters `φ₀, φ₁, …` under `substRho ζ ρ as i = θ(asᵢ)` (`localMat_subst`),
  and more generally substituting affine angles for the variables of every parameter of a gate list
  is a change of assignment (`semCirc_subst`).  `UnitaryMatrix` gates are excluded (their matrix is
  data that may mention the variables directly).
-/

namespace QV

/-- the same gate with other parameters -/
def Gate.withParams (g : Gate) (as : List Angle) : Gate := { g with params := as }

/-- the parameter list of a template target: `φ₀, φ₁, …` -/
def Angle.vars (m : ℕ) : List Angle := (List.range m).map Angle.var

/-- substitute the affine angles `as` for the variables `φ₀, φ₁, …` of the affine angle `a`
    (variables beyond `as` are dropped, i.e. set to angle 0) -/
def Angle.subst (as : List Angle) (a : Angle) : Angle :=
  (List.zip a.cs as).foldr (fun cb acc => Angle.add (Angle.scale cb.1 cb.2) acc) ⟨[], a.k⟩

/-- substitute in every parameter of a gate -/
def Gate.subst (as : List Angle) (g : Gate) : Gate := g.withParams (g.params.map (Angle.subst as))

end QV

namespace QV.MatSound
open QV QV.Poly

variable {K : Type} [Field K] {ζ : K} {ρ : ℕ → K}

/-! ## D. Angle substitution -/

theorem zeta_ne_zero (hζ : ζ ^ 8 = -1) : ζ ≠ 0 := by
  intro h; rw [h] at hζ; norm_num at hζ

theorem zeta_pow_16 (hζ : ζ ^ 8 = -1) : ζ ^ 16 = 1 := by
  have : ζ ^ 16 = ζ ^ 8 * ζ ^ 8 := by ring
  rw [this, hζ]; ring

/-- `u` has period 16 -/
theorem zeta_pow_mod (hζ : ζ ^ 8 = -1) (k : ℤ) : ζ ^ (k % 16).toNat = ζ ^ k := by
  have h0 : (0 : ℤ) ≤ k % 16 := Int.emod_nonneg k (by norm_num)
  have e : k = 16 * (k / 16) + ((k % 16).toNat : ℤ) := by
    rw [Int.toNat_of_nonneg h0]; exact (Int.mul_ediv_add_emod k 16).symm
  conv_rhs => rw [e]
  rw [zpow_add₀ (zeta_ne_zero hζ), zpow_mul, zpow_natCast]
  have : ζ ^ (16 : ℤ) = 1 := by
    have := zeta_pow_16 hζ
    rw [← zpow_natCast] at this
    exact_mod_cast this
  rw [this, one_zpow, one_mul]

theorem eval_phase (hζ : ζ ^ 8 = -1) (k : ℤ) (ex : Exps) :
    eval ζ ρ (Poly.phase k ex) = ζ ^ k * evalExps ρ 0 ex := by
  rw [← zeta_pow_mod hζ k]
  unfold Poly.phase
  by_cases h : (k % 16).toNat < 8
  · simp [h, eval, evalTerm, evalMono, evalExps_trim]
  · have e : ζ ^ (k % 16).toNat = ζ ^ ((k % 16).toNat - 8) * ζ ^ 8 := by
      rw [← pow_add]; congr 1; omega
    simp only [h, if_false]
    rw [e, hζ]
    simp [eval, evalTerm, evalMono, evalExps_trim]

theorem evalExps_map_mul (m : ℤ) (cs : List ℤ) (i : ℕ) :
    evalExps ρ i (cs.map (m * ·)) = evalExps ρ i cs ^ m := by
  induction cs generalizing i with
  | nil => simp [evalExps]
  | cons a as ih =>
    simp only [List.map_cons, evalExps, ih, mul_zpow]
    rw [mul_comm m a, zpow_mul]

/-- `θ a = exp(i·a/2)`: the value of the half-angle exponential of an affine angle -/
def theta (ζ : K) (ρ : ℕ → K) (a : Angle) : K := ζ ^ a.k * evalExps ρ 0 a.cs

/-- `a.ph m` denotes `exp(i·m·a/2) = θ(a)^m` -/
theorem eval_ph (hζ : ζ ^ 8 = -1) (a : Angle) (m : ℤ) :
    eval ζ ρ (a.ph m) = theta ζ ρ a ^ m := by
  unfold Angle.ph theta
  rw [eval_phase hζ, evalExps_map_mul, mul_zpow, mul_comm m a.k, zpow_mul]

theorem eval_ph_one (hζ : ζ ^ 8 = -1) (a : Angle) :
    eval ζ ρ (a.ph 1) = theta ζ ρ a := by
  rw [eval_ph hζ, zpow_one]

/-- requested form: `eval (a.ph m) = (eval (a.ph 1))^m` -/
theorem eval_ph_pow (hζ : ζ ^ 8 = -1) (a : Angle) (m : ℤ) :
    eval ζ ρ (a.ph m) = eval ζ ρ (a.ph 1) ^ m := by
  rw [eval_ph hζ, eval_ph_one hζ]

theorem theta_ne_zero (hζ : ζ ^ 8 = -1) (hρ : ∀ j, ρ j ≠ 0) (a : Angle) : theta ζ ρ a ≠ 0 := by
  unfold theta
  apply mul_ne_zero (zpow_ne_zero _ (zeta_ne_zero hζ))
  generalize 0 = i
  induction a.cs generalizing i with
  | nil => simp [evalExps]
  | cons c cs ih => exact mul_ne_zero (zpow_ne_zero _ (hρ i)) (ih (i + 1))

theorem evalExps_var (i s : ℕ) : evalExps ρ s (List.replicate i 0 ++ [1]) = ρ (s + i) := by
  induction i generalizing s with
  | zero => simp [evalExps]
  | succ i ih =>
    rw [List.replicate_succ, List.cons_append, evalExps, ih]
    simp; congr 1; omega

theorem theta_var (i : ℕ) : theta ζ ρ (Angle.var i) = ρ i := by
  unfold theta Angle.var
  simp [evalExps_var]

theorem theta_default : theta ζ ρ ({} : Angle) = 1 := by
  simp [theta, evalExps]

/-- the assignment induced by substituting the angles `as` for the variables -/
def substRho (ζ : K) (ρ : ℕ → K) (as : List Angle) : ℕ → K := fun i => theta ζ ρ (as.getD i {})

theorem substRho_ne_zero (hζ : ζ ^ 8 = -1) (hρ : ∀ j, ρ j ≠ 0) (as : List Angle) :
    ∀ j, substRho ζ ρ as j ≠ 0 := fun _ => theta_ne_zero hζ hρ _

/-- key fact: the `i`-th concrete parameter under `ρ` is the `i`-th variable under `substRho` -/
theorem eval_ph_subst (hζ : ζ ^ 8 = -1) (as : List Angle) (i : ℕ) (m : ℤ) :
    eval ζ ρ ((as.getD i {}).ph m)
      = eval ζ (substRho ζ ρ as) (((Angle.vars as.length).getD i {}).ph m) := by
  rw [eval_ph hζ, eval_ph hζ]
  by_cases hi : i < as.length
  · rw [Angle.vars, getD_map_range _ _ _ _ hi, theta_var]; rfl
  · rw [Angle.vars, getD_ge _ _ (by simpa using hi), getD_ge _ _ (by simp; omega), theta_default,
      theta_default]

/-! ### a logical relation between the two evaluations, closed under the ring operations -/

section Rel
variable (ζ : K) (ρ ρ' : ℕ → K)

/-- `p` under `ρ` and `q` under `ρ'` denote the same number -/
def PRel (p q : Poly) : Prop := eval ζ ρ p = eval ζ ρ' q

/-- entrywise related matrices of the same shape -/
abbrev MRel (M M' : Mat) : Prop := List.Forall₂ (List.Forall₂ (PRel ζ ρ ρ')) M M'

variable {ζ ρ ρ'}

theorem PRel.nil : PRel ζ ρ ρ' [] [] := rfl

theorem PRel.one : PRel ζ ρ ρ' Poly.one Poly.one := by
  unfold PRel; rw [eval_one, eval_one]

theorem PRel.add {p q p' q' : Poly} (h1 : PRel ζ ρ ρ' p p') (h2 : PRel ζ ρ ρ' q q') :
    PRel ζ ρ ρ' (Poly.add p q) (Poly.add p' q') := by
  unfold PRel at *; rw [eval_add, eval_add, h1, h2]

theorem PRel.neg {p p' : Poly} (h1 : PRel ζ ρ ρ' p p') : PRel ζ ρ ρ' (Poly.neg p) (Poly.neg p') := by
  unfold PRel at *; rw [eval_neg, eval_neg, h1]

theorem PRel.sub {p q p' q' : Poly} (h1 : PRel ζ ρ ρ' p p') (h2 : PRel ζ ρ ρ' q q') :
    PRel ζ ρ ρ' (Poly.sub p q) (Poly.sub p' q') := by
  unfold PRel at *; rw [eval_sub, eval_sub, h1, h2]

theorem PRel.mul (hζ : ζ ^ 8 = -1) (hρ : ∀ j, ρ j ≠ 0) (hρ' : ∀ j, ρ' j ≠ 0) {p q p' q' : Poly}
    (h1 : PRel ζ ρ ρ' p p') (h2 : PRel ζ ρ ρ' q q') :
    PRel ζ ρ ρ' (Poly.mul p q) (Poly.mul p' q') := by
  unfold PRel at *; rw [eval_mul hζ hρ, eval_mul hζ hρ', h1, h2]

theorem PRel.uPow (k : ℤ) : PRel ζ ρ ρ' (Poly.uPow k) (Poly.uPow k) := by
  unfold PRel Poly.uPow
  by_cases h : (k % 16).toNat < 8 <;> simp [h, eval, evalTerm, evalMono, evalExps]

theorem PRel.I : PRel ζ ρ ρ' Poly.I Poly.I := PRel.uPow 4

theorem PRel.ite (c : Prop) [Decidable c] {p q p' q' : Poly} (h1 : PRel ζ ρ ρ' p p')
    (h2 : PRel ζ ρ ρ' q q') : PRel ζ ρ ρ' (if c then p else q) (if c then p' else q') := by
  by_cases h : c <;> simp [h, h1, h2]

theorem forall₂_map_map {α β γ : Type} (R : β → γ → Prop) (l : List α) (f : α → β) (g : α → γ)
    (h : ∀ x, R (f x) (g x)) : List.Forall₂ R (l.map f) (l.map g) := by
  induction l with
  | nil => exact List.Forall₂.nil
  | cons a l ih => exact List.Forall₂.cons (h a) ih

theorem forall₂_map₂ {α β γ δ : Type} (R : α → β → Prop) (S : γ → δ → Prop) (f : α → γ) (g : β → δ)
    (h : ∀ a b, R a b → S (f a) (g b)) {l : List α} {l' : List β} (hl : List.Forall₂ R l l') :
    List.Forall₂ S (l.map f) (l'.map g) := by
  induction hl with
  | nil => exact List.Forall₂.nil
  | cons hab _ ih => exact List.Forall₂.cons (h _ _ hab) ih

theorem forall₂_zipWith {α β γ δ : Type} (R : α → β → Prop) (S : γ → δ → Prop)
    (f : α → α → γ) (g : β → β → δ)
    (h : ∀ a b a' b', R a b → R a' b' → S (f a a') (g b b'))
    {l1 : List α} {l1' : List β} (h1 : List.Forall₂ R l1 l1') :
    ∀ {l2 : List α} {l2' : List β}, List.Forall₂ R l2 l2' →
    List.Forall₂ S (List.zipWith f l1 l2) (List.zipWith g l1' l2') := by
  induction h1 with
  | nil => intro _ _ _; simp
  | cons hab _ ih =>
    intro l2 l2' h2
    cases h2 with
    | nil => simp
    | cons hab' h2' => exact List.Forall₂.cons (h _ _ _ _ hab hab') (ih h2')

theorem MRel.ofFn (r c : ℕ) (f f' : ℕ → ℕ → Poly) (h : ∀ i j, PRel ζ ρ ρ' (f i j) (f' i j)) :
    MRel ζ ρ ρ' (Mat.ofFn r c f) (Mat.ofFn r c f') :=
  forall₂_map_map _ _ _ _ (fun i => forall₂_map_map _ _ _ _ (fun j => h i j))

theorem MRel.identity (N : ℕ) : MRel ζ ρ ρ' (Mat.identity N) (Mat.identity N) :=
  MRel.ofFn _ _ _ _ (fun _ _ => PRel.ite _ PRel.one PRel.nil)

theorem MRel.smulP (hζ : ζ ^ 8 = -1) (hρ : ∀ j, ρ j ≠ 0) (hρ' : ∀ j, ρ' j ≠ 0) {p p' : Poly}
    {M M' : Mat} (hp : PRel ζ ρ ρ' p p') (hM : MRel ζ ρ ρ' M M') :
    MRel ζ ρ ρ' (Mat.smulP p M) (Mat.smulP p' M') :=
  forall₂_map₂ _ _ _ _ (fun _ _ hr =>
    forall₂_map₂ _ _ _ _ (fun _ _ hq => PRel.mul hζ hρ hρ' hp hq) hr) hM

theorem MRel.sub {A A' B B' : Mat} (hA : MRel ζ ρ ρ' A A') (hB : MRel ζ ρ ρ' B B') :
    MRel ζ ρ ρ' (Mat.sub A B) (Mat.sub A' B') :=
  forall₂_zipWith (List.Forall₂ (PRel ζ ρ ρ')) (List.Forall₂ (PRel ζ ρ ρ'))
    (List.zipWith Poly.sub) (List.zipWith Poly.sub)
    (fun _ _ _ _ h1 h2 => forall₂_zipWith (PRel ζ ρ ρ') (PRel ζ ρ ρ') Poly.sub Poly.sub
      (fun _ _ _ _ g1 g2 => PRel.sub g1 g2) h1 h2) hA hB

theorem evalRow_of_rel {r r' : List Poly} (h : List.Forall₂ (PRel ζ ρ ρ') r r') (j : ℕ) :
    evalRow ζ ρ r j = evalRow ζ ρ' r' j := by
  induction h generalizing j with
  | nil => rw [evalRow_nil, evalRow_nil]
  | cons hab _ ih =>
    cases j with
    | zero => rw [evalRow_cons_zero, evalRow_cons_zero]; exact hab
    | succ j => rw [evalRow_cons_succ, evalRow_cons_succ]; exact ih j

/-- related matrices have the same values -/
theorem evalMat_of_rel {M M' : Mat} (h : MRel ζ ρ ρ' M M') (i j : ℕ) :
    evalMat ζ ρ M i j = evalMat ζ ρ' M' i j := by
  induction h generalizing i with
  | nil => simp [evalMat, evalRow_nil]
  | cons hab _ ih =>
    cases i with
    | zero => simpa [evalMat] using evalRow_of_rel hab j
    | succ i => simpa [evalMat] using ih i

end Rel

/-! ### the local matrix depends on the parameters only through `(g.p i).ph m` -/

section Main
variable {ρ' : ℕ → K}

/-- Gates that differ only in their parameters, the parameters being related through every `ph`,
    have related local matrices.  `UnitaryMatrix` is excluded: its matrix is user data that may
    mention the angle variables directly. -/
theorem localMat_rel (hζ : ζ ^ 8 = -1) (hρ : ∀ j, ρ j ≠ 0) (hρ' : ∀ j, ρ' j ≠ 0)
    (g : Gate) (hk : g.kind ≠ .UnitaryMatrix) (ps ps' : List Angle)
    (hp : ∀ i m, PRel ζ ρ ρ' ((ps.getD i {}).ph m) ((ps'.getD i {}).ph m)) :
    MRel ζ ρ ρ' (g.withParams ps).localMat.m (g.withParams ps').localMat.m := by
  unfold Gate.localMat
  cases hkind : g.kind <;> simp only [Gate.withParams, Gate.p, hkind] <;>
  first
  | exact absurd hkind hk
  | (repeat' (with_reducible first
      | exact List.Forall₂.nil | exact PRel.nil | exact PRel.one | exact PRel.I
      | exact PRel.uPow _ | exact hp _ _
      | apply List.Forall₂.cons | apply PRel.add | apply PRel.sub | apply PRel.neg
      | apply PRel.mul hζ hρ hρ' | apply PRel.ite
      | (apply MRel.ofFn; intro _ _) | apply MRel.sub | apply MRel.smulP hζ hρ hρ'
      | exact MRel.identity _))

/-- the scale exponent does not depend on the parameters -/
theorem localMat_k_withParams (g : Gate) (ps ps' : List Angle) :
    (g.withParams ps).localMat.k = (g.withParams ps').localMat.k := by
  unfold Gate.localMat
  cases hkind : g.kind <;> simp only [Gate.withParams, hkind]

theorem withParams_wires (g : Gate) (ps : List Angle) : (g.withParams ps).wires = g.wires := rfl

/-- **One symbolic template covers every concrete angle choice** (requested form): the local matrix
    of a gate with affine parameters `as`, read under `ρ`, is the local matrix of the same gate with
    parameters `φ₀, φ₁, …`, read under `ρ' i = exp(i·asᵢ/2)`. -/
theorem localMat_subst (hζ : ζ ^ 8 = -1) (hρ : ∀ j, ρ j ≠ 0) (g : Gate)
    (hk : g.kind ≠ .UnitaryMatrix) (as : List Angle) (i j : ℕ) :
    evalMat ζ ρ (g.withParams as).localMat.m i j
      = evalMat ζ (substRho ζ ρ as) (g.withParams (Angle.vars as.length)).localMat.m i j :=
  evalMat_of_rel (localMat_rel hζ hρ (substRho_ne_zero hζ hρ as) g hk _ _
    (fun i m => eval_ph_subst hζ as i m)) i j

theorem semCirc_withParams (hζ : ζ ^ 8 = -1) (hρ : ∀ j, ρ j ≠ 0) (g : Gate)
    (hk : g.kind ≠ .UnitaryMatrix) (as : List Angle) :
    semCirc ζ ρ [g.withParams as]
      = semCirc ζ (substRho ζ ρ as) [g.withParams (Angle.vars as.length)] := by
  have e : evalMat ζ ρ (g.withParams as).localMat.m
      = evalMat ζ (substRho ζ ρ as) (g.withParams (Angle.vars as.length)).localMat.m := by
    funext i j; exact localMat_subst hζ hρ g hk as i j
  show embedAct _ _ idMat = embedAct _ _ idMat
  rw [e, withParams_wires, withParams_wires]

/-! ### general substitution of affine angles for the variables -/

theorem theta_add (hζ : ζ ^ 8 = -1) (hρ : ∀ j, ρ j ≠ 0) (a b : Angle) :
    theta ζ ρ (Angle.add a b) = theta ζ ρ a * theta ζ ρ b := by
  unfold theta Angle.add
  rw [evalExps_add hρ, zpow_add₀ (zeta_ne_zero hζ)]
  ring

theorem theta_scale (c : ℤ) (a : Angle) : theta ζ ρ (Angle.scale c a) = theta ζ ρ a ^ c := by
  unfold theta Angle.scale
  rw [evalExps_trim, evalExps_map_mul, mul_zpow, mul_comm c a.k, zpow_mul]

theorem evalExps_one (cs : List ℤ) (s : ℕ) (h : ∀ i, ρ (s + i) = 1) : evalExps ρ s cs = 1 := by
  induction cs generalizing s with
  | nil => rfl
  | cons c cs ih =>
    rw [evalExps, ih (s + 1) (fun i => by rw [Nat.add_assoc, Nat.add_comm 1 i, ← Nat.add_assoc]; exact h (i + 1))]
    have := h 0
    rw [Nat.add_zero] at this
    rw [this, one_zpow, one_mul]

theorem theta_subst_aux (hζ : ζ ^ 8 = -1) (hρ : ∀ j, ρ j ≠ 0) (k : ℤ) :
    ∀ (cs : List ℤ) (bs : List Angle) (s : ℕ), (∀ i, ρ' (s + i) = theta ζ ρ (bs.getD i {})) →
    theta ζ ρ ((List.zip cs bs).foldr (fun cb acc => Angle.add (Angle.scale cb.1 cb.2) acc) ⟨[], k⟩)
      = ζ ^ k * evalExps ρ' s cs := by
  intro cs
  induction cs with
  | nil => intro bs s _; simp [theta, evalExps]
  | cons c cs ih =>
    intro bs s h
    cases bs with
    | nil =>
      rw [evalExps_one (c :: cs) s (fun i => by rw [h i]; simp [theta_default])]
      simp [theta, evalExps]
    | cons b bs =>
      rw [List.zip_cons_cons, List.foldr_cons, theta_add hζ hρ, theta_scale,
        ih bs (s + 1) (fun i => by
          have := h (i + 1)
          rw [List.getD_cons_succ] at this
          rw [← this]; congr 1; omega), evalExps]
      have := h 0
      rw [Nat.add_zero, List.getD_cons_zero] at this
      rw [this]; ring

/-- substituting angles = changing the assignment -/
theorem theta_subst (hζ : ζ ^ 8 = -1) (hρ : ∀ j, ρ j ≠ 0) (as : List Angle) (a : Angle) :
    theta ζ ρ (Angle.subst as a) = theta ζ (substRho ζ ρ as) a := by
  unfold Angle.subst
  rw [theta_subst_aux (ρ' := substRho ζ ρ as) hζ hρ a.k a.cs as 0 (fun i => by rw [Nat.zero_add]; rfl)]
  rfl

theorem subst_default (as : List Angle) : Angle.subst as {} = {} := rfl

theorem getD_map_subst (as ps : List Angle) (i : ℕ) :
    (ps.map (Angle.subst as)).getD i {} = Angle.subst as (ps.getD i {}) := by
  by_cases hi : i < ps.length
  · simp [List.getD_eq_getElem?_getD, hi]
  · rw [getD_ge _ _ (by simpa using hi), getD_ge _ _ (by omega), subst_default]

theorem localMat_gate_subst (hζ : ζ ^ 8 = -1) (hρ : ∀ j, ρ j ≠ 0) (as : List Angle) (g : Gate)
    (hk : g.kind ≠ .UnitaryMatrix) (i j : ℕ) :
    evalMat ζ ρ (g.subst as).localMat.m i j = evalMat ζ (substRho ζ ρ as) g.localMat.m i j := by
  have := evalMat_of_rel (localMat_rel hζ hρ (substRho_ne_zero hζ hρ as) g hk
    (g.params.map (Angle.subst as)) g.params (fun i m => by
      unfold PRel
      rw [getD_map_subst, eval_ph hζ, eval_ph hζ, theta_subst hζ hρ])) i j
  exact this

theorem localMat_k_subst (as : List Angle) (g : Gate) : (g.subst as).localMat.k = g.localMat.k :=
  localMat_k_withParams g _ g.params

/-- **Angle substitution for circuits**: instantiating the variables of a (template-level) gate list
    by affine angles `as` and reading it under `ρ` is reading the original list under `substRho`. -/
theorem semCirc_subst (hζ : ζ ^ 8 = -1) (hρ : ∀ j, ρ j ≠ 0) (as : List Angle) (gs : List Gate)
    (hk : ∀ g ∈ gs, g.kind ≠ .UnitaryMatrix) :
    semCirc ζ ρ (gs.map (Gate.subst as)) = semCirc ζ (substRho ζ ρ as) gs := by
  induction gs using List.reverseRec with
  | nil => rfl
  | append_singleton gs g ih =>
    have e : evalMat ζ ρ (g.subst as).localMat.m = evalMat ζ (substRho ζ ρ as) g.localMat.m := by
      funext i j; exact localMat_gate_subst hζ hρ as g (hk g (by simp)) i j
    rw [List.map_append, List.map_singleton, semCirc_snoc, semCirc_snoc,
      ih (fun g' hg' => hk g' (by simp [hg'])), e]
    rfl

theorem semK_subst (as : List Angle) (gs : List Gate) : semK (gs.map (Gate.subst as)) = semK gs := by
  unfold semK
  rw [List.map_map]
  congr 1
  apply List.map_congr_left
  intro g _
  exact localMat_k_subst as g

end Main

end QV.MatSound
