import QuriVerif.Proof.PassSound3
/-
  Two-list templates and the two window passes that need them (generic field part):

    * §12 `Template2` (`lhs ∝ rhs`, both gate lists on wires `0..nq-1`), certificate `tpl2OK`,
          `instance_sound_nz2` (placement + angle substitution), `window_ok`;
    * §13 `fuseCHCPass`   (CNOT(a,b)·H(a)·CNOT(a,b) ↦ 7-gate replacement);
    * §14 `cnotRzRzzPass` (CNOT(a,b)·RZ(b,θ)·CNOT(a,b) ↦ RZZ(a,b,θ));
    * §15 pipelines, third round (`pendingPass4 = {pauliDec, pauliRotDec}`).
-/
namespace QV

/-- `lhs ∝ rhs` as operators on `nq` qubits, both sides gate lists -/
structure Template2 where
  nq : Nat
  lhs : List Gate
  rhs : List Gate
deriving Repr

namespace Template2
/-- proportionality of the two circuit matrices -/
def check2 (t : Template2) : Bool := SMat.propTo (circMat t.nq t.lhs) (circMat t.nq t.rhs)
/-- non-vanishing certificates for both sides -/
def nz2 (t : Template2) : Bool := SMat.nz (circMat t.nq t.lhs) && SMat.nz (circMat t.nq t.rhs)
end Template2

namespace C01
/-- kernel-evaluable certificate of a two-list template -/
def tpl2OK (t : Template2) : Bool :=
  t.check2 && t.nz2 && decide (MatSound.WellFormed t.nq t.lhs) &&
  decide (MatSound.WellFormed t.nq t.rhs) &&
  t.lhs.all (fun g => decide (g.kind ≠ .UnitaryMatrix)) &&
  t.rhs.all (fun g => decide (g.kind ≠ .UnitaryMatrix))
end C01
end QV

namespace QV.MatSound
open QV QV.Poly QV.C01

variable {K : Type} [Field K] {ζ : K} {ρ : ℕ → K}

/-! ## 12. two-list templates -/

/-- on `nq` qubits, for every admissible assignment: `⟦lhs⟧ = c·⟦rhs⟧`, `c ≠ 0` -/
theorem tpl2_scalar (hζ : ζ ^ 8 = -1) (hρ : ∀ j, ρ j ≠ 0) (h2 : (2 : K) ≠ 0) (t : Template2)
    (h : tpl2OK t = true) :
    ∃ c : K, c ≠ 0 ∧ ∀ i, i < 2 ^ t.nq → ∀ j,
      semCirc ζ ρ t.lhs i j = c * semCirc ζ ρ t.rhs i j := by
  simp only [tpl2OK, Template2.check2, Template2.nz2, Bool.and_eq_true, decide_eq_true_eq] at h
  obtain ⟨⟨⟨⟨⟨hc, hz1, hz2⟩, wfl⟩, wfr⟩, _⟩, _⟩ := h
  have h0 : 0 < 2 ^ t.nq := Nat.two_pow_pos _
  have hcross : ∀ i j k l, i < 2 ^ t.nq → k < 2 ^ t.nq →
      semCirc ζ ρ t.lhs i j * semCirc ζ ρ t.rhs k l = semCirc ζ ρ t.lhs k l * semCirc ζ ρ t.rhs i j := by
    intro i j k l hi hk
    have := smat_propTo_sound hζ hρ _ _ hc i j k l
    rwa [evalMat_circMat hζ hρ _ _ wfl i j hi, evalMat_circMat hζ hρ _ _ wfl k l hk,
      evalMat_circMat hζ hρ _ _ wfr i j hi, evalMat_circMat hζ hρ _ _ wfr k l hk] at this
  obtain ⟨l1, hl1⟩ := smat_nz_sound hζ hρ h2 _ hz1
  obtain ⟨l2, hl2⟩ := smat_nz_sound hζ hρ h2 _ hz2
  rw [evalMat_circMat hζ hρ _ _ wfl 0 l1 h0] at hl1
  rw [evalMat_circMat hζ hρ _ _ wfr 0 l2 h0] at hl2
  obtain ⟨c, hcs⟩ := exists_scalar_of_cross (fun i => i < 2 ^ t.nq) hcross 0 l2 h0 hl2
  refine ⟨c, ?_, fun i hi j => hcs i j hi⟩
  intro hc0
  apply hl1
  rw [hcs 0 l1 h0, hc0, zero_mul]

/-- **Every instance of a certified two-list template**: any affine angles, any placement -/
theorem instance_sound_nz2 (hζ : ζ ^ 8 = -1) (hρ : ∀ j, ρ j ≠ 0) (h2 : (2 : K) ≠ 0) (t : Template2)
    (h : tpl2OK t = true) {σ : ℕ → ℕ} {n : ℕ} (P : Placement σ t.nq n) (as : List Angle) :
    ∃ c : K, c ≠ 0 ∧ ∀ r, r < 2 ^ n → ∀ j, j < 2 ^ n →
      semCirc ζ ρ ((t.lhs.map (Gate.subst as)).map (Gate.relabel σ)) r j
        = c * semCirc ζ ρ ((t.rhs.map (Gate.subst as)).map (Gate.relabel σ)) r j := by
  have h' := h
  simp only [tpl2OK, Bool.and_eq_true, decide_eq_true_eq, List.all_eq_true] at h'
  obtain ⟨⟨⟨⟨_, wfl⟩, wfr⟩, hUl⟩, hUr⟩ := h'
  obtain ⟨c, hc, hs⟩ := tpl2_scalar (ρ := substRho ζ ρ as) hζ (substRho_ne_zero hζ hρ as) h2 t h
  refine ⟨c, hc, ?_⟩
  rw [semCirc_instance hζ hρ as t.lhs hUl, semCirc_instance hζ hρ as t.rhs hUr]
  exact placed_scalar P t.lhs t.rhs wfl wfr c (fun i hi j _ => hs i hi j)

/-- a window `w` that is an instance of `rhs` may be replaced by the corresponding instance `out`
    of `lhs` -/
theorem window_ok (hζ : ζ ^ 8 = -1) (hρ : ∀ j, ρ j ≠ 0) (h2 : (2 : K) ≠ 0) (t : Template2)
    (h : tpl2OK t = true) {σ : ℕ → ℕ} {n : ℕ} (P : Placement σ t.nq n) (as : List Angle)
    (w out : List NGate)
    (hw : List.Forall₂ (GateEqv ζ ρ) (w.map NGate.toGate)
      ((t.rhs.map (Gate.subst as)).map (Gate.relabel σ)))
    (ho : List.Forall₂ (GateEqv ζ ρ) (out.map NGate.toGate)
      ((t.lhs.map (Gate.subst as)).map (Gate.relabel σ))) :
    OpEqv ζ ρ n w out := by
  obtain ⟨c, hc, hs⟩ := instance_sound_nz2 hζ hρ h2 t h P as
  refine ⟨c, hc, fun r hr j hj => ?_⟩
  rw [semCirc_congr_eqv hζ hρ ho, semCirc_congr_eqv hζ hρ hw]
  exact hs r hr j hj

end QV.MatSound

/-! ## 13. `fuseCHCPass` -/

namespace QV.C01

/-- the window of `FuseCHCTranspiler`-style passes on template wires: CNOT(0,1)·H(0)·CNOT(0,1) -/
def chcRhs : List Gate := [G .CNOT [0] [1] [], G .H [] [0] [], G .CNOT [0] [1] []]

/-- replacement (the body of the CHC template) ∝ window -/
def chcT2 (tpl : Template) : Template2 := ⟨2, tpl.body, chcRhs⟩

/-- certificate for the CHC template of an environment -/
def chcOK (tpl : Template) : Bool := tpl2OK (chcT2 tpl) && tableArityOK ("", .CNOT, tpl)

end QV.C01

namespace QV.MatSound
open QV QV.Poly QV.C01

variable {K : Type} [Field K] {ζ : K} {ρ : ℕ → K}

/-- shape of a gate whose kind has a fixed arity -/
theorem arity_of_kind {n : ℕ} {g : NGate} (hg : gInv n g = true) {a : ℕ × ℕ × ℕ}
    (hk : kindArity g.kind = some a) :
    g.controls.length = a.1 ∧ g.targets.length = a.2.1 ∧ g.params.length = a.2.2 ∧
      g.paulis = [] := by
  have h3 := (gInv_iff.mp hg).2.2
  unfold arityOK at h3
  rw [hk] at h3
  simp only [Bool.and_eq_true, beq_iff_eq, List.isEmpty_iff] at h3
  obtain ⟨h4, h5⟩ := h3
  rw [h4]
  exact ⟨rfl, rfl, rfl, h5⟩

theorem params_default_eqv (ps : List ℤ) (hp : ps = []) (as : List Angle) (i : ℕ) :
    theta ζ ρ ((ps.map unitAngle).getD i {})
      = theta ζ ρ ((([] : List Angle).map (Angle.subst as)).getD i {}) := by
  subst hp; simp

/-- the window function of the CHC fuser is sound -/
theorem chcFuse_ok (hζ : ζ ^ 8 = -1) (hρ : ∀ j, ρ j ≠ 0) (h16 : ρ 0 ^ 16 = ζ) (h2 : (2 : K) ≠ 0)
    (tpl : Template) (hT : chcOK tpl = true) (n : ℕ) (w : List NGate)
    (ht : chcIsTarget w = true) (hc : CInv n w) :
    CInv n (chcFuse tpl w) ∧ OpEqv ζ ρ n w (chcFuse tpl w) := by
  simp only [chcOK, Bool.and_eq_true] at hT
  obtain ⟨hT2, har⟩ := hT
  have hT2' := hT2
  simp only [tpl2OK, Bool.and_eq_true, decide_eq_true_eq, List.all_eq_true] at hT2'
  obtain ⟨⟨⟨⟨_, wfl⟩, _⟩, hUl⟩, _⟩ := hT2'
  match w, ht, hc with
  | [a, b, c], ht, hc =>
    simp only [chcIsTarget, Bool.and_eq_true, beq_iff_eq] at ht
    obtain ⟨⟨⟨⟨⟨ka, kb⟩, kc⟩, hcc⟩, htt⟩, hcb⟩ := ht
    have ga : gInv n a = true := CInv_iff.mp hc a (by simp)
    have gb : gInv n b = true := CInv_iff.mp hc b (by simp)
    have gc : gInv n c = true := CInv_iff.mp hc c (by simp)
    obtain ⟨a1, a2, a3, a4⟩ := arity_of_kind ga (a := (1, 1, 0)) (by rw [ka]; rfl)
    obtain ⟨b1, b2, b3, b4⟩ := arity_of_kind gb (a := (0, 1, 0)) (by rw [kb]; rfl)
    obtain ⟨c1, c2, c3, c4⟩ := arity_of_kind gc (a := (1, 1, 0)) (by rw [kc]; rfl)
    obtain ⟨x, hx⟩ := List.length_eq_one_iff.mp a1
    obtain ⟨y, hy⟩ := List.length_eq_one_iff.mp a2
    have ap : a.params = [] := List.eq_nil_of_length_eq_zero a3
    have bp : b.params = [] := List.eq_nil_of_length_eq_zero b3
    have cp : c.params = [] := List.eq_nil_of_length_eq_zero c3
    have bc : b.controls = [] := List.eq_nil_of_length_eq_zero b1
    obtain ⟨hnd, hlt, _⟩ := gInv_iff.mp ga
    have P : Placement a.sigma 2 n := by
      have := placement_of_nodup _ n hnd hlt
      rwa [List.length_append, a1, a2] at this
    have s0 : a.sigma 0 = x := by simp [NGate.sigma, hx, hy]
    have s1 : a.sigma 1 = y := by simp [NGate.sigma, hx, hy]
    have ho := instantiate_eqv hζ hρ h16 tpl a hUl
    have hw : List.Forall₂ (GateEqv ζ ρ) ([a, b, c].map NGate.toGate)
        (((chcT2 tpl).rhs.map (Gate.subst a.args)).map (Gate.relabel a.sigma)) := by
      refine List.Forall₂.cons ?_ (List.Forall₂.cons ?_ (List.Forall₂.cons ?_ List.Forall₂.nil))
      · exact ⟨ka, by rw [show (NGate.toGate a).kind = a.kind from rfl, ka]; decide,
          by show a.controls = [a.sigma 0]; rw [s0, hx],
          by show a.targets = [a.sigma 1]; rw [s1, hy], a4, fun i => params_default_eqv _ ap a.args i⟩
      · exact ⟨kb, by rw [show (NGate.toGate b).kind = b.kind from rfl, kb]; decide,
          by show b.controls = []; exact bc,
          by show b.targets = [a.sigma 0]; rw [s0, ← hcb, hx], b4, fun i => params_default_eqv _ bp a.args i⟩
      · exact ⟨kc, by rw [show (NGate.toGate c).kind = c.kind from rfl, kc]; decide,
          by show c.controls = [a.sigma 0]; rw [s0, ← hcc, hx],
          by show c.targets = [a.sigma 1]; rw [s1, ← htt, hy], c4, fun i => params_default_eqv _ cp a.args i⟩
    have wfs : WellFormed 2 (tpl.body.map (Gate.subst a.args)) := by
      intro g' hg'
      obtain ⟨b', hb', rfl⟩ := List.mem_map.mp hg'
      exact wfl b' hb'
    have wf := wellFormed_of_eqv ho (wellFormed_relabel P _ wfs)
    exact ⟨instantiate_inv ("", .CNOT, tpl) har a wf,
      window_ok hζ hρ h2 (chcT2 tpl) hT2 P a.args [a, b, c] (instantiate tpl a) hw ho⟩

/-- **`fuseCHCPass`** (whenever the loop returns; it always does: `Props/C01.fuseCHC_terminates`) -/
theorem fuseCHCPass_ok (hζ : ζ ^ 8 = -1) (hρ : ∀ j, ρ j ≠ 0) (h16 : ρ 0 ^ 16 = ζ)
    (h2 : (2 : K) ≠ 0) (tpl : Template) (hT : chcOK tpl = true) (n : ℕ) (c out : List NGate)
    (hc : CInv n c) (h : fuseCHCPass tpl c = some out) : CInv n out ∧ OpEqv ζ ρ n c out := by
  have := fuserLoop_ok (ζ := ζ) (ρ := ρ) n 3 chcIsTarget (chcFuse tpl)
    (fun w ht hw => chcFuse_ok hζ hρ h16 h2 tpl hT n w ht hw) _ c [] out (by simpa using hc) h
  simpa using this

end QV.MatSound

/-! ## 14. `cnotRzRzzPass` -/

namespace QV.C01

/-- RZZ(0,1,θ) ∝ CNOT(0,1)·RZ(1,θ)·CNOT(0,1), one angle variable -/
def rzzT2 : Template2 :=
  ⟨2, [G .RZZ [] [0, 1] [Angle.var 0]],
    [G .CNOT [0] [1] [], G .RZ [] [1] [Angle.var 0], G .CNOT [0] [1] []]⟩

/-- the gate emitted by `cnotRzRzzLoop` for a window starting with `a`, rotation `b` -/
def rzzGate (a b : NGate) : NGate :=
  { kind := .RZZ, targets := a.controls ++ a.targets, params := b.params }

end QV.C01

namespace QV.MatSound
open QV QV.Poly QV.C01

variable {K : Type} [Field K] {ζ : K} {ρ : ℕ → K}

theorem params_var0_eqv (hζ : ζ ^ 8 = -1) (hρ : ∀ j, ρ j ≠ 0) (ps : List ℤ) (hp : ps.length = 1)
    (i : ℕ) :
    theta ζ ρ ((ps.map unitAngle).getD i {})
      = theta ζ ρ (([Angle.var 0].map (Angle.subst (ps.map unitAngle))).getD i {}) := by
  have hv : [Angle.var 0] = Angle.vars ps.length := by rw [hp]; rfl
  rw [hv, getD_map_subst, theta_subst hζ hρ]
  by_cases hi : i < ps.length
  · rw [Angle.vars, getD_map_range _ _ _ _ hi, theta_var]; rfl
  · rw [Angle.vars, getD_ge _ _ (by simpa using hi), getD_ge _ _ (by simp; omega), theta_default,
      theta_default]

/-- one window of `cnotRzRzzLoop` -/
theorem rzzWindow_ok (hζ : ζ ^ 8 = -1) (hρ : ∀ j, ρ j ≠ 0) (h2 : (2 : K) ≠ 0)
    (hT : tpl2OK rzzT2 = true) (n : ℕ) (a b c : NGate)
    (ht : (a.kind == .CNOT && b.kind == .RZ && c.kind == .CNOT && a.controls == c.controls &&
      a.targets == b.targets && b.targets == c.targets) = true)
    (hc : CInv n [a, b, c]) :
    gInv n (rzzGate a b) = true ∧ OpEqv ζ ρ n [a, b, c] [rzzGate a b] := by
  simp only [Bool.and_eq_true, beq_iff_eq] at ht
  obtain ⟨⟨⟨⟨⟨ka, kb⟩, kc⟩, hcc⟩, hab⟩, hbc⟩ := ht
  have ga : gInv n a = true := CInv_iff.mp hc a (by simp)
  have gb : gInv n b = true := CInv_iff.mp hc b (by simp)
  have gc : gInv n c = true := CInv_iff.mp hc c (by simp)
  obtain ⟨a1, a2, a3, a4⟩ := arity_of_kind ga (a := (1, 1, 0)) (by rw [ka]; rfl)
  obtain ⟨b1, b2, b3, b4⟩ := arity_of_kind gb (a := (0, 1, 1)) (by rw [kb]; rfl)
  obtain ⟨c1, c2, c3, c4⟩ := arity_of_kind gc (a := (1, 1, 0)) (by rw [kc]; rfl)
  obtain ⟨x, hx⟩ := List.length_eq_one_iff.mp a1
  obtain ⟨y, hy⟩ := List.length_eq_one_iff.mp a2
  have ap : a.params = [] := List.eq_nil_of_length_eq_zero a3
  have cp : c.params = [] := List.eq_nil_of_length_eq_zero c3
  have bc : b.controls = [] := List.eq_nil_of_length_eq_zero b1
  obtain ⟨hnd, hlt, _⟩ := gInv_iff.mp ga
  have P : Placement a.sigma 2 n := by
    have := placement_of_nodup _ n hnd hlt
    rwa [List.length_append, a1, a2] at this
  have s0 : a.sigma 0 = x := by simp [NGate.sigma, hx, hy]
  have s1 : a.sigma 1 = y := by simp [NGate.sigma, hx, hy]
  have hg : gInv n (rzzGate a b) = true := by
    rw [gInv_iff]
    refine ⟨by simpa [rzzGate] using hnd, by simpa [rzzGate] using hlt, ?_⟩
    simp [rzzGate, arityOK, kindArity, a1, a2, b3]
  have hw : List.Forall₂ (GateEqv ζ ρ) ([a, b, c].map NGate.toGate)
      ((rzzT2.rhs.map (Gate.subst b.args)).map (Gate.relabel a.sigma)) := by
    refine List.Forall₂.cons ?_ (List.Forall₂.cons ?_ (List.Forall₂.cons ?_ List.Forall₂.nil))
    · exact ⟨ka, by rw [show (NGate.toGate a).kind = a.kind from rfl, ka]; decide,
        by show a.controls = [a.sigma 0]; rw [s0, hx],
        by show a.targets = [a.sigma 1]; rw [s1, hy], a4,
        fun i => params_default_eqv _ ap b.args i⟩
    · exact ⟨kb, by rw [show (NGate.toGate b).kind = b.kind from rfl, kb]; decide,
        by show b.controls = []; exact bc,
        by show b.targets = [a.sigma 1]; rw [s1, ← hab, hy], b4,
        fun i => params_var0_eqv hζ hρ b.params b3 i⟩
    · exact ⟨kc, by rw [show (NGate.toGate c).kind = c.kind from rfl, kc]; decide,
        by show c.controls = [a.sigma 0]; rw [s0, ← hcc, hx],
        by show c.targets = [a.sigma 1]; rw [s1, ← hbc, ← hab, hy], c4,
        fun i => params_default_eqv _ cp b.args i⟩
  have ho : List.Forall₂ (GateEqv ζ ρ) ([rzzGate a b].map NGate.toGate)
      ((rzzT2.lhs.map (Gate.subst b.args)).map (Gate.relabel a.sigma)) := by
    refine List.Forall₂.cons ?_ List.Forall₂.nil
    exact ⟨rfl, by show Kind.RZZ ≠ Kind.UnitaryMatrix; decide, rfl,
      by show a.controls ++ a.targets = [a.sigma 0, a.sigma 1]; rw [s0, s1, hx, hy]; rfl, rfl,
      fun i => params_var0_eqv hζ hρ b.params b3 i⟩
  exact ⟨hg, window_ok hζ hρ h2 rzzT2 hT P b.args [a, b, c] [rzzGate a b] hw ho⟩

theorem cnotRzRzzLoop_ok (hζ : ζ ^ 8 = -1) (hρ : ∀ j, ρ j ≠ 0) (h2 : (2 : K) ≠ 0)
    (hT : tpl2OK rzzT2 = true) (n : ℕ) : ∀ (fuel : ℕ) (xs ys : List NGate), CInv n (ys ++ xs) →
    CInv n (cnotRzRzzLoop fuel xs ys) ∧ OpEqv ζ ρ n (ys ++ xs) (cnotRzRzzLoop fuel xs ys) := by
  intro fuel
  induction fuel with
  | zero => intro xs ys hc; simp only [cnotRzRzzLoop]; exact ⟨hc, OpEqv.refl n _⟩
  | succ fuel ih =>
    intro xs ys hc
    match xs, hc with
    | a :: b :: c :: rest, hc =>
      simp only [cnotRzRzzLoop]
      split_ifs with hcond
      · obtain ⟨hys, hxs⟩ := CInv_append.mp hc
        have hsplit : a :: b :: c :: rest = [a, b, c] ++ rest := rfl
        rw [hsplit] at hxs
        obtain ⟨hw, hrest⟩ := CInv_append.mp hxs
        obtain ⟨hg, heq⟩ := rzzWindow_ok hζ hρ h2 hT n a b c hcond hw
        have hc' : CInv n ((ys ++ [rzzGate a b]) ++ rest) :=
          CInv_append.mpr ⟨CInv_append.mpr ⟨hys, CInv_singleton.mpr hg⟩, hrest⟩
        obtain ⟨h1, h2'⟩ := ih rest (ys ++ [rzzGate a b]) hc'
        refine ⟨h1, OpEqv.trans ?_ h2'⟩
        have := OpEqv.context (ζ := ζ) (ρ := ρ) ys rest hw (CInv_singleton.mpr hg) hrest heq
        simpa using this
      · have e : ys ++ a :: b :: c :: rest = (ys ++ [a]) ++ (b :: c :: rest) := by simp
        rw [e] at hc ⊢
        exact ih (b :: c :: rest) (ys ++ [a]) hc
    | [], hc => simp only [cnotRzRzzLoop]; exact ⟨hc, OpEqv.refl n _⟩
    | [a], hc => simp only [cnotRzRzzLoop]; exact ⟨hc, OpEqv.refl n _⟩
    | [a, b], hc => simp only [cnotRzRzzLoop]; exact ⟨hc, OpEqv.refl n _⟩

/-- **`cnotRzRzzPass`** (Quantinuum `CNOTRZ2RZZTranspiler`) -/
theorem cnotRzRzzPass_ok (hζ : ζ ^ 8 = -1) (hρ : ∀ j, ρ j ≠ 0) (h2 : (2 : K) ≠ 0)
    (hT : tpl2OK rzzT2 = true) (n : ℕ) (c : List NGate) (hc : CInv n c) :
    CInv n (cnotRzRzzPass c) ∧ OpEqv ζ ρ n c (cnotRzRzzPass c) := by
  have := cnotRzRzzLoop_ok hζ hρ h2 hT n (c.length + 1) c [] (by simpa using hc)
  simpa [cnotRzRzzPass] using this

end QV.MatSound

/-! ## 15. pipelines, third round -/

namespace QV.C01

/-- primitive passes still assumed: the two Pauli decompositions (arbitrary number of targets; only
    small cases are kernel-checked, the induction over the CNOT ladder is not done) -/
def pendingPass4 : Pass → Bool
  | .pauliDec | .pauliRotDec => true
  | _ => false

/-- passes all of whose (nested) primitive passes are proved sound -/
def provedPass4 : Pass → Bool
  | .pauliDec | .pauliRotDec | .gateSetConv _ _ => false
  | _ => true

end QV.C01

namespace QV.MatSound
open QV QV.Poly QV.C01

variable {K : Type} [Field K] {ζ : K} {ρ : ℕ → K}

variable (ζ ρ) in
/-- what is needed from the environment (third round) -/
structure EnvOK4 (e : Env) : Prop where
  base : EnvOK ζ ρ e
  chc : chcOK e.chc = true
  rzz : tpl2OK rzzT2 = true

/-- all primitive passes except the two Pauli decompositions -/
theorem prim_ok4 (hζ : ζ ^ 8 = -1) (hρ : ∀ j, ρ j ≠ 0) (h16 : ρ 0 ^ 16 = ζ) (h2 : (2 : K) ≠ 0)
    (e : Env) (E : EnvOK4 ζ ρ e) (n : ℕ) (p : Pass) (hpr : pendingPass4 p = false)
    (hp : p.prim = true) (hf : p.fits n = true) (hl : p.ladderGood e = true) :
    PrimOK ζ ρ e n p := by
  cases p with
  | fuseCHC =>
    intro fuel c c' hc h
    simp only [runPass] at h
    cases hr : fuseCHCPass e.chc c with
    | none => rw [hr] at h; simp at h
    | some r =>
      rw [hr] at h
      have : r = c' := by simpa using h
      subst this
      exact fuseCHCPass_ok hζ hρ h16 h2 e.chc E.chc n c r hc hr
  | cnotRzRzz =>
    intro fuel c c' hc h
    have : cnotRzRzzPass c = c' := by simpa [runPass] using h
    subst this
    exact cnotRzRzzPass_ok hζ hρ h2 E.rzz n c hc
  | pauliDec => simp [pendingPass4] at hpr
  | pauliRotDec => simp [pendingPass4] at hpr
  | _ => exact prim_ok3 hζ hρ h16 h2 e E.base n _ rfl hp hf hl

/-- **Pipeline soundness, third round** (hypotheses: `pauliDec`, `pauliRotDec` only).  Covers
    `GateSetConversionTranspiler` pipelines. -/
theorem runSeq_sound_partial4 (hζ : ζ ^ 8 = -1) (hρ : ∀ j, ρ j ≠ 0) (h16 : ρ 0 ^ 16 = ζ)
    (h2 : (2 : K) ≠ 0) (e : Env) (E : EnvOK4 ζ ρ e) (n : ℕ)
    (hpend : ∀ p, pendingPass4 p = true → PrimOK ζ ρ e n p)
    (fuel : ℕ) (ps : List Pass) (c c' : List NGate)
    (hf : ∀ p ∈ ps, p.fits n = true ∧ p.ladderGood e = true)
    (hc : CInv n c) (h : runSeq e fuel ps c = .ok c') : CInv n c' ∧ OpEqv ζ ρ n c c' :=
  (run_sound e n (fun p => p.fits n = true ∧ p.ladderGood e = true)
    (fun rots fav _ p hp => ⟨rotConvPipeline_fits n rots fav p hp,
      rotConvPipeline_ladderGood e rots fav p hp⟩)
    (fun gs _ _ p hp => ⟨gateSetPipeline_fits n gs p hp,
      gateSetPipeline_ladderGood e E.base.std gs p hp⟩)
    (fun p hp hq => by
      by_cases hpe : pendingPass4 p = true
      · exact hpend p hpe
      · exact prim_ok4 hζ hρ h16 h2 e E n p (by simpa using hpe) hp hq.1 hq.2) fuel).2
    ps c c' hf hc h

/-- **Pipeline soundness, unconditional**, for pipelines built from every primitive pass except
    `pauliDec` / `pauliRotDec` (and from `rotConv`) -/
theorem runSeq_sound_proved4 (hζ : ζ ^ 8 = -1) (hρ : ∀ j, ρ j ≠ 0) (h16 : ρ 0 ^ 16 = ζ)
    (h2 : (2 : K) ≠ 0) (e : Env) (E : EnvOK4 ζ ρ e) (n : ℕ)
    (fuel : ℕ) (ps : List Pass) (c c' : List NGate)
    (hf : ∀ p ∈ ps, p.fits n = true ∧ p.ladderGood e = true ∧ provedPass4 p = true)
    (hc : CInv n c) (h : runSeq e fuel ps c = .ok c') : CInv n c' ∧ OpEqv ζ ρ n c c' :=
  (run_sound e n (fun p => p.fits n = true ∧ p.ladderGood e = true ∧ provedPass4 p = true)
    (fun rots fav _ p hp => ⟨rotConvPipeline_fits n rots fav p hp,
      rotConvPipeline_ladderGood e rots fav p hp, by
        have := rotConvPipeline_proved rots fav p hp
        cases p <;> simp_all [provedPass, provedPass4]⟩)
    (fun gs v h => by simp [provedPass4] at h)
    (fun p hp hq => prim_ok4 hζ hρ h16 h2 e E n p (by
      obtain ⟨_, _, h3⟩ := hq
      cases p <;> simp_all [provedPass4, pendingPass4]) hp hq.1 hq.2.1) fuel).2 ps c c' hf hc h

/-- a circuit without Pauli / PauliRotation gates is left unchanged by the two pending passes, so
    for such circuits they are trivially sound -/
theorem pauliDecPass_noop (c : List NGate) (h : ∀ g ∈ c, g.kind ≠ .Pauli) : pauliDecPass c = c := by
  unfold pauliDecPass
  rw [List.flatMap_congr (g := fun g => [g]) (fun g hg => by simp [h g hg])]
  simp

theorem pauliRotDecPass_noop (c : List NGate) (h : ∀ g ∈ c, g.kind ≠ .PauliRotation) :
    pauliRotDecPass c = c := by
  unfold pauliRotDecPass
  rw [List.flatMap_congr (g := fun g => [g]) (fun g hg => by simp [h g hg])]
  simp

end QV.MatSound
