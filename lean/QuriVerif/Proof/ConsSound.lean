import QuriVerif.Proof.InvSound
import QuriVerif.Model.C15
/-
  C15 over the concrete operator semantics (generic field part): conservation of an additive weight.

  An operator `A` on `n` qubits conserves a weight `w` (a function of the basis index) when it has no
  entry between basis states of different weight: `ConservesOn n w A`.

    * §1  closed under composition (`conserves_append`, `conserves_flatten`), the empty circuit;
    * §2  placement: a block on template wires `0..k-1` that conserves a local weight, placed by an
          injective `σ` into `n` wires, conserves every global weight that is compatible with the local
          one (`WeightCompat`; `conserves_placed`);
    * §3  additive weights `addW c n x = Σ_{i<n} c i · bit_i(x)` split into the part on the frame and the
          part outside (`addW_split`), hence compatibility (`compat_add`, `compat_mod`);
    * §4  the weights of the model (`Weight.eval`: number, S_z with a spin list, parity) are of this form
          (`eval_number`, `eval_parity`, `eval_sz`); `WeightPlaced` = the three compatible pairs;
    * §5  the kernel check: `blockConserves k ws real gs = true` implies `ConservesOn` for the operator
          of the block, for all values of the angle variables (`blockConserves_sound`), also after
          substituting affine angle expressions (`block_subst_conserves`);
    * §6  a circuit that is a concatenation of placed, substituted, certified blocks conserves the global
          weight for all parameter values (`ansatz_conserves`).
-/
namespace QV.MatSound
open QV QV.Poly

variable {K : Type} [Field K] {ζ : K} {ρ : ℕ → K}

/-! ### §1  conservation, composition -/

/-- `A` has no entry between basis states `< 2^n` of different weight -/
def ConservesOn {ω : Type} (n : ℕ) (w : ℕ → ω) (A : ℕ → ℕ → K) : Prop :=
  ∀ r, r < 2 ^ n → ∀ j, j < 2 ^ n → w r ≠ w j → A r j = 0

theorem conserves_nil {ω : Type} (n : ℕ) (w : ℕ → ω) : ConservesOn n w (semCirc ζ ρ []) := by
  intro r _ j _ h
  show (idMat r j : K) = 0
  unfold idMat
  rw [if_neg]
  rintro rfl
  exact h rfl

/-- **composition**: running `a` then `b` conserves what both conserve -/
theorem conserves_append {ω : Type} (n : ℕ) (w : ℕ → ω) (a b : List Gate) (wb : WellFormed n b)
    (ha : ConservesOn n w (semCirc ζ ρ a)) (hb : ConservesOn n w (semCirc ζ ρ b)) :
    ConservesOn n w (semCirc ζ ρ (a ++ b)) := by
  intro r hr j hj hrj
  rw [semCirc_append, actCirc_eq_sum n b wb _ r j hr]
  apply sum_map_zero
  intro k hk
  have hk' := List.mem_range.mp hk
  by_cases h1 : w r = w k
  · rw [ha k hk' j hj (fun h => hrj (h1.trans h)), mul_zero]
  · rw [hb r hr k hk' h1, zero_mul]

/-- any concatenation of conserving well-formed blocks conserves -/
theorem conserves_flatten {ω : Type} (n : ℕ) (w : ℕ → ω) (blocks : List (List Gate))
    (h : ∀ b ∈ blocks, WellFormed n b ∧ ConservesOn n w (semCirc ζ ρ b)) :
    WellFormed n blocks.flatten ∧ ConservesOn n w (semCirc ζ ρ blocks.flatten) := by
  induction blocks using List.reverseRec with
  | nil => exact ⟨WellFormed.nil n, conserves_nil n w⟩
  | append_singleton bs b ih =>
    have ih' := ih (fun x hx => h x (List.mem_append_left _ hx))
    have hb := h b (by simp)
    rw [List.flatten_append, List.flatten_singleton]
    exact ⟨ih'.1.append hb.1, conserves_append n w _ _ hb.1 ih'.2 hb.2⟩

/-! ### §2  placement -/

/-- the global weight `w` on `n` wires is determined by the part of the index outside the frame of `σ`
    and the local weight `wl` of the part inside -/
def WeightCompat {ω ω' : Type} (σ : ℕ → ℕ) (k n : ℕ) (wl : ℕ → ω) (w : ℕ → ω') : Prop :=
  ∀ r, r < 2 ^ n → ∀ c, c < 2 ^ n →
    Gate.clearBits (frame σ k) r = Gate.clearBits (frame σ k) c →
    wl (Gate.locIdx (frame σ k) r) = wl (Gate.locIdx (frame σ k) c) → w r = w c

/-- **placement**: a block that conserves the local weight, placed by `σ`, conserves every compatible
    global weight -/
theorem conserves_placed {ω ω' : Type} {σ : ℕ → ℕ} {k n : ℕ} (P : Placement σ k n)
    (wl : ℕ → ω) (w : ℕ → ω') (hc : WeightCompat σ k n wl w) (gs : List Gate)
    (wf : WellFormed k gs) (h : ConservesOn k wl (semCirc ζ ρ gs)) :
    ConservesOn n w (semCirc ζ ρ (gs.map (Gate.relabel σ))) := by
  intro r hr j hj hrj
  rw [semCirc_relabel P gs wf r j hr hj]
  split
  · rename_i hcl
    have hl : ∀ x, Gate.locIdx (frame σ k) x < 2 ^ k := by
      intro x; have := locIdx_lt (frame σ k) x; rwa [frame_length] at this
    apply h _ (hl r) _ (hl j)
    intro hw
    exact hrj (hc r hr j hj hcl hw)
  · rfl

/-! ### §3  additive weights -/

/-- `Σ_{i<n} f i` over ℤ -/
def isum (n : ℕ) (f : ℕ → ℤ) : ℤ := ((List.range n).map f).sum

theorem isum_succ (n : ℕ) (f : ℕ → ℤ) : isum (n + 1) f = isum n f + f n := by
  simp [isum, List.range_succ]

theorem isum_congr (n : ℕ) (f g : ℕ → ℤ) (h : ∀ i, i < n → f i = g i) : isum n f = isum n g := by
  unfold isum
  congr 1
  exact List.map_congr_left (fun i hi => h i (List.mem_range.mp hi))

theorem isum_add (n : ℕ) (f g : ℕ → ℤ) : isum n (fun i => f i + g i) = isum n f + isum n g := by
  induction n with
  | zero => rfl
  | succ n ih => rw [isum_succ, isum_succ, isum_succ, ih]; ring

theorem isum_ite_eq (n s : ℕ) (hs : s < n) (g : ℕ → ℤ) :
    isum n (fun i => if i = s then g i else 0) = g s := by
  induction n with
  | zero => omega
  | succ n ih =>
    rw [isum_succ]
    by_cases e : s = n
    · subst e
      rw [isum_congr s _ (fun _ => 0) (fun i hi => if_neg (by omega))]
      have : isum s (fun _ => (0 : ℤ)) = 0 := by
        unfold isum; simp
      rw [this, if_pos rfl, zero_add]
    · rw [ih (by omega), if_neg (fun h => e h.symm), add_zero]

/-- the additive weight with coefficient `c i` on qubit `i` -/
def addW (c : ℕ → ℤ) (n x : ℕ) : ℤ := isum n fun i => c i * (Gate.bitAt x i : ℤ)

/-- reindexing the part on the frame -/
theorem isum_frame {σ : ℕ → ℕ} {k n : ℕ} (P : Placement σ k n) (g : ℕ → ℤ) :
    ∀ k', k' ≤ k → isum n (fun i => if i ∈ frame σ k' then g i else 0) = isum k' fun a => g (σ a) := by
  intro k'
  induction k' with
  | zero =>
    intro _
    have : ∀ i, i ∉ frame σ 0 := by intro i; simp [frame]
    rw [isum_congr n _ (fun _ => 0) (fun i _ => if_neg (this i))]
    unfold isum; simp
  | succ k' ih =>
    intro hk
    rw [isum_succ, ← ih (by omega), ← isum_ite_eq n (σ k') (P.lt k' (by omega)) g, ← isum_add]
    apply isum_congr
    intro i _
    have hmem : i ∈ frame σ (k' + 1) ↔ i ∈ frame σ k' ∨ i = σ k' := by
      rw [mem_frame, mem_frame]
      constructor
      · rintro ⟨q, hq, rfl⟩
        by_cases e : q = k'
        · right; rw [e]
        · left; exact ⟨q, by omega, rfl⟩
      · rintro (⟨q, hq, rfl⟩ | rfl)
        · exact ⟨q, by omega, rfl⟩
        · exact ⟨k', by omega, rfl⟩
    by_cases h1 : i ∈ frame σ k'
    · have h2 : i ≠ σ k' := by
        rintro rfl
        obtain ⟨q, hq, hqe⟩ := mem_frame.mp h1
        have := P.inj q (by omega) k' (by omega) hqe
        omega
      rw [if_pos (hmem.mpr (Or.inl h1)), if_pos h1, if_neg h2, add_zero]
    · by_cases h2 : i = σ k'
      · rw [if_pos (hmem.mpr (Or.inr h2)), if_neg h1, if_pos h2, zero_add]
      · rw [if_neg (fun h => (hmem.mp h).elim h1 h2), if_neg h1, if_neg h2, add_zero]

/-- **an additive weight splits** into the weight of the part outside the frame and the (relabelled)
    additive weight of the local index -/
theorem addW_split {σ : ℕ → ℕ} {k n : ℕ} (P : Placement σ k n) (c : ℕ → ℤ) (x : ℕ)
    (hx : x < 2 ^ n) :
    addW c n x = addW c n (Gate.clearBits (frame σ k) x)
      + addW (fun a => c (σ a)) k (Gate.locIdx (frame σ k) x) := by
  have h1 : addW c n x = isum n (fun i => c i * (Gate.bitAt (Gate.clearBits (frame σ k) x) i : ℤ)
      + (if i ∈ frame σ k then c i * (Gate.bitAt x i : ℤ) else 0)) := by
    unfold addW
    apply isum_congr
    intro i _
    rw [bitAt_clearBits n _ x (frame_nodup P) (frame_lt P) hx]
    by_cases h : i ∈ frame σ k
    · simp [h]
    · simp [h]
  rw [h1, isum_add, isum_frame P _ k (le_refl k)]
  congr 1
  unfold addW
  apply isum_congr
  intro a ha
  rw [bitAt_locIdx_frame x ha]

theorem compat_add {σ : ℕ → ℕ} {k n : ℕ} (P : Placement σ k n) (c : ℕ → ℤ) :
    WeightCompat σ k n (addW (fun a => c (σ a)) k) (addW c n) := by
  intro r hr x hx hcl hw
  rw [addW_split P c r hr, addW_split P c x hx, hcl, hw]

theorem compat_mod {σ : ℕ → ℕ} {k n : ℕ} (P : Placement σ k n) (c : ℕ → ℤ) (m : ℤ) :
    WeightCompat σ k n (fun y => addW (fun a => c (σ a)) k y % m) (fun x => addW c n x % m) := by
  intro r hr x hx hcl hw
  have hw' : addW (fun a => c (σ a)) k (Gate.locIdx (frame σ k) r) % m
      = addW (fun a => c (σ a)) k (Gate.locIdx (frame σ k) x) % m := hw
  show addW c n r % m = addW c n x % m
  rw [addW_split P c r hr, addW_split P c x hx, hcl, Int.add_emod, hw', ← Int.add_emod]

/-! ### §4  the weights of the model -/

theorem foldl_add_sum (l : List ℤ) (a : ℤ) : l.foldl (· + ·) a = a + l.sum := by
  induction l generalizing a with
  | nil => simp
  | cons x l ih => rw [List.foldl_cons, ih, List.sum_cons]; ring

theorem foldl_add_sum_nat (l : List ℕ) (a : ℕ) : l.foldl (· + ·) a = a + l.sum := by
  induction l generalizing a with
  | nil => simp
  | cons x l ih => rw [List.foldl_cons, ih, List.sum_cons]; omega

theorem cast_sum_map (l : List ℕ) (f : ℕ → ℕ) :
    (((l.map f).sum : ℕ) : ℤ) = (l.map fun i => (f i : ℤ)).sum := by
  induction l with
  | nil => rfl
  | cons a l ih => simp only [List.map_cons, List.sum_cons, Nat.cast_add, ih]

theorem popcount_addW (n x : ℕ) : (C15.popcountBits n x : ℤ) = addW (fun _ => 1) n x := by
  unfold C15.popcountBits addW isum
  rw [foldl_add_sum_nat, Nat.zero_add, cast_sum_map]
  congr 1
  apply List.map_congr_left
  intro i _
  simp [Gate.bitAt]

theorem eval_number (n x : ℕ) : C15.Weight.eval n .number x = addW (fun _ => 1) n x :=
  popcount_addW n x

theorem eval_parity (n x : ℕ) : C15.Weight.eval n .parity x = addW (fun _ => 1) n x % 2 := by
  show ((C15.popcountBits n x % 2 : ℕ) : ℤ) = _
  rw [Int.natCast_mod, popcount_addW]
  rfl

/-- coefficient of qubit `i` in `S_z` for a spin list: `+1` for spin 0, `−1` otherwise -/
def szCoeff (spins : List ℕ) (i : ℕ) : ℤ := if spins.getD i 0 == 0 then 1 else -1

theorem zip_range (spins : List ℕ) (n : ℕ) (h : spins.length = n) :
    List.zip (List.range n) spins = (List.range n).map fun i => (i, spins.getD i 0) := by
  apply List.ext_getElem
  · simp [h]
  · intro i h1 h2
    simp only [List.getElem_zip, List.getElem_range, List.getElem_map]
    congr 1
    rw [List.getD_eq_getElem?_getD, List.getElem?_eq_getElem (by
      simp only [List.length_zip, List.length_range] at h1; omega)]
    rfl

theorem eval_sz (spins : List ℕ) (n x : ℕ) (h : spins.length = n) :
    C15.Weight.eval n (.sz spins) x = addW (szCoeff spins) n x := by
  unfold C15.Weight.eval addW isum
  simp only []
  rw [foldl_add_sum, zero_add, zip_range spins n h, List.map_map]
  congr 1
  apply List.map_congr_left
  intro i _
  simp only [Function.comp, szCoeff, Gate.bitAt]
  split <;> simp

/-- the pairs (local weight of a `k`-wire block, global weight of the `n`-wire register) for which
    placement by `σ` is covered -/
inductive WeightPlaced (σ : ℕ → ℕ) (k n : ℕ) : C15.Weight → C15.Weight → Prop
  | number : WeightPlaced σ k n .number .number
  | parity : WeightPlaced σ k n .parity .parity
  | sz (sl sg : List ℕ) (hl : sl.length = k) (hg : sg.length = n)
      (h : ∀ a, a < k → (sl.getD a 0 == 0) = (sg.getD (σ a) 0 == 0)) :
      WeightPlaced σ k n (.sz sl) (.sz sg)

theorem weightPlaced_compat {σ : ℕ → ℕ} {k n : ℕ} (P : Placement σ k n) {wl wg : C15.Weight}
    (h : WeightPlaced σ k n wl wg) : WeightCompat σ k n (wl.eval k) (wg.eval n) := by
  cases h with
  | number =>
    have := compat_add P (fun _ => 1)
    intro r hr c hc hcl hw
    rw [eval_number, eval_number] at *
    exact this r hr c hc hcl hw
  | parity =>
    have := compat_mod P (fun _ => 1) 2
    intro r hr c hc hcl hw
    rw [eval_parity, eval_parity] at *
    exact this r hr c hc hcl hw
  | sz sl sg hl hg hs =>
    have := compat_add P (szCoeff sg)
    intro r hr c hc hcl hw
    rw [eval_sz sg n _ hg, eval_sz sg n _ hg]
    rw [eval_sz sl k _ hl, eval_sz sl k _ hl] at hw
    apply this r hr c hc hcl
    have e : ∀ y, addW (fun a => szCoeff sg (σ a)) k y = addW (szCoeff sl) k y := by
      intro y
      unfold addW
      apply isum_congr
      intro a ha
      unfold szCoeff
      rw [hs a ha]
    rw [e, e]
    exact hw

/-! ### §5  the kernel check -/

theorem getD_lt {α : Type} (l : List α) (d : α) (i : ℕ) (h : i < l.length) : l.getD i d = l[i] := by
  simp [List.getD_eq_getElem?_getD, h]

theorem mem_zip_getElem {α β : Type} (a : List α) (b : List β) (i : ℕ) (ha : i < a.length)
    (hb : i < b.length) : (a[i], b[i]) ∈ List.zip a b := by
  have hl : i < (List.zip a b).length := by simp [List.length_zip]; omega
  have := List.getElem_mem hl
  rwa [List.getElem_zip] at this

/-- `matConserves` is sound: off-sector entries are the zero polynomial, hence evaluate to `0` -/
theorem matConserves_sound (n : ℕ) (w : C15.Weight) (m : Mat) (h : C15.matConserves n w m = true)
    (r c : ℕ) (hr : r < 2 ^ n) (hc : c < 2 ^ n) (hw : w.eval n r ≠ w.eval n c) :
    evalMat ζ ρ m r c = 0 := by
  unfold C15.matConserves at h
  simp only [List.all_eq_true] at h
  unfold evalMat evalRow
  by_cases h1 : r < m.length
  · have hws : r < ((List.range (2 ^ n)).map (w.eval n)).length := by simpa using hr
    have hm := h _ (mem_zip_getElem _ m r hws h1)
    rw [getD_lt _ _ _ h1]
    by_cases h2 : c < m[r].length
    · have hws' : c < ((List.range (2 ^ n)).map (w.eval n)).length := by simpa using hc
      have := hm _ (mem_zip_getElem _ m[r] c hws' h2)
      simp only [List.getElem_map, List.getElem_range, Bool.or_eq_true, beq_iff_eq] at this
      rcases this with e | e
      · exact absurd e hw
      · rw [getD_lt _ _ _ h2]
        exact eval_isZero _ e
    · rw [getD_ge _ _ (by omega)]; rfl
  · rw [getD_ge m [] (by omega : m.length ≤ r)]
    simp [eval_nil]

/-- **the kernel check implies conservation** of the block's operator, for every value of the angle
    variables -/
theorem blockConserves_sound (hζ : ζ ^ 8 = -1) (hρ : ∀ j, ρ j ≠ 0) (k : ℕ) (ws : List C15.Weight)
    (real : Bool) (gs : List Gate) (wf : WellFormed k gs)
    (h : C15.blockConserves k ws real gs = true) :
    ∀ w ∈ ws, ConservesOn k (w.eval k) (semCirc ζ ρ gs) := by
  unfold C15.blockConserves at h
  simp only [Bool.and_eq_true, List.all_eq_true] at h
  intro w hw r hr c hc hne
  rw [← evalMat_circMat hζ hρ k gs wf r c hr]
  exact matConserves_sound k w _ (h.1 w hw) r c hr hc hne

/-- … also after substituting affine angle expressions for the variables of the block -/
theorem block_subst_conserves (hζ : ζ ^ 8 = -1) (hρ : ∀ j, ρ j ≠ 0) (k : ℕ) (ws : List C15.Weight)
    (real : Bool) (gs : List Gate) (wf : WellFormed k gs)
    (hk : ∀ g ∈ gs, g.kind ≠ .UnitaryMatrix)
    (h : C15.blockConserves k ws real gs = true) (as : List Angle) :
    ∀ w ∈ ws, ConservesOn k (w.eval k) (semCirc ζ ρ (gs.map (Gate.subst as))) := by
  intro w hw
  rw [semCirc_subst hζ hρ as gs hk]
  exact blockConserves_sound hζ (substRho_ne_zero hζ hρ as) k ws real gs wf h w hw

theorem wellFormed_subst (k : ℕ) (gs : List Gate) (as : List Angle) (wf : WellFormed k gs) :
    WellFormed k (gs.map (Gate.subst as)) := by
  intro g' hg'
  obtain ⟨g, hg, rfl⟩ := List.mem_map.mp hg'
  exact wf g hg

/-! ### §6  circuits built from placed certified blocks -/

/-- a certified block, instantiated and placed: template gates on wires `0..k-1`, the weights the kernel
    check certifies, the affine angle expressions substituted for its variables, the wire map -/
structure PlacedBlock where
  k : ℕ
  gs : List Gate
  ws : List C15.Weight
  real : Bool
  as : List Angle
  σ : ℕ → ℕ

/-- the gates of the placed instance -/
def PlacedBlock.gates (b : PlacedBlock) : List Gate :=
  (b.gs.map (Gate.subst b.as)).map (Gate.relabel b.σ)

/-- what is required of a placed block w.r.t. the global weight `wg` on `n` wires -/
structure PlacedBlock.OK (n : ℕ) (wg : C15.Weight) (b : PlacedBlock) : Prop where
  wf : WellFormed b.k b.gs
  kinds : ∀ g ∈ b.gs, g.kind ≠ .UnitaryMatrix
  cert : C15.blockConserves b.k b.ws b.real b.gs = true
  place : Placement b.σ b.k n
  weight : ∃ wl ∈ b.ws, WeightPlaced b.σ b.k n wl wg

theorem placedBlock_conserves (hζ : ζ ^ 8 = -1) (hρ : ∀ j, ρ j ≠ 0) (n : ℕ) (wg : C15.Weight)
    (b : PlacedBlock) (h : b.OK n wg) :
    WellFormed n b.gates ∧ ConservesOn n (wg.eval n) (semCirc ζ ρ b.gates) := by
  obtain ⟨wl, hwl, hp⟩ := h.weight
  have wfs := wellFormed_subst b.k b.gs b.as h.wf
  refine ⟨wellFormed_relabel h.place _ wfs, ?_⟩
  exact conserves_placed h.place (wl.eval b.k) (wg.eval n) (weightPlaced_compat h.place hp) _ wfs
    (block_subst_conserves hζ hρ b.k b.ws b.real b.gs h.wf h.kinds h.cert b.as wl hwl)

/-- **a circuit that is a concatenation of placed certified blocks conserves the promised weight**, for
    every value of the parameters -/
theorem ansatz_conserves (hζ : ζ ^ 8 = -1) (hρ : ∀ j, ρ j ≠ 0) (n : ℕ) (wg : C15.Weight)
    (blocks : List PlacedBlock) (h : ∀ b ∈ blocks, b.OK n wg) :
    WellFormed n (blocks.flatMap PlacedBlock.gates) ∧
    ConservesOn n (wg.eval n) (semCirc ζ ρ (blocks.flatMap PlacedBlock.gates)) := by
  rw [List.flatMap_def]
  apply conserves_flatten
  intro gs hgs
  obtain ⟨b, hb, rfl⟩ := List.mem_map.mp hgs
  exact placedBlock_conserves hζ hρ n wg b (h b hb)

end QV.MatSound
