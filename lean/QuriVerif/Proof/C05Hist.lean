import QuriVerif.Proof.C05Op
/- C05: histories of in-place updates, exact cancellation, dict invariants -/
namespace QV.C05
open K

/-! ### invariants -/

theorem ok_nil : OK [] := by simp [OK, okeys]

theorem ok_foldl_addTerm (g : Label × K → K) (b a : Op) (h : OK a) :
    OK (b.foldl (fun o e => addTerm o e.1 (g e)) a) := by
  induction b generalizing a with
  | nil => exact h
  | cons e r ih => exact ih _ (ok_addTerm h _ _)

theorem noZero_foldl_addTerm (g : Label × K → K) (b a : Op) (h : NoZero a) :
    NoZero (b.foldl (fun o e => addTerm o e.1 (g e)) a) := by
  induction b generalizing a with
  | nil => exact h
  | cons e r ih => exact ih _ (noZero_addTerm h _ _)

theorem ok_iadd {a : Op} (h : OK a) (b : Op) : OK (iadd a b) := ok_foldl_addTerm _ b a h
theorem ok_isub {a : Op} (h : OK a) (b : Op) : OK (isub a b) := ok_foldl_addTerm _ b a h
theorem noZero_iadd {a : Op} (h : NoZero a) (b : Op) : NoZero (iadd a b) := noZero_foldl_addTerm _ b a h
theorem noZero_isub {a : Op} (h : NoZero a) (b : Op) : NoZero (isub a b) := noZero_foldl_addTerm _ b a h

theorem ok_map_coef (f : Label × K → K) {a : Op} (h : OK a) : OK (a.map fun e => (e.1, f e)) := by
  unfold OK okeys at *
  rw [List.map_map]
  exact h

theorem ok_mul_inner (e : Label × K) (b ret : Op) (h : OK ret ∧ NoZero ret) :
    OK (b.foldl (fun ret f =>
      addTerm ret (pauliProduct e.1 f.1).1 (K.mul (K.mul e.2 f.2) (K.ipow (pauliProduct e.1 f.1).2))) ret) ∧
    NoZero (b.foldl (fun ret f =>
      addTerm ret (pauliProduct e.1 f.1).1 (K.mul (K.mul e.2 f.2) (K.ipow (pauliProduct e.1 f.1).2))) ret) := by
  induction b generalizing ret with
  | nil => exact h
  | cons f s ih =>
    rw [List.foldl_cons]
    exact ih _ ⟨ok_addTerm h.1 _ _, noZero_addTerm h.2 _ _⟩

theorem ok_mul_outer (a b ret : Op) (h : OK ret ∧ NoZero ret) :
    OK (a.foldl (fun ret e => b.foldl (fun ret f =>
      addTerm ret (pauliProduct e.1 f.1).1 (K.mul (K.mul e.2 f.2) (K.ipow (pauliProduct e.1 f.1).2))) ret) ret) ∧
    NoZero (a.foldl (fun ret e => b.foldl (fun ret f =>
      addTerm ret (pauliProduct e.1 f.1).1 (K.mul (K.mul e.2 f.2) (K.ipow (pauliProduct e.1 f.1).2))) ret) ret) := by
  induction a generalizing ret with
  | nil => exact h
  | cons e r ih =>
    rw [List.foldl_cons]
    exact ih _ (ok_mul_inner e b ret h)

/-- a product is a dict without explicit zeros -/
theorem ok_mul (a b : Op) : OK (mul a b) ∧ NoZero (mul a b) :=
  ok_mul_outer a b [] ⟨ok_nil, fun e he => by simp at he⟩

theorem ok_ofPairs (ps : List (Label × K)) : OK (ofPairs ps) := by
  unfold ofPairs
  suffices h : ∀ o : Op, OK o → OK (ps.foldl (fun o e => oset o e.1 e.2) o) from h [] ok_nil
  induction ps with
  | nil => intro o h; exact h
  | cons e r ih => intro o h; exact ih _ (ok_oset h _ _)

/-! ### exact cancellation -/

/-- sum of the coefficients that a term list contributes to label `l` -/
def coefSum (ts : List (Label × K)) (l : Label) : K := K.sum ((ts.filter fun e => e.1 = l).map (·.2))

theorem getD_oget_addTerm_self {op : Op} (h : OK op) (l : Label) (c : K) :
    (oget (addTerm op l c) l).getD K.zero = K.add ((oget op l).getD K.zero) c := by
  rw [oget_addTerm_self h]
  by_cases hc : c = K.zero
  · subst hc; simp
  · rw [if_neg hc]
    split
    · rename_i hz; simp [hz.1]
    · simp

theorem oget_noZero {op : Op} (h : NoZero op) {l : Label} {c : K} (hg : oget op l = some c) : c ≠ K.zero := by
  induction op with
  | nil => simp [oget] at hg
  | cons e r ih =>
    obtain ⟨k, c'⟩ := e
    simp only [oget] at hg
    split at hg
    · simp at hg; subst hg; exact h (k, c') (by simp)
    · exact ih (fun e he => h e (by simp [he])) hg

/-- **terms whose coefficients cancel exactly disappear**: after accumulating any list of terms with
    `add_term` the dict holds, for every label, exactly the sum of its coefficients — and holds
    nothing at all when that sum is zero -/
theorem oget_foldl_addTerm (ts : List (Label × K)) (op : Op) (hok : OK op) (hnz : NoZero op) (l : Label) :
    oget (ts.foldl (fun o e => addTerm o e.1 e.2) op) l =
      if K.add ((oget op l).getD K.zero) (coefSum ts l) = K.zero then none
      else some (K.add ((oget op l).getD K.zero) (coefSum ts l)) := by
  induction ts generalizing op with
  | nil =>
    simp only [List.foldl_nil, coefSum, List.filter_nil, List.map_nil, K.sum_nil, K.add_zero']
    cases hg : oget op l with
    | none => simp
    | some c => simp [oget_noZero hnz hg]
  | cons e r ih =>
    rw [List.foldl_cons, ih _ (ok_addTerm hok _ _) (noZero_addTerm hnz _ _)]
    have : K.add ((oget (addTerm op e.1 e.2) l).getD K.zero) (coefSum r l)
        = K.add ((oget op l).getD K.zero) (coefSum (e :: r) l) := by
      unfold coefSum
      by_cases hl : e.1 = l
      · subst hl
        rw [getD_oget_addTerm_self hok]
        simp [K.add_assoc']
      · have hl' : l ≠ e.1 := fun h => hl h.symm
        rw [oget_addTerm_ne op _ hl']
        simp [hl]
    rw [this]

/-! ### aliasing: `a += a` -/

theorem addTerm_length_same {op : Op} {l : Label} {c0 c : K} (hg : oget op l = some c0)
    (h : c = K.zero ∨ K.add c0 c ≠ K.zero) : (addTerm op l c).length = op.length := by
  unfold addTerm
  split
  · rfl
  · rename_i hc
    have hc' : c ≠ K.zero := (K.isZero_false_iff c).1 (by simpa using hc)
    have hne : K.add c0 c ≠ K.zero := by
      rcases h with h | h
      · exact absurd h hc'
      · exact h
    simp only [hg, Option.getD_some, Option.isSome_some, Bool.and_true]
    rw [if_neg (by simpa using (K.isZero_false_iff _).2 hne)]
    clear hne hc hc' h
    induction op with
    | nil => simp [oget] at hg
    | cons e r ih =>
      obtain ⟨k, c'⟩ := e
      simp only [oget] at hg
      simp only [oset]
      split
      · rfl
      · rename_i hk
        simp only [hk, if_false] at hg
        simp [ih hg]

theorem selfLoop_id (rest : List (Label × K)) (cur : Op)
    (hn : (rest.map (·.1)).Nodup) (hg : ∀ e ∈ rest, oget cur e.1 = some e.2) :
    selfLoop id rest cur = (rest.foldl (fun o e => addTerm o e.1 e.2) cur, none) := by
  induction rest generalizing cur with
  | nil => rfl
  | cons e r ih =>
    obtain ⟨l, c⟩ := e
    rw [List.map_cons, List.nodup_cons] at hn
    have hl := hg (l, c) (by simp)
    simp only at hl
    simp only [selfLoop, hl, Option.getD_some, id, List.foldl_cons]
    have hlen : (addTerm cur l c).length = cur.length := by
      apply addTerm_length_same hl
      by_cases hc : c = K.zero
      · exact Or.inl hc
      · exact Or.inr fun h => hc (K.add_self_eq_zero h)
    rw [hlen]
    simp only [bne_self_eq_false, Bool.false_eq_true, if_false]
    apply ih _ hn.2
    intro e he
    have hne : e.1 ≠ l := fun h => hn.1 (h ▸ List.mem_map_of_mem (f := (·.1)) he)
    rw [oget_addTerm_ne cur c hne]
    exact hg e (by simp [he])

theorem oget_of_mem {op : Op} (h : OK op) {e : Label × K} (he : e ∈ op) : oget op e.1 = some e.2 := by
  induction op with
  | nil => simp at he
  | cons x r ih =>
    obtain ⟨k, c'⟩ := x
    unfold OK okeys at h
    rw [List.map_cons, List.nodup_cons] at h
    simp only [oget]
    rcases List.mem_cons.1 he with he | he
    · subst he; simp
    · have : k ≠ e.1 := fun hk => h.1 (hk ▸ List.mem_map_of_mem (f := (·.1)) he)
      rw [if_neg this]
      exact ih h.2 he

/-- `a += a` (the loop reads the dict it is updating) doubles every coefficient, like `a + a` -/
theorem iaddSelf_eq {a : Op} (h : OK a) : iaddSelf a = (add a a, none) :=
  selfLoop_id a a h fun _ he => oget_of_mem h he

/-! ### histories -/

def HeapOK (h : List Op) : Prop := ∀ o ∈ h, OK o

theorem ok_hget {h : List Op} (hh : HeapOK h) (i : Nat) : OK (hget h i) := by
  unfold hget
  rw [List.getD_eq_getElem?_getD]
  cases hg : h[i]? with
  | none => exact ok_nil
  | some o => exact hh o (List.mem_of_getElem? hg)

theorem heapOK_set {h : List Op} (hh : HeapOK h) (i : Nat) {v : Op} (hv : OK v) : HeapOK (h.set i v) := by
  intro o ho
  rcases List.mem_or_eq_of_mem_set ho with ho | ho
  · exact hh o ho
  · exact ho ▸ hv

theorem heapOK_stepPure {h : List Op} (hh : HeapOK h) (c : Cmd) : HeapOK (stepPure h c) := by
  cases c with
  | iadd i j => exact heapOK_set hh i (ok_iadd (ok_hget hh i) _)
  | isub i j => exact heapOK_set hh i (ok_isub (ok_hget hh i) _)
  | idiv i k => exact heapOK_set hh i (ok_map_coef _ (ok_hget hh i))
  | addTerm i l c => exact heapOK_set hh i (ok_addTerm (ok_hget hh i) _ _)
  | setConst i c => exact heapOK_set hh i (ok_oset (ok_hget hh i) _ _)
  | setItem i l c => exact heapOK_set hh i (ok_oset (ok_hget hh i) _ _)

theorem stepReal_eq_pure {h : List Op} (hh : HeapOK h) (c : Cmd) (hc : c.noSelfSub = true) :
    stepReal h c = (stepPure h c, none) := by
  cases c with
  | iadd i j =>
    simp only [stepReal, stepPure]
    split
    · rename_i hij; subst hij
      rw [iaddSelf_eq (ok_hget hh i)]
    · rfl
  | isub i j =>
    simp only [Cmd.noSelfSub, bne_iff_ne, ne_eq] at hc
    simp only [stepReal, stepPure, hc, if_false]
    rfl
  | idiv i k => rfl
  | addTerm i l c => rfl
  | setConst i c => rfl
  | setItem i l c => rfl

/-- **every history of in-place updates leaves the dicts the pure operations would** (every object,
    insertion order included), as long as it contains no `a -= a` -/
theorem runReal_eq_pure (h : List Op) (cs : List Cmd) (hh : HeapOK h) (hc : ∀ c ∈ cs, c.noSelfSub = true) :
    runReal h cs = (runPure h cs, none) := by
  induction cs generalizing h with
  | nil => rfl
  | cons c r ih =>
    simp only [runReal, runPure]
    rw [stepReal_eq_pure hh c (hc c (by simp))]
    exact ih _ (heapOK_stepPure hh c) fun c' hc' => hc c' (by simp [hc'])

end QV.C05
