import QuriVerif.Model.C05
/- C05: the dense specification — single-qubit facts (finite, `decide`) and the
   homomorphism `actD_mul` for all lengths and all basis states (induction). -/
namespace QV.C05

/-- single-qubit product law on basis states: acting with q, then p, equals acting with the
    table entry `P1.mul p q` — flips compose by xor and phases add -/
theorem act1_mul (p q : P1) (b : Bool) :
    (P1.mul p q).1.flips = (p.flips != q.flips) ∧
    (q.ph b + p.ph (b != q.flips)) % 4 = ((P1.mul p q).2 + (P1.mul p q).1.ph b) % 4 := by
  cases p <;> cases q <;> cases b <;> decide

theorem mul_I_right (p : P1) : P1.mul p .I = (p, 0) := by cases p <;> rfl
theorem mul_I_left (p : P1) : P1.mul .I p = (p, 0) := rfl
theorem mul_phase_lt (p q : P1) : (P1.mul p q).2 < 4 := by cases p <;> cases q <;> decide
theorem mul_eq_I {p q : P1} (hp : p ≠ .I) (hq : q ≠ .I) (h : (P1.mul p q).1 = .I) :
    p = q ∧ (P1.mul p q).2 = 0 := by
  cases p <;> cases q <;> simp_all [P1.mul]
theorem mul_self (p : P1) : P1.mul p p = (.I, 0) := by cases p <;> rfl
theorem ph_lt (p : P1) (b : Bool) : p.ph b < 4 := by cases p <;> cases b <;> decide

theorem bitOf_le (x : Bool) : bitOf x ≤ 1 := by cases x <;> decide
theorem bit_div (a : Nat) (x : Bool) : (2 * a + bitOf x) / 2 = a := by
  have := bitOf_le x; omega
theorem bit_mod (a : Nat) (x : Bool) : ((2 * a + bitOf x) % 2 == 1) = x := by
  cases x <;> simp [bitOf] <;> omega
theorem bit_decomp (b : Nat) : 2 * (b / 2) + bitOf (b % 2 == 1) = b := by
  rcases Nat.mod_two_eq_zero_or_one b with h | h <;> simp [h, bitOf] <;> omega

theorem actD_phase_lt (ps : List P1) (b : Nat) : (actD ps b).1 < 4 := by
  cases ps with
  | nil => simp [actD]
  | cons p r => simp only [actD]; exact Nat.mod_lt _ (by decide)

/-- **homomorphism on dense strings**, every length (also unequal lengths), every basis state:
    `P (Q |b>) = i^k (P·Q) |b>` with `(P·Q, k) = mulD P Q` -/
theorem actD_mul (ps qs : List P1) (b : Nat) :
    (actD ps (actD qs b).2).2 = (actD (mulD ps qs).1 b).2 ∧
    ((actD qs b).1 + (actD ps (actD qs b).2).1) % 4 = ((mulD ps qs).2 + (actD (mulD ps qs).1 b).1) % 4 := by
  induction ps generalizing qs b with
  | nil => simp [mulD, actD]
  | cons p ps ih =>
    cases qs with
    | nil => simp [mulD, actD]
    | cons q qs =>
      have h := ih qs (b / 2)
      have h1 := act1_mul p q (b % 2 == 1)
      simp only [actD, mulD, bit_div, bit_mod]
      refine ⟨?_, ?_⟩
      · rw [h.1, h1.1]
        cases (b % 2 == 1) <;> cases p.flips <;> cases q.flips <;> rfl
      · have h2 := h.2
        have h3 := h1.2
        omega

theorem actD_replicate_I (k b : Nat) : actD (List.replicate k .I) b = (0, b) := by
  induction k generalizing b with
  | zero => rfl
  | succ k ih =>
    simp only [List.replicate_succ, actD, ih, P1.ph, P1.flips]
    have := bit_decomp b
    simp_all

/-- padding with identities does not change the action -/
theorem actD_append_I (ps : List P1) (k b : Nat) : actD (ps ++ List.replicate k .I) b = actD ps b := by
  induction ps generalizing b with
  | nil => simp [actD_replicate_I, actD]
  | cons p ps ih => simp only [List.cons_append, actD, ih]

theorem tab_add (f : Nat → P1) (k n m : Nat) : tab f k (n + m) = tab f k n ++ tab f (k + n) m := by
  induction n generalizing k with
  | zero => simp [tab]
  | succ n ih =>
    have : n + 1 + m = (n + m) + 1 := by omega
    rw [this]
    simp only [tab, List.cons_append, ih]
    have : k + 1 + n = k + (n + 1) := by omega
    rw [this]

theorem tab_I (f : Nat → P1) (k m : Nat) (h : ∀ j, k ≤ j → f j = .I) : tab f k m = List.replicate m .I := by
  induction m generalizing k with
  | zero => rfl
  | succ m ih =>
    simp only [tab, List.replicate_succ]
    rw [h k (Nat.le_refl _), ih (k + 1) (fun j hj => h j (by omega))]

theorem tab_length (f : Nat → P1) (k n : Nat) : (tab f k n).length = n := by
  induction n generalizing k with
  | zero => rfl
  | succ n ih => simp [tab, ih]

theorem tab_congr (f g : Nat → P1) (k n : Nat) (h : ∀ j, k ≤ j → j < k + n → f j = g j) : tab f k n = tab g k n := by
  induction n generalizing k with
  | zero => rfl
  | succ n ih =>
    simp only [tab]
    rw [h k (by omega) (by omega), ih (k + 1) (fun j h1 h2 => h j (by omega) (by omega))]

/-- the action of a function-with-bound does not depend on the bound -/
theorem actD_tab_bound (f : Nat → P1) (n m b : Nat) (h : ∀ j, n ≤ j → f j = .I) :
    actD (tab f 0 (n + m)) b = actD (tab f 0 n) b := by
  rw [tab_add, tab_I f (0 + n) m (fun j hj => h j (by omega)), actD_append_I]

theorem mulD_tab (f g : Nat → P1) (k n : Nat) :
    (mulD (tab f k n) (tab g k n)).1 = tab (fun j => (P1.mul (f j) (g j)).1) k n := by
  induction n generalizing k with
  | zero => rfl
  | succ n ih => simp only [tab, mulD, ih]

/-- sum over the positions `k, …, k+n-1` -/
def psum (g : Nat → Nat) : Nat → Nat → Nat
  | _, 0 => 0
  | k, n + 1 => g k + psum g (k + 1) n

theorem mulD_tab_phase (f g : Nat → P1) (k n : Nat) :
    (mulD (tab f k n) (tab g k n)).2 % 4 = psum (fun j => (P1.mul (f j) (g j)).2) k n % 4 := by
  induction n generalizing k with
  | zero => rfl
  | succ n ih =>
    simp only [tab, mulD, psum]
    have := ih (k + 1)
    omega

theorem psum_congr (g g' : Nat → Nat) (k n : Nat) (h : ∀ j, k ≤ j → j < k + n → g j = g' j) :
    psum g k n = psum g' k n := by
  induction n generalizing k with
  | zero => rfl
  | succ n ih =>
    simp only [psum]
    rw [h k (by omega) (by omega), ih (k + 1) (fun j h1 h2 => h j (by omega) (by omega))]

/-- changing one summand -/
theorem psum_update (g g' : Nat → Nat) (i k n : Nat) (hi : k ≤ i ∧ i < k + n)
    (h : ∀ j, j ≠ i → g' j = g j) (h0 : g i = 0) : psum g' k n = psum g k n + g' i := by
  induction n generalizing k with
  | zero => omega
  | succ n ih =>
    simp only [psum]
    by_cases hk : k = i
    · subst hk
      rw [psum_congr g' g (k + 1) n (fun j h1 _ => h j (by omega)), h0]
      omega
    · rw [h k hk, ih (k + 1) (by omega)]
      omega

theorem psum_zero (g : Nat → Nat) (k n : Nat) (h : ∀ j, k ≤ j → j < k + n → g j = 0) : psum g k n = 0 := by
  induction n generalizing k with
  | zero => rfl
  | succ n ih =>
    simp only [psum]
    rw [h k (by omega) (by omega), ih (k + 1) (fun j h1 h2 => h j (by omega) (by omega))]

theorem psum_add (g : Nat → Nat) (k n m : Nat) : psum g k (n + m) = psum g k n + psum g (k + n) m := by
  induction n generalizing k with
  | zero => simp [psum]
  | succ n ih =>
    have : n + 1 + m = (n + m) + 1 := by omega
    rw [this]
    simp only [psum, ih]
    have : k + 1 + n = k + (n + 1) := by omega
    rw [this]
    omega

end QV.C05
