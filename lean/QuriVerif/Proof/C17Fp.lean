import QuriVerif.Proof.C17
import Mathlib.Algebra.Order.Field.Power
import Mathlib.Algebra.Order.Floor.Ring
import Mathlib.Data.Rat.Floor
/-
  C17 — the executable IEEE model `fp53` (Model/C17.lean `round53`) is a faithful rounding:
  monotone on all rationals, fixes 0 and 1.  Steps: `pow2 e = 2^e`, `floorLog2` is ⌊log₂⌋, round-half-even is
  monotone and fixes integers, a positive number rounds into its own binade, case analysis on signs.
-/
set_option linter.unusedSimpArgs false
set_option linter.unusedVariables false
set_option linter.unusedTactic false
set_option linter.unreachableTactic false
namespace QV.C17

theorem pow2_eq (e : Int) : pow2 e = (2 : ℚ) ^ e := by
  unfold pow2
  split
  · rename_i h
    obtain ⟨n, rfl⟩ := Int.eq_ofNat_of_zero_le h
    simp
  · rename_i h
    obtain ⟨n, hn⟩ := Int.eq_ofNat_of_zero_le (show 0 ≤ -e by omega)
    have : e = -(n : ℤ) := by omega
    subst this
    simp

theorem pow2_pos (e : Int) : 0 < pow2 e := by rw [pow2_eq]; positivity
theorem pow2_succ (e : Int) : pow2 (e + 1) = 2 * pow2 e := by
  rw [pow2_eq, pow2_eq, zpow_add_one₀ (by norm_num : (2:ℚ) ≠ 0)]; ring
theorem pow2_mono {a b : Int} (h : a ≤ b) : pow2 a ≤ pow2 b := by
  rw [pow2_eq, pow2_eq]; exact zpow_le_zpow_right₀ (by norm_num) h

/-- ⌊log₂ q⌋ is what `floorLog2` computes -/
theorem floorLog2_spec (q : ℚ) (hq : 0 < q) : pow2 (floorLog2 q) ≤ q ∧ q < pow2 (floorLog2 q + 1) := by
  have hnum : 0 < q.num := Rat.num_pos.mpr hq
  obtain ⟨n, hn⟩ := Int.eq_ofNat_of_zero_le (le_of_lt hnum)
  have hn0 : n ≠ 0 := by intro h; subst h; simp at hn; rw [hn] at hnum; exact lt_irrefl _ hnum
  have hd0 : q.den ≠ 0 := q.den_nz
  have hqe : q = (n : ℚ) / (q.den : ℚ) := by
    have h0 := Rat.num_div_den q
    rw [hn] at h0
    have h1 : ((n : ℤ) : ℚ) = (n : ℚ) := by norm_cast
    rw [h1] at h0
    exact h0.symm
  have hnat : q.num.natAbs = n := by rw [hn]; simp
  have l1 : ((2 ^ n.log2 : ℕ) : ℚ) ≤ n := by exact_mod_cast Nat.log2_self_le hn0
  have l2 : (n : ℚ) < ((2 ^ (n.log2 + 1) : ℕ) : ℚ) := by exact_mod_cast (Nat.lt_log2_self (n := n))
  have l3 : ((2 ^ q.den.log2 : ℕ) : ℚ) ≤ q.den := by exact_mod_cast Nat.log2_self_le hd0
  have l4 : (q.den : ℚ) < ((2 ^ (q.den.log2 + 1) : ℕ) : ℚ) := by exact_mod_cast (Nat.lt_log2_self (n := q.den))
  have hdpos : (0 : ℚ) < q.den := by exact_mod_cast Nat.pos_of_ne_zero hd0
  set ln := n.log2 with hln
  set ld := q.den.log2 with hld
  -- bounds  2^(ln-ld-1) < q < 2^(ln-ld+1)
  have up : q < pow2 ((ln : ℤ) - ld + 1) := by
    rw [pow2_eq, hqe, div_lt_iff₀ hdpos]
    have : (2 : ℚ) ^ ((ln : ℤ) - ld + 1) * (2 : ℚ) ^ (ld : ℤ) = 2 ^ ((ln : ℤ) + 1) := by
      rw [← zpow_add₀ (by norm_num : (2:ℚ) ≠ 0)]; congr 1; ring
    have p1 : (0:ℚ) < (2 : ℚ) ^ ((ln : ℤ) - ld + 1) := by positivity
    calc (n : ℚ) < ((2 ^ (ln + 1) : ℕ) : ℚ) := l2
      _ = (2 : ℚ) ^ ((ln : ℤ) + 1) := by push_cast; norm_cast
      _ = (2 : ℚ) ^ ((ln : ℤ) - ld + 1) * (2 : ℚ) ^ (ld : ℤ) := this.symm
      _ ≤ (2 : ℚ) ^ ((ln : ℤ) - ld + 1) * q.den := by
          apply mul_le_mul_of_nonneg_left _ (le_of_lt p1)
          calc (2 : ℚ) ^ (ld : ℤ) = ((2 ^ ld : ℕ) : ℚ) := by push_cast; norm_cast
            _ ≤ q.den := l3
  have lo : pow2 ((ln : ℤ) - ld - 1) < q := by
    rw [pow2_eq, hqe, lt_div_iff₀ hdpos]
    have : (2 : ℚ) ^ ((ln : ℤ) - ld - 1) * (2 : ℚ) ^ ((ld : ℤ) + 1) = 2 ^ (ln : ℤ) := by
      rw [← zpow_add₀ (by norm_num : (2:ℚ) ≠ 0)]; congr 1; ring
    have p1 : (0:ℚ) < (2 : ℚ) ^ ((ln : ℤ) - ld - 1) := by positivity
    calc (2 : ℚ) ^ ((ln : ℤ) - ld - 1) * (q.den : ℚ) < (2 : ℚ) ^ ((ln : ℤ) - ld - 1) * (2 : ℚ) ^ ((ld : ℤ) + 1) := by
          apply mul_lt_mul_of_pos_left _ p1
          calc (q.den : ℚ) < ((2 ^ (ld + 1) : ℕ) : ℚ) := l4
            _ = (2 : ℚ) ^ ((ld : ℤ) + 1) := by push_cast; norm_cast
      _ = 2 ^ (ln : ℤ) := this
      _ = ((2 ^ ln : ℕ) : ℚ) := by push_cast; norm_cast
      _ ≤ n := l1
  unfold floorLog2
  simp only [hnat]
  split
  · rename_i h
    exact ⟨h, up⟩
  · rename_i h
    refine ⟨le_of_lt lo, ?_⟩
    rw [show (↑n.log2 - ↑q.den.log2 - 1 + 1 : ℤ) = ↑n.log2 - ↑q.den.log2 by ring]
    exact lt_of_not_ge h


theorem rne_cases (x : ℚ) : rne x = ⌊x⌋ ∨ rne x = ⌊x⌋ + 1 := by
  have e : x.floor = ⌊x⌋ := rfl
  unfold rne
  simp only [e]
  split_ifs <;> simp

theorem rne_int (k : ℤ) : rne (k : ℚ) = k := by
  unfold rne
  have : (k : ℚ).floor = k := by
    show ⌊(k : ℚ)⌋ = k
    simp
  simp [this]

theorem rne_mono {x y : ℚ} (h : x ≤ y) : rne x ≤ rne y := by
  have hf : ⌊x⌋ ≤ ⌊y⌋ := Int.floor_le_floor h
  rcases lt_or_eq_of_le hf with hlt | heq
  · rcases rne_cases x with hx | hx <;> rcases rne_cases y with hy | hy <;> omega
  · have hx0 : (⌊x⌋ : ℚ) ≤ x := Int.floor_le x
    have hy0 : (⌊y⌋ : ℚ) ≤ y := Int.floor_le y
    have e : x.floor = ⌊x⌋ := rfl
    have e' : y.floor = ⌊y⌋ := rfl
    have hq : ((⌊x⌋ : ℤ) : ℚ) = ((⌊y⌋ : ℤ) : ℚ) := by rw [heq]
    unfold rne
    simp only [e, e']
    split_ifs <;> first | omega | (exfalso; linarith)


theorem round53_pos (q : ℚ) (hq : 0 < q) :
    round53 q = (rne (q / pow2 (floorLog2 q - 52)) : ℚ) * pow2 (floorLog2 q - 52) := by
  unfold round53
  have h1 : ¬ q = 0 := ne_of_gt hq
  have h2 : ¬ q < 0 := not_lt.mpr (le_of_lt hq)
  simp only [h1, h2, if_false]

theorem round53_neg (q : ℚ) (hq : q < 0) : round53 q = -round53 (-q) := by
  have hp : 0 < -q := by linarith
  rw [round53_pos _ hp]
  unfold round53
  have h1 : ¬ q = 0 := ne_of_lt hq
  simp only [h1, hq, if_true, if_false]

theorem pow2_52 (e : ℤ) : pow2 e = 2 ^ 52 * pow2 (e - 52) := by
  rw [pow2_eq, pow2_eq]
  have : (2 : ℚ) ^ e = 2 ^ ((52 : ℤ) + (e - 52)) := by congr 1; ring
  rw [this, zpow_add₀ (by norm_num : (2:ℚ) ≠ 0)]
  norm_num

/-- a positive number rounds into its own binade (closed at the top) -/
theorem round53_bounds (q : ℚ) (hq : 0 < q) :
    pow2 (floorLog2 q) ≤ round53 q ∧ round53 q ≤ pow2 (floorLog2 q + 1) := by
  obtain ⟨hlo, hhi⟩ := floorLog2_spec q hq
  set e := floorLog2 q with he
  have hu : 0 < pow2 (e - 52) := pow2_pos _
  rw [round53_pos q hq]
  have hq1 : (2 : ℚ) ^ 52 ≤ q / pow2 (e - 52) := by
    rw [le_div_iff₀ hu, ← pow2_52]; exact hlo
  have hq2 : q / pow2 (e - 52) ≤ (2 : ℚ) ^ 53 := by
    rw [div_le_iff₀ hu]
    have : pow2 (e + 1) = 2 ^ 53 * pow2 (e - 52) := by rw [pow2_succ, pow2_52 e]; ring
    linarith
  have r1 : ((2 ^ 52 : ℤ)) ≤ rne (q / pow2 (e - 52)) := by
    have := rne_mono (x := ((2 ^ 52 : ℤ) : ℚ)) (y := q / pow2 (e - 52)) (by push_cast; exact hq1)
    rwa [rne_int] at this
  have r2 : rne (q / pow2 (e - 52)) ≤ ((2 ^ 53 : ℤ)) := by
    have := rne_mono (x := q / pow2 (e - 52)) (y := ((2 ^ 53 : ℤ) : ℚ)) (by push_cast; exact hq2)
    rwa [rne_int] at this
  have r1' : ((2 : ℚ) ^ 52) ≤ (rne (q / pow2 (e - 52)) : ℚ) := by exact_mod_cast r1
  have r2' : (rne (q / pow2 (e - 52)) : ℚ) ≤ (2 : ℚ) ^ 53 := by exact_mod_cast r2
  constructor
  · rw [pow2_52 e]; exact mul_le_mul_of_nonneg_right r1' (le_of_lt hu)
  · have : pow2 (e + 1) = 2 ^ 53 * pow2 (e - 52) := by rw [pow2_succ, pow2_52 e]; ring
    rw [this]; exact mul_le_mul_of_nonneg_right r2' (le_of_lt hu)

theorem round53_pos_pos (q : ℚ) (hq : 0 < q) : 0 < round53 q :=
  lt_of_lt_of_le (pow2_pos _) (round53_bounds q hq).1

theorem round53_mono_pos {a b : ℚ} (ha : 0 < a) (hab : a ≤ b) : round53 a ≤ round53 b := by
  have hb : 0 < b := lt_of_lt_of_le ha hab
  obtain ⟨la, ua⟩ := floorLog2_spec a ha
  obtain ⟨lb, ub⟩ := floorLog2_spec b hb
  have hle : floorLog2 a ≤ floorLog2 b := by
    by_contra hcon
    have : floorLog2 b + 1 ≤ floorLog2 a := by omega
    have := pow2_mono this
    linarith
  rcases lt_or_eq_of_le hle with hlt | heq
  · have h1 := (round53_bounds a ha).2
    have h2 := (round53_bounds b hb).1
    have : pow2 (floorLog2 a + 1) ≤ pow2 (floorLog2 b) := pow2_mono (by omega)
    linarith
  · rw [round53_pos a ha, round53_pos b hb, heq]
    have hu : 0 < pow2 (floorLog2 b - 52) := pow2_pos _
    have : a / pow2 (floorLog2 b - 52) ≤ b / pow2 (floorLog2 b - 52) := by
      exact div_le_div_of_nonneg_right hab (le_of_lt hu)
    have := rne_mono this
    have : (rne (a / pow2 (floorLog2 b - 52)) : ℚ) ≤ (rne (b / pow2 (floorLog2 b - 52)) : ℚ) := by exact_mod_cast this
    exact mul_le_mul_of_nonneg_right this (le_of_lt hu)

theorem round53_zero : round53 0 = 0 := by simp [round53]

/-- IEEE round-to-nearest-even (as modelled) is monotone on all rationals -/
theorem round53_mono {a b : ℚ} (hab : a ≤ b) : round53 a ≤ round53 b := by
  rcases lt_trichotomy a 0 with ha | ha | ha
  · rcases lt_trichotomy b 0 with hb | hb | hb
    · rw [round53_neg a ha, round53_neg b hb]
      have := round53_mono_pos (a := -b) (b := -a) (by linarith) (by linarith)
      linarith
    · subst hb
      rw [round53_neg a ha, round53_zero]
      have := round53_pos_pos (-a) (by linarith)
      linarith
    · rw [round53_neg a ha]
      have := round53_pos_pos (-a) (by linarith)
      have := round53_pos_pos b hb
      linarith
  · subst ha
    rw [round53_zero]
    rcases lt_or_eq_of_le hab with hb | hb
    · exact le_of_lt (round53_pos_pos b hb)
    · rw [← hb, round53_zero]
  · exact round53_mono_pos ha hab

theorem fp53_faithful : Faithful fp53 where
  mono := fun a b h => round53_mono h
  zero := round53_zero
  one := by show round53 1 = 1; decide +kernel

end QV.C17
