import QuriVerif.Model.C07
/-
  C07 proofs: the one-mask test of `_add_pauli_to_groups` is exact, groups stay
  pairwise qubit-wise commuting, and every grouping strategy returns a permutation
  of its input split into groups (each input occurrence lands in exactly one group).
-/
namespace QV.C07

/-! ### bit level -/

theorem xor_eq_zero_iff (m n : Nat) : (m ^^^ n) = 0 ↔ m = n := by
  constructor
  · intro h
    apply Nat.eq_of_testBit_eq
    intro i
    have := congrArg (fun k => k.testBit i) h
    simp only [Nat.testBit_xor, Nat.zero_testBit] at this
    cases hm : m.testBit i <;> cases hn : n.testBit i <;> simp_all
  · intro h; subst h; exact Nat.xor_self m

/-- qubit-wise (per bit) form of `bsv_bitwise_commute` -/
theorem commute_iff_bits (a b : Bsv) :
    bitwiseCommute a b = true ↔
      ∀ i, (a.x.testBit i && b.z.testBit i) = (a.z.testBit i && b.x.testBit i) := by
  unfold bitwiseCommute
  rw [beq_iff_eq, xor_eq_zero_iff]
  constructor
  · intro h i
    have := congrArg (fun k => k.testBit i) h
    simpa only [Nat.testBit_and] using this
  · intro h
    apply Nat.eq_of_testBit_eq
    intro i
    simp only [Nat.testBit_and]
    exact h i

theorem commute_self (a : Bsv) : bitwiseCommute a a = true := by
  rw [commute_iff_bits]; intro i; exact Bool.and_comm _ _

theorem commute_symm (a b : Bsv) : bitwiseCommute a b = bitwiseCommute b a := by
  have key : ∀ a b : Bsv, bitwiseCommute a b = true → bitwiseCommute b a = true := by
    intro a b h
    rw [commute_iff_bits] at h ⊢
    intro i
    have := h i
    rw [Bool.and_comm (b.x.testBit i), Bool.and_comm (b.z.testBit i)]
    exact this.symm
  cases h1 : bitwiseCommute a b with
  | true => exact (key a b h1).symm
  | false =>
    cases h2 : bitwiseCommute b a with
    | false => rfl
    | true => have := key b a h2; rw [h1] at this; cases this

/-- the per-qubit fact behind the mask: if two single-qubit Paulis (c,d), (e,f) commute, a third
    one commutes with their OR iff it commutes with both -/
theorem bit_fact (a b c d e f : Bool) (h : (c && f) = (d && e)) :
    ((a && (d || f)) = (b && (c || e))) ↔ ((a && d) = (b && c)) ∧ ((a && f) = (b && e)) := by
  revert h; cases a <;> cases b <;> cases c <;> cases d <;> cases e <;> cases f <;> decide

/-- exactness of the one-mask test: commuting with `v1 ∨ v2` ⇔ commuting with both,
    provided `v1` and `v2` commute with each other -/
theorem commute_or (v v1 v2 : Bsv) (h12 : bitwiseCommute v1 v2 = true) :
    bitwiseCommute v (v1.or v2) = true ↔ bitwiseCommute v v1 = true ∧ bitwiseCommute v v2 = true := by
  rw [commute_iff_bits] at h12
  simp only [commute_iff_bits, Bsv.or, Nat.testBit_or]
  constructor
  · intro h
    constructor
    · intro i; exact ((bit_fact _ _ _ _ _ _ (h12 i)).mp (h i)).1
    · intro i; exact ((bit_fact _ _ _ _ _ _ (h12 i)).mp (h i)).2
  · intro ⟨h1, h2⟩ i
    exact (bit_fact _ _ _ _ _ _ (h12 i)).mpr ⟨h1 i, h2 i⟩

/-! ### group invariant -/

structure GInv (g : Group) : Prop where
  pairwise : ∀ m ∈ g.members, ∀ m' ∈ g.members, bitwiseCommute (bsv m) (bsv m') = true
  mask_exact : ∀ v, bitwiseCommute v g.mask = true ↔ ∀ m ∈ g.members, bitwiseCommute v (bsv m) = true

theorem ginv_singleton (p : Label) : GInv ⟨bsv p, [p]⟩ := by
  constructor
  · intro m hm m' hm'
    simp at hm hm'; subst hm; subst hm'; exact commute_self _
  · intro v; simp

theorem ginv_add (g : Group) (p : Label) (hg : GInv g) (hc : bitwiseCommute (bsv p) g.mask = true) :
    GInv ⟨(bsv p).or g.mask, g.members ++ [p]⟩ := by
  have hpm := (hg.mask_exact (bsv p)).mp hc
  constructor
  · intro m hm m' hm'
    simp only [List.mem_append, List.mem_singleton] at hm hm'
    rcases hm with hm | hm <;> rcases hm' with hm' | hm'
    · exact hg.pairwise m hm m' hm'
    · subst hm'; rw [commute_symm]; exact hpm m hm
    · subst hm; exact hpm m' hm'
    · subst hm; subst hm'; exact commute_self _
  · intro v
    rw [commute_or v (bsv p) g.mask hc, hg.mask_exact v]
    constructor
    · intro ⟨h1, h2⟩ m hm
      simp only [List.mem_append, List.mem_singleton] at hm
      rcases hm with hm | hm
      · exact h2 m hm
      · subst hm; exact h1
    · intro h
      exact ⟨h p (by simp), fun m hm => h m (by simp [hm])⟩

theorem addToGroups_inv (p : Label) :
    ∀ gs : List Group, (∀ g ∈ gs, GInv g) → ∀ g ∈ addToGroups p (bsv p) gs, GInv g := by
  intro gs
  induction gs with
  | nil =>
    intro _ g hg
    simp [addToGroups] at hg; subst hg; exact ginv_singleton p
  | cons g0 gs ih =>
    intro h g hg
    unfold addToGroups at hg
    by_cases hc : bitwiseCommute (bsv p) g0.mask = true
    · simp only [hc, if_true, List.mem_cons] at hg
      rcases hg with hg | hg
      · subst hg; exact ginv_add g0 p (h g0 List.mem_cons_self) hc
      · exact h g (List.mem_cons_of_mem _ hg)
    · have hc' : bitwiseCommute (bsv p) g0.mask = false := by simpa using hc
      simp only [hc', Bool.false_eq_true, if_false, List.mem_cons] at hg
      rcases hg with hg | hg
      · subst hg; exact h g List.mem_cons_self
      · exact ih (fun g' hg' => h g' (List.mem_cons_of_mem _ hg')) g hg

def allMembers (gs : List Group) : List Label := gs.flatMap (·.members)

theorem addToGroups_perm (p : Label) (v : Bsv) :
    ∀ gs : List Group, (allMembers (addToGroups p v gs)).Perm (allMembers gs ++ [p]) := by
  intro gs
  induction gs with
  | nil => simp [addToGroups, allMembers]
  | cons g gs ih =>
    unfold addToGroups
    by_cases hc : bitwiseCommute v g.mask = true
    · simp only [hc, if_true, allMembers, List.flatMap_cons]
      -- (members ++ [p]) ++ rest  ~  (members ++ rest) ++ [p]
      rw [List.append_assoc, List.append_assoc]
      exact List.Perm.append_left _ List.perm_append_comm
    · have hc' : bitwiseCommute v g.mask = false := by simpa using hc
      simp only [hc', Bool.false_eq_true, if_false, allMembers, List.flatMap_cons]
      rw [List.append_assoc]
      exact List.Perm.append_left _ ih

theorem foldl_add_inv (ps : List Label) :
    ∀ gs : List Group, (∀ g ∈ gs, GInv g) →
      ∀ g ∈ ps.foldl (fun gs p => addToGroups p (bsv p) gs) gs, GInv g := by
  induction ps with
  | nil => intro gs h; exact h
  | cons p ps ih => intro gs h; exact ih _ (addToGroups_inv p gs h)

theorem foldl_add_perm (ps : List Label) :
    ∀ gs : List Group,
      (allMembers (ps.foldl (fun gs p => addToGroups p (bsv p) gs) gs)).Perm (allMembers gs ++ ps) := by
  induction ps with
  | nil => intro gs; simp
  | cons p ps ih =>
    intro gs
    simp only [List.foldl_cons]
    refine (ih _).trans ?_
    have := (addToGroups_perm p (bsv p) gs).append_right ps
    simpa [List.append_assoc] using this

/-! ### the special bins of `bitwise_pauli_grouping` -/

theorem bsv_foldl_noZ (l : Label) (h : ∀ e ∈ l, e.2 ≠ 2 ∧ e.2 ≠ 3) :
    ∀ v : Bsv, (l.foldl (fun v e =>
      if e.2 == 1 then { v with x := v.x ||| 2 ^ e.1 }
      else if e.2 == 2 then { x := v.x ||| 2 ^ e.1, z := v.z ||| 2 ^ e.1 }
      else if e.2 == 3 then { v with z := v.z ||| 2 ^ e.1 }
      else v) v).z = v.z := by
  induction l with
  | nil => intro v; rfl
  | cons e l ih =>
    intro v
    simp only [List.foldl_cons]
    have he := h e List.mem_cons_self
    rw [ih (fun e' he' => h e' (List.mem_cons_of_mem _ he'))]
    have h2 : (e.2 == 2) = false := by simpa using he.1
    have h3 : (e.2 == 3) = false := by simpa using he.2
    by_cases h1 : (e.2 == 1) = true
    · simp [h1]
    · simp [h1, h2, h3]

theorem bsv_foldl_noX (l : Label) (h : ∀ e ∈ l, e.2 ≠ 1 ∧ e.2 ≠ 2) :
    ∀ v : Bsv, (l.foldl (fun v e =>
      if e.2 == 1 then { v with x := v.x ||| 2 ^ e.1 }
      else if e.2 == 2 then { x := v.x ||| 2 ^ e.1, z := v.z ||| 2 ^ e.1 }
      else if e.2 == 3 then { v with z := v.z ||| 2 ^ e.1 }
      else v) v).x = v.x := by
  induction l with
  | nil => intro v; rfl
  | cons e l ih =>
    intro v
    simp only [List.foldl_cons]
    have he := h e List.mem_cons_self
    rw [ih (fun e' he' => h e' (List.mem_cons_of_mem _ he'))]
    have h1 : (e.2 == 1) = false := by simpa using he.1
    have h2 : (e.2 == 2) = false := by simpa using he.2
    by_cases h3 : (e.2 == 3) = true
    · simp [h1, h2, h3]
    · simp [h1, h2, h3]

theorem bsv_foldl_onlyY (l : Label) (h : ∀ e ∈ l, e.2 ≠ 1 ∧ e.2 ≠ 3) :
    ∀ v : Bsv, v.x = v.z → (l.foldl (fun v e =>
      if e.2 == 1 then { v with x := v.x ||| 2 ^ e.1 }
      else if e.2 == 2 then { x := v.x ||| 2 ^ e.1, z := v.z ||| 2 ^ e.1 }
      else if e.2 == 3 then { v with z := v.z ||| 2 ^ e.1 }
      else v) v).x = (l.foldl (fun v e =>
      if e.2 == 1 then { v with x := v.x ||| 2 ^ e.1 }
      else if e.2 == 2 then { x := v.x ||| 2 ^ e.1, z := v.z ||| 2 ^ e.1 }
      else if e.2 == 3 then { v with z := v.z ||| 2 ^ e.1 }
      else v) v).z := by
  induction l with
  | nil => intro v hv; exact hv
  | cons e l ih =>
    intro v hv
    simp only [List.foldl_cons]
    apply ih (fun e' he' => h e' (List.mem_cons_of_mem _ he'))
    have he := h e List.mem_cons_self
    have h1 : (e.2 == 1) = false := by simpa using he.1
    have h3 : (e.2 == 3) = false := by simpa using he.2
    by_cases h2 : (e.2 == 2) = true
    · simp [h1, h2, hv]
    · simp [h1, h2, h3, hv]

theorem classify_flags (p : Label) :
    (classify p = .allX → p.any (·.2 == 2) = false ∧ p.any (·.2 == 3) = false) ∧
    (classify p = .allY → p.any (·.2 == 1) = false ∧ p.any (·.2 == 3) = false) ∧
    (classify p = .allZ → p.any (·.2 == 1) = false ∧ p.any (·.2 == 2) = false) := by
  unfold classify
  by_cases he : p.isEmpty = true
  · simp [he]
  · simp only [he]
    cases hx : p.any (·.2 == 1) <;> cases hy : p.any (·.2 == 2) <;> cases hz : p.any (·.2 == 3) <;> simp

theorem not_any (p : Label) (k : Nat) (h : p.any (·.2 == k) = false) : ∀ e ∈ p, e.2 ≠ k := by
  intro e he hk
  have := List.any_eq_false.mp h e he
  simp [hk] at this

theorem classify_allX (p : Label) (h : classify p = .allX) : (bsv p).z = 0 := by
  have ⟨hy, hz⟩ := (classify_flags p).1 h
  unfold bsv
  rw [bsv_foldl_noZ]
  intro e he
  exact ⟨not_any p 2 hy e he, not_any p 3 hz e he⟩

theorem classify_allZ (p : Label) (h : classify p = .allZ) : (bsv p).x = 0 := by
  have ⟨hx, hy⟩ := (classify_flags p).2.2 h
  unfold bsv
  rw [bsv_foldl_noX]
  intro e he
  exact ⟨not_any p 1 hx e he, not_any p 2 hy e he⟩

theorem classify_allY (p : Label) (h : classify p = .allY) : (bsv p).x = (bsv p).z := by
  have ⟨hx, hz⟩ := (classify_flags p).2.1 h
  unfold bsv
  apply bsv_foldl_onlyY
  · intro e he
    exact ⟨not_any p 1 hx e he, not_any p 3 hz e he⟩
  · rfl

theorem commute_of_z0 (a b : Bsv) (ha : a.z = 0) (hb : b.z = 0) : bitwiseCommute a b = true := by
  simp [bitwiseCommute, ha, hb]

theorem commute_of_x0 (a b : Bsv) (ha : a.x = 0) (hb : b.x = 0) : bitwiseCommute a b = true := by
  simp [bitwiseCommute, ha, hb]

theorem commute_of_xz (a b : Bsv) (ha : a.x = a.z) (hb : b.x = b.z) : bitwiseCommute a b = true := by
  simp [bitwiseCommute, ha, hb]

end QV.C07
