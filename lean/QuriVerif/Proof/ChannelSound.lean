import QuriVerif.Proof.ShiftSound
/-
  C17, operator level (over ℂ): Kraus families as channels on the whole register.

    * §1  channels of global matrices: `chan n Es ρ = Σ_i E_i ρ E_i†` on the `2^n` block; completeness
          `Σ_i E_i† E_i = 1` ⇒ the trace is preserved (`chan_trace`); rank-one inputs go to sums of rank-one outputs
          (`chan_proj`); for `ρ = Σ_k p_k |ψ_k⟩⟨ψ_k|`, `p_k ≥ 0`: `⟨χ| chan ρ |χ⟩ = Σ_k p_k Σ_i |⟨χ|E_i ψ_k⟩|² ≥ 0`
          (`chan_form`, `chan_nonneg`) – no spectral theory;
    * §2  embedding of a local matrix on wires `ws` of `n` qubits (`emb L ws = embedAct L ws 1`, the semantics of
          gates and of literal-matrix gates): entries (`emb_entry`), adjoint (`emb_adj`), product (`emb_mul`), and
          local completeness ⇒ completeness on the register (`global_of_local`);
    * §3  Pauli mixtures: `Σ_k w_k · P_k ρ P_k†` for Pauli labels `P_k` (gate matrices) with weights `w_k ≥ 0`,
          `Σ w_k = 1` (`pauli_mixture_complete`).
-/
namespace QV.MatSound
open QV QV.Poly QV.Props.Reflect
open scoped BigOperators

/-! ### §1  channels on the block -/

/-- `Σ_i E_i · ρ · E_i†` -/
noncomputable def chan (n : ℕ) (Es : List (ℕ → ℕ → ℂ)) (ρ : ℕ → ℕ → ℂ) (r j : ℕ) : ℂ :=
  (Es.map fun E => ∑ a ∈ Finset.range (2 ^ n), ∑ b ∈ Finset.range (2 ^ n), E r a * ρ a b * star (E j b)).sum

/-- trace on the block -/
noncomputable def trN (n : ℕ) (ρ : ℕ → ℕ → ℂ) : ℂ := ∑ x ∈ Finset.range (2 ^ n), ρ x x

/-- `Σ_i E_i† E_i = 1` on the block -/
def GlobalComplete (n : ℕ) (Es : List (ℕ → ℕ → ℂ)) : Prop :=
  ∀ r, r < 2 ^ n → ∀ j, j < 2 ^ n →
    (Es.map fun E => ∑ x ∈ Finset.range (2 ^ n), star (E x r) * E x j).sum = if r = j then 1 else 0

theorem list_sum_finset {α : Type} (l : List α) (s : Finset ℕ) (f : α → ℕ → ℂ) :
    ∑ x ∈ s, (l.map fun a => f a x).sum = (l.map fun a => ∑ x ∈ s, f a x).sum := by
  induction l with
  | nil => simp
  | cons a l ih => simp only [List.map_cons, List.sum_cons, Finset.sum_add_distrib, ih]

theorem list_sum_mul_left' {α : Type} (l : List α) (c : ℂ) (f : α → ℂ) :
    (l.map fun a => c * f a).sum = c * (l.map f).sum := by
  induction l with
  | nil => simp
  | cons a l ih => simp only [List.map_cons, List.sum_cons, mul_add, ih]

theorem ofReal_list_sum (l : List ℝ) : ((l.sum : ℝ) : ℂ) = (l.map Complex.ofReal).sum := by
  induction l with
  | nil => simp
  | cons a l ih => simp only [List.map_cons, List.sum_cons, Complex.ofReal_add, ih]

/-- **trace preservation** -/
theorem chan_trace (n : ℕ) (Es : List (ℕ → ℕ → ℂ)) (h : GlobalComplete n Es) (ρ : ℕ → ℕ → ℂ) :
    trN n (chan n Es ρ) = trN n ρ := by
  unfold trN chan
  rw [list_sum_finset Es (Finset.range (2 ^ n))
    (fun E x => ∑ a ∈ Finset.range (2 ^ n), ∑ b ∈ Finset.range (2 ^ n), E x a * ρ a b * star (E x b))]
  -- Σ_x Σ_a Σ_b = Σ_a Σ_b ρ_ab Σ_x star(E x b) E x a
  have h1 : ∀ E : ℕ → ℕ → ℂ, ∑ x ∈ Finset.range (2 ^ n), ∑ a ∈ Finset.range (2 ^ n),
      ∑ b ∈ Finset.range (2 ^ n), E x a * ρ a b * star (E x b)
      = ∑ a ∈ Finset.range (2 ^ n), ∑ b ∈ Finset.range (2 ^ n),
          ρ a b * ∑ x ∈ Finset.range (2 ^ n), star (E x b) * E x a := by
    intro E
    rw [Finset.sum_comm]
    apply Finset.sum_congr rfl
    intro a _
    rw [Finset.sum_comm]
    apply Finset.sum_congr rfl
    intro b _
    rw [Finset.mul_sum]
    apply Finset.sum_congr rfl
    intro x _
    ring
  rw [List.map_congr_left (fun E _ => h1 E),
    ← list_sum_finset Es (Finset.range (2 ^ n))
      (fun E a => ∑ b ∈ Finset.range (2 ^ n), ρ a b * ∑ x ∈ Finset.range (2 ^ n), star (E x b) * E x a)]
  apply Finset.sum_congr rfl
  intro a ha
  rw [← list_sum_finset Es (Finset.range (2 ^ n))
    (fun E b => ρ a b * ∑ x ∈ Finset.range (2 ^ n), star (E x b) * E x a)]
  have h2 : ∀ b ∈ Finset.range (2 ^ n),
      (Es.map fun E => ρ a b * ∑ x ∈ Finset.range (2 ^ n), star (E x b) * E x a).sum
        = ρ a b * (if b = a then 1 else 0) := by
    intro b hb
    rw [← h b (Finset.mem_range.mp hb) a (Finset.mem_range.mp ha)]
    exact list_sum_mul_left' Es (ρ a b) (fun E => ∑ x ∈ Finset.range (2 ^ n), star (E x b) * E x a)
  rw [Finset.sum_congr rfl h2]
  simp only [mul_ite, mul_one, mul_zero]
  rw [Finset.sum_ite_eq' (Finset.range (2 ^ n)) a, if_pos ha]

/-- the rank-one matrix `|ψ⟩⟨ψ|` -/
def proj (ψ : ℕ → ℂ) (r j : ℕ) : ℂ := ψ r * star (ψ j)

/-- **rank-one inputs**: `chan (|ψ⟩⟨ψ|) = Σ_i |E_i ψ⟩⟨E_i ψ|` -/
theorem chan_proj (n : ℕ) (Es : List (ℕ → ℕ → ℂ)) (ψ : ℕ → ℂ) (r j : ℕ) :
    chan n Es (proj ψ) r j = (Es.map fun E => proj (mv n E ψ) r j).sum := by
  unfold chan
  congr 1
  apply List.map_congr_left
  intro E _
  unfold proj mv
  rw [star_sum, Finset.sum_mul_sum]
  apply Finset.sum_congr rfl
  intro a _
  apply Finset.sum_congr rfl
  intro b _
  rw [star_mul']; ring

/-- a non-negative combination of rank-one projectors `Σ_k p_k |ψ_k⟩⟨ψ_k|` -/
noncomputable def mix (comps : List (ℝ × (ℕ → ℂ))) (r j : ℕ) : ℂ :=
  (comps.map fun c => (c.1 : ℂ) * proj c.2 r j).sum

theorem chan_zero (n : ℕ) (Es : List (ℕ → ℕ → ℂ)) (r j : ℕ) : chan n Es (fun _ _ => 0) r j = 0 := by
  unfold chan
  induction Es with
  | nil => rfl
  | cons E Es ih => simp only [List.map_cons, List.sum_cons, ih]; simp

theorem chan_add_smul (n : ℕ) (Es : List (ℕ → ℕ → ℂ)) (c : ℂ) (ρ σ : ℕ → ℕ → ℂ) (r j : ℕ) :
    chan n Es (fun a b => c * ρ a b + σ a b) r j = c * chan n Es ρ r j + chan n Es σ r j := by
  unfold chan
  induction Es with
  | nil => simp
  | cons E Es ih =>
    simp only [List.map_cons, List.sum_cons, ih]
    have : ∑ a ∈ Finset.range (2 ^ n), ∑ b ∈ Finset.range (2 ^ n), E r a * (c * ρ a b + σ a b) * star (E j b)
        = c * (∑ a ∈ Finset.range (2 ^ n), ∑ b ∈ Finset.range (2 ^ n), E r a * ρ a b * star (E j b))
          + ∑ a ∈ Finset.range (2 ^ n), ∑ b ∈ Finset.range (2 ^ n), E r a * σ a b * star (E j b) := by
      rw [Finset.mul_sum, ← Finset.sum_add_distrib]
      apply Finset.sum_congr rfl
      intro a _
      rw [Finset.mul_sum, ← Finset.sum_add_distrib]
      apply Finset.sum_congr rfl
      intro b _
      ring
    rw [this]; ring

theorem chan_mix (n : ℕ) (Es : List (ℕ → ℕ → ℂ)) : ∀ (comps : List (ℝ × (ℕ → ℂ))) (r j : ℕ),
    chan n Es (mix comps) r j = (comps.map fun c => (c.1 : ℂ) * chan n Es (proj c.2) r j).sum := by
  intro comps
  induction comps with
  | nil =>
    intro r j
    have : mix [] = fun _ _ => (0 : ℂ) := by funext a b; simp [mix]
    rw [this, chan_zero]; simp
  | cons c comps ih =>
    intro r j
    have : mix (c :: comps) = fun a b => (c.1 : ℂ) * proj c.2 a b + mix comps a b := by
      funext a b; simp [mix]
    rw [this, chan_add_smul, ih, List.map_cons, List.sum_cons]

theorem sesq_list_sum {α : Type} (n : ℕ) (l : List α) (M : α → ℕ → ℕ → ℂ) (c : α → ℂ) (χ : ℕ → ℂ) :
    sesq n (fun r j => (l.map fun a => c a * M a r j).sum) χ χ
      = (l.map fun a => c a * sesq n (M a) χ χ).sum := by
  induction l with
  | nil => simp [sesq]
  | cons a l ih =>
    simp only [List.map_cons, List.sum_cons]
    rw [← ih]
    have := sesq_lin_op n (M a) (fun r j => (l.map fun a => c a * M a r j).sum) (c a) 1 χ χ
    simp only [one_mul] at this
    exact this

/-- `⟨χ|φ⟩⟨φ|χ⟩ = |⟨χ|φ⟩|²` -/
theorem sesq_proj (n : ℕ) (φ χ : ℕ → ℂ) :
    sesq n (proj φ) χ χ
      = ((Complex.normSq (∑ r ∈ Finset.range (2 ^ n), star (χ r) * φ r) : ℝ) : ℂ) := by
  rw [Complex.normSq_eq_conj_mul_self]
  unfold sesq proj
  rw [show (starRingEnd ℂ) (∑ r ∈ Finset.range (2 ^ n), star (χ r) * φ r)
      = ∑ j ∈ Finset.range (2 ^ n), star (φ j) * χ j by
    rw [map_sum]
    apply Finset.sum_congr rfl
    intro j _
    rw [map_mul]
    simp only [starRingEnd_apply, star_star]
    ring]
  rw [Finset.sum_mul_sum, Finset.sum_comm]
  apply Finset.sum_congr rfl
  intro r _
  apply Finset.sum_congr rfl
  intro j _
  ring

/-- **the quadratic form of the output**: for `ρ = Σ_k p_k |ψ_k⟩⟨ψ_k|`,
    `⟨χ| chan ρ |χ⟩ = Σ_k p_k Σ_i |⟨χ| E_i ψ_k⟩|²` (a real number) -/
theorem chan_form (n : ℕ) (Es : List (ℕ → ℕ → ℂ)) (comps : List (ℝ × (ℕ → ℂ))) (χ : ℕ → ℂ) :
    sesq n (chan n Es (mix comps)) χ χ
      = (((comps.map fun c => c.1 * (Es.map fun E =>
          Complex.normSq (∑ r ∈ Finset.range (2 ^ n), star (χ r) * mv n E c.2 r)).sum).sum : ℝ) : ℂ) := by
  have h1 : chan n Es (mix comps) = fun r j =>
      (comps.map fun c => (c.1 : ℂ) * chan n Es (proj c.2) r j).sum := by
    funext r j; exact chan_mix n Es comps r j
  rw [h1, sesq_list_sum n comps (fun c => chan n Es (proj c.2)) (fun c => (c.1 : ℂ)) χ]
  rw [ofReal_list_sum, List.map_map]
  congr 1
  apply List.map_congr_left
  intro c _
  simp only [Function.comp, Complex.ofReal_mul]
  congr 1
  have h2 : chan n Es (proj c.2) = fun r j => (Es.map fun E => (1 : ℂ) * proj (mv n E c.2) r j).sum := by
    funext r j; rw [chan_proj]; simp
  rw [h2, sesq_list_sum n Es (fun E => proj (mv n E c.2)) (fun _ => (1 : ℂ)) χ, ofReal_list_sum,
    List.map_map]
  congr 1
  apply List.map_congr_left
  intro E _
  simp only [Function.comp, one_mul]
  exact sesq_proj n _ χ

/-- **positivity-preservation, elementary form** -/
theorem chan_nonneg (n : ℕ) (Es : List (ℕ → ℕ → ℂ)) (comps : List (ℝ × (ℕ → ℂ)))
    (hp : ∀ c ∈ comps, 0 ≤ c.1) (χ : ℕ → ℂ) :
    0 ≤ (sesq n (chan n Es (mix comps)) χ χ).re ∧ (sesq n (chan n Es (mix comps)) χ χ).im = 0 := by
  rw [chan_form]
  refine ⟨?_, Complex.ofReal_im _⟩
  rw [Complex.ofReal_re]
  apply List.sum_nonneg
  intro x hx
  obtain ⟨c, hc, rfl⟩ := List.mem_map.mp hx
  apply mul_nonneg (hp c hc)
  apply List.sum_nonneg
  intro y hy
  obtain ⟨E, _, rfl⟩ := List.mem_map.mp hy
  exact Complex.normSq_nonneg _

/-- the two properties together -/
def TPPos (n : ℕ) (Es : List (ℕ → ℕ → ℂ)) : Prop :=
  (∀ ρ : ℕ → ℕ → ℂ, trN n (chan n Es ρ) = trN n ρ) ∧
  (∀ (comps : List (ℝ × (ℕ → ℂ))), (∀ c ∈ comps, 0 ≤ c.1) → ∀ χ : ℕ → ℂ,
    0 ≤ (sesq n (chan n Es (mix comps)) χ χ).re ∧ (sesq n (chan n Es (mix comps)) χ χ).im = 0)

theorem tppos_of_complete (n : ℕ) (Es : List (ℕ → ℕ → ℂ)) (h : GlobalComplete n Es) : TPPos n Es :=
  ⟨chan_trace n Es h, fun comps hp χ => chan_nonneg n Es comps hp χ⟩

/-! ### §2  local matrices on wires of the register -/

/-- the local matrix `L` on the wires `ws` (the semantics of a gate with local matrix `L`) -/
noncomputable def emb (L : ℕ → ℕ → ℂ) (ws : List ℕ) : ℕ → ℕ → ℂ := embedAct L ws idMat

/-- entries of an embedded local matrix -/
theorem emb_entry (n : ℕ) (L : ℕ → ℕ → ℂ) (ws : List ℕ) (hnd : ws.Nodup) (hw : ∀ w ∈ ws, w < n)
    (r b : ℕ) (hr : r < 2 ^ n) (hb : b < 2 ^ n) :
    emb L ws r b
      = if Gate.clearBits ws r = Gate.clearBits ws b
        then L (Gate.locIdx ws r) (Gate.locIdx ws b) else 0 := by
  show embedAct _ ws idMat r b = _
  unfold embedAct
  have hlb := locIdx_lt ws b
  by_cases hc : Gate.clearBits ws r = Gate.clearBits ws b
  · rw [if_pos hc]
    rw [List.map_congr_left (g := fun l => (idMat (Gate.locIdx ws b) l : ℂ)
        * L (Gate.locIdx ws r) l) (fun l hl => ?_)]
    · exact sum_range_ite _ _ hlb _
    · have hl' := List.mem_range.mp hl
      by_cases e : Gate.locIdx ws b = l
      · subst e
        rw [hc, restore_row n ws b hnd hw hb]
        simp [idMat]
      · have hne : Gate.clearBits ws r + Gate.spread ws l ≠ b := by
          intro h
          apply e
          rw [← h, locIdx_restore n ws r l hnd hw hr hl']
        simp [idMat, e, hne]
  · rw [if_neg hc]
    apply sum_map_zero
    intro l _
    have hne : Gate.clearBits ws r + Gate.spread ws l ≠ b := by
      intro h
      apply hc
      rw [← h, clearBits_restore n ws r l hnd hw hr]
    simp [idMat, hne]

/-- the adjoint of a local matrix -/
noncomputable def adjL (L : ℕ → ℕ → ℂ) (a b : ℕ) : ℂ := star (L b a)

/-- `E(L)† = E(L†)` -/
theorem emb_adj (n : ℕ) (L : ℕ → ℕ → ℂ) (ws : List ℕ) (hnd : ws.Nodup) (hw : ∀ w ∈ ws, w < n)
    (r x : ℕ) (hr : r < 2 ^ n) (hx : x < 2 ^ n) :
    star (emb L ws x r) = emb (adjL L) ws r x := by
  rw [emb_entry n L ws hnd hw x r hx hr, emb_entry n (adjL L) ws hnd hw r x hr hx]
  by_cases hc : Gate.clearBits ws r = Gate.clearBits ws x
  · rw [if_pos hc, if_pos hc.symm]; rfl
  · rw [if_neg hc, if_neg (fun h => hc h.symm), star_zero]

/-- `E(L)·A` is the action of `L` on the wires -/
theorem emb_mul (n : ℕ) (L : ℕ → ℕ → ℂ) (ws : List ℕ) (hnd : ws.Nodup) (hw : ∀ w ∈ ws, w < n)
    (A : ℕ → ℕ → ℂ) (r j : ℕ) (hr : r < 2 ^ n) :
    ∑ k ∈ Finset.range (2 ^ n), emb L ws r k * A k j = embedAct L ws A r j := by
  rw [← list_range_sum]
  unfold emb embedAct
  rw [List.map_congr_left (fun k _ => (sum_map_mul_right _ (A k j) _).symm), sum_map_comm]
  congr 1
  apply List.map_congr_left
  intro l _
  rw [List.map_congr_left (g := fun k => L (Gate.locIdx ws r) l
      * ((idMat (Gate.clearBits ws r + Gate.spread ws l) k : ℂ) * A k j)) (fun k _ => by ring),
    sum_map_mul_left, sum_range_ite _ _ (clearBits_add_spread_lt n ws r l hnd hw hr)]

/-- `Σ_i L_i† L_i = 1` on `k` local wires -/
def LocalComplete (k : ℕ) (Ls : List (ℕ → ℕ → ℂ)) : Prop :=
  ∀ a, a < 2 ^ k → ∀ b, b < 2 ^ k →
    (Ls.map fun L => ∑ l ∈ Finset.range (2 ^ k), star (L l a) * L l b).sum = if a = b then 1 else 0

/-- `E(L)†·E(L) = E(L†·L)` -/
theorem emb_gram (n : ℕ) (L : ℕ → ℕ → ℂ) (ws : List ℕ) (hnd : ws.Nodup) (hw : ∀ w ∈ ws, w < n)
    (r j : ℕ) (hr : r < 2 ^ n) (hj : j < 2 ^ n) :
    ∑ x ∈ Finset.range (2 ^ n), star (emb L ws x r) * emb L ws x j
      = if Gate.clearBits ws r = Gate.clearBits ws j
        then ∑ l ∈ Finset.range (2 ^ ws.length),
          star (L l (Gate.locIdx ws r)) * L l (Gate.locIdx ws j) else 0 := by
  rw [Finset.sum_congr rfl (fun x hx => by
    rw [emb_adj n L ws hnd hw r x hr (Finset.mem_range.mp hx)]),
    emb_mul n (adjL L) ws hnd hw (emb L ws) r j hr]
  show embedAct (adjL L) ws (embedAct L ws idMat) r j = _
  rw [embedAct_comp n L (adjL L) ws idMat r j hnd hw hr]
  show emb _ ws r j = _
  rw [emb_entry n _ ws hnd hw r j hr hj, list_range_sum]
  rfl

/-- **local completeness ⇒ completeness on the register**, any `n`, any placement of the wires -/
theorem global_of_local (n : ℕ) (ws : List ℕ) (hnd : ws.Nodup) (hw : ∀ w ∈ ws, w < n)
    (Ls : List (ℕ → ℕ → ℂ)) (h : LocalComplete ws.length Ls) :
    GlobalComplete n (Ls.map fun L => emb L ws) := by
  intro r hr j hj
  rw [List.map_map]
  rw [List.map_congr_left (fun L _ => by
    show ((fun E : ℕ → ℕ → ℂ => ∑ x ∈ Finset.range (2 ^ n), star (E x r) * E x j) ∘ fun L => emb L ws) L = _
    exact emb_gram n L ws hnd hw r j hr hj)]
  by_cases hc : Gate.clearBits ws r = Gate.clearBits ws j
  · simp only [if_pos hc]
    rw [h _ (locIdx_lt ws r) _ (locIdx_lt ws j)]
    by_cases e : r = j
    · subst e; simp
    · rw [if_neg e, if_neg]
      intro hl
      exact e ((eq_iff_ws n ws hnd hw r j hr hj).mpr ⟨hc, hl⟩)
  · simp only [if_neg hc]
    rw [sum_map_zero _ _ (fun _ _ => rfl), if_neg]
    intro e; subst e; exact hc rfl

/-- a complete local Kraus family, placed anywhere in any register, is trace preserving and positivity preserving -/
theorem local_channel (n : ℕ) (ws : List ℕ) (hnd : ws.Nodup) (hw : ∀ w ∈ ws, w < n)
    (Ls : List (ℕ → ℕ → ℂ)) (h : LocalComplete ws.length Ls) :
    TPPos n (Ls.map fun L => emb L ws) :=
  tppos_of_complete n _ (global_of_local n ws hnd hw Ls h)

/-! ### §3  mixtures of unitaries -/

/-- the columns of `U` are orthonormal on the block (`U†U = 1`) -/
def UnitaryCols (n : ℕ) (U : ℕ → ℕ → ℂ) : Prop :=
  ∀ r, r < 2 ^ n → ∀ k, k < 2 ^ n →
    ∑ x ∈ Finset.range (2 ^ n), star (U x r) * U x k = if r = k then 1 else 0

/-- the Kraus family `√w_k · U_k` of the mixture `Σ_k w_k · U_k ρ U_k†` -/
noncomputable def mixKraus (comps : List (ℝ × (ℕ → ℕ → ℂ))) : List (ℕ → ℕ → ℂ) :=
  comps.map fun c => fun r j => (Real.sqrt c.1 : ℂ) * c.2 r j

theorem sqrt_mul_self_C (w : ℝ) (hw : 0 ≤ w) : star (Real.sqrt w : ℂ) * (Real.sqrt w : ℂ) = (w : ℂ) := by
  rw [Complex.star_def, Complex.conj_ofReal, ← Complex.ofReal_mul, Real.mul_self_sqrt hw]

/-- the channel of `mixKraus` is the mixture -/
theorem chan_mixKraus (n : ℕ) (comps : List (ℝ × (ℕ → ℕ → ℂ))) (hw : ∀ c ∈ comps, 0 ≤ c.1)
    (ρ : ℕ → ℕ → ℂ) (r j : ℕ) :
    chan n (mixKraus comps) ρ r j
      = (comps.map fun c => (c.1 : ℂ) * ∑ a ∈ Finset.range (2 ^ n), ∑ b ∈ Finset.range (2 ^ n),
          c.2 r a * ρ a b * star (c.2 j b)).sum := by
  unfold chan mixKraus
  rw [List.map_map]
  congr 1
  apply List.map_congr_left
  intro c hc
  simp only [Function.comp]
  rw [Finset.mul_sum]
  apply Finset.sum_congr rfl
  intro a _
  rw [Finset.mul_sum]
  apply Finset.sum_congr rfl
  intro b _
  rw [star_mul', ← sqrt_mul_self_C c.1 (hw c hc)]
  ring

/-- **a probability mixture of unitaries is complete** -/
theorem mixture_complete (n : ℕ) (comps : List (ℝ × (ℕ → ℕ → ℂ))) (hw : ∀ c ∈ comps, 0 ≤ c.1)
    (hs : (comps.map (·.1)).sum = 1) (hU : ∀ c ∈ comps, UnitaryCols n c.2) :
    GlobalComplete n (mixKraus comps) := by
  intro r hr j hj
  unfold mixKraus
  rw [List.map_map]
  rw [List.map_congr_left (g := fun c => (c.1 : ℂ) * (if r = j then 1 else 0)) (fun c hc => by
    simp only [Function.comp]
    rw [← hU c hc r hr j hj, Finset.mul_sum]
    apply Finset.sum_congr rfl
    intro x _
    rw [star_mul', ← sqrt_mul_self_C c.1 (hw c hc)]
    ring)]
  rw [sum_map_mul_right]
  have : (comps.map fun c => (c.1 : ℂ)).sum = 1 := by
    have h2 := congrArg (fun x : ℝ => (x : ℂ)) hs
    simp only [ofReal_list_sum, List.map_map, Complex.ofReal_one] at h2
    exact h2
  rw [this, one_mul]

theorem mixture_channel (n : ℕ) (comps : List (ℝ × (ℕ → ℕ → ℂ))) (hw : ∀ c ∈ comps, 0 ≤ c.1)
    (hs : (comps.map (·.1)).sum = 1) (hU : ∀ c ∈ comps, UnitaryCols n c.2) :
    TPPos n (mixKraus comps) :=
  tppos_of_complete n _ (mixture_complete n comps hw hs hU)

/-- Pauli ids `row` on the target wires `ts` as a gate list (id 0 = no gate) -/
def rowGates (ts row : List ℕ) : List Gate := (ts.zip row).flatMap fun e => pgate e.1 e.2

theorem rowGates_cliff (n : ℕ) (ts row : List ℕ) (ht : ∀ t ∈ ts, t < n) :
    ∀ g ∈ rowGates ts row, Cliff1 n g := by
  intro g hg
  obtain ⟨e, he, hge⟩ := List.mem_flatMap.mp hg
  have hq : e.1 < n := ht _ (List.of_mem_zip he).1
  unfold pgate at hge
  split_ifs at hge
  · rw [List.mem_singleton.mp hge]; exact ⟨.X, by decide, e.1, hq, rfl⟩
  · rw [List.mem_singleton.mp hge]; exact ⟨.Y, by decide, e.1, hq, rfl⟩
  · rw [List.mem_singleton.mp hge]; exact ⟨.Z, by decide, e.1, hq, rfl⟩
  · cases hge

/-- every Pauli row on wires of the register is unitary -/
theorem rowGates_unitary (φ : ℕ → ℝ) (n : ℕ) (ts row : List ℕ) (ht : ∀ t ∈ ts, t < n) :
    UnitaryCols n (hop φ (rowGates ts row)) :=
  fun r hr k hk => unitary_cols φ n _ (rowGates_cliff n ts row ht) r k hr hk

/-- Pauli rows carry no `1/√2`: the normalised operator is the gate semantics `opC` itself -/
theorem hop_rowGates (φ : ℕ → ℝ) (ts row : List ℕ) (r j : ℕ) :
    hop φ (rowGates ts row) r j = opC φ (rowGates ts row) r j := by
  have hk : semK (rowGates ts row) = 0 := by
    unfold semK
    apply List.sum_eq_zero
    intro x hx
    obtain ⟨g, hg, rfl⟩ := List.mem_map.mp hx
    obtain ⟨e, _, hge⟩ := List.mem_flatMap.mp hg
    unfold pgate at hge
    split_ifs at hge
    · rw [List.mem_singleton.mp hge]; rfl
    · rw [List.mem_singleton.mp hge]; rfl
    · rw [List.mem_singleton.mp hge]; rfl
    · cases hge
  unfold hop
  rw [hk, pow_zero, div_one]

/-- the Kraus family of a Pauli mixture: weights `ws` (rationals), Pauli rows `rows`, target wires `ts` -/
noncomputable def pauliKraus (φ : ℕ → ℝ) (ts : List ℕ) (rows : List (List ℕ)) (ws : List ℚ) :
    List (ℕ → ℕ → ℂ) :=
  mixKraus ((ws.zip rows).map fun e => (((e.1 : ℚ) : ℝ), hop φ (rowGates ts e.2)))

theorem ratCast_list_sum (l : List ℚ) : ((l.map fun q => ((q : ℚ) : ℝ)).sum) = ((l.sum : ℚ) : ℝ) := by
  induction l with
  | nil => simp
  | cons a l ih => simp only [List.map_cons, List.sum_cons, Rat.cast_add, ih]

/-- **Pauli mixtures**: non-negative weights with exact sum 1, as many rows as weights, target wires in the
    register ⇒ trace preserving and positivity preserving on any register -/
theorem pauli_channel (φ : ℕ → ℝ) (n : ℕ) (ts : List ℕ) (ht : ∀ t ∈ ts, t < n)
    (rows : List (List ℕ)) (ws : List ℚ) (hlen : ws.length = rows.length)
    (hw : ∀ w ∈ ws, 0 ≤ w) (hs : ws.sum = 1) :
    TPPos n (pauliKraus φ ts rows ws) := by
  apply mixture_channel
  · intro c hc
    obtain ⟨e, he, rfl⟩ := List.mem_map.mp hc
    exact Rat.cast_nonneg.mpr (hw _ (List.of_mem_zip he).1)
  · rw [List.map_map]
    have : ((fun c : ℝ × (ℕ → ℕ → ℂ) => c.1) ∘ fun e : ℚ × List ℕ => (((e.1 : ℚ) : ℝ), hop φ (rowGates ts e.2)))
        = (fun q : ℚ => (q : ℝ)) ∘ Prod.fst := rfl
    rw [this, ← List.map_map, List.map_fst_zip (le_of_eq hlen), ratCast_list_sum, hs, Rat.cast_one]
  · intro c hc
    obtain ⟨e, _, rfl⟩ := List.mem_map.mp hc
    exact rowGates_unitary φ n ts e.2 ht

end QV.MatSound
