import QuriVerif.Proof.CtrlSound
import QuriVerif.Proof.C19
/-
  C19, sub level, over the concrete operator semantics (generic field part): the expansion of `Inverse(sub)`
  denotes the inverse operator, the expansion of `Controlled(sub)` denotes the controlled operator.

  These are the concrete counterparts of `Props/C19.inverse_sub_sound` / `controlled_sub_sound`.  The abstract
  theorems are stated over a `PhaseMonoid` whose laws `one_mul`, `mul_one` are EQUALITIES on the carrier; kernels
  `ℕ → ℕ → K` with the product over the `2^n` block satisfy them only on the block, so the list-level statements
  are proved here directly (same inductions), and the program-level part (`expand_inv`, `expand_ctl` of
  `Proof/C19`) is reused unchanged.

  A primitive instruction `GateI = (op code, qubits)` is read as ONE gate by an arbitrary decoding
  `interp : GateI → Gate` on `n` wires; a controlled primitive as a gate LIST `interpC : GateI → List Gate`
  on `n+1` wires (the resolver's body).  The per-primitive hypotheses are exactly the statements delivered by
  `Props/C19Lift.inverse_rows_sound` / `controlled_rows_sound`.
-/
namespace QV.MatSound
open QV QV.Poly QV.C19 QV.C19Lib

variable {K : Type} [Field K] {ζ : K} {ρ : ℕ → K}

/-! ### `uop` of composites -/

theorem semK_append (a b : List Gate) : semK (a ++ b) = semK a + semK b := by
  simp [semK]

theorem uop_nil (r j : ℕ) : uop ζ ρ [] r j = idMat r j := by
  unfold uop
  simp [semK]
  rfl

/-- composition = product of the honest operators -/
theorem uop_append (n : ℕ) (a b : List Gate) (wb : WellFormed n b) (r j : ℕ) (hr : r < 2 ^ n) :
    uop ζ ρ (a ++ b) r j = ((List.range (2 ^ n)).map fun k => uop ζ ρ b r k * uop ζ ρ a k j).sum := by
  unfold uop
  rw [semCirc_append, actCirc_eq_sum n b wb _ r j hr, semK_append, pow_add, div_eq_mul_inv,
    ← sum_map_mul_right]
  congr 1
  apply List.map_congr_left
  intro k _
  rw [div_mul_div_comm, mul_comm (s2 ζ ^ semK b), div_eq_mul_inv]

/-- a factor that is the identity on the block can be removed, anywhere -/
theorem uop_remove (hζ : ζ ^ 8 = -1) (h2 : (2 : K) ≠ 0) (n : ℕ) (pre mid post : List Gate)
    (wfm : WellFormed n mid) (wfp : WellFormed n post)
    (h : ∀ r, r < 2 ^ n → ∀ j, j < 2 ^ n → uop ζ ρ mid r j = idMat r j)
    (r : ℕ) (hr : r < 2 ^ n) (j : ℕ) :
    uop ζ ρ (pre ++ mid ++ post) r j = uop ζ ρ (pre ++ post) r j := by
  have hs : s2 ζ ^ semK mid ≠ 0 := pow_ne_zero _ (s2_ne_zero hζ h2)
  have hm : ∀ r, r < 2 ^ n → ∀ k, k < 2 ^ n →
      semCirc ζ ρ mid r k = s2 ζ ^ semK mid * semCirc ζ ρ [] r k := by
    intro r hr k hk
    have := h r hr k hk
    unfold uop at this
    rw [div_eq_iff hs] at this
    rw [this, mul_comm]; rfl
  have := replace_sound n pre mid [] post wfm (WellFormed.nil n) wfp _ hm r hr j
  unfold uop
  rw [this, List.append_nil, semK_append, semK_append, semK_append, pow_add, pow_add, pow_add]
  have h1 := pow_ne_zero (semK pre) (s2_ne_zero (ζ := ζ) hζ h2)
  have h3 := pow_ne_zero (semK post) (s2_ne_zero (ζ := ζ) hζ h2)
  rw [mul_comm (s2 ζ ^ semK pre) (s2 ζ ^ semK mid), mul_assoc, mul_div_mul_left _ _ hs]

/-! ### `Inverse(sub)` -/

/-- **list level**: a gate list followed by the expansion of its inverse is the identity operator, as soon as
    every primitive followed by its table inverse is -/
theorem inverse_list_uop (hζ : ζ ^ 8 = -1) (h2 : (2 : K) ≠ 0) (n : ℕ) (interp : GateI → Gate)
    (invOp : ℕ → ℕ) :
    ∀ (gs : List GateI),
      (∀ g ∈ gs, WellFormed n [interp g, interp (invGate invOp g)] ∧
        ∀ r, r < 2 ^ n → ∀ j, j < 2 ^ n →
          uop ζ ρ [interp g, interp (invGate invOp g)] r j = idMat r j) →
      WellFormed n ((invList invOp gs).map interp) ∧
      ∀ r, r < 2 ^ n → ∀ j, j < 2 ^ n →
        uop ζ ρ (gs.map interp ++ (invList invOp gs).map interp) r j = idMat r j := by
  intro gs
  induction gs using List.reverseRec with
  | nil =>
    intro _
    exact ⟨WellFormed.nil n, fun r _ j _ => by simpa [invList] using uop_nil (ζ := ζ) (ρ := ρ) r j⟩
  | append_singleton c g ih =>
    intro h
    have hc := ih (fun g' hg' => h g' (by simp [hg']))
    have hg := h g (by simp)
    have wfi : WellFormed n [interp (invGate invOp g)] :=
      fun x hx => hg.1 x (by simp at hx; simp [hx])
    have e1 : (invList invOp (c ++ [g])).map interp
        = interp (invGate invOp g) :: (invList invOp c).map interp := by
      simp [invList]
    refine ⟨by rw [e1]; exact WellFormed.append (a := [_]) wfi hc.1, ?_⟩
    intro r hr j hj
    have e : (c ++ [g]).map interp ++ (invList invOp (c ++ [g])).map interp
        = c.map interp ++ [interp g, interp (invGate invOp g)] ++ (invList invOp c).map interp := by
      rw [e1]; simp
    rw [e, uop_remove hζ h2 n _ _ _ hg.1 hc.1 hg.2 r hr j]
    exact hc.2 r hr j hj

/-- **`inverse_sub_resolver`, program level**: if `p` expands to `gs`, the inverted program expands to some `gs'`
    and running `gs` and then `gs'` is exactly the identity operator -/
theorem inverse_sub_uop (hζ : ζ ^ 8 = -1) (h2 : (2 : K) ≠ 0) (n : ℕ) (interp : GateI → Gate)
    (invOp : ℕ → ℕ) (p : Program) {gs : List GateI} (h : expand p = .ok gs)
    (hprim : ∀ g ∈ gs, WellFormed n [interp g, interp (invGate invOp g)] ∧
      ∀ r, r < 2 ^ n → ∀ j, j < 2 ^ n →
        uop ζ ρ [interp g, interp (invGate invOp g)] r j = idMat r j) :
    ∃ gs', expand (invProgram invOp p) = .ok gs' ∧
      ∀ r, r < 2 ^ n → ∀ j, j < 2 ^ n →
        uop ζ ρ (gs.map interp ++ gs'.map interp) r j = idMat r j :=
  ⟨_, expand_inv invOp p h, (inverse_list_uop hζ h2 n interp invOp gs hprim).2⟩

/-! ### `Controlled(sub)` -/

/-- `A` has no entry between indices that differ on wire `c` -/
def NoTouch (N c : ℕ) (A : ℕ → ℕ → K) : Prop :=
  ∀ r, r < 2 ^ N → ∀ k, k < 2 ^ N → Gate.bitAt r c ≠ Gate.bitAt k c → A r k = 0

theorem sum_single (N r : ℕ) (hr : r < N) (f : ℕ → K) :
    ((List.range N).map fun k => (if r = k then 1 else 0) * f k).sum = f r :=
  sum_range_ite N r hr f

/-- **controlled operators multiply**: `ctrl(A)·ctrl(B) = ctrl(A·B)` when `A` does not touch the control -/
theorem ctrlOp_mul (N c : ℕ) (A B : ℕ → ℕ → K) (hA : NoTouch N c A) (r j : ℕ) (hr : r < 2 ^ N)
    (hj : j < 2 ^ N) :
    ((List.range (2 ^ N)).map fun k => ctrlOp c 1 A r k * ctrlOp c 1 B k j).sum
      = ctrlOp c 1 (fun r j => ((List.range (2 ^ N)).map fun k => A r k * B k j).sum) r j := by
  by_cases hrc : Gate.bitAt r c = 1
  · by_cases hjc : Gate.bitAt j c = 1
    · -- both set: only `k` with the bit set contribute, and `A r k = 0` for the others
      have e : ctrlOp c 1 (fun r j => ((List.range (2 ^ N)).map fun k => A r k * B k j).sum) r j
          = ((List.range (2 ^ N)).map fun k => A r k * B k j).sum := by
        unfold ctrlOp; rw [if_pos ⟨hrc, hjc⟩]
      rw [e]
      congr 1
      apply List.map_congr_left
      intro k hk
      have hk' := List.mem_range.mp hk
      by_cases hkc : Gate.bitAt k c = 1
      · unfold ctrlOp; rw [if_pos ⟨hrc, hkc⟩, if_pos ⟨hkc, hjc⟩]
      · have hne : r ≠ k := by rintro rfl; exact hkc hrc
        have : ctrlOp c 1 A r k = 0 := by
          unfold ctrlOp; rw [if_neg (fun h => hkc h.2), if_neg hne]
        rw [this, hA r hr k hk' (by rw [hrc]; exact fun h => hkc h.symm), zero_mul, zero_mul]
    · -- row set, column not: everything vanishes
      have hne : r ≠ j := by rintro rfl; exact hjc hrc
      have e : ctrlOp c 1 (fun r j => ((List.range (2 ^ N)).map fun k => A r k * B k j).sum) r j = 0 := by
        unfold ctrlOp; rw [if_neg (fun h => hjc h.2), if_neg hne]
      rw [e]
      apply sum_map_zero
      intro k _
      by_cases hkc : Gate.bitAt k c = 1
      · have hkj : k ≠ j := by rintro rfl; exact hjc hkc
        have : ctrlOp c 1 B k j = 0 := by
          unfold ctrlOp; rw [if_neg (fun h => hjc h.2), if_neg hkj]
        rw [this, mul_zero]
      · have hrk : r ≠ k := by rintro rfl; exact hkc hrc
        have : ctrlOp c 1 A r k = 0 := by
          unfold ctrlOp; rw [if_neg (fun h => hkc h.2), if_neg hrk]
        rw [this, zero_mul]
  · -- row not set: `ctrl(A)` is the identity on this row
    have e1 : ∀ k, ctrlOp c 1 A r k = if r = k then 1 else 0 := by
      intro k; unfold ctrlOp; rw [if_neg (fun h => hrc h.1)]
    have e2 : ∀ (X : ℕ → ℕ → K), ctrlOp c 1 X r j = if r = j then 1 else 0 := by
      intro X; unfold ctrlOp; rw [if_neg (fun h => hrc h.1)]
    rw [List.map_congr_left (g := fun k => (if r = k then (1 : K) else 0) * ctrlOp c 1 B k j)
      (fun k _ => by rw [e1])]
    rw [sum_single (2 ^ N) r hr, e2, e2]

/-- a well-formed circuit that avoids wire `c` does not touch it -/
theorem noTouch_single (N c : ℕ) (g : Gate) (hnd : g.wires.Nodup) (hw : ∀ w ∈ g.wires, w < N)
    (hc : c ∉ g.wires) (hcN : c < N) : NoTouch N c (uop ζ ρ [g]) := by
  intro r hr k hk hne
  unfold uop
  rw [semCirc_single N g hnd hw r k hr hk, if_neg, zero_div]
  intro h
  exact hne ((clearBits_eq_iff N g.wires hnd hw r k hr hk).mp h c hcN hc)

/-- **list level**: the controlled expansion is `ctrlOp 0` of the plain expansion moved to wires `1..n` -/
theorem controlled_list_uop (n : ℕ) (interp : GateI → Gate) (interpC : GateI → List Gate)
    (ctlOp : ℕ → ℕ) :
    ∀ (gs : List GateI),
      (∀ g ∈ gs, WellFormed n [interp g] ∧ WellFormed (n + 1) (interpC (ctlGate ctlOp g)) ∧
        ∀ r, r < 2 ^ (n + 1) → ∀ j, j < 2 ^ (n + 1) →
          uop ζ ρ (interpC (ctlGate ctlOp g)) r j
            = ctrlOp 0 1 (uop ζ ρ [(interp g).relabel (· + 1)]) r j) →
      WellFormed (n + 1) ((gs.map (ctlGate ctlOp)).flatMap interpC) ∧
      WellFormed (n + 1) ((gs.map interp).map (Gate.relabel (· + 1))) ∧
      ∀ r, r < 2 ^ (n + 1) → ∀ j, j < 2 ^ (n + 1) →
        uop ζ ρ ((gs.map (ctlGate ctlOp)).flatMap interpC) r j
          = ctrlOp 0 1 (uop ζ ρ ((gs.map interp).map (Gate.relabel (· + 1)))) r j := by
  have hP : Placement (· + 1) n (n + 1) := ⟨fun a _ b _ h => by omega, fun q hq => by omega⟩
  intro gs
  induction gs using List.reverseRec with
  | nil =>
    intro _
    refine ⟨WellFormed.nil _, WellFormed.nil _, fun r _ j _ => ?_⟩
    simp only [List.map_nil, List.flatMap_nil]
    rw [uop_nil]
    unfold ctrlOp
    split
    · rw [uop_nil]
    · rfl
  | append_singleton c g ih =>
    intro h
    obtain ⟨wc1, wc2, hc⟩ := ih (fun g' hg' => h g' (by simp [hg']))
    obtain ⟨wg, wgc, hg⟩ := h g (by simp)
    have wg' : WellFormed (n + 1) [(interp g).relabel (· + 1)] := by
      have := wellFormed_relabel hP [interp g] wg
      simpa using this
    have e1 : ((c ++ [g]).map (ctlGate ctlOp)).flatMap interpC
        = (c.map (ctlGate ctlOp)).flatMap interpC ++ interpC (ctlGate ctlOp g) := by simp
    have e2 : ((c ++ [g]).map interp).map (Gate.relabel (· + 1))
        = (c.map interp).map (Gate.relabel (· + 1)) ++ [(interp g).relabel (· + 1)] := by simp
    refine ⟨by rw [e1]; exact wc1.append wgc, by rw [e2]; exact wc2.append wg', ?_⟩
    intro r hr j hj
    rw [e1, e2, uop_append (n + 1) _ _ wgc r j hr]
    rw [List.map_congr_left (g := fun k =>
        ctrlOp 0 1 (uop ζ ρ [(interp g).relabel (· + 1)]) r k
          * ctrlOp 0 1 (uop ζ ρ ((c.map interp).map (Gate.relabel (· + 1)))) k j)
      (fun k hk => by rw [hg r hr k (List.mem_range.mp hk), hc k (List.mem_range.mp hk) j hj])]
    have hnt : NoTouch (n + 1) 0 (uop ζ ρ [(interp g).relabel (· + 1)]) := by
      have hw := wg' _ (List.mem_singleton.mpr rfl)
      refine noTouch_single (n + 1) 0 _ hw.1 hw.2 ?_ (by omega)
      rw [relabel_wires]
      intro hm
      obtain ⟨w, _, he⟩ := List.mem_map.mp hm
      omega
    rw [ctrlOp_mul (n + 1) 0 _ _ hnt r j hr hj]
    unfold ctrlOp
    split
    · exact (uop_append (n + 1) _ _ wg' r j hr).symm
    · rfl

/-- **`controlled_sub_resolver`, program level**: if `p` expands to `gs`, the controlled program expands to some
    `gs'` whose operator (on `n+1` wires, control = wire 0) is `ctrlOp 0` of the operator of `gs` moved to the
    wires `1..n` -/
theorem controlled_sub_uop (n : ℕ) (interp : GateI → Gate) (interpC : GateI → List Gate)
    (ctlOp : ℕ → ℕ) (p : Program) {gs : List GateI} (h : expand p = .ok gs)
    (hprim : ∀ g ∈ gs, WellFormed n [interp g] ∧ WellFormed (n + 1) (interpC (ctlGate ctlOp g)) ∧
      ∀ r, r < 2 ^ (n + 1) → ∀ j, j < 2 ^ (n + 1) →
        uop ζ ρ (interpC (ctlGate ctlOp g)) r j
          = ctrlOp 0 1 (uop ζ ρ [(interp g).relabel (· + 1)]) r j) :
    ∃ gs', expand (ctlProgram ctlOp p) = .ok gs' ∧
      ∀ r, r < 2 ^ (n + 1) → ∀ j, j < 2 ^ (n + 1) →
        uop ζ ρ (gs'.flatMap interpC) r j
          = ctrlOp 0 1 (uop ζ ρ ((gs.map interp).map (Gate.relabel (· + 1)))) r j := by
  refine ⟨gs.map (ctlGate ctlOp), ?_, (controlled_list_uop n interp interpC ctlOp gs hprim).2.2⟩
  rw [expand_ctl, h]; rfl

/-! ### moving a circuit to the wires `1..n` is the index shift -/

theorem clearBits_shift (n r : ℕ) (hr : r < 2 ^ (n + 1)) :
    Gate.clearBits (frame (· + 1) n) r = r % 2 := by
  have hP : Placement (· + 1) n (n + 1) := ⟨fun a _ b _ h => by omega, fun q hq => by omega⟩
  have h2 : r % 2 < 2 ^ (n + 1) := lt_of_lt_of_le (Nat.mod_lt _ (by norm_num))
    (by calc 2 = 2 ^ 1 := rfl
          _ ≤ 2 ^ (n + 1) := Nat.pow_le_pow_right (by norm_num) (by omega))
  apply bitAt_ext (n + 1) _ _ (clearBits_lt (n + 1) _ r (frame_nodup hP) (frame_lt hP) hr) h2
  intro v hv
  rw [bitAt_clearBits (n + 1) _ r (frame_nodup hP) (frame_lt hP) hr]
  by_cases e : v = 0
  · subst e
    have : (0 : ℕ) ∉ frame (· + 1) n := by
      rw [mem_frame]; rintro ⟨q, _, hq⟩; omega
    rw [if_neg this, bitAt_zero_mod, bitAt_zero_mod, Nat.mod_mod]
  · have : v ∈ frame (· + 1) n := mem_frame.mpr ⟨v - 1, by omega, by omega⟩
    rw [if_pos this]
    obtain ⟨u, rfl⟩ : ∃ u, v = u + 1 := ⟨v - 1, by omega⟩
    rw [← bitAt_half]
    have : r % 2 / 2 = 0 := by omega
    rw [this]
    simp [Gate.bitAt]

theorem locIdx_shift (n r : ℕ) (hr : r < 2 ^ (n + 1)) :
    Gate.locIdx (frame (· + 1) n) r = r / 2 := by
  have h1 := locIdx_lt (frame (· + 1) n) r
  rw [frame_length] at h1
  have h2 : r / 2 < 2 ^ n := by rw [pow_succ] at hr; omega
  apply bitAt_ext n _ _ h1 h2
  intro i hi
  rw [bitAt_locIdx_frame r hi, bitAt_half]

/-- **the operator of a circuit moved to the wires `1..n`**: the original operator on the index with wire 0
    dropped, identity on wire 0 -/
theorem uop_shift (n : ℕ) (gs : List Gate) (wf : WellFormed n gs) (r j : ℕ) (hr : r < 2 ^ (n + 1))
    (hj : j < 2 ^ (n + 1)) :
    uop ζ ρ (gs.map (Gate.relabel (· + 1))) r j
      = if r % 2 = j % 2 then uop ζ ρ gs (r / 2) (j / 2) else 0 := by
  have hP : Placement (· + 1) n (n + 1) := ⟨fun a _ b _ h => by omega, fun q hq => by omega⟩
  unfold uop
  rw [semK_relabel, semCirc_relabel hP gs wf r j hr hj, clearBits_shift n r hr, clearBits_shift n j hj,
    locIdx_shift n r hr, locIdx_shift n j hj]
  split
  · rfl
  · exact zero_div _

end QV.MatSound
