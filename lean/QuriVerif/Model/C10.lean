import QuriVerif.Found.Template
/-
  C10 — executable model of linearly mapped parametric circuits:
    * `parameter_mapping.py`        LinearParameterMapping (with_data_updated, combine, mapper,
                                    seq_mapper, is_trivial_mapping)
    * `circuit_linear_mapped.py`    add_parameters, add_Parametric*_gate (+ `_check_param_exist`),
                                    extend (both branches), `+`, `__radd__`, bind_parameters,
                                    bind_parameters_by_dict
    * `circuit_parametric.rs`       ParametricQuantumCircuit (add / extend / bind) as far as the
                                    Python layer relies on it
    * `transpile/*`                 ParametricTranspiler (segment-wise), ParametricRX2RZH,
                                    ParametricRY2RZH, ParametricPauliRotationDecompose,
                                    ParametricSequentialTranspiler
  Parameters are *identities* (`PId`, a natural number handed out by a global counter; the
  name of a parameter lives in a separate table and is never consulted), `CONST` is the
  identity `0`.  Coefficients / parameter values live in any `Num K` (the driver uses ℚ,
  the kernel witnesses use ℤ).  Every exception of the real code is an `Err`.
-/
namespace QV.C10
open QV

class Num (K : Type) where
  zero : K
  one : K
  add : K → K → K
  mul : K → K → K

instance : Num Int := ⟨0, 1, (· + ·), (· * ·)⟩
instance : Num Rat := ⟨0, 1, (· + ·), (· * ·)⟩

abbrev PId := Nat
/-- `quri_parts.circuit.parameter.CONST` -/
def CONST : PId := 0

inductive Err
  | keyError | valueError | typeError | runtimeError
deriving DecidableEq, Repr, Inhabited

def Err.name : Err → String
  | .keyError => "KeyError" | .valueError => "ValueError"
  | .typeError => "TypeError" | .runtimeError => "RuntimeError"

/-! ### Python dictionaries keyed by parameter identity -/
abbrev Dict (V : Type) := List (PId × V)

namespace Dict
variable {V : Type}
def get? : Dict V → PId → Option V
  | [], _ => none
  | (k', v) :: r, k => if k' = k then some v else get? r k
/-- `d[k] = v` : replace in place or append -/
def set : Dict V → PId → V → Dict V
  | [], k, v => [(k, v)]
  | (k', v') :: r, k, v => if k' = k then (k', v) :: r else (k', v') :: set r k v
def setAll (d : Dict V) (kvs : List (PId × V)) : Dict V := kvs.foldl (fun d kv => d.set kv.1 kv.2) d
/-- `{**a, **b}` -/
def merge (a b : Dict V) : Dict V := setAll a b
/-- `dict(zip(ks, vs))` -/
def ofZip (ks : List PId) (vs : List V) : Dict V := setAll [] (ks.zip vs)
def keys (d : Dict V) : List PId := d.map (·.1)
end Dict

/-- `ParameterOrLinearFunction` -/
inductive Ang (K : Type) where
  | par (p : PId)
  | fn (ts : List (PId × K))
deriving Repr, DecidableEq

def Ang.params {K : Type} : Ang K → List PId
  | .par p => [p]
  | .fn ts => ts.map (·.1)

structure Mapping (K : Type) where
  inP : List PId := []
  outP : List PId := []
  map : Dict (Ang K) := []
deriving Repr

/-- a gate angle: a value of `K`, or the float constant `q·π/2` written by a transpiler -/
inductive AVal (K : Type) where
  | val (v : K)
  | halfPi (q : Int)
deriving Repr, DecidableEq

/-- non-parametric gate -/
structure FG (K : Type) where
  kind : Kind
  controls : List Nat := []
  targets : List Nat := []
  params : List (AVal K) := []
  paulis : List Nat := []
deriving Repr, DecidableEq

def FG.qubits {K : Type} (g : FG K) : List Nat := g.controls ++ g.targets

inductive PK | rx | ry | rz | prot
deriving DecidableEq, Repr, Inhabited

def PK.bound : PK → Kind
  | .rx => .RX | .ry => .RY | .rz => .RZ | .prot => .PauliRotation
def PK.pname : PK → Kind
  | .rx => .ParametricRX | .ry => .ParametricRY | .rz => .ParametricRZ | .prot => .ParametricPauliRotation

/-- a gate of a parametric circuit: fixed, or parametric with its raw parameter -/
inductive PG (K : Type) where
  | fixed (g : FG K)
  | par (k : PK) (ts ids : List Nat) (raw : PId)
deriving Repr, DecidableEq

/-- the rotation a parametric gate becomes when bound to `v` -/
def rot {K : Type} (k : PK) (ts ids : List Nat) (v : K) : FG K :=
  { kind := k.bound, targets := ts, params := [.val v], paulis := ids }

def raws {K : Type} : List (PG K) → List PId
  | [] => []
  | .fixed _ :: r => raws r
  | .par _ _ _ p :: r => p :: raws r

/-- Rust `add_gate_inner`: every index must be `< qubit_count` -/
def idxOk (n : Nat) (qs : List Nat) : Bool := qs.all (· < n)

/-! ### LinearParameterMapping -/
section mapping
variable {K : Type} [Num K]

/-- `{**param_vals, CONST: 1.0}` with `param_vals = dict(zip(in_params, params))` -/
def mkEnv (inP : List PId) (vals : List K) : Dict K := (Dict.ofZip inP vals).set CONST Num.one

def lookupK (env : Dict K) (p : PId) : Except Err K :=
  match env.get? p with
  | some v => .ok v
  | none => .error .keyError

/-- `sum(c * in_param_vals[p] for p, c in fn.items())` (left to right, starting at 0) -/
def evalTerms (env : Dict K) : List (PId × K) → K → Except Err K
  | [], acc => .ok acc
  | (p, c) :: r, acc =>
    match lookupK env p with
    | .error e => .error e
    | .ok v => evalTerms env r (Num.add acc (Num.mul c v))

def evalAng (env : Dict K) : Ang K → Except Err K
  | .par p => lookupK env p
  | .fn ts => evalTerms env ts Num.zero

def lookupAng (m : Dict (Ang K)) (r : PId) : Except Err (Ang K) :=
  match m.get? r with
  | some a => .ok a
  | none => .error .keyError

/-- value of one output parameter: `mapping[out_param]` evaluated on `env` -/
def outVal (m : Dict (Ang K)) (env : Dict K) (r : PId) : Except Err K :=
  match lookupAng m r with
  | .error e => .error e
  | .ok a => evalAng env a

/-- the loop of `LinearParameterMapping.mapper` -/
def mapperLoop (m : Dict (Ang K)) (env : Dict K) : List PId → Dict K → Except Err (Dict K)
  | [], d => .ok d
  | r :: rs, d =>
    match outVal m env r with
    | .error e => .error e
    | .ok v => mapperLoop m env rs (d.set r v)

/-- `mapping.mapper(dict(zip(in_params, vals)))` -/
def Mapping.mapper (m : Mapping K) (vals : List K) : Except Err (Dict K) :=
  mapperLoop m.map (mkEnv m.inP vals) m.outP []

/-- `seq_mapper` : length check, then `tuple(d[p] for p in out_params)` -/
def Mapping.seqMapper (m : Mapping K) (vals : List K) : Except Err (List K) :=
  if vals.length ≠ m.inP.length then .error .valueError else do
    let d ← m.mapper vals
    m.outP.mapM (lookupK d)

/-- the loop of `is_trivial_mapping` (coefficient test `== 1.0` is passed in as `isOne`) -/
def trivialLoop (isOne : K → Bool) (map : Dict (Ang K)) : List PId → List PId → Except Err Bool
  | [], _ => .ok true
  | r :: rs, used => do
    let a ← lookupAng map r
    match a with
    | .par p => if used.contains p then .ok false else trivialLoop isOne map rs (used ++ [p])
    | .fn [(p, c)] => if !isOne c || used.contains p then .ok false else trivialLoop isOne map rs (used ++ [p])
    | .fn _ => .ok false

def Mapping.isTrivial (isOne : K → Bool) (m : Mapping K) : Except Err Bool :=
  if m.inP.length ≠ m.outP.length then .ok false else trivialLoop isOne m.map m.outP []

/-- `LinearParameterMapping.combine` -/
def Mapping.combine (a b : Mapping K) : Mapping K :=
  ⟨a.inP ++ b.inP, a.outP ++ b.outP, a.map.merge b.map⟩

end mapping

/-! ### circuits -/

/-- `LinearMappedParametricQuantumCircuit` -/
structure LC (K : Type) where
  n : Nat
  m : Mapping K := {}
  gs : List (PG K) := []
deriving Repr

inductive Circ (K : Type) where
  | lin (c : LC K)
  | plain (n : Nat) (gs : List (PG K))       -- Rust `ParametricQuantumCircuit`
deriving Repr

section circuits
variable {K : Type} [Num K]

/-- the `param_mapping` getter of the Rust class: `LinearParameterMapping(ps, ps, {p: p})` -/
def plainMapping (gs : List (PG K)) : Mapping K :=
  let ps := raws gs
  ⟨ps, ps, Dict.setAll [] (ps.map fun p => (p, Ang.par p))⟩

/-- a circuit seen through `ParametricQuantumCircuitProtocol`
    (`qubit_count`, `param_mapping`, `primitive_circuit()`) -/
def Circ.view : Circ K → LC K
  | .lin c => c
  | .plain n gs => ⟨n, plainMapping gs, gs⟩

def Circ.n (c : Circ K) : Nat := c.view.n

def LC.addGate (c : LC K) (g : FG K) : Except Err (LC K) :=
  if idxOk c.n g.qubits then .ok { c with gs := c.gs ++ [.fixed g] } else .error .valueError

/-- `_check_param_exist` -/
def checkParam (inP : List PId) (a : Ang K) : Bool :=
  a.params.all fun p => inP.contains p || p == CONST

/-- `add_Parametric{RX,RY,RZ,PauliRotation}_gate`; `raw` is the fresh parameter the Rust layer creates -/
def LC.addPar (c : LC K) (raw : PId) (k : PK) (ts ids : List Nat) (a : Ang K) : Except Err (LC K) :=
  if !checkParam c.m.inP a then .error .valueError
  else if !idxOk c.n ts then .error .valueError
  else .ok { c with m := ⟨c.m.inP, c.m.outP ++ [raw], c.m.map.set raw a⟩,
                    gs := c.gs ++ [.par k ts ids raw] }

/-- add fixed gates one at a time; on failure the gates added so far stay (as in the real loop) -/
def addGatesL (c : LC K) : List (FG K) → LC K × Option Err
  | [] => (c, none)
  | g :: r =>
    match c.addGate g with
    | .ok c' => addGatesL c' r
    | .error e => (c, some e)

/-- resolved argument of `extend` / `+` -/
inductive SrcV (K : Type) where
  | circ (c : Circ K)
  | lit (gs : List (FG K))
  | qc (n : Nat) (gs : List (FG K))

/-- `LinearMappedParametricQuantumCircuit.extend` -/
def LC.extend (c : LC K) : SrcV K → LC K × Option Err
  | .circ o =>
    let v := o.view
    if c.n ≠ v.n then (c, some .valueError)
    else ({ c with m := c.m.combine v.m, gs := c.gs ++ v.gs }, none)
  | .qc n gs => if c.n ≠ n then (c, some .valueError) else addGatesL c gs
  | .lit gs => addGatesL c gs

def emptyLC (n : Nat) : LC K := ⟨n, {}, []⟩

/-- `combine` / `__add__` : errors become `NotImplemented`, i.e. a `TypeError` -/
def LC.plus (c : LC K) (s : SrcV K) : Except Err (LC K) :=
  match (emptyLC c.n).extend (.circ (.lin c)) with
  | (r1, none) =>
    match r1.extend s with
    | (r2, none) => .ok r2
    | (_, some _) => .error .typeError
  | (_, some _) => .error .typeError

/-- `__radd__` -/
def LC.rplus (c : LC K) (s : SrcV K) : Except Err (LC K) :=
  match (emptyLC c.n).extend s with
  | (r1, none) =>
    match r1.extend (.circ (.lin c)) with
    | (r2, none) => .ok r2
    | (_, some _) => .error .typeError
  | (_, some _) => .error .typeError

/-! Rust `ParametricQuantumCircuit` (only what the histories use) -/
def addGatesP (n : Nat) (acc : List (PG K)) : List (PG K) → List (PG K) × Option Err
  | [] => (acc, none)
  | g :: r =>
    let qs := match g with | .fixed f => f.qubits | .par _ ts _ _ => ts
    if idxOk n qs then addGatesP n (acc ++ [g]) r else (acc, some .valueError)

/-- Rust `extend` : no qubit-count test, every gate is checked as it is pushed -/
def plainExtend (n : Nat) (gs : List (PG K)) : SrcV K → List (PG K) × Option Err
  | .circ (.lin _) => (gs, some .typeError)
  | .circ (.plain _ gs') => addGatesP n gs gs'
  | .lit fs => addGatesP n gs (fs.map .fixed)
  | .qc _ fs => addGatesP n gs (fs.map .fixed)

/-! ### binding -/

/-- Rust `bind_parameters` on a list: one value per parametric gate, count must match -/
def bindList : List (PG K) → List K → Except Err (List (FG K))
  | [], [] => .ok []
  | [], _ :: _ => .error .valueError
  | .fixed g :: r, vs =>
    match bindList r vs with
    | .error e => .error e
    | .ok t => .ok (g :: t)
  | .par _ _ _ _ :: _, [] => .error .valueError
  | .par k ts ids _ :: r, v :: vs =>
    match bindList r vs with
    | .error e => .error e
    | .ok t => .ok (rot k ts ids v :: t)

/-- `ImmutableBoundParametricQuantumCircuit(circuit, parameter_map)` =
    Rust `bind_parameters_by_dict` : a missing raw parameter is a RuntimeError -/
def bindRaw (d : Dict K) : List (PG K) → Except Err (List (FG K))
  | [] => .ok []
  | .fixed g :: r =>
    match bindRaw d r with
    | .error e => .error e
    | .ok t => .ok (g :: t)
  | .par k ts ids p :: r =>
    match d.get? p with
    | none => .error .runtimeError
    | some v =>
      match bindRaw d r with
      | .error e => .error e
      | .ok t => .ok (rot k ts ids v :: t)

/-- `LinearMappedParametricQuantumCircuit.bind_parameters` -/
def LC.bind (c : LC K) (vals : List K) : Except Err (List (FG K)) :=
  match c.m.mapper vals with
  | .error e => .error e
  | .ok d => bindRaw d c.gs

/-- what `bind` has to produce: each parametric gate carries the value of the angle
    function found for its raw parameter in `defs`, evaluated at the parameter values -/
def specGate (defs : Dict (Ang K)) (env : Dict K) : PG K → Except Err (FG K)
  | .fixed g => .ok g
  | .par k ts ids r =>
    match outVal defs env r with
    | .error e => .error e
    | .ok v => .ok (rot k ts ids v)

def specBindGs (defs : Dict (Ang K)) (env : Dict K) : List (PG K) → Except Err (List (FG K))
  | [] => .ok []
  | g :: r =>
    match specGate defs env g with
    | .error e => .error e
    | .ok x =>
      match specBindGs defs env r with
      | .error e => .error e
      | .ok t => .ok (x :: t)

def LC.specBind (c : LC K) (vals : List K) : Except Err (List (FG K)) :=
  specBindGs c.m.map (mkEnv c.m.inP vals) c.gs

/-- `bind_parameters_by_dict` of the protocol: `[params_dict[p] for p in in_params]` -/
def dictToList (d : Dict K) : List PId → Except Err (List K)
  | [] => .ok []
  | p :: r =>
    match lookupK d p with
    | .error e => .error e
    | .ok v =>
      match dictToList d r with
      | .error e => .error e
      | .ok t => .ok (v :: t)

def Circ.bind (c : Circ K) (vals : List K) : Except Err (List (FG K)) :=
  match c with
  | .lin c => c.bind vals
  | .plain _ gs => bindList gs vals

def Circ.bindDict (c : Circ K) (d : Dict K) : Except Err (List (FG K)) :=
  match c with
  | .lin c =>
    match dictToList d c.m.inP with
    | .error e => .error e
    | .ok vs => c.bind vs
  | .plain _ gs =>
    -- Rust: `params_dict.get(p)` for every raw parameter, else RuntimeError
    bindRaw d gs

end circuits

/-! ### allocation of raw parameters
  `next` is the global supply of fresh identities; `defs` is a ghost table recording the angle
  every raw parameter was created with (written at creation, never read by any operation). -/
structure Alloc (K : Type) where
  next : PId := 1                 -- 0 is CONST
  defs : Dict (Ang K) := []
deriving Repr

/-! ### parametric transpilers
  All four transpilers start from `LinearMappedParametricQuantumCircuit(qubit_count)` with
  `_param_mapping = LinearParameterMapping(circuit.param_mapping.in_params)` and replay
  instructions (`add_gate` / `add_Parametric*_gate(…, pmap[param])`) onto it. -/

inductive Instr (K : Type) where
  | g (g : FG K)
  | p (k : PK) (ts ids : List Nat) (a : Ang K)
deriving Repr

section transpile
variable {K : Type} [Num K]

/-- `add_Parametric*_gate` with the fresh raw parameter taken from the supply -/
def LC.addParA (c : LC K) (al : Alloc K) (k : PK) (ts ids : List Nat) (a : Ang K) :
    Except Err (LC K × Alloc K) :=
  match c.addPar al.next k ts ids a with
  | .ok c' => .ok (c', ⟨al.next + 1, al.defs.set al.next a⟩)
  | .error e => .error e

/-- replay instructions onto a circuit -/
def replay (c : LC K) (al : Alloc K) : List (Instr K) → Except Err (LC K × Alloc K)
  | [] => .ok (c, al)
  | .g g :: r =>
    match c.addGate g with
    | .ok c' => replay c' al r
    | .error e => .error e
  | .p k ts ids a :: r =>
    match c.addParA al k ts ids a with
    | .ok (c', al') => replay c' al' r
    | .error e => .error e

/-- one item of a 1-qubit rewrite rule read from `gateset.py` -/
inductive TI where
  | fx (kind : Kind) (params : List Int)   -- fixed gate on the same qubit, angles in units of π/2
  | pr (k : PK)                            -- parametric rotation carrying the source angle
deriving Repr, DecidableEq

/-- what a rewriting transpiler does with each parametric kind -/
inductive Rule where
  | keep                       -- re-add the same parametric gate
  | seq (body : List TI)       -- 1-qubit template on `target_indices[0]`
  | pauliDecomp                -- `add_decomposed_gates`
  | unsupported                -- `raise ValueError`
deriving Repr, DecidableEq

structure Rewriter where
  rx : Rule
  ry : Rule
  rz : Rule
  prot : Rule
deriving Repr, DecidableEq

def Rewriter.rule (w : Rewriter) : PK → Rule
  | .rx => w.rx | .ry => w.ry | .rz => w.rz | .prot => w.prot

/-- `rot_gates(sign, indices, pauli_ids)`; `none` = "Pauli id must be either 1, 2, or 3" -/
def rotGates (sign : Int) : List Nat → List Nat → Option (List (FG K))
  | q :: qs, p :: ps =>
    if p = 1 then (rotGates sign qs ps).map ({ kind := .H, targets := [q] } :: ·)
    else if p = 2 then
      (rotGates sign qs ps).map ({ kind := .RX, targets := [q], params := [.halfPi sign] } :: ·)
    else if p = 3 then rotGates sign qs ps
    else none
  | _, _ => some []

def cnotLadder (t0 : Nat) (rest : List Nat) : List (FG K) :=
  rest.map fun q => { kind := .CNOT, controls := [q], targets := [t0] }

/-- `add_decomposed_gates` as an instruction list (also `PauliRotationDecomposeTranspiler.decompose`
    when the middle gate is bound) -/
def pauliRotInstrs (ts ids : List Nat) (mid : Nat → Instr K) : Except Err (List (Instr K)) :=
  match rotGates (K := K) 1 ts ids, rotGates (K := K) (-1) ts ids with
  | some pre, some post =>
    match ts with
    | [] => .error .valueError          -- `indices[0]` : IndexError (never generated)
    | t0 :: rest =>
      .ok (pre.map .g ++ ((cnotLadder t0 rest.reverse).map .g ++ (mid t0 ::
            ((cnotLadder t0 rest).map .g ++ post.map .g))))
  | _, _ => .error .valueError

def tiInstr (q : Nat) (a : Ang K) : TI → Instr K
  | .fx kind ps => .g { kind := kind, targets := [q], params := ps.map .halfPi }
  | .pr k => .p k [q] [] a

/-- instructions a rewriting transpiler issues for one parametric gate whose angle is `a` -/
def ruleInstrs (r : Rule) (k : PK) (ts ids : List Nat) (a : Ang K) : Except Err (List (Instr K)) :=
  match r with
  | .keep => .ok [.p k ts ids a]
  | .seq body => .ok (body.map (tiInstr (ts.headD 0) a))
  | .pauliDecomp => pauliRotInstrs ts ids (fun t0 => .p .rz [t0] [] a)
  | .unsupported => .error .valueError

/-- the loop of `ParametricRX2RZHTranspiler` / `ParametricRY2RZHTranspiler` /
    `ParametricPauliRotationDecomposeTranspiler` -/
def rewriteLoop (w : Rewriter) (pmap : Dict (Ang K)) (acc : LC K) (al : Alloc K) :
    List (PG K) → Except Err (LC K × Alloc K)
  | [] => .ok (acc, al)
  | .fixed g :: r =>
    match acc.addGate g with
    | .ok acc' => rewriteLoop w pmap acc' al r
    | .error e => .error e
  | .par k ts ids raw :: r =>
    match lookupAng pmap raw with
    | .error e => .error e
    | .ok a =>
      match ruleInstrs (w.rule k) k ts ids a with
      | .error e => .error e
      | .ok is =>
        match replay acc al is with
        | .error e => .error e
        | .ok (acc', al') => rewriteLoop w pmap acc' al' r

def startLC (c : LC K) : LC K := ⟨c.n, ⟨c.m.inP, [], []⟩, []⟩

def rewriteT (w : Rewriter) (c : LC K) (al : Alloc K) : Except Err (LC K × Alloc K) :=
  rewriteLoop w c.m.map (startLC c) al c.gs

/-- `self._transpiler(cc).gates` for a non-empty segment, nothing for an empty one -/
def flushE (t : List (FG K) → Except Err (List (FG K))) (seg : List (FG K)) :
    Except Err (List (FG K)) :=
  if seg.isEmpty then .ok [] else t seg

/-- flush of `ParametricTranspiler`: `if gates: ret.extend(self._transpiler(cc).gates)` -/
def flush (t : List (FG K) → Except Err (List (FG K))) (acc : LC K) (seg : List (FG K)) :
    Except Err (LC K) :=
  match flushE t seg with
  | .error e => .error e
  | .ok out =>
    match addGatesL acc out with
    | (acc', none) => .ok acc'
    | (_, some e) => .error e

/-- the loop of `ParametricTranspiler.__call__` for an arbitrary circuit transpiler `t` -/
def wrapLoop (t : List (FG K) → Except Err (List (FG K))) (pmap : Dict (Ang K)) (acc : LC K)
    (al : Alloc K) (seg : List (FG K)) : List (PG K) → Except Err (LC K × Alloc K)
  | [] =>
    match flush t acc seg with
    | .ok acc' => .ok (acc', al)
    | .error e => .error e
  | .fixed g :: r => wrapLoop t pmap acc al (seg ++ [g]) r
  | .par k ts ids raw :: r =>
    match flush t acc seg with
    | .error e => .error e
    | .ok acc1 =>
      match lookupAng pmap raw with
      | .error e => .error e
      | .ok a =>
        match acc1.addParA al k ts ids a with
        | .error e => .error e
        | .ok (acc2, al') => wrapLoop t pmap acc2 al' [] r

def wrapT (t : List (FG K) → Except Err (List (FG K))) (c : LC K) (al : Alloc K) :
    Except Err (LC K × Alloc K) :=
  wrapLoop t c.m.map (startLC c) al [] c.gs

/-- concrete inner circuit transpilers available to the driver -/
inductive Inner | id | reverse | mark | idInsert | rx2rzh | ry2rzh | pauliRot
deriving DecidableEq, Repr

/-- non-parametric counterpart of a 1-qubit rule body: the source gate's angle `v` -/
def tiBound (q : Nat) (v : AVal K) : TI → FG K
  | .fx kind ps => { kind := kind, targets := [q], params := ps.map .halfPi }
  | .pr k => { kind := k.bound, targets := [q], params := [v] }

def instrFixed : Instr K → List (FG K)
  | .g g => [g]
  | .p _ _ _ _ => []

/-- `PauliRotationDecomposeTranspiler.decompose` -/
def pauliRotDec (g : FG K) : Except Err (List (FG K)) :=
  match pauliRotInstrs g.targets g.paulis
      (fun t0 => .g { kind := .RZ, targets := [t0], params := [g.params.headD (.halfPi 0)] }) with
  | .ok is => .ok (is.flatMap instrFixed)
  | .error e => .error e

/-- what a rule turns a *bound* rotation gate into: the non-parametric decomposer's `decompose` -/
def decBound (r : Rule) (g : FG K) : Except Err (List (FG K)) :=
  match r with
  | .keep => .ok [g]
  | .seq body => .ok (body.map (tiBound (g.targets.headD 0) (g.params.headD (.halfPi 0))))
  | .pauliDecomp => pauliRotDec g
  | .unsupported => .error .valueError

/-- `GateKindDecomposer.__call__` for a 1-qubit template on rotation kind `k` -/
def decomp1 (k : Kind) (body : List TI) (c : List (FG K)) : List (FG K) :=
  c.flatMap fun g =>
    if g.kind = k then body.map (tiBound (g.targets.headD 0) (g.params.headD (.halfPi 0))) else [g]

def pauliRotPass : List (FG K) → Except Err (List (FG K))
  | [] => .ok []
  | g :: r =>
    match (if g.kind = .PauliRotation then pauliRotDec g else .ok [g]) with
    | .error e => .error e
    | .ok x =>
      match pauliRotPass r with
      | .error e => .error e
      | .ok t => .ok (x ++ t)

def usedQubits (c : List (FG K)) : List Nat := c.flatMap FG.qubits

/-- data read from the working tree by the translator -/
structure Tables where
  rx2rzh : Rewriter
  ry2rzh : Rewriter
  pauli : Rewriter
  /-- bodies of the non-parametric `RX2RZHTranspiler` / `RY2RZHTranspiler` -/
  nrx : List TI
  nry : List TI
deriving Repr

def Inner.run (tb : Tables) (n : Nat) : Inner → List (FG K) → Except Err (List (FG K))
  | .id, c => .ok c
  | .reverse, c => .ok c.reverse
  | .mark, c => .ok (c ++ [{ kind := .Z, targets := [0] }])
  | .idInsert, c =>
    let missing := (List.range n).filter fun q => !(usedQubits c).contains q
    .ok (c ++ missing.map fun q => { kind := .Identity, targets := [q] })
  | .rx2rzh, c => .ok (decomp1 .RX tb.nrx c)
  | .ry2rzh, c => .ok (decomp1 .RY tb.nry c)
  | .pauliRot, c => pauliRotPass c

/-- a basic parametric transpiler -/
inductive PT0 | wrap (t : Inner) | rx | ry | pauli
deriving DecidableEq, Repr

def PT0.run (tb : Tables) (t : PT0) (c : LC K) (al : Alloc K) : Except Err (LC K × Alloc K) :=
  match t with
  | .wrap i => wrapT (i.run tb c.n) c al
  | .rx => rewriteT tb.rx2rzh c al
  | .ry => rewriteT tb.ry2rzh c al
  | .pauli => rewriteT tb.pauli c al

/-- `ParametricSequentialTranspiler` (flattened) -/
def seqT (tb : Tables) : List PT0 → LC K → Alloc K → Except Err (LC K × Alloc K)
  | [], c, al => .ok (c, al)
  | t :: r, c, al =>
    match t.run tb c al with
    | .ok (c', al') => seqT tb r c' al'
    | .error e => .error e

end transpile

/-! ### histories -/

inductive Src (K : Type) where
  | h (j : Nat)
  | lit (gs : List (FG K))
  | qc (n : Nat) (gs : List (FG K))

inductive Op (K : Type) where
  | newL (n : Nat)
  | newP (n : Nat)
  | addParams (h : Nat) (names : List String)
  | addGate (h : Nat) (g : FG K)
  | addPar (h : Nat) (k : PK) (ts ids : List Nat) (a : Ang K)    -- on a plain circuit `a` is ignored
  | extend (h : Nat) (s : Src K)
  | plus (h : Nat) (s : Src K)          -- `circ[h] + s`, result pushed as a new circuit
  | rplus (s : Src K) (h : Nat)         -- `s + circ[h]` with `s` a gate list / QuantumCircuit
  | tr (ts : List PT0) (h : Nat)        -- parametric transpiler(s) applied, result pushed

structure Store (K : Type) where
  circs : List (Circ K) := []
  al : Alloc K := {}

section history
variable {K : Type} [Num K]

def Store.resolve (s : Store K) : Src K → Option (SrcV K)
  | .h j => (s.circs[j]?).map .circ
  | .lit gs => some (.lit gs)
  | .qc n gs => some (.qc n gs)

def freshIds (next : PId) (k : Nat) : List PId := (List.range k).map (next + ·)

def Store.push (s : Store K) (c : Circ K) : Store K := { s with circs := s.circs ++ [c] }
def Store.put (s : Store K) (h : Nat) (c : Circ K) : Store K := { s with circs := s.circs.set h c }

/-- plain `+` plain (Rust `__add__`, then the reflected `__radd__` of the right operand) -/
def plainPlus (n : Nat) (gs : List (PG K)) (v : SrcV K) : Except Err (Circ K) :=
  match plainExtend n gs v with
  | (gs', none) => .ok (.plain n gs')
  | (_, some _) =>
    match v with
    | .circ (.plain n2 gs2) =>
      -- `__add__` gave NotImplemented; the pyo3 slot then tries `rhs.__radd__(lhs)`, whose errors propagate
      match addGatesP n2 [] gs with
      | (g1, none) =>
        match addGatesP n2 g1 gs2 with
        | (g2, none) => .ok (.plain n2 g2)
        | (_, some e) => .error e
      | (_, some e) => .error e
    | _ => .error .typeError

/-- Rust `__radd__` : errors propagate unchanged -/
def plainRPlus (n : Nat) (gs : List (PG K)) (v : SrcV K) : Except Err (Circ K) :=
  match plainExtend n [] v with
  | (g1, none) =>
    match addGatesP n g1 gs with
    | (g2, none) => .ok (.plain n g2)
    | (_, some e) => .error e
  | (_, some e) => .error e

/-- one operation: new store and the exception raised, if any.  The names given to
    `add_parameters` are never consulted (only their number). -/
def step (tb : Tables) (s : Store K) : Op K → Store K × Option Err
  | .newL n => (s.push (.lin (emptyLC n)), none)
  | .newP n => (s.push (.plain n []), none)
  | .addParams h names =>
    match s.circs[h]? with
    | some (.lin c) =>
      let ids := freshIds s.al.next names.length
      ({ circs := s.circs.set h (.lin { c with m := { c.m with inP := c.m.inP ++ ids } }),
         al := { s.al with next := s.al.next + names.length } }, none)
    | _ => (s, some .typeError)
  | .addGate h g =>
    match s.circs[h]? with
    | some (.lin c) =>
      match c.addGate g with
      | .ok c' => (s.put h (.lin c'), none)
      | .error e => (s, some e)
    | some (.plain n gs) =>
      if idxOk n g.qubits then (s.put h (.plain n (gs ++ [.fixed g])), none)
      else (s, some .valueError)
    | none => (s, some .typeError)
  | .addPar h k ts ids a =>
    match s.circs[h]? with
    | some (.lin c) =>
      match c.addParA s.al k ts ids a with
      | .ok (c', al') => ({ circs := s.circs.set h (.lin c'), al := al' }, none)
      | .error e => (s, some e)
    | some (.plain n gs) =>
      if idxOk n ts then
        ({ circs := s.circs.set h (.plain n (gs ++ [.par k ts ids s.al.next])),
           al := ⟨s.al.next + 1, s.al.defs.set s.al.next (.par s.al.next)⟩ }, none)
      else (s, some .valueError)
    | none => (s, some .typeError)
  | .extend h src =>
    match s.circs[h]?, s.resolve src with
    | some (.lin c), some v => (s.put h (.lin (c.extend v).1), (c.extend v).2)
    | some (.plain n gs), some v => (s.put h (.plain n (plainExtend n gs v).1), (plainExtend n gs v).2)
    | _, _ => (s, some .typeError)
  | .plus h src =>
    match s.circs[h]?, s.resolve src with
    | some (.lin c), some v =>
      match c.plus v with
      | .ok r => (s.push (.lin r), none)
      | .error e => (s, some e)
    | some (.plain n gs), some (.circ (.lin o)) =>
      -- Rust `__add__` gives NotImplemented, Python falls back to `o.__radd__(plain)`
      match o.rplus (.circ (.plain n gs)) with
      | .ok r => (s.push (.lin r), none)
      | .error e => (s, some e)
    | some (.plain n gs), some v =>
      match plainPlus n gs v with
      | .ok r => (s.push r, none)
      | .error e => (s, some e)
    | _, _ => (s, some .typeError)
  | .rplus src h =>
    match s.circs[h]?, s.resolve src with
    | some (.lin c), some v =>
      match c.rplus v with
      | .ok r => (s.push (.lin r), none)
      | .error e => (s, some e)
    | some (.plain n gs), some v =>
      match plainRPlus n gs v with
      | .ok r => (s.push r, none)
      | .error e => (s, some e)
    | _, _ => (s, some .typeError)
  | .tr ts h =>
    match s.circs[h]? with
    | some c =>
      match seqT tb ts c.view s.al with
      | .ok (r, al') => ({ circs := s.circs ++ [.lin r], al := al' }, none)
      | .error e => (s, some e)
    | none => (s, some .typeError)

def run (tb : Tables) : Store K → List (Op K) → Store K × List (Option Err)
  | s, [] => (s, [])
  | s, o :: os =>
    let r := step tb s o
    let r2 := run tb r.1 os
    (r2.1, r.2 :: r2.2)

def runS (tb : Tables) (s : Store K) (ops : List (Op K)) : Store K := (run tb s ops).1

end history

/-! ### exact-ring reading of the translated rules (used by the generated obligations) -/
section ring

def tiGate : TI → Gate
  | .fx kind ps => G kind [] [0] (ps.map fun q => ⟨[], 2 * q⟩)
  | .pr k => G k.pname [] [0] [Angle.var 0]

/-- a 1-qubit rule as a rewrite template: Parametric-k(φ) ↦ body, for all real φ -/
def ruleTemplate (k : PK) (body : List TI) : Template := ⟨1, G k.pname [] [0] [Angle.var 0], body.map tiGate⟩

def ruleCheck (k : PK) : Rule → Bool
  | .seq body => (ruleTemplate k body).check
  | .keep => true
  | .pauliDecomp => k == .prot
  | .unsupported => false

/-- every rule of a rewriting transpiler preserves the gate's action up to a global phase
    (1-qubit templates checked in the exact ring; the Pauli-rotation decomposition is checked
    separately, per arity) -/
def rewriterCheck (w : Rewriter) : Bool :=
  ruleCheck .rx w.rx && ruleCheck .ry w.ry && ruleCheck .rz w.rz && ruleCheck .prot w.prot

/-- non-parametric template RX/RY(φ) ↦ body -/
def boundTemplate (k : PK) (body : List TI) : Template :=
  ⟨1, G k.bound [] [0] [Angle.var 0],
   body.map fun t => match t with
     | .fx kind ps => G kind [] [0] (ps.map fun q => ⟨[], 2 * q⟩)
     | .pr k' => G k'.bound [] [0] [Angle.var 0]⟩

def avalAngle : AVal Unit → Angle
  | .val _ => Angle.var 0
  | .halfPi q => ⟨[], 2 * q⟩

def fgGate (g : FG Unit) : Gate :=
  { kind := g.kind, controls := g.controls, targets := g.targets, params := g.params.map avalAngle,
    paulis := g.paulis }

instance : Num Unit := ⟨(), (), fun _ _ => (), fun _ _ => ()⟩

/-- PauliRotation(ids, φ) on qubits `0..n-1` (or reversed) equals its decomposition, phase included, for all φ -/
def pauliCase (rev : Bool) (ids : List Nat) : Bool :=
  let n := ids.length
  let ts := if rev then (List.range n).reverse else List.range n
  let g : FG Unit := { kind := .PauliRotation, targets := ts, params := [.val ()], paulis := ids }
  match pauliRotDec g with
  | .ok out => SMat.eq (circMat n (out.map fgGate)) ((fgGate g).mat n)
  | .error _ => false

def idVectors : Nat → List (List Nat)
  | 0 => [[]]
  | n + 1 => (idVectors n).flatMap fun v => [1, 2, 3].map fun p => p :: v

/-- expected arms of Rust `bind_parameters_internal`: every kind is rebuilt with its own arguments,
    exactly the angle of RX / RY / RZ / PauliRotation consumes a value -/
def expectedArms : List (String × String × List String) :=
  [("Identity", "Identity", ["copy:q1"]), ("X", "X", ["copy:q1"]), ("Y", "Y", ["copy:q1"]),
   ("Z", "Z", ["copy:q1"]), ("H", "H", ["copy:q1"]), ("S", "S", ["copy:q1"]), ("Sdag", "Sdag", ["copy:q1"]),
   ("SqrtX", "SqrtX", ["copy:q1"]), ("SqrtXdag", "SqrtXdag", ["copy:q1"]), ("SqrtY", "SqrtY", ["copy:q1"]),
   ("SqrtYdag", "SqrtYdag", ["copy:q1"]), ("T", "T", ["copy:q1"]), ("Tdag", "Tdag", ["copy:q1"]),
   ("RX", "RX", ["copy:q1", "bind:p1"]), ("RY", "RY", ["copy:q1", "bind:p1"]), ("RZ", "RZ", ["copy:q1", "bind:p1"]),
   ("U1", "U1", ["copy:q1", "copy:p1"]), ("U2", "U2", ["copy:q1", "copy:p1", "copy:p2"]),
   ("U3", "U3", ["copy:q1", "copy:p1", "copy:p2", "copy:p3"]), ("CNOT", "CNOT", ["copy:q1", "copy:q2"]),
   ("CZ", "CZ", ["copy:q1", "copy:q2"]), ("SWAP", "SWAP", ["copy:q1", "copy:q2"]),
   ("TOFFOLI", "TOFFOLI", ["copy:q1", "copy:q2", "copy:q3"]),
   ("UnitaryMatrix", "UnitaryMatrix", ["copy:q1", "copy:mat"]), ("Pauli", "Pauli", ["copy:q1", "copy:pauli_ids"]),
   ("PauliRotation", "PauliRotation", ["copy:q1", "copy:pauli_ids", "bind:p1"]),
   ("Measurement", "Measurement", ["copy:q1", "copy:c1"]), ("Other", "Other", ["copy:other"])]

end ring

end QV.C10
