/-
  C17 — Noise instructions describe physical channels.

  Executable model of `quri_parts/circuit/noise/noise_instruction.py`:
  every factory is  parameters ↦ Except Err Instr.

  * scalars are `XR` = finite rationals (every finite IEEE double is one) + ±∞ + NaN with the IEEE
    comparison rules (every comparison with NaN is false);
  * arithmetic is parametrised by a rounding function (`Arith`): `exact` (the ordered-field reading
    used by the theorems) and `fp53` (round-to-nearest-even to 53 significant bits: what CPython
    computes, used by the correspondence harness and by the rounding-defect witnesses);
  * the validation statements of a factory are a list of `Guard`s and the closed-form Kraus
    operators a `List KMat` of symbolic entries  coef · ∏ √(radicand)  — both are *data* that the
    translator regenerates from the source (`Generated/C17Data.lean`); the `spec…` values below are
    the hand-written reference the theorems of `Props/C17.lean` are about.

  Import-free; structural recursion only.
-/
namespace QV.C17

/-! ## scalars -/

inductive XR where
  | fin (q : Rat)
  | pinf
  | ninf
  | nan
  deriving DecidableEq, Repr, Inhabited

/-- rounding applied after every arithmetic operation on finite values -/
structure Arith where
  rnd : Rat → Rat

def exact : Arith := ⟨fun q => q⟩

def pow2 (e : Int) : Rat :=
  if 0 ≤ e then ((2 ^ e.toNat : Nat) : Rat) else 1 / ((2 ^ (-e).toNat : Nat) : Rat)

/-- ⌊log₂ q⌋ for q > 0 -/
def floorLog2 (q : Rat) : Int :=
  let e0 : Int := (Nat.log2 q.num.natAbs : Int) - (Nat.log2 q.den : Int)
  if pow2 e0 ≤ q then e0 else e0 - 1

/-- round half to even, x ≥ 0 -/
def rne (x : Rat) : Int :=
  let f := x.floor
  let r := x - (f : Rat)
  if r < 1/2 then f else if 1/2 < r then f + 1 else if f % 2 = 0 then f else f + 1

/-- IEEE-754 binary64 round-to-nearest-even of a rational in the normal range
    (no overflow / subnormal handling: the harness keeps inputs inside the normal range) -/
def round53 (q : Rat) : Rat :=
  if q = 0 then 0 else
  let a := if q < 0 then -q else q
  let e := floorLog2 a
  let u := pow2 (e - 52)
  let m := rne (a / u)
  let r := (m : Rat) * u
  if q < 0 then -r else r

def fp53 : Arith := ⟨round53⟩

namespace XR

def isNaN : XR → Bool
  | nan => true
  | _ => false

def lt : XR → XR → Bool
  | nan, _ => false
  | _, nan => false
  | ninf, ninf => false
  | ninf, _ => true
  | _, ninf => false
  | pinf, _ => false
  | _, pinf => true
  | fin a, fin b => decide (a < b)

def le : XR → XR → Bool
  | nan, _ => false
  | _, nan => false
  | ninf, _ => true
  | _, ninf => false
  | _, pinf => true
  | pinf, _ => false
  | fin a, fin b => decide (a ≤ b)

def beq : XR → XR → Bool
  | nan, _ => false
  | _, nan => false
  | pinf, pinf => true
  | ninf, ninf => true
  | fin a, fin b => decide (a = b)
  | _, _ => false

def neg : XR → XR
  | fin a => fin (-a)
  | pinf => ninf
  | ninf => pinf
  | nan => nan

def add (A : Arith) : XR → XR → XR
  | nan, _ => nan
  | _, nan => nan
  | fin a, fin b => fin (A.rnd (a + b))
  | pinf, ninf => nan
  | ninf, pinf => nan
  | pinf, _ => pinf
  | _, pinf => pinf
  | ninf, _ => ninf
  | _, ninf => ninf

def sub (A : Arith) (a b : XR) : XR := add A a (neg b)

def mulInf (pos : Bool) : XR → XR
  | fin q => if q = 0 then nan else if (0 < q) = pos then pinf else ninf
  | pinf => if pos then pinf else ninf
  | ninf => if pos then ninf else pinf
  | nan => nan

def mul (A : Arith) : XR → XR → XR
  | nan, _ => nan
  | _, nan => nan
  | fin a, fin b => fin (A.rnd (a * b))
  | pinf, b => mulInf true b
  | ninf, b => mulInf false b
  | a, pinf => mulInf true a
  | a, ninf => mulInf false a

/-- `np.sqrt`: NaN on negative input -/
def sqrtDomain : XR → Bool
  | fin q => decide (0 ≤ q)
  | pinf => true
  | _ => false

end XR

/-! ## expression language of the translated validation statements and Kraus entries -/

inductive Expr where
  | num (q : Rat)
  | inf
  | par (i : Nat)
  | add (a b : Expr)
  | sub (a b : Expr)
  | mul (a b : Expr)
  deriving DecidableEq, Repr, Inhabited

inductive BExpr where
  | lt (a b : Expr)
  | le (a b : Expr)
  | gt (a b : Expr)
  | ge (a b : Expr)
  | or (a b : BExpr)
  | and (a b : BExpr)
  | not (a : BExpr)
  deriving DecidableEq, Repr, Inhabited

/-- one validation statement, in source order -/
inductive Guard where
  | prob (e : Expr)          -- `_check_valid_probability(e, …)`
  | raiseIf (c : BExpr)      -- `if c: raise ValueError(…)`
  deriving DecidableEq, Repr, Inhabited

def Expr.eval (A : Arith) (ps : List XR) : Expr → XR
  | .num q => .fin q
  | .inf => .pinf
  | .par i => ps.getD i .nan
  | .add a b => XR.add A (a.eval A ps) (b.eval A ps)
  | .sub a b => XR.sub A (a.eval A ps) (b.eval A ps)
  | .mul a b => XR.mul A (a.eval A ps) (b.eval A ps)

def BExpr.eval (A : Arith) (ps : List XR) : BExpr → Bool
  | .lt a b => XR.lt (a.eval A ps) (b.eval A ps)
  | .le a b => XR.le (a.eval A ps) (b.eval A ps)
  | .gt a b => XR.lt (b.eval A ps) (a.eval A ps)
  | .ge a b => XR.le (b.eval A ps) (a.eval A ps)
  | .or a b => a.eval A ps || b.eval A ps
  | .and a b => a.eval A ps && b.eval A ps
  | .not a => !(a.eval A ps)

inductive Err where
  | valueError
  | typeError
  deriving DecidableEq, Repr, Inhabited

/-- `probCheck` is the translated body of `_check_valid_probability` (condition under which it raises, in `par 0`) -/
def Guard.fails (A : Arith) (probCheck : BExpr) (ps : List XR) : Guard → Bool
  | .prob e => probCheck.eval A [e.eval A ps]
  | .raiseIf c => c.eval A ps

/-- the validation prefix of a factory: `true` = every statement passed -/
def accepts (A : Arith) (probCheck : BExpr) (gs : List Guard) (ps : List XR) : Bool :=
  gs.all fun g => !(g.fails A probCheck ps)

/-- `if x < 0 or x > 1: raise ValueError` -/
def specProbCheck : BExpr := .or (.lt (.par 0) (.num 0)) (.gt (.par 0) (.num 1))

/-! ## Kraus templates -/

/-- entry `coef · ∏ √(rad)`; a structurally-zero entry of a matrix that is multiplied by a scalar
    `√(…)` keeps the scalar's radicands (NumPy: `nan * 0 = nan`) -/
structure Entry where
  coef : Int
  rads : List Expr
  deriving DecidableEq, Repr, Inhabited

abbrev KMat := List (List Entry)

/-- value of an entry as (sign, square) — the model never takes a square root -/
inductive EV where
  | val (neg : Bool) (sq : Rat)     -- ±√sq, sq ≥ 0
  | nan
  | inf (neg : Bool)
  deriving DecidableEq, Repr, Inhabited

def Entry.value (A : Arith) (ps : List XR) (e : Entry) : EV :=
  let rs := e.rads.map (·.eval A ps)
  if rs.all XR.sqrtDomain then
    -- the square of the entry, exact product (the float product is compared with a proven error bound)
    match rs.foldl (XR.mul exact) (.fin ((e.coef * e.coef : Int) : Rat)) with
    | .fin q => .val (decide (e.coef < 0)) q
    | .pinf => .inf (decide (e.coef < 0))
    | _ => .nan
  else .nan

def KMat.value (A : Arith) (ps : List XR) (m : KMat) : List (List EV) :=
  m.map fun row => row.map (Entry.value A ps)


/-! ## completeness of an evaluated 2×2 Kraus set, decided on the squares
    Every closed-form operator of the source has at most one non-zero entry per row, so the off-diagonal
    entries of KᵀK vanish structurally and the diagonal ones are sums of squares — rational numbers. -/

def EV.sq? : EV → Option Rat
  | .val _ sq => if 0 ≤ sq then some sq else none
  | _ => none

/-- diagonal of KᵀK for K = [[a,b],[c,d]] when both rows have a structurally-zero entry -/
def gramQ : List (List EV) → Option (Rat × Rat)
  | [[a, b], [c, d]] =>
    match a.sq?, b.sq?, c.sq?, d.sq? with
    | some a, some b, some c, some d =>
      if (a = 0 ∨ b = 0) ∧ (c = 0 ∨ d = 0) then some (a + c, b + d) else none
    | _, _, _, _ => none
  | _ => none

def gramSumQ : List (List (List EV)) → Option (Rat × Rat)
  | [] => some (0, 0)
  | k :: ks =>
    match gramQ k, gramSumQ ks with
    | some (x, y), some (x', y') => some (x + x', y + y')
    | _, _ => none

/-- Σ KᵀK = 1 -/
def completeQ (ks : List (List (List EV))) : Bool := gramSumQ ks == some (1, 1)


/-! ## templates on finite parameters: symbolic form of Σ KᵀK (no case distinction on signs) -/

/-- evaluation on finite rationals; agrees with `Expr.eval` on `.fin` parameters when `Expr.finite` holds -/
def Expr.evalQ (A : Arith) (ps : List Rat) : Expr → Rat
  | .num q => q
  | .inf => 0
  | .par i => ps.getD i 0
  | .add a b => A.rnd (a.evalQ A ps + b.evalQ A ps)
  | .sub a b => A.rnd (a.evalQ A ps + -(b.evalQ A ps))
  | .mul a b => A.rnd (a.evalQ A ps * b.evalQ A ps)

/-- no `inf` constant and every parameter index below `n` -/
def Expr.finite (n : Nat) : Expr → Bool
  | .num _ => true
  | .inf => false
  | .par i => decide (i < n)
  | .add a b | .sub a b | .mul a b => a.finite n && b.finite n

def tplRads (tpl : List KMat) : List Expr := tpl.flatMap fun m => m.flatMap fun row => row.flatMap (·.rads)

/-- square of an entry: coef² · ∏ radicand -/
def Entry.sqQ (A : Arith) (ps : List Rat) (e : Entry) : Rat :=
  (e.rads.map (·.evalQ A ps)).foldl (· * ·) ((e.coef * e.coef : Int) : Rat)

/-- diagonal of Σ KᵀK, provided every row of every operator has a structurally-zero entry -/
def tplGram (A : Arith) (ps : List Rat) : List KMat → Option (Rat × Rat)
  | [] => some (0, 0)
  | [[a, b], [c, d]] :: ks =>
    if (a.coef = 0 ∨ b.coef = 0) ∧ (c.coef = 0 ∨ d.coef = 0) then
      match tplGram A ps ks with
      | some (x, y) => some (a.sqQ A ps + c.sqQ A ps + x, b.sqQ A ps + d.sqQ A ps + y)
      | none => none
    else none
  | _ :: _ => none

/-! ## factory kinds -/

inductive Kind where
  | bitFlip | phaseFlip | bitPhaseFlip | depolarizing
  | reset | phaseDamping | amplitudeDamping | phaseAmplitudeDamping
  | thermalRelaxation
  deriving DecidableEq, Repr, Inhabited

def Kind.name : Kind → String
  | .bitFlip => "BitFlipNoise" | .phaseFlip => "PhaseFlipNoise" | .bitPhaseFlip => "BitPhaseFlipNoise"
  | .depolarizing => "DepolarizingNoise" | .reset => "ResetNoise" | .phaseDamping => "PhaseDampingNoise"
  | .amplitudeDamping => "AmplitudeDampingNoise" | .phaseAmplitudeDamping => "PhaseAmplitudeDampingNoise"
  | .thermalRelaxation => "ThermalRelaxationNoise"

def Kind.all : List Kind :=
  [.bitFlip, .phaseFlip, .bitPhaseFlip, .depolarizing, .reset, .phaseDamping, .amplitudeDamping,
   .phaseAmplitudeDamping, .thermalRelaxation]

def Kind.ofName? (s : String) : Option Kind := Kind.all.find? fun k => k.name == s

def Kind.arity : Kind → Nat
  | .bitFlip | .phaseFlip | .bitPhaseFlip | .depolarizing | .phaseDamping => 1
  | .reset | .amplitudeDamping => 2
  | .phaseAmplitudeDamping => 3
  | .thermalRelaxation => 4

def Kind.isFlip : Kind → Bool
  | .bitFlip | .phaseFlip | .bitPhaseFlip | .depolarizing => true
  | _ => false


/-! ## documented parameter ranges (the specification side of `rejects_iff`) -/

def XR.isProb : XR → Bool
  | .fin q => decide (0 ≤ q ∧ q ≤ 1)
  | _ => false

/-- strictly positive, `+∞` allowed (relaxation times) -/
def XR.isPosTime : XR → Bool
  | .fin q => decide (0 < q)
  | .pinf => true
  | _ => false

/-- the documented valid range of each scalar factory -/
def Kind.inRange : Kind → List XR → Bool
  | .bitFlip, [x] | .phaseFlip, [x] | .bitPhaseFlip, [x] | .depolarizing, [x] | .phaseDamping, [x] => x.isProb
  | .reset, [.fin a, .fin b] => decide (0 ≤ a ∧ 0 ≤ b ∧ a + b ≤ 1)
  | .amplitudeDamping, [x, y] => x.isProb && y.isProb
  | .phaseAmplitudeDamping, [.fin a, .fin b, s] => decide (0 ≤ a ∧ 0 ≤ b ∧ a + b ≤ 1) && s.isProb
  | .thermalRelaxation, [t1, t2, t, s] =>
      s.isProb && t1.isPosTime && t2.isPosTime
      && (match t with | .fin q => decide (0 ≤ q) | .pinf => true | _ => false)
      && (match t1, t2 with
          | .pinf, _ => true
          | .fin a, .fin b => decide (b ≤ 2 * a)
          | _, _ => false)
  | _, _ => false

def noNaN (ps : List XR) : Bool := ps.all fun x => !x.isNaN

/-! ### reference (spec) validation and templates: what the documented ranges require. -/

abbrev p (i : Nat) : Expr := .par i
abbrev one : Expr := .num 1
abbrev zero : Expr := .num 0

def specGuards : Kind → List Guard
  | .bitFlip | .phaseFlip | .bitPhaseFlip | .depolarizing => [.prob (p 0)]
  | .reset => [.prob (p 0), .prob (p 1), .raiseIf (.gt (.add (p 0) (p 1)) one)]
  | .phaseDamping => [.prob (p 0)]
  | .amplitudeDamping => [.prob (p 0), .prob (p 1)]
  | .phaseAmplitudeDamping => [.prob (p 0), .prob (p 1), .raiseIf (.gt (.add (p 0) (p 1)) one), .prob (p 2)]
  | .thermalRelaxation =>
      [.prob (p 3), .raiseIf (.lt (p 2) zero), .raiseIf (.le (p 0) zero), .raiseIf (.le (p 1) zero),
       .raiseIf (.gt (p 1) (.mul (.num 2) (p 0)))]

/-- the validation the source performs (since the repair 3056bcf the four flip factories validate `error_prob`
    like every other factory, so this is the reference validation) -/
def codeGuards : Kind → List Guard := specGuards

abbrev e0 : Entry := ⟨0, []⟩
abbrev e1 : Entry := ⟨1, []⟩
abbrev sq (rs : List Expr) : Entry := ⟨1, rs⟩
abbrev z (rs : List Expr) : Entry := ⟨0, rs⟩

/-- closed-form Kraus operators (parameters in the order of the factory signature) -/
def specKraus : Kind → List KMat
  | .reset =>
      let r := Expr.sub (.sub one (p 0)) (p 1)
      [ [[sq [r], z [r]], [z [r], sq [r]]],
        [[sq [p 0], z [p 0]], [z [p 0], z [p 0]]],
        [[z [p 0], sq [p 0]], [z [p 0], z [p 0]]],
        [[z [p 1], z [p 1]], [sq [p 1], z [p 1]]],
        [[z [p 1], z [p 1]], [z [p 1], sq [p 1]]] ]
  | .phaseDamping =>
      [ [[e1, e0], [e0, sq [.sub one (p 0)]]],
        [[e0, e0], [e0, sq [p 0]]] ]
  | .amplitudeDamping =>
      let g := Expr.sub one (p 1)      -- 1 - esp
      let r := Expr.sub one (p 0)      -- 1 - rate
      [ [[sq [g], z [g]], [z [g], sq [g, r]]],
        [[z [g], sq [g, p 0]], [z [g], z [g]]],
        [[sq [p 1, r], z [p 1]], [z [p 1], sq [p 1]]],
        [[z [p 1], z [p 1]], [sq [p 1, p 0], z [p 1]]] ]
  | .phaseAmplitudeDamping =>
      -- parameters: 0 = phase rate, 1 = amplitude rate, 2 = excited-state population
      let g := Expr.sub one (p 2)
      let r := Expr.sub (.sub one (p 1)) (p 0)   -- 1 - arate - prate
      [ [[sq [g], z [g]], [z [g], sq [g, r]]],
        [[z [g], sq [g, p 1]], [z [g], z [g]]],
        [[z [g], z [g]], [z [g], sq [g, p 0]]],
        [[sq [p 2, r], z [p 2]], [z [p 2], sq [p 2]]],
        [[z [p 2], z [p 2]], [sq [p 2, p 1], z [p 2]]],
        [[sq [p 2, p 0], z [p 2]], [z [p 2], z [p 2]]] ]
  | _ => []

/-! ## result record -/

structure Instr where
  name : String
  qubitCount : Nat
  params : List XR
  pauliList : List (List Nat) := []
  probList : List XR := []
  kraus : List (List (List EV)) := []
  gateMatrices : List (List (List Rat)) := []
  deriving Repr, Inhabited

/-- facts read from the source / the environment that decide whether the thermal-relaxation factory can
    hand its Kraus operators to `GateNoiseInstruction` -/
structure ThermalCfg where
  usesGeneralEig : Bool     -- `la.eig` (not `eigh`) and no `.real` projection   [Python source]
  krausFieldReal : Bool     -- `kraus_operators: Vec<Vec<Vec<f64>>>`              [Rust source]
  eigReturnsComplex : Bool  -- installed NumPy returns complex128 from `la.eig`   [environment probe]
  deriving DecidableEq, Repr, Inhabited

def ThermalCfg.typeError (c : ThermalCfg) : Bool :=
  c.usesGeneralEig && c.krausFieldReal && c.eigReturnsComplex

/-- scalar-parameter factories. For `thermalRelaxation` the Kraus operators come from a numerical matrix
    square root and are not part of the model (`kraus := []`); only accept / reject / TypeError is. -/
def scalarFactory (A : Arith) (probCheck : BExpr) (guards : Kind → List Guard) (tpl : Kind → List KMat)
    (tc : ThermalCfg) (k : Kind) (ps : List XR) : Except Err Instr :=
  if ps.length ≠ k.arity then .error .typeError
  else if !(accepts A probCheck (guards k) ps) then .error .valueError
  else if k = .thermalRelaxation && tc.typeError then .error .typeError
  else .ok { name := k.name, qubitCount := 1, params := ps, kraus := (tpl k).map (KMat.value A ps) }

/-! ## flip kinds: mixture the Qulacs conversion builds (assumed backend semantics, validated by the harness)
    weights in the order I, X, Y, Z -/
def flipWeights (k : Kind) (q : Rat) : List Rat :=
  match k with
  | .bitFlip => [1 - q, q, 0, 0]
  | .phaseFlip => [1 - q, 0, 0, q]
  | .bitPhaseFlip => [(1 - q) * (1 - q), q * (1 - q), q * q, q * (1 - q)]   -- Qulacs IndependentXZNoise
  | .depolarizing => [1 - q, q / 3, q / 3, q / 3]
  | _ => []

/-! ## list-parameter factories -/

def sumXR (A : Arith) (xs : List XR) : XR := xs.foldl (XR.add A) (.fin 0)

/-- `_check_valid_qubit_indices` : raises iff indices given, multi-qubit and length mismatch -/
def qubitIndicesBad (qubitCount : Nat) (nIndices : Nat) : Bool :=
  nIndices ≠ 0 && decide (1 < qubitCount) && nIndices ≠ qubitCount

/-- all prob in [0,1] (translated check) and `sum(prob_list) - 1.0 > eq_tolerance` not raised.
    Python ≥ 3.12 `sum` of floats is compensated: modelled as ONE rounding of the exact sum
    (exact for the dyadic inputs of the harness; documented assumption). -/
def finVals : List XR → Option (List Rat)
  | [] => some []
  | .fin q :: xs => (finVals xs).map (q :: ·)
  | _ :: _ => none

def pySum (A : Arith) (xs : List XR) : XR :=
  match finVals xs with
  | some qs => .fin (A.rnd qs.sum)
  | none => sumXR A xs

def probListOk (A : Arith) (probCheck : BExpr) (tol : XR) (probs : List XR) : Bool :=
  probs.all (fun x => !(probCheck.eval A [x])) && !(XR.lt tol (XR.sub A (pySum A probs) (.fin 1)))

/-- `PauliNoise` -/
def pauliNoise (A : Arith) (probCheck : BExpr) (name : String) (paulis : List (List Nat)) (probs : List XR)
    (nIndices : Nat) (tol : XR) : Except Err Instr :=
  if paulis.isEmpty then .error .valueError
  else if probs.isEmpty then .error .valueError
  else if paulis.length ≠ probs.length then .error .valueError
  else if !(probListOk A probCheck tol probs) then .error .valueError
  else if paulis.any (fun r => r.any (fun i => decide (3 < i))) then .error .valueError
  else
    let n := (paulis.headD []).length
    if paulis.any (fun r => r.length ≠ n) then .error .valueError
    else if qubitIndicesBad n nIndices then .error .valueError
    else .ok { name := name, qubitCount := n, params := [], pauliList := paulis, probList := probs }

/-- `itertools.product([0,1,2,3], repeat=n)` in lexicographic order -/
def pauliProduct : Nat → List (List Nat)
  | 0 => [[]]
  | n + 1 => [0, 1, 2, 3].flatMap fun a => (pauliProduct n).map fun r => a :: r

def xrDiv (A : Arith) : XR → Rat → XR
  | .fin a, d => if d = 0 then .nan else .fin (A.rnd (a / d))
  | x, d => if d = 0 then .nan else if 0 < d then x else XR.neg x

/-- the probability list `GeneralDepolarizingNoise` hands to `PauliNoise` -/
def generalDepolProbs (A : Arith) (x : XR) (n : Nat) : List XR :=
  let terms := 4 ^ n
  XR.sub A (.fin 1) x :: List.replicate (terms - 1) (xrDiv A x ((terms - 1 : Nat) : Rat))

def generalDepolarizing (A : Arith) (probCheck : BExpr) (x : XR) (n : Nat) (nIndices : Nat) : Except Err Instr :=
  if n = 0 then .error .valueError
  else if probCheck.eval A [x] then .error .valueError
  else if qubitIndicesBad n nIndices then .error .valueError
  else pauliNoise A probCheck "GeneralDepolarizingNoise" (pauliProduct n) (generalDepolProbs A x n) nIndices
         (.fin (1 / 100000000))

/-- shape test of `_is_aligned_square_matrices` + `log2(len).is_integer()`:
    returns the qubit count when every matrix is d×d with the same d = 2^n ≥ 2 -/
def log2Exact (d : Nat) : Option Nat :=
  let l := Nat.log2 d
  if 2 ^ l = d then some l else none

def matricesQubitCount (ms : List (List (List Rat))) : Option Nat :=
  let d := (ms.headD []).length
  if 2 ≤ d && ms.all (fun m => m.length = d && m.all (fun r => r.length = d)) then log2Exact d else none

def identityMat (d : Nat) : List (List Rat) :=
  (List.range d).map fun i => (List.range d).map fun j => if i = j then 1 else 0

/-- `ProbabilisticNoise` -/
def probabilisticNoise (A : Arith) (probCheck : BExpr) (ms : List (List (List Rat))) (probs : List XR)
    (nIndices : Nat) (tol : XR) : Except Err Instr :=
  if ms.isEmpty then .error .valueError
  else if probs.isEmpty then .error .valueError
  else if ms.length ≠ probs.length then .error .valueError
  else if !(probListOk A probCheck tol probs) then .error .valueError
  else match matricesQubitCount ms with
    | none => .error .valueError
    | some n =>
      let s := pySum A probs
      let (pl, dl) := if XR.lt s (.fin 1) then (probs ++ [XR.sub A (.fin 1) s], ms ++ [identityMat (2 ^ n)])
                      else (probs, ms)
      if qubitIndicesBad n nIndices then .error .valueError
      else .ok { name := "ProbabilisticNoise", qubitCount := n, params := [], probList := pl, gateMatrices := dl }

/-- `KrausNoise`: shape checks only -/
def krausNoise (ms : List (List (List Rat))) (nIndices : Nat) : Except Err Instr :=
  if ms.isEmpty then .error .valueError
  else match matricesQubitCount ms with
    | none => .error .valueError
    | some n =>
      if qubitIndicesBad n nIndices then .error .valueError
      else .ok { name := "KrausNoise", qubitCount := n, params := [],
                 kraus := ms.map fun m => m.map fun r => r.map fun q => EV.val (decide (q < 0)) (q * q) }


/-- MᵀM = 1 for a rational square matrix (a real gate matrix is a valid mixture component iff it is orthogonal) -/
def isOrthogonalQ (m : List (List Rat)) : Bool :=
  let d := m.length
  (List.range d).all fun j => (List.range d).all fun l =>
    ((m.map fun row => row.getD j 0 * row.getD l 0).sum == (if j = l then 1 else 0 : Rat))

/-! ## thermal relaxation: the Choi matrix the factory builds, as a function of
    a = p_reset = 1 - exp(-t/T1),  e = exp(-t/T2),  s = excited_state_population -/
def thermalChoi (a e s : Rat) : List (List Rat) :=
  let p0 := 1 - s
  let p1 := s
  [ [1 - p1 * a, 0, 0, e],
    [0, p1 * a, 0, 0],
    [0, 0, p0 * a, 0],
    [e, 0, 0, 1 - p0 * a] ]

end QV.C17
