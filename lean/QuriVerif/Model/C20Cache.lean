/-
  C20 (second part) — content-keyed caches (`CachedMeasurementFactory`, qulacs `convert_operator`).

  Operators are mutable dictionaries (label ↦ coefficient).  A cache lookup takes a snapshot of the
  operator's items (`frozenset(op.items())`) as the key; the cached value is whatever the underlying
  computation returned for the operator that created the entry.  The model is parametric in that
  computation (`compute`), so the theorem in Props/C20.lean holds for every cached function.
  Import-free; structural recursion only.
-/
namespace QV.C20.Cache

/-- dictionary content in insertion order (keys are distinct) -/
abbrev Content := List (Nat × Int)

/-- how the cache key is derived from the operator that is passed in -/
inductive KeyShape | frozenItems | labelsOnly | objectId
deriving DecidableEq, Repr

def leItem (a b : Nat × Int) : Bool := a.1 < b.1 || (a.1 == b.1 && a.2 ≤ b.2)

def insertSorted (x : Nat × Int) : Content → Content
  | [] => [x]
  | y :: ys => if x == y then y :: ys else if leItem x y then x :: y :: ys else y :: insertSorted x ys

/-- `frozenset(items)`: order-free canonical form -/
def canon (c : Content) : Content := c.foldr insertSorted []

def keyOf (sh : KeyShape) (h : Nat) (c : Content) : Content :=
  match sh with
  | .frozenItems => canon c
  | .labelsOnly => canon (c.map fun e => (e.1, 0))
  | .objectId => [(h, 0)]

/-- `op[label] = coef` -/
def setItem (c : Content) (l : Nat) (v : Int) : Content :=
  if c.any (fun e => e.1 == l) then c.map (fun e => if e.1 == l then (l, v) else e) else c ++ [(l, v)]
def delItem (c : Content) (l : Nat) : Content := c.filter (fun e => e.1 != l)

inductive COp
  | new
  | set (h : Nat) (l : Nat) (v : Int)
  | del (h : Nat) (l : Nat)
  | copy (h : Nat)
  /-- cache lookup with operator `h` and extra key component `n` (qubit count) -/
  | get (h : Nat) (n : Nat)
deriving DecidableEq, Repr

structure Entry (ρ : Type) where
  key : Content
  n : Nat
  res : ρ
  /-- ghost: the content the entry was computed on (not used by lookups) -/
  src : Content

structure CSt (ρ : Type) where
  ops : List Content
  cache : List (Entry ρ)

def CSt.init {ρ : Type} : CSt ρ := ⟨[], []⟩

inductive COut (ρ : Type)
  | none
  | res (r : ρ) (hit : Bool)

def setAt (xs : List Content) (i : Nat) (c : Content) : List Content :=
  match xs, i with
  | [], _ => []
  | _ :: xs, 0 => c :: xs
  | x :: xs, i + 1 => x :: setAt xs i c

def findEntry {ρ : Type} (k : Content) (n : Nat) : List (Entry ρ) → Option (Entry ρ)
  | [] => none
  | e :: es => if e.key == k && e.n == n then some e else findEntry k n es

def cstepWith {ρ : Type} (sh : KeyShape) (compute : Content → Nat → ρ) (s : CSt ρ) : COp → CSt ρ × COut ρ
  | .new => ({ s with ops := s.ops ++ [[]] }, .none)
  | .set h l v => ({ s with ops := setAt s.ops h (setItem (s.ops.getD h []) l v) }, .none)
  | .del h l => ({ s with ops := setAt s.ops h (delItem (s.ops.getD h []) l) }, .none)
  | .copy h => if h < s.ops.length then ({ s with ops := s.ops ++ [s.ops.getD h []] }, .none) else (s, .none)
  | .get h n =>
    if h < s.ops.length then
      let c := s.ops.getD h []
      let k := keyOf sh h c
      match findEntry k n s.cache with
      | some e => (s, .res e.res true)
      | none => let r := compute c n
        ({ s with cache := ⟨k, n, r, c⟩ :: s.cache }, .res r false)
    else (s, .none)

def crunWith {ρ : Type} (sh : KeyShape) (compute : Content → Nat → ρ) (s : CSt ρ) : List COp → CSt ρ × List (COut ρ)
  | [] => (s, [])
  | op :: ops =>
    let r := cstepWith sh compute s op
    let r' := crunWith sh compute r.1 ops
    (r'.1, r.2 :: r'.2)

/-- the caches as written: keyed by the frozen item set -/
def cstep {ρ : Type} := @cstepWith ρ .frozenItems
def crun {ρ : Type} := @crunWith ρ .frozenItems

end QV.C20.Cache
