/-
  C04 — Exact estimators return the true expectation value (model of the LOGIC).

  Mirrors
    packages/qulacs/quri_parts/qulacs/operator/__init__.py   convert_operator + `_operator_cache`
    packages/stim/quri_parts/stim/operator/__init__.py       convert_operator, `_pauli_indices`
    packages/qulacs/quri_parts/qulacs/estimator.py           `_estimate`, `_sequential_estimate_single_state`,
                                                             `_concurrent_estimate`, `_sequential_parametric_estimate`
    packages/stim/quri_parts/stim/estimator/__init__.py      `_concurrent_estimate`
    packages/core/quri_parts/core/estimator/__init__.py      create_concurrent_estimator_from_estimator,
                                                             GeneralQuantumEstimator.__call__
    packages/qulacs/quri_parts/qulacs/circuit/__init__.py    convert_parametric_circuit (param_mapper)
    packages/qulacs/quri_parts/qulacs/circuit/compiled_circuit.py   `.qulacs_circuit` (per-call copy)
    packages/core/quri_parts/core/operator/sparse.py         get_sparse_matrix

  Numbers.  Coefficients are complex fixed-point numbers in units of 1/`scale` (= 1/16): `Coef ⟨16,0⟩` is 1.0.
  Parameter values and linear-mapping coefficients are integers in a grid unit chosen by the harness.
  The backend's expectation value of one Pauli label on one state is an abstract real `ev st l : Int`
  (trusted base: `GeneralQuantumOperator.get_expectation_value`, `peek_observable_expectation`).

  A Python `dict` is the list of its items in insertion order (distinct keys).
  Import-free; structural recursion / `List.foldl` only.
-/
namespace QV.C04

instance decEqExcept {ε α : Type} [DecidableEq ε] [DecidableEq α] : DecidableEq (Except ε α) := fun a b =>
  match a, b with
  | .ok x, .ok y => if h : x = y then isTrue (by rw [h]) else isFalse (fun e => h (by cases e; rfl))
  | .error x, .error y => if h : x = y then isTrue (by rw [h]) else isFalse (fun e => h (by cases e; rfl))
  | .ok _, .error _ => isFalse (fun e => by cases e)
  | .error _, .ok _ => isFalse (fun e => by cases e)

/-! ## 1. Operators -/

/-- `PauliLabel`: list of (qubit index, Pauli id) with X=1, Y=2, Z=3, distinct qubits, canonical order -/
abbrev Label := List (Nat × Nat)

structure Coef where
  re : Int
  im : Int
  deriving DecidableEq, Repr, Inhabited

/-- fixed-point denominator of coefficients -/
def scale : Int := 16

namespace Coef
def zero : Coef := ⟨0, 0⟩
/-- the coefficient `1.0` used for a bare `PauliLabel` -/
def one : Coef := ⟨scale, 0⟩
def add (a b : Coef) : Coef := ⟨a.re + b.re, a.im + b.im⟩
/-- real scalar multiple -/
def smul (k : Int) (a : Coef) : Coef := ⟨k * a.re, k * a.im⟩
end Coef

abbrev Term := Label × Coef

/-- `Estimatable = Union[Operator, PauliLabel]`; an `Operator` is a dict label ↦ coefficient -/
inductive Estimatable where
  | label (l : Label)
  | op (items : List Term)
  deriving DecidableEq, Repr

/-- `[(operator, 1)]` resp. `operator.items()` -/
def items : Estimatable → List Term
  | .label l => [(l, Coef.one)]
  | .op ts => ts

/-- `operator == zero()` : a `PauliLabel` (frozenset) never equals an `Operator` (dict) -/
def isZero : Estimatable → Bool
  | .label _ => false
  | .op ts => ts.isEmpty

/-! ### canonical form of `frozenset(operator.items())` : sorted item list -/

def encodeTerm (t : Term) : List Int :=
  t.2.re :: t.2.im :: (t.1.length : Int) :: t.1.flatMap (fun x => [(x.1 : Int), (x.2 : Int)])

def lexLe : List Int → List Int → Bool
  | [], _ => true
  | _ :: _, [] => false
  | a :: as, b :: bs => if a < b then true else if b < a then false else lexLe as bs

def termLe (a b : Term) : Bool := lexLe (encodeTerm a) (encodeTerm b)

def insertSorted (t : Term) : List Term → List Term
  | [] => [t]
  | x :: xs => if termLe t x then t :: x :: xs else x :: insertSorted t xs

def isort : List Term → List Term
  | [] => []
  | x :: xs => insertSorted x (isort xs)

/-- the cache key `(op_key, n_qubits)` -/
structure Key where
  terms : List Term
  nq : Nat
  deriving DecidableEq, Repr

def keyOf (e : Estimatable) (n : Nat) : Key := ⟨isort (items e), n⟩

/-! ## 2. Operator conversion with a content-keyed cache -/

/-- `GeneralQuantumOperator(n)` after `add_operator` calls / the stim `(PauliString, coef)` list:
    the terms in the order they were added -/
structure BackendOp where
  nq : Nat
  terms : List Term
  deriving DecidableEq, Repr

abbrev Cache := List (Key × BackendOp)

def cacheGet : Cache → Key → Option BackendOp
  | [], _ => none
  | (k, b) :: r, q => if k = q then some b else cacheGet r q

inductive ConvErr where
  /-- qulacs `add_operator` / stim `pauli_indices[index] = pauli` with `index ≥ n_qubits` -/
  | indexError
  deriving DecidableEq, Repr

def labelInRange (n : Nat) (l : Label) : Bool := l.all (fun x => x.1 < n)

def build (e : Estimatable) (n : Nat) : BackendOp := ⟨n, items e⟩

structure ConvOut where
  cache : Cache
  op : BackendOp
  hit : Bool
  deriving DecidableEq, Repr

/-- `convert_operator(operator, n_qubits)` : look the key up first; otherwise build term by term
    (an out-of-range index raises before anything is stored) and store. -/
def convert (c : Cache) (e : Estimatable) (n : Nat) : Except ConvErr ConvOut :=
  match cacheGet c (keyOf e n) with
  | some b => .ok ⟨c, b, true⟩
  | none =>
    if (items e).all (fun t => labelInRange n t.1) then
      .ok ⟨c ++ [(keyOf e n, build e n)], build e n, false⟩
    else .error .indexError

/-- stim `_pauli_indices(label, qubit_count)` : `pauli_indices[index] = pauli` on `[0] * qubit_count`,
    truncated after the largest index (`none` = IndexError) -/
def stimIndices (l : Label) (n : Nat) : Option (List Nat) :=
  if labelInRange n l then
    let full := l.foldl (fun acc x => acc.set x.1 x.2) (List.replicate n 0)
    let mx := l.foldl (fun m x => max m x.1) 0
    some (full.take (mx + 1))
  else none

/-- Pauli id on qubit `q` (0 = identity) -/
def Label.get : Label → Nat → Nat
  | [], _ => 0
  | (b, p) :: t, q => if b = q then p else Label.get t q

/-! ## 3. Values -/

/-- Σ coef · ⟨P⟩ for the terms of a backend operator, in stored order -/
def expectTerms (ev : Label → Int) : List Term → Coef
  | [] => Coef.zero
  | t :: ts => Coef.add (Coef.smul (ev t.1) t.2) (expectTerms ev ts)

/-- `_Estimate(value, error=0.0)` -/
structure Estimate where
  value : Coef
  error : Int
  deriving DecidableEq, Repr

/-- what every exact estimator is documented to return: ⟨ψ|O|ψ⟩ with error 0, no cache involved -/
def specEstimate {σ : Type} (ev : σ → Label → Int) (e : Estimatable) (st : σ) : Estimate :=
  ⟨expectTerms (ev st) (items e), 0⟩

/-- `_estimate(operator, state)` (qulacs vector / density matrix / stim): early exit for `zero()` -/
def estimateOne {σ : Type} (ev : σ → Label → Int) (nq : σ → Nat) (c : Cache) (e : Estimatable) (st : σ) :
    Except ConvErr (Cache × Estimate) :=
  if isZero e then .ok (c, ⟨Coef.zero, 0⟩)
  else
    match convert c e (nq st) with
    | .ok o => .ok (o.cache, ⟨expectTerms (ev st) o.op.terms, 0⟩)
    | .error x => .error x

/-- `_sequential_estimate_single_state(state, operators)` : no `zero()` test, every operator converted -/
def estimateSingleState {σ : Type} (ev : σ → Label → Int) (nq : σ → Nat) (st : σ) :
    Cache → List Estimatable → Except ConvErr (Cache × List Estimate)
  | c, [] => .ok (c, [])
  | c, e :: es =>
    match convert c e (nq st) with
    | .error x => .error x
    | .ok o =>
      match estimateSingleState ev nq st o.cache es with
      | .error x => .error x
      | .ok (c', rs) => .ok (c', ⟨expectTerms (ev st) o.op.terms, 0⟩ :: rs)

/-- `_sequential_estimate(_, op_state_tuples)` -/
def estimatePairs {σ : Type} (ev : σ → Label → Int) (nq : σ → Nat) :
    Cache → List (Estimatable × σ) → Except ConvErr (Cache × List Estimate)
  | c, [] => .ok (c, [])
  | c, (e, st) :: ps =>
    match estimateOne ev nq c e st with
    | .error x => .error x
    | .ok (c1, r) =>
      match estimatePairs ev nq c1 ps with
      | .error x => .error x
      | .ok (c2, rs) => .ok (c2, r :: rs)

/-! ## 4. Batch dispatch -/

inductive BatchErr where
  | noOperator   -- ValueError("No operator specified.")
  | noState      -- ValueError("No state specified.")
  | mismatch     -- ValueError("Number of operators (..) does not match number of states (..)")
  deriving DecidableEq, Repr

inductive Path where
  | singleState
  | pairs
  deriving DecidableEq, Repr

/-- `_concurrent_estimate` of qulacs/estimator.py and stim/estimator (identical text): which worker is used and
    which (operator index, state index) pairs it receives, in order -/
def dispatch (numOps numStates : Nat) : Except BatchErr (Path × List (Nat × Nat)) :=
  if numOps = 0 then .error .noOperator
  else if numStates = 0 then .error .noState
  else if 1 < numOps ∧ 1 < numStates ∧ numOps ≠ numStates then .error .mismatch
  else if numStates = 1 then .ok (.singleState, (List.range numOps).map (fun i => (i, 0)))
  else
    let ops := if numOps = 1 then List.replicate numStates 0 else List.range numOps
    .ok (.pairs, ops.zip (List.range numStates))

/-- `create_concurrent_estimator_from_estimator` (core): both broadcasts, then `zip` -/
def coreDispatch (numOps numStates : Nat) : Except BatchErr (List (Nat × Nat)) :=
  if numOps = 0 then .error .noOperator
  else if numStates = 0 then .error .noState
  else if 1 < numOps ∧ 1 < numStates ∧ numOps ≠ numStates then .error .mismatch
  else
    let states := if numStates = 1 then List.replicate numOps 0 else List.range numStates
    let ops := if numOps = 1 then List.replicate numStates 0 else List.range numOps
    .ok (ops.zip states)

/-- the documented broadcasting: result `i` is for operator `i` (or the only one) and state `i` (or the only one) -/
def pairIdx (numOps numStates i : Nat) : Nat × Nat :=
  (if numOps = 1 then 0 else i, if numStates = 1 then 0 else i)

inductive EstErr where
  | batch (e : BatchErr)
  | conv (e : ConvErr)
  deriving DecidableEq, Repr

def liftConv {α : Type} : Except ConvErr α → Except EstErr α
  | .ok a => .ok a
  | .error e => .error (.conv e)

/-- pick the operands of the index pairs (indices are in range by construction of `dispatch`) -/
def pick {σ : Type} (ops : List Estimatable) (states : List σ) (dflt : σ) (ps : List (Nat × Nat)) :
    List (Estimatable × σ) :=
  ps.map (fun p => (ops.getD p.1 (.op []), states.getD p.2 dflt))

/-- a concurrent estimator of the qulacs / stim shape (executor = None) -/
def concurrentEstimate {σ : Type} (ev : σ → Label → Int) (nq : σ → Nat) (dflt : σ)
    (c : Cache) (ops : List Estimatable) (states : List σ) : Except EstErr (Cache × List Estimate) :=
  match dispatch ops.length states.length with
  | .error e => .error (.batch e)
  | .ok (.singleState, ps) =>
      liftConv (estimateSingleState ev nq (states.getD 0 dflt) c (ps.map (fun p => ops.getD p.1 (.op []))))
  | .ok (.pairs, ps) => liftConv (estimatePairs ev nq c (pick ops states dflt ps))

/-- the core-lifted concurrent estimator over `_estimate` -/
def coreConcurrentEstimate {σ : Type} (ev : σ → Label → Int) (nq : σ → Nat) (dflt : σ)
    (c : Cache) (ops : List Estimatable) (states : List σ) : Except EstErr (Cache × List Estimate) :=
  match coreDispatch ops.length states.length with
  | .error e => .error (.batch e)
  | .ok ps => liftConv (estimatePairs ev nq c (pick ops states dflt ps))

/-! ## 5. `GeneralQuantumEstimator.__call__` -/

inductive OpArg where
  | single            -- an `Operator` or a `PauliLabel`
  | seq (k : Nat)     -- a sequence of k of them
  deriving DecidableEq, Repr

inductive StateArg where
  | single
  | seq (m : Nat)
  deriving DecidableEq, Repr

/-- the `param` argument: absent, or an iterable whose first element (if any) is / is not itself iterable -/
inductive ParamArg where
  | none
  | empty
  | flat (len : Nat)      -- len ≥ 1 numbers
  | nested (cnt : Nat)    -- cnt ≥ 1 parameter vectors
  deriving DecidableEq, Repr

inductive Call where
  | estimator
  | concurrent (numOps numStates : Nat)
  | parametric
  | concurrentParametric (cnt : Nat)
  deriving DecidableEq, Repr

inductive GenErr where
  | assertion
  | stopIteration
  deriving DecidableEq, Repr

def generalCall : OpArg → StateArg → ParamArg → Except GenErr Call
  | .single, .seq m, .none => .ok (.concurrent 1 m)
  | .single, .single, .none => .ok .estimator
  | .seq k, .seq m, .none => .ok (.concurrent k m)
  | .seq k, .single, .none => .ok (.concurrent k 1)
  | _, .seq _, _ => .error .assertion           -- assert not isinstance(state, Sequence)
  | .seq _, .single, _ => .error .assertion     -- assert isinstance(op, Operator) or isinstance(op, PauliLabel)
  | .single, .single, .empty => .error .stopIteration   -- next(iter(param)) on an empty iterable
  | .single, .single, .nested cnt => .ok (.concurrentParametric cnt)
  | .single, .single, .flat _ => .ok .parametric

/-! ## 6. Parametric circuits -/

/-- an affine function of the circuit's input parameters -/
structure Lin where
  coefs : List Int
  const : Int
  deriving DecidableEq, Repr

def dot : List Int → List Int → Int
  | a :: as, b :: bs => a * b + dot as bs
  | _, _ => 0

def Lin.eval (f : Lin) (p : List Int) : Int := dot f.coefs p + f.const

/-- a parametric circuit seen through its parametric gates (in gate order):
    `unbound k` = `ParametricQuantumCircuit` with k parametric gates, gate i takes parameter i;
    `linear k outs` = `LinearMappedParametricQuantumCircuit` with k input parameters, gate i takes `outs[i]` -/
inductive PCirc where
  | unbound (count : Nat)
  | linear (inCount : Nat) (outs : List Lin)
  deriving DecidableEq, Repr

def PCirc.gateCount : PCirc → Nat
  | .unbound k => k
  | .linear _ outs => outs.length

def PCirc.paramCount : PCirc → Nat
  | .unbound k => k
  | .linear k _ => k

inductive PErr where
  | valueError
  | indexError
  | keyError
  deriving DecidableEq, Repr

/-- `ParameterMappingBase.seq_mapper` -/
def seqMapper (inCount : Nat) (outs : List Lin) (p : List Int) : Except PErr (List Int) :=
  if p.length ≠ inCount then .error .valueError else .ok (outs.map (fun f => f.eval p))

/-- `param_mapper` returned by `convert_parametric_circuit` -/
def qulacsMapper : PCirc → List Int → Except PErr (List Int)
  | .unbound _, p => .ok (p.map (fun x => -x))
  | .linear k outs, p =>
    match seqMapper k outs p with
    | .ok v => .ok (v.map (fun x => -x))
    | .error e => .error e

/-- `for i, v in enumerate(vals): qulacs_circuit.set_parameter(i, v)` on a circuit holding `angles` -/
def setParams : List Int → List Int → Except PErr (List Int)
  | angles, [] => .ok angles
  | [], _ :: _ => .error .indexError
  | _ :: as, v :: vs =>
    match setParams as vs with
    | .ok r => .ok (v :: r)
    | .error e => .error e

/-- backend angles used by `_sequential_parametric_estimate` for one parameter vector:
    a fresh (or freshly copied) backend circuit has every parametric angle 0 -/
def parametricBackendAngles (pc : PCirc) (p : List Int) : Except PErr (List Int) :=
  match qulacsMapper pc p with
  | .ok v => setParams (List.replicate pc.gateCount 0) v
  | .error e => .error e

/-- does the function mention (with a non-zero coefficient) an input parameter of index ≥ len (and < k)? -/
def Lin.needs (f : Lin) (k len : Nat) : Bool := ((f.coefs.take k).drop len).any (fun c => c != 0)

/-- `bind_parameters(p)` : the angles of the bound rotation gates, in gate order.
    `ParametricQuantumCircuit.bind_parameters` checks the length; the linear-mapped one
    zips `in_params` with `p`: surplus values are ignored, and a missing value is a KeyError
    only when some gate's function mentions that parameter. -/
def bindAngles : PCirc → List Int → Except PErr (List Int)
  | .unbound k, p => if p.length ≠ k then .error .valueError else .ok p
  | .linear k outs, p =>
    if outs.any (fun f => f.needs k p.length) then .error .keyError
    else .ok (outs.map (fun f => f.eval (p.take k)))

/-- backend angles of the bound circuit: the adapter negates every rotation angle
    (Qulacs' rotation gates are exp(+iθP/2)) -/
def boundBackendAngles (pc : PCirc) (p : List Int) : Except PErr (List Int) :=
  match bindAngles pc p with
  | .ok v => .ok (v.map (fun x => -x))
  | .error e => .error e

/-- compiled parametric circuit: the held backend circuit and what one estimation does with it -/
structure Compiled where
  pc : PCirc
  held : List Int
  deriving DecidableEq, Repr

def compile (pc : PCirc) : Compiled := ⟨pc, List.replicate pc.gateCount 0⟩

/-- one `_sequential_parametric_estimate` step on a compiled circuit: `.qulacs_circuit` hands out a copy -/
def Compiled.call (k : Compiled) (p : List Int) : Compiled × Except PErr (List Int) :=
  (k, match qulacsMapper k.pc p with
      | .ok v => setParams k.held v
      | .error e => .error e)

/-- the same step if the property returned the held circuit itself (what the copy prevents) -/
def Compiled.callNoCopy (k : Compiled) (p : List Int) : Compiled × Except PErr (List Int) :=
  match qulacsMapper k.pc p with
  | .ok v =>
    match setParams k.held v with
    | .ok a => (⟨k.pc, a⟩, .ok a)
    | .error e => (k, .error e)
  | .error e => (k, .error e)

def Compiled.run (step : Compiled → List Int → Compiled × Except PErr (List Int)) :
    Compiled → List (List Int) → List (Except PErr (List Int))
  | _, [] => []
  | k, p :: ps => (step k p).2 :: Compiled.run step (step k p).1 ps

/-! ## 7. Sparse matrices -/

/-- Gaussian integers: entries of Pauli matrices and their Kronecker products -/
structure GI where
  re : Int
  im : Int
  deriving DecidableEq, Repr, Inhabited

namespace GI
def one : GI := ⟨1, 0⟩
def zero : GI := ⟨0, 0⟩
def mul (a b : GI) : GI := ⟨a.re * b.re - a.im * b.im, a.re * b.im + a.im * b.re⟩
def add (a b : GI) : GI := ⟨a.re + b.re, a.im + b.im⟩
end GI

/-- entry (a mod 2, b mod 2) of I, X, Y, Z (ids 0..3; any other id behaves as I) -/
def pauliEntry (p a b : Nat) : GI :=
  let a := a % 2
  let b := b % 2
  match p with
  | 1 => if a = b then GI.zero else GI.one
  | 2 => if a = b then GI.zero else if a = 0 then ⟨0, -1⟩ else ⟨0, 1⟩
  | 3 => if a = b then (if a = 0 then GI.one else ⟨-1, 0⟩) else GI.zero
  | _ => if a = b then GI.one else GI.zero

/-- a square matrix as dimension + entry function -/
structure Mat where
  dim : Nat
  ent : Nat → Nat → GI

def pauliMat (p : Nat) : Mat := ⟨2, pauliEntry p⟩

/-- `scipy.sparse.kron(A, B)` : block (r / dimB, c / dimB) of A times entry (r % dimB, c % dimB) of B -/
def kron (A B : Mat) : Mat :=
  ⟨A.dim * B.dim, fun r c => GI.mul (A.ent (r / B.dim) (c / B.dim)) (B.ent (r % B.dim) (c % B.dim))⟩

/-- `single_pauli_list`: n identities, then `single_pauli_list[n_qubits - bit - 1] = pauli` -/
def singlePauliList (l : Label) (n : Nat) : List Nat :=
  l.foldl (fun acc x => acc.set (n - x.1 - 1) x.2) (List.replicate n 0)

inductive SparseErr where
  | assertion   -- the two `assert`s of `_convert_pauli_label_to_sparse`
  | typeError   -- `reduce` of an empty list (n_qubits = 0)
  | valueError  -- `max([])` : no non-identity term and n_qubits not given
  deriving DecidableEq, Repr

/-- `reduce(lambda o1, o2: kron(o1, o2), single_pauli_list)` -/
def reduceKron : List Nat → Option Mat
  | [] => none
  | p :: ps => some (ps.foldl (fun acc q => kron acc (pauliMat q)) (pauliMat p))

def maxIndex (l : Label) : Nat := l.foldl (fun m x => max m x.1) 0

/-- `_convert_pauli_label_to_sparse(label, n_qubits)` -/
def labelMatrix (l : Label) (n? : Option Nat) : Except SparseErr Mat :=
  match n?, l with
  | none, [] => .error .assertion
  | n?, l =>
    let n := n?.getD (maxIndex l + 1)
    if !l.isEmpty && n < maxIndex l + 1 then .error .assertion
    else
      match reduceKron (singlePauliList l n) with
      | none => .error .typeError
      | some m => .ok m

/-- the little-endian tensor product, qubit q ↔ bit q of the basis index: the documented meaning -/
def leSpec : List Nat → Nat → Nat → GI
  | [], _, _ => GI.one
  | p :: ps, r, c => GI.mul (leSpec ps (r / 2) (c / 2)) (pauliEntry p r c)

/-- dense little-endian id list of a label on n qubits -/
def dense (l : Label) (n : Nat) : List Nat := (List.range n).map (Label.get l)

/-- complex fixed-point entry: coefficient × Gaussian integer -/
def Coef.mulGI (a : Coef) (g : GI) : Coef := ⟨a.re * g.re - a.im * g.im, a.re * g.im + a.im * g.re⟩

/-- `sum([coeff * _convert_pauli_label_to_sparse(op, n_qubits) for op, coeff in operator.items()])` -/
def sumTermMatrices (n : Nat) : List Term → Except SparseErr (Nat → Nat → Coef)
  | [] => .ok (fun _ _ => Coef.zero)
  | t :: rest =>
    match labelMatrix t.1 (some n) with
    | .error e => .error e
    | .ok m =>
      match sumTermMatrices n rest with
      | .error e => .error e
      | .ok f => .ok (fun r c => Coef.add (Coef.mulGI t.2 (m.ent r c)) (f r c))

/-- `_convert_operator_to_sparse(operator, n_qubits)` as (dimension, entry function) -/
def operatorMatrix (ts : List Term) (n? : Option Nat) : Except SparseErr (Nat × (Nat → Nat → Coef)) :=
  if ts.isEmpty then
    .ok (match n? with | none => 1 | some n => 2 ^ n, fun _ _ => Coef.zero)
  else
    let nonId := ts.filter (fun t => !t.1.isEmpty)
    match n?, nonId with
    | none, [] => .error .valueError
    | n?, _ =>
      let n := n?.getD (nonId.foldl (fun m t => max m (maxIndex t.1 + 1)) 0)
      match sumTermMatrices n ts with
      | .error e => .error e
      | .ok f => .ok (2 ^ n, f)

/-- `get_sparse_matrix(operator, n_qubits)` -/
def sparseMatrix (e : Estimatable) (n? : Option Nat) : Except SparseErr (Nat × (Nat → Nat → Coef)) :=
  match e with
  | .label l =>
    match labelMatrix l n? with
    | .ok m => .ok (m.dim, fun r c => Coef.mulGI Coef.one (m.ent r c))
    | .error x => .error x
  | .op ts => operatorMatrix ts n?

/-! ### the module-level `_pauli_map` and what `get_sparse_matrix` hands out

  `_convert_pauli_label_to_sparse` copies the table entry of every non-identity factor before it goes
  into the Kronecker product, so every call hands out a matrix object of its own, also for a
  one-qubit label on one qubit (where `reduce` over a one-element list returns that element itself).
  An in-place scalar multiplication (`m *= k`) of a returned matrix therefore changes that handle only.
  `SparseTable` records the current scalar factor of the module's three matrices (1 in the pristine
  module); that no history of calls and in-place operations on results ever changes it is a theorem
  (`Props.C04.sparse_history_independent`), not built into the types. -/

structure SparseTable where
  fx : Int
  fy : Int
  fz : Int
  deriving DecidableEq, Repr

def SparseTable.init : SparseTable := ⟨1, 1, 1⟩

def SparseTable.factor (t : SparseTable) : Nat → Int
  | 1 => t.fx
  | 2 => t.fy
  | 3 => t.fz
  | _ => 1

/-- what a `get_sparse_matrix(label, n)` call returns: a new matrix `k · P_label` owned by the caller -/
inductive Handle where
  | fresh (k : Int) (l : Label) (n : Nat)
  deriving DecidableEq, Repr

/-- product of the table factors of the non-identity entries of the label -/
def labelFactor (t : SparseTable) (l : Label) : Int :=
  l.foldl (fun k x => k * t.factor x.2) 1

def getLabel (t : SparseTable) (l : Label) (n : Nat) : Handle :=
  .fresh (labelFactor t l) l n

inductive SparseOp where
  | get (l : Label) (n : Nat)
  /-- `h *= k` on the result of the i-th earlier `get` -/
  | scale (i : Nat) (k : Int)
  deriving DecidableEq, Repr

structure SparseSession where
  table : SparseTable
  handles : List Handle
  deriving DecidableEq, Repr

def SparseSession.step (s : SparseSession) : SparseOp → SparseSession
  | .get l n => { s with handles := s.handles ++ [getLabel s.table l n] }
  | .scale i k =>
    match s.handles[i]? with
    | some (.fresh k0 l n) => { s with handles := s.handles.set i (.fresh (k0 * k) l n) }
    | none => s

def SparseSession.run (s : SparseSession) (ops : List SparseOp) : SparseSession := ops.foldl SparseSession.step s

/-- the scalar by which a handle's current matrix differs from the true Pauli matrix of its label -/
def handleFactor : Handle → Int
  | .fresh k _ _ => k

end QV.C04
