/-
  C20 — Frozen, bound and derived objects are unaffected by later mutation.

  Executable model of the object graph of quri-parts circuits:

  * `St`  (implementation): a heap of Rust cells (`RCell`: gates, Python class, `is_immutable`
    flag, depth cache, weak back reference of a bound circuit), a heap of Python
    `LinearMapped…` wrappers (`LCell`: mapping value + reference to a Rust cell) and a table
    of user-visible handles.  `step` transcribes what `freeze`, `get_mutable_copy`, `py_new`,
    `combine`, `add_gate`, `extend`, `bind_parameters`, the linear-mapped wrapper and the
    state classes do to *references*; the choices made by the Rust code (clone or alias, which
    flag) are the fields of `Cfg`, which `Generated/C20Shapes.lean` fills from the Rust text.
  * `Sp`  (specification): one plain value per handle, the same operations as pure functions.

  The property is the refinement `abs (run cfg h) = srun h` (Props/C20.lean).
  Import-free; structural recursion only.
-/
namespace QV.C20

/-! ### shapes of the Rust functions (translated from the source text) -/

inductive FreezeShape | cloneUnlessImmutable | alwaysClone | alwaysSame
deriving DecidableEq, Repr
inductive CopyShape | cloneKeepFlag | cloneResetFlag
deriving DecidableEq, Repr
inductive CtorShape | aliasSetFlag | cloneFlagFalse | cloneFlagTrue
deriving DecidableEq, Repr
inductive BindShape | keepsSelf | keepsFrozen
deriving DecidableEq, Repr

/-- one class family (`ImmutableX` / `X`) -/
structure Fam where
  freeze : FreezeShape
  copy : CopyShape
  ctor : CtorShape
  /-- `add_gate` starts with `depth_cache.take()` -/
  invalidates : Bool
  /-- `is_immutable` literal in the mutable class' `py_new` -/
  newFlag : Bool
deriving DecidableEq, Repr

structure Cfg where
  np : Fam
  par : Fam
  bind : BindShape
  /-- `is_immutable` literal of the circuit built by `bind_parameters_internal` -/
  bindFlag : Bool
  bindDepthCopied : Bool
deriving DecidableEq, Repr

/-! ### values -/

/-- a gate: kind code, qubits, fixed angle (integer units), unbound parameter id -/
structure G where
  k : Nat
  qs : List Nat
  a : Int
  p : Option Nat
deriving DecidableEq, Repr, Inhabited

inductive Err | attr | value | index | type | key | runtime | panic | badop
deriving DecidableEq, Repr

/-- Python class of a Rust-backed circuit object -/
inductive Cls | qc | iqc | bqc | pqc | ipqc
deriving DecidableEq, Repr

def Cls.mu : Cls → Bool
  | .qc | .pqc => true
  | _ => false
def Cls.par : Cls → Bool
  | .pqc | .ipqc => true
  | _ => false
def Cls.frozen : Cls → Cls
  | .qc => .iqc | .iqc => .iqc | .bqc => .bqc | .pqc => .ipqc | .ipqc => .ipqc
def Cls.thawed : Cls → Cls
  | .qc | .iqc | .bqc => .qc
  | .pqc | .ipqc => .pqc

structure RVal where
  cls : Cls
  n : Nat
  gs : List G
  /-- `parameter_map` of a bound circuit (bind order, later entries win) -/
  pm : List (Nat × Int)
  /-- gates of `unbound_param_circuit` when the circuit was bound -/
  ub : List G
deriving DecidableEq, Repr

inductive LinFn
  | param (p : Nat)
  | lin (ts : List (Option Nat × Int))
deriving DecidableEq, Repr

/-- a `LinearParameterMapping` (an immutable value: replaced, never updated) -/
structure Mp where
  ins : List Nat
  outs : List Nat
  fn : List (Nat × LinFn)
deriving DecidableEq, Repr

structure LVal where
  mu : Bool
  mp : Mp
  pc : RVal
deriving DecidableEq, Repr

inductive CV | r (v : RVal) | l (v : LVal)
deriving DecidableEq, Repr
/-- value of a handle: a circuit or a quantum state built on a circuit -/
inductive Val | c (v : CV) | s (v : CV)
deriving DecidableEq, Repr

def Mp.empty : Mp := ⟨[], [], []⟩
/-- `LinearParameterMapping.combine` (dict merge: `b` wins) -/
def Mp.combine (a b : Mp) : Mp := ⟨a.ins ++ b.ins, a.outs ++ b.outs, b.fn ++ a.fn⟩
def Mp.trivial (ps : List Nat) : Mp := ⟨ps, ps, ps.map fun p => (p, .param p)⟩

def paramsOf (gs : List G) : List Nat := gs.filterMap (·.p)

def RVal.frozen (v : RVal) : RVal := { v with cls := v.cls.frozen }
def RVal.thawed (v : RVal) : RVal := { v with cls := v.cls.thawed, pm := [], ub := [] }

def CV.mu : CV → Bool
  | .r v => v.cls.mu
  | .l v => v.mu
def CV.n : CV → Nat
  | .r v => v.n
  | .l v => v.pc.n
/-- 0 = non-parametric, 1 = parametric, 2 = linear mapped -/
def CV.kind : CV → Nat
  | .r v => if v.cls.par then 1 else 0
  | .l _ => 2
def CV.gs : CV → List G
  | .r v => v.gs
  | .l v => v.pc.gs
/-- `param_mapping` -/
def CV.mapping : CV → Mp
  | .r v => Mp.trivial (paramsOf v.gs)
  | .l v => v.mp

/-- the part of a circuit value that mutation methods can change -/
structure Core where
  gs : List G
  mp : Mp
deriving DecidableEq, Repr

def CV.core : CV → Core
  | .r v => ⟨v.gs, Mp.empty⟩
  | .l v => ⟨v.pc.gs, v.mp⟩
def CV.setCore : CV → Core → CV
  | .r v, c => .r { v with gs := c.gs }
  | .l v, c => .l { v with mp := c.mp, pc := { v.pc with gs := c.gs } }

def Val.cv : Val → CV
  | .c v => v
  | .s v => v

/-! ### pure gate-list functions -/

def inRange (n : Nat) (g : G) : Bool := g.qs.all (fun q => q < n)

def insAt : List G → Nat → G → List G
  | gs, 0, g => g :: gs
  | [], _ + 1, g => [g]
  | x :: gs, i + 1, g => x :: insAt gs i g

/-- `add_gate(gate, gate_index)` on a gate list -/
def addGs (n : Nat) (gs : List G) (g : G) (idx : Option Nat) : List G × Option Err :=
  if inRange n g then
    match idx with
    | none => (gs ++ [g], none)
    | some i => if i ≤ gs.length then (insAt gs i g, none) else (gs, some .index)
  else (gs, some .value)

/-- `extend`: one `add_gate` per gate, stops at the first rejected gate (the earlier ones stay) -/
def extGs (n : Nat) : List G → List G → List G × Option Err
  | gs, [] => (gs, none)
  | gs, g :: rest => if inRange n g then extGs n (gs ++ [g]) rest else (gs, some .value)

def tblGet (t : List (Nat × Nat)) (q : Nat) : Nat := (t.lookup q).getD 0
def tblSet (t : List (Nat × Nat)) (q d : Nat) : List (Nat × Nat) := (q, d) :: t.filter (fun e => e.1 != q)
def depthStep (t : List (Nat × Nat)) (qs : List Nat) : List (Nat × Nat) :=
  let d := 1 + (qs.map (tblGet t)).foldl max 0
  qs.foldl (fun t q => tblSet t q d) t
def depthOf (qss : List (List Nat)) : Nat := ((qss.foldl depthStep []).map (·.2)).foldl max 0
/-- circuit depth as computed by `ImmutableQuantumCircuit::depth` -/
def depth (gs : List G) : Nat := depthOf (gs.map (·.qs))

/-- `dict(...)[p]`: the last binding wins -/
def lookupLast (d : List (Nat × Int)) (p : Nat) : Option Int := d.reverse.lookup p

/-- `bind_parameters_internal`: consume one value per unbound gate (a parameter shared by several
    gates receives one value per gate; the returned map keeps the last one) -/
def bindGs : List G → List Int → Option (List G × List (Nat × Int) × List Int)
  | [], vs => some ([], [], vs)
  | g :: gs, vs =>
    match g.p with
    | none => (bindGs gs vs).map fun r => (g :: r.1, r.2.1, r.2.2)
    | some pid =>
      match vs with
      | [] => none
      | v :: vs' => (bindGs gs vs').map fun r => ({ g with p := none, a := v } :: r.1, (pid, v) :: r.2.1, r.2.2)

def bindV (v : RVal) (vals : List Int) : Except Err RVal :=
  match bindGs v.gs vals with
  | some (gs, m, []) => .ok { cls := .bqc, n := v.n, gs := gs, pm := m, ub := v.gs }
  | _ => .error .value

def evalFn (d : List (Nat × Int)) : LinFn → Option Int
  | .param p => lookupLast d p
  | .lin ts =>
    ts.foldl (fun acc t =>
      match acc, t.1 with
      | none, _ => none
      | some s, none => some (s + t.2)
      | some s, some p => (lookupLast d p).map fun v => s + t.2 * v) (some 0)

def mapOpt (f : α → Option β) : List α → Option (List β)
  | [] => some []
  | x :: xs => match f x, mapOpt f xs with
    | some y, some ys => some (y :: ys)
    | _, _ => none

/-- `LinearParameterMapping.mapper(dict(zip(in_params, params)))` -/
def mapperOut (mp : Mp) (vals : List Int) : Option (List (Nat × Int)) :=
  let d := mp.ins.zip vals
  mapOpt (fun o => match mp.fn.lookup o with
    | none => none
    | some f => (evalFn d f).map fun v => (o, v)) mp.outs

/-- `ImmutableLinearMapped….bind_parameters` -/
def bindL (v : LVal) (vals : List Int) : Except Err RVal :=
  match mapperOut v.mp vals with
  | none => .error .key
  | some raw =>
    match mapOpt (lookupLast raw) (paramsOf v.pc.gs) with
    | none => .error .runtime
    | some vs => bindV v.pc vs

/-! ### operations -/

/-- argument of `extend` / `+`: another handle or a literal gate list -/
inductive Src | h (j : Nat) | lit (gs : List G)
deriving DecidableEq, Repr

/-- reference to the `i`-th input parameter of linear-mapped handle `hp` (or `CONST`) -/
abbrev PRef := Option (Nat × Nat)

inductive Op
  | newC (n : Nat) | newP (n : Nat) | newL (n : Nat)
  | addGate (h : Nat) (g : G) (idx : Option Nat)
  | addPar (h : Nat) (k : Nat) (qs : List Nat)
  | addParL (h : Nat) (k : Nat) (qs : List Nat) (bare : Bool) (ts : List (PRef × Int))
  | addParams (h : Nat) (cnt : Nat)
  | extend (h : Nat) (src : Src)
  | freeze (h : Nat) | mutCopy (h : Nat) | immCtor (h : Nat) | primitive (h : Nat)
  | combine (h : Nat) (src : Src)
  | bind (h : Nat) (vals : List Int)
  | getUnbound (h : Nat)
  | mkState (h : Nat) | stCircuit (h : Nat) | stApply (h : Nat) (gs : List G)
  | stBind (h : Nat) (vals : List Int) | stPrim (h : Nat)
  | obs (h : Nat) | depth (h : Nat) | eq (h j : Nat)
deriving DecidableEq, Repr

inductive Out
  | ok
  | err (e : Err)
  | val (v : Val)
  | num (n : Nat)
  | bool (b : Bool)
deriving DecidableEq, Repr

/-- `c.extend(c)`: the argument is the handle the method is called on -/
def Op.selfExt : Op → Bool
  | .extend h (.h j) => j == h
  | _ => false

/-- handle of the circuit a mutation method is called on -/
def Op.target : Op → Option Nat
  | .addGate h _ _ | .addPar h _ _ | .addParL h _ _ _ _ | .addParams h _ | .extend h _ => some h
  | _ => none

/-! ### value-level semantics of the operations (shared by specification and implementation:
    these say *what* `extend`, `+`, `bind` … compute, not *where* the result lives) -/

abbrev Look := Nat → Option Val

def lookC (look : Look) (h : Nat) : Option CV :=
  match look h with
  | some (.c v) => some v
  | _ => none

def resolveRef (look : Look) : PRef → Option (Option Nat)
  | none => some none
  | some (hp, i) =>
    match lookC look hp with
    | some (.l v) => (v.mp.ins[i]?).map some
    | _ => none

/-- `{p: c, …}`: a repeated key keeps its first position and takes the last value -/
def dictIns (d : List (Option Nat × Int)) (k : Option Nat) (v : Int) : List (Option Nat × Int) :=
  if d.any (fun e => e.1 == k) then d.map (fun e => if e.1 == k then (k, v) else e) else d ++ [(k, v)]
def dictOf (ts : List (Option Nat × Int)) : List (Option Nat × Int) :=
  ts.foldl (fun d t => dictIns d t.1 t.2) []

def resolveFn (look : Look) (bare : Bool) (ts : List (PRef × Int)) : Option LinFn :=
  match mapOpt (fun t => (resolveRef look t.1).map fun r => (r, t.2)) ts with
  | none => none
  | some rs =>
    if bare then
      match rs with
      | [(some p, _)] => some (.param p)
      | _ => none
    else some (.lin (dictOf rs))

def fnParams : LinFn → List Nat
  | .param p => [p]
  | .lin ts => ts.filterMap (·.1)

/-- gates a circuit contributes when it is the argument of `extend` of a circuit of kind `k`
    (`none`: the Rust/Python code raises `TypeError`) -/
def srcGates (k : Nat) (src : CV) : Option (List G) :=
  match k, src.kind with
  | 0, 0 => some src.gs
  | 0, _ => none
  | 1, 0 => some src.gs
  | 1, 1 => some src.gs
  | 1, _ => none
  | _, _ => some src.gs

/-- `self.extend(src)` for a circuit value; `same` = the argument is the very same Rust object -/
def extendV (self : CV) (src : CV ⊕ List G) (same : Bool) : Core × Option Err :=
  let c := self.core
  match src with
  | .inr gs => let r := extGs self.n c.gs gs; ({ c with gs := r.1 }, r.2)
  | .inl sv =>
    match self with
    | .r _ =>
      match srcGates self.kind sv with
      | none => (c, some .type)
      | some gs =>
        -- `c.extend(c)`: the shared borrow of the argument is held while each gate is added
        if same then (c, if gs.isEmpty then none else some .panic) else
        let r := extGs self.n c.gs gs; ({ c with gs := r.1 }, r.2)
    | .l _ =>
      if self.n ≠ sv.n then (c, some .value) else
      if sv.kind = 0 then let r := extGs self.n c.gs sv.gs; ({ c with gs := r.1 }, r.2)
      else
        let r := extGs self.n c.gs sv.gs
        ({ gs := r.1, mp := c.mp.combine sv.mapping }, r.2)

structure MutRes where
  core : Core
  np : Nat
  err : Option Err

/-- what a mutation method does to the value of the (mutable) circuit it is called on;
    `none`: the operation does not apply to this kind of object -/
def mutV (look : Look) (np : Nat) (same : Bool) (op : Op) (self : CV) : Option MutRes :=
  let c := self.core
  match op with
  | .addGate _ g idx => let r := addGs self.n c.gs g idx; some ⟨{ c with gs := r.1 }, np, r.2⟩
  | .addPar _ k qs =>
    if self.kind = 1 then
      let g : G := ⟨k, qs, 0, some np⟩
      if inRange self.n g then some ⟨{ c with gs := c.gs ++ [g] }, np + 1, none⟩ else some ⟨c, np, some .value⟩
    else none
  | .addParL _ k qs bare ts =>
    if self.kind = 2 then
      match resolveFn look bare ts with
      | none => none
      | some f =>
        let g : G := ⟨k, qs, 0, some np⟩
        if (fnParams f).all (fun p => c.mp.ins.contains p) then
          if inRange self.n g then
            some ⟨{ gs := c.gs ++ [g], mp := { c.mp with outs := c.mp.outs ++ [np], fn := (np, f) :: c.mp.fn } }, np + 1, none⟩
          else some ⟨c, np, some .value⟩
        else some ⟨c, np, some .value⟩
    else none
  | .addParams _ cnt =>
    if self.kind = 2 then some ⟨{ c with mp := { c.mp with ins := c.mp.ins ++ List.range' np cnt } }, np + cnt, none⟩ else none
  | .extend _ (.lit gs) => let r := extendV self (.inr gs) false; some ⟨r.1, np, r.2⟩
  | .extend _ (.h j) =>
    match lookC look j with
    | none => none
    | some sv => let r := extendV self (.inl sv) same; some ⟨r.1, np, r.2⟩
  | _ => none

def freezeV : CV → CV
  | .r v => .r v.frozen
  | .l v => if v.mu then .l { mu := false, mp := v.mp, pc := v.pc.frozen } else .l v
def copyV : CV → CV
  | .r v => .r v.thawed
  | .l v => .l { mu := true, mp := v.mp, pc := v.pc.thawed }
def ctorV : CV → CV
  | .r v => .r v.frozen
  | .l v => .l { mu := false, mp := v.mp, pc := v.pc.frozen }
def primV : CV → Option CV
  | .r v => if v.cls.par then some (.r v.frozen) else none
  | .l v => some (.r v.pc.frozen)

def newRV (cls : Cls) (n : Nat) : RVal := ⟨cls, n, [], [], []⟩

/-- a brand-new empty mutable circuit of kind `k` -/
def freshCV (k : Nat) (n : Nat) : CV :=
  if k = 0 then .r (newRV .qc n) else if k = 1 then .r (newRV .pqc n) else .l ⟨true, Mp.empty, newRV .pqc n⟩

/-- `acc.extend(s)` inside `+`: any failure makes `__add__` give up -/
def extOk (acc : CV) (s : CV ⊕ List G) : Except Err CV :=
  let r := extendV acc s false
  match r.2 with
  | none => .ok (acc.setCore r.1)
  | some _ => .error .type

/-- `self + src`: always a new mutable circuit (`.type`: `__add__`/`__radd__` give up) -/
def combineV (self : CV) (src : CV ⊕ List G) : Except Err CV :=
  match src with
  | .inr gs => extOk (copyV self) (.inr gs)
  | .inl sv =>
    let k := max self.kind sv.kind
    if k = self.kind ∧ k ≠ 2 then extOk (copyV self) (.inl sv)
    else match extOk (freshCV k self.n) (.inl self) with
      | .error e => .error e
      | .ok acc => extOk acc (.inl sv)

def bindCV : CV → List Int → Option (Except Err RVal)
  | .r v, vals => if v.cls.par then some (bindV v vals) else none
  | .l v, vals => some (bindL v vals)

/-- `unbound_param_circuit` of a bound circuit, as a value -/
def unboundV (v : RVal) : Option CV :=
  if v.cls = .bqc then some (.r ⟨.ipqc, v.n, v.ub, [], []⟩) else none

/-- `state.with_gates_applied(gates)` -/
def stApplyV (cv : CV) (gs : List G) : Except Err CV :=
  if cv.kind = 0 then
    match combineV cv (.inr gs) with
    | .ok r => .ok (freezeV r)
    | .error e => .error e
  else
    let m := copyV cv
    let r := extendV m (.inr gs) false
    match r.2 with
    | none => .ok (freezeV (m.setCore r.1))
    | some e => .error e

def gEqv (a b : G) : Bool := a.k == b.k && a.qs == b.qs && a.a == b.a && a.p.isSome == b.p.isSome
def gsEqv : List G → List G → Bool
  | [], [] => true
  | a :: as, b :: bs => gEqv a b && gsEqv as bs
  | _, _ => false
/-- `==` of two Rust-backed circuits -/
def eqV : CV → CV → Option Bool
  | .r a, .r b => some (a.cls.par == b.cls.par && a.n == b.n && gsEqv a.gs b.gs)
  | _, _ => none

inductive Eff
  | fail (e : Err)
  | push (v : Val) (np : Nat)
  | out (o : Out)

/-- value-level effect of every non-mutating operation -/
def pureV (look : Look) (np : Nat) (op : Op) : Eff :=
  let withC (h : Nat) (f : CV → Eff) : Eff := match look h with
    | some (.c v) => f v
    | _ => .fail .badop
  let withS (h : Nat) (f : CV → Eff) : Eff := match look h with
    | some (.s v) => f v
    | _ => .fail .badop
  match op with
  | .newC n => .push (.c (.r (newRV .qc n))) np
  | .newP n => .push (.c (.r (newRV .pqc n))) np
  | .newL n => .push (.c (.l ⟨true, Mp.empty, newRV .pqc n⟩)) np
  | .freeze h => withC h fun v => .push (.c (freezeV v)) np
  | .mutCopy h => withC h fun v => .push (.c (copyV v)) np
  | .immCtor h => withC h fun v => .push (.c (ctorV v)) np
  | .primitive h => withC h fun v => match primV v with
    | some r => .push (.c r) np
    | none => .fail .badop
  | .combine h (.lit gs) => withC h fun v => match combineV v (.inr gs) with
    | .ok r => .push (.c r) np
    | .error e => .fail e
  | .combine h (.h j) => withC h fun v => withC j fun w => match combineV v (.inl w) with
    | .ok r => .push (.c r) np
    | .error e => .fail e
  | .bind h vals => withC h fun v => match bindCV v vals with
    | some (.ok r) => .push (.c (.r r)) np
    | some (.error e) => .fail e
    | none => .fail .badop
  | .getUnbound h => withC h fun v => match v with
    | .r rv => match unboundV rv with
      | some u => .push (.c u) np
      | none => .fail .badop
    | _ => .fail .badop
  | .mkState h => withC h fun v => .push (.s (freezeV v)) np
  | .stCircuit h => withS h fun v => .push (.c v) np
  | .stApply h gs => withS h fun v => match stApplyV v gs with
    | .ok r => .push (.s r) np
    | .error e => .fail e
  | .stBind h vals => withS h fun v => match bindCV v vals with
    | some (.ok r) => .push (.s (.r r)) np
    | some (.error e) => .fail e
    | none => .fail .badop
  | .stPrim h => withS h fun v => match primV v with
    | some r => .push (.s (freezeV r)) np
    | none => .fail .badop
  | .obs h => match look h with
    | some v => .out (.val v)
    | none => .fail .badop
  | .depth h => withC h fun v => .out (.num (depth v.gs))
  | .eq h j => withC h fun v => withC j fun w => match eqV v w with
    | some b => .out (.bool b)
    | none => .fail .badop
  | _ => .fail .badop

/-! ### specification: one plain value per handle -/

structure Sp where
  vs : Nat → Val
  nH : Nat
  np : Nat

def Sp.init : Sp := ⟨fun _ => .c (.r (newRV .qc 0)), 0, 0⟩
def Sp.look (t : Sp) : Look := fun i => if i < t.nH then some (t.vs i) else none

def upd (f : Nat → α) (a : Nat) (x : α) : Nat → α := fun b => if b = a then x else f b

def sstep (t : Sp) (op : Op) : Sp × Out :=
  match op.target with
  | some h =>
    match t.look h with
    | some (.c self) =>
      if self.mu then
        match mutV t.look t.np op.selfExt op self with
        | some r =>
          ({ t with vs := upd t.vs h (.c (self.setCore r.core)), np := r.np },
            match r.err with | none => .ok | some e => .err e)
        | none => (t, .err .badop)
      else (t, .err .attr)
    | _ => (t, .err .badop)
  | none =>
    match pureV t.look t.np op with
    | .fail e => (t, .err e)
    | .push v np => ({ vs := upd t.vs t.nH v, nH := t.nH + 1, np := np }, .ok)
    | .out o => (t, o)

def srun (t : Sp) : List Op → Sp × List Out
  | [] => (t, [])
  | op :: ops => let r := sstep t op; let r' := srun r.1 ops; (r'.1, r.2 :: r'.2)

/-! ### implementation: heap of cells, handles are references -/

structure RCell where
  v : RVal
  imm : Bool
  dc : Option Nat
  /-- weak reference kept by a bound circuit to the parametric circuit it was bound from -/
  unb : Nat

structure LCell where
  mu : Bool
  mp : Mp
  circ : Nat

inductive Ref | r (a : Nat) | l (a : Nat)
deriving DecidableEq, Repr
inductive Hd | c (r : Ref) | s (r : Ref)
deriving DecidableEq, Repr

def Hd.ref : Hd → Ref
  | .c r => r
  | .s r => r

structure St where
  rs : Nat → RCell
  nR : Nat
  ls : Nat → LCell
  nL : Nat
  hs : Nat → Hd
  nH : Nat
  np : Nat

def St.init : St :=
  ⟨fun _ => ⟨newRV .qc 0, false, none, 0⟩, 0, fun _ => ⟨false, Mp.empty, 0⟩, 0, fun _ => .c (.r 0), 0, 0⟩

def St.readRef (s : St) : Ref → CV
  | .r a => .r (s.rs a).v
  | .l l => .l ⟨(s.ls l).mu, (s.ls l).mp, (s.rs (s.ls l).circ).v⟩
def St.readH (s : St) : Hd → Val
  | .c r => .c (s.readRef r)
  | .s r => .s (s.readRef r)
/-- abstraction: the value a handle denotes -/
def St.absH (s : St) (i : Nat) : Val := s.readH (s.hs i)
def St.look (s : St) : Look := fun i => if i < s.nH then some (s.absH i) else none

def St.rMut (s : St) (a : Nat) : Bool := (s.rs a).v.cls.mu
def St.refMut (s : St) : Ref → Bool
  | .r a => s.rMut a
  | .l l => (s.ls l).mu

def Cfg.fam (cfg : Cfg) (c : Cls) : Fam := if c.par then cfg.par else cfg.np

def St.allocR (s : St) (c : RCell) : St × Nat := ({ s with rs := upd s.rs s.nR c, nR := s.nR + 1 }, s.nR)
def St.allocL (s : St) (c : LCell) : St × Nat := ({ s with ls := upd s.ls s.nL c, nL := s.nL + 1 }, s.nL)
def St.push (s : St) (h : Hd) : St := { s with hs := upd s.hs s.nH h, nH := s.nH + 1 }

/-- `freeze` of a Rust object: the address of the result (possibly the object itself) -/
def freezeR (cfg : Cfg) (s : St) (a : Nat) : St × Nat :=
  let c := s.rs a
  if c.v.cls = .bqc then (s, a) else
  match (cfg.fam c.v.cls).freeze with
  | .alwaysSame => (s, a)
  | .cloneUnlessImmutable => if c.imm then (s, a) else s.allocR { c with v := c.v.frozen, imm := true }
  | .alwaysClone => s.allocR { c with v := c.v.frozen, imm := true }

/-- `get_mutable_copy` of a Rust object -/
def copyR (cfg : Cfg) (s : St) (a : Nat) : St × Nat :=
  let c := s.rs a
  s.allocR { v := c.v.thawed,
             imm := match (cfg.fam c.v.cls).copy with
               | .cloneKeepFlag => c.imm
               | .cloneResetFlag => false,
             dc := c.dc, unb := 0 }

/-- `ImmutableQuantumCircuit(c)` / `ImmutableParametricQuantumCircuit(c)` -/
def ctorR (cfg : Cfg) (s : St) (a : Nat) : St × Nat :=
  let c := s.rs a
  match (cfg.fam c.v.cls).ctor with
  | .aliasSetFlag => ({ s with rs := upd s.rs a { c with imm := true } }, a)
  | .cloneFlagFalse => s.allocR { c with v := c.v.frozen, imm := false, dc := none }
  | .cloneFlagTrue => s.allocR { c with v := c.v.frozen, imm := true, dc := none }

/-- `ImmutableLinearMappedParametricQuantumCircuit(c)`: shares the mapping, freezes `_circuit` -/
def ctorL (cfg : Cfg) (s : St) (l : Nat) : St × Nat × Bool :=
  let c := s.ls l
  let r := freezeR cfg s c.circ
  let r' := r.1.allocL { mu := false, mp := c.mp, circ := r.2 }
  (r'.1, r'.2, r.2 != c.circ || !s.rMut c.circ)

def freezeL (cfg : Cfg) (s : St) (l : Nat) : St × Nat × Bool :=
  if (s.ls l).mu then ctorL cfg s l else (s, l, true)

def copyL (cfg : Cfg) (s : St) (l : Nat) : St × Nat :=
  let c := s.ls l
  let r := copyR cfg s c.circ
  r.1.allocL { mu := true, mp := c.mp, circ := r.2 }

/-- `get_mutable_copy` through a reference -/
def copyRef (cfg : Cfg) (s : St) : Ref → St × Ref
  | .r a => let c := copyR cfg s a; (c.1, .r c.2)
  | .l l => let c := copyL cfg s l; (c.1, .l c.2)

/-- result of one implementation step; `safe` = the step handed out no second reference to an
    object that can still be mutated -/
structure Res where
  st : St
  out : Out
  safe : Bool

/-- freeze through a reference -/
def freezeRef (cfg : Cfg) (s : St) : Ref → St × Ref × Bool
  | .r a => let r := freezeR cfg s a; (r.1, .r r.2, r.2 != a || !s.rMut a)
  | .l l => let r := freezeL cfg s l; (r.1, .l r.2.1, r.2.2)

/-- write the mutable part of a circuit back through a reference (what `add_gate` & co. do) -/
def writeRef (cfg : Cfg) (s : St) (r : Ref) (c : Core) : St :=
  match r with
  | .r a =>
    let cell := s.rs a
    { s with rs := upd s.rs a { cell with v := { cell.v with gs := c.gs },
                                           dc := if (cfg.fam cell.v.cls).invalidates then none else cell.dc } }
  | .l l =>
    let lc := s.ls l
    let cell := s.rs lc.circ
    { s with ls := upd s.ls l { lc with mp := c.mp },
             rs := upd s.rs lc.circ { cell with v := { cell.v with gs := c.gs },
                                                 dc := if (cfg.fam cell.v.cls).invalidates then none else cell.dc } }

/-- allocate a fresh mutable circuit holding value `cv` (result of `+`) -/
def allocCV (s : St) (cv : CV) (imm : Bool) (dc : Option Nat) : St × Ref :=
  match cv with
  | .r v => let r := s.allocR ⟨v, imm, dc, 0⟩; (r.1, .r r.2)
  | .l v =>
    let r := s.allocR ⟨v.pc, imm, dc, 0⟩
    let r' := r.1.allocL ⟨v.mu, v.mp, r.2⟩
    (r'.1, .l r'.2)

/-- address of the Rust object behind a reference -/
def refAddr (s : St) : Ref → Nat
  | .r a => a
  | .l l => (s.ls l).circ

/-- Rust address whose flag / depth cache `get_mutable_copy` clones when `self + …` starts from a copy of `self` -/
def refCell (s : St) : Ref → RCell
  | .r a => s.rs a
  | .l l => s.rs (s.ls l).circ

/-- flag and depth cache of the object returned by `self + src` -/
def combineMeta (cfg : Cfg) (s : St) (r : Ref) (self res : CV) : Bool × Option Nat :=
  let cell := refCell s r
  if res.kind = self.kind ∧ res.kind ≠ 2 then
    let fam := cfg.fam cell.v.cls
    (match fam.copy with | .cloneKeepFlag => cell.imm | .cloneResetFlag => false,
     if res.gs = self.gs ∨ !fam.invalidates then cell.dc else none)
  else (cfg.par.newFlag, none)

def bindCell (cfg : Cfg) (s : St) (src : Nat) (v : RVal) (unb : Nat) : RCell :=
  ⟨v, cfg.bindFlag, if cfg.bindDepthCopied then (s.rs src).dc else none, unb⟩

/-- `bind_parameters` realised on the heap: `src` is the Rust parametric object that is bound -/
def bindR (cfg : Cfg) (s : St) (src : Nat) (v : RVal) : St × Nat :=
  match cfg.bind with
  | .keepsSelf => s.allocR (bindCell cfg s src v src)
  | .keepsFrozen => let r := freezeR cfg s src; r.1.allocR (bindCell cfg r.1 src v r.2)

/-- `c.extend(d)`: `d` is the very same Rust object as `c` -/
def sameRef (s : St) (r : Ref) : Op → Bool
  | .extend _ (.h j) => j < s.nH && (match r, s.hs j with
      | .r a, .c (.r b) => a == b
      | _, _ => false)
  | _ => false

def errOut : Option Err → Out
  | none => .ok
  | some e => .err e

def step (cfg : Cfg) (s : St) (op : Op) : Res :=
  let bad : Res := ⟨s, .err .badop, true⟩
  match op.target with
  | some h =>
    if h < s.nH then
      match s.hs h with
      | .c r =>
        let self := s.readRef r
        if self.mu then
          match mutV s.look s.np (sameRef s r op) op self with
          | some m => ⟨{ writeRef cfg s r m.core with np := m.np }, errOut m.err, true⟩
          | none => bad
        else ⟨s, .err .attr, true⟩
      | .s _ => bad
    else bad
  | none =>
    let withC (h : Nat) (f : Ref → Res) : Res :=
      if h < s.nH then match s.hs h with
        | .c r => f r
        | .s _ => bad
      else bad
    let withS (h : Nat) (f : Ref → Res) : Res :=
      if h < s.nH then match s.hs h with
        | .s r => f r
        | .c _ => bad
      else bad
    match op with
    | .newC n => let r := s.allocR ⟨newRV .qc n, cfg.np.newFlag, none, 0⟩; ⟨r.1.push (.c (.r r.2)), .ok, true⟩
    | .newP n => let r := s.allocR ⟨newRV .pqc n, cfg.par.newFlag, none, 0⟩; ⟨r.1.push (.c (.r r.2)), .ok, true⟩
    | .newL n =>
      let r := s.allocR ⟨newRV .pqc n, cfg.par.newFlag, none, 0⟩
      let r' := r.1.allocL ⟨true, Mp.empty, r.2⟩
      ⟨r'.1.push (.c (.l r'.2)), .ok, true⟩
    | .freeze h => withC h fun r => let f := freezeRef cfg s r; ⟨f.1.push (.c f.2.1), .ok, f.2.2⟩
    | .mkState h => withC h fun r => let f := freezeRef cfg s r; ⟨f.1.push (.s f.2.1), .ok, f.2.2⟩
    | .mutCopy h => withC h fun r => match r with
      | .r a => let c := copyR cfg s a; ⟨c.1.push (.c (.r c.2)), .ok, true⟩
      | .l l => let c := copyL cfg s l; ⟨c.1.push (.c (.l c.2)), .ok, true⟩
    | .immCtor h => withC h fun r => match r with
      | .r a => let c := ctorR cfg s a; ⟨c.1.push (.c (.r c.2)), .ok, c.2 != a || !s.rMut a⟩
      | .l l => let c := ctorL cfg s l; ⟨c.1.push (.c (.l c.2.1)), .ok, c.2.2⟩
    | .primitive h => withC h fun r => match r with
      | .r a => if (s.rs a).v.cls.par then
          let f := freezeR cfg s a; ⟨f.1.push (.c (.r f.2)), .ok, f.2 != a || !s.rMut a⟩
        else bad
      | .l l => let a := (s.ls l).circ
        let f := freezeR cfg s a; ⟨f.1.push (.c (.r f.2)), .ok, f.2 != a || !s.rMut a⟩
    | .combine h src => withC h fun r =>
      let self := s.readRef r
      let arg : Option (CV ⊕ List G) := match src with
        | .lit gs => some (.inr gs)
        | .h j => (lookC s.look j).map .inl
      match arg with
      | none => bad
      | some a =>
        match combineV self a with
        | .error e => ⟨s, .err e, true⟩
        | .ok res =>
          let m := combineMeta cfg s r self res
          let al := allocCV s res m.1 m.2
          ⟨al.1.push (.c al.2), .ok, true⟩
    | .bind h vals => withC h fun r =>
      match bindCV (s.readRef r) vals with
      | none => bad
      | some (.error e) => ⟨s, .err e, true⟩
      | some (.ok v) =>
        let src := refAddr s r
        let b := bindR cfg s src v
        ⟨b.1.push (.c (.r b.2)), .ok, true⟩
    | .getUnbound h => withC h fun r => match r with
      | .r a => if (s.rs a).v.cls = .bqc then
          let u := (s.rs a).unb
          -- handing out the stored back reference is never counted as alias-free (finding: the stored
          -- object is the unfrozen source); the refinement theorems exclude this accessor
          ⟨s.push (.c (.r u)), .ok, false⟩
        else bad
      | .l _ => bad
    | .stCircuit h => withS h fun r => ⟨s.push (.c r), .ok, !s.refMut r⟩
    | .stApply h gs => withS h fun r =>
      let self := s.readRef r
      if self.kind = 0 then
        match combineV self (.inr gs) with
        | .error e => ⟨s, .err e, true⟩
        | .ok res =>
          let m := combineMeta cfg s r self res
          let al := allocCV s res m.1 m.2
          let f := freezeRef cfg al.1 al.2
          ⟨f.1.push (.s f.2.1), .ok, f.2.2⟩
      else
        let c := copyRef cfg s r
        let m := c.1.readRef c.2
        let e := extendV m (.inr gs) false
        let s2 := writeRef cfg c.1 c.2 e.1
        match e.2 with
        | some err => ⟨s2, .err err, true⟩
        | none =>
          let f := freezeRef cfg s2 c.2
          ⟨f.1.push (.s f.2.1), .ok, f.2.2⟩
    | .stBind h vals => withS h fun r =>
      match bindCV (s.readRef r) vals with
      | none => bad
      | some (.error e) => ⟨s, .err e, true⟩
      | some (.ok v) =>
        let src := refAddr s r
        let b := bindR cfg s src v
        ⟨b.1.push (.s (.r b.2)), .ok, true⟩
    | .stPrim h => withS h fun r => match r with
      | .r a => if (s.rs a).v.cls.par then
          let f1 := freezeR cfg s a
          let f2 := freezeR cfg f1.1 f1.2
          ⟨f2.1.push (.s (.r f2.2)), .ok, f2.2 != a || !s.rMut a⟩
        else bad
      | .l l => let a := (s.ls l).circ
        let f1 := freezeR cfg s a
        let f2 := freezeR cfg f1.1 f1.2
        ⟨f2.1.push (.s (.r f2.2)), .ok, f2.2 != a || !s.rMut a⟩
    | .obs h => if h < s.nH then ⟨s, .val (s.absH h), true⟩ else bad
    | .depth h => withC h fun r =>
      let a := refAddr s r
      let cell := s.rs a
      match cell.dc with
      | some d => ⟨s, .num d, true⟩
      | none => let d := depth cell.v.gs
        ⟨{ s with rs := upd s.rs a { cell with dc := some d } }, .num d, true⟩
    | .eq h j => withC h fun r => withC j fun r' =>
      match eqV (s.readRef r) (s.readRef r') with
      | some b => ⟨s, .bool b, true⟩
      | none => bad
    | _ => bad

structure Run where
  st : St
  outs : List Out
  safe : Bool

def run (cfg : Cfg) (s : St) : List Op → Run
  | [] => ⟨s, [], true⟩
  | op :: ops =>
    let r := step cfg s op
    let r' := run cfg r.st ops
    ⟨r'.st, r.out :: r'.outs, r.safe && r'.safe⟩

/-- every step of the history is alias-free (the hypothesis of the `_partial` theorems) -/
def Safe (cfg : Cfg) (h : List Op) : Bool := (run cfg St.init h).safe

/-- executable form of the refinement statement, used for the concrete witnesses -/
def refinesB (cfg : Cfg) (h : List Op) : Bool :=
  let r := run cfg St.init h
  let t := srun Sp.init h
  r.outs == t.2 && r.st.nH == t.1.nH && (List.range r.st.nH).all fun i => r.st.absH i == t.1.vs i

/-! ### configurations -/

/-- the part of the configuration every theorem needs: mutation invalidates the depth cache -/
def Cfg.baseOk (cfg : Cfg) : Bool := cfg.np.invalidates && cfg.par.invalidates

def Fam.aliasFree (f : Fam) : Bool :=
  f.freeze != .alwaysSame && f.copy == .cloneResetFlag && f.ctor != .aliasSetFlag && !f.newFlag

/-- no function of the two class families hands out an alias of a mutable object
    (the back reference stored by `bind_parameters` is treated separately: `getUnbound`) -/
def Cfg.sound (cfg : Cfg) : Bool :=
  cfg.baseOk && cfg.np.aliasFree && cfg.par.aliasFree

/-- a configuration with the shapes the parametric classes have, used for both families -/
def Cfg.good : Cfg :=
  let f : Fam := ⟨.cloneUnlessImmutable, .cloneResetFlag, .cloneFlagFalse, true, false⟩
  ⟨f, f, .keepsFrozen, true, true⟩

end QV.C20
