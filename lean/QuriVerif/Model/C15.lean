import QuriVerif.Found.Template
/-
  C15: decision procedures for "this block conserves a quantum number".

  * `blockConserves`: the block's matrix (exact ring, symbolic parameters) has no entry
    between computational basis states of different weight.  Commuting with the total number
    operator N = Σ (1−Z_q)/2, with S_z = ½Σ(±)n_q, or with the parity ⊗Z is exactly this
    block-diagonality (these operators are diagonal with the weight as eigenvalue).
  * `pauliGroupConserves`: for a group of Pauli rotations exp(−i cₖθ/2 Pₖ) sharing one parameter:
    the Pₖ commute pairwise and Σₖ cₖ [W, Pₖ] = 0 for W = Σ_q s_q Z_q, decided in the Pauli
    algebra (so the product is exp(θG) with [W, G] = 0); used where the support is too wide
    for a matrix, and cross-checked against `blockConserves` on small supports.
-/
namespace QV.C15
open QV

def popcountBits (n : Nat) (x : Nat) : Nat := ((List.range n).map fun i => (x / 2 ^ i) % 2).foldl (· + ·) 0

inductive Weight
  | number                 -- popcount
  | sz (spins : List Nat)  -- Σ (+1 for spin 0, −1 for spin 1) · bit
  | parity
deriving Repr

def Weight.eval (n : Nat) : Weight → Nat → Int
  | .number, x => (popcountBits n x : Int)
  | .parity, x => ((popcountBits n x) % 2 : Nat)
  | .sz spins, x => ((List.zip (List.range n) spins).map fun (i, s) =>
      let b : Int := ((x / 2 ^ i) % 2 : Nat)
      if s == 0 then b else -b).foldl (· + ·) 0

def matConserves (n : Nat) (w : Weight) (m : Mat) : Bool :=
  let ws := (List.range (2 ^ n)).map (w.eval n)
  (List.zip ws m).all fun (wr, row) => (List.zip ws row).all fun (wc, p) => wr == wc || p.isZero

def blockConserves (n : Nat) (ws : List Weight) (real : Bool) (gs : List Gate) : Bool :=
  let m := (circMat n gs).m
  ws.all (fun w => matConserves n w m) && (!real || Mat.isReal m)

/-! Pauli algebra for wide rotation groups -/

abbrev PLabel := List (Nat × Nat)   -- sorted by qubit, ids 1..3

def pfactor (l : PLabel) (q : Nat) : Nat := match l.find? (·.1 == q) with | some e => e.2 | none => 0

/-- two strings commute iff they differ (both non-identity) on an even number of qubits -/
def pcommute (a b : PLabel) : Bool :=
  (a.filter fun e => let f := pfactor b e.1; f != 0 && f != e.2).length % 2 == 0

/-- Z_q · P for P_q ∈ {X, Y}: (new label, phase exponent of i): Z·X = iY, Z·Y = −iX -/
def zTimes (q : Nat) (l : PLabel) : Option (PLabel × Nat) :=
  match pfactor l q with
  | 1 => some (l.map (fun e => if e.1 == q then (q, 2) else e), 1)
  | 2 => some (l.map (fun e => if e.1 == q then (q, 1) else e), 3)
  | _ => none

/-- formal sums of Pauli strings with Gaussian-integer coefficients -/
abbrev PSum := List (PLabel × Int × Int)

def PSum.add (s : PSum) (l : PLabel) (re im : Int) : PSum :=
  match s with
  | [] => [(l, re, im)]
  | (l', r', i') :: rest => if l' == l then (l', r' + re, i' + im) :: rest else (l', r', i') :: PSum.add rest l re im

def PSum.isZero (s : PSum) : Bool := s.all fun e => e.2.1 == 0 && e.2.2 == 0

/-- Σₖ cₖ Σ_q s_q [Z_q, Pₖ] / 2  as a formal sum -/
def commutatorWithW (signs : Nat → Int) (terms : List (PLabel × Int)) : PSum :=
  terms.foldl (fun acc (l, c) =>
    l.foldl (fun acc e =>
      match zTimes e.1 l with
      | some (l', ph) =>
        let k := c * signs e.1
        -- i^ph · k
        if ph == 1 then PSum.add acc l' 0 k else PSum.add acc l' 0 (-k)
      | none => acc) acc) []

def pauliGroupConserves (spins : Option (List (Nat × Nat))) (terms : List (PLabel × Int)) : Bool :=
  (terms.all fun a => terms.all fun b => pcommute a.1 b.1) &&
  (commutatorWithW (fun _ => 1) terms).isZero &&
  (match spins with
   | none => true
   | some sp => (commutatorWithW (fun q => match sp.find? (·.1 == q) with
       | some e => if e.2 == 0 then 1 else -1
       | none => 1) terms).isZero)

end QV.C15
