import QuriVerif.Found.Template
/-
  C03: ASSUMED semantics of the backend constructors the adapters use, in quri-parts' own
  vocabulary: which documented quri-parts gate a backend constructor implements (up to global
  phase) and how its angle arguments relate to quri-parts' (`same` sign convention, `opposite`
  sign – Qulacs rotations are exp(+iθP/2) –, or `halfturns` – pytket angles are in units of π).
  This table is trusted base; it is validated on every run by executing the adapters and
  comparing the backends' own simulators / matrix exports with the documented matrices.
  (Written once from the unchanged tree and reviewed; NOT regenerated.)
-/
namespace QV.C03
open QV

inductive Conv | same | opposite | halfturns
deriving DecidableEq, Repr

inductive BCtor
  | qulacs_qulacspgatepIdentity
  | qulacs_qulacspgatepX
  | qulacs_qulacspgatepY
  | qulacs_qulacspgatepZ
  | qulacs_qulacspgatepH
  | qulacs_qulacspgatepS
  | qulacs_qulacspgatepSdag
  | qulacs_qulacspgatepsqrtX
  | qulacs_qulacspgatepsqrtXdag
  | qulacs_qulacspgatepsqrtY
  | qulacs_qulacspgatepsqrtYdag
  | qulacs_qulacspgatepT
  | qulacs_qulacspgatepTdag
  | qulacs_qulacspgatepRX
  | qulacs_qulacspgatepRY
  | qulacs_qulacspgatepRZ
  | qulacs_qulacspgatepCNOT
  | qulacs_qulacspgatepCZ
  | qulacs_qulacspgatepSWAP
  | qulacs_qulacspgatepTOFFOLI
  | qulacs_qulacspgatepPauli
  | qulacs_qulacspgatepPauliRotation
  | qiskit_qgatepIGate
  | qiskit_qgatepXGate
  | qiskit_qgatepYGate
  | qiskit_qgatepZGate
  | qiskit_qgatepHGate
  | qiskit_qgatepSGate
  | qiskit_qgatepSdgGate
  | qiskit_qgatepTGate
  | qiskit_qgatepTdgGate
  | qiskit_qgatepSXGate
  | qiskit_qgatepSXdgGate
  | qiskit_qgatepRXGate
  | qiskit_qgatepRYGate
  | qiskit_qgatepRZGate
  | qiskit_qgatepCXGate
  | qiskit_qgatepCZGate
  | qiskit_qgatepSwapGate
  | qiskit_qgatepCCXGate
  | cirq_I
  | cirq_X
  | cirq_Y
  | cirq_Z
  | cirq_H
  | cirq_S
  | cirq_S_pow_m1
  | cirq_X_pow_0p5
  | cirq_X_pow_m0p5
  | cirq_Y_pow_0p5
  | cirq_Y_pow_m0p5
  | cirq_T
  | cirq_T_pow_m1
  | cirq_U1
  | cirq_U2
  | cirq_U3
  | cirq_rx
  | cirq_ry
  | cirq_rz
  | cirq_CNOT
  | cirq_CZ
  | cirq_SWAP
  | cirq_TOFFOLI
  | braket_GatepI
  | braket_GatepX
  | braket_GatepY
  | braket_GatepZ
  | braket_GatepH
  | braket_GatepS
  | braket_GatepSi
  | braket_GatepT
  | braket_GatepTi
  | braket_GatepV
  | braket_GatepVi
  | braket_GatepRx
  | braket_GatepRy
  | braket_GatepRz
  | braket_GatepCNot
  | braket_GatepCZ
  | braket_GatepSwap
  | braket_GatepCCNot
  | tket_OpTypepnoop
  | tket_OpTypepX
  | tket_OpTypepY
  | tket_OpTypepZ
  | tket_OpTypepH
  | tket_OpTypepS
  | tket_OpTypepSdg
  | tket_OpTypepSX
  | tket_OpTypepSXdg
  | tket_OpTypepT
  | tket_OpTypepTdg
  | tket_OpTypepU1
  | tket_OpTypepU2
  | tket_OpTypepU3
  | tket_OpTypepRx
  | tket_OpTypepRy
  | tket_OpTypepRz
  | tket_OpTypepCX
  | tket_OpTypepCZ
  | tket_OpTypepSWAP
  | tket_OpTypepCCX
  | stim_I
  | stim_X
  | stim_Y
  | stim_Z
  | stim_H
  | stim_S
  | stim_S_DAG
  | stim_SQRT_X
  | stim_SQRT_X_DAG
  | stim_SQRT_Y
  | stim_SQRT_Y_DAG
  | stim_CNOT
  | stim_CZ
  | stim_SWAP
  | openqasm_id
  | openqasm_x
  | openqasm_y
  | openqasm_z
  | openqasm_h
  | openqasm_s
  | openqasm_sx
  | openqasm_sdg
  | openqasm_t
  | openqasm_tdg
  | openqasm_rx
  | openqasm_ry
  | openqasm_rz
  | openqasm_cx
  | openqasm_cz
  | openqasm_swap
  | openqasm_ccx
  | openqasm_u1
  | openqasm_u2
  | openqasm_u3
  | qulacs_rs_gatepIdentity
  | qulacs_rs_add_X_gate
  | qulacs_rs_add_Y_gate
  | qulacs_rs_add_Z_gate
  | qulacs_rs_add_H_gate
  | qulacs_rs_add_S_gate
  | qulacs_rs_add_Sdag_gate
  | qulacs_rs_add_sqrtX_gate
  | qulacs_rs_add_sqrtXdag_gate
  | qulacs_rs_add_sqrtY_gate
  | qulacs_rs_add_sqrtYdag_gate
  | qulacs_rs_add_T_gate
  | qulacs_rs_add_Tdag_gate
  | qulacs_rs_add_RX_gate
  | qulacs_rs_add_RY_gate
  | qulacs_rs_add_RZ_gate
  | qulacs_rs_add_U1_gate
  | qulacs_rs_add_U2_gate
  | qulacs_rs_add_U3_gate
  | qulacs_rs_add_CNOT_gate
  | qulacs_rs_add_CZ_gate
  | qulacs_rs_add_SWAP_gate
  | qulacs_rs_gatepTOFFOLI
  | qulacs_rs_add_dense_matrix_gate
  | qulacs_rs_add_multi_Pauli_gate
  | qulacs_rs_add_multi_Pauli_rotation_gate
deriving DecidableEq, Repr

def sem : BCtor → Kind × Conv
  | .qulacs_qulacspgatepIdentity => (.Identity, .same)
  | .qulacs_qulacspgatepX => (.X, .same)
  | .qulacs_qulacspgatepY => (.Y, .same)
  | .qulacs_qulacspgatepZ => (.Z, .same)
  | .qulacs_qulacspgatepH => (.H, .same)
  | .qulacs_qulacspgatepS => (.S, .same)
  | .qulacs_qulacspgatepSdag => (.Sdag, .same)
  | .qulacs_qulacspgatepsqrtX => (.SqrtX, .same)
  | .qulacs_qulacspgatepsqrtXdag => (.SqrtXdag, .same)
  | .qulacs_qulacspgatepsqrtY => (.SqrtY, .same)
  | .qulacs_qulacspgatepsqrtYdag => (.SqrtYdag, .same)
  | .qulacs_qulacspgatepT => (.T, .same)
  | .qulacs_qulacspgatepTdag => (.Tdag, .same)
  | .qulacs_qulacspgatepRX => (.RX, .opposite)
  | .qulacs_qulacspgatepRY => (.RY, .opposite)
  | .qulacs_qulacspgatepRZ => (.RZ, .opposite)
  | .qulacs_qulacspgatepCNOT => (.CNOT, .same)
  | .qulacs_qulacspgatepCZ => (.CZ, .same)
  | .qulacs_qulacspgatepSWAP => (.SWAP, .same)
  | .qulacs_qulacspgatepTOFFOLI => (.TOFFOLI, .same)
  | .qulacs_qulacspgatepPauli => (.Pauli, .same)
  | .qulacs_qulacspgatepPauliRotation => (.PauliRotation, .opposite)
  | .qiskit_qgatepIGate => (.Identity, .same)
  | .qiskit_qgatepXGate => (.X, .same)
  | .qiskit_qgatepYGate => (.Y, .same)
  | .qiskit_qgatepZGate => (.Z, .same)
  | .qiskit_qgatepHGate => (.H, .same)
  | .qiskit_qgatepSGate => (.S, .same)
  | .qiskit_qgatepSdgGate => (.Sdag, .same)
  | .qiskit_qgatepTGate => (.T, .same)
  | .qiskit_qgatepTdgGate => (.Tdag, .same)
  | .qiskit_qgatepSXGate => (.SqrtX, .same)
  | .qiskit_qgatepSXdgGate => (.SqrtXdag, .same)
  | .qiskit_qgatepRXGate => (.RX, .same)
  | .qiskit_qgatepRYGate => (.RY, .same)
  | .qiskit_qgatepRZGate => (.RZ, .same)
  | .qiskit_qgatepCXGate => (.CNOT, .same)
  | .qiskit_qgatepCZGate => (.CZ, .same)
  | .qiskit_qgatepSwapGate => (.SWAP, .same)
  | .qiskit_qgatepCCXGate => (.TOFFOLI, .same)
  | .cirq_I => (.Identity, .same)
  | .cirq_X => (.X, .same)
  | .cirq_Y => (.Y, .same)
  | .cirq_Z => (.Z, .same)
  | .cirq_H => (.H, .same)
  | .cirq_S => (.S, .same)
  | .cirq_S_pow_m1 => (.Sdag, .same)
  | .cirq_X_pow_0p5 => (.SqrtX, .same)
  | .cirq_X_pow_m0p5 => (.SqrtXdag, .same)
  | .cirq_Y_pow_0p5 => (.SqrtY, .same)
  | .cirq_Y_pow_m0p5 => (.SqrtYdag, .same)
  | .cirq_T => (.T, .same)
  | .cirq_T_pow_m1 => (.Tdag, .same)
  | .cirq_U1 => (.U1, .same)
  | .cirq_U2 => (.U2, .same)
  | .cirq_U3 => (.U3, .same)
  | .cirq_rx => (.RX, .same)
  | .cirq_ry => (.RY, .same)
  | .cirq_rz => (.RZ, .same)
  | .cirq_CNOT => (.CNOT, .same)
  | .cirq_CZ => (.CZ, .same)
  | .cirq_SWAP => (.SWAP, .same)
  | .cirq_TOFFOLI => (.TOFFOLI, .same)
  | .braket_GatepI => (.Identity, .same)
  | .braket_GatepX => (.X, .same)
  | .braket_GatepY => (.Y, .same)
  | .braket_GatepZ => (.Z, .same)
  | .braket_GatepH => (.H, .same)
  | .braket_GatepS => (.S, .same)
  | .braket_GatepSi => (.Sdag, .same)
  | .braket_GatepT => (.T, .same)
  | .braket_GatepTi => (.Tdag, .same)
  | .braket_GatepV => (.SqrtX, .same)
  | .braket_GatepVi => (.SqrtXdag, .same)
  | .braket_GatepRx => (.RX, .same)
  | .braket_GatepRy => (.RY, .same)
  | .braket_GatepRz => (.RZ, .same)
  | .braket_GatepCNot => (.CNOT, .same)
  | .braket_GatepCZ => (.CZ, .same)
  | .braket_GatepSwap => (.SWAP, .same)
  | .braket_GatepCCNot => (.TOFFOLI, .same)
  | .tket_OpTypepnoop => (.Identity, .same)
  | .tket_OpTypepX => (.X, .same)
  | .tket_OpTypepY => (.Y, .same)
  | .tket_OpTypepZ => (.Z, .same)
  | .tket_OpTypepH => (.H, .same)
  | .tket_OpTypepS => (.S, .same)
  | .tket_OpTypepSdg => (.Sdag, .same)
  | .tket_OpTypepSX => (.SqrtX, .same)
  | .tket_OpTypepSXdg => (.SqrtXdag, .same)
  | .tket_OpTypepT => (.T, .same)
  | .tket_OpTypepTdg => (.Tdag, .same)
  | .tket_OpTypepU1 => (.U1, .halfturns)
  | .tket_OpTypepU2 => (.U2, .halfturns)
  | .tket_OpTypepU3 => (.U3, .halfturns)
  | .tket_OpTypepRx => (.RX, .halfturns)
  | .tket_OpTypepRy => (.RY, .halfturns)
  | .tket_OpTypepRz => (.RZ, .halfturns)
  | .tket_OpTypepCX => (.CNOT, .same)
  | .tket_OpTypepCZ => (.CZ, .same)
  | .tket_OpTypepSWAP => (.SWAP, .same)
  | .tket_OpTypepCCX => (.TOFFOLI, .same)
  | .stim_I => (.Identity, .same)
  | .stim_X => (.X, .same)
  | .stim_Y => (.Y, .same)
  | .stim_Z => (.Z, .same)
  | .stim_H => (.H, .same)
  | .stim_S => (.S, .same)
  | .stim_S_DAG => (.Sdag, .same)
  | .stim_SQRT_X => (.SqrtX, .same)
  | .stim_SQRT_X_DAG => (.SqrtXdag, .same)
  | .stim_SQRT_Y => (.SqrtY, .same)
  | .stim_SQRT_Y_DAG => (.SqrtYdag, .same)
  | .stim_CNOT => (.CNOT, .same)
  | .stim_CZ => (.CZ, .same)
  | .stim_SWAP => (.SWAP, .same)
  | .openqasm_id => (.Identity, .same)
  | .openqasm_x => (.X, .same)
  | .openqasm_y => (.Y, .same)
  | .openqasm_z => (.Z, .same)
  | .openqasm_h => (.H, .same)
  | .openqasm_s => (.S, .same)
  | .openqasm_sx => (.SqrtX, .same)
  | .openqasm_sdg => (.Sdag, .same)
  | .openqasm_t => (.T, .same)
  | .openqasm_tdg => (.Tdag, .same)
  | .openqasm_rx => (.RX, .same)
  | .openqasm_ry => (.RY, .same)
  | .openqasm_rz => (.RZ, .same)
  | .openqasm_cx => (.CNOT, .same)
  | .openqasm_cz => (.CZ, .same)
  | .openqasm_swap => (.SWAP, .same)
  | .openqasm_ccx => (.TOFFOLI, .same)
  | .openqasm_u1 => (.U1, .same)
  | .openqasm_u2 => (.U2, .same)
  | .openqasm_u3 => (.U3, .same)
  | .qulacs_rs_gatepIdentity => (.Identity, .same)
  | .qulacs_rs_add_X_gate => (.X, .same)
  | .qulacs_rs_add_Y_gate => (.Y, .same)
  | .qulacs_rs_add_Z_gate => (.Z, .same)
  | .qulacs_rs_add_H_gate => (.H, .same)
  | .qulacs_rs_add_S_gate => (.S, .same)
  | .qulacs_rs_add_Sdag_gate => (.Sdag, .same)
  | .qulacs_rs_add_sqrtX_gate => (.SqrtX, .same)
  | .qulacs_rs_add_sqrtXdag_gate => (.SqrtXdag, .same)
  | .qulacs_rs_add_sqrtY_gate => (.SqrtY, .same)
  | .qulacs_rs_add_sqrtYdag_gate => (.SqrtYdag, .same)
  | .qulacs_rs_add_T_gate => (.T, .same)
  | .qulacs_rs_add_Tdag_gate => (.Tdag, .same)
  | .qulacs_rs_add_RX_gate => (.RX, .opposite)
  | .qulacs_rs_add_RY_gate => (.RY, .opposite)
  | .qulacs_rs_add_RZ_gate => (.RZ, .opposite)
  | .qulacs_rs_add_U1_gate => (.U1, .same)
  | .qulacs_rs_add_U2_gate => (.U2, .same)
  | .qulacs_rs_add_U3_gate => (.U3, .same)
  | .qulacs_rs_add_CNOT_gate => (.CNOT, .same)
  | .qulacs_rs_add_CZ_gate => (.CZ, .same)
  | .qulacs_rs_add_SWAP_gate => (.SWAP, .same)
  | .qulacs_rs_gatepTOFFOLI => (.TOFFOLI, .same)
  | .qulacs_rs_add_dense_matrix_gate => (.UnitaryMatrix, .same)
  | .qulacs_rs_add_multi_Pauli_gate => (.Pauli, .same)
  | .qulacs_rs_add_multi_Pauli_rotation_gate => (.PauliRotation, .opposite)

/-- canonical symbolic instance of a gate kind on wires 0.. with parameters φ₀.. -/
def canonical (k : Kind) (neg2 : Bool) : Option (Nat × Gate) :=
  let ps (n : Nat) : List Angle := (List.range n).map fun i => if neg2 then ((Angle.var i).neg).neg else Angle.var i
  match k with
  | .Identity | .X | .Y | .Z | .H | .S | .Sdag | .SqrtX | .SqrtXdag | .SqrtY | .SqrtYdag | .T | .Tdag =>
    some (1, G k [] [0] [])
  | .RX | .RY | .RZ | .U1 => some (1, G k [] [0] (ps 1))
  | .U2 => some (1, G k [] [0] (ps 2))
  | .U3 => some (1, G k [] [0] (ps 3))
  | .CNOT | .CZ => some (2, G k [0] [1] [])
  | .SWAP => some (2, G k [] [0, 1] [])
  | .TOFFOLI => some (3, G k [0, 1] [2] [])
  | .Pauli => some (2, G k [] [0, 1] [] [1, 3])
  | .PauliRotation => some (2, G k [] [0, 1] (ps 1) [2, 3])
  | _ => none

def convOfRole (role : String) : Option Conv :=
  if role == "plain" then some .same else if role == "neg" then some .opposite
  else if role == "halfturns" then some .halfturns else none

/-- an adapter row (quri kind ↦ backend constructor fed according to `conv`) is correct when the constructor's
    assumed semantics is that very gate with that very argument convention; the gate identity is checked on the
    exact ring (for `opposite` the angle is negated by the adapter and again by the backend) -/
def rowOk (kind : Kind) (ctor : BCtor) (conv : Conv) : Bool :=
  let (k, c) := sem ctor
  (c == conv) &&
  match canonical kind false, canonical k (conv == .opposite) with
  | some (n, target), some (n', body) => n == n' && (Template.check ⟨n, target, [body]⟩)
  | _, _ => kind == k   -- kinds without a matrix model (UnitaryMatrix): names must agree

end QV.C03
