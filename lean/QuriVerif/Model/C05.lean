/-
  C05 — Operator arithmetic is a faithful image of matrix arithmetic.

  Executable model (import-free) of
    packages/core/quri_parts/core/operator/pauli.py        (PauliLabel, from_str, __str__, interning, pauli_product)
    packages/core/quri_parts/core/operator/operator.py     (Operator dict arithmetic, in-place updates)
    packages/core/quri_parts/core/operator/sparse.py       (Kronecker-product matrix export)
    packages/core/quri_parts/core/operator/representation/ (binary symplectic vectors, transition amplitudes)

  Ground truth (the *specification* everything is proved against) is the action of a dense
  Pauli string on computational-basis states, `actD`, little endian (qubit q = bit q):
      X|b> = |!b>,  Y|0> = i|1>,  Y|1> = -i|0>,  Z|b> = (-1)^b |b>.
  A phase is an exponent of i (a natural number read modulo 4).
  Coefficients are Gaussian integers `K` (exact; the harness feeds integer-valued complex floats).
-/
namespace QV.C05

/-! ## coefficients: Gaussian integers -/
structure K where
  re : Int
  im : Int
deriving DecidableEq, Repr, Inhabited

namespace K
def zero : K := ⟨0, 0⟩
def one : K := ⟨1, 0⟩
def add (a b : K) : K := ⟨a.re + b.re, a.im + b.im⟩
def neg (a : K) : K := ⟨-a.re, -a.im⟩
def sub (a b : K) : K := ⟨a.re - b.re, a.im - b.im⟩
def mul (a b : K) : K := ⟨a.re * b.re - a.im * b.im, a.re * b.im + a.im * b.re⟩
def conj (a : K) : K := ⟨a.re, -a.im⟩
def ofInt (n : Int) : K := ⟨n, 0⟩
/-- i^k -/
def ipow (k : Nat) : K :=
  match k % 4 with
  | 0 => ⟨1, 0⟩
  | 1 => ⟨0, 1⟩
  | 2 => ⟨-1, 0⟩
  | _ => ⟨0, -1⟩
/-- Python `coef == 0` on a complex number -/
def isZero (a : K) : Bool := a.re == 0 && a.im == 0
def normSq (d : K) : Int := d.re * d.re + d.im * d.im
/-- `c / d` for an exact divisor `d` (Python complex division is exact on such inputs) -/
def divExact (c d : K) : K :=
  let n := mul c (conj d)
  ⟨n.re / normSq d, n.im / normSq d⟩
/-- `d` divides `c` exactly -/
def Divides (d c : K) : Prop := mul (divExact c d) d = c
instance (d c : K) : Decidable (Divides d c) := inferInstanceAs (Decidable (_ = _))
def sum : List K → K
  | [] => zero
  | a :: r => add a (sum r)
end K

/-! ## single-qubit Paulis -/
inductive P1 | I | X | Y | Z
deriving DecidableEq, Repr, Inhabited

namespace P1
/-- `SinglePauli` integer value (0 = no Pauli on that qubit) -/
def code : P1 → Nat | I => 0 | X => 1 | Y => 2 | Z => 3
/-- `SinglePauli(o)`: raises ValueError outside 1..3 -/
def ofId? : Nat → Option P1 | 1 => some X | 2 => some Y | 3 => some Z | _ => none
def name : P1 → Char | I => 'I' | X => 'X' | Y => 'Y' | Z => 'Z'
/-- does the operator flip the bit it acts on -/
def flips : P1 → Bool | X => true | Y => true | _ => false
/-- has the operator a Z component (symplectic z bit) -/
def hasZ : P1 → Bool | Y => true | Z => true | _ => false
/-- exponent of i picked up when acting on |b> -/
def ph : P1 → Bool → Nat
  | I, _ => 0
  | X, _ => 0
  | Y, false => 1
  | Y, true => 3
  | Z, false => 0
  | Z, true => 2
/-- product table: `a·b = i^k c` as `(c, k)` -/
def mul : P1 → P1 → P1 × Nat
  | I, q => (q, 0)
  | p, I => (p, 0)
  | X, X => (I, 0)
  | X, Y => (Z, 1)
  | X, Z => (Y, 3)
  | Y, X => (Z, 3)
  | Y, Y => (I, 0)
  | Y, Z => (X, 1)
  | Z, X => (Y, 1)
  | Z, Y => (X, 3)
  | Z, Z => (I, 0)
end P1

def bitOf (b : Bool) : Nat := if b then 1 else 0

/-! ## specification: dense Pauli strings acting on basis states -/

/-- `actD ps b = (e, b')` :  P |b> = i^e |b'>  for the dense string `ps` (entry q acts on bit q) -/
def actD : List P1 → Nat → Nat × Nat
  | [], b => (0, b)
  | p :: ps, b =>
    let r := actD ps (b / 2)
    ((p.ph (b % 2 == 1) + r.1) % 4, 2 * r.2 + bitOf ((b % 2 == 1) != p.flips))

/-- entry-wise product of two dense strings (shorter one padded with I) and the accumulated phase -/
def mulD : List P1 → List P1 → List P1 × Nat
  | [], qs => (qs, 0)
  | p :: ps, [] => (p :: ps, 0)
  | p :: ps, q :: qs =>
    let m := P1.mul p q
    let r := mulD ps qs
    (m.1 :: r.1, (m.2 + r.2) % 4)

/-- `[f k, f (k+1), …, f (k+n-1)]` -/
def tab (f : Nat → P1) : Nat → Nat → List P1
  | _, 0 => []
  | k, n + 1 => f k :: tab f (k + 1) n

/-! ## sparse labels (PauliLabel = frozenset of (index, id) pairs) -/

/-- canonical representation of the frozenset: pairs sorted strictly by `key` -/
abbrev Label := List (Nat × P1)

def key (e : Nat × P1) : Nat := 4 * e.1 + e.2.code

/-- set insertion -/
def insertE (e : Nat × P1) : Label → Label
  | [] => [e]
  | x :: xs =>
    if key e < key x then e :: x :: xs
    else if key e = key x then x :: xs
    else x :: insertE e xs

def canon (es : List (Nat × P1)) : Label := es.foldr insertE []

/-- strictly sorted by key: the representation invariant of a frozenset -/
def Canonical (l : Label) : Prop := l.Pairwise (fun a b => key a < key b)
instance (l : Label) : Decidable (Canonical l) := inferInstanceAs (Decidable (List.Pairwise _ _))

/-- a *valid* Pauli label: at most one Pauli per qubit index (indices strictly increasing in the
    canonical order) and no identity entries -/
def Valid (l : Label) : Prop := l.Pairwise (fun a b => a.1 < b.1) ∧ ∀ e ∈ l, e.2 ≠ P1.I
instance (l : Label) : Decidable (Valid l) := inferInstanceAs (Decidable (_ ∧ _))

inductive Err
  | noLabel          -- ValueError "No valid Pauli label found"
  | invalidTerm      -- ValueError "Invalid Pauli label"
  | duplicateIndex   -- ValueError "Duplicate qubit index"
  | badId            -- ValueError "<o> is not a valid SinglePauli"
  | lengthMismatch   -- ValueError "Length of index and pauli unmatch"
  | assertion        -- AssertionError (sparse export)
  | emptyMax         -- ValueError "max() iterable argument is empty"
  | emptyReduce      -- TypeError "reduce() of empty iterable"
  | changedSize      -- RuntimeError "dictionary changed size during iteration"
  | badVar           -- (harness protocol only) unknown variable
deriving DecidableEq, Repr

def Err.name : Err → String
  | .noLabel => "noLabel" | .invalidTerm => "invalidTerm" | .duplicateIndex => "duplicateIndex"
  | .badId => "badId" | .lengthMismatch => "lengthMismatch" | .assertion => "assertion"
  | .emptyMax => "emptyMax" | .emptyReduce => "emptyReduce" | .changedSize => "changedSize"
  | .badVar => "badVar"

def convIds : List (Nat × Nat) → Option (List (Nat × P1))
  | [] => some []
  | (i, o) :: r =>
    match P1.ofId? o, convIds r with
    | some p, some es => some ((i, p) :: es)
    | _, _ => none

/-- `PauliLabel(pairs)`: the frozenset of the pairs; `__new__` calls `__str__`, which raises
    ValueError for an id outside 1..3.  Two different Paulis on one index are NOT rejected. -/
def mkLabel (ps : List (Nat × Nat)) : Except Err Label :=
  match convIds ps with
  | none => .error .badId
  | some es => .ok (canon es)

def zipPairs : List Nat → List Nat → List (Nat × Nat)
  | i :: is, o :: os => (i, o) :: zipPairs is os
  | _, _ => []

/-- `PauliLabel.from_index_and_pauli_list` (also `PauliLabel.of(provider)`) -/
def fromLists (idx ids : List Nat) : Except Err Label :=
  if idx.length != ids.length then .error .lengthMismatch else mkLabel (zipPairs idx ids)

/-- `pauli_at` / the finite map the label denotes -/
def lookup : Label → Nat → P1
  | [], _ => .I
  | (i, p) :: r, q => if i = q then p else lookup r q

def bound : Label → Nat
  | [] => 0
  | (i, _) :: r => max (i + 1) (bound r)

def toDense (l : Label) (n : Nat) : List P1 := tab (lookup l) 0 n

/-- action of a sparse label on a basis state, through the dense specification -/
def actL (l : Label) (b : Nat) : Nat × Nat := actD (toDense l (bound l)) b

/-! ## strings -/

def digitChar (d : Nat) : Char := Char.ofNat (48 + d)

def digitsAux : Nat → Nat → List Char → List Char
  | 0, _, acc => acc
  | fuel + 1, n, acc =>
    let acc' := digitChar (n % 10) :: acc
    if n / 10 = 0 then acc' else digitsAux fuel (n / 10) acc'

/-- Python `str(n)` for a non-negative int -/
def digits (n : Nat) : List Char := digitsAux (n + 1) n []

def termStr (e : Nat × P1) : List Char := e.2.name :: digits e.1

def joinSp : List (List Char) → List Char
  | [] => []
  | [t] => t
  | t :: r => t ++ ' ' :: joinSp r

/-- `PauliLabel.__str__` -/
def toStr (l : Label) : List Char :=
  match l with
  | [] => ['I']
  | _ => joinSp (l.map termStr)

/-- Python `str.isspace` / regex `\s` on a single character -/
def isSpace (c : Char) : Bool :=
  let n := c.toNat
  (9 ≤ n && n ≤ 13) || (28 ≤ n && n ≤ 32) || n == 0x85 || n == 0xA0 || n == 0x1680 ||
  (0x2000 ≤ n && n ≤ 0x200A) || n == 0x2028 || n == 0x2029 || n == 0x202F || n == 0x205F || n == 0x3000

def isXYZ (c : Char) : Bool := c == 'X' || c == 'Y' || c == 'Z'
def isDigit (c : Char) : Bool := 48 ≤ c.toNat && c.toNat ≤ 57

/-- `re.sub(r"([XYZ])\s*", r"\1", s)`; the flag says "directly after a matched letter" -/
def stripAfter : Bool → List Char → List Char
  | _, [] => []
  | sk, c :: cs =>
    if sk && isSpace c then stripAfter true cs
    else if isXYZ c then c :: stripAfter true cs
    else c :: stripAfter false cs

/-- `str.split()`; `cur` is the token being accumulated (reversed) -/
def splitWs : List Char → List Char → List (List Char)
  | cur, [] => if cur.isEmpty then [] else [cur.reverse]
  | cur, c :: cs =>
    if isSpace c then (if cur.isEmpty then splitWs [] cs else cur.reverse :: splitWs [] cs)
    else splitWs (c :: cur) cs

def parseDigits (ds : List Char) : Nat := ds.foldl (fun a c => 10 * a + (c.toNat - 48)) 0

def letter? (c : Char) : Option P1 :=
  if c == 'X' then some .X else if c == 'Y' then some .Y else if c == 'Z' then some .Z else none

/-- `re.fullmatch(r"([XYZ])([0-9]+)", t)` and `int(group 2)` -/
def parseTerm (t : List Char) : Option (Nat × P1) :=
  match t with
  | [] => none
  | c :: ds =>
    match letter? c with
    | none => none
    | some p => if ds.isEmpty || !ds.all isDigit then none else some (parseDigits ds, p)

def hasIndex (d : List (Nat × P1)) (i : Nat) : Bool := d.any (fun e => e.1 == i)

/-- the loop of `_parse_pauli_label_str`: a dict index → Pauli in insertion order -/
def parseTerms : List (List Char) → List (Nat × P1) → Except Err (List (Nat × P1))
  | [], d => .ok d
  | t :: ts, d =>
    match parseTerm t with
    | none => .error .invalidTerm
    | some (i, p) => if hasIndex d i then .error .duplicateIndex else parseTerms ts (d ++ [(i, p)])

/-- `PauliLabel.from_str` -/
def fromStr (s : List Char) : Except Err Label :=
  match splitWs [] (stripAfter false s) with
  | [] => .error .noLabel
  | ts =>
    match parseTerms ts [] with
    | .error e => .error e
    | .ok d => .ok (canon d)

/-! ## interning (`_pauli_cache`, a WeakValueDictionary keyed by the canonical string) -/

abbrev Cache := List (List Char × Label)

def cacheGet : Cache → List Char → Option Label
  | [], _ => none
  | (s, l) :: r, k => if s = k then some l else cacheGet r k

/-- `PauliLabel.__new__`: returns the object handed out and the new cache -/
def intern (c : Cache) (l : Label) : Label × Cache :=
  match cacheGet c (toStr l) with
  | some l' => (l', c)
  | none => (l, (toStr l, l) :: c)

/-- weak references may disappear at any time: `keep` decides which entries survive -/
def evict (c : Cache) (keep : List Bool) : Cache :=
  match c, keep with
  | [], _ => []
  | e :: r, [] => e :: r
  | e :: r, k :: ks => if k then e :: evict r ks else evict r ks

/-! ## Python dict with insertion order (used by `pauli_product`) -/

def dget (d : List (Nat × P1)) (i : Nat) : Option P1 :=
  match d with
  | [] => none
  | (j, p) :: r => if j = i then some p else dget r i

def dset (d : List (Nat × P1)) (i : Nat) (p : P1) : List (Nat × P1) :=
  match d with
  | [] => [(i, p)]
  | (j, q) :: r => if j = i then (j, p) :: r else (j, q) :: dset r i p

def ddel (d : List (Nat × P1)) (i : Nat) : List (Nat × P1) :=
  match d with
  | [] => []
  | (j, q) :: r => if j = i then r else (j, q) :: ddel r i

/-- `_pauli_products_map[(a, b)]`: `None` for equal letters -/
def prodTable (a b : P1) : Option (P1 × Nat) :=
  let m := P1.mul a b
  if m.1 = .I then none else some m

/-- one iteration of the loop of `pauli_product` -/
def prodStep (st : List (Nat × P1) × Nat) (e : Nat × P1) : List (Nat × P1) × Nat :=
  match dget st.1 e.1 with
  | some a =>
    match prodTable a e.2 with
    | none => (ddel st.1 e.1, st.2)
    | some (c, k) => (dset st.1 e.1 c, (st.2 + k) % 4)
  | none => (dset st.1 e.1 e.2, st.2)

/-- `pauli_product(pauli1, pauli2)`: label and exponent of i -/
def pauliProduct (p q : Label) : Label × Nat :=
  let st := q.foldl prodStep (p, 0)
  (canon st.1, st.2)

/-! ## Operator = dict[PauliLabel, complex] with insertion order -/

abbrev Op := List (Label × K)

def oget (op : Op) (l : Label) : Option K :=
  match op with
  | [] => none
  | (l', c) :: r => if l' = l then some c else oget r l

def oset (op : Op) (l : Label) (c : K) : Op :=
  match op with
  | [] => [(l, c)]
  | (l', c') :: r => if l' = l then (l', c) :: r else (l', c') :: oset r l c

def odel (op : Op) (l : Label) : Op :=
  match op with
  | [] => []
  | (l', c') :: r => if l' = l then r else (l', c') :: odel r l

def okeys (op : Op) : List Label := op.map (·.1)

/-- `Operator({...})` / `dict(pairs)`: later pairs overwrite earlier ones, first position kept -/
def ofPairs (ps : List (Label × K)) : Op := ps.foldl (fun o e => oset o e.1 e.2) []

/-- `Operator.add_term` -/
def addTerm (op : Op) (l : Label) (c : K) : Op :=
  if c.isZero then op
  else
    let c0 := (oget op l).getD K.zero
    let nc := K.add c0 c
    if nc.isZero && (oget op l).isSome then odel op l else oset op l nc

/-- `__iadd__` with `other` a different object -/
def iadd (a b : Op) : Op := b.foldl (fun o e => addTerm o e.1 e.2) a
/-- `__isub__` with `other` a different object -/
def isub (a b : Op) : Op := b.foldl (fun o e => addTerm o e.1 (K.mul (K.ofInt (-1)) e.2)) a
def add (a b : Op) : Op := iadd a b      -- copy(); copied += other
def sub (a b : Op) : Op := isub a b
/-- `op * scalar`, `scalar * op` -/
def smul (k : K) (a : Op) : Op := a.map fun e => (e.1, K.mul k e.2)
/-- `op1 * op2` -/
def mul (a b : Op) : Op :=
  a.foldl (fun ret e =>
    b.foldl (fun ret f =>
      let pr := pauliProduct e.1 f.1
      addTerm ret pr.1 (K.mul (K.mul e.2 f.2) (K.ipow pr.2))) ret) []
/-- `__itruediv__` / `__truediv__`: every coefficient assigned in place -/
def idiv (a : Op) (k : K) : Op := a.map fun e => (e.1, K.divExact e.2 k)
/-- `hermitian_conjugated`: assigns (no add_term) -/
def herm (a : Op) : Op := a.map fun e => (e.1, K.conj e.2)
def commutator (a b : Op) : Op := sub (mul a b) (mul b a)
def constant (a : Op) : K := (oget a []).getD K.zero
def setConstant (a : Op) (c : K) : Op := oset a [] c

/-! ### aliasing: `a += a`, `a -= a` iterate over the dict they mutate -/

/-- iteration of `self.items()` while `add_term` mutates `self`: a deletion changes the size and the
    next step of the iterator raises RuntimeError (the deletion stays) -/
def selfLoop (f : K → K) : List (Label × K) → Op → Op × Option Err
  | [], cur => (cur, none)
  | (l, _) :: rest, cur =>
    let c := (oget cur l).getD K.zero
    let nxt := addTerm cur l (f c)
    if nxt.length != cur.length then (nxt, some .changedSize) else selfLoop f rest nxt

def iaddSelf (a : Op) : Op × Option Err := selfLoop id a a
def isubSelf (a : Op) : Op × Option Err := selfLoop (fun c => K.mul (K.ofInt (-1)) c) a a

/-! ### histories of in-place updates over a heap of operator objects -/

inductive Cmd
  | iadd (i j : Nat)
  | isub (i j : Nat)
  | idiv (i : Nat) (k : K)
  | addTerm (i : Nat) (l : Label) (c : K)
  | setConst (i : Nat) (c : K)
  | setItem (i : Nat) (l : Label) (c : K)
deriving DecidableEq, Repr

def hget (h : List Op) (i : Nat) : Op := h.getD i []

/-- what the real objects do -/
def stepReal (h : List Op) : Cmd → List Op × Option Err
  | .iadd i j =>
    if i = j then let r := iaddSelf (hget h i); (h.set i r.1, r.2)
    else (h.set i (iadd (hget h i) (hget h j)), none)
  | .isub i j =>
    if i = j then let r := isubSelf (hget h i); (h.set i r.1, r.2)
    else (h.set i (isub (hget h i) (hget h j)), none)
  | .idiv i k => (h.set i (idiv (hget h i) k), none)
  | .addTerm i l c => (h.set i (addTerm (hget h i) l c), none)
  | .setConst i c => (h.set i (setConstant (hget h i) c), none)
  | .setItem i l c => (h.set i (oset (hget h i) l c), none)

/-- the value semantics: every update replaces object `i` by the value of the pure expression -/
def stepPure (h : List Op) : Cmd → List Op
  | .iadd i j => h.set i (add (hget h i) (hget h j))
  | .isub i j => h.set i (sub (hget h i) (hget h j))
  | .idiv i k => h.set i (idiv (hget h i) k)
  | .addTerm i l c => h.set i (addTerm (hget h i) l c)
  | .setConst i c => h.set i (setConstant (hget h i) c)
  | .setItem i l c => h.set i (oset (hget h i) l c)

/-- run a history; stops at the first exception (which propagates to the caller) -/
def runReal : List Op → List Cmd → List Op × Option Err
  | h, [] => (h, none)
  | h, c :: cs =>
    match stepReal h c with
    | (h', none) => runReal h' cs
    | (h', some e) => (h', some e)

def runPure : List Op → List Cmd → List Op
  | h, [] => h
  | h, c :: cs => runPure (stepPure h c) cs

/-- no `a -= a` in the history -/
def Cmd.noSelfSub : Cmd → Bool
  | .isub i j => i != j
  | _ => true

/-! ## matrix elements -/

/-- `<m| P |n>` for a label -/
def ampL (l : Label) (m n : Nat) : K :=
  let r := actL l n
  if r.2 = m then K.ipow r.1 else K.zero

/-- `<m| O |n>` -/
def amp (op : Op) (m n : Nat) : K := K.sum (op.map fun e => K.mul e.2 (ampL e.1 m n))

/-! ## binary symplectic vectors and transition amplitudes (representation/) -/

structure BSV where
  x : Nat
  z : Nat
  ph : Nat        -- phase = i^ph  (the code multiplies by -1j per Y)
deriving DecidableEq, Repr

def bsvStep (s : BSV) (e : Nat × P1) : BSV :=
  let b := 1 <<< e.1
  match e.2 with
  | .X => ⟨s.x + b, s.z, s.ph⟩
  | .Y => ⟨s.x + b, s.z + b, (s.ph + 3) % 4⟩
  | .Z => ⟨s.x, s.z + b, s.ph⟩
  | .I => s

/-- `pauli_label_to_bsv` -/
def bsv (l : Label) : BSV := l.foldl bsvStep ⟨0, 0, 0⟩

abbrev TRepr := List (Nat × List (K × Nat))

def tget (r : TRepr) (x : Nat) : Option (List (K × Nat)) :=
  match r with
  | [] => none
  | (y, v) :: t => if y = x then some v else tget t x

/-- `ret[x].append(v)` on a defaultdict(list) -/
def tappend (r : TRepr) (x : Nat) (v : K × Nat) : TRepr :=
  match r with
  | [] => [(x, [v])]
  | (y, w) :: t => if y = x then (y, w ++ [v]) :: t else (y, w) :: tappend t x v

/-- `transition_amp_representation` -/
def tampRepr (op : Op) : TRepr :=
  op.foldl (fun r e => let s := bsv e.1; tappend r s.x (K.mul e.2 (K.ipow s.ph), s.z)) []

def popc : Nat → Nat → Nat
  | 0, _ => 0
  | f + 1, n => n % 2 + popc f (n / 2)

/-- `bin(n).count("1")` -/
def popcount (n : Nat) : Nat := popc n n

/-- `parity_sign_of_bits` -/
def paritySign (n : Nat) : K := K.ofInt (1 - 2 * ((popcount n % 2 : Nat) : Int))

/-- `transition_amp_comp_basis` -/
def tamp (r : TRepr) (m n : Nat) : K :=
  match tget r (m ^^^ n) with
  | none => K.zero
  | some lst => lst.foldl (fun v cz => K.add v (K.mul (paritySign (cz.2 &&& m)) cz.1)) K.zero

/-! ## Kronecker-product export (sparse.py) -/

/-- the 2×2 matrix of a single Pauli, entry (r, c) -/
def mat1 (p : P1) (r c : Bool) : K := if r = (c != p.flips) then K.ipow (p.ph c) else K.zero

/-- `single_pauli_list`: n identities, then `list[n - bit - 1] = pauli` for every pair -/
def placeList (l : Label) (n : Nat) : List P1 :=
  l.foldl (fun acc e => acc.set (n - e.1 - 1) e.2) (List.replicate n .I)

/-- entry (m, n) of `reduce(kron, [A_0, …, A_{k-1}])`, the list given reversed (last factor first):
    the last factor is the least significant bit -/
def kronRev : List P1 → Nat → Nat → K
  | [], m, n => if m = 0 ∧ n = 0 then K.one else K.zero
  | p :: r, m, n => K.mul (kronRev r (m / 2) (n / 2)) (mat1 p (m % 2 == 1) (n % 2 == 1))

def maxIndex (l : Label) : Nat := bound l - 1

/-- `_convert_pauli_label_to_sparse` for known `n_qubits`: entry function -/
def sparseLabel (l : Label) (n : Nat) : Except Err (Nat → Nat → K) :=
  if !l.isEmpty && n < bound l then .error .assertion
  else if n = 0 then .error .emptyReduce
  else .ok (kronRev (placeList l n).reverse)

def sparseTerms : Op → Nat → Except Err (Nat → Nat → K)
  | [], _ => .ok fun _ _ => K.zero
  | (l, c) :: r, n =>
    match sparseLabel l n, sparseTerms r n with
    | .ok f, .ok g => .ok fun a b => K.add (K.mul c (f a b)) (g a b)
    | .error e, _ => .error e
    | _, .error e => .error e

/-- `_convert_operator_to_sparse`: dimension exponent and entry function (the zero operator with
    `n_qubits=None` is a 1×1 zero matrix: exponent 0) -/
def sparseOp (op : Op) (n? : Option Nat) : Except Err (Nat × (Nat → Nat → K)) :=
  if op.isEmpty then .ok (n?.getD 0, fun _ _ => K.zero)
  else
    let nq : Except Err Nat :=
      match n? with
      | some n => .ok n
      | none =>
        match (okeys op).filter (fun l => !l.isEmpty) with
        | [] => .error .emptyMax
        | ls => .ok (ls.foldl (fun a l => max a (bound l)) 0)
    match nq with
    | .error e => .error e
    | .ok n =>
      match sparseTerms op n with
      | .error e => .error e
      | .ok f => .ok (n, f)

end QV.C05
