/-
  C13 — Fermion-to-qubit mappings treat operators and states consistently.

  Executable model of
    * packages/core/quri_parts/core/utils/binary_field.py
        BinaryArray (`_b`, `_length`), BinaryMatrix (list of rows), `@`, transpose, hstack, `inverse`
        (Gauss–Jordan *including* the behaviour on singular input: a stale `pivot_row`, which is an
        alias of a row object, and the UnboundLocalError when the first column is zero);
    * packages/openfermion/quri_parts/openfermion/transforms/__init__.py
        `_inv_state_transformation_matrix` (rows/signs from the mapped number operators – the mapped
        operators themselves are an INPUT: they come from OpenFermion), the constructor checks,
        `state_mapper`, `inv_state_mapper`, `_augment_dropped_bits`, `_get_scbk_parity_factor`;
    * packages/openfermion/quri_parts/openfermion/utils/post_selection_filters.py (three filters);
    * packages/chem/quri_parts/chem/utils/spin.py (`occupation_state_sz`, as 2·sz ∈ ℤ).

  Import-free; structural recursion only.  Python exceptions are values of `Err`.
-/
namespace QV.C13

inductive Err where
  | valueError | unboundLocalError | assertionError | stopIteration | indexError
deriving DecidableEq, Repr

def Err.name : Err → String
  | .valueError => "ValueError"
  | .unboundLocalError => "UnboundLocalError"
  | .assertionError => "AssertionError"
  | .stopIteration => "StopIteration"
  | .indexError => "IndexError"

abbrev R := Except Err

deriving instance DecidableEq for Except

/-! ## BinaryArray -/

/-- `BinaryArray`: `_b` (bitset as an unbounded integer) and `_length` -/
structure BArr where
  b : Nat
  len : Nat
deriving DecidableEq, Repr

/-- the integer built by `BinaryArray.__init__` from an iterable of truth values -/
def packBits : List Bool → Nat
  | [] => 0
  | x :: xs => (if x then 1 else 0) + 2 * packBits xs

def BArr.ofBools (l : List Bool) : BArr := ⟨packBits l, l.length⟩

/-- `a[i]` = `_b >> i & 1` (no bounds check in the source either) -/
def BArr.get (a : BArr) (i : Nat) : Bool := a.b.testBit i

/-- `list(a)` -/
def BArr.toBools (a : BArr) : List Bool := (List.range a.len).map a.b.testBit

/-- `sum(bits of x below k) % 2` -/
def parityLow : Nat → Nat → Bool
  | _, 0 => false
  | x, k + 1 => Bool.xor (x.testBit 0) (parityLow (x / 2) k)

/-- number of set bits of x below k -/
def popLow : Nat → Nat → Nat
  | _, 0 => 0
  | x, k + 1 => (if x.testBit 0 then 1 else 0) + popLow (x / 2) k

/-- `a += o` -/
def BArr.add (a o : BArr) : R BArr :=
  if a.len != o.len then throw .valueError else pure ⟨a.b ^^^ o.b, a.len⟩

/-- `a *= o` -/
def BArr.mul (a o : BArr) : R BArr :=
  if a.len != o.len then throw .valueError else pure ⟨a.b &&& o.b, a.len⟩

/-- `a @ o` = `sum(a * o) % 2` -/
def BArr.dot (a o : BArr) : R Bool :=
  if a.len != o.len then throw .valueError else pure (parityLow (a.b &&& o.b) a.len)

/-! ## BinaryMatrix -/

abbrev BMat := List BArr

/-- `BinaryMatrix(iter)`: all rows must have the length of the first -/
def BMat.mk? (rows : List BArr) : R BMat :=
  match rows with
  | [] => pure []
  | r0 :: rs => if rs.all (fun r => r.len == r0.len) then pure (r0 :: rs) else throw .valueError

/-- `m @ v` for a BinaryArray `v`: `BinaryArray(r @ v for r in rows)`; the first row of another length
    raises (no side effect is observable, so the check is done up front) -/
def matVec (m : BMat) (v : BArr) : R BArr :=
  if m.all (fun r => r.len == v.len) then
    pure (BArr.ofBools (m.map fun r => parityLow (r.b &&& v.b) v.len))
  else throw .valueError

def minLen : List BArr → Nat
  | [] => 0
  | [r] => r.len
  | r :: rs => min r.len (minLen rs)

/-- `m.transpose()` = `BinaryMatrix(list(zip(*rows)))` -/
def transpose (m : BMat) : BMat :=
  (List.range (minLen m)).map fun j => BArr.ofBools (m.map fun r => r.get j)

/-- `a @ b` for a BinaryMatrix `b` -/
def matMul (a b : BMat) : R BMat := do
  let bt := transpose b
  let rows ← a.mapM (fun r => bt.mapM (fun c => r.dot c))
  BMat.mk? (rows.map BArr.ofBools)

/-- `chain(a, b)` packed again -/
def BArr.chain (a o : BArr) : BArr := ⟨a.b % 2 ^ a.len + 2 ^ a.len * (o.b % 2 ^ o.len), a.len + o.len⟩

def zipChain : List BArr → List BArr → List BArr
  | a :: as, b :: bs => a.chain b :: zipChain as bs
  | _, _ => []

def hstack (a b : BMat) : R BMat :=
  if a.length != b.length then throw .valueError else BMat.mk? (zipChain a b)

/-- rows `i0, i0+1, …` of the identity: `BinaryMatrix((i == j for j in range(n)) for i in range(n))` -/
def eyeFrom (n : Nat) : Nat → Nat → List BArr
  | _, 0 => []
  | i, k + 1 => ⟨2 ^ i, n⟩ :: eyeFrom n (i + 1) k

def eye (n : Nat) : BMat := eyeFrom n 0 n

/-! ## `inverse` : Gauss–Jordan on the integer rows of `hstack(mat, eye)` -/

/-- loop state: the rows' `_b` values and the *position* of the row object `pivot_row` is bound to
    (`none` = the local variable is unbound).  Positions are a faithful model of the alias: a bound
    pivot row is never moved by a later swap. -/
structure GJ where
  rows : List Nat
  piv : Option Nat
deriving DecidableEq, Repr

def rowAt (rows : List Nat) (i : Nat) : Nat := rows.getD i 0

/-- `mat_aug[i] += pivot_row` with `pivot_row` the object at position `p` (for `i = p` the row
    becomes zero, as `self._b ^= other._b` does when `self is other`) -/
def addRow (rows : List Nat) (i p : Nat) : List Nat := rows.set i (rowAt rows i ^^^ rowAt rows p)

def swapRows (rows : List Nat) (i j : Nat) : List Nat := (rows.set i (rowAt rows j)).set j (rowAt rows i)

/-- `if mat_aug[i, j] != val: mat_aug[i] += pivot_row` -/
def elimOne (j i : Nat) (val : Bool) (st : GJ) : R GJ :=
  if (rowAt st.rows i).testBit j != val then
    match st.piv with
    | none => throw .unboundLocalError
    | some p => pure { st with rows := addRow st.rows i p }
  else pure st

/-- first `i` in `i0, i0+1, …` (k candidates) with bit `j` set -/
def findUp (rows : List Nat) (j : Nat) : Nat → Nat → Option Nat
  | _, 0 => none
  | i, k + 1 => if (rowAt rows i).testBit j then some i else findUp rows j (i + 1) k

/-- `for i in range(i0, i0 + k)` of the forward elimination -/
def elimUp (j : Nat) : Nat → Nat → GJ → R GJ
  | _, 0, st => pure st
  | i, k + 1, st => do
    let st' ← elimOne j i (i == j) st
    elimUp j (i + 1) k st'

def pivotUp (n j : Nat) (st : GJ) : GJ :=
  match findUp st.rows j j (n - j) with
  | some i => { rows := if i != j then swapRows st.rows i j else st.rows, piv := some j }
  | none => st

def fwdCol (n j : Nat) (st : GJ) : R GJ := elimUp j j (n - j) (pivotUp n j st)

/-- `for j in range(j0, j0 + k)` of the first loop nest -/
def fwd (n : Nat) : Nat → Nat → GJ → R GJ
  | _, 0, st => pure st
  | j, k + 1, st => do
    let st' ← fwdCol n j st
    fwd n (j + 1) k st'

/-- first `i` in `hi-1, hi-2, …, lo` with bit `j` set -/
def findDown (rows : List Nat) (j lo : Nat) : Nat → Option Nat
  | 0 => none
  | hi + 1 => if hi < lo then none else if (rowAt rows hi).testBit j then some hi else findDown rows j lo hi

/-- `for i in range(j - 1, -1, -1)` of the backward elimination (`val` is always 0 there) -/
def elimDown (j : Nat) : Nat → GJ → R GJ
  | 0, st => pure st
  | i + 1, st => do
    let st' ← elimOne j i false st
    elimDown j i st'

def pivotDown (n j : Nat) (st : GJ) : GJ :=
  match findDown st.rows j j n with
  | some i => { st with piv := some i }
  | none => st

/-- `for j in range(j0 - 1, -1, -1)` of the second loop nest -/
def bwd (n : Nat) : Nat → GJ → R GJ
  | 0, st => pure st
  | j + 1, st => do
    let st' ← elimDown j j (pivotDown n j st)
    bwd n j st'

def gaussJordan (n : Nat) (rows : List Nat) : R (List Nat) := do
  let st ← fwd n 0 n ⟨rows, none⟩
  let st' ← bwd n n st
  pure st'.rows

/-- `list(row)[n:]` packed again -/
def BArr.dropLow (a : BArr) (n : Nat) : BArr := ⟨(a.b % 2 ^ a.len) / 2 ^ n, a.len - n⟩

def zipRows : List BArr → List Nat → List BArr
  | a :: as, b :: bs => ⟨b, a.len⟩ :: zipRows as bs
  | _, _ => []

/-- the loops of `inverse(mat)`: `hstack(mat, eye)` and its integer rows after both loop nests -/
def inverseAug (mat : BMat) : R (List BArr × List Nat) := do
  let n := mat.length
  let aug ← hstack mat (eye n)
  let rows ← gaussJordan n (aug.map (·.b))
  pure (aug, rows)

/-- `inverse(mat)`; `mat` is a BinaryMatrix (all rows of one length) -/
def inverse (mat : BMat) : R BMat := do
  let (aug, rows) ← inverseAug mat
  BMat.mk? ((zipRows aug rows).map fun r => r.dropLow mat.length)

/-! ## the mappings -/

inductive MapKind where | jw | bk | scbk
deriving DecidableEq, Repr

/-- a qubit-operator term: Pauli label as `(qubit, pauli id)` (1 = X, 2 = Y, 3 = Z) and an integer
    coefficient -/
abbrev PTerm := List (Nat × Nat) × Int

def setBitList (n : Nat) (idxs : List Nat) : List Bool :=
  (List.range n).map fun k => idxs.contains k

/-- one iteration of the loop of `_inv_state_transformation_matrix`: row and "sign is −1" -/
def invStateRow (n : Nat) (op : List PTerm) : R (BArr × Bool) :=
  match op with
  | _ :: _ :: _ => throw .valueError
  | [] => throw .stopIteration
  | [(label, coef)] =>
    if coef != 1 && coef != -1 then throw .assertionError
    else if label.any (fun ip => ip.2 != 3) then throw .valueError
    else if label.any (fun ip => ip.1 ≥ n) then throw .indexError
    else pure (BArr.ofBools (setBitList n (label.map (·.1))), coef == -1)

structure Mapping where
  kind : MapKind
  nSpin : Nat
  nFermions : Option Nat
  sz2 : Option Int
  invMat : BMat
  /-- `true` ↔ the sign stored in `_signs` is −1 -/
  signs : List Bool
  transMat : BMat
deriving Repr

def Mapping.nQubits (m : Mapping) : Nat :=
  match m.kind with
  | .scbk => m.nSpin - 2
  | _ => m.nSpin

/-- `OpenFermionQubitMapping.__init__`; `ops i` = the mapped operator of `1 − 2 nᵢ` -/
def mkMapping (kind : MapKind) (n : Nat) (nf : Option Nat) (sz2 : Option Int) (ops : List (List PTerm)) :
    R Mapping := do
  if let some k := nf then
    if k > n then throw .assertionError
  if kind == .scbk then
    if nf.isNone then throw .valueError
    if sz2.isNone then throw .valueError
  let rs ← ops.mapM (invStateRow n)
  let inv ← BMat.mk? (rs.map (·.1))
  let tr ← inverse inv
  pure { kind := kind, nSpin := n, nFermions := nf, sz2 := sz2, invMat := inv, signs := rs.map (·.2), transMat := tr }

def hasDup : List Nat → Bool
  | [] => false
  | x :: xs => xs.contains x || hasDup xs

/-- `2 * occupation_state_sz(occ)` -/
def occSz2 : List Nat → Int
  | [] => 0
  | i :: is => (if i % 2 == 1 then -1 else 1) + occSz2 is

def occVector (m : Mapping) (occ : List Nat) : BArr :=
  BArr.ofBools ((List.range m.nSpin).map fun i => Bool.xor (occ.contains i) (m.signs.getD i false))

/-- the checks at the top of the state mapper -/
def stateChecks (m : Mapping) (occ : List Nat) : R Unit := do
  if hasDup occ then throw .valueError
  if let some k := m.nFermions then
    if occ.length != k then throw .valueError
  if let some s := m.sz2 then
    if s != occSz2 occ then throw .valueError

/-- the linear part of the state mapper: `(trans_mat @ v).binary & (2**n_qubits - 1)` -/
def stateCore (m : Mapping) (v : BArr) : R Nat := do
  let q ← matVec m.transMat v
  pure (q.b &&& (2 ^ m.nQubits - 1))

def stateMapper (m : Mapping) (occ : List Nat) : R Nat := do
  stateChecks m occ
  stateCore m (occVector m occ)

/-- `_augment_dropped_bits` -/
def augment (k : MapKind) (bs : List Bool) : List Bool :=
  match k with
  | .scbk => bs ++ [false, false]
  | _ => bs

def qubitVector (m : Mapping) (bits : Nat) : BArr :=
  BArr.ofBools (augment m.kind ((List.range m.nQubits).map bits.testBit))

def occupancySet (signs : List Bool) (ov : BArr) : List Nat :=
  (List.range ov.len).filter fun i => ov.get i != signs.getD i false

def invStateMapper (m : Mapping) (bits : Nat) : R (List Nat) := do
  let ov ← matVec m.invMat (qubitVector m bits)
  pure (occupancySet m.signs ov)

/-- `_get_scbk_parity_factor(n_fermions, sz)` for `n_fermions + 2 sz ≥ 0`; `true` = the factor is −1 -/
def scbkParityFactor (nf : Nat) (sz2 : Int) : Bool × Bool :=
  (((nf : Int) + sz2).tdiv 2 % 2 != 0, nf % 2 != 0)

/-! ## post-selection filters -/

/-- the binary digits of `bits`, least significant first (`bin(bits)[:1:-1]`, except that 0 gives
    `[]` instead of `"0"` – no "1" either way); `fuel` = `bits` always suffices -/
def bitsLE : Nat → Nat → List Bool
  | 0, _ => []
  | f + 1, x => if x = 0 then [] else x.testBit 0 :: bitsLE f (x / 2)

/-- `s[::2]` -/
def evens : List Bool → List Bool
  | [] => []
  | [x] => [x]
  | x :: _ :: xs => x :: evens xs

/-- `s[1::2]` -/
def odds : List Bool → List Bool
  | [] => []
  | _ :: xs => evens xs

def countTrue (l : List Bool) : Nat := (l.filter id).length

/-- `create_jw_electron_number_post_selection_filter_fn(n_electrons, sz)(bits)`:
    `bin(bits)[-1:1:-2]` are the even positions of the reversed digit string, `[-2:1:-2]` the odd ones -/
def jwFilter (ne : Nat) (sz2 : Option Int) (bits : Nat) : Bool :=
  let ds := bitsLE bits bits
  match sz2 with
  | some s =>
    if (countTrue (evens ds) : Int) - (countTrue (odds ds) : Int) != s then false
    else countTrue ds == ne
  | none => countTrue ds == ne

/-- the BK / SCBK filters: `ComputationalBasisState(qubit_count, bits)`, inverse state mapper, tests -/
def invFilter (m : Mapping) (qc ne : Nat) (sz2 : Option Int) (bits : Nat) : R Bool := do
  if bits ≥ 2 ^ qc then throw .valueError
  let occ ← invStateMapper m bits
  match sz2 with
  | some s => if occSz2 occ != s then pure false else pure (occ.length == ne)
  | none => pure (occ.length == ne)

/-! ## specification-level notions used by the theorems and by the generated instance table -/

/-- GF(2) linear combination of `rows` selected by the bits of `s` : `s · rows` -/
def comb : List Nat → Nat → Nat
  | [], _ => 0
  | r :: rs, s => (if s.testBit 0 then r else 0) ^^^ comb rs (s / 2)

/-- rows `r < nq` of `T · M` are the unit vectors -/
def leftIdOn (nq : Nat) (T M : List Nat) : Bool :=
  (List.range nq).all fun r => comb M (rowAt T r) == 2 ^ r

/-- shape invariant of a constructed mapping (what `mkMapping` establishes for square input) -/
def Mapping.wf (m : Mapping) : Bool :=
  m.invMat.length == m.nSpin && m.invMat.all (fun r => r.len == m.nSpin) &&
  m.transMat.length == m.nSpin && m.transMat.all (fun r => r.len == m.nSpin) &&
  m.signs.length == m.nSpin && (m.kind != .scbk || 2 ≤ m.nSpin)

/-- `trans · inv` is the identity on the first `n_qubits` rows -/
def Mapping.leftId (m : Mapping) : Bool :=
  leftIdOn m.nQubits (m.transMat.map (·.b)) (m.invMat.map (·.b))

/-- `inv · trans` is the identity -/
def Mapping.rightId (m : Mapping) : Bool :=
  leftIdOn m.nSpin (m.invMat.map (·.b)) (m.transMat.map (·.b))

/-- sign of the eigenvalue of the mapped `1 − 2 nᵢ` (= `sᵢ · Z_{rowᵢ}`) on the basis state `bits`:
    `true` ↔ −1 ↔ "orbital i reads as occupied" -/
def numberReads (m : Mapping) (i bits : Nat) : Bool :=
  Bool.xor (m.signs.getD i false) (parityLow (rowAt (m.invMat.map (·.b)) i &&& bits) m.nSpin)

/-- the occupation list as the real inverse mapper returns it: ascending, below `n` -/
def occOf (n : Nat) (occ : List Nat) : List Nat := (List.range n).filter fun i => occ.contains i

/-- a square BinaryMatrix: `n` rows of length `n` (with `_b < 2^n`, as the constructor guarantees) -/
def squareWf (mat : BMat) : Bool :=
  mat.all fun r => r.len == mat.length && decide (r.b < 2 ^ mat.length)

/-- number of positions `i < N` with `p i` (specification side of the filters) -/
def countBelow (p : Nat → Bool) (N : Nat) : Nat := ((List.range N).filter p).length

/-- the first loop nest finds a pivot in every column (`pivot_row` is never stale) -/
def fwdPivots (n : Nat) : Nat → Nat → GJ → Bool
  | _, 0, _ => true
  | j, k + 1, st =>
    (findUp st.rows j j (n - j)).isSome &&
      match fwdCol n j st with
      | .ok st' => fwdPivots n (j + 1) k st'
      | .error _ => false

/-- the augmented rows `hstack(mat, eye)` of a square matrix given by its integer rows -/
def augRowsFrom (n : Nat) : Nat → List Nat → List Nat
  | _, [] => []
  | i, a :: as => (a % 2 ^ n + 2 ^ n * 2 ^ i) :: augRowsFrom n (i + 1) as

def augRows (rows : List Nat) : List Nat := augRowsFrom rows.length 0 rows

def pivotsFound (rows : List Nat) : Bool :=
  fwdPivots rows.length 0 rows.length ⟨augRows rows, none⟩

/-- an instance of the data OpenFermion contributes: the rows and signs of the mapped number operators -/
structure Inst where
  kind : MapKind
  n : Nat
  rows : List Nat
  signs : List Bool
deriving Repr

def Inst.invMat (i : Inst) : BMat := i.rows.map fun b => ⟨b, i.n⟩

def Inst.nQubits (i : Inst) : Nat :=
  match i.kind with
  | .scbk => i.n - 2
  | _ => i.n

/-- the mapping object the constructor builds from this data (for any requested sector) -/
def Inst.mapping (i : Inst) (nf : Option Nat) (sz2 : Option Int) : Option Mapping :=
  match inverse i.invMat with
  | .ok T => some { kind := i.kind, nSpin := i.n, nFermions := nf, sz2 := sz2, invMat := i.invMat,
                    signs := i.signs, transMat := T }
  | .error _ => none

/-- well-formed, `inverse` succeeds, its result is a left inverse on the first `n_qubits` rows,
    and (JW/BK) every pivot is found and the result is also a right inverse -/
def Inst.check (i : Inst) : Bool :=
  match i.mapping none none with
  | some m => m.wf && m.leftId && squareWf i.invMat &&
      (i.kind == .scbk || (pivotsFound i.rows && m.rightId))
  | none => false

/-! ## `FermionCreationTerm` (chem/transforms): sign from the order of creation operators -/

/-- `sum(x > arr[k] for k in later positions)` -/
def countGreater (x : Nat) : List Nat → Nat
  | [] => 0
  | y :: ys => (if x > y then 1 else 0) + countGreater x ys

/-- `FermionCreationTerm._inversion_number` -/
def inversionNumber : List Nat → Nat
  | [] => 0
  | x :: xs => countGreater x xs + inversionNumber xs

def insertSorted (x : Nat) : List Nat → List Nat
  | [] => [x]
  | y :: ys => if x ≤ y then x :: y :: ys else y :: insertSorted x ys

/-- `sorted(indices)` -/
def sortNat : List Nat → List Nat
  | [] => []
  | x :: xs => insertSorted x (sortNat xs)

/-- `FermionCreationTerm(indices, 1)`: (`coef` is −1, `indices`) -/
def creationTerm (idx : List Nat) : Bool × List Nat := (inversionNumber idx % 2 != 0, sortNat idx)

end QV.C13
