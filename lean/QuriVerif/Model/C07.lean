/-
  C07 model: Pauli grouping (`pauli_grouping.py`), binary symplectic vectors
  (`bsf.py`), the measurement circuit and the reconstructor of
  `bitwise_commuting_pauli.py`.  Labels are association lists
  (qubit index, pauli id 1..3) in iteration order.  Import-free.

  `bsv` uses `|||` where the code uses `+=` on `1 << i`; the two agree on valid
  labels (one Pauli per index) – the correspondence harness compares bit-exactly.
-/
namespace QV.C07

abbrev Label := List (Nat × Nat)

structure Bsv where
  x : Nat
  z : Nat
deriving Repr, DecidableEq, Inhabited

def bsv (l : Label) : Bsv :=
  l.foldl (fun v e =>
    if e.2 == 1 then { v with x := v.x ||| 2 ^ e.1 }
    else if e.2 == 2 then { x := v.x ||| 2 ^ e.1, z := v.z ||| 2 ^ e.1 }
    else if e.2 == 3 then { v with z := v.z ||| 2 ^ e.1 }
    else v) ⟨0, 0⟩

/-- `bsv_bitwise_commute` -/
def bitwiseCommute (a b : Bsv) : Bool := ((a.x &&& b.z) ^^^ (a.z &&& b.x)) == 0

def Bsv.or (a b : Bsv) : Bsv := ⟨a.x ||| b.x, a.z ||| b.z⟩

structure Group where
  mask : Bsv
  members : List Label
deriving Repr, Inhabited

/-- `_add_pauli_to_groups`: first compatible group, mask OR-accumulated -/
def addToGroups (p : Label) (v : Bsv) : List Group → List Group
  | [] => [⟨v, [p]⟩]
  | g :: gs =>
    if bitwiseCommute v g.mask then ⟨v.or g.mask, g.members ++ [p]⟩ :: gs
    else g :: addToGroups p v gs

/-- `sorted_injection_grouping` on an already ordered list of labels -/
def sortedInjection (ps : List Label) : List Group :=
  ps.foldl (fun gs p => addToGroups p (bsv p) gs) []

inductive Cls | identity | allX | allY | allZ | mixed
deriving Repr, DecidableEq

/-- the has_X / has_Y / has_Z scan (the early `break` does not change the outcome) -/
def classify (p : Label) : Cls :=
  if p.isEmpty then .identity else
  let hx := p.any (·.2 == 1)
  let hy := p.any (·.2 == 2)
  let hz := p.any (·.2 == 3)
  if hx && !hy && !hz then .allX
  else if !hx && hy && !hz then .allY
  else if !hx && !hy && hz then .allZ
  else .mixed

structure BwState where
  groups : List Group := []
  identity : List Label := []
  allX : List Label := []
  allY : List Label := []
  allZ : List Label := []
deriving Repr, Inhabited

def bwStep (s : BwState) (p : Label) : BwState :=
  match classify p with
  | .identity => { s with identity := s.identity ++ [p] }
  | .allX => { s with allX := s.allX ++ [p] }
  | .allY => { s with allY := s.allY ++ [p] }
  | .allZ => { s with allZ := s.allZ ++ [p] }
  | .mixed => { s with groups := addToGroups p (bsv p) s.groups }

/-- `bitwise_pauli_grouping`: the list of groups (as member lists) in the order the code builds it -/
def bitwiseGrouping (ps : List Label) : List (List Label) :=
  let s := ps.foldl bwStep {}
  s.groups.map (·.members)
    ++ (if s.identity.isEmpty then [] else [s.identity])
    ++ (if s.allX.isEmpty then [] else [s.allX])
    ++ (if s.allY.isEmpty then [] else [s.allY])
    ++ (if s.allZ.isEmpty then [] else [s.allZ])

def individualGrouping (ps : List Label) : List (List Label) := ps.map fun p => [p]

/-! measurement circuit -/

inductive MGate | H (q : Nat) | Sdag (q : Nat)
deriving Repr, DecidableEq

def mapLookup (m : List (Nat × Nat)) (i : Nat) : Option Nat := (m.find? (·.1 == i)).map (·.2)

/-- the `pauli_map` loop; `none` = conflicting Paulis at some qubit (ValueError) -/
def buildMap (set : List Label) : Option (List (Nat × Nat)) :=
  set.foldl (fun acc l => l.foldl (fun acc e =>
    match acc with
    | none => none
    | some m =>
      match mapLookup m e.1 with
      | some p => if p != e.2 then none else some m   -- same value re-assigned: order unchanged
      | none => some (m ++ [e])) acc) (some [])

inductive MRes
  | ok (gates : List MGate)
  | valueError
deriving Repr, DecidableEq

def measCircuit (set : List Label) : MRes :=
  if set.isEmpty then .valueError else
  match buildMap set with
  | none => .valueError
  | some m => .ok (m.flatMap fun e =>
      if e.2 == 1 then [MGate.H e.1] else if e.2 == 2 then [MGate.Sdag e.1, MGate.H e.1] else [])

def popcountParity : Nat → Nat → Bool   -- parity of the low `fuel` bits
  | 0, _ => false
  | fuel + 1, n => (n % 2 == 1) != popcountParity fuel (n / 2)

/-- `bitwise_pauli_reconstructor_factory(pauli)(bits)` : +1 ↦ false, -1 ↦ true -/
def reconstructor (p : Label) (bits : Nat) : Bool :=
  if p.isEmpty then false else
  let v := bsv p
  let m := bits &&& (v.z ||| v.x)
  popcountParity (m.log2 + 1) m

end QV.C07
