import QuriVerif.Found.Template
/-
  Executable model of the transpiler passes of quri-parts on circuits whose
  angles lie on the grid `ℤ·π/64` (so every decision of the real code –
  `is_close`, `%`, `np.round` – has an exact counterpart).  Rewrite templates,
  ladders and tables come from `Generated/*` (translated from the working tree);
  the loops are transcribed by hand and tied to the code by the correspondence
  harness (`harness/c01.py`).
-/
namespace QV.C01
open QV

/-- gate with parameters of type `α` (numeric: `Int` in units of π/64; symbolic: `Angle`) -/
structure PGate (α : Type) where
  kind : Kind
  controls : List Nat := []
  targets : List Nat := []
  params : List α := []
  paulis : List Nat := []
deriving Repr, DecidableEq, Inhabited

/-- numeric gate: angles in units of π/64 -/
abbrev NGate := PGate Int

def unitsPerQuarterPi : Int := 16
def twoPi : Int := 128

class AngleLike (α : Type) where
  ofQuarterPi : Int → α

instance : AngleLike Int := ⟨fun k => k * 16⟩
instance : AngleLike Angle := ⟨fun k => ⟨[], k⟩⟩

def PGate.toGate (g : PGate Angle) : Gate :=
  { kind := g.kind, controls := g.controls, targets := g.targets, params := g.params, paulis := g.paulis }

def evalAngle (a : Angle) (ps : List Int) : Int :=
  (List.zip a.cs ps).foldl (fun s (c, p) => s + c * p) 0 + a.k * unitsPerQuarterPi

/-- instantiate a template at a concrete gate: template wire `i` is the `i`-th of
    `controls ++ targets` of the gate -/
def instantiate (t : Template) (g : NGate) : List NGate :=
  let ws := g.controls ++ g.targets
  let w (i : Nat) : Nat := ws.getD i 0
  t.body.map fun b =>
    { kind := b.kind, controls := b.controls.map w, targets := b.targets.map w,
      params := b.params.map (evalAngle · g.params), paulis := b.paulis }

abbrev Table := List (String × Kind × Template)

def lookupKind (tbl : Table) (names : List String) (k : Kind) : Option Template :=
  match tbl.find? (fun e => e.2.1 == k && names.contains e.1) with
  | some e => some e.2.2
  | none => none

/-- `GateKindDecomposer` / `ParallelDecomposer.__call__` -/
def decompPass (tbl : Table) (names : List String) (c : List NGate) : List NGate :=
  c.flatMap fun g =>
    match lookupKind tbl names g.kind with
    | some t => instantiate t g
    | none => [g]

/-- `AdjacentGateFuser.__call__` (with fuel; `none` = fuel exhausted) -/
def fuserLoop {G : Type} (k : Nat) (isT : List G → Bool) (fuse : List G → List G) :
    Nat → List G → List G → Option (List G)
  | 0, _, _ => none
  | fuel + 1, xs, ys =>
    if k ≤ xs.length then
      if isT (xs.take k) then fuserLoop k isT fuse fuel (fuse (xs.take k) ++ xs.drop k) ys
      else
        match xs with
        | x :: rest => fuserLoop k isT fuse fuel rest (ys ++ [x])
        | [] => some ys
    else some (ys ++ xs)

def emod (a m : Int) : Int := a % m   -- Int.emod: result in [0, m) for m > 0, like Python's float %

def isRot (k : Kind) : Bool := k == .RX || k == .RY || k == .RZ

def rotIsTarget (ts : List NGate) : Bool :=
  match ts with
  | [l, r] => isRot l.kind && l.kind == r.kind && l.targets == r.targets
  | _ => false

def rotFuse (ts : List NGate) : List NGate :=
  match ts with
  | [l, r] => [{ kind := l.kind, targets := l.targets,
                 params := [emod (l.params.getD 0 0 + r.params.getD 0 0) twoPi] }]
  | _ => ts

def fuseRotPass (c : List NGate) : Option (List NGate) :=
  fuserLoop 2 rotIsTarget rotFuse (c.length + 1) c []

def chcIsTarget (ts : List NGate) : Bool :=
  match ts with
  | [a, b, c] => a.kind == .CNOT && b.kind == .H && c.kind == .CNOT &&
      a.controls == c.controls && a.targets == c.targets && a.controls == b.targets
  | _ => false

def chcFuse (tpl : Template) (ts : List NGate) : List NGate :=
  match ts with
  | a :: _ => instantiate tpl a
  | [] => []

def countKind (k : Kind) (c : List NGate) : Nat := (c.filter (·.kind == k)).length

def fuseCHCPass (tpl : Template) (c : List NGate) : Option (List NGate) :=
  fuserLoop 3 chcIsTarget (chcFuse tpl) (c.length + 5 * countKind .CNOT c + 1) c []

/-- `NormalizeRotationTranspiler` with lower bound `lo` (units) -/
def normalizePass (lo : Int) (c : List NGate) : List NGate :=
  c.map fun g => if isRot g.kind then { g with params := [emod (g.params.getD 0 0 - lo) twoPi + lo] } else g

/-- rows of a threshold ladder -/
inductive Cond
  | close (ths : List Int)      -- |θ − c| < ε for some listed c (units of π/4)
  | notClose (ths : List Int)   -- for no listed c
  | always
deriving Repr

structure LadderRow where
  cond : Cond
  alts : List (Option Template)   -- `none` = the gate is returned unchanged
deriving Repr

structure Ladder where
  kind : Kind
  paramIdx : Nat
  mod2pi : Bool
  rows : List LadderRow
deriving Repr

def condHolds (θ : Int) : Cond → Bool
  | .close ths => ths.any fun c => θ == c * unitsPerQuarterPi
  | .notClose ths => ths.all fun c => θ != c * unitsPerQuarterPi
  | .always => true

def ladderAngle (l : Ladder) (g : NGate) : Int :=
  if l.mod2pi then emod (g.params.getD l.paramIdx 0) twoPi else g.params.getD l.paramIdx 0

def ladderRowOut (r : LadderRow) (alt : Nat) (g : NGate) : List NGate :=
  match r.alts.getD (if r.alts.length == 1 then 0 else alt) none with
  | none => [g]
  | some t => instantiate t g

def ladderGate (l : Ladder) (alt : Nat) (g : NGate) : List NGate :=
  if g.kind != l.kind then [g] else
  match l.rows.find? (fun r => condHolds (ladderAngle l g) r.cond) with
  | none => [g]
  | some r => ladderRowOut r alt g

def ladderPass (ls : List Ladder) (alt : Nat) (c : List NGate) : List NGate :=
  c.flatMap fun g =>
    match ls.find? (·.kind == g.kind) with
    | some l => ladderGate l alt g
    | none => [g]

/-- `CliffordConversionTranspiler.__call__` (the per-call cache never changes the
    candidate chosen: the first candidate ⊆ target set) -/
def clifConvPass (table : List (Kind × List (List Kind))) (cliff1q : List Kind) (tset : List Kind)
    (c : List NGate) : List NGate :=
  c.flatMap fun g =>
    if !cliff1q.contains g.kind then [g]
    else if tset.contains g.kind then [g]
    else match table.find? (·.1 == g.kind) with
      | none => [g]
      | some (_, cands) =>
        match cands.find? (fun cand => cand.all tset.contains) with
        | some cand => cand.map fun k => { kind := k, targets := g.targets }
        | none => [g]

def idElimPass (c : List NGate) : List NGate := c.filter (·.kind != .Identity)

def idInsertPass (n : Nat) (c : List NGate) : List NGate :=
  let used := c.flatMap fun g => g.controls ++ g.targets
  let missing := (List.range n).filter fun q => !used.contains q
  if missing.isEmpty then c else c ++ missing.map fun q => { kind := .Identity, targets := [q] }

/-- `PauliDecomposeTranspiler.decompose` -/
def pauliDec {α : Type} (g : PGate α) : List (PGate α) :=
  (List.zip g.targets g.paulis).filterMap fun (q, p) =>
    if p == 1 then some { kind := .X, targets := [q] }
    else if p == 2 then some { kind := .Y, targets := [q] }
    else if p == 3 then some { kind := .Z, targets := [q] }
    else none

def rotGates {α : Type} [AngleLike α] (sign : Int) (g : PGate α) : List (PGate α) :=
  (List.zip g.targets g.paulis).filterMap fun (q, p) =>
    if p == 1 then some { kind := .H, targets := [q] }
    else if p == 2 then some { kind := .RX, targets := [q], params := [AngleLike.ofQuarterPi (sign * 2)] }
    else none

/-- `PauliRotationDecomposeTranspiler.decompose` -/
def pauliRotDec {α : Type} [AngleLike α] (g : PGate α) : List (PGate α) :=
  match g.targets with
  | [] => []
  | q0 :: rest =>
    rotGates 1 g ++ (rest.reverse.map fun q => ({ kind := .CNOT, controls := [q], targets := [q0] } : PGate α))
      ++ [{ kind := .RZ, targets := [q0], params := g.params }]
      ++ (rest.map fun q => ({ kind := .CNOT, controls := [q], targets := [q0] } : PGate α))
      ++ rotGates (-1) g

def pauliDecPass (c : List NGate) : List NGate :=
  c.flatMap fun g => if g.kind == .Pauli then pauliDec g else [g]

def pauliRotDecPass (c : List NGate) : List NGate :=
  c.flatMap fun g => if g.kind == .PauliRotation then pauliRotDec g else [g]

/-- `CliffordApproximationTranspiler`: nearest multiple of π/2, ties as `np.round`
    (half to even).  `q = 2θ/π` in exact arithmetic is `θ/32` units. -/
def roundHalfEven (num den : Int) : Int :=
  -- round(num/den), den > 0
  let fl := num / den   -- floor (Int.div rounds toward -∞ for positive den with `/` = Int.div? we use ediv)
  let r := num - fl * den
  if 2 * r < den then fl else if 2 * r > den then fl + 1 else (if fl % 2 == 0 then fl else fl + 1)

def cliffSetFor (k : Kind) (i : Int) : Kind :=
  match k, i with
  | .RX, 1 => .SqrtX | .RX, 2 => .X | .RX, 3 => .SqrtXdag
  | .RY, 1 => .SqrtY | .RY, 2 => .Y | .RY, 3 => .SqrtYdag
  | .RZ, 1 => .S | .RZ, 2 => .Z | .RZ, 3 => .Sdag
  | _, _ => .Identity

def approxRot (g : NGate) : NGate :=
  if isRot g.kind then
    { kind := cliffSetFor g.kind (emod (roundHalfEven (g.params.getD 0 0) 32) 4), targets := [g.targets.getD 0 0] }
  else g

/-- QuantinuumCNOTRZ2RZZ-style scan with explicit index (`i < len - 2`) -/
def cnotRzRzzLoop : Nat → List NGate → List NGate → List NGate
  | 0, xs, ys => ys ++ xs
  | fuel + 1, xs, ys =>
    match xs with
    | a :: b :: c :: rest =>
      if a.kind == .CNOT && b.kind == .RZ && c.kind == .CNOT &&
         a.controls == c.controls && a.targets == b.targets && b.targets == c.targets then
        cnotRzRzzLoop fuel rest (ys ++ [{ kind := .RZZ, targets := a.controls ++ a.targets, params := b.params }])
      else cnotRzRzzLoop fuel (b :: c :: rest) (ys ++ [a])
    | _ => ys ++ xs

def cnotRzRzzPass (c : List NGate) : List NGate := cnotRzRzzLoop (c.length + 1) c []


/-! ### pipelines -/

inductive Pass
  | decomp (names : List String)
  | fuseRot | fuseCHC | normalize (lo : Int)
  | ladder (names : List String) (alt : Nat)
  | clifConv (tset : List Kind)
  | idElim | idInsert (n : Nat) | pauliDec | pauliRotDec | um1 | um2 | cnotRzRzz | cliffApprox
  | rotConv (rots fav : List Kind)
  | gateSetConv (gs : List Kind) (validate : Bool)
deriving Repr, BEq, Inhabited

def rotationFuser : List Pass :=
  [.fuseRot, .normalize 0, .ladder ["ZeroRotationEliminationTranspiler"] 0]

def rotation2Named : List Pass :=
  [.ladder ["RX2NamedTranspiler"] 0, .ladder ["RY2NamedTranspiler"] 0, .ladder ["RZ2NamedTranspiler"] 0]

def cliff1qAll : List Kind :=
  [.Identity, .X, .Y, .Z, .H, .S, .Sdag, .SqrtX, .SqrtXdag, .SqrtY, .SqrtYdag]

/-- `RotationConversionTranspiler._construct_decomposer` -/
def rotConvPipeline (rots fav : List Kind) : List Pass :=
  let has (k : Kind) := rots.contains k
  let only (ks : List Kind) := ks.all has && [Kind.RX, .RY, .RZ].all fun k => has k == ks.contains k
  if only [.RX, .RY, .RZ] then []
  else if only [.RX, .RY] then [.decomp ["RZ2RXRYTranspiler"]]
  else if only [.RY, .RZ] then [.decomp ["RX2RYRZTranspiler"]]
  else if only [.RX, .RZ] then [.decomp ["RY2RXRZTranspiler"]]
  else if only [.RZ] then
    if !fav.contains .H && fav.contains .SqrtX then
      [.decomp ["RX2RZSqrtXTranspiler"], .decomp ["RY2RZSqrtXTranspiler"]]
    else [.decomp ["RX2RZHTranspiler"], .decomp ["RY2RZHTranspiler"]]
  else []

def collect (gs : List Kind) (tbl : List (Kind × Pass)) : List Pass :=
  tbl.filterMap fun (k, p) => if gs.contains k then none else some p

/-- `GateSetConversionTranspiler._construct_decomposer` -/
def gateSetPipeline (gs : List Kind) : List Pass :=
  let tclif := cliff1qAll.filter gs.contains
  let trot := [Kind.RX, .RY, .RZ].filter gs.contains
  collect gs [(.Pauli, .pauliDec), (.PauliRotation, .pauliRotDec), (.UnitaryMatrix, .um1),
              (.TOFFOLI, .decomp ["TOFFOLI2HTTdagCNOTTranspiler"]), (.U1, .decomp ["U1ToRZTranspiler"]),
              (.U2, .decomp ["U2ToRXRZTranspiler"]), (.U3, .decomp ["U3ToRXRZTranspiler"])]
  ++ collect gs [(.SWAP, .decomp ["SWAP2CNOTTranspiler"]), (.CZ, .decomp ["CZ2CNOTHTranspiler"]),
                 (.CNOT, .decomp ["CNOT2CZHTranspiler"])]
  ++ (if tclif.isEmpty then [] else rotationFuser ++ rotation2Named ++ [.clifConv tclif])
  ++ (if gs.contains .Identity then [] else [.idElim])
  ++ collect gs [(.H, .decomp ["H2RXRYTranspiler"]), (.X, .decomp ["X2RXTranspiler"]), (.Y, .decomp ["Y2RYTranspiler"]),
                 (.Z, .decomp ["Z2RZTranspiler"]), (.SqrtX, .decomp ["SqrtX2RXTranspiler"]),
                 (.SqrtXdag, .decomp ["SqrtXdag2RXTranspiler"]), (.SqrtY, .decomp ["SqrtY2RYTranspiler"]),
                 (.SqrtYdag, .decomp ["SqrtYdag2RYTranspiler"]), (.S, .decomp ["S2RZTranspiler"]),
                 (.Sdag, .decomp ["Sdag2RZTranspiler"]), (.T, .decomp ["T2RZTranspiler"]),
                 (.Tdag, .decomp ["Tdag2RZTranspiler"])]
  ++ rotationFuser
  ++ [.rotConv trot tclif]
  ++ rotationFuser

structure Env where
  templates : Table
  ladders : List (String × Ladder)
  clifTable : List (Kind × List (List Kind))
  cliff1q : List Kind
  chc : Template

mutual
def runPass (e : Env) : Nat → Pass → List NGate → Except String (List NGate)
  | 0, _, _ => .error "fuel"
  | fuel + 1, p, c =>
    match p with
    | .decomp names => .ok (decompPass e.templates names c)
    | .fuseRot => match fuseRotPass c with | some r => .ok r | none => .error "fuel"
    | .fuseCHC => match fuseCHCPass e.chc c with | some r => .ok r | none => .error "fuel"
    | .normalize lo => .ok (normalizePass lo c)
    | .ladder names alt => .ok (ladderPass ((e.ladders.filter fun l => names.contains l.1).map (·.2)) alt c)
    | .clifConv tset => .ok (clifConvPass e.clifTable e.cliff1q tset c)
    | .idElim => .ok (idElimPass c)
    | .idInsert n => .ok (idInsertPass n c)
    | .pauliDec => .ok (pauliDecPass c)
    | .pauliRotDec => .ok (pauliRotDecPass c)
    | .um1 | .um2 => .ok c
    | .cnotRzRzz => .ok (cnotRzRzzPass c)
    | .cliffApprox => .error "cliffApprox is driven separately"
    | .rotConv rots fav =>
      match runSeq e fuel (rotConvPipeline rots fav) c with
      | .error m => .error m
      | .ok r => if r.any fun g => isRot g.kind && !rots.contains g.kind then .error "ValueError" else .ok r
    | .gateSetConv gs validate =>
      match runSeq e fuel (gateSetPipeline gs) c with
      | .error m => .error m
      | .ok r => if validate && r.any (fun g => !gs.contains g.kind) then .error "ValueError" else .ok r
def runSeq (e : Env) : Nat → List Pass → List NGate → Except String (List NGate)
  | 0, _, _ => .error "fuel"
  | _ + 1, [], c => .ok c
  | fuel + 1, p :: ps, c =>
    match runPass e fuel p c with
    | .error m => .error m
    | .ok r => runSeq e fuel ps r
end

end QV.C01
