import QuriVerif.Found.Gate
/-
  C16 — Computational-basis state calculus (model).

  Mirrors, line by line,
    packages/core/quri_parts/core/state/comp_basis.py   (_add_single_pauli, _add_pauli,
        ComputationalBasisState.{__init__, circuit, with_pauli_gate_applied, with_gates_applied},
        comp_basis_superposition)
    packages/core/quri_parts/core/utils/bit.py           (get_bit, different_bit_index, lowest_bit_index)
    packages/core/quri_parts/core/state/state.py         (GeneralCircuitQuantumState.with_gates_applied)
    packages/core/quri_parts/core/state/state_vector.py  (QuantumStateVector.with_gates_applied)
  and the two checks of `circuit + gates` that the state classes rely on (qubit-count equality for a
  circuit operand, index range for a gate-list operand).

  Two semantics are defined here (they are *definitions*, used by the theorems of Props/C16.lean):
    * `apply1` … the text-book action of a 2×2 matrix on qubit `q` of an amplitude function
      `Nat → GI` (Gaussian integers), with the Pauli matrices of gates.py;
    * `stepS` … a term-rewriting ("sparse") semantics over the exact ring `Poly` for the three gate
      kinds that `comp_basis_superposition` emits (X, all-X PauliRotation, RZ); it does not depend
      on the register size.  Its agreement with the dense embedding semantics of Found/Gate.lean
      is kernel-checked on small registers (Props) and against numpy on every run (harness).

  Only structural recursion / `List` combinators; imports Found only.
-/
namespace QV.C16
open QV

/-- Python exception classes that the modelled code can raise -/
inductive Err where
  | value | key | index | attribute
  deriving DecidableEq, Repr

def Err.name : Err → String
  | .value => "ValueError" | .key => "KeyError" | .index => "IndexError" | .attribute => "AttributeError"

instance decEqExcept {ε α : Type} [DecidableEq ε] [DecidableEq α] : DecidableEq (Except ε α) := fun a b =>
  match a, b with
  | .ok x, .ok y => if h : x = y then isTrue (by rw [h]) else isFalse (fun e => h (by cases e; rfl))
  | .error x, .error y => if h : x = y then isTrue (by rw [h]) else isFalse (fun e => h (by cases e; rfl))
  | .ok _, .error _ => isFalse (fun e => by cases e)
  | .error _, .ok _ => isFalse (fun e => by cases e)

inductive P1 where
  | X | Y | Z
  deriving DecidableEq, Repr

/-- `_as_tuple()` : `(qubit_count, bits, phase)`; the phase counts quarter turns and is an unbounded
    Python int (it is never reduced mod 4) -/
structure CB where
  n : Nat
  bits : Nat
  phase : Int
  deriving DecidableEq, Repr

/-- invariant established by `__init__` : `0 ≤ bits < 2**n` -/
def CB.wf (s : CB) : Prop := s.bits < 2 ^ s.n

instance (s : CB) : Decidable s.wf := by unfold CB.wf; exact inferInstance

/-- a `QuantumGate` as far as the state classes look at it.  `params` are affine forms in
    (θ, φ) (only used for emitted gates); `tag` is an opaque identifier of the float parameters /
    matrix of an input gate, copied verbatim. -/
structure RGate where
  kind : Kind
  targets : List Nat := []
  controls : List Nat := []
  paulis : List Nat := []
  params : List Angle := []
  tag : Nat := 0
  deriving DecidableEq, Repr

/-- `ComputationalBasisState.__init__` -/
def mkCB (n : Nat) (bits : Int) : Except Err CB :=
  if bits < 0 ∨ bits ≥ 2 ^ n then .error .value else .ok ⟨n, bits.toNat, 0⟩

/-- `_add_single_pauli` -/
def addSinglePauli (s : CB) (p : P1) (idx : Nat) : Except Err CB :=
  if idx ≥ s.n then .error .value
  else
    let isOne := s.bits.testBit idx
    let bits := match p with
      | .X | .Y => s.bits ^^^ (1 <<< idx)
      | .Z => s.bits
    let phase := match p with
      | .Y => if isOne then s.phase + (-1) else s.phase + 1
      | .Z => if isOne then s.phase + 2 else s.phase
      | .X => s.phase
    .ok ⟨s.n, bits, phase⟩

/-- `_PAULI_NAME_TABLE[pauli_id]` (`none` = KeyError) -/
def pauliOfId : Nat → Option P1
  | 1 => some .X
  | 2 => some .Y
  | 3 => some .Z
  | _ => none

def isPauliKind : Kind → Bool
  | .X | .Y | .Z | .Pauli => true
  | _ => false

/-- the loop of the multi-qubit branch: `for index, pauli_id in zip(targets, pauli_ids)` -/
def addFactors (s : CB) : List (Nat × Nat) → Except Err CB
  | [] => .ok s
  | (idx, pid) :: r =>
    match pauliOfId pid with
    | none => .error .key
    | some p =>
      match addSinglePauli s p idx with
      | .error e => .error e
      | .ok s' => addFactors s' r

/-- `_add_pauli` -/
def addPauli (s : CB) (g : RGate) : Except Err CB :=
  match g.kind with
  | .Pauli => addFactors s (List.zip g.targets g.paulis)
  | .X => match g.targets with | [] => .error .index | i :: _ => addSinglePauli s .X i
  | .Y => match g.targets with | [] => .error .index | i :: _ => addSinglePauli s .Y i
  | .Z => match g.targets with | [] => .error .index | i :: _ => addSinglePauli s .Z i
  | _ => .error .value

/-- `for gate in gate_seq: state = _add_pauli(state, gate)` -/
def track (s : CB) : List RGate → Except Err CB
  | [] => .ok s
  | g :: gs =>
    match addPauli s g with
    | .error e => .error e
    | .ok s' => track s' gs

/-- `ComputationalBasisState.circuit` : X on every set bit, ascending -/
def xGates : Nat → Nat → List RGate
  | 0, _ => []
  | n + 1, bits => xGates n bits ++ (if bits.testBit n then [{ kind := .X, targets := [n] }] else [])

/-- the argument of `with_gates_applied` : a sequence of gates, or a circuit object with its own qubit count -/
inductive GateSeq where
  | gates (gs : List RGate)
  | circuit (n : Nat) (gs : List RGate)
  deriving DecidableEq, Repr

def GateSeq.list : GateSeq → List RGate
  | .gates gs => gs
  | .circuit _ gs => gs

def gateInRange (n : Nat) (g : RGate) : Bool := (g.targets ++ g.controls).all (· < n)

/-- `circuit + gates` (`ImmutableQuantumCircuit.__add__`): a circuit operand must have the same qubit
    count, the gates of a list operand must be in range; both failures are `ValueError` -/
def circuitAdd (n : Nat) (base : List RGate) : GateSeq → Except Err (List RGate)
  | .gates gs => if gs.all (gateInRange n) then .ok (base ++ gs) else .error .value
  | .circuit m gs => if m = n then .ok (base ++ gs) else .error .value

/-- result of `ComputationalBasisState.with_gates_applied` -/
inductive Derived where
  | cb (s : CB)
  | gen (n : Nat) (gs : List RGate)
  deriving DecidableEq, Repr

/-- `ComputationalBasisState.with_gates_applied` -/
def withGatesApplied (s : CB) (seq : GateSeq) : Except Err Derived :=
  if seq.list.all (fun g => isPauliKind g.kind) then
    match track s seq.list with
    | .error e => .error e
    | .ok s' => .ok (.cb s')
  else
    match circuitAdd s.n (xGates s.n s.bits) seq with
    | .error e => .error e
    | .ok c => .ok (.gen s.n c)

/-! ### bit.py -/

/-- `for i in range(fuel): if x & (1 << i): return i` starting at `i` -/
def lowestFrom (x : Nat) : Nat → Nat → Option Nat
  | 0, _ => none
  | f + 1, i => if x.testBit i then some i else lowestFrom x f (i + 1)

/-- `lowest_bit_index` : ValueError for 0 and when none of the bits 0..63 is set -/
def lowestBitIndex (x : Nat) : Except Err Nat :=
  if x = 0 then .error .value
  else match lowestFrom x 64 0 with
    | some i => .ok i
    | none => .error .value

def differentBitIndex (x y : Nat) : Except Err Nat := lowestBitIndex (x ^^^ y)

/-! ### comp_basis_superposition -/

/-- `-2 * theta` (θ is angle variable 0) -/
def rotAngle : Angle := ⟨[-2], 0⟩

/-- `2 * sign * (0.5 * (phi + pb·π/2 − pa·π/2) − 0.25·π)` (φ is angle variable 1; constant in units of π/4) -/
def rzAngle (sgn pa pb : Int) : Angle := ⟨[0, sgn], sgn * (2 * (pb - pa) - 2)⟩

/-- `[i for i in range(n) if get_bit(xor, i)]` -/
def rotTargets : Nat → Nat → List Nat
  | 0, _ => []
  | n + 1, m => rotTargets n m ++ (if m.testBit n then [n] else [])

def rotGate (ts : List Nat) : RGate :=
  { kind := .PauliRotation, targets := ts, paulis := ts.map (fun _ => 1), params := [rotAngle] }

def rzGate (d : Nat) (sgn pa pb : Int) : RGate :=
  { kind := .RZ, targets := [d], params := [rzAngle sgn pa pb] }

/-- the gate list of the circuit returned by `comp_basis_superposition(state_a, state_b, θ, φ)` -/
def supCircuit (sa sb : CB) : Except Err (List RGate) :=
  if sa.n ≠ sb.n then .error .value
  else if sa.bits = sb.bits then .ok (xGates sa.n sa.bits)
  else
    match differentBitIndex sa.bits sb.bits with
    | .error e => .error e
    | .ok d =>
      let sgn : Int := if sb.bits.testBit d then 1 else -1
      .ok (xGates sa.n sa.bits ++
        [rotGate (rotTargets sa.n (sa.bits ^^^ sb.bits)), rzGate d sgn sa.phase sb.phase])

/-! ### objects and derivation histories -/

/-- a state object.  `cache` is the `cached_property circuit` slot of a ComputationalBasisState
    (filled on first access); `vid` identifies the vector array of a QuantumStateVector. -/
inductive St where
  | cb (s : CB) (cache : Option (List RGate))
  | gen (n : Nat) (gs : List RGate)
  | vec (n : Nat) (vid : Nat) (gs : List RGate)
  deriving DecidableEq, Repr

inductive Op where
  /-- `ComputationalBasisState(n, bits=bits)` -/
  | mk (n : Nat) (bits : Int)
  /-- `QuantumStateVector(n, vector)` -/
  | mkVec (n : Nat) (vid : Nat)
  /-- `objs[src].with_gates_applied(seq)` -/
  | derive (src : Nat) (seq : GateSeq)
  /-- `objs[src].with_pauli_gate_applied(g)` -/
  | pauli (src : Nat) (g : RGate)
  /-- read `objs[src].circuit` -/
  | touch (src : Nat)
  /-- `comp_basis_superposition(objs[a], objs[b], θ, φ)` -/
  | sup (a b : Nat)
  deriving DecidableEq, Repr

def St.n : St → Nat
  | .cb s _ => s.n
  | .gen n _ => n
  | .vec n _ _ => n

/-- what an observer can read off an object: `(qubit_count, bits, phase)` / the circuit's gates / the vector id -/
structure Obs where
  tag : Nat
  n : Nat
  bits : Nat
  phase : Int
  gates : List RGate
  vid : Nat
  deriving DecidableEq, Repr

def St.obs : St → Obs
  | .cb s c => ⟨0, s.n, s.bits, s.phase, c.getD (xGates s.n s.bits), 0⟩
  | .gen n gs => ⟨1, n, 0, 0, gs, 0⟩
  | .vec n v gs => ⟨2, n, 0, 0, gs, v⟩

/-- the cache slot, when filled, holds the circuit of the (immutable) tuple -/
def St.coherent : St → Prop
  | .cb s (some c) => c = xGates s.n s.bits
  | _ => True

def setAt (l : List St) (i : Nat) (x : St) : List St :=
  match l, i with
  | [], _ => []
  | _ :: r, 0 => x :: r
  | y :: r, i + 1 => y :: setAt r i x

/-- one operation: the new store and the exception raised (if any).  A new object is appended;
    `touch` fills a cache slot; nothing else is written. -/
def step (st : List St) : Op → List St × Option Err
  | .mk n bits =>
    match mkCB n bits with
    | .error e => (st, some e)
    | .ok s => (st ++ [.cb s none], none)
  | .mkVec n vid => (st ++ [.vec n vid []], none)
  | .derive src seq =>
    match st[src]? with
    | none => (st, some .index)
    | some (.cb s c) =>
      if seq.list.all (fun g => isPauliKind g.kind) then
        match track s seq.list with
        | .error e => (st, some e)
        | .ok s' => (st ++ [.cb s' none], none)
      else
        -- `self.circuit` is read (and cached) before `+` can fail
        let st' := setAt st src (.cb s (some (c.getD (xGates s.n s.bits))))
        match circuitAdd s.n (c.getD (xGates s.n s.bits)) seq with
        | .error e => (st', some e)
        | .ok gs => (st' ++ [.gen s.n gs], none)
    | some (.gen n gs) =>
      match circuitAdd n gs seq with
      | .error e => (st, some e)
      | .ok gs' => (st ++ [.gen n gs'], none)
    | some (.vec n v gs) =>
      match circuitAdd n gs seq with
      | .error e => (st, some e)
      | .ok gs' => (st ++ [.vec n v gs'], none)
  | .pauli src g =>
    match st[src]? with
    | none => (st, some .index)
    | some (.cb s _) =>
      match addPauli s g with
      | .error e => (st, some e)
      | .ok s' => (st ++ [.cb s' none], none)
    | some _ => (st, some .attribute)
  | .touch src =>
    match st[src]? with
    | none => (st, some .index)
    | some (.cb s c) => (setAt st src (.cb s (some (c.getD (xGates s.n s.bits)))), none)
    | some _ => (st, none)
  | .sup a b =>
    match st[a]?, st[b]? with
    | some sa, some sb =>
      if sa.n ≠ sb.n then (st, some .value)
      else match sa, sb with
        | .cb ca _, .cb cb' _ =>
          match supCircuit ca cb' with
          | .error e => (st, some e)
          | .ok gs => (st ++ [.gen ca.n gs], none)
        | _, _ => (st, some .attribute)
    | _, _ => (st, some .index)

def run (st : List St) : List Op → List St
  | [] => st
  | op :: ops => run (step st op).1 ops

/-! ### semantics 1 : matrix action on amplitude functions (Gaussian integers) -/

structure GI where
  re : Int
  im : Int
  deriving DecidableEq, Repr

namespace GI
def zero : GI := ⟨0, 0⟩
def one : GI := ⟨1, 0⟩
def I : GI := ⟨0, 1⟩
def neg (z : GI) : GI := ⟨-z.re, -z.im⟩
def add (a b : GI) : GI := ⟨a.re + b.re, a.im + b.im⟩
def mul (a b : GI) : GI := ⟨a.re * b.re - a.im * b.im, a.re * b.im + a.im * b.re⟩
/-- `i^k` -/
def iPow (k : Int) : GI :=
  match (k % 4).toNat with
  | 0 => one
  | 1 => I
  | 2 => neg one
  | _ => neg I
end GI

/-- the Pauli matrices documented in gates.py : entry (row, column) -/
def pauliMat : P1 → Bool → Bool → GI
  | .X, r, c => if r = c then GI.zero else GI.one
  | .Y, true, false => GI.I
  | .Y, false, true => GI.neg GI.I
  | .Y, _, _ => GI.zero
  | .Z, false, false => GI.one
  | .Z, true, true => GI.neg GI.one
  | .Z, _, _ => GI.zero

abbrev Amp := Nat → GI

/-- a 2×2 matrix `M` acting on qubit `q` (little endian: qubit `q` is bit `q` of the basis index):
    `(Mψ)(x) = M[r][r]·ψ(x) + M[r][¬r]·ψ(x with bit q flipped)`, `r` = bit `q` of `x` -/
def apply1 (M : Bool → Bool → GI) (q : Nat) (ψ : Amp) : Amp := fun x =>
  let r := x.testBit q
  GI.add (GI.mul (M r r) (ψ x)) (GI.mul (M r (!r)) (ψ (x ^^^ 2 ^ q)))

/-- `i^phase · |bits⟩` -/
def ket (s : CB) : Amp := fun x => if x = s.bits then GI.iPow s.phase else GI.zero

/-- `(target, pauli_id)` pairs as (qubit, Pauli) factors; `none` if an id is not 1, 2, 3 -/
def pairFactors : List (Nat × Nat) → Option (List (Nat × P1))
  | [] => some []
  | (i, pid) :: r =>
    match pauliOfId pid, pairFactors r with
    | some p, some fs => some ((i, p) :: fs)
    | _, _ => none

/-- a well-formed Pauli-kind gate as a list of (qubit, Pauli) factors; the multi-qubit `Pauli` gate is
    the product of its factors (they act on distinct qubits, so this is the tensor product) -/
def factors (g : RGate) : Option (List (Nat × P1)) :=
  match g.kind with
  | .X => match g.targets with | [] => none | i :: _ => some [(i, .X)]
  | .Y => match g.targets with | [] => none | i :: _ => some [(i, .Y)]
  | .Z => match g.targets with | [] => none | i :: _ => some [(i, .Z)]
  | .Pauli => pairFactors (List.zip g.targets g.paulis)
  | _ => none

def semFactors (fs : List (Nat × P1)) (ψ : Amp) : Amp :=
  fs.foldl (fun acc (i, p) => apply1 (pauliMat p) i acc) ψ

/-- action of a list of Pauli-kind gates, first gate first (gates that are not well-formed Pauli gates act as identity;
    the theorems only speak about lists that `track` accepts) -/
def semPaulis (gs : List RGate) (ψ : Amp) : Amp :=
  gs.foldl (fun acc g => semFactors ((factors g).getD []) acc) ψ

/-! ### semantics 2 : term rewriting over the exact ring, any register size -/

/-- a state vector as a list of terms `amplitude · |index⟩`, with a tracked scale: `(v, k)` denotes `2^{-k}·Σ v` -/
abbrev SVec := List (Nat × Poly)

def maskOf (ts : List Nat) : Nat := ts.foldl (fun m t => m ^^^ 2 ^ t) 0

/-- the action of an emitted gate on one term; `none` for gate kinds outside {X, all-X PauliRotation, RZ}.
    PauliRotation is returned multiplied by 2:
      2·exp(−iβ/2·X⊗…⊗X) = (v + v̄)·1 − (v − v̄)·X⊗…⊗X,  v = e^{iβ/2}. -/
def stepTerm (g : RGate) (t : Nat × Poly) : Option (List (Nat × Poly)) :=
  match g.kind with
  | .X => match g.targets with
    | [q] => some [(t.1 ^^^ 2 ^ q, t.2)]
    | _ => none
  | .RZ => match g.targets, g.params with
    | [q], [α] => some [(t.1, Poly.mul (if t.1.testBit q then α.ph else α.ph (-1)) t.2)]
    | _, _ => none
  | .PauliRotation => match g.params with
    | [β] =>
      if g.paulis.all (· == 1) && g.paulis.length == g.targets.length then
        let v := β.ph; let w := β.ph (-1)
        some [(t.1, Poly.mul (Poly.add v w) t.2), (t.1 ^^^ maskOf g.targets, Poly.mul (Poly.neg (Poly.sub v w)) t.2)]
      else none
    | _ => none
  | _ => none

/-- `PauliRotation` is tracked multiplied by 2 -/
def scaleOf (g : RGate) : Nat := match g.kind with | .PauliRotation => 1 | _ => 0

def stepS (g : RGate) : SVec → Option SVec
  | [] => some []
  | t :: r =>
    match stepTerm g t, stepS g r with
    | some a, some b => some (a ++ b)
    | _, _ => none

/-- run a gate list on a sparse vector (first gate first); the result denotes `2^{-scaleS gs}·Σ terms` -/
def runS : List RGate → SVec → Option SVec
  | [], v => some v
  | g :: gs, v =>
    match stepS g v with
    | none => none
    | some v' => runS gs v'

def scaleS (gs : List RGate) : Nat := (gs.map scaleOf).foldl (· + ·) 0

def ket0 : SVec := [(0, Poly.one)]

/-- `2 cos θ`, `2 sin θ`, `e^{iφ}`, `i^k` in the ring (θ, φ are angle variables 0, 1; `x_j = e^{i·angle_j/2}`) -/
def twoCos : Poly := Poly.add (Poly.phase 0 [2]) (Poly.phase 0 [-2])
def twoSin : Poly := Poly.neg (Poly.mul Poly.I (Poly.sub (Poly.phase 0 [2]) (Poly.phase 0 [-2])))
def ePhi : Poly := Poly.phase 0 [0, 2]
def iPowP (k : Int) : Poly := Poly.uPow (4 * k)

/-- twice the amplitudes of the state the doc-string promises, `cos θ·i^{pa}|a⟩ + e^{iφ} sin θ·i^{pb}|b⟩` -/
def targetA (pa : Int) : Poly := Poly.mul twoCos (iPowP pa)
def targetB (pb : Int) : Poly := Poly.mul ePhi (Poly.mul twoSin (iPowP pb))

/-- the global phase by which the prepared state differs from the promised one -/
def globalPhase (bd : Bool) (pa pb : Int) : Poly :=
  let sgn : Int := if bd then 1 else -1
  let α := rzAngle sgn pa pb
  -- amplitude factor that RZ puts on |a⟩ (whose bit at the RZ qubit is ¬bd), divided by i^{pa}
  Poly.mul (if bd then α.ph (-1) else α.ph) (iPowP (-pa))

/-! ### dense cross-checks on small registers (Found/Gate.lean semantics) -/

def RGate.toGate (g : RGate) : Gate :=
  { kind := g.kind, targets := g.targets, controls := g.controls, params := g.params, paulis := g.paulis }

/-- column vector `|x⟩` on `n` qubits -/
def ketCol (n x : Nat) : Mat := (List.range (2 ^ n)).map fun r => [if r == x then Poly.one else []]

def runDense (n : Nat) (gs : List RGate) (col : Mat) : Mat :=
  gs.foldl (fun acc g => g.toGate.applyTo n acc) col

/-- dense column of a sparse vector -/
def toCol (n : Nat) (v : SVec) : Mat :=
  (List.range (2 ^ n)).map fun r => [v.foldl (fun acc t => if t.1 == r then Poly.add acc t.2 else acc) []]

/-- all pairs `(a, b)`, phases `(pa, pb)` below the given bounds -/
def allBelow (k : Nat) : List Nat := List.range k

/-- dense check of one superposition instance on `n` qubits: the column `circuit·|0⟩` (scaled by 2) equals
    `globalPhase ·` (twice the promised vector) -/
def denseSupCheck (n a b : Nat) (pa pb : Int) : Bool :=
  match supCircuit ⟨n, a, pa⟩ ⟨n, b, pb⟩ with
  | .error _ => false
  | .ok gs =>
    if a == b then
      runDense n gs (ketCol n 0) == ketCol n a
    else
      match lowestFrom (a ^^^ b) 64 0 with
      | none => false
      | some d =>
        let c := globalPhase (b.testBit d) pa pb
        runDense n gs (ketCol n 0) ==
          toCol n [(a, Poly.mul c (targetA pa)), (b, Poly.mul c (targetB pb))]

/-- phase pairs `(pa, pb)` covering every difference mod 8 and negative counters -/
def phasePairs : List (Int × Int) := [(0, 0), (0, 1), (1, 3), (2, 5), (3, 7), (1, 6), (2, 0), (-1, -2)]

def denseSupAll (n : Nat) (phases : List (Int × Int)) : Bool :=
  (allBelow (2 ^ n)).all fun a => (allBelow (2 ^ n)).all fun b =>
    phases.all fun p => denseSupCheck n a b p.1 p.2

/-- subsets of `{0..n-1}` as ascending lists -/
def subsets : Nat → List (List Nat)
  | 0 => [[]]
  | n + 1 => (subsets n) ++ (subsets n).map (· ++ [n])

/-- the emitted gate kinds at every placement on `n` qubits, with symbolic angles -/
def emittedGates (n : Nat) : List RGate :=
  ((List.range n).map fun q => ({ kind := .X, targets := [q] } : RGate)) ++
  ((List.range n).flatMap fun q =>
    [rzGate q 1 0 0, rzGate q (-1) 0 1, { kind := .RZ, targets := [q], params := [⟨[1, 3], 5⟩] }]) ++
  (((subsets n).filter (!·.isEmpty)).flatMap fun ts =>
    [rotGate ts, { kind := .PauliRotation, targets := ts.reverse, paulis := ts.map fun _ => 1, params := [⟨[3, 1], 1⟩] }])

/-- sparse and dense semantics agree for every emitted gate kind, placement and basis input on `n` qubits -/
def sparseDenseAgree (n : Nat) : Bool :=
  (emittedGates n).all fun g => (allBelow (2 ^ n)).all fun x =>
    match stepS g [(x, Poly.one)] with
    | none => false
    | some v => toCol n v == g.toGate.applyTo n (ketCol n x)

/-- `i^k` as a ring element from a Gaussian unit -/
def giPoly (z : GI) : Poly :=
  Poly.add (Poly.const z.re) (Poly.mul Poly.I (Poly.const z.im))

/-- bookkeeping against the dense semantics: every gate `g` of the list applied to `|bits⟩` -/
def densePauliCheck (n : Nat) (g : RGate) (bits : Nat) : Bool :=
  match addPauli ⟨n, bits, 0⟩ g with
  | .error _ => false
  | .ok s => g.toGate.applyTo n (ketCol n bits) == toCol n [(s.bits, giPoly (GI.iPow s.phase))]

/-- injective assignments of Pauli ids 1..3 to target lists over `n` qubits with `k` factors -/
def pauliGates (n : Nat) : List RGate :=
  let single := (List.range n).flatMap fun q =>
    [({ kind := .X, targets := [q] } : RGate), { kind := .Y, targets := [q] }, { kind := .Z, targets := [q] }]
  let ids := [1, 2, 3]
  let one := (List.range n).flatMap fun q => ids.map fun p => ({ kind := .Pauli, targets := [q], paulis := [p] } : RGate)
  let two := (List.range n).flatMap fun q => (List.range n).flatMap fun r =>
    if q == r then [] else ids.flatMap fun p => ids.map fun p' =>
      ({ kind := .Pauli, targets := [q, r], paulis := [p, p'] } : RGate)
  let three := if n == 3 then
      [[0, 1, 2], [2, 0, 1], [1, 2, 0], [2, 1, 0]].flatMap fun ts => ids.flatMap fun p => ids.flatMap fun p' => ids.map fun p'' =>
        ({ kind := .Pauli, targets := ts, paulis := [p, p', p''] } : RGate)
    else []
  single ++ one ++ two ++ three

def densePauliAll (n : Nat) : Bool :=
  (pauliGates n).all fun g => (allBelow (2 ^ n)).all fun bits => densePauliCheck n g bits

end QV.C16
