import QuriVerif.Model.C05
/-
  C13 — Jordan–Wigner at operator level: the model.

  Convention (the one of `oracle/fock.py` and of OpenFermion's `jordan_wigner`): modes `0..n-1`, occupation
  mask `x` (bit `i` = mode `i` occupied), `|x⟩ = a†_{i1} a†_{i2} … |vac⟩` with `i1 < i2 < …`, hence
      a†_p |x⟩ = (−1)^{#{k<p : x_k}} |x + 2^p⟩   (0 if x_p),     a_p = (a†_p)†,
  and qubit `q` = bit `q` of the computational-basis index.  Jordan–Wigner:
      a_p  = ½ (X_p + i Y_p) Z_0 … Z_{p−1},        a†_p = ½ (X_p − i Y_p) Z_0 … Z_{p−1}.
  To stay inside the exact Gaussian-integer coefficients of `Model/C05` the ladder operators are DOUBLED:
  `jwLadder p dag` denotes `2·a_p` / `2·a†_p`, a word of length `k` denotes `2^k` times the product.
  Imports `Model/C05` only; everything is computable.
-/
namespace QV.C13JW
open QV.C05

/-- `Z_0 … Z_{p−1}` -/
def zString (p : Nat) : Label := (List.range p).map fun k => (k, P1.Z)

/-- `Z_0 … Z_{p−1} A_p` (canonical: indices increasing) -/
def jwLabel (p : Nat) (a : P1) : Label := zString p ++ [(p, a)]

/-- `2·a_p` (`dag = false`) / `2·a†_p` (`dag = true`) as an operator of `Model/C05` -/
def jwLadder (p : Nat) (dag : Bool) : Op :=
  [(jwLabel p .X, ⟨1, 0⟩), (jwLabel p .Y, if dag then ⟨0, -1⟩ else ⟨0, 1⟩)]

/-- a word of ladder operators `(mode, dagger?)`, written left to right as a product; denotes
    `2^|w| · L_1 L_2 … L_k`, computed with the dict arithmetic `C05.mul` -/
def jwWord : List (Nat × Bool) → Op
  | [] => [([], K.one)]
  | l :: w => C05.mul (jwLadder l.1 l.2) (jwWord w)

/-- a literal term list (as a translator emits it from the output of the real `jordan_wigner`, coefficients
    doubled, labels canonical, ANY order) is the ladder operator -/
def jwRowOk (p : Nat) (dag : Bool) (terms : Op) : Bool :=
  terms.length == 2 && (jwLadder p dag).all fun e => terms.contains e

/-! ## Fock-space reference semantics -/

/-- parity of the occupations below mode `p` -/
def parBelow : Nat → Nat → Bool
  | 0, _ => false
  | p + 1, x => parBelow p x != x.testBit p

def signOf (b : Bool) : Int := if b then -1 else 1

/-- one ladder operator on `|x⟩`: `none` = annihilated, `some (sign, x')` otherwise -/
def fockLadder (p : Nat) (dag : Bool) (x : Nat) : Option (Int × Nat) :=
  if x.testBit p == dag then none else some (signOf (parBelow p x), x ^^^ 2 ^ p)

/-- a word applied to `|x⟩` (the rightmost operator acts first) -/
def fockWord : List (Nat × Bool) → Nat → Option (Int × Nat)
  | [], x => some (1, x)
  | l :: w, x =>
    match fockWord w x with
    | none => none
    | some (s, y) =>
      match fockLadder l.1 l.2 y with
      | none => none
      | some (t, z) => some (s * t, z)

/-- a fermionic operator: integer-weighted words (coefficients of the doubled words) -/
abbrev FOp := List (K × List (Nat × Bool))

/-- `⟨r| Σ c_w · w |x⟩` in Fock space -/
def fockElem (op : FOp) (r x : Nat) : K :=
  K.sum (op.map fun t =>
    match fockWord t.2 x with
    | none => K.zero
    | some (s, y) => if r = y then K.mul t.1 (K.ofInt s) else K.zero)

end QV.C13JW
