/-
  C08 — Sampling estimation: shot allocation, circuit/shot pair preparation, positional
  pairing of groups with returned counts, count-weighted Pauli expectation (model).

  Mirrors
    packages/core/quri_parts/core/sampling/shots_allocator.py            (_rounddown_to_unit,
        create_equipartition / proportional / weighted_random _shots_allocator)
    packages/core/quri_parts/core/sampling/weighted_shots_allocator.py   (the weight-sequence variants)
    packages/core/quri_parts/core/estimator/sampling/estimator_helpers.py
        (distribute_shots_among_pauli_sets, get_sampling_circuits_and_shots)
    packages/core/quri_parts/core/estimator/sampling/estimator.py
        (sampling_estimate, get_estimate_from_sampling_result, _Estimate.value)
    packages/core/quri_parts/core/estimator/sampling/pauli.py
        (general_pauli_expectation_estimator, general_pauli_sum_expectation_estimator)

  Numbers.  Weights are non-negative rationals given by their numerators over one common
  positive denominator (`proportional_scale_invariant` shows the denominator is irrelevant),
  totals / units / shot counts are naturals, counts and expectation values are `Rat`,
  coefficients and estimates are Gaussian rationals `C`.  Python exceptions are explicit
  (`R.error`).  Import-free, structural recursion only.
-/
namespace QV.C08

/-- the Python exception classes the modelled code raises -/
inductive Err where
  | zeroDivision   -- ZeroDivisionError
  | valueError     -- ValueError
  | keyError       -- KeyError
  deriving DecidableEq, Repr

def Err.name : Err → String
  | .zeroDivision => "ZeroDivisionError"
  | .valueError => "ValueError"
  | .keyError => "KeyError"

/-- result of a Python call: value or raised exception -/
inductive R (α : Type) where
  | ok : α → R α
  | error : Err → R α
  deriving DecidableEq, Repr

def R.bind {α β : Type} : R α → (α → R β) → R β
  | .ok a, f => f a
  | .error e, _ => .error e

/-! ## Shot allocators -/

/-- `_rounddown_to_unit(n, shot_unit) = shot_unit * floor(n / shot_unit)` for the rational
    `n = num / den` (`den > 0`, `u > 0`). -/
def rounddown (num den u : Nat) : Nat := u * (num / (den * u))

/-- `create_equipartition_(generic_)shots_allocator(shot_unit = u)` on `n` groups.
    `total_shots / n_terms` raises for `n = 0`, `n / shot_unit` raises for `u = 0`. -/
def equipartition (n total u : Nat) : R (List Nat) :=
  if n = 0 then .error .zeroDivision
  else if u = 0 then .error .zeroDivision
  else .ok (List.replicate n (rounddown total n u))

/-- `create_proportional_(generic_)shots_allocator(shot_unit = u)` on the weight vector `ws`
    (for the operator variant `ws[i] = sqrt(Σ_{P∈group i} |c_P|²)`, for the generic one `|w_i|`).
    `_calc_ratios` of an empty sequence divides nothing and returns `[]`; a zero weight sum
    raises `ZeroDivisionError`; so does `shot_unit = 0`. -/
def proportional (ws : List Nat) (total u : Nat) : R (List Nat) :=
  if ws = [] then .ok []
  else if ws.sum = 0 then .error .zeroDivision
  else if u = 0 then .error .zeroDivision
  else .ok (ws.map fun w => rounddown (total * w) ws.sum u)

/-- an outcome of `rng.multinomial(total // u, ratios)` : *any* vector of naturals with one
    entry per weight that sums to `total // u` (the RNG is universally quantified) -/
def isDraw (n total u : Nat) (draw : List Nat) : Bool :=
  draw.length == n && draw.sum == total / u

/-- `create_weighted_random_(generic_)shots_allocator(seed, shot_unit = u)` for the multinomial
    outcome `draw`.  Order of the raising statements: `_calc_ratios` (zero weight sum),
    `total_shots // shot_unit`, `rng.multinomial` (empty `pvals` → ValueError). -/
def weightedRandom (ws : List Nat) (u : Nat) (draw : List Nat) : R (List Nat) :=
  if ws ≠ [] ∧ ws.sum = 0 then .error .zeroDivision
  else if u = 0 then .error .zeroDivision
  else if ws = [] then .error .valueError
  else .ok (draw.map fun d => u * d)

/-- decidable description of the outputs the weighted-random allocator can produce -/
def wrAdmissible (ws : List Nat) (total u : Nat) (out : List Nat) : Bool :=
  out.length == ws.length && out.all (fun x => x % u == 0) && (out.map (· / u)).sum == total / u

/-! ## `distribute_shots_among_pauli_sets` + the `shots_map[m.pauli_set]` look-ups

  Groups are identified by their position `0 … n-1` in the measurement list.  The allocator
  iterates over a Python `set` of the groups in an arbitrary order `order` and returns one
  setting per group; `shots_map` is the dict built from them. -/

def lookupShots (m : List (Nat × Nat)) (k : Nat) : R Nat :=
  match m.lookup k with
  | some s => .ok s
  | none => .error .keyError

/-- the per-group shot list `[shots_map[m.pauli_set] for m in measurements]` -/
def shotsPerGroup (m : List (Nat × Nat)) : List Nat → R (List Nat)
  | [] => .ok []
  | k :: ks =>
    match lookupShots m k with
    | .error e => .error e
    | .ok s =>
      match shotsPerGroup m ks with
      | .error e => .error e
      | .ok r => .ok (s :: r)

/-- `distribute`: the allocator saw the groups in the order `order` and answered `alloc` -/
def distribute (n : Nat) (order alloc : List Nat) : R (List Nat) :=
  shotsPerGroup (order.zip alloc) (List.range n)

/-! ## `get_sampling_circuits_and_shots` -/

/-- (group position, shots) for every group with `shots > 0`, in measurement order;
    the circuit of the pair is `state.circuit + measurements[position].measurement_circuit` -/
def prepFrom (i : Nat) : List Nat → List (Nat × Nat)
  | [] => []
  | s :: ss => if s > 0 then (i, s) :: prepFrom (i + 1) ss else prepFrom (i + 1) ss

def prepPairs (shots : List Nat) : List (Nat × Nat) := prepFrom 0 shots

/-! ## Gaussian rationals -/

structure C where
  re : Rat
  im : Rat
  deriving DecidableEq, Repr

instance : Zero C := ⟨⟨0, 0⟩⟩
instance : Add C := ⟨fun a b => ⟨a.re + b.re, a.im + b.im⟩⟩
/-- real scalar times complex coefficient -/
def C.smul (r : Rat) (c : C) : C := ⟨r * c.re, r * c.im⟩
def C.ofRat (r : Rat) : C := ⟨r, 0⟩

/-! ## `pauli.py` -/

/-- `MeasurementCounts` : items of the dict (bit pattern, count); counts may be fractional
    (an ideal sampler returns probability × shots) -/
abbrev Counts := List (Nat × Rat)

def countTotal : Counts → Rat
  | [] => 0
  | (_, c) :: r => c + countTotal r

def weightedSum (rec : Nat → Int) : Counts → Rat
  | [] => 0
  | (k, c) :: r => (rec k : Rat) * c + weightedSum rec r

/-- multiply every count by `k` (frequencies ↔ probabilities × shots) -/
def scaleCounts (k : Rat) (c : Counts) : Counts := c.map fun p => (p.1, k * p.2)

/-- `general_pauli_expectation_estimator(counts, pauli, reconstructor_factory)`;
    `isId` ⇔ `pauli == PAULI_IDENTITY`; `rec = reconstructor_factory(pauli)`.
    `val /= sum(counts.values())` raises when the total is zero. -/
def pauliExp (rec : Nat → Int) (isId : Bool) (counts : Counts) : R Rat :=
  if counts = [] then .error .valueError
  else if isId then .ok 1
  else if countTotal counts = 0 then .error .zeroDivision
  else .ok (weightedSum rec counts / countTotal counts)

/-- the operator: items of the dict `PauliLabel → coefficient`; Pauli labels are numbered,
    `0` is `PAULI_IDENTITY` -/
abbrev Op := List (Nat × C)

/-- one `CommutablePauliSetMeasurement`: its `pauli_set` (duplicate-free list of label numbers)
    and `pauli_reconstructor_factory` (`recon p bits = ±1`) -/
structure Meas where
  paulis : List Nat
  recon : Nat → Nat → Int

/-- `general_pauli_sum_expectation_estimator(counts, pauli_set, op, rec)`:
    `np.inner` of the per-Pauli estimates with the coefficients, over `pauli in pauli_set if pauli in coefs`
    (`0` when nothing qualifies) -/
def sumTerms (op : Op) (rec : Nat → Nat → Int) (counts : Counts) : List Nat → R C
  | [] => .ok 0
  | p :: ps =>
    match op.lookup p with
    | none => sumTerms op rec counts ps
    | some c =>
      match pauliExp (rec p) (p == 0) counts with
      | .error e => .error e
      | .ok e =>
        match sumTerms op rec counts ps with
        | .error e' => .error e'
        | .ok r => .ok (C.smul e c + r)

def pauliSumExp (op : Op) (m : Meas) (counts : Counts) : R C := sumTerms op m.recon counts m.paulis

/-! ## `_Estimate.value` -/

/-- `val = const; for (pauli_set, rec, counts) in zip(...): val += …` -/
def accumulate (op : Op) (val : C) : List (Meas × Counts) → R C
  | [] => .ok val
  | (m, cnt) :: rest =>
    match pauliSumExp op m cnt with
    | .error e => .error e
    | .ok t => accumulate op (val + t) rest

/-- which groups are zipped with the returned counts.
    `all`      : the unchanged code — every measurement group (`zip` truncates);
    `positive` : the repaired code — only the groups that were handed to the sampler. -/
inductive PairMode where
  | all
  | positive
  deriving DecidableEq, Repr

def positiveGroups : List Meas → List Nat → List Meas
  | m :: ms, s :: ss => if s > 0 then m :: positiveGroups ms ss else positiveGroups ms ss
  | _, _ => []

def pairing (mode : PairMode) (groups : List Meas) (shots : List Nat) (delivered : List Counts) :
    List (Meas × Counts) :=
  match mode with
  | .all => groups.zip delivered
  | .positive => (positiveGroups groups shots).zip delivered

/-- `m.pauli_set != {PAULI_IDENTITY}` -/
def isIdentitySet (ps : List Nat) : Bool := ps == [0]

def constOf (op : Op) : C := (op.lookup 0).getD 0

/-- `sampling_estimate(op, state, total, sampler, measurement_factory, shots_allocator)`.
    `factoryGroups` : what `measurement_factory(op)` returned;
    `alloc`         : `distribute_shots_among_pauli_sets` followed by the per-group look-up;
    `sampler`       : receives the (group position, shots) pairs, returns one count dict per pair. -/
def samplingEstimate (mode : PairMode) (op : Op) (factoryGroups : List Meas)
    (alloc : List Meas → R (List Nat)) (sampler : List (Nat × Nat) → List Counts) : R C :=
  if op = [] then .ok 0
  else if op.length = 1 ∧ (op.lookup 0).isSome then .ok (constOf op)
  else
    let groups := factoryGroups.filter fun m => !isIdentitySet m.paulis
    match alloc groups with
    | .error e => .error e
    | .ok shots =>
      accumulate op (constOf op) (pairing mode groups shots (sampler (prepPairs shots)))

/-- an operator that is neither empty nor a bare constant: the case in which anything is sampled -/
def Sampled (op : Op) : Prop := op ≠ [] ∧ ¬(op.length = 1 ∧ (op.lookup 0).isSome = true)

/-! ## Ideal sampling and the specification value -/

/-- the ideal sampler: the counts of a pair are the exact outcome frequencies of *its own* circuit -/
def idealSampler (ideal : Nat → Nat → Counts) (pairs : List (Nat × Nat)) : List Counts :=
  pairs.map fun p => ideal p.1 p.2

/-- every requested (group `i + k`, shots) circuit reproduces the exact expectation of every
    Pauli of its own group that occurs in the operator -/
def idealFrom (op : Op) (ideal : Nat → Nat → Counts) (exact : Nat → Rat) (i : Nat) :
    List Meas → List Nat → Bool
  | m :: ms, s :: ss =>
    (s == 0 || m.paulis.all fun p =>
      (op.lookup p).isNone || pauliExp (m.recon p) (p == 0) (ideal i s) == .ok (exact p))
      && idealFrom op ideal exact (i + 1) ms ss
  | _, _ => true

def isIdeal (op : Op) (ideal : Nat → Nat → Counts) (exact : Nat → Rat) (groups : List Meas)
    (shots : List Nat) : Bool := idealFrom op ideal exact 0 groups shots

/-- `Σ_{P ∈ group, P ∈ op} c_P · ⟨P⟩` -/
def exactSum (op : Op) (exact : Nat → Rat) : List Nat → C
  | [] => 0
  | p :: ps =>
    match op.lookup p with
    | none => exactSum op exact ps
    | some c => C.smul (exact p) c + exactSum op exact ps

def sumC : List C → C
  | [] => 0
  | c :: cs => c + sumC cs

/-- the value the property demands: identity term + exact expectation of every group that received shots -/
def specValue (op : Op) (exact : Nat → Rat) (groups : List Meas) (shots : List Nat) : C :=
  constOf op + sumC ((positiveGroups groups shots).map fun m => exactSum op exact m.paulis)

/-- no group without shots is followed by a group with shots -/
def zerosLast : List Nat → Bool
  | [] => true
  | s :: ss => if s > 0 then zerosLast ss else ss.all (· == 0)

/-! ## The concrete instance behind `pairing_counterexample` (finding F2)

  State `H(1)|00⟩` (qubit 0 in `|0⟩`, qubit 1 in `|+⟩`), operator `10·Z0 + 1·X0 + 10·X1`
  (labels 1, 2, 3), bitwise measurement, groups in the order `{Z0}, {X0}, {X1}`,
  proportional allocation of 3 shots: `[1, 0, 1]`. -/
namespace Witness

/-- support masks of Z0, X0, X1 (bitwise reconstructor: parity of the measured bits on the support) -/
def mask : Nat → Nat
  | 1 => 1
  | 2 => 1
  | 3 => 2
  | _ => 0

/-- all supports are single qubits, so the parity sign is `+1` iff the measured bit is 0 -/
def rec (p bits : Nat) : Int := if bits &&& mask p = 0 then 1 else -1

def op : Op := [(1, ⟨10, 0⟩), (2, ⟨1, 0⟩), (3, ⟨10, 0⟩)]
def groups : List Meas := [⟨[1], rec⟩, ⟨[2], rec⟩, ⟨[3], rec⟩]
def weights : List Nat := [10, 1, 10]

/-- exact outcome frequencies (× shots) of `state + measurement circuit of group j` -/
def ideal (j s : Nat) : Counts :=
  match j with
  | 0 => [(0, (s : Rat) / 2), (2, (s : Rat) / 2)]                     -- no basis change: |0⟩|+⟩
  | 1 => [(0, (s : Rat) / 4), (1, (s : Rat) / 4), (2, (s : Rat) / 4), (3, (s : Rat) / 4)]  -- H(0): |+⟩|+⟩
  | _ => [(0, (s : Rat))]                                             -- H(1): |0⟩|0⟩

/-- ⟨Z0⟩ = 1, ⟨X0⟩ = 0, ⟨X1⟩ = 1 -/
def exact : Nat → Rat
  | 1 => 1
  | 2 => 0
  | 3 => 1
  | _ => 0

def alloc (_ : List Meas) : R (List Nat) := proportional weights 3 1

end Witness

end QV.C08
