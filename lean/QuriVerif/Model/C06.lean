import QuriVerif.Found.Gate
/-
  C06 model: `clifford_gate_conjugation` of core/operator/conjugation.py,
  transcribed: Pauli labels are association lists in iteration order (Python
  dict / frozenset semantics), `pauliProduct` is pauli.py's dict algorithm, the
  three tables come from Generated/C06Tables.lean (translated from source).
  Phases are exponents of i (mod 4 only at the end).
-/
namespace QV.C06
open QV

abbrev Label := List (Nat × Nat)   -- (qubit index, pauli id 1..3)

def lookup (l : Label) (i : Nat) : Nat :=
  match l.find? (fun e => e.1 == i) with
  | some e => e.2
  | none => 0

def erase (l : Label) (i : Nat) : Label := l.filter fun e => !(e.1 == i)

def setAt (l : Label) (i p : Nat) : Label :=
  if l.any (fun e => e.1 == i) then l.map fun e => if e.1 == i then (i, p) else e
  else l ++ [(i, p)]

/-- `_pauli_products_map` : (a, b) ↦ none (equal) | some (id, phase exponent) -/
abbrev ProdTable := List ((Nat × Nat) × Option (Nat × Nat))

def mul1 (tbl : ProdTable) (a b : Nat) : Option (Nat × Nat) :=
  match tbl.find? (fun e => e.1 == (a, b)) with
  | some e => e.2
  | none => none

/-- one iteration of `pauli_product`'s loop over `pauli2` -/
def prodStep (tbl : ProdTable) (st : Label × Nat) (e : Nat × Nat) : Label × Nat :=
  if st.1.any (fun x => x.1 == e.1) then
    match mul1 tbl (lookup st.1 e.1) e.2 with
    | none => (erase st.1 e.1, st.2)
    | some (r, k) => (setAt st.1 e.1 r, st.2 + k)
  else (setAt st.1 e.1 e.2, st.2)

def pauliProduct (tbl : ProdTable) (p1 p2 : Label) : Label × Nat :=
  p2.foldl (prodStep tbl) (p1, 0)

/-- 1-qubit table: (pauli id, gate kind) ↦ (new id, sign exponent 0 | 2) -/
abbrev Conj1Table := List ((Nat × Kind) × (Nat × Nat))
/-- 2-qubit table: (pauli id, gate kind, acts on q1?) ↦ (id on first wire, id on second wire) (0 = none) -/
abbrev Conj2Table := List ((Nat × Kind × Bool) × (Nat × Nat))

structure Tables where
  prod : ProdTable
  c1 : Conj1Table
  c2 : Conj2Table
  clifford : List Kind

def find1 (t : Conj1Table) (p : Nat) (k : Kind) : Option (Nat × Nat) :=
  (t.find? (fun e => e.1 == (p, k))).map (·.2)

def find2 (t : Conj2Table) (p : Nat) (k : Kind) (q1 : Bool) : Option (Nat × Nat) :=
  (t.find? (fun e => e.1 == (p, k, q1))).map (·.2)

/-- what one entry of the input label contributes: the label it is replaced by, and a sign exponent -/
def contrib1 (T : Tables) (k : Kind) (t : Nat) (e : Nat × Nat) : Option (Label × Nat) :=
  if e.1 == t then (find1 T.c1 e.2 k).map fun (up, s) => ([(e.1, up)], s)
  else some ([e], 0)

def contrib2 (T : Tables) (k : Kind) (c t : Nat) (e : Nat × Nat) : Option (Label × Nat) :=
  if e.1 == c then
    (find2 T.c2 e.2 k true).map fun (pc, pt) =>
      ((if pc != 0 then [(c, pc)] else []) ++ (if pt != 0 then [(t, pt)] else []), 0)
  else if e.1 == t then
    (find2 T.c2 e.2 k false).map fun (pc, pt) =>
      ((if pc != 0 then [(c, pc)] else []) ++ (if pt != 0 then [(t, pt)] else []), 0)
  else some ([e], 0)

/-- the accumulation loop; `keepPhase` = whether the phase of `pauli_product` is multiplied in
    (the 1-qubit branch discards it: `res_pauli, _ = pauli_product(...)`) -/
def conjStep (tbl : ProdTable) (contrib : Nat × Nat → Option (Label × Nat)) (keepPhase : Bool)
    (st : Option (Label × Nat)) (e : Nat × Nat) : Option (Label × Nat) :=
  match st, contrib e with
  | some (res, k), some (upd, s) =>
    let pr := pauliProduct tbl res upd
    some (pr.1, k + s + (if keepPhase then pr.2 else 0))
  | _, _ => none

def conjLoop (tbl : ProdTable) (contrib : Nat × Nat → Option (Label × Nat)) (keepPhase : Bool)
    (label : Label) : Option (Label × Nat) :=
  label.foldl (conjStep tbl contrib keepPhase) (some ([], 0))

inductive Res
  | ok (label : Label) (phase : Nat)      -- coefficient i^phase
  | valueError | notImplemented | keyError
deriving Repr, DecidableEq

/-- `clifford_gate_conjugation(gate, pauli)`; gate given by kind, control and target indices -/
def cliffordConj (T : Tables) (k : Kind) (controls targets : List Nat) (label : Label) : Res :=
  if !T.clifford.contains k then .valueError
  else if k == .Pauli then .notImplemented
  else if k == .Identity then .ok label 0
  else
    match targets ++ controls with
    | [t] =>
      match conjLoop T.prod (contrib1 T k t) false label with
      | some (r, ph) => .ok r (ph % 4)
      | none => .keyError
    | [_, _] =>
      let ct : Nat × Nat :=
        if k == .SWAP then (targets.getD 0 0, targets.getD 1 0)
        else (controls.getD 0 0, targets.getD 0 0)
      match conjLoop T.prod (contrib2 T k ct.1 ct.2) true label with
      | some (r, ph) => .ok r (ph % 4)
      | none => .keyError
    | _ => .ok [] 0

/-- canonical form of a label: sorted by index (frozenset equality) -/
def insertSorted (e : Nat × Nat) : Label → Label
  | [] => [e]
  | x :: xs => if e.1 ≤ x.1 then e :: x :: xs else x :: insertSorted e xs

def canon (l : Label) : Label := l.foldr insertSorted []

end QV.C06
