import QuriVerif.Model.C01
import QuriVerif.Generated.C01Templates
import QuriVerif.Generated.C01Ladders
import QuriVerif.Generated.C01Tables
/- the pass environment built from the tables translated from the working tree -/
namespace QV.C01
def stdEnv : Env :=
  { templates := QV.Gen.C01.templates, ladders := QV.Gen.C01L.ladders,
    clifTable := QV.Gen.C01T.equivCliffordTable, cliff1q := QV.Gen.C01T.cliff1q,
    chc := QV.Gen.C01T.chcTemplate }
/-- fuel bounds the number of (nested) passes, not the circuit length -/
def stdFuel : Nat := 300
end QV.C01
