/-
  C09 — executable model of the parameter-shift machinery of quri-parts (import-free).

  Modelled source (hand transcription, tied to the working tree by harness/c09.py):
    * circuit/parameter_mapping.py   `LinearParameterMapping.mapper`, `.get_derivatives`
    * circuit/parameter_shift.py     `_get_linear_deriv`, `ShiftedParameters._get_derivative`,
                                     `.get_derivatives`, `.get_shifted_parameters_and_coef`
    * core/estimator/gradient.py     `parameter_shift_gradient_estimates`, `numerical_gradient_estimates`
    * core/estimator/hessian.py      `parameter_shift_hessian_estimates`

  Conventions.  `Parameter`s are identified by natural numbers (object identity in Python); a Python
  `dict` is an association list with pairwise distinct keys; a `frozenset[(Parameter, int)]` built from
  `dict.items()` is the association list sorted by key (`Shifts`).  Coefficients are `Rat` (every float
  is a rational; the correspondence harness only uses dyadic values so that float arithmetic is exact).
  An angle `v + k·π/2` is the pair `(v, k)`.

  The mathematics (trigonometric expressions, their derivations and quarter-turn shifts) is the second
  half of the file; it is generic in the coefficient type so that it can be executed over `Rat`
  (witness theorems, driver) and reasoned about over any commutative ring (Proof/C09.lean).
-/
namespace QV.C09

/-! ## Linear parameter mapping -/

/-- key of a `LinearParameterFunction`: an input parameter or `CONST` -/
inductive Key where
  | const
  | p (i : Nat)
  deriving DecidableEq, Repr

/-- value of `LinearParameterMapping.mapping[out_param]`: a bare `Parameter` or a linear function -/
inductive MapVal where
  | param (i : Nat)
  | fn (f : List (Key × Rat))
  deriving DecidableEq, Repr

structure Mapping where
  inParams : List Nat
  outParams : List Nat
  map : List (Nat × MapVal)
  deriving DecidableEq, Repr

inductive Err where
  | keyError
  | zeroDivision
  deriving DecidableEq, Repr

def Err.name : Err → String
  | .keyError => "KeyError"
  | .zeroDivision => "ZeroDivisionError"

abbrev R := Except Err

/-- `dict[k]` -/
def getKey {α β} [BEq α] (d : List (α × β)) (k : α) : R β :=
  match d.lookup k with
  | some v => .ok v
  | none => .error .keyError

/-- `dict(zip(in_params, vals))`: zip truncates; a repeated key keeps its *last* value -/
def assign (ins : List Nat) (vals : List Rat) : List (Nat × Rat) := (ins.zip vals).reverse

/-- value of one key of a linear function under `{**param_vals, CONST: 1.0}` -/
def keyVal (θ : List (Nat × Rat)) : Key → R Rat
  | .const => .ok 1
  | .p i => getKey θ i

/-- `sum(c * in_param_vals[p] for p, c in fn.items())` -/
def fnVal (θ : List (Nat × Rat)) : List (Key × Rat) → R Rat
  | [] => .ok 0
  | (k, c) :: rest => do
    let v ← keyVal θ k
    let s ← fnVal θ rest
    pure (c * v + s)

def mapValEval (θ : List (Nat × Rat)) : MapVal → R Rat
  | .param i => getKey θ i
  | .fn f => fnVal θ f

/-- `mapper(dict(zip(in_params, vals)))` restricted to one output parameter -/
def outVal (m : Mapping) (θ : List (Nat × Rat)) (raw : Nat) : R Rat := do
  let f ← getKey m.map raw
  mapValEval θ f

/-- the `out_param_vals` dict as the list of values along `out_params` (error of the first failing one) -/
def mapper (m : Mapping) (vals : List Rat) : R (List Rat) :=
  m.outParams.mapM (outVal m (assign m.inParams vals))

/-- `new_mappings[p]` of `LinearParameterMapping.get_derivatives`: out_param ↦ coefficient -/
def derivEntries (map : List (Nat × MapVal)) (p : Nat) : List (Nat × Rat) :=
  map.filterMap fun e =>
    match e.2 with
    | .param q => if q = p then some (e.1, 1) else none
    | .fn f => (f.lookup (Key.p p)).map fun c => (e.1, c)

/-- `LinearParameterMapping.get_derivatives()`: one derivative mapping per entry of `in_params` -/
def getDerivMaps (m : Mapping) : List (List (Nat × Rat)) :=
  m.inParams.map (derivEntries m.map)

/-- `_get_linear_deriv(deriv, param)` -/
def linearDeriv (d : List (Nat × Rat)) (raw : Nat) : Rat :=
  match d.lookup raw with
  | some c => c
  | none => 0

/-! ## Shift sets -/

/-- a `ParameterShifts` value: sorted by raw parameter, one entry per parameter -/
abbrev Shifts := List (Nat × Int)

/-- a `ParameterShiftsAndCoef` -/
abbrev Term := Shifts × Rat

/-- `s.get(raw_p, 0)` -/
def getShift (s : Shifts) (j : Nat) : Int :=
  match s.lookup j with
  | some k => k
  | none => 0

def insertSorted (j : Nat) (k : Int) : Shifts → Shifts
  | [] => [(j, k)]
  | (j', k') :: rest => if j ≤ j' then (j, k) :: (j', k') :: rest else (j', k') :: insertSorted j k rest

/-- `del s[raw_p]` when the new shift is 0, `s[raw_p] = new_shift` otherwise -/
def setShift (s : Shifts) (j : Nat) (v : Int) : Shifts :=
  let r := s.filter fun e => e.1 != j
  if v = 0 then r else insertSorted j v r

def bump (s : Shifts) (j : Nat) (sign : Int) : Shifts := setShift s j (getShift s j + sign)

/-- `new_shifts_map[key] = new_shifts_map.get(key, 0) + v` -/
def addTerm (acc : List Term) (key : Shifts) (v : Rat) : List Term :=
  match acc with
  | [] => [(key, v)]
  | (k, w) :: rest => if k = key then (k, w + v) :: rest else (k, w) :: addTerm rest key v

/-- body of the two inner loops of `_get_derivative` for one `(shifts, coef)` -/
def derivStep (dc : Nat → Rat) (outs : List Nat) (acc : List Term) (t : Term) : List Term :=
  outs.foldl
    (fun acc raw =>
      let c := dc raw
      if c = 0 then acc
      else
        addTerm (addTerm acc (bump t.1 raw 1) (t.2 * c * 1 / 2)) (bump t.1 raw (-1)) (t.2 * c * (-1) / 2))
    acc

/-- `ShiftedParameters._get_derivative(deriv_mapping)` (the resulting set, in insertion order) -/
def getDerivative (dc : Nat → Rat) (outs : List Nat) (swc : List Term) : List Term :=
  swc.foldl (derivStep dc outs) []

/-- `NO_SHIFT` -/
def noShift : List Term := [([], 1)]

/-- `ShiftedParameters.get_derivatives()`: one shift set per entry of `in_params` -/
def spDerivatives (m : Mapping) (swc : List Term) : List (List Term) :=
  (getDerivMaps m).map fun d => getDerivative (linearDeriv d) m.outParams swc

/-- an angle `v + k·π/2` -/
abbrev Angle := Rat × Int

/-- one entry of `get_shifted_parameters_and_coef`: the raw parameter vector along `out_params`.
    `d[out_p] = d[out_p] + shift·π/2` raises `KeyError` when a shifted parameter is not an output parameter. -/
def shiftedVec (outs : List Nat) (outVals : List Rat) (sh : Shifts) : R (List Angle) :=
  if sh.all (fun e => outs.contains e.1) then
    .ok ((outs.zip outVals).map fun e => (e.2, getShift sh e.1))
  else .error .keyError

/-- `ShiftedParameters.get_shifted_parameters_and_coef(param_vals)` -/
def shiftedParamsAndCoef (m : Mapping) (swc : List Term) (vals : List Rat) : R (List (List Angle × Rat)) := do
  let ov ← mapper m vals
  swc.mapM fun t => do
    let v ← shiftedVec m.outParams ov t.1
    pure (v, t.2)

/-! ## Recombination (gradient.py / hessian.py)

The estimator is a function of the raw parameter vector; `V` is the type of estimates, `scale v c`
is `v * c` (`estimates_dict[p].value * c`). -/

def recombine {V : Type} (zero : V) (add : V → V → V) (scale : V → Rat → V) (est : List Angle → V)
    (terms : List (List Angle × Rat)) : V :=
  terms.foldl (fun g pc => add g (scale (est pc.1) pc.2)) zero

/-- `shifted_params_and_coefs` of `parameter_shift_gradient_estimates` -/
def gradientTerms (m : Mapping) (vals : List Rat) : R (List (List (List Angle × Rat))) :=
  (spDerivatives m noShift).mapM fun d => shiftedParamsAndCoef m d vals

/-- `shifted_params_and_coeffs_list` of `parameter_shift_hessian_estimates` -/
def hessianTerms (m : Mapping) (vals : List Rat) : R (List (List (List (List Angle × Rat)))) :=
  (spDerivatives m noShift).mapM fun di =>
    (spDerivatives m di).mapM fun dij => shiftedParamsAndCoef m dij vals

def psGradient {V : Type} (zero : V) (add : V → V → V) (scale : V → Rat → V) (est : List Angle → V)
    (m : Mapping) (vals : List Rat) : R (List V) := do
  let ts ← gradientTerms m vals
  pure (ts.map (recombine zero add scale est))

def psHessian {V : Type} (zero : V) (add : V → V → V) (scale : V → Rat → V) (est : List Angle → V)
    (m : Mapping) (vals : List Rat) : R (List (List V)) := do
  let ts ← hessianTerms m vals
  pure (ts.map fun row => row.map (recombine zero add scale est))

/-- `a = list(params); a[i] = params[i] + d` -/
def setAt (xs : List Rat) (i : Nat) (d : Rat) : List Rat :=
  xs.zipIdx.map fun e => if e.2 = i then e.1 + d else e.1

/-- the `2·len(params)` parameter vectors of `numerical_gradient_estimates` -/
def numVectors (params : List Rat) (delta : Rat) : List (List Rat) :=
  (List.range params.length).flatMap fun i => [setAt params i (delta * (1/2)), setAt params i (-(delta * (1/2)))]

/-- `numerical_gradient_estimates` over the rationals: `(e[2i] − e[2i+1]) / delta`, division by a zero
    float raises `ZeroDivisionError` (only when there is at least one parameter) -/
def numGradient (est : List Rat → Rat) (params : List Rat) (delta : Rat) : R (List Rat) :=
  if params.length = 0 then .ok []
  else if delta = 0 then .error .zeroDivision
  else .ok ((List.range params.length).map fun i =>
    (est (setAt params i (delta * (1/2))) - est (setAt params i (-(delta * (1/2))))) / delta)

/-! ## Trigonometric expressions

`TExp K`: polynomial expressions in `cos φ_j`, `sin φ_j` (one pair per raw parameter `j`) with
coefficients in `K`.  A *point* assigns a pair `(c_j, s_j)` to every raw parameter. -/

inductive TExp (K : Type) where
  | const (k : K)
  | cos (j : Nat)
  | sin (j : Nat)
  | add (a b : TExp K)
  | mul (a b : TExp K)
  deriving Repr

abbrev Point (K : Type) := Nat → K × K

namespace TExp
variable {K : Type}

def eval [Add K] [Mul K] (pt : Point K) : TExp K → K
  | const k => k
  | cos j => (pt j).1
  | sin j => (pt j).2
  | add a b => eval pt a + eval pt b
  | mul a b => eval pt a * eval pt b

/-- the derivation with `d cos_j = −dc_j · sin_j`, `d sin_j = dc_j · cos_j` (Leibniz rule on products):
    differentiation along a direction in which the raw angle `φ_j` moves with velocity `dc j` -/
def deriv [Neg K] [OfNat K 0] (dc : Nat → K) : TExp K → TExp K
  | const _ => const 0
  | cos j => mul (const (-(dc j))) (sin j)
  | sin j => mul (const (dc j)) (cos j)
  | add a b => add (deriv dc a) (deriv dc b)
  | mul a b => add (mul (deriv dc a) b) (mul a (deriv dc b))

/-- `∂/∂φ_j` -/
def dRaw [Neg K] [OfNat K 0] [OfNat K 1] (j : Nat) : TExp K → TExp K :=
  deriv fun j' => if j' = j then 1 else 0

/-- `j` does not occur -/
def free (j : Nat) : TExp K → Bool
  | const _ => true
  | cos j' => j' != j
  | sin j' => j' != j
  | add a b => free j a && free j b
  | mul a b => free j a && free j b

/-- affine in the pair `(cos_j, sin_j)`: every product has at most one factor mentioning `j` -/
def affineIn (j : Nat) : TExp K → Bool
  | const _ => true
  | cos _ => true
  | sin _ => true
  | add a b => affineIn j a && affineIn j b
  | mul a b => (affineIn j a && free j b) || (free j a && affineIn j b)

/-- the raw parameters occurring in the expression -/
def raws : TExp K → List Nat
  | const _ => []
  | cos j => [j]
  | sin j => [j]
  | add a b => raws a ++ raws b
  | mul a b => raws a ++ raws b

end TExp

/-- a quarter turn: `(cos, sin)(φ + π/2) = (−sin φ, cos φ)` -/
def rot {K : Type} [Neg K] (p : K × K) : K × K := (-p.2, p.1)

/-- `k` quarter turns (`k` any integer): `(cos, sin)(φ + k·π/2)` -/
def rotI {K : Type} [Neg K] (k : Int) (p : K × K) : K × K :=
  match (k % 4).toNat with
  | 0 => p
  | 1 => (-p.2, p.1)
  | 2 => (-p.1, -p.2)
  | _ => (p.2, -p.1)

/-- the point reached from `pt` by the shift set `sh` -/
def shiftPt {K : Type} [Neg K] (sh : Shifts) (pt : Point K) : Point K :=
  fun j => rotI (getShift sh j) (pt j)

/-- `Σ coef · E(φ + shift·π/2)`: the value the estimators assemble from a shift set, for the
    expectation `e` at the base point `pt`; `ι` embeds rational coefficients into `K` -/
def sem {K : Type} [Add K] [Mul K] [Neg K] [OfNat K 0] (ι : Rat → K) (e : TExp K) (pt : Point K) :
    List Term → K
  | [] => 0
  | t :: rest => ι t.2 * TExp.eval (shiftPt t.1 pt) e + sem ι e pt rest


/-! ## Total (mathematical) reading of the mapping and exact estimators -/

/-- total version of `dict(zip(in_params, vals))` (absent key ↦ 0) -/
def θof (ins : List Nat) (vals : List Rat) : Nat → Rat := fun i =>
  match (assign ins vals).lookup i with
  | some v => v
  | none => 0

def keyValT (θ : Nat → Rat) : Key → Rat
  | .const => 1
  | .p i => θ i

def fnValT (θ : Nat → Rat) : List (Key × Rat) → Rat
  | [] => 0
  | (k, c) :: rest => c * keyValT θ k + fnValT θ rest

def mapValT (θ : Nat → Rat) : MapVal → Rat
  | .param i => θ i
  | .fn f => fnValT θ f

/-- the raw angle `φ_raw(θ)` as a total function of the input parameter assignment -/
def phiT (m : Mapping) (θ : Nat → Rat) (raw : Nat) : Rat :=
  match m.map.lookup raw with
  | some v => mapValT θ v
  | none => 0

/-- `_get_linear_deriv(get_derivatives()[index of p], raw)` -/
def derivCoef (m : Mapping) (p raw : Nat) : Rat := linearDeriv (derivEntries m.map p) raw

/-- the base point: `(cos, sin)` of the raw angles at the given parameter values; `cs` is any function
    playing the role of `v ↦ (cos v, sin v)` -/
def basePt {K : Type} (cs : Rat → K × K) (m : Mapping) (vals : List Rat) : Point K :=
  fun j => cs (phiT m (θof m.inParams vals) j)

/-- the point described by a raw parameter vector `(v_i + k_i·π/2)_i` along `outs` -/
def ptOfVec {K : Type} [Neg K] (cs : Rat → K × K) (outs : List Nat) (vec : List Angle) : Point K := fun j =>
  match (outs.zip vec).lookup j with
  | some a => rotI a.2 (cs a.1)
  | none => cs 0

/-- an exact estimator: the expectation `e` evaluated at the raw parameter vector -/
def estOf {K : Type} [Add K] [Mul K] [Neg K] (cs : Rat → K × K) (e : TExp K) (outs : List Nat)
    (vec : List Angle) : K :=
  TExp.eval (ptOfVec cs outs vec) e

/-! ## Circuits in the Heisenberg picture

An observable is a coefficient vector over a fixed operator basis (length `d`).  Conjugation by a
fixed gate is a constant matrix `F`; conjugation by `exp(−i φ_j P/2)` (`P² = 1`) is
`A + cos φ_j · B + sin φ_j · G` with constant matrices
(`A X = (X + PXP)/2`, `B X = (X − PXP)/2`, `G X = i(PX − XP)/2`). -/

inductive Step (K : Type) where
  | fixed (F : List (List K))
  | param (j : Nat) (A B G : List (List K))

def dotE {K : Type} [OfNat K 0] (row : List K) (v : List (TExp K)) : TExp K :=
  match row, v with
  | r :: rs, x :: xs => .add (.mul (.const r) x) (dotE rs xs)
  | _, _ => .const 0

def matVecE {K : Type} [OfNat K 0] (M : List (List K)) (v : List (TExp K)) : List (TExp K) :=
  M.map fun row => dotE row v

def zipAdd {K : Type} : List (TExp K) → List (TExp K) → List (TExp K)
  | x :: xs, y :: ys => .add x y :: zipAdd xs ys
  | _, _ => []

def Step.apply {K : Type} [OfNat K 0] : Step K → List (TExp K) → List (TExp K)
  | .fixed F, v => matVecE F v
  | .param j A B G, v =>
    zipAdd (matVecE A v)
      (zipAdd ((matVecE B v).map fun x => .mul (.cos j) x) ((matVecE G v).map fun x => .mul (.sin j) x))

/-- raw parameters of the parametric gates, in circuit order (= `out_params` of a circuit built with
    `add_Parametric*_gate`) -/
def stepRaws {K : Type} : List (Step K) → List Nat
  | [] => []
  | .fixed _ :: rest => stepRaws rest
  | .param j _ _ _ :: rest => j :: stepRaws rest

/-- the expectation value `ℓ(steps applied to O)`; `O` the observable's coefficient vector,
    `ℓ` the functional "expectation in the initial state" -/
def expectation {K : Type} [OfNat K 0] (ℓ : List K) (steps : List (Step K)) (O : List K) : TExp K :=
  dotE ℓ (steps.foldl (fun v s => s.apply v) (O.map .const))

end QV.C09
