/-
  C12 model: `inverse_circuit` (map + reverse) and `scaling_circuit_folding`
  of algo/mitigation/zne/zne.py, generic in the gate type.  Scale factors are
  rationals `p/q` (the harness uses dyadic values, for which the float
  arithmetic of the real code is exact).  Import-free.
-/
namespace QV.C12

def inverseCircuit {G : Type} (inv : G → G) (c : List G) : List G := (c.map inv).reverse

/-- blocks `[inv g, g]` repeated `m` times -/
def foldBlocks {G : Type} (inv : G → G) (g : G) : Nat → List G
  | 0 => []
  | m + 1 => inv g :: g :: foldBlocks inv g m

/-- one gate of `scaling_circuit_folding`: `g (g⁻¹ g)^k` and one more `g⁻¹ g` if its index was selected -/
def foldGate {G : Type} (inv : G → G) (k : Nat) (extra : Bool) (g : G) : List G :=
  g :: foldBlocks inv g (k + (if extra then 1 else 0))

def foldFrom {G : Type} (inv : G → G) (k : Nat) (added : List Nat) : Nat → List G → List G
  | _, [] => []
  | i, g :: gs => foldGate inv k (added.contains i) g ++ foldFrom inv k added (i + 1) gs

def foldCircuit {G : Type} (inv : G → G) (k : Nat) (added : List Nat) (c : List G) : List G :=
  foldFrom inv k added 0 c

/-- `int((scale_factor - 1) / 2)` for `scale_factor = p/q ≥ 1` -/
def numFoldAll (p q : Nat) : Nat := (p - q) / (2 * q)

/-- `_get_residual_n_gates` : `int(((s - (2k+1)) * n) / 2)` -/
def residual (p q n : Nat) : Nat := ((p - (2 * numFoldAll p q + 1) * q) * n) / (2 * q)

def foldingLeft (p q n : Nat) : List Nat := List.range (residual p q n)
def foldingRight (p q n : Nat) : List Nat :=
  (List.range (residual p q n)).map fun i => n - residual p q n + i

/-- number of selected indices that actually occur in a circuit of length `n` starting at index `i` -/
def countSel (added : List Nat) : Nat → Nat → Nat
  | _, 0 => 0
  | i, n + 1 => (if added.contains i then 1 else 0) + countSel added (i + 1) n

end QV.C12
