import QuriVerif.Found.Template
/-
  C19 — gate-level semantics of the library's Inverse / Controlled tables (lib/std/inverse.py, control.py).

  `Controlled(U)` acts on `(c, *wires of U)`: `|0⟩⟨0|_c ⊗ 1 + |1⟩⟨1|_c ⊗ U` — phase-exact, because a global phase of
  `U` becomes a relative phase under control.  The controlled gate is represented as a `UnitaryMatrix` gate whose
  local matrix is built here from the documented local matrix of `U` (Found/Gate.lean), so that the generated
  obligations compare the resolver's gate list with it by `SMat.eq` (`decide +kernel`).
-/
namespace QV.C19Lib
open QV

/-- local matrix of the controlled gate: the control is local bit 0, the local index of `U` is shifted by one
    bit.  `L` denotes `(1/√2)^k · L`; the identity block is therefore scaled by `√2^k`. -/
def ctrlMat (L : Mat) (k d : Nat) : Mat :=
  Mat.ofFn (2 * d) (2 * d) fun r c =>
    if r % 2 == 1 && c % 2 == 1 then L.get (r / 2) (c / 2)
    else if r == c then SMat.pow Poly.sqrt2 k else []

/-- `Controlled(g)` with the control on wire 0 and `g`'s wires shifted by one -/
def ctrlGate (g : Gate) : Gate :=
  { kind := .UnitaryMatrix, targets := 0 :: g.wires.map (· + 1),
    umat := ctrlMat g.localMat.m g.localMat.k (2 ^ g.wires.length), matk := g.localMat.k }

/-- `Phase(e·π/8)` = diag(1, ζ₁₆^e) on wire `w` (π/8 is not on the `Angle` grid of Found/Gate.lean) -/
def phaseU (e : Int) (w : Nat) : Gate :=
  { kind := .UnitaryMatrix, targets := [w], umat := [[Poly.one, []], [[], Poly.uPow e]], matk := 0 }

/-- the scalar `e^{i·a}` on one qubit (a sub's tracked global phase) -/
def gphase (a : Angle) : Gate :=
  { kind := .UnitaryMatrix, targets := [0], umat := [[a.ph 2, []], [[], a.ph 2]], matk := 0 }

/-- a resolver row: `Controlled(target)` on wires `0..nq-1` is replaced by `body` -/
structure CTemplate where
  nq : Nat
  target : Gate
  body : List Gate
deriving Repr

/-- body = Controlled(target), exactly (phase included) -/
def CTemplate.check (t : CTemplate) : Bool := SMat.eq (circMat t.nq t.body) ((ctrlGate t.target).mat t.nq)

/-- `MultiControlled(op, bits, value)` fires iff control qubit `i` equals bit `i` of `value` for all `i < bits` -/
def fires (bits value : Nat) (cs : List Bool) : Bool :=
  (List.range bits).all fun i => cs.getD i false == value.testBit i

end QV.C19Lib
