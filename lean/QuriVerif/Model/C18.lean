/-
  C18 — Qubit remapping and count un-mapping (model).

  Mirrors, line by line,
    packages/circuit/quri_parts/circuit/transpile/qubit_remapping.py  (QubitRemappingTranspiler)
    packages/core/quri_parts/backend/qubit_mapping.py                 (_create_reverse_map,
        _reverse_map_bits, _reverse_map_counts, BackendQubitMapping.unmap_sampling_counts)
  plus the two key-producing helpers of the qiskit / braket back ends
    convert_qiskit_sampling_count_to_qp_sampling_count   (int(result, 2))
    BraketSamplingResult.counts                          (Counter(dot([2**q ...], row)))

  A Python `dict` is modelled by the list of its items in insertion order
  (`dictSet` = `d[k] = v`, `dictGet` = `d.get(k, dflt)`); a dict has distinct
  keys, which is the explicit hypothesis `(keys m).Nodup` of the theorems.
  Import-free; structural recursion / `List.foldl` only.
-/
namespace QV.C18

/-! ### Python dict as an association list -/

/-- `d[k] = v` : overwrite in place (the position of first insertion is kept) or append -/
def dictSet {β : Type} : List (Nat × β) → Nat → β → List (Nat × β)
  | [], k, v => [(k, v)]
  | (k', v') :: r, k, v => if k' = k then (k', v) :: r else (k', v') :: dictSet r k v

/-- `d.get(k, dflt)` -/
def dictGet {β : Type} : List (Nat × β) → Nat → β → β
  | [], _, dflt => dflt
  | (k', v') :: r, k, dflt => if k' = k then v' else dictGet r k dflt

/-- `qm[index]` (`none` = KeyError) -/
def lookup : List (Nat × Nat) → Nat → Option Nat
  | [], _ => none
  | (k, v) :: r, q => if k = q then some v else lookup r q

/-- items of `qubit_mapping` : (from, to) -/
abbrev QMap := List (Nat × Nat)

def keys (m : QMap) : List Nat := m.map (·.1)
def vals (m : QMap) : List Nat := m.map (·.2)

/-! ### QubitRemappingTranspiler -/

structure Gate where
  name : String
  targets : List Nat
  controls : List Nat
  classical : List Nat
  /-- params, pauli_ids, unitary_matrix: copied verbatim by the transpiler -/
  payload : String
  deriving DecidableEq, Repr, Inhabited

structure Circuit where
  qubitCount : Nat
  cbitCount : Nat
  gates : List Gate
  deriving DecidableEq, Repr

/-- every branch is a Python `ValueError` -/
inductive Err where
  /-- `len(qubit_mapping) != len(set(qubit_mapping.values()))` -/
  | dupValues
  /-- `max(())` of an empty mapping -/
  | emptyMapping
  /-- `KeyError` re-raised as `ValueError("Mapping for qubit … was not specified")` -/
  | missing (q : Nat)
  /-- `add_gate`: "The indices of the gate applied must be smaller than qubit_count" -/
  | qubitRange
  /-- `add_gate`: "The classical indices of the gate applied must be smaller than cbit_count" -/
  | cbitRange
  deriving DecidableEq, Repr

instance decEqResult {ε α : Type} [DecidableEq ε] [DecidableEq α] : DecidableEq (Except ε α) := fun a b =>
  match a, b with
  | .ok x, .ok y => if h : x = y then isTrue (by rw [h]) else isFalse (fun e => h (by cases e; rfl))
  | .error x, .error y => if h : x = y then isTrue (by rw [h]) else isFalse (fun e => h (by cases e; rfl))
  | .ok _, .error _ => isFalse (fun e => by cases e)
  | .error _, .ok _ => isFalse (fun e => by cases e)

/-- `len(set(l))` -/
def distinctCount : List Nat → Nat
  | [] => 0
  | x :: xs => if xs.contains x then distinctCount xs else distinctCount xs + 1

/-- `max(l)` (`none` = ValueError on the empty sequence) -/
def maxOf : List Nat → Option Nat
  | [] => none
  | x :: xs => match maxOf xs with
    | none => some x
    | some y => some (if x < y then y else x)

/-- `__init__`: returns `_max_index` -/
def mkTranspiler (m : QMap) : Except Err Nat :=
  if m.length != distinctCount (vals m) then .error .dupValues
  else match maxOf (vals m) with
    | none => .error .emptyMapping
    | some mx => .ok mx

/-- `tuple(qm[index] for index in idx)` -/
def mapIdx (m : QMap) : List Nat → Except Err (List Nat)
  | [] => .ok []
  | q :: qs =>
    match lookup m q with
    | none => .error (.missing q)
    | some v =>
      match mapIdx m qs with
      | .ok r => .ok (v :: r)
      | .error e => .error e

/-- the loop body up to the construction of `g` (controls are looked up first) -/
def remapGate (m : QMap) (g : Gate) : Except Err Gate :=
  match mapIdx m g.controls with
  | .error e => .error e
  | .ok ci =>
    match mapIdx m g.targets with
    | .error e => .error e
    | .ok ti => .ok { g with targets := ti, controls := ci }

/-- the two range checks of `QuantumCircuit.add_gate` (rust/src/circuit/circuit.rs) -/
def addGateCheck (qubitCount cbitCount : Nat) (g : Gate) : Except Err Unit :=
  if (g.targets ++ g.controls).any (fun q => decide (qubitCount ≤ q)) then .error .qubitRange
  else if g.classical.any (fun i => decide (cbitCount ≤ i)) then .error .cbitRange
  else .ok ()

/-- the `for gate in circuit.gates` loop into `QuantumCircuit(max_index + 1, circuit.cbit_count)` -/
def remapGates (m : QMap) (qubitCount cbitCount : Nat) : List Gate → Except Err (List Gate)
  | [] => .ok []
  | g :: gs =>
    match remapGate m g with
    | .error e => .error e
    | .ok g' =>
      match addGateCheck qubitCount cbitCount g' with
      | .error e => .error e
      | .ok () =>
        match remapGates m qubitCount cbitCount gs with
        | .error e => .error e
        | .ok r => .ok (g' :: r)

/-- `__call__` given `_max_index` -/
def callTranspiler (m : QMap) (mx : Nat) (c : Circuit) : Except Err Circuit :=
  match remapGates m (mx + 1) c.cbitCount c.gates with
  | .error e => .error e
  | .ok gs => .ok { qubitCount := mx + 1, cbitCount := c.cbitCount, gates := gs }

/-- `QubitRemappingTranspiler(m)(c)` -/
def remapCircuit (m : QMap) (c : Circuit) : Except Err Circuit :=
  match mkTranspiler m with
  | .error e => .error e
  | .ok mx => callTranspiler m mx c

/-! ### qubit_mapping.py -/

/-- `{1 << v: 1 << k for k, v in qubit_mapping.items()}` -/
def createReverseMap (m : QMap) : List (Nat × Nat) :=
  m.foldl (fun d p => dictSet d (1 <<< p.2) (1 <<< p.1)) []

/-- `_reverse_map_bits` — note `+=`, not `|=` -/
def reverseMapBits (x : Nat) (rm : List (Nat × Nat)) : Nat :=
  rm.foldl (fun r p => if (x &&& p.1) != 0 then r + p.2 else r) 0

/-- counts: items of a `SamplingCounts` mapping -/
abbrev Counts := List (Nat × Int)

/-- `_reverse_map_counts` -/
def reverseMapCounts (c : Counts) (rm : List (Nat × Nat)) : Counts :=
  c.foldl (fun d p =>
    let b := reverseMapBits p.1 rm
    dictSet d b (dictGet d b 0 + p.2)) []

/-- `BackendQubitMapping(m).unmap_sampling_counts(c)` -/
def unmapCounts (m : QMap) (c : Counts) : Counts := reverseMapCounts c (createReverseMap m)

/-- `_reverse_map_bits(y, _create_reverse_map(m))` -/
def unmapBits (m : QMap) (y : Nat) : Nat := reverseMapBits y (createReverseMap m)

/-! ### backend helpers that produce the integer keys -/

/-- `int(s, 2)` for a string of '0'/'1' given as booleans, most significant first -/
def binStrValue (s : List Bool) : Nat := s.foldl (fun acc b => 2 * acc + (if b then 1 else 0)) 0

/-- `int(np.dot([2**q for q in measured_qubits], row))` -/
def braketKey : List Nat → List Bool → Nat
  | q :: qs, b :: bs => (if b then 2 ^ q else 0) + braketKey qs bs
  | _, _ => 0

/-- IEEE-754 binary64 round-to-nearest-even of a natural number (53 significant bits) -/
def roundF64 (n : Nat) : Nat :=
  let b := if n = 0 then 0 else Nat.log2 n + 1
  if b ≤ 53 then n else
    let sh := b - 53
    let q := n >>> sh
    let r := n % 2 ^ sh
    let half := 2 ^ (sh - 1)
    (if half < r || (r == half && q % 2 == 1) then q + 1 else q) <<< sh

/-- NumPy's dtype for `np.array([2**q for q in measured_qubits])`: int64 while every label is ≤ 62,
    `object` (exact Python ints) as soon as one label is ≥ 64, and a non-integer promotion
    (uint64 → float64 in the product with the int64 measurement rows) when the largest label is 63. -/
def npFloatPath (qs : List Nat) : Bool := qs.any (· == 63) && qs.all (· < 64)

/-- what `BraketSamplingResult.counts` actually computes for a row with at most two 1s
    (one float addition, correctly rounded; rows with more 1s on the float path depend on NumPy's
    summation order and are outside the model) -/
def braketKeyImpl (qs : List Nat) (row : List Bool) : Nat :=
  if npFloatPath qs then roundF64 (braketKey qs row) else braketKey qs row

/-- `Counter(keys)` : first-occurrence order, multiplicities -/
def counter (ks : List Nat) : Counts :=
  ks.foldl (fun d k => dictSet d k (dictGet d k 0 + 1)) []

/-- `CompositeSamplingResult.counts`-style merge (used by the braket back end for batched shots):
    `total[k] = total.get(k, 0) + v` over the batches in order -/
def mergeCounts (batches : List Counts) : Counts :=
  batches.foldl (fun d c => c.foldl (fun d p => dictSet d p.1 (dictGet d p.1 0 + p.2)) d) []

/-! ### specification vocabulary (not code) -/

/-- the outcome a backend reports when logical qubit `k` sits on backend qubit `v` -/
def fwdBits : QMap → Nat → Nat
  | [], _ => 0
  | (k, v) :: r, x => (if x.testBit k then 2 ^ v else 0) ||| fwdBits r x

/-- the same function as `reverseMapBits` but with `|` in place of `+=` -/
def reverseMapBitsOr (x : Nat) (rm : List (Nat × Nat)) : Nat :=
  rm.foldl (fun r p => if (x &&& p.1) != 0 then r ||| p.2 else r) 0

def total (c : Counts) : Int := (c.map (·.2)).foldr (· + ·) 0

/-- overwrite bit `w` of `y` -/
def setBit (y w : Nat) (b : Bool) : Nat := if y.testBit w = b then y else y ^^^ 2 ^ w

/-- `y` with every bit that sits on a mapped backend qubit cleared -/
def strayPart (m : QMap) (y : Nat) : Nat := (vals m).foldl (fun r v => setBit r v false) y

def setBits (y : Nat) : List Nat → List Bool → Nat
  | w :: ws, b :: bs => setBits (setBit y w b) ws bs
  | _, _ => y

def localBits (y : Nat) (ws : List Nat) : List Bool := ws.map y.testBit

/-- all bit lists of length `k` -/
def allBits : Nat → List (List Bool)
  | 0 => [[]]
  | k + 1 => (allBits k).flatMap fun l => [false :: l, true :: l]

section sem
variable {α : Type} [Add α] [Mul α] [Zero α]

def sumList (l : List α) : α := l.foldr (· + ·) 0

/-- A gate with local matrix `A` (rows/columns indexed by the bits on its wires) applied to a
    state `ψ` (amplitudes indexed by the basis-state integer):
    `(Gψ)(y) = Σ_l A(y|ws, l) · ψ(y[ws := l])`. -/
def applyLocal (A : List Bool → List Bool → α) (ws : List Nat) (ψ : Nat → α) (y : Nat) : α :=
  sumList ((allBits ws.length).map fun l => A (localBits y ws) l * ψ (setBits y ws l))

/-- wires of a gate in the order the local matrix is indexed -/
def Gate.wires (g : Gate) : List Nat := g.controls ++ g.targets

/-- An interpretation of gates: the local matrix may depend on everything but the wire labels. -/
abbrev Interp (α : Type) := String → String → Nat → Nat → List Bool → List Bool → α

def Gate.mat (sem : Interp α) (g : Gate) : List Bool → List Bool → α :=
  sem g.name g.payload g.controls.length g.targets.length

/-- time-ordered application of a gate list to a state -/
def run (sem : Interp α) : List Gate → (Nat → α) → (Nat → α)
  | [], ψ => ψ
  | g :: gs, ψ => run sem gs (applyLocal (g.mat sem) g.wires ψ)

/-- the register state |0…0⟩ (amplitude `one` at index 0) -/
def basis0 (one : α) : Nat → α := fun x => if x = 0 then one else 0

end sem

/-- qubits a circuit uses -/
def usedQubits (gs : List Gate) : List Nat := gs.flatMap fun g => g.controls ++ g.targets

/-- the class invariant `add_gate` maintains on every `QuantumCircuit`: classical indices are inside
    the classical register -/
def classicalOk (cbitCount : Nat) (gs : List Gate) : Bool :=
  gs.all fun g => g.classical.all fun i => decide (i < cbitCount)

/-! ### source shape (filled in by translate/c18gen.py from the working tree) -/

/-- Which catalogued form each function of the two source files has. -/
structure Shape where
  /-- `_create_reverse_map`: dict key is `1 << v` -/
  revKeyIsShiftOfValue : Bool
  /-- `_create_reverse_map`: dict value is `1 << k` -/
  revValIsShiftOfKey : Bool
  /-- `_reverse_map_bits`: the augmented assignment ("add" | "or" | …) -/
  accOp : String
  /-- `_reverse_map_bits`: guard is `(x & mapped_bits) != 0` -/
  testsMaskNonzero : Bool
  /-- `_reverse_map_counts`: `d[rb] = d.get(rb, 0) + count` -/
  countsAccumulate : Bool
  /-- BackendQubitMapping / QubitMappedSamplingResult / QubitMappedSamplingJob only delegate -/
  wrappersDelegate : Bool
  rejectsDuplicateValues : Bool
  widthIsMaxPlusOne : Bool
  /-- "kept" (`QuantumCircuit(max_index + 1, circuit.cbit_count)`) or "dropped" (`QuantumCircuit(max_index + 1)`,
      the defect repaired by ec63c89) -/
  cbitCount : String
  keyErrorBecomesValueError : Bool
  /-- positional arguments of the rebuilt `QuantumGate`; `x*` = looked up through the mapping -/
  gateArgs : List String
  deriving DecidableEq, Repr

/-- The forms this model transcribes.  `"or"` is admitted next to `"add"` because
    `Props.C18.plus_eq_or` proves the two equal on every dict; `cbitCount` must be `"kept"`:
    `"dropped"` is the repaired defect (every Measurement circuit rejected), which
    `Props.C18.remap_accepts_iff` excludes. -/
def Shape.supported (s : Shape) : Bool :=
  s.revKeyIsShiftOfValue && s.revValIsShiftOfKey && (s.accOp == "add" || s.accOp == "or") &&
  s.testsMaskNonzero && s.countsAccumulate && s.wrappersDelegate && s.rejectsDuplicateValues &&
  s.widthIsMaxPlusOne && s.cbitCount == "kept" && s.keyErrorBecomesValueError &&
  s.gateArgs == ["name", "target_indices*", "control_indices*", "classical_indices", "params",
                 "pauli_ids", "unitary_matrix"]

end QV.C18
