/-
  C14 — Electron-integral transformations (model).

  Mirrors, line by line, the index logic and the tensor formulas of
    packages/chem/quri_parts/chem/mol/active_space.py            (get_core_and_active_orbital_indices,
                                                                  convert_to_spin_orbital_indices)
    packages/chem/quri_parts/chem/mol/models.py                  (ActiveSpaceMolecularOrbitals: derived counts,
                                                                  _check_active_space_consistency, orb_type)
    packages/chem/quri_parts/chem/mol/non_relativistic_models.py (AO→MO contraction, effective core energy,
                                                                  effective 1e/2e integrals, spatial→spin expansion,
                                                                  the from_mo / from_ao pipelines)
    packages/openfermion/quri_parts/openfermion/mol/hamiltonian.py (get_fermionic_hamiltonian: the 1/2 factor)

  Tensors are total functions on index tuples (`T2 α = Nat → Nat → α`, `T4 α`) over an arbitrary
  carrier `α` with `0, +, −, *` (core classes only; the theorems instantiate a commutative ring, the
  driver instantiates the Gaussian integers `GInt`, on which complex128 arithmetic of the real code is exact).
  numpy operations are modelled one by one: `transpose(axes)`, `tensordot(M, T, axes=([0],[k]))`, `@`,
  `np.ix_`, `trace(axis1, axis2)`, in-place `+=`/`-=`, element assignment `arr[i, j] = v` (function update),
  `itertools.product(range(k), repeat=r)` (the list of index tuples in iteration order).
  Python exceptions are the `Except Err` error branch.
  Import-free; structural recursion / `List.foldl` only.
-/
namespace QV.C14

inductive Err where
  /-- `ValueError` -/
  | value
  /-- `IndexError` -/
  | index
  /-- `AssertionError` -/
  | assertion
  deriving DecidableEq, Repr

def Err.name : Err → String
  | .value => "ValueError"
  | .index => "IndexError"
  | .assertion => "AssertionError"

instance decEqResult {ε α : Type} [DecidableEq ε] [DecidableEq α] : DecidableEq (Except ε α) := fun a b =>
  match a, b with
  | .ok x, .ok y => if h : x = y then isTrue (by rw [h]) else isFalse (fun e => h (by cases e; rfl))
  | .error x, .error y => if h : x = y then isTrue (by rw [h]) else isFalse (fun e => h (by cases e; rfl))
  | .ok _, .error _ => isFalse (fun e => by cases e)
  | .error _, .ok _ => isFalse (fun e => by cases e)

/-! ## active_space.py -/

/-- `range(n)` for a Python int `n` (empty when `n ≤ 0`) -/
def pyRange (n : Int) : List Nat := List.range n.toNat

/-- the loop
    ```
    for i in range(n_orb):
        if len(occupied_indices) == core_orb: break
        if i not in active_indices: occupied_indices.append(i)
    ```
    `occ` = `occupied_indices` so far; the list argument is the part of `range(n_orb)` still to visit.
    (Before the fix 7a862a3 the `break` test came after the append, which returned a non-empty core for
    `core_orb = 0` whenever orbital 0 was not active.) -/
def fillCore (coreOrb : Int) (act : List Int) : List Nat → List Int → List Int
  | [], occ => occ
  | i :: rest, occ =>
    if (occ.length : Int) = coreOrb then occ
    else fillCore coreOrb act rest (if (i : Int) ∈ act then occ else occ ++ [(i : Int)])

/-- `get_core_and_active_orbital_indices(n_active_ele, n_active_orb, n_electrons, active_orbs_indices)`.
    `act = none` is `None`; `not active_orbs_indices` is also true for an empty sequence. -/
def coreAndActive (nActEle nActOrb nEle : Int) (act : Option (List Int)) :
    Except Err (List Int × List Int) :=
  let nCoreEle := nEle - nActEle
  if nCoreEle % 2 = 1 then .error .value else
  let coreOrb := nCoreEle / 2
  match act with
  | none | some [] =>
    .ok ((pyRange coreOrb).map Int.ofNat, (pyRange nActOrb).map fun (i : Nat) => coreOrb + (i : Int))
  | some (a :: as) =>
    if ((a :: as).length : Int) ≠ nActOrb then .error .value else
    .ok (fillCore coreOrb (a :: as) (pyRange (coreOrb + nActOrb)) [], a :: as)

/-- `convert_to_spin_orbital_indices` (one of the two identical loops) -/
def spinIndices (l : List Int) : List Int := l.flatMap fun o => [2 * o, 2 * o + 1]

def toSpinOrbitalIndices (occ act : List Int) : List Int × List Int := (spinIndices occ, spinIndices act)

/-! ## models.py : ActiveSpaceMolecularOrbitals -/

/-- what `ActiveSpaceMolecularOrbitals` reads from the wrapped `MolecularOrbitals` -/
structure MO where
  nEle : Int
  spin : Int
  nSpatial : Int
  deriving DecidableEq, Repr

/-- `ActiveSpace` (frozen dataclass) -/
structure AS where
  nActEle : Int
  nActOrb : Int
  act : Option (List Int)
  deriving DecidableEq, Repr

def nCoreEle (m : MO) (a : AS) : Int := m.nEle - a.nActEle
def nEleBeta (m : MO) (a : AS) : Int := (a.nActEle - m.spin) / 2
def nEleAlpha (m : MO) (a : AS) : Int := a.nActEle - nEleBeta m a
def nCoreOrb (m : MO) (a : AS) : Int := nCoreEle m a / 2
def nVirOrb (m : MO) (a : AS) : Int := m.nSpatial - a.nActOrb - nCoreOrb m a

/-- `_check_active_space_consistency`: the conjunction of the seven `assert`s -/
def consistent (m : MO) (a : AS) : Bool :=
  decide (nCoreEle m a % 2 = 0) && decide (nCoreEle m a ≥ 0) && decide (nVirOrb m a ≥ 0)
    && decide (nEleAlpha m a ≥ 0) && decide (nEleBeta m a ≥ 0)
    && decide (nEleAlpha m a ≤ a.nActOrb) && decide (nEleBeta m a ≤ a.nActOrb)

/-- the constructor: `AssertionError` when a check fails -/
def mkASMO (m : MO) (a : AS) : Except Err Unit :=
  if consistent m a then .ok () else .error .assertion

/-- `get_core_and_active_orb` -/
def getCoreAndActiveOrb (m : MO) (a : AS) : Except Err (List Int × List Int) :=
  coreAndActive a.nActEle a.nActOrb m.nEle a.act

inductive OrbType where
  | core | active | virt
  deriving DecidableEq, Repr

def OrbType.name : OrbType → String
  | .core => "CORE" | .active => "ACTIVE" | .virt => "VIRTUAL"

/-- `orb_type(mo_index)` -/
def orbType (m : MO) (a : AS) (i : Int) : Except Err OrbType :=
  match getCoreAndActiveOrb m a with
  | .error e => .error e
  | .ok (core, act) => .ok (if i ∈ core then .core else if i ∈ act then .active else .virt)

/-! ## tensors -/

abbrev T2 (α : Type) := Nat → Nat → α
abbrev T4 (α : Type) := Nat → Nat → Nat → Nat → α

section Tensor
variable {α : Type} [Zero α] [Add α] [Sub α] [Mul α]

/-- `Σ_{i ∈ l} f i` (a list: with multiplicity, in order) -/
def sumOver (l : List Nat) (f : Nat → α) : α := (l.map f).sum

/-- `Σ_{i < n} f i` -/
def sumTo (n : Nat) (f : Nat → α) : α := sumOver (List.range n) f

/-- `2 * x` -/
def twice (x : α) : α := x + x

/-- `A @ B` with inner dimension `n` -/
def matmul (n : Nat) (A B : T2 α) : T2 α := fun i j => sumTo n fun k => A i k * B k j

/-- `C.conjugate().T` -/
def conjT (conj : α → α) (C : T2 α) : T2 α := fun i j => conj (C j i)

/-- `AO1eIntArray.to_spatial_mo1int`: `mo_coeff.conjugate().T @ ao1e @ mo_coeff` (left-associated) -/
def ao2mo1 (conj : α → α) (n : Nat) (C h : T2 α) : T2 α :=
  matmul n (matmul n (conjT conj C) h) C

/-- numpy `t.transpose(a0, a1, a2, a3)`: `result[i0,i1,i2,i3] = t[j0,j1,j2,j3]` with `j[a_k] = i_k` -/
def transposeAx (a0 a1 a2 : Nat) (t : T4 α) : T4 α := fun i0 i1 i2 i3 =>
  let j : Nat → Nat := fun m => if a0 = m then i0 else if a1 = m then i1 else if a2 = m then i2 else i3
  t (j 0) (j 1) (j 2) (j 3)

/-- `tensordot(M, T, axes=([0], [k]))`, contracted length `n`:
    `result[x, r0, r1, r2] = Σ_a M[a, x] * T[(r0, r1, r2) with a inserted at position k]` -/
def tdot (n k : Nat) (M : T2 α) (T : T4 α) : T4 α := fun x r0 r1 r2 =>
  sumTo n fun a => M a x *
    (match k with
     | 0 => T a r0 r1 r2
     | 1 => T r0 a r1 r2
     | 2 => T r0 r1 a r2
     | _ => T r0 r1 r2 a)

/-- `AO2eIntArray.to_spatial_mo2int` -/
def ao2mo2 (conj : α → α) (n : Nat) (C : T2 α) (A : T4 α) : T4 α :=
  let cc : T2 α := fun a x => conj (C a x)
  let t0 := transposeAx 0 3 1 A
  let t1 := tdot n 0 C t0
  let t2 := tdot n 1 cc t1
  let t3 := tdot n 2 C t2
  let t4 := tdot n 3 cc t3
  transposeAx 0 2 3 t4

/-- `m[np.ix_(r, c)]` -/
def ix2 (r c : List Nat) (m : T2 α) : T2 α := fun a b => m (r.getD a 0) (c.getD b 0)

/-- `t[np.ix_(i0, i1, i2, i3)]` -/
def ix4 (i0 i1 i2 i3 : List Nat) (t : T4 α) : T4 α := fun a b c d =>
  t (i0.getD a 0) (i1.getD b 0) (i2.getD c 0) (i3.getD d 0)

/-- `trace(m)` of a `k × k` array -/
def trace2 (k : Nat) (m : T2 α) : α := sumTo k fun a => m a a

/-- `trace(t, axis1=0, axis2=3)` (diagonal length `k`; remaining axes 1, 2 in order) -/
def trace4_03 (k : Nat) (t : T4 α) : T2 α := fun b c => sumTo k fun a => t a b c a

/-- `trace(t, axis1=0, axis2=2)` (remaining axes 1, 3 in order) -/
def trace4_02 (k : Nat) (t : T4 α) : T2 α := fun b d => sumTo k fun a => t a b a d

/-- `get_effective_active_space_core_energy` -/
def effCoreEnergy (ec : α) (h : T2 α) (g : T4 α) (core : List Nat) : α :=
  let k := core.length
  let sub := ix4 core core core core g
  let d0 : α := 0
  let d1 := d0 + twice (trace2 k (ix2 core core h))
  let d2 := d1 + twice (trace2 k (trace4_03 k sub))
  let d3 := d2 - trace2 k (trace4_02 k sub)
  ec + d3

/-- `get_effective_active_space_1e_integrals` (`n = mo_1e_int.shape[0]`) -/
def effOneBody (n : Nat) (h : T2 α) (g : T4 α) (core act : List Nat) : T2 α :=
  let full := List.range n
  let k := core.length
  let as1 : T2 α := fun p q => h p q + twice (trace4_03 k (ix4 core full full core g) p q)
  let as2 : T2 α := fun p q => as1 p q - trace4_02 k (ix4 core full core full g) p q
  ix2 act act as2

/-- `get_effective_active_space_2e_integrals` -/
def effTwoBody (g : T4 α) (act : List Nat) : T4 α := ix4 act act act act g

/-! ### spatial → spin expansion -/

/-- `arr[i, j] = v` -/
def upd2 (arr : T2 α) (i j : Nat) (v : α) : T2 α := fun x y => if x = i ∧ y = j then v else arr x y

/-- `arr[i0, i1, i2, i3] = v` -/
def upd4 (arr : T4 α) (i0 i1 i2 i3 : Nat) (v : α) : T4 α := fun x0 x1 x2 x3 =>
  if x0 = i0 ∧ x1 = i1 ∧ x2 = i2 ∧ x3 = i3 then v else arr x0 x1 x2 x3

/-- `product(range(k), repeat=2)` -/
def pairs (k : Nat) : List (Nat × Nat) :=
  (List.range k).flatMap fun p => (List.range k).map fun q => (p, q)

/-- `product(range(k), repeat=4)` -/
def quads (k : Nat) : List (Nat × Nat × Nat × Nat) :=
  (List.range k).flatMap fun p => (List.range k).flatMap fun q =>
    (List.range k).flatMap fun r => (List.range k).map fun s => (p, q, r, s)

/-- loop body of `spatial_mo_1e_int_to_spin_mo_1e_int` -/
def spin1Step (h : T2 α) (arr : T2 α) (t : Nat × Nat) : T2 α :=
  let p := t.1
  let q := t.2
  let pa := 2 * p
  let qa := 2 * q
  let pb := 2 * p + 1
  let qb := 2 * q + 1
  upd2 (upd2 arr pa qa (h p q)) pb qb (h p q)

/-- the array after the loop over `product(range(k), repeat=2)` (`k = n_spin_orb // 2`) -/
def spin1Arr (k : Nat) (h : T2 α) : T2 α := (pairs k).foldl (spin1Step h) (fun _ _ => 0)

/-- `spatial_mo_1e_int_to_spin_mo_1e_int(n_spin_orb, h)` for an `m × m` array `h`:
    reading `h[p, q]` with `p ≥ m` is an `IndexError` -/
def spin1 (nso m : Nat) (h : T2 α) : Except Err (T2 α) :=
  if nso / 2 > m then .error .index else .ok (spin1Arr (nso / 2) h)

/-- loop body of `spatial_mo_2e_int_to_spin_mo_2e_int` -/
def spin2Step (g : T4 α) (arr : T4 α) (t : Nat × Nat × Nat × Nat) : T4 α :=
  let p := t.1
  let q := t.2.1
  let r := t.2.2.1
  let s := t.2.2.2
  let pa := 2 * p
  let qa := 2 * q
  let ra := 2 * r
  let sa := 2 * s
  let pb := 2 * p + 1
  let qb := 2 * q + 1
  let rb := 2 * r + 1
  let sb := 2 * s + 1
  -- mixed spin
  let a1 := upd4 arr pa qb rb sa (g p q r s)
  let a2 := upd4 a1 pb qa ra sb (g p q r s)
  -- same spin
  let a3 := upd4 a2 pa qa ra sa (g p q r s)
  upd4 a3 pb qb rb sb (g p q r s)

def spin2Arr (k : Nat) (g : T4 α) : T4 α := (quads k).foldl (spin2Step g) (fun _ _ _ _ => 0)

def spin2 (nso m : Nat) (g : T4 α) : Except Err (T4 α) :=
  if nso / 2 > m then .error .index else .ok (spin2Arr (nso / 2) g)

/-! ### integral sets and the pipelines -/

/-- `SpatialMOeIntSet` / `SpinMOeIntSet` / the arrays of `AOeIntArraySet` with the common array dimension -/
structure ESet (α : Type) where
  const : α
  h : T2 α
  g : T4 α
  dim : Nat

/-- one index of an `np.ix_` index array applied to an axis of length `n`: negative indices wrap,
    out-of-range is an `IndexError` -/
def normIdx (n : Nat) (i : Int) : Except Err Nat :=
  if 0 ≤ i ∧ i < (n : Int) then .ok i.toNat
  else if -(n : Int) ≤ i ∧ i < 0 then .ok (i + (n : Int)).toNat
  else .error .index

/-- `get_active_space_spatial_integrals_from_mo_eint` given the two index lists -/
def activeSpaceSpatialIdx (s : ESet α) (core act : List Int) : Except Err (ESet α) := do
  let c ← core.mapM (normIdx s.dim)
  let a ← act.mapM (normIdx s.dim)
  pure ⟨effCoreEnergy s.const s.h s.g c, effOneBody s.dim s.h s.g c a, effTwoBody s.g a, a.length⟩

/-- `spatial_mo_eint_set_to_spin_mo_eint_set` (`n_spin_orb = 2 * shape[0]`; the loops run to `n_spin_orb // 2`) -/
def toSpinSet (s : ESet α) : ESet α :=
  let nso := 2 * s.dim
  ⟨s.const, spin1Arr (nso / 2) s.h, spin2Arr (nso / 2) s.g, nso⟩

/-- `get_active_space_spatial_integrals_from_mo_eint(active_space_mo, electron_mo_ints)` -/
def activeSpaceSpatialFromMO (m : MO) (a : AS) (s : ESet α) : Except Err (ESet α) :=
  match getCoreAndActiveOrb m a with
  | .error e => .error e
  | .ok (core, act) => activeSpaceSpatialIdx s core act

/-- `get_active_space_spin_integrals_from_mo_eint` -/
def activeSpaceSpinFromMO (m : MO) (a : AS) (s : ESet α) : Except Err (ESet α) :=
  (activeSpaceSpatialFromMO m a s).map toSpinSet

/-- `AOeIntArraySet.to_full_space_spatial_mo_int` -/
def fullSpaceSpatialFromAO (conj : α → α) (C : T2 α) (ao : ESet α) : ESet α :=
  ⟨ao.const, ao2mo1 conj ao.dim C ao.h, ao2mo2 conj ao.dim C ao.g, ao.dim⟩

/-- `AOeIntArraySet.to_full_space_mo_int` (`to_mo1int` / `to_mo2int`: `n_spin_orb = shape[0] * 2`) -/
def fullSpaceSpinFromAO (conj : α → α) (C : T2 α) (ao : ESet α) : ESet α :=
  toSpinSet (fullSpaceSpatialFromAO conj C ao)

/-- `get_active_space_spatial_integrals_from_ao_eint` -/
def activeSpaceSpatialFromAO (conj : α → α) (C : T2 α) (m : MO) (a : AS) (ao : ESet α) : Except Err (ESet α) :=
  activeSpaceSpatialFromMO m a (fullSpaceSpatialFromAO conj C ao)

/-- `get_active_space_spin_integrals_from_ao_eint` -/
def activeSpaceSpinFromAO (conj : α → α) (C : T2 α) (m : MO) (a : AS) (ao : ESet α) : Except Err (ESet α) :=
  activeSpaceSpinFromMO m a (fullSpaceSpatialFromAO conj C ao)

/-- `get_fermionic_hamiltonian`: `InteractionOperator(const, mo_1e_int, mo_2e_int / 2)`; `half x` is `x / 2` -/
def fermionicHamiltonian (half : α → α) (s : ESet α) : ESet α :=
  ⟨s.const, s.h, fun p q r s' => half (s.g p q r s'), s.dim⟩

/-! ### determinant energies (Slater–Condon, diagonal rule) in the convention of `InteractionOperator`

  `H = c + Σ one[P,Q] a†_P a_Q + Σ two[P,Q,R,S] a†_P a†_Q a_R a_S`.  For a determinant `D` (a list of
  distinct spin orbitals) `⟨D|H|D⟩ = c + Σ_{P∈D} one[P,P] + Σ_{P,Q∈D} (two[P,Q,Q,P] − two[P,Q,P,Q])`
  (the `P = Q` terms cancel). -/

def detEnergy (c : α) (one : T2 α) (two : T4 α) (D : List Nat) : α :=
  c + sumOver D (fun P => one P P) + sumOver D (fun P => sumOver D fun Q => two P Q Q P - two P Q P Q)

/-- position `U` of the active spin-orbital register ↦ full-space spin orbital -/
def liftSpin (act : List Nat) (U : Nat) : Nat := 2 * act.getD (U / 2) 0 + U % 2

/-- full-space determinant of an active-space determinant `S`: doubly occupied core + lifted `S` -/
def fullDet (core act : List Nat) (S : List Nat) : List Nat :=
  (core.flatMap fun i => [2 * i, 2 * i + 1]) ++ S.map (liftSpin act)

end Tensor

/-! ## the shape of the source the model implements

  `translate/c14gen.py` reads the same items from the working tree's source text (Python `ast`) into
  `Generated/C14Src.lean`; the generated obligation is `src = modelShape`. -/

structure SrcShape where
  /-- `to_spatial_mo1int`: the matrix product, left to right -/
  ao1 : List String
  /-- `to_spatial_mo2int`: axes of the first `transpose` -/
  ao2AxesIn : List Nat
  /-- the `tensordot`s in order: (first operand conjugated?, axis of the first operand, axis of the tensor) -/
  ao2Dots : List (Bool × Nat × Nat)
  /-- axes of the last `transpose` -/
  ao2AxesOut : List Nat
  /-- effective core energy: (sign is `+=`?, coefficient, term) -/
  effE : List (Bool × Nat × String)
  /-- the value returned -/
  effERet : String
  /-- effective 1e integrals: (sign is `+=`?, coefficient, `np.ix_` arguments, axis1, axis2) -/
  eff1 : List (Bool × Nat × List String × Nat × Nat)
  /-- final selection -/
  eff1Out : List String
  eff2Ix : List String
  /-- loop range and repeat of the two expansion loops -/
  spinLoops : List (String × Nat)
  /-- definitions of the spin indices: (name, factor, variable, offset) -/
  spinDefs : List (String × Nat × String × Nat)
  /-- assignments of the 1e loop (target indices, source indices) -/
  spin1 : List (List String × List String)
  spin2 : List (List String × List String)
  /-- every `transpose` of quri_parts/pyscf/mol/non_relativistic.py (chemist → physicist) -/
  pyscfTransposes : List (List Nat)
  /-- `get_fermionic_hamiltonian`: divisor of the two-body tensor, constructor arguments -/
  hamDivisor : Nat
  hamArgs : List String
  deriving DecidableEq, Repr

def modelShape : SrcShape where
  ao1 := ["conj(C).T", "ao", "C"]
  ao2AxesIn := [0, 3, 1, 2]
  ao2Dots := [(false, 0, 0), (true, 0, 1), (false, 0, 2), (true, 0, 3)]
  ao2AxesOut := [0, 2, 3, 1]
  effE := [(true, 2, "trace(h[core,core])"), (true, 2, "trace(trace(g[core,core,core,core],0,3))"),
           (false, 1, "trace(trace(g[core,core,core,core],0,2))")]
  effERet := "core_energy+delta_E"
  eff1 := [(true, 2, ["core", "full", "full", "core"], 0, 3), (false, 1, ["core", "full", "core", "full"], 0, 2)]
  eff1Out := ["active", "active"]
  eff2Ix := ["active", "active", "active", "active"]
  spinLoops := [("n_spin_orb//2", 2), ("n_spin_orb//2", 4)]
  spinDefs := [("p_a", 2, "p", 0), ("q_a", 2, "q", 0), ("p_b", 2, "p", 1), ("q_b", 2, "q", 1),
               ("p_a", 2, "p", 0), ("q_a", 2, "q", 0), ("r_a", 2, "r", 0), ("s_a", 2, "s", 0),
               ("p_b", 2, "p", 1), ("q_b", 2, "q", 1), ("r_b", 2, "r", 1), ("s_b", 2, "s", 1)]
  spin1 := [(["p_a", "q_a"], ["p", "q"]), (["p_b", "q_b"], ["p", "q"])]
  spin2 := [(["p_a", "q_b", "r_b", "s_a"], ["p", "q", "r", "s"]), (["p_b", "q_a", "r_a", "s_b"], ["p", "q", "r", "s"]),
            (["p_a", "q_a", "r_a", "s_a"], ["p", "q", "r", "s"]), (["p_b", "q_b", "r_b", "s_b"], ["p", "q", "r", "s"])]
  pyscfTransposes := [[0, 2, 3, 1], [0, 2, 3, 1], [0, 2, 3, 1]]
  hamDivisor := 2
  hamArgs := ["const", "mo_1e_int", "mo_2e_int/2"]

/-! ## Gaussian integers: the carrier of the executable model (complex128 is exact on them) -/

structure GInt where
  re : Int
  im : Int
  deriving DecidableEq, Repr

namespace GInt
instance : Zero GInt := ⟨⟨0, 0⟩⟩
instance : Add GInt := ⟨fun a b => ⟨a.re + b.re, a.im + b.im⟩⟩
instance : Sub GInt := ⟨fun a b => ⟨a.re - b.re, a.im - b.im⟩⟩
instance : Mul GInt := ⟨fun a b => ⟨a.re * b.re - a.im * b.im, a.re * b.im + a.im * b.re⟩⟩
def conj (a : GInt) : GInt := ⟨a.re, -a.im⟩
/-- exact when both parts are even (the correspondence feeds even entries) -/
def half (a : GInt) : GInt := ⟨a.re / 2, a.im / 2⟩
end GInt

end QV.C14
