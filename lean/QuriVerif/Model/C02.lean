import QuriVerif.Model.C01
/-
  C02: abstract interpretation of the transpiler passes on the *set of gate
  kinds* that may occur in a circuit.  `absPass e fuel p K` over-approximates the
  kinds in the output of `runPass e fuel p` on any circuit whose kinds lie in `K`
  (soundness: Proof/C02.lean).
-/
namespace QV.C02
open QV QV.C01

def bodyKinds (t : Template) : List Kind := t.body.map (·.kind)

def absDecomp (tbl : Table) (names : List String) (K : List Kind) : List Kind :=
  K.flatMap fun k => match lookupKind tbl names k with
    | some t => bodyKinds t
    | none => [k]

def absLadderKind (ls : List Ladder) (alt : Nat) (k : Kind) : List Kind :=
  match ls.find? (·.kind == k) with
  | none => [k]
  | some l =>
    k :: l.rows.flatMap fun r =>
      match r.alts.getD (if r.alts.length == 1 then 0 else alt) none with
      | none => []
      | some t => bodyKinds t

def absClif (table : List (Kind × List (List Kind))) (cliff1q tset : List Kind) (k : Kind) : List Kind :=
  if !cliff1q.contains k then [k]
  else if tset.contains k then [k]
  else match table.find? (·.1 == k) with
    | none => [k]
    | some (_, cands) =>
      match cands.find? (fun cand => cand.all tset.contains) with
      | some cand => cand
      | none => [k]

mutual
def absPass (e : Env) : Nat → Pass → List Kind → List Kind
  | 0, _, K => K
  | fuel + 1, p, K =>
    match p with
    | .decomp names => absDecomp e.templates names K
    | .fuseRot => K
    | .fuseCHC => K ++ bodyKinds e.chc
    | .normalize _ => K
    | .ladder names alt =>
      K.flatMap (absLadderKind ((e.ladders.filter fun l => names.contains l.1).map (·.2)) alt)
    | .clifConv tset => K.flatMap (absClif e.clifTable e.cliff1q tset)
    | .idElim => K.filter (· != .Identity)
    | .idInsert _ => K ++ [.Identity]
    | .pauliDec => K.flatMap fun k => if k == .Pauli then [.X, .Y, .Z] else [k]
    | .pauliRotDec => K.flatMap fun k => if k == .PauliRotation then [.H, .RX, .CNOT, .RZ] else [k]
    | .um1 | .um2 => K
    | .cnotRzRzz => K ++ [.RZZ]
    | .cliffApprox => K
    | .rotConv rots fav =>
      (absSeq e fuel (rotConvPipeline rots fav) K).filter fun k => !(isRot k && !rots.contains k)
    | .gateSetConv gs validate =>
      if validate then (absSeq e fuel (gateSetPipeline gs) K).filter gs.contains
      else absSeq e fuel (gateSetPipeline gs) K
def absSeq (e : Env) : Nat → List Pass → List Kind → List Kind
  | 0, _, K => K
  | _ + 1, [], K => K
  | fuel + 1, p :: ps, K => absSeq e fuel ps (absPass e fuel p K)
end

/-- all gates of `c` have a kind in `K` -/
def allKinds (c : List NGate) (K : List Kind) : Prop := ∀ g ∈ c, g.kind ∈ K

/-- every wire of a template body is one of the target gate's wires -/
def templateWiresOk (t : Template) : Bool :=
  t.body.all fun b => (b.controls ++ b.targets).all fun w => w < (t.target.controls ++ t.target.targets).length

end QV.C02
