/-
  C11 — Concurrent execution is equivalent to sequential execution.

  Executable model, import-free.

  (a) `execute_concurrently` (packages/core/quri_parts/core/utils/concurrent.py):
      chunk arithmetic, order-preserving `Executor.map`, `chain.from_iterable`.
  (b) an abstract task system: every worker call handed to the executor is a *task*,
      a list of atomic statements over a shared store (cells = backend objects such as
      state vectors, compiled circuits, parameter sets; a content-keyed cache = the
      `_operator_cache` dicts).  A schedule is a list of task ids; every merge of the
      tasks' statement lists is a schedule.
-/
namespace QV.C11

/-! ### (a) chunking -/

/-- `input_counts = [(len(xs) + i) // concurrency for i in range(concurrency)]` -/
def counts (n c : Nat) : List Nat := (List.range c).map fun i => (n + i) / c

/-- Python slice `xs[a:b]` for non-negative `a`, `b` -/
def slice {α : Type} (xs : List α) (a b : Nat) : List α := (xs.drop a).take (b - a)

/-- `sum(input_counts[:i])` -/
def psum (cs : List Nat) (i : Nat) : Nat := (cs.take i).sum

/-- `input_list = [xs[sum(cnt[:i]) : sum(cnt[:i+1])] for i in range(concurrency)]` -/
def chunks {α : Type} (xs : List α) (c : Nat) : List (List α) :=
  (List.range c).map fun i => slice xs (psum (counts xs.length c) i) (psum (counts xs.length c) (i + 1))

/-- `concurrency` is a Python `int`: `range(c)` is empty for `c ≤ 0`, and for `c > 0` floor
    division of non-negative ints is `Nat` division. -/
def chunksI {α : Type} (xs : List α) (c : Int) : List (List α) := chunks xs c.toNat

/-- `Executor.map(fn, [common] * c, input_list)`: results in the order of the inputs
    (what happens *inside* the executor is part (b)). -/
def executorMap {κ α ρ : Type} (fn : κ → List α → List ρ) (commons : List κ) (inputs : List (List α)) :
    List (List ρ) := List.zipWith fn commons inputs

/-- `execute_concurrently(fn, common, xs, executor, concurrency)`;
    `ex = none` is `executor is None`. -/
def executeConcurrently {κ α ρ ε : Type} (fn : κ → List α → List ρ) (common : κ) (xs : List α)
    (ex : Option ε) (c : Int) : List ρ :=
  match ex with
  | none => fn common xs
  | some _ => (executorMap fn (List.replicate c.toNat common) (chunksI xs c)).flatten

/-- the executors the entry points are used with -/
inductive Executor where
  | thread
  | process
deriving DecidableEq, Repr

/-- what the caller observes: a result list, or an exception -/
inductive Outcome (ρ : Type) where
  | ok (rs : List ρ)
  | raises
deriving DecidableEq, Repr

/-- The call as a user sees it.  A process pool pickles the worker function and every argument
    tuple it is asked to run; `shippable = false` means that this round trip fails (worker defined
    inside another function, compiled circuit object, `mappingproxy` member, …) – then the real
    call raises instead of returning (nothing is submitted, hence nothing raised, for `c ≤ 0`). -/
def executeWith {κ α ρ : Type} (fn : κ → List α → List ρ) (common : κ) (xs : List α)
    (ex : Option Executor) (c : Int) (shippable : Bool) : Outcome ρ :=
  match ex with
  | some .process =>
    if 0 < c && !shippable then .raises else .ok (executeConcurrently fn common xs ex c)
  | _ => .ok (executeConcurrently fn common xs ex c)

/-! ### (b) task system -/

/-- atomic statements of a worker -/
inductive Instr where
  /-- `dst := v` (fresh state vector, literal parameter, …) -/
  | set (dst : Nat) (v : Int)
  /-- `dst := prim f cells[a] cells[b]` (update_quantum_state, set_parameter, expectation value …) -/
  | app (dst f a b : Nat)
  /-- `dst := cache[key]` if present, otherwise the value the builder produces for `key` -/
  | lookup (dst key : Nat)
  /-- `cache[key] := cells[src]` -/
  | publish (key src : Nat)
  /-- `results.append(cells[src])` -/
  | emit (src : Nat)
deriving DecidableEq, Repr

/-- interpretation of the backend primitives and of the cache's builder -/
structure Sem where
  prim : Nat → Int → Int → Int
  build : Nat → Int

structure St where
  cells : Nat → Int
  cache : List (Nat × Int)
  out : Nat → List Int

def upd {β : Type} (f : Nat → β) (k : Nat) (v : β) : Nat → β := fun x => if x = k then v else f x

/-- one statement of task `t` on the shared store -/
def exec (S : Sem) (t : Nat) (i : Instr) (s : St) : St :=
  match i with
  | .set d v => { s with cells := upd s.cells d v }
  | .app d f a b => { s with cells := upd s.cells d (S.prim f (s.cells a) (s.cells b)) }
  | .lookup d k => { s with cells := upd s.cells d ((s.cache.lookup k).getD (S.build k)) }
  | .publish k src => { s with cache := (k, s.cells src) :: s.cache }
  | .emit src => { s with out := upd s.out t (s.out t ++ [s.cells src]) }

structure Sys where
  st : St
  progs : Nat → List Instr

def progOf (ps : List (List Instr)) : Nat → List Instr := fun t => ps.getD t []

def init (ps : List (List Instr)) (m0 : Nat → Int) (c0 : List (Nat × Int)) (o0 : Nat → List Int) : Sys :=
  { st := { cells := m0, cache := c0, out := o0 }, progs := progOf ps }

/-- the scheduler lets task `t` run its next statement (no-op when `t` has finished) -/
def stepTask (S : Sem) (t : Nat) (y : Sys) : Sys :=
  match y.progs t with
  | [] => y
  | i :: rest => { st := exec S t i y.st, progs := upd y.progs t rest }

def runSched (S : Sem) : List Nat → Sys → Sys
  | [], y => y
  | t :: ts, y => runSched S ts (stepTask S t y)

/-- all of the first `n` tasks have run to completion -/
def complete (n : Nat) (y : Sys) : Bool := (List.range n).all fun t => (y.progs t).isEmpty

/-- the sequential schedule: task 0 to completion, then task 1, … -/
def seqSchedFrom : Nat → List (List Instr) → List Nat
  | _, [] => []
  | t, p :: r => List.replicate p.length t ++ seqSchedFrom (t + 1) r

def seqSched (ps : List (List Instr)) : List Nat := seqSchedFrom 0 ps

/-! #### a task on its own -/

/-- effect of a statement on the cells of a task that runs alone with a cache that only
    ever holds fully built values -/
def iexec (S : Sem) (i : Instr) (m : Nat → Int) : Nat → Int :=
  match i with
  | .set d v => upd m d v
  | .app d f a b => upd m d (S.prim f (m a) (m b))
  | .lookup d k => upd m d (S.build k)
  | .publish _ _ => m
  | .emit _ => m

/-- the results a task returns when run alone -/
def iout (S : Sem) : List Instr → (Nat → Int) → List Int
  | [], _ => []
  | .emit src :: r, m => m src :: iout S r m
  | i :: r, m => iout S r (iexec S i m)

/-! #### footprint discipline -/

def Instr.reads : Instr → List Nat
  | .set _ _ => []
  | .app _ _ a b => [a, b]
  | .lookup _ _ => []
  | .publish _ s => [s]
  | .emit s => [s]

def Instr.writes : Instr → List Nat
  | .set d _ => [d]
  | .app d _ _ _ => [d]
  | .lookup d _ => [d]
  | .publish _ _ => []
  | .emit _ => []

def reads (p : List Instr) : List Nat := p.flatMap Instr.reads
def writes (p : List Instr) : List Nat := p.flatMap Instr.writes
def footprint (p : List Instr) : List Nat := reads p ++ writes p

/-- no cell written by one task is read or written by another one -/
def isPrivate (ps : List (List Instr)) : Bool :=
  (List.range ps.length).all fun t => (List.range ps.length).all fun u =>
    t == u || (writes (progOf ps u)).all fun x => !(footprint (progOf ps t)).contains x

/-- every value a task stores in the cache under `key` is the fully built value for `key`
    (checked on the task running alone – a purely sequential obligation) -/
def publishOK (S : Sem) : List Instr → (Nat → Int) → Bool
  | [], _ => true
  | .publish k src :: r, m => (m src == S.build k) && publishOK S r m
  | i :: r, m => publishOK S r (iexec S i m)

/-- a cell whose value was put into the cache is not written again by its task: Python's cache
    holds a *reference*, the model a copy; the two agree exactly under this rule -/
def frozenAfterPublish : List Instr → Bool
  | [] => true
  | .publish _ src :: r => !(writes r).contains src && frozenAfterPublish r
  | _ :: r => frozenAfterPublish r

def cacheOK (S : Sem) (c : List (Nat × Int)) : Bool := c.all fun kv => kv.2 == S.build kv.1

def disciplined (S : Sem) (ps : List (List Instr)) (m0 : Nat → Int) : Bool :=
  isPrivate ps && ps.all (fun p => publishOK S p m0) && ps.all frozenAfterPublish

end QV.C11
