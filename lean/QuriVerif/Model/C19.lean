/-
  C19 — executable model of quri-parts `qsub` structured compilation.
  Import-free (core Lean only); every function is structurally recursive
  (explicit fuel where the call graph is followed) so that the kernel can run it.

  What is modelled (file → definition):
    sub.py `SubBuilder`            local names: argument i ↦ `i`, auxiliary j ↦ `nArgs + j`
    codegen.py / link.py           `Inst.prim` / `Inst.call` (call table = `List Sub`, callee = index);
                                   `compileH` (collect / lower / link) for the op-level program
    allocate.py                    stack allocator = one number `idx` (`allocate` adds, `free_last` subtracts);
                                   because every call frees exactly what it allocated, `idx` is passed down, not threaded
    expand.py `_expand(recursive)` `expandSubF`, `expand`   (single substitution frame `envOf`, `.get(q, q)` default)
    evaluate.py `Evaluator`        `evalSubF`, `eval`       (call-stack recursion check, first error aborts)
    eval/quriparts.py              qubit-map stack `List Frame`, `_update_qubit_map` = `updMap`, `qubit_map[q]` = `look`
    eval/gatecount.py, qubitcount.py   `memoSubF` with the two algebras `gateAlg`, `auxAlg` (memo table keyed by sub id)
    compile.py / resolve.py / codegen.py / link.py   `compileH`
    lib/std/inverse.py, control.py `invProgram`, `ctlProgram` (generic resolvers as program transformations)

  Registers are renamed by `_expand` with the very same code path as qubits (`RegisterAllocator`,
  `map_registers`); the harness runs `expand` on the register view of a program as well.  The quri-parts
  evaluator hooks ignore registers.  Not modelled: `expand(recursive=False)`, visualisation, `conditional`.

  The entry sub is kept separate from the call table (`Program.root`): `link` returns a fresh copy of the
  entry `MachineSub`, whose `id` therefore never equals the id of a table entry.
-/
deriving instance DecidableEq for Except

namespace QV.C19

inductive Inst where
  | prim (op : Nat) (qs : List Nat)
  | call (callee : Nat) (qs : List Nat)
deriving Repr, DecidableEq, Inhabited

structure Sub where
  nArgs : Nat
  nAux : Nat
  body : List Inst
deriving Repr, DecidableEq, Inhabited

def Sub.size (S : Sub) : Nat := S.nArgs + S.nAux

structure Program where
  table : List Sub
  root : Sub
deriving Repr, DecidableEq

/-- exceptions of the real code: `MachineSubRecursionError`, `ValueError("Unlinked SubCall")`,
    `KeyError` (qubit map lookup); `fuel` is the model's own "ran out of fuel" (proved unreachable) -/
inductive Err where
  | recursion | unlinked | key | fuel
deriving Repr, DecidableEq, Inhabited

structure GateI where
  op : Nat
  qs : List Nat
deriving Repr, DecidableEq, Inhabited

/-! ### dictionaries as association lists (first match wins) -/

abbrev Frame := List (Nat × Nat)

def look : Frame → Nat → Option Nat
  | [], _ => none
  | kv :: r, q => if kv.1 = q then some kv.2 else look r q

/-- `m.get(v, v)` -/
def tr (fr : Frame) (v : Nat) : Nat := (look fr v).getD v

/-- `dict(zip([Qubit(s), Qubit(s+1), …], qs))` -/
def zipFrom : Nat → List Nat → Frame
  | _, [] => []
  | s, q :: r => (s, q) :: zipFrom (s + 1) r

/-- `{Qubit(a+j): Qubit(b+j) for j < n}` -/
def auxFrom : Nat → Nat → Nat → Frame
  | _, _, 0 => []
  | a, b, n + 1 => (a, b) :: auxFrom (a + 1) (b + 1) n

/-- `dict(zip(sub.qubits, qubits))` for a SubBuilder-made sub (`zip` truncates to the shorter list) -/
def argFrame (S : Sub) (qs : List Nat) : Frame := zipFrom 0 (qs.take S.nArgs)

/-- `dict(allocator.allocate_map(sub.aux_qubits))` when the allocator index is `idx` -/
def auxFrame (S : Sub) (idx : Nat) : Frame := auxFrom S.nArgs idx S.nAux

/-- one iteration of the loop in `_update_qubit_map`:
    `rep = {k: frame.get(v, v)}` over the accumulated map, result `frame | rep` -/
def stepMap (acc fr : Frame) : Frame := acc.map (fun kv => (kv.1, tr fr kv.2)) ++ fr

/-- `_update_qubit_map`; the stack is stored top first, so `reversed(stack)` is the list order -/
def updMap (frames : List Frame) : Frame := frames.foldl stepMap []

/-! ### bodies -/

/-- run the instructions in order, concatenating outputs; the first error aborts -/
def bodyM (f : Inst → Except Err (List GateI)) : List Inst → Except Err (List GateI)
  | [] => .ok []
  | i :: r =>
    match f i with
    | .error e => .error e
    | .ok a =>
      match bodyM f r with
      | .error e => .error e
      | .ok b => .ok (a ++ b)

def lookAll (m : Frame) : List Nat → Except Err (List Nat)
  | [] => .ok []
  | q :: r =>
    match look m q with
    | none => .error .key
    | some a =>
      match lookAll m r with
      | .error e => .error e
      | .ok l => .ok (a :: l)

/-! ### hierarchical evaluation (Evaluator + QURIPartsEvaluatorHooks) -/

/-- body of `_call_sub` after the recursion check: push the two frames, allocate, run the instructions.
    `callF frames' idx'` handles a `SubCall` met in the body. -/
def runSub (callF : List Frame → Nat → Nat → List Nat → Except Err (List GateI))
    (frames : List Frame) (idx : Nat) (S : Sub) (qs : List Nat) : Except Err (List GateI) :=
  let frames' := auxFrame S idx :: argFrame S qs :: frames
  let m := updMap frames'
  bodyM (fun i => match i with
    | .prim o ps => match lookAll m ps with
        | .error e => .error e
        | .ok l => .ok [⟨o, l⟩]
    | .call c ps => callF frames' (idx + S.nAux) c ps) S.body

def evalSubF (prog : List Sub) : Nat → List Nat → List Frame → Nat → Nat → List Nat → Except Err (List GateI)
  | 0, _, _, _, _, _ => .error .fuel
  | fuel + 1, cs, frames, idx, c, qs =>
    match prog[c]? with
    | none => .error .unlinked
    | some S =>
      if c ∈ cs then .error .recursion
      else runSub (evalSubF prog fuel (c :: cs)) frames idx S qs

def fuelOf (p : Program) : Nat := p.table.length + 1

/-- `Evaluator(QURIPartsEvaluatorHooks()).run(msub)` : the gate list (op, absolute qubit indices) -/
def eval (p : Program) : Except Err (List GateI) :=
  runSub (evalSubF p.table (fuelOf p) []) [] p.root.nArgs p.root (List.range p.root.nArgs)

/-! ### full expansion (`full_expand`) -/

/-- `arg_qubit_map | aux_qubit_map` of `_expand` -/
def envOf (S : Sub) (idx : Nat) (as : List Nat) : Frame := auxFrame S idx ++ argFrame S as

def runSubX (callF : Nat → Nat → List Nat → Except Err (List GateI))
    (idx : Nat) (S : Sub) (as : List Nat) : Except Err (List GateI) :=
  let ρ := envOf S idx as
  bodyM (fun i => match i with
    | .prim o ps => .ok [⟨o, ps.map (tr ρ)⟩]
    | .call c ps => callF (idx + S.nAux) c (ps.map (tr ρ))) S.body

def expandSubF (prog : List Sub) : Nat → List Nat → Nat → Nat → List Nat → Except Err (List GateI)
  | 0, _, _, _, _ => .error .fuel
  | fuel + 1, cs, idx, c, as =>
    match prog[c]? with
    | none => .error .unlinked
    | some S =>
      if c ∈ cs then .error .recursion
      else runSubX (expandSubF prog fuel (c :: cs)) idx S as

/-- instructions of `full_expand(msub)` (all primitive, absolute names) -/
def expand (p : Program) : Except Err (List GateI) :=
  runSubX (expandSubF p.table (fuelOf p) []) p.root.nArgs p.root (List.range p.root.nArgs)

/-- evaluating the flat expanded sub: its `aux_qubits` tuple comes out of a Python `set`, so the
    order `σ` in which they are re-allocated is arbitrary -/
def zipTo : List Nat → Nat → Frame
  | [], _ => []
  | a :: r, b => (a, b) :: zipTo r (b + 1)

def flatFrame (nArgs : Nat) (σ : List Nat) : Frame := zipTo σ nArgs ++ auxFrom 0 0 nArgs

def evalFlat (nArgs : Nat) (σ : List Nat) : List GateI → Except Err (List GateI)
  | [] => .ok []
  | g :: r =>
    match lookAll (flatFrame nArgs σ) g.qs with
    | .error e => .error e
    | .ok l =>
      match evalFlat nArgs σ r with
      | .error e => .error e
      | .ok t => .ok (⟨g.op, l⟩ :: t)

/-! ### canonical renaming of auxiliaries by first use -/

/-- keep the first occurrence of every element -/
def firsts : List Nat → List Nat
  | [] => []
  | x :: xs => x :: (firsts xs).filter (· ≠ x)

def occ (gs : List GateI) : List Nat := gs.flatMap (·.qs)

def auxOrder (nArgs : Nat) (gs : List GateI) : List Nat := firsts ((occ gs).filter (nArgs ≤ ·))

def renameBy (nArgs : Nat) (order : List Nat) (q : Nat) : Nat :=
  if q < nArgs then q else nArgs + order.idxOf q

/-- rename every qubit of a gate -/
def mapQ (π : Nat → Nat) (g : GateI) : GateI := ⟨g.op, g.qs.map π⟩

def canon (nArgs : Nat) (gs : List GateI) : List GateI :=
  gs.map (mapQ (renameBy nArgs (auxOrder nArgs gs)))

/-- the renaming performed when the flat expanded sub is evaluated with its auxiliaries listed in order `σ` -/
def flatRen (nArgs : Nat) (σ : List Nat) (q : Nat) : Nat := if q < nArgs then q else nArgs + σ.idxOf q

/-! ### well-formedness and acyclicity (decidable) -/

def instOK (prog : List Sub) (S : Sub) : Inst → Bool
  | .prim _ qs => qs.all (· < S.size)
  | .call c qs =>
    qs.all (· < S.size) &&
    match prog[c]? with
    | some C => qs.length == C.nArgs && decide (C.nArgs ≤ S.size)
    | none => false

def subOK (prog : List Sub) (S : Sub) : Bool := S.body.all (instOK prog S)

/-- every qubit named in a body is a local name of that sub, every call has the callee's arity and
    passes no more arguments than the caller has names (implied by "arguments are distinct") -/
def WF (p : Program) : Bool := subOK p.table p.root && p.table.all (subOK p.table)

def callees (S : Sub) : List Nat :=
  S.body.filterMap fun i => match i with | .call c _ => some c | .prim _ _ => none

/-- the call depth below table entry `c` is at most `k` (and all callees exist) -/
def depthOK (prog : List Sub) : Nat → Nat → Bool
  | 0, _ => false
  | k + 1, c =>
    match prog[c]? with
    | none => false
    | some S => (callees S).all (depthOK prog k)

def Acyclic (p : Program) : Bool := (callees p.root).all (depthOK p.table (fuelOf p))

/-! ### memoised bottom-up evaluators (GateCountEvaluatorHooks, AuxQubitCountEvaluatorHooks) -/

structure Alg (α : Type) where
  zero : α
  prim : Nat → α → α
  merge : α → α → α
  fin : Sub → α → α

abbrev Cache (α : Type) := List (Nat × α)

def clook {α : Type} : Cache α → Nat → Option α
  | [], _ => none
  | kv :: r, c => if kv.1 = c then some kv.2 else clook r c

def memoBody {α : Type} (A : Alg α) (callF : Cache α → Nat → Except Err (α × Cache α)) :
    List Inst → α → Cache α → Except Err (α × Cache α)
  | [], a, ch => .ok (a, ch)
  | .prim o _ :: r, a, ch => memoBody A callF r (A.prim o a) ch
  | .call c _ :: r, a, ch =>
    match callF ch c with
    | .error e => .error e
    | .ok (v, ch') => memoBody A callF r (A.merge a v) ch'

def memoSubF {α : Type} (A : Alg α) (prog : List Sub) :
    Nat → List Nat → Cache α → Nat → Except Err (α × Cache α)
  | 0, _, _, _ => .error .fuel
  | fuel + 1, cs, ch, c =>
    match prog[c]? with
    | none => .error .unlinked
    | some S =>
      if c ∈ cs then .error .recursion
      else match clook ch c with
        | some v => .ok (v, ch)          -- `enter_sub` returns False: the body is skipped, the cached value merged
        | none =>
          match memoBody A (memoSubF A prog fuel (c :: cs)) S.body A.zero ch with
          | .error e => .error e
          | .ok (a, ch') => .ok (A.fin S a, (c, A.fin S a) :: ch')

def memoRoot {α : Type} (A : Alg α) (p : Program) : Except Err α :=
  match memoBody A (memoSubF A p.table (fuelOf p) []) p.root.body A.zero [] with
  | .error e => .error e
  | .ok (a, _) => .ok (A.fin p.root a)

/-- `GateCountEvaluatorHooks(ops)` projected on one op `t`; an empty filter counts everything -/
def counted (filt : List Nat) (o : Nat) : Bool := filt.isEmpty || filt.contains o

def gateAlg (filt : List Nat) (t : Nat) : Alg Nat where
  zero := 0
  prim o a := if o = t ∧ counted filt o = true then a + 1 else a
  merge a v := a + v
  fin _ a := a

def auxAlg : Alg Nat where
  zero := 0
  prim _ a := a
  merge a v := max a v
  fin S a := a + S.nAux

def gateCount (filt : List Nat) (t : Nat) (p : Program) : Except Err Nat := memoRoot (gateAlg filt t) p
def auxCount (p : Program) : Except Err Nat := memoRoot auxAlg p

/-- number of gates with op `t` in a gate list (zero when the filter excludes `t`) -/
def countOp (filt : List Nat) (t : Nat) (gs : List GateI) : Nat :=
  (gs.filter fun g => decide (g.op = t) && counted filt g.op).length

/-- the same summaries without memo table and without call stack (specification side) -/
def plainBody {α : Type} (A : Alg α) (f : Nat → α) : List Inst → α → α
  | [], a => a
  | .prim o _ :: r, a => plainBody A f r (A.prim o a)
  | .call c _ :: r, a => plainBody A f r (A.merge a (f c))

def plainF {α : Type} (A : Alg α) (prog : List Sub) : Nat → Nat → α
  | 0, _ => A.zero
  | k + 1, c =>
    match prog[c]? with
    | none => A.zero
    | some S => A.fin S (plainBody A (plainF A prog k) S.body A.zero)

def plainRoot {α : Type} (A : Alg α) (p : Program) : α :=
  A.fin p.root (plainBody A (plainF A p.table (fuelOf p)) p.root.body A.zero)

/-- high-water mark of the allocator during hierarchical evaluation -/
def peakBody (f : Nat → Nat) : List Inst → Nat → Nat
  | [], a => a
  | .prim _ _ :: r, a => peakBody f r a
  | .call c _ :: r, a => peakBody f r (max a (f c))

def peakF (prog : List Sub) : Nat → Nat → Nat → Nat
  | 0, idx, _ => idx
  | k + 1, idx, c =>
    match prog[c]? with
    | none => idx
    | some S => peakBody (peakF prog k (idx + S.nAux)) S.body (idx + S.nAux)

def peak (p : Program) : Nat :=
  peakBody (peakF p.table (fuelOf p) (p.root.nArgs + p.root.nAux)) p.root.body (p.root.nArgs + p.root.nAux)

/-! ### generic Inverse / Controlled resolvers as program transformations -/

/-- `inverse_sub_resolver`: operations in reverse order, every op replaced by its inverse op
    (`invOp`; self-inverse ops map to themselves), same qubits; calls stay calls (to the inverted callee) -/
def invInst (invOp : Nat → Nat) : Inst → Inst
  | .prim o qs => .prim (invOp o) qs
  | .call c qs => .call c qs

def invSub (invOp : Nat → Nat) (S : Sub) : Sub :=
  { S with body := (S.body.map (invInst invOp)).reverse }

def invProgram (invOp : Nat → Nat) (p : Program) : Program :=
  ⟨p.table.map (invSub invOp), invSub invOp p.root⟩

/-- `controlled_sub_resolver`: a new argument 0 (the control) is prepended, all other local names shift by one,
    every op becomes its controlled version on `(c, *qs)` -/
def ctlInst (ctlOp : Nat → Nat) : Inst → Inst
  | .prim o qs => .prim (ctlOp o) (0 :: qs.map (· + 1))
  | .call c qs => .call c (0 :: qs.map (· + 1))

def ctlSub (ctlOp : Nat → Nat) (S : Sub) : Sub :=
  ⟨S.nArgs + 1, S.nAux, S.body.map (ctlInst ctlOp)⟩

def ctlProgram (ctlOp : Nat → Nat) (p : Program) : Program :=
  ⟨p.table.map (ctlSub ctlOp), ctlSub ctlOp p.root⟩

def invGate (invOp : Nat → Nat) (g : GateI) : GateI := ⟨invOp g.op, g.qs⟩
def ctlGate (ctlOp : Nat → Nat) (g : GateI) : GateI := ⟨ctlOp g.op, 0 :: g.qs.map (· + 1)⟩

/-! ### compile : collect (resolve.py) / lower (codegen.py) / link (link.py) on the op-level program -/

structure HSub where
  nArgs : Nat
  nAux : Nat
  body : List (Nat × List Nat)
deriving Repr

/-- `prims`: ops given to `CodeGenerator`; `subs[o]`: the sub registered for op `o` (if any) -/
structure HProgram where
  prims : List Nat
  subs : List (Option HSub)
  root : HSub
deriving Repr

def HProgram.subOf (P : HProgram) (o : Nat) : Option HSub :=
  match P.subs[o]? with
  | some (some h) => some h
  | _ => none

def opsWithSub (P : HProgram) (h : HSub) : List Nat :=
  (h.body.map (·.1)).filter fun o => (P.subOf o).isSome

def addNew (set new : List Nat) : List Nat :=
  new.foldl (fun s o => if s.contains o then s else s ++ [o]) set

def collectStep (P : HProgram) (set : List Nat) : List Nat :=
  set.foldl (fun s o => match P.subOf o with
    | some h => addNew s (opsWithSub P h)
    | none => s) set

def iter {α : Type} (f : α → α) : Nat → α → α
  | 0, a => a
  | n + 1, a => iter f n (f a)

/-- `SubCollector.collect_subs`: every op with a registered sub that is reachable from the entry sub
    (through primitive and non-primitive ops alike) -/
def collected (P : HProgram) : List Nat :=
  iter (collectStep P) P.subs.length (addNew [] (opsWithSub P P.root))

/-- `CodeGenerator.lower` followed by `link`: a primitive op stays, any other op becomes a call of the
    table entry of that op (out of range when the op has no sub: `link` raises ValueError) -/
def lowerH (P : HProgram) (col : List Nat) (h : HSub) : Sub :=
  ⟨h.nArgs, h.nAux, h.body.map fun oq =>
    if P.prims.contains oq.1 then Inst.prim oq.1 oq.2 else Inst.call (col.idxOf oq.1) oq.2⟩

/-- `viaCollector = true`: `compile_sub` (call table = collected subs);
    `false`: `Linker(calltable).link(...)` with the table of all registered subs -/
def compileH (P : HProgram) (viaCollector : Bool := true) : Except Err Program :=
  let col := if viaCollector then collected P
             else (List.range P.subs.length).filter fun o => (P.subOf o).isSome
  let table := col.filterMap fun o => (P.subOf o).map (lowerH P col)
  let root := lowerH P col P.root
  if (root :: table).all (fun S => (callees S).all (· < table.length)) then .ok ⟨table, root⟩
  else .error .unlinked

end QV.C19
