/-
  "Up to global phase" as an abstract congruence on a monoid, and the lifting
  lemmas that turn per-gate facts into whole-circuit facts (DESIGN §3.3).
  Import-free (core Lean only).

  `PhaseMonoid M` is instantiated in the intended reading by unitary matrices
  with `a ≈ b :⇔ ∃ c, |c| = 1 ∧ a = c • b` (or by equality, for the phase-exact
  statements).  Everything below is proved for every instance.
-/
namespace QV

class PhaseMonoid (M : Type) where
  mul : M → M → M
  one : M
  equiv : M → M → Prop
  mul_assoc : ∀ a b c, mul (mul a b) c = mul a (mul b c)
  one_mul : ∀ a, mul one a = a
  mul_one : ∀ a, mul a one = a
  equiv_refl : ∀ a, equiv a a
  equiv_symm : ∀ {a b}, equiv a b → equiv b a
  equiv_trans : ∀ {a b c}, equiv a b → equiv b c → equiv a c
  mul_congr : ∀ {a a' b b'}, equiv a a' → equiv b b' → equiv (mul a b) (mul a' b')

namespace PhaseMonoid
variable {M : Type} [PhaseMonoid M] {G : Type}

local infixl:70 " ⬝ " => PhaseMonoid.mul
local infix:50 " ≈ₚ " => PhaseMonoid.equiv

/-- semantics of a gate list: the first gate is applied first, i.e. is the rightmost factor -/
def semList (sem : G → M) : List G → M
  | [] => one
  | g :: gs => semList sem gs ⬝ sem g

theorem semList_append (sem : G → M) (a b : List G) :
    semList sem (a ++ b) = semList sem b ⬝ semList sem a := by
  induction a with
  | nil => simp [semList, mul_one]
  | cons g a ih => simp [semList, ih, mul_assoc]

/-- `GateDecomposer` / `ParallelDecomposer`: replacing every gate by an equivalent list
    preserves the circuit up to phase. -/
theorem flatMap_sound (sem : G → M) (d : G → List G)
    (h : ∀ g, semList sem (d g) ≈ₚ sem g) (c : List G) :
    semList sem (c.flatMap d) ≈ₚ semList sem c := by
  induction c with
  | nil => exact equiv_refl _
  | cons g c ih =>
    simp only [List.flatMap_cons, semList_append, semList]
    exact mul_congr ih (h g)

/-- a pass that may keep a gate (`d g = [g]`) or rewrite it -/
theorem flatMap_sound_of_or (sem : G → M) (d : G → List G)
    (h : ∀ g, d g = [g] ∨ semList sem (d g) ≈ₚ sem g) (c : List G) :
    semList sem (c.flatMap d) ≈ₚ semList sem c := by
  apply flatMap_sound
  intro g
  cases h g with
  | inl e => rw [e]; simp [semList, one_mul]; exact equiv_refl _
  | inr e => exact e

/-- `SequentialTranspiler`: a composition of sound passes is sound. -/
theorem seq_sound (sem : G → M) (ps : List (List G → List G))
    (h : ∀ p ∈ ps, ∀ c, semList sem (p c) ≈ₚ semList sem c) (c : List G) :
    semList sem (ps.foldl (fun acc p => p acc) c) ≈ₚ semList sem c := by
  induction ps generalizing c with
  | nil => exact equiv_refl _
  | cons p ps ih =>
    simp only [List.foldl_cons]
    have h1 := ih (fun q hq => h q (List.mem_cons_of_mem _ hq)) (p c)
    exact equiv_trans h1 (h p (List.mem_cons_self) c)

/-- filtering out gates whose semantics is ≈ one (IdentityElimination, ZeroRotationElimination) -/
theorem filter_sound (sem : G → M) (keep : G → Bool)
    (h : ∀ g, keep g = false → sem g ≈ₚ one) (c : List G) :
    semList sem (c.filter keep) ≈ₚ semList sem c := by
  induction c with
  | nil => exact equiv_refl _
  | cons g c ih =>
    cases hk : keep g with
    | true => simp only [List.filter_cons, hk, semList]; exact mul_congr ih (equiv_refl _)
    | false =>
      simp only [List.filter_cons, hk, semList]
      have : semList sem c ⬝ sem g ≈ₚ semList sem c ⬝ one := mul_congr (equiv_refl _) (h g hk)
      rw [mul_one] at this
      exact equiv_trans ih (equiv_symm this)

/-- appending gates whose semantics is ≈ one (IdentityInsertion) -/
theorem append_sound (sem : G → M) (c extra : List G)
    (h : ∀ g ∈ extra, sem g ≈ₚ one) :
    semList sem (c ++ extra) ≈ₚ semList sem c := by
  rw [semList_append]
  have : semList sem extra ≈ₚ one := by
    induction extra with
    | nil => exact equiv_refl _
    | cons g e ih =>
      simp only [semList]
      have h1 := ih (fun x hx => h x (List.mem_cons_of_mem _ hx))
      have h2 := mul_congr h1 (h g List.mem_cons_self)
      rw [mul_one] at h2
      exact h2
  have h3 := mul_congr this (equiv_refl (semList sem c))
  rw [one_mul] at h3
  exact h3

end PhaseMonoid
end QV
