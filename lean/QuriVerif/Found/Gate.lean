import QuriVerif.Found.Mat
/-
  Gate vocabulary of quri-parts and its documented matrix semantics
  (`packages/circuit/quri_parts/circuit/gates.py` doc-comments), over the exact
  ring of `Found/Poly`.  Angles are affine forms `Σ cⱼ φⱼ + k·π/4` with integer
  `cⱼ`, `k`; a gate matrix is returned with a scale `(1/√2)^k`.

  Conventions (little endian, as documented by quri-parts / Qulacs):
  basis index `x` has qubit `q` at bit `q`; a multi-qubit local matrix acts on
  local index `Σ bit(x, wires[i]) <<< i`.
-/
namespace QV

inductive Kind
  | Identity | X | Y | Z | H | S | Sdag | SqrtX | SqrtXdag | SqrtY | SqrtYdag | T | Tdag
  | RX | RY | RZ | U1 | U2 | U3 | CNOT | CZ | SWAP | TOFFOLI
  | Pauli | PauliRotation | UnitaryMatrix | Measurement
  | ParametricRX | ParametricRY | ParametricRZ | ParametricPauliRotation
  -- natives of other packages (quantinuum / ionq / qsub)
  | U1q | ZZ | RZZ | GPi | GPi2 | XX | MS | Phase
deriving DecidableEq, Repr, Inhabited

def Kind.all : List Kind :=
  [.Identity, .X, .Y, .Z, .H, .S, .Sdag, .SqrtX, .SqrtXdag, .SqrtY, .SqrtYdag, .T, .Tdag,
   .RX, .RY, .RZ, .U1, .U2, .U3, .CNOT, .CZ, .SWAP, .TOFFOLI,
   .Pauli, .PauliRotation, .UnitaryMatrix, .Measurement,
   .ParametricRX, .ParametricRY, .ParametricRZ, .ParametricPauliRotation,
   .U1q, .ZZ, .RZZ, .GPi, .GPi2, .XX, .MS, .Phase]

def Kind.name : Kind → String
  | .Identity => "Identity" | .X => "X" | .Y => "Y" | .Z => "Z" | .H => "H" | .S => "S"
  | .Sdag => "Sdag" | .SqrtX => "SqrtX" | .SqrtXdag => "SqrtXdag" | .SqrtY => "SqrtY"
  | .SqrtYdag => "SqrtYdag" | .T => "T" | .Tdag => "Tdag" | .RX => "RX" | .RY => "RY"
  | .RZ => "RZ" | .U1 => "U1" | .U2 => "U2" | .U3 => "U3" | .CNOT => "CNOT" | .CZ => "CZ"
  | .SWAP => "SWAP" | .TOFFOLI => "TOFFOLI" | .Pauli => "Pauli"
  | .PauliRotation => "PauliRotation" | .UnitaryMatrix => "UnitaryMatrix"
  | .Measurement => "Measurement" | .ParametricRX => "ParametricRX"
  | .ParametricRY => "ParametricRY" | .ParametricRZ => "ParametricRZ"
  | .ParametricPauliRotation => "ParametricPauliRotation"
  | .U1q => "U1q" | .ZZ => "ZZ" | .RZZ => "RZZ" | .GPi => "GPi" | .GPi2 => "GPi2"
  | .XX => "XX" | .MS => "MS" | .Phase => "Phase"

def Kind.ofName? (s : String) : Option Kind := Kind.all.find? (·.name == s)

/-- affine angle `Σ cs[j]·φⱼ + k·π/4` -/
structure Angle where
  cs : List Int := []
  k : Int := 0
deriving DecidableEq, Repr, Inhabited

namespace Angle
def add (a b : Angle) : Angle := ⟨Exps.add a.cs b.cs, a.k + b.k⟩
def neg (a : Angle) : Angle := ⟨Exps.neg a.cs, -a.k⟩
def scale (n : Int) (a : Angle) : Angle := ⟨Exps.trim (a.cs.map (n * ·)), n * a.k⟩
/-- `exp(i·m·angle/2)` -/
def ph (a : Angle) (m : Int := 1) : Poly := Poly.phase (m * a.k) (a.cs.map (m * ·))
def pi : Angle := ⟨[], 4⟩
def var (j : Nat) : Angle := ⟨(List.replicate j 0) ++ [1], 0⟩
end Angle

structure Gate where
  kind : Kind
  targets : List Nat := []
  controls : List Nat := []
  params : List Angle := []
  paulis : List Nat := []
  umat : Mat := []      -- only for UnitaryMatrix : local matrix, local bit i ↔ targets[i]
  matk : Nat := 0
deriving Repr, BEq, Inhabited

namespace Gate

def wires (g : Gate) : List Nat := g.controls ++ g.targets

def p (g : Gate) (i : Nat) : Angle := g.params.getD i {}

open Poly in
/-- local matrix (row-major, dimension 2^|wires|) and scale -/
def localMat (g : Gate) : SMat :=
  let o : Poly := Poly.one
  let z : Poly := []
  let i : Poly := Poly.I
  match g.kind with
  | .Identity => ⟨[[o, z], [z, o]], 0⟩
  | .X => ⟨[[z, o], [o, z]], 0⟩
  | .Y => ⟨[[z, neg i], [i, z]], 0⟩
  | .Z => ⟨[[o, z], [z, neg o]], 0⟩
  | .H => ⟨[[o, o], [o, neg o]], 1⟩
  | .S => ⟨[[o, z], [z, i]], 0⟩
  | .Sdag => ⟨[[o, z], [z, neg i]], 0⟩
  | .T => ⟨[[o, z], [z, uPow 2]], 0⟩
  | .Tdag => ⟨[[o, z], [z, uPow (-2)]], 0⟩
  | .SqrtX => ⟨[[add o i, sub o i], [sub o i, add o i]], 2⟩
  | .SqrtXdag => ⟨[[sub o i, add o i], [add o i, sub o i]], 2⟩
  | .SqrtY => ⟨[[add o i, neg (add o i)], [add o i, add o i]], 2⟩
  | .SqrtYdag => ⟨[[sub o i, sub o i], [neg (sub o i), sub o i]], 2⟩
  | .RX | .ParametricRX =>
    let v := (g.p 0).ph; let w := (g.p 0).ph (-1)
    ⟨[[add v w, neg (sub v w)], [neg (sub v w), add v w]], 2⟩
  | .RY | .ParametricRY =>
    let v := (g.p 0).ph; let w := (g.p 0).ph (-1)
    ⟨[[add v w, mul i (sub v w)], [neg (mul i (sub v w)), add v w]], 2⟩
  | .RZ | .ParametricRZ =>
    ⟨[[(g.p 0).ph (-1), z], [z, (g.p 0).ph]], 0⟩
  | .U1 => ⟨[[o, z], [z, (g.p 0).ph 2]], 0⟩
  | .Phase => ⟨[[o, z], [z, (g.p 0).ph 2]], 0⟩
  | .U2 =>
    let f := (g.p 0).ph 2; let l := (g.p 1).ph 2
    ⟨[[o, neg l], [f, mul f l]], 1⟩
  | .U3 =>
    let t := (g.p 0).ph; let tb := (g.p 0).ph (-1)
    let f := (g.p 1).ph 2; let l := (g.p 2).ph 2
    let c := add t tb                 -- 2 cos(θ/2)
    let s := neg (mul i (sub t tb))   -- 2 sin(θ/2)
    ⟨[[c, neg (mul l s)], [mul f s, mul (mul f l) c]], 2⟩
  | .CNOT => -- wires [c, t] : local index = c + 2 t
    ⟨Mat.ofFn 4 4 fun r c => if r == (c % 2) + 2 * ((c / 2 + c % 2) % 2) then o else z, 0⟩
  | .CZ =>
    ⟨Mat.ofFn 4 4 fun r c => if r == c then (if c == 3 then neg o else o) else z, 0⟩
  | .SWAP =>
    ⟨Mat.ofFn 4 4 fun r c => if r == (c / 2) + 2 * (c % 2) then o else z, 0⟩
  | .TOFFOLI => -- wires [c1, c2, t]
    ⟨Mat.ofFn 8 8 fun r c =>
      let c1 := c % 2; let c2 := (c / 2) % 2; let t := c / 4
      if r == c1 + 2 * c2 + 4 * ((t + c1 * c2) % 2) then o else z, 0⟩
  | .ZZ => -- exp(-i π/4 Z⊗Z)
    ⟨Mat.ofFn 4 4 fun r c => if r == c then (if c == 0 || c == 3 then uPow (-2) else uPow 2) else z, 0⟩
  | .RZZ => -- exp(-i θ/2 Z⊗Z)
    ⟨Mat.ofFn 4 4 fun r c => if r == c then (if c == 0 || c == 3 then (g.p 0).ph (-1) else (g.p 0).ph) else z, 0⟩
  | .U1q => -- [[cos θ/2, -i e^{-iφ} sin θ/2], [-i e^{iφ} sin θ/2, cos θ/2]]
    let v := (g.p 0).ph; let w := (g.p 0).ph (-1)
    let f := (g.p 1).ph 2; let fb := (g.p 1).ph (-2)
    ⟨[[add v w, neg (mul fb (sub v w))], [neg (mul f (sub v w)), add v w]], 2⟩
  | .XX => -- cos φ · 1 − i sin φ · X⊗X   (full angle φ)
    let v := (g.p 0).ph 2; let w := (g.p 0).ph (-2)
    ⟨Mat.ofFn 4 4 fun r c => if r == c then add v w else if r + c == 3 then neg (sub v w) else z, 2⟩
  | .MS | .GPi | .GPi2 => ⟨[], 0⟩  -- IonQ natives: phases in turns, not modelled in the ring
  | .Pauli | .PauliRotation | .ParametricPauliRotation =>
    let k := g.targets.length
    let dim := 2 ^ k
    let ids := g.paulis
    let xmask := (List.zip (List.range k) ids).foldl
      (fun m (q, pid) => if pid == 1 || pid == 2 then m + 2 ^ q else m) 0
    -- exponent of i picked up by P|c>
    let phaseExp (c : Nat) : Nat := (List.zip (List.range k) ids).foldl
      (fun e (q, pid) =>
        let b := (c / 2 ^ q) % 2
        if pid == 2 then e + (if b == 0 then 1 else 3)
        else if pid == 3 then e + (if b == 0 then 0 else 2) else e) 0
    let P : Mat := Mat.ofFn dim dim fun r c =>
      if r == Nat.xor c xmask then uPow (4 * (phaseExp c : Int)) else z
    match g.kind with
    | .Pauli => ⟨P, 0⟩
    | _ =>
      let v := (g.p 0).ph; let w := (g.p 0).ph (-1)
      -- 2·exp(-iθ/2 P) = (v + v̄)·1 − (v − v̄)·P
      ⟨Mat.sub (Mat.smulP (add v w) (Mat.identity dim)) (Mat.smulP (sub v w) P), 2⟩
  | .UnitaryMatrix => ⟨g.umat, g.matk⟩
  | .Measurement => ⟨[], 0⟩

def bitAt (x w : Nat) : Nat := (x / 2 ^ w) % 2

def locIdx (ws : List Nat) (x : Nat) : Nat :=
  (List.zip (List.range ws.length) ws).foldl (fun a (i, w) => a + bitAt x w * 2 ^ i) 0

def clearBits (ws : List Nat) (x : Nat) : Nat :=
  ws.foldl (fun a w => a - bitAt x w * 2 ^ w) x

def spread (ws : List Nat) (l : Nat) : Nat :=
  (List.zip (List.range ws.length) ws).foldl (fun a (i, w) => a + bitAt l i * 2 ^ w) 0

def rowAxpy (p : Poly) (x y : List Poly) : List Poly :=
  match x, y with
  | a :: as, b :: bs => Poly.add (Poly.mul p a) b :: rowAxpy p as bs
  | a :: as, [] => Poly.mul p a :: rowAxpy p as []
  | [], bs => bs

/-- left-multiply an `2^n`-row matrix by the gate embedded on `n` qubits; only the
    `2^|wires|` rows that the gate mixes are visited -/
def applyTo (n : Nat) (g : Gate) (M : Mat) : Mat :=
  let L := g.localMat.m
  let ws := g.wires
  let ls := List.range (2 ^ ws.length)
  (List.range (2 ^ n)).map fun r =>
    let base := clearBits ws r
    let lr := L.getD (locIdx ws r) []
    (List.zip ls lr).foldr (fun (l, p) acc =>
      if p.isZero then acc else rowAxpy p (M.getD (base + spread ws l) []) acc) []

/-- the gate as an operator on `n` qubits -/
def mat (n : Nat) (g : Gate) : SMat :=
  ⟨applyTo n g (Mat.identity (2 ^ n)), g.localMat.k⟩

end Gate

/-- matrix of a gate list (first gate applied first) -/
def circMat (n : Nat) (gs : List Gate) : SMat :=
  gs.foldl (fun acc g => ⟨g.applyTo n acc.m, acc.k + g.localMat.k⟩) (SMat.identity (2 ^ n))

end QV
