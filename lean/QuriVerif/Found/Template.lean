import QuriVerif.Found.Gate
/-
  Rewrite templates: a target gate on wires `0..nq-1` with symbolic parameters
  and the gate list that replaces it.
-/
namespace QV

/-- compact gate constructor used by generated code -/
def G (k : Kind) (c t : List Nat) (p : List Angle := []) (paulis : List Nat := []) : Gate :=
  { kind := k, controls := c, targets := t, params := p, paulis := paulis }

structure Template where
  nq : Nat
  target : Gate
  body : List Gate
deriving Repr

namespace Template
/-- body ∝ target (equal up to a scalar; both sides are unitary up to a positive scale) -/
def check (t : Template) : Bool := SMat.propTo (circMat t.nq t.body) (t.target.mat t.nq)
/-- body = target exactly (phase included) -/
def checkExact (t : Template) : Bool := SMat.eq (circMat t.nq t.body) (t.target.mat t.nq)
end Template

end QV
