import QuriVerif.Found.Gate
/-
  Rewrite templates: a target gate on wires `0..nq-1` with symbolic parameters
  and the gate list that replaces it.
-/
namespace QV

/-- compact gate constructor used by generated code -/
def G (k : Kind) (c t : List Nat) (p : List Angle := []) (paulis : List Nat := []) : Gate :=
  { kind := k, controls := c, targets := t, params := p, paulis := paulis }

/-- squared norm of row 0 as an element of the exact ring (`Poly.conj` is a syntactic operation) -/
def Mat.row0Norm (m : Mat) : Poly := Mat.dot ((m.getD 0 []).map Poly.conj) (m.getD 0 [])

/-- non-vanishing certificate: row 0 of the integer-scaled matrix has squared norm `2^k`, as it must
    for `(1/√2)^k · m` unitary.  Used only as a linear combination of the row-0 entries that equals a
    non-zero constant (soundness: `Proof/NzSound.smat_nz_sound`). -/
def SMat.nz (a : SMat) : Bool := Mat.row0Norm a.m == Poly.const (2 ^ a.k)

structure Template where
  nq : Nat
  target : Gate
  body : List Gate
deriving Repr

namespace Template
/-- body ∝ target (equal up to a scalar; both sides are unitary up to a positive scale) -/
def check (t : Template) : Bool := SMat.propTo (circMat t.nq t.body) (t.target.mat t.nq)
/-- body = target exactly (phase included) -/
def checkExact (t : Template) : Bool := SMat.eq (circMat t.nq t.body) (t.target.mat t.nq)
/-- neither side vanishes, for any assignment of the angles (certificate, see `SMat.nz`) -/
def nz (t : Template) : Bool := SMat.nz (circMat t.nq t.body) && SMat.nz (t.target.mat t.nq)
end Template

end QV
