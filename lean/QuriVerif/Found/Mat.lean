import QuriVerif.Found.Poly
/-
  Dense matrices over `Poly`, as lists of rows, with a tracked scale:
  `SMat = (M, k)` denotes `(1/√2)^k · M`.  Decision procedures used by the
  generated obligations: `SMat.eq` (exact), `Mat.propTo` (equal up to a scalar:
  all 2×2 minors of the pair vanish), `Mat.commutes`.
-/
namespace QV

abbrev Mat := List (List Poly)

namespace Mat

def get (m : Mat) (i j : Nat) : Poly := (m.getD i []).getD j []

def ofFn (r c : Nat) (f : Nat → Nat → Poly) : Mat :=
  (List.range r).map fun i => (List.range c).map fun j => f i j

def identity (n : Nat) : Mat := ofFn n n fun i j => if i == j then Poly.one else []

def transpose (r c : Nat) (m : Mat) : Mat := ofFn c r fun i j => m.get j i

def dot : List Poly → List Poly → Poly
  | a :: as, b :: bs => Poly.add (Poly.mul a b) (dot as bs)
  | _, _ => []

/-- columns of a matrix with `c` columns -/
def cols (c : Nat) (m : Mat) : List (List Poly) :=
  (List.range c).map fun j => m.map fun row => row.getD j []

def mul (c : Nat) (a b : Mat) : Mat :=
  let bc := cols c b
  a.map fun row => bc.map fun col => dot row col

def add (a b : Mat) : Mat := List.zipWith (List.zipWith Poly.add) a b
def sub (a b : Mat) : Mat := List.zipWith (List.zipWith Poly.sub) a b
def smulP (p : Poly) (a : Mat) : Mat := a.map (·.map (Poly.mul p))
def conjTranspose (n : Nat) (m : Mat) : Mat := ofFn n n fun i j => Poly.conj (m.get j i)

def flat (m : Mat) : List Poly := m.foldr (· ++ ·) []

def isZero (m : Mat) : Bool := m.all (·.all Poly.isZero)

/-- structural equality of normal forms -/
def eq (a b : Mat) : Bool := a == b

/-- `a` and `b` have the same row shapes and are linearly dependent: every 2×2 minor of the
    pair of flattened vectors vanishes (soundness: `Proof/MatSound.propTo_sound`). -/
def propTo (a b : Mat) : Bool :=
  let fa := flat a
  let fb := flat b
  let pairs := List.zip fa fb
  a.map List.length == b.map List.length &&
  fa.length == fb.length &&
  pairs.all fun (x1, y1) => pairs.all fun (x2, y2) =>
    Poly.mul x1 y2 == Poly.mul x2 y1

def commutes (n : Nat) (a b : Mat) : Bool := mul n a b == mul n b a

def isDiagonal (m : Mat) : Bool :=
  (List.zip (List.range m.length) m).all fun (i, row) =>
    (List.zip (List.range row.length) row).all fun (j, p) => i == j || p.isZero

/-- all entries are fixed by complex conjugation (i.e. real for every angle assignment) -/
def isReal (m : Mat) : Bool := m.all (·.all fun p => Poly.conj p == p)

end Mat

structure SMat where
  m : Mat
  k : Nat      -- power of 1/√2
deriving Repr

namespace SMat

def pow (p : Poly) : Nat → Poly
  | 0 => Poly.one
  | n + 1 => Poly.mul p (pow p n)

def mul (dim : Nat) (a b : SMat) : SMat := ⟨Mat.mul dim a.m b.m, a.k + b.k⟩

/-- exact equality of the denoted matrices: `√2^{b.k} · a.m = √2^{a.k} · b.m` -/
def eq (a b : SMat) : Bool :=
  Mat.smulP (pow Poly.sqrt2 b.k) a.m == Mat.smulP (pow Poly.sqrt2 a.k) b.m

def propTo (a b : SMat) : Bool := Mat.propTo a.m b.m && !a.m.isZero && !b.m.isZero

def commutes (dim : Nat) (a b : SMat) : Bool := Mat.commutes dim a.m b.m

def identity (dim : Nat) : SMat := ⟨Mat.identity dim, 0⟩

end SMat
end QV
