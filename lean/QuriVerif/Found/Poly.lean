/-
  Exact ring used to reflect "for all real angles" (DESIGN §3.1).

  A `Poly` is a finite list of terms `c · u^e · x₀^a₀ · x₁^a₁ ⋯` with
  `c : Int`, `e < 8`, `aᵢ : Int`, where
    * `u`  stands for ζ₁₆ = exp(iπ/8)  (so `u^8 = -1`, `i = u^4`, `√2 = u^2 - u^6`),
    * `xⱼ` stands for exp(iφⱼ/2) for a free real angle φⱼ.
  All functions are structurally recursive so that the kernel can evaluate them
  (`decide +kernel`); no floating point is involved anywhere.

  This file is import-free.
-/
namespace QV

/-- exponent vector of the angle variables; trailing zeros are trimmed so that
    equal monomials are structurally equal -/
abbrev Exps := List Int

def Exps.trim : Exps → Exps
  | [] => []
  | a :: as =>
    match Exps.trim as with
    | [] => if a == 0 then [] else [a]
    | r => a :: r

def Exps.addRaw : Exps → Exps → Exps
  | [], ys => ys
  | xs, [] => xs
  | x :: xs, y :: ys => (x + y) :: Exps.addRaw xs ys

def Exps.add (a b : Exps) : Exps := Exps.trim (Exps.addRaw a b)

def Exps.neg (a : Exps) : Exps := a.map (fun x => -x)

def Exps.lt : Exps → Exps → Bool
  | [], [] => false
  | [], _ :: _ => true
  | _ :: _, [] => false
  | x :: xs, y :: ys => if x < y then true else if y < x then false else Exps.lt xs ys

structure Mono where
  eu : Nat
  ex : Exps
deriving DecidableEq, Repr, BEq

def Mono.lt (a b : Mono) : Bool :=
  if a.eu < b.eu then true else if b.eu < a.eu then false else Exps.lt a.ex b.ex

abbrev Term := Mono × Int
abbrev Poly := List Term

namespace Poly

def zero : Poly := []
def const (c : Int) : Poly := if c == 0 then [] else [(⟨0, []⟩, c)]
def one : Poly := [(⟨0, []⟩, 1)]

/-- sorted insertion with merging of equal monomials and removal of zeros -/
def addTerm (t : Term) : Poly → Poly
  | [] => if t.2 == 0 then [] else [t]
  | s :: p =>
    if t.1 == s.1 then
      (if t.2 + s.2 == 0 then p else (s.1, t.2 + s.2) :: p)
    else if Mono.lt t.1 s.1 then
      (if t.2 == 0 then s :: p else t :: s :: p)
    else s :: addTerm t p

def add (p q : Poly) : Poly := p.foldr addTerm q

def neg (p : Poly) : Poly := p.map (fun t => (t.1, -t.2))

def sub (p q : Poly) : Poly := add p (neg q)

/-- product of two terms, reducing `u^(e+8) = -u^e` -/
def mulTerm (s t : Term) : Term :=
  let e := s.1.eu + t.1.eu
  let ex := Exps.add s.1.ex t.1.ex
  if e < 8 then (⟨e, ex⟩, s.2 * t.2) else (⟨e - 8, ex⟩, -(s.2 * t.2))

def mulTermPoly (s : Term) (q : Poly) : Poly :=
  q.foldr (fun t acc => addTerm (mulTerm s t) acc) []

def mul (p q : Poly) : Poly := p.foldr (fun s acc => add (mulTermPoly s q) acc) []

def smul (c : Int) (p : Poly) : Poly := mulTermPoly (⟨0, []⟩, c) p

/-- `u^k` for any integer `k` (`u^16 = 1`) -/
def uPow (k : Int) : Poly :=
  let r := (k % 16).toNat
  if r < 8 then [(⟨r, []⟩, 1)] else [(⟨r - 8, []⟩, -1)]

/-- monomial `u^k · x^ex` -/
def phase (k : Int) (ex : Exps) : Poly :=
  let r := (k % 16).toNat
  if r < 8 then [(⟨r, Exps.trim ex⟩, 1)] else [(⟨r - 8, Exps.trim ex⟩, -1)]

def I : Poly := uPow 4
def sqrt2 : Poly := sub (uPow 2) (uPow 6)

/-- complex conjugation: `u ↦ u⁻¹`, `xⱼ ↦ xⱼ⁻¹` (valid because all stand for unit-modulus numbers) -/
def conj (p : Poly) : Poly :=
  p.foldr (fun t acc =>
    let e := t.1.eu
    let ex := Exps.neg t.1.ex
    -- u^{-e} = u^{16-e} ; for e=0 it is 1; for 0<e<8: u^{16-e} = -u^{8-e}
    if e == 0 then addTerm (⟨0, ex⟩, t.2) acc else addTerm (⟨8 - e, ex⟩, -t.2) acc) []

def isZero (p : Poly) : Bool := p.isEmpty

instance : Add Poly := ⟨add⟩
instance : Mul Poly := ⟨mul⟩
instance : Neg Poly := ⟨neg⟩
instance : Sub Poly := ⟨sub⟩

/-- substitute every angle variable by 1 (angle 0) – used only by the driver for printing -/
def toString (p : Poly) : String :=
  if p.isEmpty then "0" else
  " + ".intercalate (p.map fun t => s!"{t.2}*u^{t.1.eu}*x^{t.1.ex}")

end Poly
end QV
