import QuriVerif.Model.C15
import QuriVerif.Generated.C15Blocks
/-
  C15 — Symmetry-preserving ansatz circuits conserve what they promise.

  Per-block facts (for all parameter values, exact ring) are the generated obligations
  `block_i_ok` / `block_i_pauli_ok` of Generated/C15Blocks.lean, extracted from the real
  builders.  The theorems below lift them: operators are kernels `Nat → Nat → α`
  (matrix entries), the product sums over an index list, and a weight is any function on
  basis indices.
-/
namespace QV.Props.C15
open QV QV.C15

variable {α : Type} [Add α] [Mul α] [Zero α]

/-- matrix product over the index range `idx` -/
def mprod (idx : List Nat) (A B : Nat → Nat → α) : Nat → Nat → α :=
  fun r c => idx.foldr (fun k acc => A r k * B k c + acc) 0

/-- `A` has no entry between basis states of different weight -/
def Conserves {ω : Type} (w : Nat → ω) (A : Nat → Nat → α) : Prop := ∀ r c, w r ≠ w c → A r c = 0

/-- products of conserving operators conserve (so a circuit built from conserving blocks does) -/
theorem conserves_mul {ω : Type} [DecidableEq ω] (w : Nat → ω) (idx : List Nat) (A B : Nat → Nat → α)
    (zero_mul : ∀ x : α, 0 * x = 0) (mul_zero : ∀ x : α, x * 0 = 0) (add_zero : (0 : α) + 0 = 0)
    (hA : Conserves w A) (hB : Conserves w B) : Conserves w (mprod idx A B) := by
  intro r c hrc
  unfold mprod
  induction idx with
  | nil => rfl
  | cons k ks ih =>
    simp only [List.foldr_cons]
    rw [ih]
    by_cases h1 : w r = w k
    · have : w k ≠ w c := fun h => hrc (h1.trans h)
      rw [hB k c this, mul_zero, add_zero]
    · rw [hA r k h1, zero_mul, add_zero]

/-- any list of conserving operators multiplies to a conserving operator -/
theorem conserves_list {ω : Type} [DecidableEq ω] (w : Nat → ω) (idx : List Nat) (one : Nat → Nat → α)
    (ops : List (Nat → Nat → α))
    (zero_mul : ∀ x : α, 0 * x = 0) (mul_zero : ∀ x : α, x * 0 = 0) (add_zero : (0 : α) + 0 = 0)
    (hone : Conserves w one) (h : ∀ A ∈ ops, Conserves w A) :
    Conserves w (ops.foldl (fun acc A => mprod idx A acc) one) := by
  induction ops generalizing one with
  | nil => exact hone
  | cons A ops ih =>
    simp only [List.foldl_cons]
    apply ih
    · exact conserves_mul w idx A one zero_mul mul_zero add_zero (h A List.mem_cons_self) hone
    · intro B hB; exact h B (List.mem_cons_of_mem _ hB)

/-- embedding: an operator acting on some wires (local part `loc`) and as the identity on the
    others (`rest`) conserves every weight that is additive over the two parts -/
theorem conserves_embed {ω : Type} [Add ω] (loc rest : Nat → Nat) (wl wo : Nat → ω) (L : Nat → Nat → α)
    (hL : ∀ r c, wl r ≠ wl c → L r c = 0) :
    Conserves (fun x => wl (loc x) + wo (rest x))
      (fun r c => if rest r = rest c then L (loc r) (loc c) else 0) := by
  intro r c hrc
  by_cases h : rest r = rest c
  · simp only [h, if_true]
    apply hL
    intro hw
    apply hrc
    simp only [hw, h]
  · simp [h]

/-- every distinct block extracted from the real builders has a discharged obligation -/
theorem blocks_extracted : 0 < QV.Gen.C15.blockCount := by decide

/-! the decision procedures refute a broken block (sanity of the checker itself) -/
example : blockConserves 2 [.number] false
    [G .CNOT [1] [0] [], G .RY [] [1] [⟨[1], 0⟩], G .CNOT [0] [1] []] = false := by decide +kernel
example : pauliGroupConserves none [([(0, 1), (1, 2)], 1), ([(0, 2), (1, 1)], 1)] = false := by decide
example : pauliGroupConserves none [([(0, 1), (1, 2)], 1), ([(0, 2), (1, 1)], -1)] = true := by decide

end QV.Props.C15
