import QuriVerif.Generated.C19Lib
import QuriVerif.Found.Proj
/-
  C19 — the library's inverse and controlled constructions, gate level.
  The rows are regenerated from lib/std/inverse.py and lib/std/control.py on every run
  (`Generated/C19Lib.lean`); each row's obligation is checked by the kernel over the exact ring, i.e. for all
  angles, phase included.
-/
namespace QV.Props.C19Lib
open QV QV.C19Lib QV.Gen.C19

/-- every row of inverse.py's `_resolvers` with a gate-level body: `target ; inverse = 1`, exactly -/
theorem inverse_table_sound : ∀ r ∈ invRows, r.2.checkExact = true := inv_table_ok

/-- FULL STATEMENT (what the property asks): every row of control.py's `_resolvers` is a phase-exact identity
    `body = |0⟩⟨0|⊗1 + |1⟩⟨1|⊗target`.  PARTIAL: it holds for all rows except `ctlKnownDefects`
    (`controlled_h_resolver`: the two RY are in the wrong order; `controlled_sqrt{x,y}{,dag}_resolver`: CRX/CRY(±π/2)
    without the T/Tdag on the control that SqrtX = e^{iπ/4}·RX(π/2) requires). -/
theorem controlled_table_sound_partial : ∀ r ∈ ctlRows, r.1 ∉ ctlKnownDefects → r.2.check = true :=
  ctl_table_partial

example : ∃ r ∈ ctlRows, r.1 ∉ ctlKnownDefects := ⟨("CNOT", ctl_CNOT), by simp [ctlRows], by decide⟩

/-- witnesses: the rows AS THEY ARE ON THE PINNED TREE (literal copies, so that these theorems do not depend on the
    working tree) are NOT identities; the real-code oracle replays them every run and reports them as KNOWN-FINDING.
    The rows translated from the working tree are decided either way by the kernel (`ctl_*_known_row_decided`), so a
    repair of the defect upstream does not turn into an alarm. -/
def pinned_ctl_H : CTemplate := ⟨2, G .H [] [0] [], [G .RY [] [1] [⟨[], 1⟩], G .CZ [0] [1] [], G .RY [] [1] [⟨[], -1⟩]]⟩
def pinned_ctl_SqrtX : CTemplate := ⟨2, G .SqrtX [] [0] [], [G .H [] [1] [], G .CNOT [0] [1] [], G .RZ [] [1] [⟨[], -1⟩], G .CNOT [0] [1] [], G .RZ [] [1] [⟨[], 1⟩], G .H [] [1] []]⟩
def pinned_ctl_SqrtXdag : CTemplate := ⟨2, G .SqrtXdag [] [0] [], [G .H [] [1] [], G .CNOT [0] [1] [], G .RZ [] [1] [⟨[], 1⟩], G .CNOT [0] [1] [], G .RZ [] [1] [⟨[], -1⟩], G .H [] [1] []]⟩
def pinned_ctl_SqrtY : CTemplate := ⟨2, G .SqrtY [] [0] [], [G .CNOT [0] [1] [], G .RY [] [1] [⟨[], -1⟩], G .CNOT [0] [1] [], G .RY [] [1] [⟨[], 1⟩]]⟩
def pinned_ctl_SqrtYdag : CTemplate := ⟨2, G .SqrtYdag [] [0] [], [G .CNOT [0] [1] [], G .RY [] [1] [⟨[], 1⟩], G .CNOT [0] [1] [], G .RY [] [1] [⟨[], -1⟩]]⟩
theorem controlled_H_defect : pinned_ctl_H.check = false := by decide +kernel
theorem controlled_SqrtX_defect : pinned_ctl_SqrtX.check = false := by decide +kernel
theorem controlled_SqrtXdag_defect : pinned_ctl_SqrtXdag.check = false := by decide +kernel
theorem controlled_SqrtY_defect : pinned_ctl_SqrtY.check = false := by decide +kernel
theorem controlled_SqrtYdag_defect : pinned_ctl_SqrtYdag.check = false := by decide +kernel

/-- FULL STATEMENT: the sub built for `Inverse(U)` carries the opposite tracked phase, so that `Controlled(Inverse U)`
    gets the right relative phase.  PARTIAL: `inverse_sub_resolver` never calls `add_phase`; the statement holds
    only for targets whose tracked phase is 0 (mod 2π). -/
theorem inverse_phase_sound_partial (φ : Nat) (h : φ % 8 = 0) : (inversePhase φ + φ) % 8 = 0 := by
  simp only [inversePhase]; omega

example : (0 : Nat) % 8 = 0 := rfl

/-- witness: a target sub with tracked phase π/4 (replayed on the real code: `Controlled(Inverse(sub))`) -/
theorem inverse_phase_defect : (inversePhase 1 + 1) % 8 ≠ 0 := by decide

/-- `inverse_controlled_resolver` (Inverse(Controlled U) ↦ Controlled(Inverse U)): for a multiplicative `C`,
    the controlled inverse is an inverse of the controlled gate -/
theorem controlled_inverse_commute {M N : Type} [PhaseMonoid M] [PhaseMonoid N] (C : M → N)
    (hone : PhaseMonoid.equiv (C PhaseMonoid.one) (PhaseMonoid.one : N))
    (hmul : ∀ a b, PhaseMonoid.equiv (C (PhaseMonoid.mul a b)) (PhaseMonoid.mul (C a) (C b)))
    (hC : ∀ a b, PhaseMonoid.equiv a b → PhaseMonoid.equiv (C a) (C b))
    (u v : M) (h : PhaseMonoid.equiv (PhaseMonoid.mul v u) PhaseMonoid.one) :
    PhaseMonoid.equiv (PhaseMonoid.mul (C v) (C u)) (PhaseMonoid.one : N) :=
  PhaseMonoid.equiv_trans (PhaseMonoid.equiv_symm (hmul v u)) (PhaseMonoid.equiv_trans (hC _ _ h) hone)

/-- `controlled_multicontrolled_resolver`: one more control in front, `control_bits + 1` and
    `(control_value << 1) + 1`, fires exactly when the new control is 1 and the old condition holds -/
theorem controlled_multicontrolled_arith (bits value : Nat) (c : Bool) (cs : List Bool) :
    fires (bits + 1) ((value <<< 1) + 1) (c :: cs) = (c && fires bits value cs) := by
  unfold fires
  rw [List.range_succ_eq_map]
  have h0 : ((value <<< 1) + 1).testBit 0 = true := by
    rw [Nat.testBit_zero]; simp [Nat.shiftLeft_eq]
  have hs : ∀ i, ((value <<< 1) + 1).testBit (i + 1) = value.testBit i := by
    intro i
    rw [Nat.testBit_succ]
    congr 1
    simp [Nat.shiftLeft_eq]; omega
  simp only [List.all_cons, List.all_map, List.getD_cons_zero, h0]
  have hf : ((fun i => (c :: cs).getD i false == (value <<< 1 + 1).testBit i) ∘ Nat.succ) =
      fun i => cs.getD i false == value.testBit i := by
    funext i
    simp only [Function.comp, Nat.succ_eq_add_one, List.getD_cons_succ, hs]
  rw [hf]
  cases c <;> simp

end QV.Props.C19Lib
