import QuriVerif.Props.ReflectLift
import QuriVerif.Proof.CtrlSound
import QuriVerif.Generated.C19Lib
/-
  C19 (gate level) over complex operators: the library's Controlled / Inverse tables, for ALL register sizes,
  ALL placements and ALL angles, phase-exact.

  `uopC φ gs`  :=  the operator denoted by the gate list `gs` (`opC φ gs`, the `embedAct` semantics with the
  documented local matrices, divided by its integer scale `√2^(semK gs)`; `s2C : s2 zetaC = √2`).

    * `ctrlOp c 1 A`              the SPEC of controlled-`A` with control wire `c` (`Proof/CtrlSound`):
                                   `A r j` where the `c`-bit of both `r` and `j` is set, `δ r j` otherwise;
                                   independent of the matrix code `ctrlMat`/`ctrlGate` of `Model/C19Lib`;
    * `ctrlGate_is_controlled`    `uopC [ctrlGate g placed by σ] = ctrlOp (σ 0) 1 (uopC [g on wires σ (w+1)])`
                                   for EVERY gate kind (generic proof, no per-kind evaluation), all angles;
    * `controlled_rows_sound`     every row of control.py's `_resolvers` outside `ctlKnownDefects`: the
                                   instantiated, placed body EQUALS (scalar exactly 1) the controlled gate of the
                                   instantiated target, and equals the spec `ctrlOp` of the instantiated target;
    * `inverse_rows_sound`        every row of inverse.py's `_resolvers`: the instantiated, placed body
                                   (the gate followed by the gate its inverse resolves to) is exactly the
                                   identity operator.

  Kernel evaluation: `all_ctl_ok`, `all_inv_ok` – ONE pass each over the translated tables
  (`Generated/C19Lib.ctlRows`, `invRows`): the model's `check` / `checkExact`, well-formedness, and the side
  conditions of angle substitution.
  Substitution `as` (affine angle expressions for the variables of the row): the body may contain literal
  matrices (`phaseU`, nested `ctrlGate`) as long as they contain no angle variable (`SubstOK`, checked); the
  target must not be a literal matrix.  Note that the instantiated target is `ctrlGate (target.subst as)`:
  `Gate.subst` does not act on the literal matrix of `(ctrlGate target)` itself.
-/
namespace QV.Props.C19Lift
open QV QV.MatSound QV.C19Lib QV.Gen.C19 QV.Props.Reflect

/-- the ring's `√2` is the real `√2` -/
theorem s2C : s2 zetaC = ((Real.sqrt 2 : ℝ) : ℂ) := by
  have h2 : zetaC ^ 2 = Complex.exp (((Real.pi / 4 : ℝ) : ℂ) * Complex.I) := by
    unfold zetaC; rw [← Complex.exp_nat_mul]; congr 1; push_cast; ring
  have h6 : zetaC ^ 6 = - Complex.exp (-(((Real.pi / 4 : ℝ) : ℂ)) * Complex.I) := by
    unfold zetaC; rw [← Complex.exp_nat_mul]
    have : ((6 : ℕ) : ℂ) * (↑Real.pi * Complex.I / 8)
        = ↑Real.pi * Complex.I + -(((Real.pi / 4 : ℝ) : ℂ)) * Complex.I := by push_cast; ring
    rw [this, Complex.exp_add, Complex.exp_pi_mul_I]; ring
  unfold s2
  rw [h2, h6, sub_neg_eq_add, ← Complex.two_cos, ← Complex.ofReal_cos, Real.cos_pi_div_four]
  push_cast; ring

/-- the operator denoted by a gate list at the real angles `φ`: `opC` with the scale `√2^semK` divided out -/
noncomputable def uopC (φ : ℕ → ℝ) (gs : List Gate) : ℕ → ℕ → ℂ := uop zetaC (rhoC φ) gs

theorem uopC_eq (φ : ℕ → ℝ) (gs : List Gate) (r j : ℕ) :
    uopC φ gs r j = opC φ gs r j / ((Real.sqrt 2 : ℝ) : ℂ) ^ semK gs := by
  unfold uopC uop opC; rw [s2C]

/-- **(1) `ctrlGate g` is controlled-`g`** – every gate kind, all angles, every placement -/
theorem ctrlGate_is_controlled (φ : ℕ → ℝ) (g : Gate) {σ : ℕ → ℕ} {nq n : ℕ} (P : Placement σ nq n)
    (hq : 0 < nq) (hnd : g.wires.Nodup) (hw : ∀ w ∈ g.wires, w + 1 < nq)
    (r j : ℕ) (hr : r < 2 ^ n) (hj : j < 2 ^ n) :
    uopC φ [(ctrlGate g).relabel σ] r j
      = ctrlOp (σ 0) 1 (uopC φ [g.relabel fun w => σ (w + 1)]) r j :=
  ctrlGate_spec_uop zetaC_pow_eight (rhoC_ne_zero φ) two_ne_zero g P hq hnd hw r j hr hj

/-- what the kernel evaluates for one controlled row -/
def entryOK (t : CTemplate) : Bool :=
  t.check && decide t.WF && t.body.all (fun g => decide (SubstOK g)) &&
  decide (t.target.kind ≠ .UnitaryMatrix)

/-- ONE evaluation over the translated table of control.py: every row outside the known-defect list passes -/
theorem all_ctl_ok : (ctlRows.all fun r => ctlKnownDefects.contains r.1 || entryOK r.2) = true := by
  decide +kernel

/-- **(2) a checked controlled row**, stated for an arbitrary `CTemplate` -/
theorem ctemplate_sound (t : CTemplate) (h : entryOK t = true) {σ : ℕ → ℕ} {n : ℕ}
    (P : Placement σ t.nq n) (as : List Angle) (φ : ℕ → ℝ) (r : ℕ) (hr : r < 2 ^ n) (j : ℕ)
    (hj : j < 2 ^ n) :
    uopC φ ((t.body.map (Gate.subst as)).map (Gate.relabel σ)) r j
      = uopC φ [(ctrlGate (t.target.subst as)).relabel σ] r j ∧
    uopC φ ((t.body.map (Gate.subst as)).map (Gate.relabel σ)) r j
      = ctrlOp (σ 0) 1 (uopC φ [(t.target.subst as).relabel fun w => σ (w + 1)]) r j := by
  simp only [entryOK, Bool.and_eq_true, decide_eq_true_eq, List.all_eq_true] at h
  obtain ⟨⟨⟨hc, wf⟩, hkb⟩, hkt⟩ := h
  exact t.instance_uop zetaC_pow_eight (rhoC_ne_zero φ) two_ne_zero hc wf P as hkb hkt r hr j hj

/-- **(3) every translated row of control.py's `_resolvers` outside the known defects is phase-exactly the
    controlled target**, at every placement, for all angle substitutions and all real angles -/
theorem controlled_rows_sound (row : String × CTemplate) (hrow : row ∈ ctlRows)
    (hd : row.1 ∉ ctlKnownDefects) {σ : ℕ → ℕ} {n : ℕ} (P : Placement σ row.2.nq n) (as : List Angle)
    (φ : ℕ → ℝ) (r : ℕ) (hr : r < 2 ^ n) (j : ℕ) (hj : j < 2 ^ n) :
    uopC φ ((row.2.body.map (Gate.subst as)).map (Gate.relabel σ)) r j
      = uopC φ [(ctrlGate (row.2.target.subst as)).relabel σ] r j ∧
    uopC φ ((row.2.body.map (Gate.subst as)).map (Gate.relabel σ)) r j
      = ctrlOp (σ 0) 1 (uopC φ [(row.2.target.subst as).relabel fun w => σ (w + 1)]) r j := by
  have h := List.all_eq_true.mp all_ctl_ok row hrow
  rw [Bool.or_eq_true] at h
  rcases h with h | h
  · exact absurd (by simpa using h) hd
  · exact ctemplate_sound row.2 h P as φ r hr j hj

/-- the same in terms of `opC`: the explicit power of `√2` between the two integer-scaled operators -/
theorem controlled_rows_opC (row : String × CTemplate) (hrow : row ∈ ctlRows)
    (hd : row.1 ∉ ctlKnownDefects) {σ : ℕ → ℕ} {n : ℕ} (P : Placement σ row.2.nq n) (as : List Angle)
    (φ : ℕ → ℝ) (r : ℕ) (hr : r < 2 ^ n) (j : ℕ) (hj : j < 2 ^ n) :
    opC φ ((row.2.body.map (Gate.subst as)).map (Gate.relabel σ)) r j
      = (s2 zetaC ^ semK row.2.body / s2 zetaC ^ row.2.target.localMat.k)
        * opC φ [(ctrlGate (row.2.target.subst as)).relabel σ] r j := by
  have h := List.all_eq_true.mp all_ctl_ok row hrow
  rw [Bool.or_eq_true] at h
  rcases h with h | h
  · exact absurd (by simpa using h) hd
  · simp only [entryOK, Bool.and_eq_true, decide_eq_true_eq, List.all_eq_true] at h
    obtain ⟨⟨⟨hc, wf⟩, hkb⟩, hkt⟩ := h
    exact row.2.instance_exact zetaC_pow_eight (rhoC_ne_zero φ) two_ne_zero hc wf P as hkb hkt r hr j hj

/-- what the kernel evaluates for one inverse row -/
def invEntryOK (t : Template) : Bool :=
  t.checkExact && decide (WellFormed t.nq t.body) && decide (0 < t.nq) &&
  decide (t.target.kind = .Identity) && decide (t.target.wires = [0]) &&
  t.body.all (fun g => decide (g.kind ≠ .UnitaryMatrix))

theorem all_inv_ok : (invRows.all fun r => invEntryOK r.2) = true := by decide +kernel

/-- **(3') every translated row of inverse.py's `_resolvers`: gate followed by its resolved inverse is exactly
    the identity operator** (what `checkExact` against the `Identity` target means at ℂ), every placement,
    all angle substitutions, all real angles -/
theorem inverse_rows_sound (row : String × Template) (hrow : row ∈ invRows) {σ : ℕ → ℕ} {n : ℕ}
    (P : Placement σ row.2.nq n) (as : List Angle) (φ : ℕ → ℝ) (r : ℕ) (hr : r < 2 ^ n) (j : ℕ)
    (hj : j < 2 ^ n) :
    uopC φ ((row.2.body.map (Gate.subst as)).map (Gate.relabel σ)) r j = if r = j then 1 else 0 := by
  have h := List.all_eq_true.mp all_inv_ok row hrow
  simp only [invEntryOK, Bool.and_eq_true, decide_eq_true_eq, List.all_eq_true] at h
  obtain ⟨⟨⟨⟨⟨hc, wfb⟩, hq⟩, htk⟩, htw⟩, hkb⟩ := h
  exact identity_template_uop zetaC_pow_eight (rhoC_ne_zero φ) two_ne_zero row.2 hc wfb hq htk htw P as
    hkb r hr j hj

/-! ### the statements are not vacuous -/

example : 15 ≤ (ctlRows.filter fun r => !ctlKnownDefects.contains r.1).length := by decide
example : 12 ≤ invRows.length := by decide

/-- control on wire 3, target on wire 1 of a 5-qubit register -/
def pl31 : ℕ → ℕ := fun i => if i = 0 then 3 else 1

theorem pl31_placement : Placement pl31 2 5 := by
  constructor
  · intro a ha b hb h
    have ha' : a = 0 ∨ a = 1 := by omega
    have hb' : b = 0 ∨ b = 1 := by omega
    rcases ha' with rfl | rfl <;> rcases hb' with rfl | rfl <;> simp [pl31] at h <;> omega
  · intro q hq
    unfold pl31
    split <;> omega

/-- the row of `controlled_rx_resolver`, with `θ₀ := θ₂ − π/4` substituted, control 3, target 1 of 5 qubits:
    `H₁ CNOT₃₁ RZ₁(−θ/2) CNOT₃₁ RZ₁(θ/2) H₁` is exactly controlled-`RX₁(θ)` with control 3 -/
example (φ : ℕ → ℝ) (r j : ℕ) (hr : r < 2 ^ 5) (hj : j < 2 ^ 5) :
    uopC φ ((ctl_RX.body.map (Gate.subst [⟨[0, 0, 1], -1⟩])).map (Gate.relabel pl31)) r j
      = ctrlOp 3 1 (uopC φ [(ctl_RX.target.subst [⟨[0, 0, 1], -1⟩]).relabel fun w => pl31 (w + 1)]) r j :=
  (controlled_rows_sound ("RX", ctl_RX) (by simp [ctlRows]) (by decide) pl31_placement _ φ r hr j hj).2

/-- the instantiated gates, spelled out -/
example : (ctl_RX.body.map (Gate.subst [⟨[0, 0, 1], -1⟩])).map (Gate.relabel pl31)
    = [G .H [] [1] [], G .CNOT [3] [1] [], G .RZ [] [1] [⟨[0, 0, -1], 1⟩], G .CNOT [3] [1] [],
       G .RZ [] [1] [⟨[0, 0, 1], -1⟩], G .H [] [1] []] := by rfl
example : (ctl_RX.target.subst [⟨[0, 0, 1], -1⟩]).relabel (fun w => pl31 (w + 1))
    = G .RX [] [1] [⟨[0, 0, 2], -2⟩] := by rfl

/-- Toffoli is the controlled CNOT (a 3-wire row), e.g. control 4, CNOT from 0 to 2, on 5 qubits -/
def pl402 : ℕ → ℕ := fun i => if i = 0 then 4 else if i = 1 then 0 else 2

theorem pl402_placement : Placement pl402 3 5 := by
  constructor
  · intro a ha b hb h
    have ha' : a = 0 ∨ a = 1 ∨ a = 2 := by omega
    have hb' : b = 0 ∨ b = 1 ∨ b = 2 := by omega
    rcases ha' with rfl | rfl | rfl <;> rcases hb' with rfl | rfl | rfl <;> simp [pl402] at h <;> omega
  · intro q hq
    unfold pl402
    split
    · omega
    · split <;> omega

example (φ : ℕ → ℝ) (r j : ℕ) (hr : r < 2 ^ 5) (hj : j < 2 ^ 5) :
    uopC φ [G .TOFFOLI [4, 0] [2] []] r j = ctrlOp 4 1 (uopC φ [G .CNOT [0] [2] []]) r j :=
  (controlled_rows_sound ("CNOT", ctl_CNOT) (by simp [ctlRows]) (by decide) pl402_placement [] φ r hr j
    hj).2

/-- `RY(θ); RY(−θ)` on wire 3 of 5 qubits is the identity, for `θ := 2θ₁ + π/2` -/
example (φ : ℕ → ℝ) (r j : ℕ) (hr : r < 2 ^ 5) (hj : j < 2 ^ 5) :
    uopC φ ((inv_RY.body.map (Gate.subst [⟨[0, 2], 2⟩])).map (Gate.relabel fun _ => 3)) r j
      = if r = j then 1 else 0 :=
  inverse_rows_sound ("RY", inv_RY) (by simp [invRows])
    (⟨fun a ha b hb _ => by omega, fun _ _ => by decide⟩ : Placement (fun _ => 3) 1 5) _ φ r hr j hj

/-- the known-defect rows are excluded because they FAIL: e.g. `controlled_h_resolver` (as translated from the
    working tree) is decided by the kernel either way (`Generated.ctl_H_known_row_decided`) -/
example : ("H", ctl_H) ∈ ctlRows ∧ "H" ∈ ctlKnownDefects := ⟨by simp [ctlRows], by decide⟩

end QV.Props.C19Lift
