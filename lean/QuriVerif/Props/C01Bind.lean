import QuriVerif.Props.C01Lift
/-
  C01 / C10 — "transpile and bind commute" for the decomposition templates of C01, over complex operators.

  Binding is angle substitution (`Gate.subst`): a circuit whose angles are affine expressions `as` in circuit
  parameters is bound by a second substitution `bs` (constants, or again affine).
    * `subst_subst_complex`    substituting twice IS substituting once with the composed expressions
                               (`compSubst as bs`), at operator level;
    * `template_bind_commute`  for every decomposition template read from the source
                               (`Generated/C01Templates`, the `GateKindDecomposer`s), every placement, every
                               symbolic instantiation `as`, every binding `bs`, all real angles:
          transpile-then-bind   `opC ((body[as])[bs]) = c₁ · opC [(target[as])[bs]]`,
          bind-then-transpile   `opC (body[as∘bs])   = c₂ · opC [target[as∘bs]]`,
      `c₁, c₂ ≠ 0`, and the two right-hand operators are EQUAL – the two orders agree up to a non-zero scalar.
  Whole pipelines: the passes of `Model/C01` (`runSeq`) act on circuits with NUMERIC angles (`NGate.params` are
  grid values; `Props/C01Pipeline.runSeq_sound` is a statement at those values), symbolic circuits are not
  representable there; `runSeq_sound` IS the bind-then-transpile half for every covered pass list (side conditions
  `fits n`, `ladderGood`; no `cliffApprox`).  The transpile-then-bind half for whole parametric circuits is the
  segment-wise `ParametricTranspiler` of C10 (`Props/C10.transpile_bind_commute`, rule clauses at ℂ in
  `Props/C10Lift`).
-/
namespace QV.Props.C01Bind
open QV QV.MatSound QV.Props.Reflect

/-- composing two substitutions: first `as` for the template variables, then `bs` for the circuit parameters -/
def compSubst (as bs : List Angle) : List Angle := as.map (Angle.subst bs)

theorem substRho_comp (φ : ℕ → ℝ) (as bs : List Angle) :
    substRho zetaC (rhoC φ) (compSubst as bs) = substRho zetaC (substRho zetaC (rhoC φ) bs) as := by
  funext i
  unfold substRho compSubst
  rw [getD_map_subst, theta_subst zetaC_pow_eight (rhoC_ne_zero φ)]
  rfl

/-- **substituting twice is substituting the composition**, at operator level -/
theorem subst_subst_complex (φ : ℕ → ℝ) (as bs : List Angle) (gs : List Gate)
    (hk : ∀ g ∈ gs, g.kind ≠ .UnitaryMatrix) :
    opC φ ((gs.map (Gate.subst as)).map (Gate.subst bs)) = opC φ (gs.map (Gate.subst (compSubst as bs))) := by
  unfold opC
  have hk' : ∀ g ∈ gs.map (Gate.subst as), g.kind ≠ .UnitaryMatrix := by
    intro g hg
    obtain ⟨g0, hg0, rfl⟩ := List.mem_map.mp hg
    exact hk g0 hg0
  rw [semCirc_subst zetaC_pow_eight (rhoC_ne_zero φ) bs _ hk',
    semCirc_subst zetaC_pow_eight (substRho_ne_zero zetaC_pow_eight (rhoC_ne_zero φ) bs) as gs hk,
    semCirc_subst zetaC_pow_eight (rhoC_ne_zero φ) (compSubst as bs) gs hk, substRho_comp]

theorem relabel_comm_subst (σ : ℕ → ℕ) (as : List Angle) (gs : List Gate) :
    (gs.map (Gate.subst as)).map (Gate.relabel σ) = (gs.map (Gate.relabel σ)).map (Gate.subst as) :=
  map_relabel_subst σ as gs

/-- **transpile and bind commute, for every decomposition template of the source** -/
theorem template_bind_commute (e : String × Kind × Template) (he : e ∈ QV.Gen.C01.templates)
    {σ : ℕ → ℕ} {n : ℕ} (P : Placement σ e.2.2.nq n) (as bs : List Angle) (φ : ℕ → ℝ)
    (hkb : ∀ g ∈ e.2.2.body, g.kind ≠ .UnitaryMatrix) (hkt : e.2.2.target.kind ≠ .UnitaryMatrix) :
    (∃ c₁ : ℂ, c₁ ≠ 0 ∧ ∀ r, r < 2 ^ n → ∀ j, j < 2 ^ n →
      opC φ ((((e.2.2.body.map (Gate.subst as)).map (Gate.relabel σ))).map (Gate.subst bs)) r j
        = c₁ * opC φ [((e.2.2.target.subst as).relabel σ).subst bs] r j) ∧
    (∃ c₂ : ℂ, c₂ ≠ 0 ∧ ∀ r, r < 2 ^ n → ∀ j, j < 2 ^ n →
      opC φ ((e.2.2.body.map (Gate.subst (compSubst as bs))).map (Gate.relabel σ)) r j
        = c₂ * opC φ [(e.2.2.target.subst (compSubst as bs)).relabel σ] r j) ∧
    opC φ [((e.2.2.target.subst as).relabel σ).subst bs]
      = opC φ [(e.2.2.target.subst (compSubst as bs)).relabel σ] := by
  have hbody : opC φ ((((e.2.2.body.map (Gate.subst as)).map (Gate.relabel σ))).map (Gate.subst bs))
      = opC φ ((e.2.2.body.map (Gate.subst (compSubst as bs))).map (Gate.relabel σ)) := by
    rw [relabel_comm_subst σ as, relabel_comm_subst σ (compSubst as bs)]
    exact subst_subst_complex φ as bs _ (by
      intro g hg
      obtain ⟨g0, hg0, rfl⟩ := List.mem_map.mp hg
      exact hkb g0 hg0)
  have htgt : opC φ [((e.2.2.target.subst as).relabel σ).subst bs]
      = opC φ [(e.2.2.target.subst (compSubst as bs)).relabel σ] := by
    have := subst_subst_complex φ as bs [e.2.2.target.relabel σ] (by
      intro g hg; simp only [List.mem_singleton] at hg; subst hg; exact hkt)
    simpa [relabel_subst] using this
  obtain ⟨c, hc, hs⟩ := QV.Props.C01Lift.translated_template_sound e he P (compSubst as bs) φ
  refine ⟨⟨c, hc, fun r hr j hj => ?_⟩, ⟨c, hc, hs⟩, htgt⟩
  rw [hbody, htgt]
  exact hs r hr j hj

/-- composition of substitutions: template variable `θ₀ := 2φ₀ + φ₁`, then binding `φ₀ := π/4, φ₁ := φ₅` -/
example : compSubst [⟨[2, 1], 0⟩] [⟨[], 1⟩, Angle.var 5] = [⟨[0, 0, 0, 0, 0, 1], 2⟩] := by decide

example : 40 ≤ QV.Gen.C01.templates.length := by decide

end QV.Props.C01Bind
