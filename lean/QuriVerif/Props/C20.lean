import QuriVerif.Proof.C20Sound3
import QuriVerif.Proof.C20Cache
import QuriVerif.Generated.C20ShapesOk
/-
  C20 — Frozen, bound and derived objects are unaffected by later mutation.

  Property theorems only.  `St`/`step`/`run` is the reference-level model of the quri-parts circuit
  objects (Model/C20.lean), parametrised by the shapes `Cfg` of the Rust functions; `Sp`/`sstep`/`srun`
  runs the same operations on one plain value per handle.  `Gen.C20.cfg` is what the translator read
  from `circuit.rs` / `circuit_parametric.rs` of the working tree.

  A step is *alias-free* (`Res.safe`) when it hands out no second reference to an object that can still
  be mutated; `Safe cfg h` says every step of history `h` is.  With the Rust sources as written three
  operations are not alias-free (findings, see the `witness_*` theorems):
    * `ImmutableQuantumCircuit(c)` on a mutable `c`                       (np.ctor  = aliasSetFlag)
    * `freeze()` / `State(...)` of an object whose `is_immutable` flag was cloned by
      `get_mutable_copy` / `+`, e.g. `with_gates_applied` of a circuit state (np.copy  = cloneKeepFlag)
    * reading `bound.unbound_param_circuit`                               (bind      = keepsSelf)
  so the full statement is proved in `_partial` form, under `Safe`.
-/
namespace QV.Props.C20
open QV.C20 QV.C20.Cache

/-- refinement statement: the implementation run of `h` and the value run of `h` produce the same
    outputs (observed gates, parameters, mapping, class, depth, `==`, exceptions) and every handle
    denotes the value the specification says -/
def Refines (cfg : Cfg) (h : List Op) : Prop :=
  (run cfg St.init h).outs = (srun Sp.init h).2 ∧
  (run cfg St.init h).st.nH = (srun Sp.init h).1.nH ∧
  ∀ i, i < (run cfg St.init h).st.nH → (run cfg St.init h).st.absH i = (srun Sp.init h).1.vs i

/-- FULL STATEMENT (for every history, no hypothesis) would be `∀ h, Refines Gen.C20.cfg h`; it is
    false for the Rust sources as written (`witness_*`).  Proved: for every configuration whose
    `add_gate` invalidates the depth cache and every history all of whose steps are alias-free, every
    derived handle observes exactly what value semantics says — later mutations of the source or of
    sibling copies are invisible.  Missing: histories containing one of the three aliasing steps. -/
theorem refines_value_semantics_partial (cfg : Cfg) (hb : cfg.baseOk = true) (h : List Op)
    (hs : Safe cfg h = true) : Refines cfg h := by
  obtain ⟨_, r, o⟩ := run_sim hb h Inv.init Rel.init hs
  exact ⟨o, r.nH, r.vs⟩

/-- FULL-STRENGTH statement for alias-free configurations: if `freeze` never returns a mutable object,
    `get_mutable_copy` resets the flag and the `Immutable…(c)` constructors clone — the shapes the
    parametric family already has — then *every* history (that does not read the stored back reference
    `unbound_param_circuit`) is refined: no hypothesis on the order of construct / mutate / freeze /
    copy / `+` / bind / state operations. -/
theorem refines_value_semantics (cfg : Cfg) (hc : cfg.sound = true) (h : List Op)
    (hu : ∀ op, op ∈ h → op.isGetUnbound = false) : Refines cfg h :=
  refines_value_semantics_partial cfg (sound_base hc) h (run_sound hc h Inv.init FInv.init Rel.init hu)

/-- the same for the shapes read from the working tree -/
theorem generated_refines_partial (h : List Op) (hs : Safe QV.Gen.C20.cfg h = true) :
    Refines QV.Gen.C20.cfg h :=
  refines_value_semantics_partial _ (by decide) h hs

/-- a frozen / bound / copied / combined circuit or a state (`j`), once it exists, keeps its value
    through every continuation that does not call a mutation method on `j` itself
    (missing: continuations containing an aliasing step) -/
theorem derived_values_independent_partial (cfg : Cfg) (hb : cfg.baseOk = true) (h1 h2 : List Op) (j : Nat)
    (hs : Safe cfg (h1 ++ h2) = true) (hj : j < (run cfg St.init h1).st.nH)
    (hm : ∀ op, op ∈ h2 → op.target ≠ some j) :
    (run cfg St.init (h1 ++ h2)).st.absH j = (run cfg St.init h1).st.absH j := by
  obtain ⟨a1, a2, _⟩ := run_append cfg St.init h1 h2
  have hs' : (run cfg St.init (h1 ++ h2)).safe = true := hs
  rw [a2, Bool.and_eq_true] at hs'
  obtain ⟨i1, r1, _⟩ := run_sim hb h1 Inv.init Rel.init hs'.1
  obtain ⟨_, r2, _⟩ := run_sim hb h2 i1 r1 hs'.2
  have hj' : j < (srun Sp.init h1).1.nH := by rw [← r1.nH]; exact hj
  have hk : (run cfg (run cfg St.init h1).st h2).st.nH = (srun (srun Sp.init h1).1 h2).1.nH := r2.nH
  have hmono : (srun Sp.init h1).1.nH ≤ (srun (srun Sp.init h1).1 h2).1.nH := srun_nH_mono h2 _
  rw [a1, r2.vs j (by rw [hk]; exact Nat.lt_of_lt_of_le hj' hmono), srun_other h2 _ hj' hm, r1.vs j hj]

/-- functions documented as returning a new object leave their arguments unchanged: an operation
    that is not a mutation method changes the value of no existing handle
    (missing: histories containing an aliasing step) -/
theorem args_unchanged_partial (cfg : Cfg) (hb : cfg.baseOk = true) (h : List Op) (op : Op) (i : Nat)
    (hs : Safe cfg (h ++ [op]) = true) (hop : op.target = none) (hi : i < (run cfg St.init h).st.nH) :
    (run cfg St.init (h ++ [op])).st.absH i = (run cfg St.init h).st.absH i :=
  derived_values_independent_partial cfg hb h [op] i hs hi (by
    intro o ho
    simp only [List.mem_singleton] at ho
    subst ho
    rw [hop]
    intro e; cases e)

/-- content-keyed caches (`CachedMeasurementFactory`, qulacs `convert_operator`), for every cached
    function `compute`: after any sequence of operator constructions, in-place mutations, copies and
    earlier lookups, a lookup with operator `h` returns a result computed on a content with exactly the
    item set `h` has *now* -/
theorem cache_key_snapshot {ρ : Type} (compute : Content → Nat → ρ) (pre : List COp) (h n : Nat)
    (hh : h < (crun compute CSt.init pre).1.ops.length) :
    ∃ r hit c', (cstep compute (crun compute CSt.init pre).1 (.get h n)).2 = .res r hit ∧
      canon c' = canon ((crun compute CSt.init pre).1.ops.getD h []) ∧ r = compute c' n :=
  cstep_get_sound compute (crun_inv compute (CInv.init compute) pre) hh n

/-! ### the three findings: concrete histories on which the full statement fails for the shapes read
    from the working tree (each is replayed on the real objects by the harness on every run) -/

def gX (q : Nat) : G := ⟨0, [q], 0, none⟩
def gH (q : Nat) : G := ⟨1, [q], 0, none⟩

/-- `c = QuantumCircuit(2); i = ImmutableQuantumCircuit(c); f = c.freeze(); c.add_H_gate(1)`: `f` changes -/
def histCtor : List Op :=
  [.newC 2, .addGate 0 (gX 0) none, .immCtor 0, .freeze 0, .addGate 0 (gH 1) none, .obs 2]
/-- `f = c.freeze(); m = f.get_mutable_copy(); g = m.freeze(); m.add_H_gate(1)`: `g` changes -/
def histCopy : List Op :=
  [.newC 2, .addGate 0 (gX 0) none, .freeze 0, .mutCopy 1, .freeze 2, .addGate 2 (gH 1) none, .obs 3]
/-- `b = p.bind_parameters([2]); u = b.unbound_param_circuit; p.add_ParametricRY_gate(1)`: `u` changes -/
def histUnbound : List Op :=
  [.newP 2, .addPar 0 3 [0], .obs 0, .bind 0 [2], .getUnbound 1, .addPar 0 4 [1], .obs 2]

theorem witness_ctor_aliases_argument :
    QV.Gen.C20.cfg.np.ctor = .aliasSetFlag → refinesB QV.Gen.C20.cfg histCtor = false := by decide
theorem witness_copy_keeps_immutable_flag :
    QV.Gen.C20.cfg.np.copy = .cloneKeepFlag → refinesB QV.Gen.C20.cfg histCopy = false := by decide
theorem witness_unbound_is_live_reference :
    QV.Gen.C20.cfg.bind = .keepsSelf → refinesB QV.Gen.C20.cfg histUnbound = false := by decide

/-- the same histories are refined by a configuration in which both class families have the shapes of
    the parametric family (clone in the constructor, flag reset by `get_mutable_copy`) -/
theorem witnesses_vanish_when_fixed :
    refinesB Cfg.good histCtor = true ∧ refinesB Cfg.good histCopy = true := by decide

/-- every deviation of the shapes read from the working tree from an alias-free configuration is one
    of the known findings; the parametric family has none -/
theorem generated_deviations_known :
    QV.Gen.C20.cfg.par.aliasFree = true ∧ QV.Gen.C20.cfg.np.freeze ≠ .alwaysSame ∧
    QV.Gen.C20.cfg.np.newFlag = false ∧ QV.Gen.C20.cfg.bindFlag = true := by decide

/-! ### non-vacuity of the hypotheses -/

/-- `Safe` holds for a history that freezes, copies, combines, binds and builds states and then mutates
    the sources, and the derived handles indeed keep their values -/
example : Safe QV.Gen.C20.cfg
    [.newP 2, .addPar 0 3 [0], .freeze 0, .mutCopy 0, .combine 1 (.h 0), .obs 0, .bind 1 [1], .mkState 1,
     .addPar 0 4 [1], .addGate 2 (gX 1) none, .newC 2, .freeze 5, .addGate 5 (gH 0) none,
     .obs 1, .obs 4, .obs 6, .depth 6] = true := by decide
example : QV.Gen.C20.cfg.baseOk = true := by decide
example : Cfg.good.sound = true := by decide
example : (crun (fun c _ => c) CSt.init [.new, .set 0 1 5]).1.ops.length = 1 := by decide

end QV.Props.C20
