import QuriVerif.Props.C01
/-
  C01, thorough tier only: kernel-exhaustive three-qubit instances of the
  Pauli-rotation decomposition (each 8×8 symbolic product costs the kernel ≈ 8 s).
-/
namespace QV.Props.C01
open QV QV.C01

theorem pauli_rotation_decompose_3q_partial :
    ([[1, 2, 3], [2, 2, 1], [3, 1, 2], [3, 3, 3], [1, 1, 1], [2, 3, 2]].all pauliRotCase) = true := by
  decide +kernel

theorem pauli_rotation_decompose_3q_rev_partial :
    ([[1, 2, 3], [2, 3, 1]].all pauliRotCaseRev) = true := by decide +kernel

end QV.Props.C01
