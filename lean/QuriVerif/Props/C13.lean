import QuriVerif.Proof.C13
import QuriVerif.Generated.C13Instances
/-
  C13 — Fermion-to-qubit mappings treat operators and states consistently: the property theorems.

  Scope of the theorems: the GF(2) layer (`inverse`), the state mapper / inverse state mapper / number-operator
  read-back for ANY row/sign data (the rows and signs of the mapped number operators are the part OpenFermion
  contributes; `QV.Gen.C13.instances` holds what the working tree actually produces, kernel-checked), the three
  post-selection filters, `occupation_state_sz`, `_get_scbk_parity_factor`.
  Not in the theorems (trusted, validated per instance against oracle/fock.py): matrix elements of general
  ladder-operator products, i.e. OpenFermion's operator transforms and the SCBK tapering.
-/
namespace QV.Props.C13
open QV.C13

/-! ### GF(2) `inverse` -/

/-- For EVERY square binary matrix (singular ones included, stale `pivot_row` and all): if `inverse` returns `B`,
    then row `i` of `B · mat` is the left block of the `i`-th final augmented row (invariant `B·A₀ = A_cur`). -/
theorem gf2_inverse_rowspace {mat B : BMat} (hwf : squareWf mat = true) (h : inverse mat = .ok B) :
    ∃ rows, gaussJordan mat.length (augRows (mat.map (·.b))) = .ok rows ∧ rows.length = mat.length ∧
      B = rows.map (fun b => (⟨b / 2 ^ mat.length, mat.length⟩ : BArr)) ∧
      ∀ i, comb (mat.map (·.b)) (rowAt (B.map (·.b)) i) = rowAt rows i % 2 ^ mat.length :=
  inverse_rowspace hwf h

/-- Whenever the first loop nest finds a pivot in every column, `inverse` raises nothing and returns a square
    matrix `B` with `B · mat = 1`. -/
theorem gf2_inverse_sound {mat : BMat} (hwf : squareWf mat = true) (hp : pivotsFound (mat.map (·.b)) = true) :
    ∃ B, inverse mat = .ok B ∧ B.length = mat.length ∧ squareWf B = true ∧
      leftIdOn mat.length (B.map (·.b)) (mat.map (·.b)) = true :=
  inverse_sound_core hwf hp

/-- … and `mat · B = 1` as well: with every pivot found `inverse` returns the two-sided inverse (the row operations
    are invertible: every initial augmented row stays in the span of the current ones). -/
theorem gf2_inverse_right_inverse {mat : BMat} (hwf : squareWf mat = true)
    (hp : pivotsFound (mat.map (·.b)) = true) :
    ∃ B, inverse mat = .ok B ∧ leftIdOn mat.length (mat.map (·.b)) (B.map (·.b)) = true :=
  inverse_right_core hwf hp

/-- Consequence for the constructor, for EVERY size: whatever rows the mapped number operators give, if Gauss–Jordan
    finds every pivot on them then the constructed JW/BK-type mapping satisfies all hypotheses of the round-trip,
    read-back and filter theorems below. -/
theorem pivots_give_two_sided_mapping (i : Inst) (hk : i.kind ≠ .scbk) (hn : i.rows.length = i.n)
    (hs : i.signs.length = i.n) (hlt : ∀ a ∈ i.rows, a < 2 ^ i.n) (hp : pivotsFound i.rows = true)
    (nf : Option Nat) (sz2 : Option Int) :
    ∃ m, i.mapping nf sz2 = some m ∧ m.wf = true ∧ m.leftId = true ∧ m.rightId = true ∧ m.nQubits = m.nSpin :=
  Inst.of_pivots i hk hn hs hlt hp nf sz2

example : (Inst.mk .bk 4 [1, 3, 4, 14] [false, false, false, false]).kind ≠ .scbk ∧
    pivotsFound [1, 3, 4, 14] = true ∧ ([1, 3, 4, 14] : List Nat).all (· < 2 ^ 4) = true := by decide

/-- non-vacuity: the 4-orbital Bravyi–Kitaev matrix satisfies both hypotheses -/
example : squareWf [⟨1, 4⟩, ⟨3, 4⟩, ⟨4, 4⟩, ⟨14, 4⟩] = true ∧ pivotsFound [1, 3, 4, 14] = true := by decide

/-- PARTIAL.  Full statement wanted: "`inverse` never fails with an accidental exception" (so that every mapping
    constructor succeeds for every admissible size).  Proved with the hypothesis that the first column is not zero;
    without it the source reads the unbound local `pivot_row` (next two theorems, finding
    `scbk-2-spin-orbitals-UnboundLocalError`).  Singular input with a non-zero first column raises nothing. -/
theorem gf2_inverse_no_exception_partial {mat : BMat} (hwf : squareWf mat = true)
    (hcol : ∃ r, r < mat.length ∧ (rowAt (mat.map (·.b)) r).testBit 0 = true) : ∃ B, inverse mat = .ok B :=
  inverse_total_core hwf hcol

example : squareWf [⟨3, 2⟩, ⟨3, 2⟩] = true ∧
    (0 < 2 ∧ (rowAt (([⟨3, 2⟩, ⟨3, 2⟩] : BMat).map (·.b)) 0).testBit 0 = true) := by decide

/-- the rejected inputs, exactly: a non-empty square matrix with a zero first column raises `UnboundLocalError` -/
theorem gf2_inverse_unbound {mat : BMat} (hwf : squareWf mat = true) (hne : 0 < mat.length)
    (hcol : ∀ r, r < mat.length → (rowAt (mat.map (·.b)) r).testBit 0 = false) :
    inverse mat = .error .unboundLocalError :=
  inverse_unbound_core hwf hne hcol

example : squareWf [⟨2, 2⟩, ⟨2, 2⟩] = true ∧ 0 < [(⟨2, 2⟩ : BArr), ⟨2, 2⟩].length := by decide

/-- WITNESS (negation of the full statement on a concrete admissible input): with the number operators OpenFermion
    returns for SCBK on 2 spin orbitals, 1 electron, sz = +1/2 (`1−2n₀ ↦ −1`, `1−2n₁ ↦ +1`: no qubit is left), the
    constructor raises `UnboundLocalError`.  Replayed on the real code by every run. -/
theorem scbk_two_orbitals_witness :
    (match mkMapping .scbk 2 (some 1) (some 1) [[([], -1)], [([], 1)]] with
      | .error e => e == .unboundLocalError
      | .ok _ => false) = true := by decide

/-- any other singular matrix silently yields a matrix that is NOT an inverse (stale `pivot_row`); the SCBK
    constructor relies on exactly this behaviour (its 2 dropped columns are zero) -/
theorem gf2_inverse_singular_witness :
    inverse [⟨3, 2⟩, ⟨3, 2⟩] = .ok [⟨3, 2⟩, ⟨2, 2⟩] ∧ leftIdOn 2 [3, 2] [3, 3] = false := by decide

/-! ### state mapper ∘ inverse state mapper -/

/-- For every mapping whose `trans · inv` is the identity on the first `n_qubits` rows (JW, BK and SCBK alike):
    the state mapper sends the occupation returned by the inverse state mapper back to the same bitstring. -/
theorem state_after_inv (m : Mapping) (hwf : m.wf = true) (hid : m.leftId = true)
    (bits : Nat) (hb : bits < 2 ^ m.nQubits) :
    ∃ occ, invStateMapper m bits = .ok occ ∧ stateCore m (occVector m occ) = .ok bits :=
  state_after_inv_core m hwf hid bits hb

/-- For a mapping without dropped qubits whose `inv · trans` is the identity (JW, BK): the inverse state mapper
    undoes the state mapper on EVERY occupation list (returned ascending, indices ≥ n ignored as in the source). -/
theorem inv_state_mapper_left_inverse (m : Mapping) (hwf : m.wf = true) (hid : m.rightId = true)
    (hk : m.nQubits = m.nSpin) (occ : List Nat) :
    ∃ bits, stateCore m (occVector m occ) = .ok bits ∧ bits < 2 ^ m.nQubits ∧
      invStateMapper m bits = .ok (occOf m.nSpin occ) :=
  inv_after_state_core m hwf hid hk occ

/-- PARTIAL (SCBK): the inverse state mapper undoes the state mapper on every occupation that is in the image of
    the inverse state mapper.  Missing for the full statement: that every occupation of the requested
    (n_electrons, s_z) sector is in that image – a fact about OpenFermion's tapering, validated per sector by the
    oracle. -/
theorem inv_state_mapper_left_inverse_partial (m : Mapping) (hwf : m.wf = true) (hid : m.leftId = true)
    (bits : Nat) (hb : bits < 2 ^ m.nQubits) (occ : List Nat) (h : invStateMapper m bits = .ok occ) :
    ∃ bits', stateCore m (occVector m occ) = .ok bits' ∧ invStateMapper m bits' = .ok occ := by
  obtain ⟨occ', h1, h2⟩ := state_after_inv_core m hwf hid bits hb
  rw [h] at h1
  injection h1 with h1
  subst h1
  exact ⟨bits, h2, h⟩

/-! ### number operators read back the occupation -/

/-- JW/BK: on the state the state mapper produces for `occ`, the mapped `1 − 2nᵢ = sᵢ·Z_{rowᵢ}` has eigenvalue
    `(−1)^{occᵢ}` for every orbital. -/
theorem number_readback (m : Mapping) (hwf : m.wf = true) (hid : m.rightId = true) (hk : m.nQubits = m.nSpin)
    (occ : List Nat) (bits : Nat) (h : stateCore m (occVector m occ) = .ok bits) (i : Nat) (hi : i < m.nSpin) :
    numberReads m i bits = occ.contains i :=
  readback_core m hwf hid hk occ bits h i hi

/-- all mappings (SCBK included): on every basis state, the mapped number operators read exactly the occupation
    the inverse state mapper reports -/
theorem number_readback_on_image (m : Mapping) (hwf : m.wf = true) (bits : Nat) (hb : bits < 2 ^ m.nQubits)
    (occ : List Nat) (h : invStateMapper m bits = .ok occ) (i : Nat) (hi : i < m.nSpin) :
    numberReads m i bits = occ.contains i := by
  rw [invStateMapper_ok m hwf bits hb] at h
  injection h with h
  subst h
  obtain ⟨h1, _, _, _, _, _⟩ := wf_parts m hwf
  have hlen : (invVec m bits).len = m.nSpin := by simp [invVec, BArr.ofBools, h1]
  rw [contains_occupancySet _ _ _ (by omega)]
  have hiM : i < m.invMat.length := by omega
  simp only [numberReads, BArr.get, invVec, BArr.ofBools, testBit_packBits, rowAt, List.getD_eq_getElem?_getD,
    List.getElem?_map, List.getElem?_eq_getElem hiM, Option.map_some, Option.getD_some]
  generalize m.signs[i]?.getD false = s
  generalize parityLow (m.invMat[i].b &&& bits) m.nSpin = p
  cases s <;> cases p <;> rfl

/-! ### post-selection filters -/

/-- The JW filter, for ALL bitstrings: it accepts `bits` iff the number of set bits is `n_electrons` and, when `sz`
    is given, (set bits at even positions) − (set bits at odd positions) = 2·sz.  (`N` is any width with
    `bits < 2^N`; the source works on `bin(bits)` slices, modelled on digit lists.) -/
theorem jw_filter_spec (ne : Nat) (sz2 : Option Int) (bits N : Nat) (hN : bits < 2 ^ N) :
    jwFilter ne sz2 bits = true ↔
      countBelow (fun i => bits.testBit i) N = ne ∧
      ∀ s, sz2 = some s →
        (countBelow (fun i => i % 2 == 0 && bits.testBit i) N : Int) -
          (countBelow (fun i => i % 2 == 1 && bits.testBit i) N : Int) = s :=
  jw_filter_spec_core ne sz2 bits N hN

/-- the fuel of the digit-list model of `bin(bits)` suffices: the list has exactly the bits of `bits` -/
theorem jw_digits_fuel_suffices (bits i : Nat) : (bitsLE bits bits).getD i false = bits.testBit i :=
  bitsLE_getD bits bits i Nat.lt_two_pow_self

/-- BK and SCBK filters: every accepted bitstring is the state-mapper image of an occupation with the requested
    electron number and spin (and the state mapper's own checks accept that occupation). -/
theorem filter_accepts_only_images (m : Mapping) (hwf : m.wf = true) (hid : m.leftId = true)
    (ne : Nat) (s : Int) (bits : Nat)
    (hnf : ∀ k, m.nFermions = some k → k = ne) (hsz : ∀ t, m.sz2 = some t → t = s)
    (h : invFilter m m.nQubits ne (some s) bits = .ok true) :
    ∃ occ, occ.length = ne ∧ occSz2 occ = s ∧ stateMapper m occ = .ok bits :=
  filter_accepts_only_images_core m hwf hid ne s bits hnf hsz h

/-- BK filter (no dropped qubits, `inv · trans = 1`): every image of an occupation with the requested electron
    number and spin is accepted.  Together with the previous theorem: the filter accepts exactly the images. -/
theorem bk_filter_accepts_all_images (m : Mapping) (hwf : m.wf = true) (hid : m.rightId = true)
    (hk : m.nQubits = m.nSpin) (ne : Nat) (s : Int) (occ : List Nat) (bits : Nat)
    (hnd : hasDup occ = false) (hlt : ∀ i ∈ occ, i < m.nSpin) (hl : occ.length = ne) (hs : occSz2 occ = s)
    (h : stateMapper m occ = .ok bits) :
    invFilter m m.nQubits ne (some s) bits = .ok true :=
  filter_accepts_all_images_core m hwf hid hk ne s occ bits hnd hlt hl hs h

/-- `ComputationalBasisState(qubit_count, bits)` rejects out-of-range bitstrings: the filter raises ValueError -/
theorem filter_out_of_range (m : Mapping) (qc ne : Nat) (sz2 : Option Int) (bits : Nat) (h : 2 ^ qc ≤ bits) :
    invFilter m qc ne sz2 bits = .error .valueError := by
  simp [invFilter, h, bind, Except.bind, throw, throwThe, MonadExceptOf.throw]

/-! ### spin and parity factors -/

/-- `2·occupation_state_sz(occ)` = (#even indices) − (#odd indices), and the two counts add up to `len(occ)` -/
theorem occupation_state_sz_spec (occ : List Nat) :
    occSz2 occ = ((occ.filter fun i => i % 2 == 0).length : Int) - ((occ.filter fun i => i % 2 == 1).length : Int) ∧
    occ.length = (occ.filter fun i => i % 2 == 0).length + (occ.filter fun i => i % 2 == 1).length :=
  occSz2_spec_core occ

/-- for every occupation list, the SCBK parity factors computed from (len, 2·sz) are (−1)^{#spin-up electrons} and
    (−1)^{#electrons} -/
theorem scbk_parity_factor_spec (occ : List Nat) :
    scbkParityFactor occ.length (occSz2 occ) =
      (((occ.filter fun i => i % 2 == 0).length % 2 != 0), (occ.length % 2 != 0)) :=
  scbk_parity_core occ

/-! ### `FermionCreationTerm`: the sign convention of occupation lists -/

/-- exchanging two adjacent distinct creation operators flips the sign stored in `coef` … -/
theorem creation_term_swap (l1 l2 : List Nat) (a b : Nat) (h : a ≠ b) :
    (creationTerm (l1 ++ a :: b :: l2)).1 ≠ (creationTerm (l1 ++ b :: a :: l2)).1 := by
  have hc := inversion_swap_core l1 l2 a b h
  simp only [creationTerm]
  by_cases hab : a > b
  · simp only [hab, ↓reduceIte] at hc
    intro he
    have : inversionNumber (l1 ++ a :: b :: l2) % 2 = inversionNumber (l1 ++ b :: a :: l2) % 2 := by
      rcases Nat.mod_two_eq_zero_or_one (inversionNumber (l1 ++ a :: b :: l2)) with h1 | h1 <;>
      rcases Nat.mod_two_eq_zero_or_one (inversionNumber (l1 ++ b :: a :: l2)) with h2 | h2 <;>
      simp_all
    omega
  · simp only [hab, ↓reduceIte] at hc
    intro he
    have : inversionNumber (l1 ++ a :: b :: l2) % 2 = inversionNumber (l1 ++ b :: a :: l2) % 2 := by
      rcases Nat.mod_two_eq_zero_or_one (inversionNumber (l1 ++ a :: b :: l2)) with h1 | h1 <;>
      rcases Nat.mod_two_eq_zero_or_one (inversionNumber (l1 ++ b :: a :: l2)) with h2 | h2 <;>
      simp_all
    omega

/-- … and the ascending order (the order of `indices` it stores) carries the sign +1: together these two facts
    determine the sign as the fermionic reordering sign -/
theorem creation_term_sorted (l : List Nat) : (creationTerm (sortNat l)).1 = false := by
  simp [creationTerm, inversion_sorted_core]

/-! ### the real mappings (generated table, kernel-checked) satisfy the hypotheses above -/

theorem instance_hypotheses (i : Inst) (hi : i ∈ QV.Gen.C13.instances) (nf : Option Nat) (sz2 : Option Int) :
    ∃ m, i.mapping nf sz2 = some m ∧ m.wf = true ∧ m.leftId = true ∧
      (i.kind ≠ .scbk → m.rightId = true ∧ m.nQubits = m.nSpin ∧ pivotsFound i.rows = true) := by
  have hall := QV.Gen.C13.instances_ok
  rw [List.all_eq_true] at hall
  have hc := hall i hi
  exact Inst.check_spec i hc nf sz2

/-- every real mapping in the table (JW, BK n ≤ 12; SCBK even n ≤ 12, all sign patterns): state ∘ inv = id -/
theorem instances_state_after_inv (i : Inst) (hi : i ∈ QV.Gen.C13.instances) (nf : Option Nat) (sz2 : Option Int)
    (m : Mapping) (hm : i.mapping nf sz2 = some m) (bits : Nat) (hb : bits < 2 ^ m.nQubits) :
    ∃ occ, invStateMapper m bits = .ok occ ∧ stateCore m (occVector m occ) = .ok bits := by
  obtain ⟨m', h1, h2, h3, _⟩ := instance_hypotheses i hi nf sz2
  rw [hm] at h1
  injection h1 with h1
  subst h1
  exact state_after_inv_core m h2 h3 bits hb

/-- every real JW / BK mapping in the table: inv ∘ state = id on all occupation lists -/
theorem instances_inv_after_state (i : Inst) (hi : i ∈ QV.Gen.C13.instances) (hk : i.kind ≠ .scbk)
    (nf : Option Nat) (sz2 : Option Int) (m : Mapping) (hm : i.mapping nf sz2 = some m) (occ : List Nat) :
    ∃ bits, stateCore m (occVector m occ) = .ok bits ∧ bits < 2 ^ m.nQubits ∧
      invStateMapper m bits = .ok (occOf m.nSpin occ) := by
  obtain ⟨m', h1, h2, _, h4⟩ := instance_hypotheses i hi nf sz2
  rw [hm] at h1
  injection h1 with h1
  subst h1
  obtain ⟨h5, h6, _⟩ := h4 hk
  exact inv_after_state_core m h2 h5 h6 occ

/-- non-vacuity of the mapping hypotheses on concrete objects: BK on 4 orbitals, SCBK on 4 orbitals (2 e⁻, sz = 0) -/
example : (match (Inst.mk .bk 4 [1, 3, 4, 14] [false, false, false, false]).mapping none none with
    | some m => m.wf && m.leftId && m.rightId && m.nQubits == m.nSpin
    | none => false) = true := by decide
example : (match (Inst.mk .scbk 4 [1, 2, 1, 2] [false, false, true, true]).mapping (some 2) (some 0) with
    | some m => m.wf && m.leftId && decide (invFilter m m.nQubits 2 (some 0) 3 = .ok true) &&
        decide (stateMapper m [0, 1] = .ok 3) && decide (invStateMapper m 3 = .ok [0, 1])
    | none => false) = true := by decide
example : jwFilter 2 (some 0) 3 = true ∧ jwFilter 2 (some 0) 5 = false ∧ (3 : Nat) < 2 ^ 4 := by decide

end QV.Props.C13
