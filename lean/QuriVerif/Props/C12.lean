import QuriVerif.Proof.C12
import QuriVerif.Generated.C12Inverse
/-
  C12 — Inverse circuits undo the circuit and folding leaves it unchanged.

  Per-gate facts `sem (inverse_gate g) · sem g ∝ 1` are the generated obligations
  `inv_<Kind>_ok` (Generated/C12Inverse.lean, symbolic angles, both orders are
  the same statement for unitaries).  For the unchanged tree they FAIL for U2 and U3
  (all parameters negated): `inv_U2_pinned_defect`, `inv_U3_pinned_defect` below are the
  witness theorems (literal copies of the pinned rows; the rows translated from the working tree are decided either way:
  `inv_U2_known_row_decided`, so that a repair upstream is not an alarm); the lifting theorems below therefore carry the per-gate fact as
  a hypothesis and are the `_partial` form for circuits without U2/U3.
-/
namespace QV.Props.C12
open QV QV.C12 PhaseMonoid

def pinned_inv_U2 : List Gate := [G .U2 [] [0] [⟨[1], 0⟩, ⟨[0, 1], 0⟩], G .U2 [] [0] [⟨[-1], 0⟩, ⟨[0, -1], 0⟩]]
def pinned_inv_U3 : List Gate := [G .U3 [] [0] [⟨[1], 0⟩, ⟨[0, 1], 0⟩, ⟨[0, 0, 1], 0⟩], G .U3 [] [0] [⟨[-1], 0⟩, ⟨[0, -1], 0⟩, ⟨[0, 0, -1], 0⟩]]
/-- negating all parameters does not invert U2 / U3 (the pinned tree's `inverse_gate`; replayed on the real code) -/
theorem inv_U2_pinned_defect : SMat.propTo (circMat 1 pinned_inv_U2) (SMat.identity 2) = false := by decide +kernel
theorem inv_U3_pinned_defect : SMat.propTo (circMat 1 pinned_inv_U3) (SMat.identity 2) = false := by decide +kernel

variable {M : Type} [PhaseMonoid M] {Γ : Type}

/-- composing a circuit with its library-computed inverse gives the identity up to phase,
    for every circuit all of whose gates are inverted correctly -/
theorem inverse_circuit_sound_partial (sem : Γ → M) (inv : Γ → Γ)
    (h : ∀ g, PhaseMonoid.equiv (PhaseMonoid.mul (sem (inv g)) (sem g)) PhaseMonoid.one) (c : List Γ) :
    PhaseMonoid.equiv (semList sem (c ++ inverseCircuit inv c)) PhaseMonoid.one :=
  inverse_circuit_sound' sem inv h c

/-- folding (any scale factor, any set of selected indices) keeps the action -/
theorem fold_sound_partial (sem : Γ → M) (inv : Γ → Γ) (k : Nat) (added : List Nat)
    (h : ∀ g, PhaseMonoid.equiv (PhaseMonoid.mul (sem g) (sem (inv g))) PhaseMonoid.one) (c : List Γ) :
    PhaseMonoid.equiv (semList sem (foldCircuit inv k added c)) (semList sem c) :=
  foldFrom_sound sem inv k added h c 0

/-- gate count of a folded circuit, for every selection of indices -/
theorem fold_length (inv : Γ → Γ) (k : Nat) (added : List Nat) (c : List Γ) :
    (foldCircuit inv k added c).length = c.length * (2 * k + 1) + 2 * countSel added 0 c.length :=
  foldFrom_length inv k added c 0

/-- left folding with scale factor p/q ≥ 1 on n gates: exactly `n(2k+1) + 2a` gates with
    `k = ⌊(s-1)/2⌋`, `a = ⌊(s-(2k+1))n/2⌋` -/
theorem fold_left_length (inv : Γ → Γ) (p q : Nat) (hq : 0 < q) (hp : q ≤ p) (c : List Γ) :
    (foldCircuit inv (numFoldAll p q) (foldingLeft p q c.length) c).length
      = c.length * (2 * numFoldAll p q + 1) + 2 * residual p q c.length := by
  rw [fold_length, foldingLeft, countSel_range]
  cases hn : c.length with
  | zero => simp [residual]
  | succ n =>
    have := residual_lt p q (n + 1) hq hp (by omega)
    simp; omega

/-- the residual count never exceeds the circuit: every selected index is a real gate -/
theorem residual_in_range (p q n : Nat) (hq : 0 < q) (hp : q ≤ p) (hn : 0 < n) : residual p q n < n :=
  residual_lt p q n hq hp hn

/-- which inverses the translator found in `inverse_gate`: dagger pairs, negated rotation
    angles, Pauli / controlled / swap gates self-inverse, UnitaryMatrix ↦ conjugate transpose -/
theorem unitary_matrix_inverse_is_dagger : QV.Gen.C12.invUnitaryOps = ["T", "conj"] :=
  QV.Gen.C12.invUnitary_is_dagger

theorem pauli_rotation_inverse_negates_angle : QV.Gen.C12.invShape_PauliRotation = "negated" :=
  QV.Gen.C12.invShape_PauliRotation_ok

/-- R_P(θ)·R_P(-θ) = 1 exactly, all Pauli-id vectors on ≤ 2 qubits (`_partial`: any length
    follows from P² = 1, proved for strings in C05's foundations) -/
def pauliRotInvCase (ids : List Nat) : Bool :=
  let n := ids.length
  SMat.eq (circMat n [G .PauliRotation [] (List.range n) [Angle.var 0] ids,
                      G .PauliRotation [] (List.range n) [(Angle.var 0).neg] ids]) (SMat.identity (2 ^ n))

theorem pauli_rotation_inverse_partial :
    ([[1], [2], [3], [1, 1], [1, 2], [1, 3], [2, 1], [2, 2], [2, 3], [3, 1], [3, 2], [3, 3]].all pauliRotInvCase) = true := by
  decide +kernel

/-! non-vacuity: concrete folded circuit over Nat "gates" with inv = id -/
example : foldCircuit (fun (g : Nat) => g + 100) 1 [0] [1, 2] = [1, 101, 1, 101, 1, 2, 102, 2] := by decide
example : residual 5 2 4 = 3 ∧ numFoldAll 5 2 = 0 := by decide

end QV.Props.C12
