import QuriVerif.Proof.C07
import QuriVerif.Found.Template
/-
  C07 — Pauli grouping and its measurement scheme are sound.
-/
namespace QV.Props.C07
open QV QV.C07

/-- meaning of the bit trick: `bsv_bitwise_commute` holds iff at every qubit the two
    single-qubit Paulis (x-bit, z-bit) commute -/
theorem bitwise_commute_is_qubitwise (a b : Bsv) :
    bitwiseCommute a b = true ↔
      ∀ i, (a.x.testBit i && b.z.testBit i) = (a.z.testBit i && b.x.testBit i) :=
  commute_iff_bits a b

/-- the one-mask test of `_add_pauli_to_groups` is exact in every reachable group:
    a label commutes with the accumulated mask iff it commutes qubit-wise with every member -/
theorem mask_test_exact (ps : List Label) :
    ∀ g ∈ sortedInjection ps, ∀ v, bitwiseCommute v g.mask = true ↔
      ∀ m ∈ g.members, bitwiseCommute v (bsv m) = true := by
  intro g hg
  exact (foldl_add_inv ps [] (by intro g hg; cases hg) g hg).mask_exact

/-- sorted-injection grouping: every input occurrence lands in exactly one group (for every input order) -/
theorem sorted_injection_partition (ps : List Label) : (allMembers (sortedInjection ps)).Perm ps := by
  simpa [sortedInjection, allMembers] using foldl_add_perm ps []

/-- … and the members of each group commute qubit-wise -/
theorem sorted_injection_qwc (ps : List Label) :
    ∀ g ∈ sortedInjection ps, ∀ m ∈ g.members, ∀ m' ∈ g.members,
      bitwiseCommute (bsv m) (bsv m') = true := by
  intro g hg
  exact (foldl_add_inv ps [] (by intro g hg; cases hg) g hg).pairwise

theorem individual_partition (ps : List Label) : (individualGrouping ps).flatten = ps := by
  induction ps with
  | nil => rfl
  | cons p ps ih => simp [individualGrouping] at ih ⊢; exact ih

/-! bitwise grouping: state invariant over the scan -/

def flat (s : BwState) : List Label :=
  allMembers s.groups ++ (s.identity ++ (s.allX ++ (s.allY ++ s.allZ)))

structure SInv (s : BwState) : Prop where
  groups : ∀ g ∈ s.groups, GInv g
  ident : ∀ p ∈ s.identity, bsv p = ⟨0, 0⟩
  xs : ∀ p ∈ s.allX, (bsv p).z = 0
  ys : ∀ p ∈ s.allY, (bsv p).x = (bsv p).z
  zs : ∀ p ∈ s.allZ, (bsv p).x = 0

theorem classify_identity (p : Label) (h : classify p = .identity) : bsv p = ⟨0, 0⟩ := by
  unfold classify at h
  by_cases he : p.isEmpty = true
  · have : p = [] := by simpa using he
    subst this; rfl
  · simp only [he] at h
    cases hx : p.any (·.2 == 1) <;> cases hy : p.any (·.2 == 2) <;> cases hz : p.any (·.2 == 3) <;>
      simp [hx, hy, hz] at h

theorem bwStep_inv (s : BwState) (p : Label) (h : SInv s) : SInv (bwStep s p) := by
  unfold bwStep
  cases hc : classify p with
  | identity =>
    refine ⟨h.groups, ?_, h.xs, h.ys, h.zs⟩
    intro q hq
    simp only [List.mem_append, List.mem_singleton] at hq
    rcases hq with hq | hq
    · exact h.ident q hq
    · subst hq; exact classify_identity q hc
  | allX =>
    refine ⟨h.groups, h.ident, ?_, h.ys, h.zs⟩
    intro q hq
    simp only [List.mem_append, List.mem_singleton] at hq
    rcases hq with hq | hq
    · exact h.xs q hq
    · subst hq; exact classify_allX q hc
  | allY =>
    refine ⟨h.groups, h.ident, h.xs, ?_, h.zs⟩
    intro q hq
    simp only [List.mem_append, List.mem_singleton] at hq
    rcases hq with hq | hq
    · exact h.ys q hq
    · subst hq; exact classify_allY q hc
  | allZ =>
    refine ⟨h.groups, h.ident, h.xs, h.ys, ?_⟩
    intro q hq
    simp only [List.mem_append, List.mem_singleton] at hq
    rcases hq with hq | hq
    · exact h.zs q hq
    · subst hq; exact classify_allZ q hc
  | mixed =>
    exact ⟨addToGroups_inv p s.groups h.groups, h.ident, h.xs, h.ys, h.zs⟩

theorem bwStep_perm (s : BwState) (p : Label) : (flat (bwStep s p)).Perm (flat s ++ [p]) := by
  unfold bwStep
  cases hc : classify p with
  | mixed =>
    simp only [flat]
    have := (addToGroups_perm p (bsv p) s.groups).append_right (s.identity ++ (s.allX ++ (s.allY ++ s.allZ)))
    refine this.trans ?_
    rw [List.perm_iff_count]
    intro a
    by_cases hpa : (p == a) = true <;> simp [List.count_append, List.count_cons, hpa] <;> omega
  | identity =>
    simp only [flat]; rw [List.perm_iff_count]; intro a
    by_cases hpa : (p == a) = true <;> simp [List.count_append, List.count_cons, hpa] <;> omega
  | allX =>
    simp only [flat]; rw [List.perm_iff_count]; intro a
    by_cases hpa : (p == a) = true <;> simp [List.count_append, List.count_cons, hpa] <;> omega
  | allY =>
    simp only [flat]; rw [List.perm_iff_count]; intro a
    by_cases hpa : (p == a) = true <;> simp [List.count_append, List.count_cons, hpa] <;> omega
  | allZ =>
    simp only [flat]; rw [List.perm_iff_count]; intro a
    by_cases hpa : (p == a) = true <;> simp [List.count_append, List.count_cons, hpa] <;> omega

theorem scan_inv (ps : List Label) : ∀ s, SInv s → SInv (ps.foldl bwStep s) := by
  induction ps with
  | nil => intro s h; exact h
  | cons p ps ih => intro s h; exact ih _ (bwStep_inv s p h)

theorem scan_perm (ps : List Label) : ∀ s, (flat (ps.foldl bwStep s)).Perm (flat s ++ ps) := by
  induction ps with
  | nil => intro s; simp
  | cons p ps ih =>
    intro s
    simp only [List.foldl_cons]
    refine (ih _).trans ?_
    have := (bwStep_perm s p).append_right ps
    simpa [List.append_assoc] using this

theorem optGroup_flatten (l : List Label) : (if l.isEmpty then [] else [l]).flatten = l := by
  cases l <;> simp

/-- bitwise grouping: the groups, concatenated, are a permutation of the input — every input
    occurrence (identity included, in its own group) is in exactly one group, for every order -/
theorem bitwise_grouping_partition (ps : List Label) : (bitwiseGrouping ps).flatten.Perm ps := by
  have h := scan_perm ps {}
  simp only [flat, allMembers] at h
  have e : (bitwiseGrouping ps).flatten = flat (ps.foldl bwStep {}) := by
    simp only [bitwiseGrouping, flat, allMembers, List.flatten_append, optGroup_flatten, List.flatMap_def,
      List.append_assoc]
  rw [e]
  simpa [flat, allMembers] using h

/-- … and the members of every returned group commute qubit-wise -/
theorem bitwise_grouping_qwc (ps : List Label) :
    ∀ grp ∈ bitwiseGrouping ps, ∀ m ∈ grp, ∀ m' ∈ grp, bitwiseCommute (bsv m) (bsv m') = true := by
  have hinv := scan_inv ps {} ⟨(by intro g hg; cases hg), (by intro p hp; cases hp), (by intro p hp; cases hp),
    (by intro p hp; cases hp), (by intro p hp; cases hp)⟩
  intro grp hgrp m hm m' hm'
  simp only [bitwiseGrouping, List.mem_append, List.mem_map] at hgrp
  rcases hgrp with (((hg | hg) | hg) | hg) | hg
  · obtain ⟨g, hg, rfl⟩ := hg
    exact (hinv.groups g hg).pairwise m hm m' hm'
  · split at hg
    · cases hg
    · simp at hg; subst hg
      rw [hinv.ident m hm, hinv.ident m' hm']; rfl
  · split at hg
    · cases hg
    · simp at hg; subst hg
      exact commute_of_z0 _ _ (hinv.xs m hm) (hinv.xs m' hm')
  · split at hg
    · cases hg
    · simp at hg; subst hg
      exact commute_of_xz _ _ (hinv.ys m hm) (hinv.ys m' hm')
  · split at hg
    · cases hg
    · simp at hg; subst hg
      exact commute_of_x0 _ _ (hinv.zs m hm) (hinv.zs m' hm')

/-! measurement circuit: per-qubit facts, exact matrices (kernel).
    V = H maps X to Z;  V = H·Sdag (Sdag first) maps Y to Z;  no gate for Z. -/

def conjIsZ (gates : List Gate) (pauli : Nat) : Bool :=
  -- V·P = Z·V
  SMat.eq (circMat 1 (G .Pauli [] [0] [] [pauli] :: gates)) (circMat 1 (gates ++ [G .Z [] [0] []]))

theorem meas_local_X : conjIsZ [G .H [] [0] []] 1 = true := by decide +kernel
theorem meas_local_Y : conjIsZ [G .Sdag [] [0] [], G .H [] [0] []] 2 = true := by decide +kernel
theorem meas_local_Z : conjIsZ [] 3 = true := by decide +kernel

/-- the circuit generator emits exactly those local circuits (and rejects conflicting sets) -/
example : measCircuit [[(0, 1), (1, 2)], [(0, 1), (2, 3)]] = .ok [.H 0, .Sdag 1, .H 1] := by decide
example : measCircuit [[(0, 1)], [(0, 2)]] = .valueError := by decide
example : measCircuit [] = .valueError := by decide

/-! non-vacuity -/
example : bitwiseGrouping [[(0, 1), (1, 2)], [(0, 1), (2, 3)], [(0, 2), (2, 3)], [], [(5, 1)]] =
    [[[(0, 1), (1, 2)], [(0, 1), (2, 3)]], [[(0, 2), (2, 3)]], [[]], [[(5, 1)]]] := by decide

end QV.Props.C07
