import QuriVerif.Proof.ChannelSound
import QuriVerif.Props.C05Lift
import QuriVerif.Props.C09Lift
/-
  C04 lift: all exact routes compute the same number `⟨Uv|O|Uv⟩`, as a theorem about the shared semantics
  (gate lists `hop φ gs` = `opC` with its `1/√2` powers, operators `DenC φ op`, both over ℂ).

    * §1  the three routes for ANY matrices `U`, `O` and ANY vector `ψ` on the `2^n` block – nothing is normalised,
          nothing is divided: vector route `expv n O (U·ψ)`, density-matrix route `tr(O · U|ψ⟩⟨ψ|U†)` (`trO`, with
          `chan n [U]` of Proof/ChannelSound as the evolution), sparse-matrix route
          `Σ_{r,j} conj((Uψ)_r)·O_{rj}·(Uψ)_j` (`routes_agree`); the instance for gate lists and operators
          (`estimators_agree`), and a circuit given in pieces (`estimators_agree_append`);
    * §2  linearity in the operator: whole-operator evaluation = sum of per-term evaluations (`expv_terms`), and
          `a + b`, `k·a` (`expv_add`, `expv_smul`);
    * §3  the empty noise model: the Kraus family `[1]` is the identity map on the block (`chan_one`), a
          density-matrix run whose noise steps are all `[1]` is the noise-free run (`dmRun_noiseless`), and the
          noise-free run of `|ψ⟩⟨ψ|` is `|Uψ⟩⟨Uψ|` gate block by gate block (`dmRun_pure`), so its expectation is the
          vector route (`noiseless_expectation`).
-/
namespace QV.Props.C04Lift
open QV QV.MatSound QV.Props.Reflect QV.Props.C05Lift
open scoped BigOperators

/-! ### §1  the three routes -/

/-- `tr(O·σ)` on the block -/
noncomputable def trO (n : ℕ) (O σ : ℕ → ℕ → ℂ) : ℂ := trN n (mulM n O σ)

theorem trO_proj (n : ℕ) (O : ℕ → ℕ → ℂ) (χ : ℕ → ℂ) : trO n O (proj χ) = expv n O χ := by
  unfold trO trN mulM expv proj
  apply Finset.sum_congr rfl
  intro r _
  apply Finset.sum_congr rfl
  intro j _
  ring

/-- unitary evolution of a pure state, as a density matrix (no hypothesis on `U`) -/
theorem chan_single_proj (n : ℕ) (U : ℕ → ℕ → ℂ) (ψ : ℕ → ℂ) :
    chan n [U] (proj ψ) = proj (mv n U ψ) := by
  funext r j
  rw [chan_proj]
  simp

/-- **the three exact routes agree**, for all matrices and all (un-normalised) vectors -/
theorem routes_agree (n : ℕ) (U O : ℕ → ℕ → ℂ) (ψ : ℕ → ℂ) :
    trO n O (chan n [U] (proj ψ)) = expv n O (mv n U ψ) ∧
    (∑ r ∈ Finset.range (2 ^ n), ∑ j ∈ Finset.range (2 ^ n),
      star (mv n U ψ r) * O r j * mv n U ψ j) = expv n O (mv n U ψ) :=
  ⟨by rw [chan_single_proj, trO_proj], rfl⟩

/-- the instance of C04: gate list `gs`, operator `op`, initial vector `v` -/
theorem estimators_agree (φ : ℕ → ℝ) (n : ℕ) (gs : List Gate) (op : C05.Op) (v : ℕ → ℂ) :
    trO n (DenC φ op) (chan n [hop φ gs] (proj v)) = expv n (DenC φ op) (mv n (hop φ gs) v) ∧
    (∑ r ∈ Finset.range (2 ^ n), ∑ j ∈ Finset.range (2 ^ n),
      star (mv n (hop φ gs) v r) * DenC φ op r j * mv n (hop φ gs) v j)
        = expv n (DenC φ op) (mv n (hop φ gs) v) :=
  routes_agree n (hop φ gs) (DenC φ op) v

theorem expv_congr (n : ℕ) (O : ℕ → ℕ → ℂ) (a b : ℕ → ℂ) (h : ∀ x, x < 2 ^ n → a x = b x) :
    expv n O a = expv n O b := by
  rw [expv_eq_sesq, expv_eq_sesq]
  exact sesq_congr n O a b a b h h

/-- a circuit given as a state-preparation part followed by a further part: applying the parts one after the
    other is applying the whole circuit -/
theorem estimators_agree_append (φ : ℕ → ℝ) (n : ℕ) (a b : List Gate) (wb : WellFormed n b) (op : C05.Op)
    (v : ℕ → ℂ) :
    expv n (DenC φ op) (mv n (hop φ b) (mv n (hop φ a) v)) = expv n (DenC φ op) (mv n (hop φ (a ++ b)) v) :=
  expv_congr n _ _ _ (fun x hx => (QV.Props.C09Lift.mv_hop_append φ n a b wb v x hx).symm)

/-! ### §2  linearity in the operator -/

/-- whole-operator evaluation is the coefficient-weighted sum of the per-term evaluations (any term list) -/
theorem expv_terms (φ : ℕ → ℝ) (n : ℕ) (op : C05.Op) (χ : ℕ → ℂ) :
    expv n (DenC φ op) χ = (op.map fun e => toC e.2 * expv n (denC φ e.1) χ).sum := by
  rw [expv_eq_sesq]
  exact sesq_list_sum n op (fun e => denC φ e.1) (fun e => toC e.2) χ

theorem expv_block (n : ℕ) (O O' : ℕ → ℕ → ℂ) (χ : ℕ → ℂ)
    (h : ∀ r, r < 2 ^ n → ∀ j, j < 2 ^ n → O r j = O' r j) : expv n O χ = expv n O' χ := by
  unfold expv
  apply Finset.sum_congr rfl
  intro r hr
  apply Finset.sum_congr rfl
  intro j hj
  rw [h r (Finset.mem_range.mp hr) j (Finset.mem_range.mp hj)]

/-- the operator sum `a + b` of the operator algebra -/
theorem expv_add (φ : ℕ → ℝ) (n : ℕ) (a b : C05.Op) (ha : OpOn n a) (hb : OpOn n b) (χ : ℕ → ℂ) :
    expv n (DenC φ (C05.add a b)) χ = expv n (DenC φ a) χ + expv n (DenC φ b) χ := by
  rw [expv_block n _ (fun r j => 1 * DenC φ a r j + 1 * DenC φ b r j) χ (fun r hr j hj => by
    rw [DenC_add φ n a b ha hb r j hr hj]; ring)]
  have := sesq_lin_op n (DenC φ a) (DenC φ b) 1 1 χ χ
  simp only [one_mul] at this ⊢
  exact this

/-- scalar multiples -/
theorem expv_smul (φ : ℕ → ℝ) (n : ℕ) (k : C05.K) (a : C05.Op) (ha : OpOn n a) (χ : ℕ → ℂ) :
    expv n (DenC φ (C05.smul k a)) χ = toC k * expv n (DenC φ a) χ := by
  rw [expv_block n _ (fun r j => toC k * DenC φ a r j + 0 * DenC φ a r j) χ (fun r hr j hj => by
    rw [DenC_smul φ n k a ha r j hr hj]; ring)]
  have := sesq_lin_op n (DenC φ a) (DenC φ a) (toC k) 0 χ χ
  rw [zero_mul, add_zero] at this
  exact this

/-! ### §3  the empty noise model -/

theorem chan_block (n : ℕ) (Es : List (ℕ → ℕ → ℂ)) (σ τ : ℕ → ℕ → ℂ)
    (h : ∀ a, a < 2 ^ n → ∀ b, b < 2 ^ n → σ a b = τ a b) (r j : ℕ) : chan n Es σ r j = chan n Es τ r j := by
  unfold chan
  congr 1
  apply List.map_congr_left
  intro E _
  apply Finset.sum_congr rfl
  intro a ha
  apply Finset.sum_congr rfl
  intro b hb
  rw [h a (Finset.mem_range.mp ha) b (Finset.mem_range.mp hb)]

/-- the Kraus family `[1]` is the identity map on the block -/
theorem chan_one (n : ℕ) (σ : ℕ → ℕ → ℂ) (r j : ℕ) (hr : r < 2 ^ n) (hj : j < 2 ^ n) :
    chan n [idMat] σ r j = σ r j := by
  unfold chan
  simp only [List.map_cons, List.map_nil, List.sum_cons, List.sum_nil, add_zero, idMat]
  rw [Finset.sum_eq_single r]
  · rw [Finset.sum_eq_single j]
    · simp
    · intro b _ hb
      simp [Ne.symm hb]
    · intro h; exact absurd (Finset.mem_range.mpr hj) h
  · intro a _ ha
    apply Finset.sum_eq_zero
    intro b _
    simp [Ne.symm ha]
  · intro h; exact absurd (Finset.mem_range.mpr hr) h

/-- a density-matrix run: after each gate block the Kraus family of the step is applied -/
noncomputable def dmRun (φ : ℕ → ℝ) (n : ℕ) (steps : List (List Gate × List (ℕ → ℕ → ℂ)))
    (σ : ℕ → ℕ → ℂ) : ℕ → ℕ → ℂ :=
  steps.foldl (fun τ s => chan n s.2 (chan n [hop φ s.1] τ)) σ

/-- the vector run of the same gate blocks -/
noncomputable def vecRun (φ : ℕ → ℝ) (n : ℕ) (blocks : List (List Gate)) (ψ : ℕ → ℂ) : ℕ → ℂ :=
  blocks.foldl (fun χ gs => mv n (hop φ gs) χ) ψ

/-- the noise-free density-matrix run -/
noncomputable def uRun (φ : ℕ → ℝ) (n : ℕ) (blocks : List (List Gate)) (σ : ℕ → ℕ → ℂ) : ℕ → ℕ → ℂ :=
  blocks.foldl (fun τ gs => chan n [hop φ gs] τ) σ

/-- **empty noise model = unitary evolution**: when every noise step is the single Kraus operator `1`, the run is
    the noise-free run (on the block) -/
theorem dmRun_noiseless (φ : ℕ → ℝ) (n : ℕ) (σ : ℕ → ℕ → ℂ) :
    ∀ (steps : List (List Gate × List (ℕ → ℕ → ℂ))), (∀ s ∈ steps, s.2 = [idMat]) →
    ∀ r, r < 2 ^ n → ∀ j, j < 2 ^ n → dmRun φ n steps σ r j = uRun φ n (steps.map (·.1)) σ r j := by
  intro steps
  induction steps using List.reverseRec with
  | nil => intro _ r _ j _; rfl
  | append_singleton steps s ih =>
    intro h r hr j hj
    have hs : s.2 = [idMat] := h s (by simp)
    have ih' := ih (fun x hx => h x (by simp [hx]))
    unfold dmRun uRun
    rw [List.foldl_append, List.map_append, List.foldl_append]
    show chan n s.2 (chan n [hop φ s.1] (dmRun φ n steps σ)) r j
      = chan n [hop φ s.1] (uRun φ n (steps.map (·.1)) σ) r j
    rw [hs, chan_one n _ r j hr hj]
    exact chan_block n _ _ _ ih' r j

/-- the noise-free run of a pure state is the pure state of the vector run (no hypothesis) -/
theorem dmRun_pure (φ : ℕ → ℝ) (n : ℕ) : ∀ (blocks : List (List Gate)) (ψ : ℕ → ℂ),
    uRun φ n blocks (proj ψ) = proj (vecRun φ n blocks ψ) := by
  intro blocks
  induction blocks with
  | nil => intro ψ; rfl
  | cons gs blocks ih =>
    intro ψ
    show uRun φ n blocks (chan n [hop φ gs] (proj ψ)) = proj (vecRun φ n blocks (mv n (hop φ gs) ψ))
    rw [chan_single_proj, ih]

theorem trO_block (n : ℕ) (O σ τ : ℕ → ℕ → ℂ) (h : ∀ a, a < 2 ^ n → ∀ b, b < 2 ^ n → σ a b = τ a b) :
    trO n O σ = trO n O τ := by
  unfold trO trN mulM
  apply Finset.sum_congr rfl
  intro x hx
  apply Finset.sum_congr rfl
  intro y hy
  rw [h y (Finset.mem_range.mp hy) x (Finset.mem_range.mp hx)]

/-- the density-matrix estimator with an empty noise model returns the vector-route value -/
theorem noiseless_expectation (φ : ℕ → ℝ) (n : ℕ) (steps : List (List Gate × List (ℕ → ℕ → ℂ)))
    (h : ∀ s ∈ steps, s.2 = [idMat]) (O : ℕ → ℕ → ℂ) (ψ : ℕ → ℂ) :
    trO n O (dmRun φ n steps (proj ψ)) = expv n O (vecRun φ n (steps.map (·.1)) ψ) := by
  rw [trO_block n O _ _ (dmRun_noiseless φ n (proj ψ) steps h), dmRun_pure, trO_proj]

/-- the vector run of gate blocks is the whole circuit applied at once (on the block) -/
theorem vecRun_flatten (φ : ℕ → ℝ) (n : ℕ) (ψ : ℕ → ℂ) : ∀ (blocks : List (List Gate)),
    (∀ gs ∈ blocks, WellFormed n gs) →
    ∀ x, x < 2 ^ n → vecRun φ n blocks ψ x = mv n (hop φ blocks.flatten) ψ x := by
  intro blocks
  induction blocks using List.reverseRec with
  | nil =>
    intro _ x hx
    show ψ x = mv n (hop φ []) ψ x
    unfold mv
    rw [Finset.sum_eq_single x]
    · rw [hop_nil]; simp [idMat]
    · intro j _ hj
      rw [hop_nil]; simp [idMat, Ne.symm hj]
    · intro h; exact absurd (Finset.mem_range.mpr hx) h
  | append_singleton blocks gs ih =>
    intro h x hx
    have ih' := ih (fun g hg => h g (by simp [hg]))
    unfold vecRun
    rw [List.foldl_append, List.flatten_append]
    show mv n (hop φ gs) (vecRun φ n blocks ψ) x = mv n (hop φ (blocks.flatten ++ [gs].flatten)) ψ x
    rw [show [gs].flatten = gs by simp,
      QV.Props.C09Lift.mv_hop_append φ n blocks.flatten gs (h gs (by simp)) ψ x hx]
    exact mv_congr n _ _ _ ih' x

/-- **C04**: with an empty noise model, the density-matrix route over the gate blocks returns `⟨Uv|O|Uv⟩` for
    `U` = the whole circuit, `O` = the operator's matrix -/
theorem noiseless_estimator (φ : ℕ → ℝ) (n : ℕ) (steps : List (List Gate × List (ℕ → ℕ → ℂ)))
    (h : ∀ s ∈ steps, s.2 = [idMat]) (wf : ∀ s ∈ steps, WellFormed n s.1) (op : C05.Op) (v : ℕ → ℂ) :
    trO n (DenC φ op) (dmRun φ n steps (proj v))
      = expv n (DenC φ op) (mv n (hop φ (steps.map (·.1)).flatten) v) := by
  rw [noiseless_expectation φ n steps h]
  apply expv_congr
  apply vecRun_flatten φ n v
  intro gs hgs
  obtain ⟨s, hs, rfl⟩ := List.mem_map.mp hgs
  exact wf s hs

/-! ### non-vacuity -/

/-- Bell-pair circuit in two blocks with identity noise after each, operator `2·X₀ + (1+i)·Z₀Z₁ + 3`, any (also
    un-normalised) start vector, any angle assignment -/
example (φ : ℕ → ℝ) (v : ℕ → ℂ) :
    trO 2 (DenC φ a3) (dmRun φ 2 [([G .H [] [0] []], [idMat]), ([G .CNOT [0] [1] []], [idMat])] (proj v))
      = expv 2 (DenC φ a3) (mv 2 (hop φ [G .H [] [0] [], G .CNOT [0] [1] []]) v) :=
  noiseless_estimator φ 2 _ (by simp) (by
    intro s hs
    simp only [List.mem_cons, List.mem_nil_iff, or_false] at hs
    rcases hs with rfl | rfl <;> intro g hg <;> rw [List.mem_singleton.mp hg] <;> decide) a3 v

/-- per-term evaluation of the same operator -/
example (φ : ℕ → ℝ) (χ : ℕ → ℂ) :
    expv 2 (DenC φ a3) χ
      = toC ⟨2, 0⟩ * expv 2 (denC φ [(0, .X)]) χ + (toC ⟨1, 1⟩ * expv 2 (denC φ [(0, .Z), (1, .Z)]) χ
        + (toC ⟨3, 0⟩ * expv 2 (denC φ []) χ + 0)) :=
  expv_terms φ 2 a3 χ

example (φ : ℕ → ℝ) (χ : ℕ → ℂ) :
    expv 2 (DenC φ (C05.add a3 [([(1, .Y)], ⟨0, 1⟩)])) χ
      = expv 2 (DenC φ a3) χ + expv 2 (DenC φ [([(1, .Y)], ⟨0, 1⟩)]) χ :=
  expv_add φ 2 _ _ (by decide) (by decide) χ

end QV.Props.C04Lift
