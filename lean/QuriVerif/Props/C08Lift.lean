import QuriVerif.Proof.BornSound
import QuriVerif.Model.C08
/-
  C08 over complex operators: the "exact under ideal sampling" clause, for every register size.

  Objects (`Proof/BornSound`): `hop φ V` = the honest operator of a gate list (`opC` divided by `√2^semK`),
  `ampl φ n V ψ x = (Vψ)_x`, `prob φ n V ψ x = |(Vψ)_x|²`, `expv n A ψ = ⟨ψ|A|ψ⟩` and `nrm n ψ = ⟨ψ|ψ⟩` on the
  `2^n` block, `pauliMat φ P = opC φ (labelGates P)` (the X/Y/Z gates of the label), `sgn P x = ±1` the sign
  of `Model/C07.reconstructor`.  `ψ : ℕ → ℂ` is arbitrary (not normalised; only its block entries are used).

    (1) unitarity of measurement circuits – `unitarity_complex`: for every list `V` of canonical one-wire gates
        of the kinds H, S, Sdag, X, Y, Z on wires `< n` (`Cliff1`; the model's circuits consist of H and Sdag):
        `star (hop V r j) = hop V† j r`, `hop (V ; V†) = 1`, `Σ_x star (hop V x r)·hop V x k = δ_{rk}`;
        certificates: six 2×2 templates `g ; g† = Identity` (`BornSound.pairT_ok`, one kernel evaluation)
        and the entrywise adjoints of the six local matrices (`loc_adj`, by cases);
    (2) Born rule – `born_rule_complex`: `⟨ψ|P|ψ⟩ = Σ_x sgn_P(x)·prob(x)` for every member `P` of a set the
        model accepts (hypotheses of `C07Lift.meas_conj_complex`); `norm_complex`: `⟨ψ|ψ⟩ = Σ_x prob(x)`;
    (3) linear extension – `group_complex`: `Σ_P c_P⟨ψ|P|ψ⟩ = Σ_x prob(x)·Σ_P c_P·sgn_P(x)`;
        the model: `pauliExp_born` (`general_pauli_expectation_estimator`), `sumTerms_born`
        (`general_pauli_sum_expectation_estimator`, `Model/C08.sumTerms`/`pauliSumExp`) – on counts with exact
        frequencies (`CountsExact`: `count_x = κ·prob(x)` as real numbers, `κ` arbitrary, e.g. shots; counts
        are the model's rationals, compared after the cast ℚ → ℝ) the model's value `t` satisfies
        `toCC t · ⟨ψ|ψ⟩ = Σ_{P ∈ group ∩ op} c_P·⟨ψ|P|ψ⟩` (coefficients: Gaussian rationals ↦ ℂ by `toCC`);
    (4) whole operator – `accumulate_born` (`_Estimate.value`, `Model/C08.accumulate`) and
        `estimate_is_expectation`: identity term + all group estimates `= ⟨ψ| Σ c_P P |ψ⟩ = expv (DenQ op) ψ`,
        with the PARTITION AS HYPOTHESIS (`Partitions`: the operator is a dict, the group members occurring in
        the operator are a permutation of its non-identity labels).  The partition theorems of `Props/C07`
        (`bitwise_grouping_partition`, `sorted_injection_partition`) are statements about LABEL lists; the
        numbering of labels used by `Model/C08` (`lbl`) and the filtering of identity groups is the harness's
        bookkeeping and is not connected here.
  What `isIdeal` of `Props/C08.ideal_exact_fixed` means: `pauliExp … = .ok (exact p)` on `CountsExact` counts
  forces `exact p · ⟨ψ|ψ⟩ = ⟨ψ|P_p|ψ⟩` (`pauliExp_born`).
  Not covered: the pairing of groups with delivered counts (`PairMode`, finding F2 – `accumulate_born` is about
  the pairs actually zipped), shot allocation, finite-shot statistics, circuits other than the model's.
  `Proof/CtrlSound` / `Props/C19Lift` (`uopC`) cannot be imported next to `Proof/MeasSound` (both chains declare
  `QV.MatSound.evalMat_ofFn`); `hop` is the same operator as `uopC`.
-/
namespace QV.Props.C08Lift
open QV QV.MatSound QV.Props.Reflect
open scoped BigOperators

/-- Gaussian rationals of `Model/C08` in ℂ -/
noncomputable def toCC (c : C08.C) : ℂ := ((c.re : ℚ) : ℂ) + ((c.im : ℚ) : ℂ) * Complex.I

theorem toCC_zero : toCC 0 = 0 := by
  show toCC ⟨0, 0⟩ = 0
  simp [toCC]

theorem toCC_add (a b : C08.C) : toCC (a + b) = toCC a + toCC b := by
  show toCC ⟨a.re + b.re, a.im + b.im⟩ = _
  simp only [toCC]; push_cast; ring

theorem toCC_smul (r : ℚ) (c : C08.C) : toCC (C08.C.smul r c) = ((r : ℝ) : ℂ) * toCC c := by
  simp only [toCC, C08.C.smul]; push_cast; ring

/-! ### counts with exact frequencies -/

/-- the count dict has the exact outcome frequencies `p` up to the common factor `κ` (shots):
    distinct keys `< N`, `count_x = κ·p_x`, outcomes that are absent have `p_x = 0` -/
structure CountsExact (counts : C08.Counts) (κ : ℝ) (p : ℕ → ℝ) (N : ℕ) : Prop where
  nodup : (counts.map (·.1)).Nodup
  lt : ∀ e ∈ counts, e.1 < N
  val : ∀ e ∈ counts, ((e.2 : ℚ) : ℝ) = κ * p e.1
  absent : ∀ x, x < N → x ∉ counts.map (·.1) → p x = 0

theorem countTotal_cast (counts : C08.Counts) :
    ((C08.countTotal counts : ℚ) : ℝ) = (counts.map fun e => ((e.2 : ℚ) : ℝ)).sum := by
  induction counts with
  | nil => simp [C08.countTotal]
  | cons e r ih => obtain ⟨k, c⟩ := e; simp only [C08.countTotal, List.map_cons, List.sum_cons]; push_cast; rw [ih]

theorem weightedSum_cast (rec : ℕ → ℤ) (counts : C08.Counts) :
    ((C08.weightedSum rec counts : ℚ) : ℝ)
      = (counts.map fun e => ((rec e.1 : ℤ) : ℝ) * ((e.2 : ℚ) : ℝ)).sum := by
  induction counts with
  | nil => simp [C08.weightedSum]
  | cons e r ih =>
    obtain ⟨k, c⟩ := e
    simp only [C08.weightedSum, List.map_cons, List.sum_cons]; push_cast; rw [ih]

/-- sums over the count dict are sums over all outcomes -/
theorem counts_sum {counts : C08.Counts} {κ : ℝ} {p : ℕ → ℝ} {N : ℕ} (h : CountsExact counts κ p N)
    (f : ℕ → ℝ) :
    (counts.map fun e => f e.1 * ((e.2 : ℚ) : ℝ)).sum = κ * ∑ x ∈ Finset.range N, f x * p x := by
  have e1 : (counts.map fun e => f e.1 * ((e.2 : ℚ) : ℝ)).sum
      = ((counts.map (·.1)).map fun x => f x * (κ * p x)).sum := by
    rw [List.map_map]
    congr 1
    apply List.map_congr_left
    intro e he
    simp only [Function.comp, h.val e he]
  rw [e1, ← List.sum_toFinset _ h.nodup, Finset.mul_sum]
  rw [Finset.sum_subset (s₁ := (counts.map (·.1)).toFinset) (s₂ := Finset.range N)]
  · apply Finset.sum_congr rfl
    intro x _
    ring
  · intro x hx
    obtain ⟨e, he, rfl⟩ := List.mem_map.mp (List.mem_toFinset.mp hx)
    exact Finset.mem_range.mpr (h.lt e he)
  · intro x hx hnx
    rw [h.absent x (Finset.mem_range.mp hx) (fun hm => hnx (List.mem_toFinset.mpr hm))]
    ring

/-! ### one Pauli: `general_pauli_expectation_estimator` on exact frequencies -/

/-- the reconstructor of `Model/C07` as the `±1` function `Model/C08.pauliExp` expects -/
def recOf (P : C06.Label) (x : ℕ) : ℤ := if C07.reconstructor P x then -1 else 1

theorem recOf_sgn (P : C06.Label) (x : ℕ) : (((recOf P x : ℤ) : ℝ) : ℂ) = sgn P x := by
  unfold recOf sgn; split <;> simp

/-- `⟨ψ|ψ⟩` on the block -/
noncomputable def nrm (n : ℕ) (ψ : ℕ → ℂ) : ℂ := ∑ r ∈ Finset.range (2 ^ n), star (ψ r) * ψ r

/-- the hypotheses on a measured group: the model accepts the set, all labels live on `n` qubits -/
structure GroupOK (n : ℕ) (set : List C07.Label) (gates : List C07.MGate) : Prop where
  circ : C07.measCircuit set = .ok gates
  sup : ∀ L ∈ set, Sup n L

theorem GroupOK.cliff {n : ℕ} {set : List C07.Label} {gates : List C07.MGate} (h : GroupOK n set gates)
    (hne : set ≠ []) : ∀ g ∈ gates.map MGate.toGate, Cliff1 n g := by
  cases set with
  | nil => exact absurd rfl hne
  | cons P _ =>
    -- well-formedness of the circuit does not depend on the member
    have := (measCircuit_inv _ gates h.circ)
    obtain ⟨m, hb, hg⟩ := this
    obtain ⟨hv, hin, hfrom⟩ := buildMap_inv _ m hb
    have hs : Sup n m := by
      intro x hx
      obtain ⟨L, hL, hxL⟩ := hfrom x hx
      exact h.sup L hL x hxL
    exact cliff_meas n gates (hg ▸ wf_measGates n m hs)

/-- **`pauliExp` on exact frequencies is the exact expectation value**: if the count dict returned for the
    group's circuit has the Born frequencies of `V|ψ⟩` (any common factor `κ`, e.g. the number of shots), the
    model's estimate `e` of a member `P` satisfies `e·⟨ψ|ψ⟩ = ⟨ψ|P|ψ⟩` -/
theorem pauliExp_born (φ : ℕ → ℝ) (n : ℕ) (set : List C07.Label) (gates : List C07.MGate)
    (hg : GroupOK n set gates) (P : C06.Label) (hP : P ∈ set) (hok : LabelOK n P) (ψ : ℕ → ℂ)
    (counts : C08.Counts) (κ : ℝ)
    (hc : CountsExact counts κ (prob φ n (gates.map MGate.toGate) ψ) (2 ^ n)) (e : ℚ)
    (he : C08.pauliExp (recOf P) false counts = .ok e) :
    (((e : ℚ) : ℝ) : ℂ) * nrm n ψ = expv n (pauliMat φ P) ψ := by
  have hcl := hg.cliff (List.ne_nil_of_mem hP)
  unfold C08.pauliExp at he
  split at he
  · cases he
  · simp only [Bool.false_eq_true, if_false] at he
    split at he
    · cases he
    · rename_i hne0
      simp only [C08.R.ok.injEq] at he
      -- real-level identity
      set S : ℝ := ∑ x ∈ Finset.range (2 ^ n), prob φ n (gates.map MGate.toGate) ψ x with hS
      set W : ℝ := ∑ x ∈ Finset.range (2 ^ n),
        ((recOf P x : ℤ) : ℝ) * prob φ n (gates.map MGate.toGate) ψ x with hW
      have hT : ((C08.countTotal counts : ℚ) : ℝ) = κ * S := by
        rw [countTotal_cast]
        have := counts_sum hc (fun _ => 1)
        simpa using this
      have hWs : ((C08.weightedSum (recOf P) counts : ℚ) : ℝ) = κ * W := by
        rw [weightedSum_cast]
        exact counts_sum hc (fun x => ((recOf P x : ℤ) : ℝ))
      have hT0 : κ * S ≠ 0 := by
        rw [← hT]
        exact_mod_cast hne0
      have hκ : κ ≠ 0 := fun h => hT0 (by rw [h, zero_mul])
      have hS0 : S ≠ 0 := fun h => hT0 (by rw [h, mul_zero])
      have hreal : ((e : ℚ) : ℝ) * S = W := by
        rw [← he]
        push_cast
        rw [hWs, hT, mul_div_mul_left _ _ hκ, div_mul_cancel₀ _ hS0]
      -- to ℂ
      have hn : nrm n ψ = ((S : ℝ) : ℂ) := by
        unfold nrm
        rw [born_norm φ n _ hcl ψ, hS, Complex.ofReal_sum]
      have hx : expv n (pauliMat φ P) ψ = ((W : ℝ) : ℂ) := by
        rw [born_pauli φ n set gates hg.circ hg.sup P hP hok ψ, hW, Complex.ofReal_sum]
        apply Finset.sum_congr rfl
        intro x _
        rw [Complex.ofReal_mul, recOf_sgn]
      rw [hn, hx, ← Complex.ofReal_mul, hreal]

/-- the identity label: `⟨ψ|1|ψ⟩ = ⟨ψ|ψ⟩` (the model returns `1` for it without looking at the counts) -/
theorem expv_identity (φ : ℕ → ℝ) (n : ℕ) (ψ : ℕ → ℂ) : expv n (pauliMat φ []) ψ = nrm n ψ := by
  unfold expv nrm
  apply Finset.sum_congr rfl
  intro r hr
  have : ∀ j, pauliMat φ [] r j = if r = j then 1 else 0 := fun j => rfl
  simp only [this, mul_ite, mul_one, mul_zero, ite_mul, zero_mul]
  rw [Finset.sum_ite_eq (Finset.range (2 ^ n)) r, if_pos hr]

/-! ### one group: `general_pauli_sum_expectation_estimator` -/

/-- the exact value a group contributes: `Σ_{p ∈ ps, p ∈ op} c_p·⟨ψ|P_p|ψ⟩` -/
noncomputable def groupExact (φ : ℕ → ℝ) (n : ℕ) (lbl : ℕ → C06.Label) (op : C08.Op) (ψ : ℕ → ℂ)
    (ps : List ℕ) : ℂ :=
  (ps.filterMap fun p => (op.lookup p).map fun c => toCC c * expv n (pauliMat φ (lbl p)) ψ).sum

theorem groupExact_cons (φ : ℕ → ℝ) (n : ℕ) (lbl : ℕ → C06.Label) (op : C08.Op) (ψ : ℕ → ℂ) (p : ℕ)
    (ps : List ℕ) :
    groupExact φ n lbl op ψ (p :: ps)
      = (match op.lookup p with
          | none => 0
          | some c => toCC c * expv n (pauliMat φ (lbl p)) ψ) + groupExact φ n lbl op ψ ps := by
  unfold groupExact
  rw [List.filterMap_cons]
  cases op.lookup p with
  | none => simp
  | some c => simp

/-- what is required of the numbering of the Pauli labels and of the group's reconstructor -/
structure NumberingOK (n : ℕ) (lbl : ℕ → C06.Label) (set : List C07.Label) (rec : ℕ → ℕ → ℤ)
    (op : C08.Op) (ps : List ℕ) : Prop where
  id0 : lbl 0 = []
  mem : ∀ p ∈ ps, (op.lookup p).isSome → p ≠ 0 → lbl p ∈ set ∧ LabelOK n (lbl p)
  recon : ∀ p ∈ ps, p ≠ 0 → rec p = recOf (lbl p)

/-- **the model's group estimate on exact frequencies is the exact weighted expectation** -/
theorem sumTerms_born (φ : ℕ → ℝ) (n : ℕ) (set : List C07.Label) (gates : List C07.MGate)
    (hg : GroupOK n set gates) (lbl : ℕ → C06.Label) (rec : ℕ → ℕ → ℤ) (op : C08.Op) (ψ : ℕ → ℂ)
    (counts : C08.Counts) (κ : ℝ)
    (hc : CountsExact counts κ (prob φ n (gates.map MGate.toGate) ψ) (2 ^ n)) :
    ∀ (ps : List ℕ), NumberingOK n lbl set rec op ps → ∀ t, C08.sumTerms op rec counts ps = .ok t →
      toCC t * nrm n ψ = groupExact φ n lbl op ψ ps := by
  intro ps
  induction ps with
  | nil =>
    intro _ t ht
    simp only [C08.sumTerms, C08.R.ok.injEq] at ht
    subst ht
    simp [groupExact, toCC_zero]
  | cons p ps ih =>
    intro hN t ht
    have hN' : NumberingOK n lbl set rec op ps :=
      ⟨hN.id0, fun q hq => hN.mem q (List.mem_cons_of_mem _ hq),
        fun q hq => hN.recon q (List.mem_cons_of_mem _ hq)⟩
    rw [groupExact_cons]
    unfold C08.sumTerms at ht
    cases hl : op.lookup p with
    | none =>
      rw [hl] at ht
      simp only [] at ht ⊢
      rw [zero_add]
      exact ih hN' t ht
    | some c =>
      rw [hl] at ht
      simp only [] at ht ⊢
      cases hpe : C08.pauliExp (rec p) (p == 0) counts with
      | error e => rw [hpe] at ht; cases ht
      | ok e =>
        rw [hpe] at ht
        simp only [] at ht
        cases hr : C08.sumTerms op rec counts ps with
        | error e' => rw [hr] at ht; cases ht
        | ok r =>
          rw [hr] at ht
          simp only [C08.R.ok.injEq] at ht
          subst ht
          rw [toCC_add, toCC_smul, add_mul, ih hN' r hr]
          congr 1
          by_cases h0 : p = 0
          · -- the identity label: the model returns 1
            subst h0
            have : C08.pauliExp (rec 0) true counts = .ok e := by simpa using hpe
            unfold C08.pauliExp at this
            split at this
            · cases this
            · simp only [if_true, C08.R.ok.injEq] at this
              subst this
              rw [hN.id0, expv_identity]
              push_cast; ring
          · have hb : (p == 0) = false := by simpa using h0
            rw [hb, hN.recon p (List.mem_cons_self ..) h0] at hpe
            obtain ⟨hmem, hokp⟩ := hN.mem p (List.mem_cons_self ..) (by rw [hl]; rfl) h0
            have := pauliExp_born φ n set gates hg (lbl p) hmem hokp ψ counts κ hc e hpe
            rw [mul_assoc, mul_comm (toCC c), ← mul_assoc, this, mul_comm]

/-! ### all groups: `_Estimate.value` (`accumulate`) -/

/-- one measured group: the model's `Meas`, the counts delivered for it, the label set it was built for, its
    measurement circuit, the common factor of the counts (shots) -/
structure Measured where
  m : C08.Meas
  cnt : C08.Counts
  set : List C07.Label
  gates : List C07.MGate
  κ : ℝ

/-- the counts are the exact frequencies of the group's own circuit applied to `ψ`, and the numbering /
    reconstructor of the group are those of `Model/C07` -/
structure Measured.OK (φ : ℕ → ℝ) (n : ℕ) (lbl : ℕ → C06.Label) (op : C08.Op) (ψ : ℕ → ℂ) (d : Measured) :
    Prop where
  group : GroupOK n d.set d.gates
  exact : CountsExact d.cnt d.κ (prob φ n (d.gates.map MGate.toGate) ψ) (2 ^ n)
  numbering : NumberingOK n lbl d.set d.m.recon op d.m.paulis

/-- **`_Estimate.value` on exact frequencies**: the accumulated value is the start value plus the exact
    weighted expectation of every group -/
theorem accumulate_born (φ : ℕ → ℝ) (n : ℕ) (lbl : ℕ → C06.Label) (op : C08.Op) (ψ : ℕ → ℂ) :
    ∀ (ds : List Measured) (val v : C08.C), (∀ d ∈ ds, d.OK φ n lbl op ψ) →
      C08.accumulate op val (ds.map fun d => (d.m, d.cnt)) = .ok v →
      toCC v * nrm n ψ
        = toCC val * nrm n ψ + (ds.map fun d => groupExact φ n lbl op ψ d.m.paulis).sum := by
  intro ds
  induction ds with
  | nil =>
    intro val v _ h
    simp only [List.map_nil, C08.accumulate, C08.R.ok.injEq] at h
    subst h
    simp
  | cons d ds ih =>
    intro val v hd h
    have h0 := hd d (List.mem_cons_self ..)
    simp only [List.map_cons, C08.accumulate] at h
    cases ht : C08.pauliSumExp op d.m d.cnt with
    | error e => rw [ht] at h; cases h
    | ok t =>
      rw [ht] at h
      simp only [] at h
      have h1 := ih (val + t) v (fun x hx => hd x (List.mem_cons_of_mem _ hx)) h
      have h2 := sumTerms_born φ n d.set d.gates h0.group lbl d.m.recon op ψ d.cnt d.κ h0.exact
        d.m.paulis h0.numbering t ht
      rw [h1, toCC_add, add_mul, h2, List.map_cons, List.sum_cons]
      ring

/-! ### the whole operator -/

/-- the matrix of an operator of `Model/C08` (numbered labels, Gaussian-rational coefficients) -/
noncomputable def DenQ (φ : ℕ → ℝ) (lbl : ℕ → C06.Label) (op : C08.Op) (r j : ℕ) : ℂ :=
  (op.map fun e => toCC e.2 * pauliMat φ (lbl e.1) r j).sum

theorem expv_DenQ (φ : ℕ → ℝ) (n : ℕ) (lbl : ℕ → C06.Label) (ψ : ℕ → ℂ) (op : C08.Op) :
    expv n (DenQ φ lbl op) ψ = (op.map fun e => toCC e.2 * expv n (pauliMat φ (lbl e.1)) ψ).sum := by
  induction op with
  | nil => simp [expv, DenQ]
  | cons e op ih =>
    rw [List.map_cons, List.sum_cons, ← ih]
    unfold expv DenQ
    rw [Finset.mul_sum, ← Finset.sum_add_distrib]
    apply Finset.sum_congr rfl
    intro r _
    rw [Finset.mul_sum, ← Finset.sum_add_distrib]
    apply Finset.sum_congr rfl
    intro j _
    rw [List.map_cons, List.sum_cons]
    ring

/-- the term of label number `p` -/
noncomputable def termOf (φ : ℕ → ℝ) (n : ℕ) (lbl : ℕ → C06.Label) (op : C08.Op) (ψ : ℕ → ℂ) (p : ℕ) : ℂ :=
  match op.lookup p with
  | none => 0
  | some c => toCC c * expv n (pauliMat φ (lbl p)) ψ

theorem groupExact_eq (φ : ℕ → ℝ) (n : ℕ) (lbl : ℕ → C06.Label) (op : C08.Op) (ψ : ℕ → ℂ) (ps : List ℕ) :
    groupExact φ n lbl op ψ ps = (ps.map (termOf φ n lbl op ψ)).sum := by
  induction ps with
  | nil => simp [groupExact]
  | cons p ps ih => rw [groupExact_cons, ih, List.map_cons, List.sum_cons]; rfl

theorem sum_flatMap_map {α : Type} (ds : List α) (f : α → List ℕ) (T : ℕ → ℂ) :
    (ds.map fun d => ((f d).map T).sum).sum = ((ds.flatMap f).map T).sum := by
  induction ds with
  | nil => simp
  | cons d ds ih => simp [List.flatMap_cons, ih]

theorem sum_filter_some (T : ℕ → ℂ) (q : ℕ → Bool) (hq : ∀ p, q p = false → T p = 0) (l : List ℕ) :
    (l.map T).sum = ((l.filter q).map T).sum := by
  induction l with
  | nil => rfl
  | cons a l ih =>
    rw [List.map_cons, List.sum_cons, List.filter_cons]
    cases h : q a
    · simp only [Bool.false_eq_true, if_false]; rw [hq a h, zero_add, ih]
    · simp only [if_true, List.map_cons, List.sum_cons, ih]

theorem sum_split_zero (T : ℕ → ℂ) : ∀ (l : List ℕ), l.Nodup →
    (l.map T).sum = (if 0 ∈ l then T 0 else 0) + ((l.filter fun p => p != 0).map T).sum := by
  intro l
  induction l with
  | nil => intro _; simp
  | cons a l ih =>
    intro hn
    rw [List.nodup_cons] at hn
    rw [List.map_cons, List.sum_cons, ih hn.2, List.filter_cons]
    by_cases ha : a = 0
    · subst ha
      simp only [bne_self_eq_false, Bool.false_eq_true, if_false, List.mem_cons, true_or, if_true,
        if_neg hn.1, zero_add]
    · have hb : (a != 0) = true := by simpa using ha
      have hm : (0 ∈ a :: l) ↔ 0 ∈ l := by
        simp only [List.mem_cons]
        constructor
        · rintro (h | h)
          · exact absurd h.symm ha
          · exact h
        · exact Or.inr
      simp only [hb, if_true, List.map_cons, List.sum_cons]
      by_cases h0 : 0 ∈ l
      · rw [if_pos h0, if_pos (hm.mpr h0)]; ring
      · rw [if_neg h0, if_neg (fun h => h0 (hm.mp h))]; ring

theorem lookup_of_mem_nodup : ∀ (op : C08.Op), (op.map (·.1)).Nodup → ∀ e ∈ op, op.lookup e.1 = some e.2 := by
  intro op
  induction op with
  | nil => intro _ e he; cases he
  | cons a op ih =>
    intro hn e he
    rw [List.map_cons, List.nodup_cons] at hn
    obtain ⟨k, c⟩ := a
    rcases List.mem_cons.mp he with rfl | he'
    · simp [List.lookup]
    · have hne : e.1 ≠ k := by
        rintro rfl
        exact hn.1 (List.mem_map.mpr ⟨e, he', rfl⟩)
      rw [List.lookup_cons]
      have : (e.1 == k) = false := by simpa using hne
      rw [this]
      exact ih hn.2 e he'

theorem mem_keys_of_lookup : ∀ (op : C08.Op) (k : ℕ) (c : C08.C), op.lookup k = some c →
    k ∈ op.map (·.1) := by
  intro op
  induction op with
  | nil => intro k c h; cases h
  | cons a op ih =>
    intro k c h
    obtain ⟨k', c'⟩ := a
    rw [List.lookup_cons] at h
    by_cases e : k = k'
    · subst e; simp
    · have : (k == k') = false := by simpa using e
      rw [this] at h
      exact List.mem_cons_of_mem _ (ih k c h)

/-- the groups partition the non-identity labels of the operator: the operator is a dict (distinct label
    numbers), no group contains the identity label, and the group members that occur in the operator are,
    together, exactly its non-identity labels (as lists: a permutation) -/
structure Partitions (op : C08.Op) (ds : List Measured) : Prop where
  dict : (op.map (·.1)).Nodup
  perm : ((ds.flatMap fun d => d.m.paulis).filter fun p => (op.lookup p).isSome).Perm
    ((op.map (·.1)).filter fun p => p != 0)

/-- **(4) the whole estimate is the exact expectation value of the operator**: identity term plus the
    accumulated group estimates on exact frequencies `= ⟨ψ| Σ c_P P |ψ⟩` (times `⟨ψ|ψ⟩`; `ψ` need not be
    normalised) -/
theorem estimate_is_expectation (φ : ℕ → ℝ) (n : ℕ) (lbl : ℕ → C06.Label) (hl0 : lbl 0 = []) (op : C08.Op)
    (ψ : ℕ → ℂ) (ds : List Measured) (hd : ∀ d ∈ ds, d.OK φ n lbl op ψ) (hp : Partitions op ds)
    (v : C08.C) (hv : C08.accumulate op (C08.constOf op) (ds.map fun d => (d.m, d.cnt)) = .ok v) :
    toCC v * nrm n ψ = expv n (DenQ φ lbl op) ψ := by
  rw [accumulate_born φ n lbl op ψ ds _ v hd hv, expv_DenQ]
  have hT : ∀ e ∈ op, toCC e.2 * expv n (pauliMat φ (lbl e.1)) ψ = termOf φ n lbl op ψ e.1 := by
    intro e he
    unfold termOf
    rw [lookup_of_mem_nodup op hp.dict e he]
  have hmm : (op.map fun a => termOf φ n lbl op ψ a.1) = (op.map (·.1)).map (termOf φ n lbl op ψ) := by
    rw [List.map_map]; rfl
  rw [List.map_congr_left hT, hmm, sum_split_zero _ _ hp.dict]
  have hgroups : (ds.map fun d => groupExact φ n lbl op ψ d.m.paulis).sum
      = (((op.map (·.1)).filter fun p => p != 0).map (termOf φ n lbl op ψ)).sum := by
    rw [List.map_congr_left (fun d _ => groupExact_eq φ n lbl op ψ d.m.paulis),
      sum_flatMap_map ds (fun d => d.m.paulis),
      sum_filter_some (termOf φ n lbl op ψ) (fun p => (op.lookup p).isSome) (by
        intro p hp'
        unfold termOf
        cases h : op.lookup p with
        | none => rfl
        | some c => rw [h] at hp'; cases hp')]
    exact (hp.perm.map _).sum_eq
  rw [hgroups]
  congr 1
  -- the identity term
  unfold C08.constOf termOf
  by_cases h0 : 0 ∈ op.map (·.1)
  · rw [if_pos h0]
    obtain ⟨e, he, he0⟩ := List.mem_map.mp h0
    have := lookup_of_mem_nodup op hp.dict e he
    rw [he0] at this
    rw [this, hl0, expv_identity]
    rfl
  · rw [if_neg h0]
    have : op.lookup 0 = none := by
      cases h : op.lookup 0 with
      | none => rfl
      | some c => exact absurd (mem_keys_of_lookup op 0 c h) h0
    rw [this]
    simp [toCC_zero]

/-! ### restatements of (1)–(3) -/

/-- **(1)** unitarity of a circuit of `Cliff1` gates -/
theorem unitarity_complex (φ : ℕ → ℝ) (n : ℕ) (V : List Gate) (hV : ∀ g ∈ V, Cliff1 n g) :
    (∀ r, r < 2 ^ n → ∀ j, j < 2 ^ n → star (hop φ V r j) = hop φ (dagList V) j r) ∧
    (∀ r, r < 2 ^ n → ∀ j, j < 2 ^ n → hop φ (V ++ dagList V) r j = if r = j then 1 else 0) ∧
    (∀ r, r < 2 ^ n → ∀ k, k < 2 ^ n →
      ∑ x ∈ Finset.range (2 ^ n), star (hop φ V x r) * hop φ V x k = if r = k then 1 else 0) :=
  ⟨hop_dag_entry φ n V hV, hop_dag_inverse φ n V hV, fun r hr k hk => unitary_cols φ n V hV r k hr hk⟩

/-- the model's measurement circuits are such circuits -/
theorem meas_circuit_unitary (φ : ℕ → ℝ) (n : ℕ) (set : List C07.Label) (gates : List C07.MGate)
    (hg : GroupOK n set gates) (hne : set ≠ []) (r k : ℕ) (hr : r < 2 ^ n) (hk : k < 2 ^ n) :
    ∑ x ∈ Finset.range (2 ^ n),
        star (hop φ (gates.map MGate.toGate) x r) * hop φ (gates.map MGate.toGate) x k
      = if r = k then 1 else 0 :=
  unitary_cols φ n _ (hg.cliff hne) r k hr hk

/-- **(2)** the Born rule for one member of the set -/
theorem born_rule_complex (φ : ℕ → ℝ) (n : ℕ) (set : List C07.Label) (gates : List C07.MGate)
    (hg : GroupOK n set gates) (P : C06.Label) (hP : P ∈ set) (hok : LabelOK n P) (ψ : ℕ → ℂ) :
    expv n (pauliMat φ P) ψ
      = ∑ x ∈ Finset.range (2 ^ n), sgn P x * (prob φ n (gates.map MGate.toGate) ψ x : ℂ) :=
  born_pauli φ n set gates hg.circ hg.sup P hP hok ψ

theorem norm_complex (φ : ℕ → ℝ) (n : ℕ) (set : List C07.Label) (gates : List C07.MGate)
    (hg : GroupOK n set gates) (hne : set ≠ []) (ψ : ℕ → ℂ) :
    nrm n ψ = ∑ x ∈ Finset.range (2 ^ n), (prob φ n (gates.map MGate.toGate) ψ x : ℂ) :=
  born_norm φ n _ (hg.cliff hne) ψ

/-- **(3)** a weighted sum of members from one outcome distribution -/
theorem group_complex (φ : ℕ → ℝ) (n : ℕ) (set : List C07.Label) (gates : List C07.MGate)
    (hg : GroupOK n set gates) (ψ : ℕ → ℂ) (terms : List (C06.Label × ℂ))
    (ht : ∀ t ∈ terms, t.1 ∈ set ∧ LabelOK n t.1) :
    (terms.map fun t => t.2 * expv n (pauliMat φ t.1) ψ).sum
      = ∑ x ∈ Finset.range (2 ^ n), (prob φ n (gates.map MGate.toGate) ψ x : ℂ)
          * (terms.map fun t => t.2 * sgn t.1 x).sum :=
  born_group φ n set gates hg.circ hg.sup ψ terms ht

/-! ### the statements are not vacuous -/

/-- the group {X₀Y₁, X₀, Y₁Z₂} on 3 qubits and its circuit H₀, Sdag₁, H₁ -/
def exSet : List C07.Label := [[(0, 1), (1, 2)], [(0, 1)], [(1, 2), (2, 3)]]

instance (n : ℕ) (L : C06.Label) : Decidable (Sup n L) :=
  decidable_of_iff (∀ x ∈ L, x.1 < n) Iff.rfl

instance (n : ℕ) (L : C06.Label) : Decidable (LabelOK n L) :=
  decidable_of_iff ((L.Pairwise fun a b => a.1 ≠ b.1) ∧
    ∀ e ∈ L, e.1 < n ∧ (e.2 = 1 ∨ e.2 = 2 ∨ e.2 = 3)) Iff.rfl

theorem exSet_ok : GroupOK 3 exSet [.H 0, .Sdag 1, .H 1] := ⟨by decide, by decide⟩

/-- a literal, un-normalised 3-qubit state -/
noncomputable def exPsi : ℕ → ℂ := fun x => ([1, 2, 0, -1, Complex.I, 0, 3, 1] : List ℂ).getD x 0

/-- `⟨ψ|X₀Y₁|ψ⟩`, `⟨ψ|X₀|ψ⟩` and `⟨ψ|Y₁Z₂|ψ⟩` from the ONE outcome distribution of `H₀ Sdag₁ H₁ |ψ⟩` -/
example (φ : ℕ → ℝ) :
    expv 3 (opC φ [G .X [] [0] [], G .Y [] [1] []]) exPsi
      = ∑ x ∈ Finset.range (2 ^ 3), sgn [(0, 1), (1, 2)] x
          * (prob φ 3 [G .H [] [0] [], G .Sdag [] [1] [], G .H [] [1] []] exPsi x : ℂ) :=
  born_rule_complex φ 3 exSet _ exSet_ok [(0, 1), (1, 2)] (by decide) (by decide) exPsi

example (φ : ℕ → ℝ) :
    (2 : ℂ) * expv 3 (opC φ [G .X [] [0] []]) exPsi
        + (Complex.I * expv 3 (opC φ [G .Y [] [1] [], G .Z [] [2] []]) exPsi + 0)
      = ∑ x ∈ Finset.range (2 ^ 3),
          (prob φ 3 [G .H [] [0] [], G .Sdag [] [1] [], G .H [] [1] []] exPsi x : ℂ)
            * ((2 : ℂ) * sgn [(0, 1)] x + (Complex.I * sgn [(1, 2), (2, 3)] x + 0)) :=
  group_complex φ 3 exSet _ exSet_ok exPsi [([(0, 1)], 2), ([(1, 2), (2, 3)], Complex.I)] (by
    intro t ht
    simp only [List.mem_cons, List.mem_nil_iff, or_false] at ht
    rcases ht with rfl | rfl <;> exact ⟨by decide, by decide⟩)

/-- the circuit `H₀ Sdag₁ H₁` is unitary on 3 qubits -/
example (φ : ℕ → ℝ) (r k : ℕ) (hr : r < 2 ^ 3) (hk : k < 2 ^ 3) :
    ∑ x ∈ Finset.range (2 ^ 3),
        star (hop φ [G .H [] [0] [], G .Sdag [] [1] [], G .H [] [1] []] x r)
          * hop φ [G .H [] [0] [], G .Sdag [] [1] [], G .H [] [1] []] x k
      = if r = k then 1 else 0 :=
  meas_circuit_unitary φ 3 exSet _ exSet_ok (by decide) r k hr hk

/-- a complete chain with literal counts: the set {Z₀} (empty circuit), the un-normalised state `2·|101⟩`,
    counts `{5: 12}` (3 shots-units × |2|²): the model's estimate is `−1`, and `−1·⟨ψ|ψ⟩ = ⟨ψ|Z₀|ψ⟩` -/
noncomputable def psi5 : ℕ → ℂ := fun x => if x = 5 then 2 else 0

theorem prob_psi5 (φ : ℕ → ℝ) (x : ℕ) (hx : x < 2 ^ 3) :
    prob φ 3 (([] : List C07.MGate).map MGate.toGate) psi5 x = if x = 5 then 4 else 0 := by
  unfold prob ampl
  have : ∀ j, hop φ [] x j = if x = j then 1 else 0 := fun j => by rw [hop_nil]; rfl
  simp only [List.map_nil, this, ite_mul, one_mul, zero_mul]
  rw [Finset.sum_ite_eq (Finset.range (2 ^ 3)) x, if_pos (Finset.mem_range.mpr hx)]
  unfold psi5
  split <;> norm_num

theorem counts5_exact (φ : ℕ → ℝ) :
    CountsExact [(5, 12)] 3 (prob φ 3 (([] : List C07.MGate).map MGate.toGate) psi5) (2 ^ 3) := by
  refine ⟨by simp, by intro e he; simp at he; subst he; norm_num, ?_, ?_⟩
  · intro e he
    simp at he; subst he
    rw [prob_psi5 φ 5 (by norm_num)]
    norm_num
  · intro x hx hnx
    rw [prob_psi5 φ x hx, if_neg (by simpa using hnx)]

example : C08.pauliExp (recOf [(0, 3)]) false [(5, 12)] = .ok (-1) := by decide +kernel

example (φ : ℕ → ℝ) : (((-1 : ℚ) : ℝ) : ℂ) * nrm 3 psi5 = expv 3 (opC φ [G .Z [] [0] []]) psi5 :=
  pauliExp_born φ 3 [[(0, 3)]] [] ⟨by decide, by decide⟩ [(0, 3)] (by decide) (by decide) psi5
    [(5, 12)] 3 (counts5_exact φ) (-1) (by decide +kernel)

end QV.Props.C08Lift
