import QuriVerif.Proof.C11
/-
  C11 — Concurrent execution is equivalent to sequential execution.

  Property theorems only (helper lemmas: Proof/C11.lean, model: Model/C11.lean).

  Part (a): `execute_concurrently` – for ALL batch sizes and ALL concurrency values.
  Part (b): task system – for ALL programs obeying the footprint discipline and ALL schedules.
  Part (c): composition of the two.

  Finding kept as `_partial` + witness: with an executor and `concurrency ≤ 0` the real code
  returns `[]` (every input is dropped, no exception); the model follows the code.
-/
namespace QV.Props.C11
open QV.C11

/-! ### (a) chunking -/

/-- Hermite-style identity `Σ_{i<c} ⌊(n+i)/c⌋ = n`: no input is lost or invented by the chunk sizes. -/
theorem chunk_sizes_sum (n c : Nat) (hc : 0 < c) : (counts n c).sum = n := counts_sum n c hc

/-- exactly `concurrency` chunks are submitted (possibly empty ones, when `n < c`) -/
theorem chunks_length {α : Type} (xs : List α) (c : Nat) : (chunks xs c).length = c := by
  simp [chunks]

/-- the chunks are contiguous, in input order, and cover the input exactly -/
theorem chunks_concat {α : Type} (xs : List α) (c : Nat) (hc : 0 < c) : (chunks xs c).flatten = xs := by
  rw [chunks_eq_splitBy, splitBy_flatten, counts_sum _ _ hc, List.take_length]

/-- chunk `i` holds exactly `⌊(n+i)/c⌋` inputs -/
theorem chunk_sizes {α : Type} (xs : List α) (c : Nat) (hc : 0 < c) :
    (chunks xs c).map List.length = counts xs.length c := by
  rw [chunks_eq_splitBy]
  exact splitBy_lengths _ _ (by rw [counts_sum _ _ hc]; exact Nat.le_refl _)

/-- chunk sizes differ by at most one -/
theorem chunks_balanced {α : Type} (xs : List α) (c : Nat) (hc : 0 < c) (l : List α) (hl : l ∈ chunks xs c) :
    xs.length / c ≤ l.length ∧ l.length ≤ xs.length / c + 1 := by
  have hmem : l.length ∈ (chunks xs c).map List.length := List.mem_map.2 ⟨l, hl, rfl⟩
  rw [chunk_sizes xs c hc] at hmem
  exact counts_bounds _ _ _ hc hmem

/-- Full statement (`∀ c`) fails for `c ≤ 0` (see `nonpositive_concurrency_witness`); for every
    `concurrency ≥ 1`, every batch and every list-homomorphic worker the concurrent path returns
    exactly what the sequential path returns. -/
theorem execute_concurrently_eq_sequential_partial {κ α ρ ε : Type} (fn : κ → List α → List ρ)
    (hom : ∀ k a b, fn k (a ++ b) = fn k a ++ fn k b) (common : κ) (xs : List α) (e : ε) (c : Int)
    (hc : 1 ≤ c) :
    executeConcurrently fn common xs (some e) c = executeConcurrently fn common xs (none : Option ε) c := by
  have hpos : 0 < c.toNat := by omega
  simp only [executeConcurrently, executorMap, chunksI]
  rw [zipWith_replicate_left _ _ _ _ (by rw [chunks_length]; exact Nat.le_refl _),
    hom_flatten (fn common) (hom common), chunks_concat xs _ hpos]

/-- one result per input, in input order, each computed from its own input only -/
theorem execute_concurrently_pointwise_partial {κ α ρ ε : Type} (g : κ → α → ρ) (common : κ)
    (xs : List α) (e : ε) (c : Int) (hc : 1 ≤ c) :
    executeConcurrently (fun k l => l.map (g k)) common xs (some e) c = xs.map (g common) := by
  rw [execute_concurrently_eq_sequential_partial _ (fun k a b => List.map_append) common xs e c hc]
  rfl

/-- what the code does for `concurrency ≤ 0` with an executor: `range(c)` is empty, nothing is
    submitted, `[]` is returned -/
theorem nonpositive_concurrency_drops_all {κ α ρ ε : Type} (fn : κ → List α → List ρ) (common : κ)
    (xs : List α) (e : ε) (c : Int) (hc : c ≤ 0) : executeConcurrently fn common xs (some e) c = [] := by
  have h0 : c.toNat = 0 := by omega
  simp [executeConcurrently, executorMap, chunksI, chunks, h0]

/-- witness: the unrestricted statement is false (replayed on the real code on every run) -/
theorem nonpositive_concurrency_witness :
    executeConcurrently (fun (k : Int) l => l.map (· + k)) 10 [1, 2, 3] (some ()) 0
      ≠ executeConcurrently (fun (k : Int) l => l.map (· + k)) 10 [1, 2, 3] (none : Option Unit) 0 := by
  decide

/-- Full statement (every executor, every concurrency, every payload) restricted to what the
    code delivers: `concurrency ≥ 1`, and for a process pool a worker function and inputs that
    survive pickling.  Under these hypotheses thread pool, process pool and sequential path agree. -/
theorem execute_with_eq_sequential_partial {κ α ρ : Type} (fn : κ → List α → List ρ)
    (hom : ∀ k a b, fn k (a ++ b) = fn k a ++ fn k b) (common : κ) (xs : List α)
    (ex : Option Executor) (c : Int) (shippable : Bool)
    (hc : 1 ≤ c) (hs : ex = some .process → shippable = true) :
    executeWith fn common xs ex c shippable = .ok (fn common xs) := by
  cases ex with
  | none => rfl
  | some e =>
    have h := execute_concurrently_eq_sequential_partial fn hom common xs e c hc
    cases e with
    | thread => simp only [executeWith, h]; rfl
    | process =>
      have hs' := hs rfl
      simp only [executeWith, hs', h, Bool.not_true, Bool.and_false]
      rfl

/-- witness: a process pool given a worker it cannot pickle raises, the sequential path returns
    (replayed on the real code on every run: density-matrix estimators, noise samplers,
    overlap estimator, compiled circuits, linear-mapped parametric circuits) -/
theorem unshippable_process_witness :
    executeWith (fun (k : Int) l => l.map (· + k)) 10 [1, 2, 3] (some .process) 2 false
      ≠ executeWith (fun (k : Int) l => l.map (· + k)) 10 [1, 2, 3] none 2 false := by
  decide

example : executeWith (fun (k : Int) l => l.map (· + k)) 10 [1, 2, 3] (some .process) 2 true
    = .ok [11, 12, 13] := by decide

/-! ### (b) every interleaving -/

/-- **Schedule independence.** If no cell written by a task is touched by another task, every value
    a task publishes in the cache is the fully built one when the task runs alone, and the cache
    starts with fully built values only, then after ANY complete schedule every task has returned
    exactly what it returns when run on its own. -/
theorem schedule_independence (S : Sem) (ps : List (List Instr)) (m0 : Nat → Int)
    (c0 : List (Nat × Int)) (o0 : Nat → List Int)
    (hd : disciplined S ps m0 = true) (hc : cacheOK S c0 = true)
    (sched : List Nat) (hdone : complete ps.length (runSched S sched (init ps m0 c0 o0)) = true) (t : Nat) :
    (runSched S sched (init ps m0 c0 o0)).st.out t = o0 t ++ iout S (progOf ps t) m0 := by
  simp only [disciplined, Bool.and_eq_true] at hd
  have hinv := inv_run S (progOf ps) m0 o0 (isPrivate_spec ps hd.1.1) sched _
    (inv_init S ps m0 c0 o0 hc hd.1.2)
  have hempty : (runSched S sched (init ps m0 c0 o0)).progs t = [] := by
    by_cases ht : t < ps.length
    · exact (complete_iff _ _).1 hdone t ht
    · have hs := hinv.suffix t
      have : progOf ps t = [] := getD_of_ge _ _ _ (by omega)
      rw [this] at hs
      exact List.suffix_nil.1 hs
  have ho := hinv.out t
  rw [hempty] at ho
  simpa [iout] using ho

/-- the cache never holds anything but fully built values, whatever the interleaving -/
theorem cache_only_holds_built_values (S : Sem) (ps : List (List Instr)) (m0 : Nat → Int)
    (c0 : List (Nat × Int)) (o0 : Nat → List Int)
    (hd : disciplined S ps m0 = true) (hc : cacheOK S c0 = true) (sched : List Nat) :
    cacheOK S (runSched S sched (init ps m0 c0 o0)).st.cache = true := by
  simp only [disciplined, Bool.and_eq_true] at hd
  exact (inv_run S (progOf ps) m0 o0 (isPrivate_spec ps hd.1.1) sched _
    (inv_init S ps m0 c0 o0 hc hd.1.2)).cache

/-- a schedule is complete iff every task is scheduled at least as often as it has statements;
    in particular every merge of the tasks' statement lists is complete -/
theorem complete_iff_scheduled_enough (S : Sem) (ps : List (List Instr)) (m0 : Nat → Int)
    (c0 : List (Nat × Int)) (o0 : Nat → List Int) (sched : List Nat) :
    complete ps.length (runSched S sched (init ps m0 c0 o0)) = true
      ↔ ∀ t, t < ps.length → (progOf ps t).length ≤ sched.count t := by
  rw [complete_iff]
  constructor
  · intro h t ht
    have := h t ht
    rw [runSched_progs] at this
    exact List.drop_eq_nil_iff.1 this
  · intro h t ht
    rw [runSched_progs]
    exact List.drop_eq_nil_iff.2 (h t ht)

/-- running the tasks one after another is one of the schedules -/
theorem sequential_schedule_complete (S : Sem) (ps : List (List Instr)) (m0 : Nat → Int)
    (c0 : List (Nat × Int)) (o0 : Nat → List Int) :
    complete ps.length (runSched S (seqSched ps) (init ps m0 c0 o0)) = true := by
  rw [complete_iff_scheduled_enough]
  intro t _
  simp [seqSched, count_seqSchedFrom, progOf]

/-- every complete interleaving returns, task by task, what sequential execution returns -/
theorem concurrent_eq_sequential_schedule (S : Sem) (ps : List (List Instr)) (m0 : Nat → Int)
    (c0 : List (Nat × Int)) (o0 : Nat → List Int)
    (hd : disciplined S ps m0 = true) (hc : cacheOK S c0 = true)
    (sched : List Nat) (hdone : complete ps.length (runSched S sched (init ps m0 c0 o0)) = true) (t : Nat) :
    (runSched S sched (init ps m0 c0 o0)).st.out t
      = (runSched S (seqSched ps) (init ps m0 c0 o0)).st.out t := by
  rw [schedule_independence S ps m0 c0 o0 hd hc sched hdone t,
    schedule_independence S ps m0 c0 o0 hd hc (seqSched ps)
      (sequential_schedule_complete S ps m0 c0 o0) t]

/-! #### non-vacuity and necessity of the discipline -/

/-- a concrete interpretation -/
def demoSem : Sem := { prim := fun f x y => f + 2 * x + 3 * y, build := fun k => 100 + k }

/-- two workers sharing the read-only cell 0 (a compiled circuit) and the cache entry 7
    (a converted operator), with private cells 10.. and 20.. -/
def demoTasks : List (List Instr) :=
  [ [.set 10 1, .lookup 11 7, .publish 7 11, .app 12 5 0 10, .app 12 6 12 11, .emit 12],
    [.set 20 2, .lookup 21 7, .publish 7 21, .app 22 5 0 20, .app 22 6 22 21, .emit 22, .emit 20] ]

example : disciplined demoSem demoTasks (fun _ => 0) = true := by decide
example : cacheOK demoSem [] = true := by decide
example : complete demoTasks.length
    (runSched demoSem [1, 0, 0, 1, 1, 0, 1, 0, 0, 1, 1, 0, 1] (init demoTasks (fun _ => 0) [] (fun _ => []))) = true := by
  decide

/-- the same two workers sharing one state-vector cell (12) instead of private ones -/
def racyTasks : List (List Instr) :=
  [ [.set 12 1, .app 12 5 12 12, .emit 12],
    [.set 12 2, .app 12 5 12 12, .emit 12] ]

/-- without the footprint discipline the conclusion is false: two complete schedules of the same
    tasks return different results -/
theorem discipline_needed :
    disciplined demoSem racyTasks (fun _ => 0) = false ∧
    complete 2 (runSched demoSem [0, 0, 0, 1, 1, 1] (init racyTasks (fun _ => 0) [] (fun _ => []))) = true ∧
    complete 2 (runSched demoSem [0, 1, 0, 0, 1, 1] (init racyTasks (fun _ => 0) [] (fun _ => []))) = true ∧
    (runSched demoSem [0, 0, 0, 1, 1, 1] (init racyTasks (fun _ => 0) [] (fun _ => []))).st.out 0
      ≠ (runSched demoSem [0, 1, 0, 0, 1, 1] (init racyTasks (fun _ => 0) [] (fun _ => []))).st.out 0 := by
  decide

/-- a cache written before the value is complete breaks the publication rule -/
theorem early_publish_rejected :
    disciplined demoSem [[.set 10 0, .publish 7 10, .set 10 107]] (fun _ => 0) = false := by decide

/-! ### (c) chunking + executor + chain -/

/-- **Concurrent batch = sequential batch.** `f` is the sequential path on a list of inputs
    (list-homomorphic), task `i` is the worker on chunk `i` (returns `f chunkᵢ` when run alone),
    the tasks obey the footprint discipline: for every batch, every `concurrency ≥ 1` and EVERY
    complete interleaving, chaining the tasks' results gives `f xs`. -/
theorem concurrent_batch_correct {α : Type} (f : List α → List Int)
    (hom : ∀ a b, f (a ++ b) = f a ++ f b) (xs : List α) (c : Nat) (hc : 0 < c)
    (S : Sem) (ps : List (List Instr)) (m0 : Nat → Int) (c0 : List (Nat × Int))
    (himpl : ∀ i, i < c → iout S (progOf ps i) m0 = f ((chunks xs c).getD i []))
    (hd : disciplined S ps m0 = true) (hc0 : cacheOK S c0 = true)
    (sched : List Nat)
    (hdone : complete ps.length (runSched S sched (init ps m0 c0 (fun _ => []))) = true) :
    ((List.range c).map fun t => (runSched S sched (init ps m0 c0 (fun _ => []))).st.out t).flatten = f xs := by
  have h1 : ((List.range c).map fun t => (runSched S sched (init ps m0 c0 (fun _ => []))).st.out t)
      = (chunks xs c).map f := by
    apply List.ext_getElem
    · simp [chunks_length]
    · intro i h1 h2
      simp only [List.length_map, List.length_range] at h1
      simp only [List.getElem_map, List.getElem_range]
      rw [schedule_independence S ps m0 c0 _ hd hc0 sched hdone i, List.nil_append, himpl i h1]
      congr 1
      have hi : i < (chunks xs c).length := by rw [chunks_length]; exact h1
      simp [List.getD_eq_getElem?_getD, List.getElem?_eq_getElem hi]
  rw [h1, hom_flatten f hom, chunks_concat xs c hc]

/-- non-vacuity of `concurrent_batch_correct`: three inputs, two workers, one interleaving -/
example :
    ((List.range 2).map fun t =>
      (runSched demoSem [1, 0, 1, 1, 0, 1]
        (init [[.set 10 1, .emit 10], [.set 20 2, .emit 20, .set 21 3, .emit 21]] (fun _ => 0) [] (fun _ => []))).st.out t).flatten
      = [1, 2, 3].map Int.ofNat :=
  concurrent_batch_correct (fun l => l.map Int.ofNat) (fun _ _ => List.map_append) [1, 2, 3] 2 (by decide)
    demoSem [[.set 10 1, .emit 10], [.set 20 2, .emit 20, .set 21 3, .emit 21]] (fun _ => 0) []
    (fun i hi => match i, hi with
      | 0, _ => by decide
      | 1, _ => by decide)
    (by decide) (by decide) [1, 0, 1, 1, 0, 1] (by decide)

/-- the homomorphism hypothesis is satisfiable by every per-input worker -/
example {α : Type} (g : α → Int) : ∀ a b : List α, (a ++ b).map g = a.map g ++ b.map g :=
  fun _ _ => List.map_append

example : chunks [1, 2, 3, 4, 5, 6, 7, 8, 9, 10] 4 = [[1, 2], [3, 4], [5, 6, 7], [8, 9, 10]] := by decide
example : chunks [1, 2] 3 = [[], [1], [2]] := by decide

end QV.Props.C11
