import QuriVerif.Proof.C16
/-
  C16 — Computational-basis state calculus matches the state vector.

  Property theorems only (model: Model/C16.lean, helper lemmas: Proof/C16.lean).

  Vocabulary
    * `CB = (n, bits, phase)` is `ComputationalBasisState._as_tuple()`; `s.wf` is `bits < 2^n` (what `__init__` enforces).
    * `ket s : Nat → ℤ[i]` is the vector `i^phase·|bits⟩`; `apply1 M q` is the text-book action of a 2×2 matrix on
      qubit `q` (little endian); `semPaulis gs` applies a list of X/Y/Z/Pauli gates with the documented Pauli matrices.
    * `runS gs v` is the term-rewriting semantics over the exact ring (`Poly`: ζ₁₆ and the half-angle variables
      `x₀ = e^{iθ/2}`, `x₁ = e^{iφ/2}`), so a statement about `runS` holds for all real θ, φ; the result denotes
      `2^{-scaleS gs}·Σ amplitude·|index⟩`.
    * `targetA pa = 2·cos θ·i^{pa}`, `targetB pb = 2·e^{iφ}·sin θ·i^{pb}` (twice the promised amplitudes).
  Every theorem is for all qubit counts, all bit patterns, all (unbounded integer) phase counters, all gate lists.
-/
namespace QV.Props.C16
open QV QV.C16

/-! ## Pauli bookkeeping -/

/-- The 2×2 matrices used by the semantics are the documented ones of Found/Gate.lean (gates.py). -/
theorem pauli_matrices_documented :
    ([(P1.X, Kind.X), (P1.Y, Kind.Y), (P1.Z, Kind.Z)].all fun pk =>
      decide (({ kind := pk.2, targets := [0] } : Gate).localMat.m =
        [[giPoly (pauliMat pk.1 false false), giPoly (pauliMat pk.1 false true)],
         [giPoly (pauliMat pk.1 true false), giPoly (pauliMat pk.1 true true)]])) = true := by
  decide +kernel

/-- One bookkeeping step is the action of the Pauli matrix on qubit `i` of `i^phase·|bits⟩`.
    Contains the three per-gate facts  Y|0⟩ = i|1⟩,  Y|1⟩ = −i|0⟩,  Z|1⟩ = −|1⟩  (and X, Z|0⟩). -/
theorem pauli_step (s s' : CB) (p : P1) (i : Nat) (h : addSinglePauli s p i = .ok s') :
    apply1 (pauliMat p) i (ket s) = ket s' :=
  single_sound s s' p i h

example : addSinglePauli ⟨3, 0b101, 7⟩ .Y 0 = .ok ⟨3, 0b100, 6⟩ := by decide
example : addSinglePauli ⟨3, 0b101, 7⟩ .Y 1 = .ok ⟨3, 0b111, 8⟩ := by decide
example : addSinglePauli ⟨3, 0b101, 7⟩ .Z 2 = .ok ⟨3, 0b101, 9⟩ := by decide

/-- `pauli_track`: whenever the bookkeeping of `with_gates_applied` / `with_pauli_gate_applied` accepts a gate list
    (X, Y, Z and multi-qubit Pauli gates, any length), the tuple it returns describes exactly the vector obtained by
    applying those gates to `i^phase·|bits⟩` — amplitude and index, not only up to phase; every gate of the list has
    a Pauli factorisation (so the semantics never falls back to its identity default); the qubit count is unchanged
    and `bits` stays in range. -/
theorem pauli_track (s s' : CB) (gs : List RGate) (h : track s gs = .ok s') :
    semPaulis gs (ket s) = ket s' ∧ (∀ g ∈ gs, (factors g).isSome = true) ∧ s'.n = s.n ∧ (s.wf → s'.wf) :=
  ⟨track_sound s s' gs h, track_factors s s' gs h, track_inv s s' gs h⟩

example : track ⟨3, 0b101, 0⟩
    [{ kind := .Y, targets := [0] }, { kind := .Z, targets := [2] }, { kind := .Pauli, targets := [1, 2], paulis := [2, 3] }]
    = .ok ⟨3, 0b110, 4⟩ := by decide

/-- Which lists are accepted: for gates as the factories build them (`wfPauliGate`), the bookkeeping succeeds iff every
    index it looks at is below the qubit count, and every failure is a `ValueError`. -/
theorem pauli_track_accepts (s : CB) (gs : List RGate) (hw : ∀ g ∈ gs, wfPauliGate g = true) :
    ((∃ s', track s gs = .ok s') ↔ ∀ g ∈ gs, ∀ i ∈ usedIdx g, i < s.n) ∧
      (∀ e, track s gs = .error e → e = .value) :=
  track_ok_iff_aux s gs hw

example : wfPauliGate { kind := .Pauli, targets := [1, 2], paulis := [2, 3] } = true := by decide
example : track ⟨2, 1, 0⟩ [{ kind := .Pauli, targets := [1, 2], paulis := [2, 3] }] = .error .value := by decide

/-- Bookkeeping against the dense embedding semantics of Found/Gate.lean (independent definition of the n-qubit
    Pauli matrices): every X/Y/Z gate and every 1- and 2-factor Pauli gate on ≤ 2 qubits, every basis state. -/
theorem pauli_dense_small : densePauliAll 1 = true ∧ densePauliAll 2 = true := by
  constructor <;> decide +kernel

/-! ## with_gates_applied : Pauli / non-Pauli split -/

/-- A list of Pauli-kind gates is tracked; anything else yields a general state whose circuit is "X on every set bit"
    followed by the gates, and that X prefix prepares `|bits⟩` from `|0…0⟩` (the counter `i^phase` is a global phase
    that the general state drops). -/
theorem with_gates_applied_split (s : CB) (seq : GateSeq) (hw : s.wf) :
    (seq.list.all (fun g => isPauliKind g.kind) = true →
        withGatesApplied s seq = (track s seq.list).map Derived.cb) ∧
    (seq.list.all (fun g => isPauliKind g.kind) = false →
        ∀ d, withGatesApplied s seq = .ok d → d = .gen s.n (xGates s.n s.bits ++ seq.list)) ∧
    runS (xGates s.n s.bits) ket0 = some [(s.bits, Poly.one)] := by
  refine ⟨?_, ?_, runS_x_ket0 _ _ hw⟩
  · intro h
    unfold withGatesApplied
    simp only [h, if_true]
    cases track s seq.list <;> rfl
  · intro h d hd
    unfold withGatesApplied at hd
    simp only [h] at hd
    cases seq with
    | gates gs =>
      simp only [circuitAdd, Bool.false_eq_true, if_false] at hd
      split at hd
      · rename_i e he; split at he <;> cases he; cases hd
      · rename_i c hc
        split at hc
        · injection hc with hc; injection hd with hd; rw [← hd, ← hc]; rfl
        · cases hc
    | circuit m gs =>
      simp only [circuitAdd, Bool.false_eq_true, if_false] at hd
      split at hd
      · cases hd
      · rename_i c hc
        split at hc
        · injection hc with hc; injection hd with hd; rw [← hd, ← hc]; rfl
        · cases hc

example : (⟨2, 3, 5⟩ : CB).wf := by decide
example : withGatesApplied ⟨2, 3, 5⟩ (.gates [{ kind := .H, targets := [0] }])
    = .ok (.gen 2 [{ kind := .X, targets := [0] }, { kind := .X, targets := [1] }, { kind := .H, targets := [0] }]) := by
  decide

/-! ## comp_basis_superposition -/

/-- The rewriting semantics used below agrees with the dense embedding semantics of Found/Gate.lean for every
    emitted gate kind (X, all-X PauliRotation in any target order, RZ; symbolic angles) at every placement on
    ≤ 3 qubits and every basis input. -/
theorem sparse_dense_agree_small : sparseDenseAgree 1 = true ∧ sparseDenseAgree 2 = true ∧ sparseDenseAgree 3 = true := by
  refine ⟨?_, ?_, ?_⟩ <;> decide +kernel

/-- The global phase is a single monomial `±u^e·x^ex`, i.e. a complex number of modulus one for all θ, φ. -/
theorem global_phase_unit (bd : Bool) (pa pb : Int) : isUnitMono (globalPhase bd pa pb) = true :=
  globalPhase_unit bd pa pb

/-- `superposition_sound` (partial: see `superposition_rejects_high_bits_witness`).
    For all qubit counts `n`, all bit patterns `a ≠ b` below `2^n`, all phase counters `pa`, `pb` and all real θ, φ
    (symbolic): if `a` and `b` differ at some index below 64, `comp_basis_superposition` returns a circuit, and that
    circuit maps `|0…0⟩` to
        globalPhase · ( cos θ·i^{pa}·|a⟩ + e^{iφ}·sin θ·i^{pb}·|b⟩ )
    (both sides carry the same factor 2 / scale 2^{-1}), `globalPhase` being a unit monomial.
    MISSING for the full statement: the hypothesis `hlow` — without it the real code raises ValueError
    (`lowest_bit_index` only scans 64 bits). -/
theorem superposition_sound_partial (sa sb : CB) (hn : sa.n = sb.n) (hwa : sa.wf) (hwb : sb.wf)
    (hne : sa.bits ≠ sb.bits)
    (hlow : ∃ d, d < 64 ∧ sa.bits.testBit d ≠ sb.bits.testBit d) :
    ∃ gs d, supCircuit sa sb = .ok gs ∧ d < sa.n ∧ scaleS gs = 1 ∧
      isUnitMono (globalPhase (sb.bits.testBit d) sa.phase sb.phase) = true ∧
      runS gs ket0 = some
        [(sa.bits, Poly.mul (globalPhase (sb.bits.testBit d) sa.phase sb.phase) (targetA sa.phase)),
         (sb.bits, Poly.mul (globalPhase (sb.bits.testBit d) sa.phase sb.phase) (targetB sb.phase))] := by
  obtain ⟨gs, hgs⟩ := (supCircuit_ok_iff sa sb).mpr ⟨hn, Or.inr hlow⟩
  obtain ⟨d, hd, hdn, hrun⟩ := sup_run sa sb gs hn hwa hwb hne hgs
  obtain ⟨d', hd', hshape⟩ := supCircuit_shape sa sb gs hn hne hgs
  have hI := amp_identity (sb.bits.testBit d) sa.phase sb.phase
  refine ⟨gs, d, hgs, hdn, ?_, globalPhase_unit _ _ _, ?_⟩
  · rw [hshape]; exact scaleS_sup _ (scaleOf_xGates _ _) _ _ _ _ _
  · rw [hrun, hI.1, hI.2]

example : (⟨3, 0b011, 1⟩ : CB).wf ∧ (⟨3, 0b110, 6⟩ : CB).wf ∧
    (∃ d, d < 64 ∧ (0b011 : Nat).testBit d ≠ (0b110 : Nat).testBit d) :=
  ⟨by decide, by decide, 0, by decide, by decide⟩

/-- Full strength on registers of at most 64 qubits: no hypothesis on the bit patterns is needed. -/
theorem superposition_sound_le64 (sa sb : CB) (hn : sa.n = sb.n) (hwa : sa.wf) (hwb : sb.wf)
    (hne : sa.bits ≠ sb.bits) (h64 : sa.n ≤ 64) :
    ∃ gs d, supCircuit sa sb = .ok gs ∧ d < sa.n ∧ scaleS gs = 1 ∧
      isUnitMono (globalPhase (sb.bits.testBit d) sa.phase sb.phase) = true ∧
      runS gs ket0 = some
        [(sa.bits, Poly.mul (globalPhase (sb.bits.testBit d) sa.phase sb.phase) (targetA sa.phase)),
         (sb.bits, Poly.mul (globalPhase (sb.bits.testBit d) sa.phase sb.phase) (targetB sb.phase))] := by
  apply superposition_sound_partial sa sb hn hwa hwb hne
  unfold CB.wf at hwa hwb
  rw [← hn] at hwb
  obtain ⟨d, hd, hx⟩ := differ_below sa.bits sb.bits sa.n hwa hwb hne
  exact ⟨d, by omega, hx⟩

example : (⟨3, 0b011, 1⟩ : CB).n ≤ 64 ∧ (⟨3, 0b011, 1⟩ : CB).bits ≠ (⟨3, 0b110, 6⟩ : CB).bits := by decide

/-- The defect: two 65-qubit basis states that differ only at bit 64 are rejected with ValueError although the
    qubit counts agree (the model follows `lowest_bit_index`'s `for i in range(64)`). -/
theorem superposition_rejects_high_bits_witness :
    supCircuit ⟨65, 0, 0⟩ ⟨65, 2 ^ 64, 0⟩ = .error .value ∧
      (⟨65, 0, 0⟩ : CB).wf ∧ (⟨65, 2 ^ 64, 0⟩ : CB).wf := by
  refine ⟨by decide, by decide, by decide⟩

/-- Exactly which pairs are accepted. -/
theorem superposition_accepts (sa sb : CB) :
    (∃ gs, supCircuit sa sb = .ok gs) ↔
      sa.n = sb.n ∧ (sa.bits = sb.bits ∨ ∃ d, d < 64 ∧ sa.bits.testBit d ≠ sb.bits.testBit d) :=
  supCircuit_ok_iff sa sb

/-- The case `a = b`, explicit: the circuit is the X prefix only and prepares `|a⟩` exactly; the promised vector is
    `(cos θ·i^{pa} + e^{iφ} sin θ·i^{pb})·|a⟩`, a multiple of `|a⟩` (which is zero for some θ, φ — then no state is promised). -/
theorem superposition_same (sa sb : CB) (hn : sa.n = sb.n) (hwa : sa.wf) (he : sa.bits = sb.bits) :
    supCircuit sa sb = .ok (xGates sa.n sa.bits) ∧ scaleS (xGates sa.n sa.bits) = 0 ∧
      runS (xGates sa.n sa.bits) ket0 = some [(sa.bits, Poly.one)] := by
  refine ⟨by simp [supCircuit, hn, he], ?_, runS_x_ket0 _ _ hwa⟩
  have h0 : ∀ (l : List RGate) (k : Nat), (∀ g ∈ l, scaleOf g = 0) → (l.map scaleOf).foldl (· + ·) k = k := by
    intro l
    induction l with
    | nil => intro k _; rfl
    | cons g r ih =>
      intro k h
      simp only [List.map_cons, List.foldl_cons, h g List.mem_cons_self, Nat.add_zero]
      exact ih k (fun g' hg' => h g' (List.mem_cons_of_mem _ hg'))
  exact h0 _ 0 (scaleOf_xGates _ _)

example : (⟨70, 2 ^ 69 + 5, -3⟩ : CB).wf ∧ (⟨70, 2 ^ 69 + 5, -3⟩ : CB).bits = (⟨70, 2 ^ 69 + 5, 8⟩ : CB).bits := by decide

/-- End-to-end dense cross-check (Found/Gate.lean embedding semantics, `decide +kernel`): every pair `(a, b)` on
    1 and 2 qubits, phase pairs covering every difference mod 8 and negative counters (3 qubits: Props/C16Deep). -/
theorem superposition_dense_small :
    denseSupAll 1 phasePairs = true ∧ denseSupAll 2 phasePairs = true := by
  constructor <;> decide +kernel

/-! ## deriving never changes the original -/

/-- `derive_pure`: after any history of constructions, `with_gates_applied` (Pauli and non-Pauli, on basis states,
    general states and state vectors), `with_pauli_gate_applied`, `.circuit` reads and superpositions, every object
    that existed before reads exactly as it did (qubit count, bits, phase, circuit gates, vector identity). -/
theorem derive_pure (st : List St) (ops : List Op) (i : Nat) (hi : i < st.length) :
    obsAt (run st ops) i = obsAt st i ∧ st.length ≤ (run st ops).length :=
  ⟨(run_ext st ops).2 i hi, (run_ext st ops).1⟩

example :
    obsAt (run [.cb ⟨2, 3, 1⟩ none]
      [.derive 0 (.gates [{ kind := .H, targets := [0] }]), .touch 0, .pauli 0 { kind := .Y, targets := [1] }, .sup 0 2]) 0
      = obsAt [.cb ⟨2, 3, 1⟩ none] 0 ∧
    (run [.cb ⟨2, 3, 1⟩ none]
      [.derive 0 (.gates [{ kind := .H, targets := [0] }]), .touch 0, .pauli 0 { kind := .Y, targets := [1] }, .sup 0 2]).length = 4 := by
  decide

/-- In every store reachable from the empty one the cached circuit of a basis state is the circuit of its tuple and
    its bits are in range — so the theorems above apply to every object a history can produce. -/
theorem derive_invariants (ops : List Op) (s : CB) (c : Option (List RGate)) (h : St.cb s c ∈ run [] ops) :
    (St.cb s c).obs.gates = xGates s.n s.bits ∧ s.wf := by
  have hc := run_coh [] ops (by intro s hs; cases hs) _ h
  have hw := run_wf [] ops (by intro s c hs; cases hs) s c h
  refine ⟨?_, hw⟩
  cases c with
  | none => rfl
  | some c0 => simpa [St.coherent, St.obs] using hc

example : St.cb ⟨2, 1, -1⟩ none ∈ run [] [.mk 2 3, .pauli 0 { kind := .Y, targets := [1] }] := by decide

/-- Value semantics: the object a derivation appends is the value of the pure function on the source's tuple. -/
theorem derive_value (st : List St) (src : Nat) (s : CB) (c : Option (List RGate)) (seq : GateSeq)
    (hs : st[src]? = some (.cb s c)) (hc : (St.cb s c).coherent) :
    match withGatesApplied s seq with
    | .error e => (step st (.derive src seq)).2 = some e
    | .ok (.cb s') => (step st (.derive src seq)) = (st ++ [.cb s' none], none)
    | .ok (.gen n gs) => ∃ st', (step st (.derive src seq)) = (st' ++ [.gen n gs], none) ∧ Ext st st' := by
  have hcg : c.getD (xGates s.n s.bits) = xGates s.n s.bits := by
    cases c with
    | none => rfl
    | some c0 => simpa [St.coherent] using hc
  unfold withGatesApplied
  simp only [step, hs]
  by_cases hp : seq.list.all (fun g => isPauliKind g.kind) = true
  · simp only [hp, if_true]
    cases track s seq.list <;> rfl
  · simp only [hp, if_false, Bool.false_eq_true, hcg]
    cases hca : circuitAdd s.n (xGates s.n s.bits) seq with
    | error e => rfl
    | ok gs => exact ⟨_, rfl, by rw [← hcg]; exact Ext.fill st src s c hs⟩

example : ([St.cb ⟨2, 3, 1⟩ (some (xGates 2 3))])[0]? = some (.cb ⟨2, 3, 1⟩ (some (xGates 2 3))) ∧
    (St.cb ⟨2, 3, 1⟩ (some (xGates 2 3))).coherent :=
  ⟨by decide, rfl⟩

end QV.Props.C16
