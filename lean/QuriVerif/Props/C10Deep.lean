import QuriVerif.Model.C10
/-
  C10 — heavier kernel computations, built in the thorough tier only.
-/
namespace QV.Props.C10Deep
open QV QV.C10

/-- PauliRotation on 3 qubits = its decomposition (CNOT ladder of length 2), all 27 Pauli-id vectors,
    ascending targets, phase included, for all angles -/
theorem pauli_rotation_decompose_3 : ((idVectors 3).all fun ids => pauliCase false ids) = true := by
  decide +kernel

/-- same with descending targets (the control/target roles of the ladder are permuted) -/
theorem pauli_rotation_decompose_3_rev : ((idVectors 3).all fun ids => pauliCase true ids) = true := by
  decide +kernel

end QV.Props.C10Deep
