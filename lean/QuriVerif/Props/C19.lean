import QuriVerif.Proof.C19
/-
  C19 — Structured (qsub) compilation preserves meaning and resource counts.
  Property theorems about the model `QuriVerif/Model/C19.lean` (for ALL programs: any call graph, any number of
  subs, any nesting depth, any argument permutation).  Hypotheses:

    `WF p`       every qubit named in a body is a local name of that sub, every call passes exactly the callee's
                 number of arguments, and a callee has no more arguments than the caller has names.  The last
                 clause follows from "the arguments of a call are distinct" (`distinct_args_fit`); it is what the
                 no-capture argument needs, because local names and absolute allocator values share the one
                 `Qubit(uid)` namespace.  The real code does not reject ill-formed calls; `repeated_args_diverge`
                 shows that the hypothesis cannot be dropped.
    `Acyclic p`  the call depth below the root is bounded (decidable; complete by `acyclic_complete`).
-/
namespace QV.Props.C19
open QV QV.C19

/-- `_update_qubit_map` computes the composition of the frame maps (the value of a key is taken from the
    first frame from the top that knows it and pushed through all outer frames) — no side condition. -/
theorem map_compose_sound (frames : List Frame) (k : Nat) : look (updMap frames) k = den frames k :=
  look_updMap frames k

/-- Hierarchical evaluation produces exactly the instruction list of the full expansion (same gates, same
    absolute qubits, same exception if any), and evaluating the flat expansion — whose auxiliaries are
    re-allocated in the arbitrary order `σ` of a Python `set` — gives the same circuit after canonical renaming
    of auxiliaries by first use. -/
theorem eval_refines_expand (p : Program) (hWF : WF p = true) :
    eval p = expand p ∧
    ∀ gs, eval p = .ok gs → ∀ σ : List Nat, (∀ a ∈ σ, p.root.nArgs ≤ a) →
      (∀ q ∈ occ gs, q < p.root.nArgs ∨ q ∈ σ) →
      ∃ gs', evalFlat p.root.nArgs σ gs = .ok gs' ∧ canon p.root.nArgs gs' = canon p.root.nArgs gs :=
  ⟨eval_eq_expand_of_WF p hWF, fun gs _ σ hσ hcov => evalFlat_canon p.root.nArgs σ hσ gs hcov⟩

/-- distinct call arguments taken from the caller's names imply the arity clause of `WF` (pigeonhole) -/
theorem distinct_args_fit (size : Nat) (qs : List Nat) (hd : qs.Nodup) (hlt : ∀ q ∈ qs, q < size) :
    qs.length ≤ size :=
  nodup_bounded_length size qs hd hlt

/-- Stack invariant of the allocator: in every configuration reachable during evaluation, all absolute
    qubits denoted by the callers' frames (the values of the composed qubit map) are below the allocator
    index, and the auxiliaries handed to a callee are the next `nAux` indices — so they never coincide with a
    qubit that is live in a caller. -/
theorem aux_fresh (p : Program) (hWF : WF p = true) {frames : List Frame} {idx : Nat} {S : Sub}
    (hR : Reach p frames idx S) {c : Nat} {qs : List Nat} {C : Sub}
    (_hcall : Inst.call c qs ∈ S.body) (_hC : p.table[c]? = some C) :
    (∀ kv ∈ updMap frames, kv.2 < idx) ∧
    (∀ a ∈ auxFrame C idx, idx ≤ a.2 ∧ a.2 < idx + C.nAux) ∧
    ∀ kv ∈ updMap frames, ∀ a ∈ auxFrame C idx, kv.2 < a.2 := by
  have hI := (reach_inv hWF hR).1
  have h1 := vals_updMap hI.vals
  have h2 : ∀ a ∈ auxFrame C idx, idx ≤ a.2 ∧ a.2 < idx + C.nAux := fun a ha => mem_auxFrom ha
  exact ⟨h1, h2, fun kv hkv a ha => Nat.lt_of_lt_of_le (h1 kv hkv) (h2 a ha).1⟩

/-- … and an index is reused only after the sub it was given to has returned: while the body of a sub runs
    (any configuration reached from it), the allocator index never drops below its value at entry; sibling
    calls, made after the previous one returned, start again from that value (`ReachFrom.call` uses `idx`). -/
theorem aux_reused_only_after_return (p : Program) {f0 : List Frame} {i0 : Nat} {S0 : Sub}
    {frames : List Frame} {idx : Nat} {S : Sub} (hR : ReachFrom p f0 i0 S0 frames idx S) : i0 ≤ idx :=
  reachFrom_idx_mono hR

/-- acyclic well-formed programs are accepted -/
theorem acyclic_accepted (p : Program) (hWF : WF p = true) (hA : Acyclic p = true) :
    ∃ gs, eval p = .ok gs ∧ expand p = .ok gs := by
  obtain ⟨gs, h⟩ := expand_ok_of_acyclic p hA
  exact ⟨gs, by rw [eval_eq_expand_of_WF p hWF]; exact h, h⟩

/-- Cyclic call graphs are rejected, by the evaluator, by `full_expand` and by both counters, with
    `MachineSubRecursionError` (never by running out of fuel, never silently). -/
theorem cycle_rejected (p : Program) (hWF : WF p = true) (hC : Acyclic p = false) :
    eval p = .error .recursion ∧ expand p = .error .recursion ∧
    (∀ filt t v, gateCount filt t p ≠ .ok v) ∧ (∀ v, auxCount p ≠ .ok v) := by
  have hx : expand p = .error .recursion := by
    rcases expand_ok_or_recursion p hWF with ⟨gs, h⟩ | h
    · have := acyclic_of_expand_ok p h
      rw [hC] at this; cases this
    · exact h
  refine ⟨by rw [eval_eq_expand_of_WF p hWF]; exact hx, hx, ?_, ?_⟩
  · intro filt t v h
    have := acyclic_of_memoRoot_ok (gateAlg filt t) p h
    rw [hC] at this; cases this
  · intro v h
    have := acyclic_of_memoRoot_ok auxAlg p h
    rw [hC] at this; cases this

/-- `Acyclic` (depth bounded by the table size + 1) loses nothing: any depth bound implies it -/
theorem acyclic_complete (p : Program) (k : Nat) (h : ∀ c ∈ callees p.root, depthOK p.table k c = true) :
    Acyclic p = true := by
  unfold Acyclic
  rw [List.all_eq_true]
  exact fun c hc => depthOK_bound (h c hc)

/-- a chain of calls from the root that enters some sub twice makes the program cyclic (hence rejected) -/
theorem repeating_call_path_is_cyclic (p : Program) {path : List Nat} (hp : CallPath p path)
    (hrep : ¬ path.Nodup) : Acyclic p = false := by
  cases h : Acyclic p with
  | false => rfl
  | true => exact absurd (callPath_facts h hp).1 hrep

/-- The gate counter (memoised per sub, shared subs counted once per call) reports exactly the number of
    gates of each kind in the generated circuit (0 for kinds excluded by the filter). -/
theorem gate_count_exact (p : Program) (hWF : WF p = true) (hA : Acyclic p = true) :
    ∃ gs, eval p = .ok gs ∧ ∀ filt t, gateCount filt t p = .ok (countOp filt t gs) := by
  obtain ⟨gs, he, hx⟩ := acyclic_accepted p hWF hA
  refine ⟨gs, he, fun filt t => ?_⟩
  unfold gateCount
  rw [memoRoot_eq_plain _ p hA, expand_count p filt t hx]

/-- The auxiliary-qubit counter reports exactly the allocator's high-water mark minus the number of
    arguments, and every qubit of the generated circuit lies below that mark. -/
theorem aux_count_exact (p : Program) (hWF : WF p = true) (hA : Acyclic p = true) :
    auxCount p = .ok (peak p - p.root.nArgs) ∧ p.root.nArgs ≤ peak p ∧
    ∃ gs, eval p = .ok gs ∧ ∀ q ∈ occ gs, q < p.root.nArgs + (peak p - p.root.nArgs) := by
  have hp := peak_eq p
  obtain ⟨gs, he, hx⟩ := acyclic_accepted p hWF hA
  refine ⟨?_, by omega, gs, he, ?_⟩
  · unfold auxCount
    rw [memoRoot_eq_plain _ p hA]
    congr 1; omega
  · intro q hq
    have := expand_below p hWF hx q hq
    omega

/-- `inverse_sub_resolver` at any nesting depth: the expansion of the inverted program is the reversed
    expansion with every gate replaced by its inverse gate … -/
theorem inverse_expand (invOp : Nat → Nat) (p : Program) {gs : List GateI} (h : expand p = .ok gs) :
    expand (invProgram invOp p) = .ok (invList invOp gs) :=
  expand_inv invOp p h

/-- … which denotes the inverse, in any monoid, as soon as every primitive's table entry does
    (the entries are the generated, kernel-checked obligations of `Generated/C19Lib.lean`). -/
theorem inverse_sub_sound {M : Type} [PhaseMonoid M] (sem : GateI → M) (invOp : Nat → Nat)
    (hprim : ∀ g, PhaseMonoid.equiv (PhaseMonoid.mul (sem (invGate invOp g)) (sem g)) PhaseMonoid.one)
    (p : Program) {gs : List GateI} (h : expand p = .ok gs) :
    ∃ gs', expand (invProgram invOp p) = .ok gs' ∧
      PhaseMonoid.equiv (PhaseMonoid.mul (PhaseMonoid.semList sem gs') (PhaseMonoid.semList sem gs))
        PhaseMonoid.one :=
  ⟨_, expand_inv invOp p h, inverse_list_sound sem invOp hprim gs⟩

/-- `controlled_sub_resolver` at any nesting depth: the expansion of the controlled program is the expansion
    with every gate replaced by its controlled gate on `(control, shifted qubits)` (errors preserved) … -/
theorem controlled_expand (ctlOp : Nat → Nat) (p : Program) :
    expand (ctlProgram ctlOp p) = mapRes (List.map (ctlGate ctlOp)) (expand p) :=
  expand_ctl ctlOp p

/-- … which denotes the controlled circuit for every multiplicative `C` (in the intended reading
    `C U = |0⟩⟨0|⊗1 + |1⟩⟨1|⊗U` with `equiv` = equality: phase-exact), as soon as every primitive's
    controlled template does (generated, kernel-checked with `Template.checkExact`). -/
theorem controlled_sub_sound {M N : Type} [PhaseMonoid M] [PhaseMonoid N] (sem : GateI → M) (sem' : GateI → N)
    (ctlOp : Nat → Nat) (C : M → N)
    (hone : PhaseMonoid.equiv (C PhaseMonoid.one) (PhaseMonoid.one : N))
    (hmul : ∀ a b, PhaseMonoid.equiv (C (PhaseMonoid.mul a b)) (PhaseMonoid.mul (C a) (C b)))
    (hprim : ∀ g, PhaseMonoid.equiv (sem' (ctlGate ctlOp g)) (C (sem g)))
    (p : Program) {gs : List GateI} (h : expand p = .ok gs) :
    ∃ gs', expand (ctlProgram ctlOp p) = .ok gs' ∧
      PhaseMonoid.equiv (PhaseMonoid.semList sem' gs') (C (PhaseMonoid.semList sem gs)) := by
  refine ⟨gs.map (ctlGate ctlOp), ?_, controlled_list_sound sem sem' (ctlGate ctlOp) C hone hmul hprim gs⟩
  rw [expand_ctl, h]; rfl

/-! ### non-vacuity: a three-level program with auxiliaries, argument permutation and a shared sub -/

def exProg : Program :=
  ⟨[ ⟨1, 1, [.prim 0 [0], .prim 4 [0, 1]]⟩,                       -- 0: leaf with one auxiliary
     ⟨2, 1, [.call 0 [1], .prim 4 [2, 0], .call 0 [2]]⟩,           -- 1: calls the leaf on an argument and on its auxiliary
     ⟨2, 0, [.call 1 [1, 0], .call 0 [0]]⟩ ],                      -- 2: permutes its arguments
   ⟨2, 1, [.call 2 [0, 2], .prim 1 [1], .call 1 [2, 1], .call 2 [1, 0]]⟩⟩

example : WF exProg = true := by decide
example : Acyclic exProg = true := by decide
example : eval exProg = expand exProg := (eval_refines_expand exProg (by decide)).1
example : auxCount exProg = .ok 3 := by decide
example : gateCount [] 4 exProg = .ok 11 ∧ gateCount [0] 4 exProg = .ok 0 := by decide

def exCyclic : Program :=
  ⟨[⟨1, 0, [.prim 0 [0], .call 1 [0]]⟩, ⟨1, 1, [.call 0 [1]]⟩], ⟨1, 0, [.call 0 [0]]⟩⟩

example : WF exCyclic = true ∧ Acyclic exCyclic = false := by decide
example : eval exCyclic = .error .recursion := (cycle_rejected exCyclic (by decide) (by decide)).1
example : CallPath exCyclic [0, 1, 0] :=
  .step (.step (.start (by decide)) (S := ⟨1, 0, [.prim 0 [0], .call 1 [0]]⟩) (by decide) (by decide))
    (S := ⟨1, 1, [.call 0 [1]]⟩) (by decide) (by decide)

/-- The well-formedness hypothesis is needed: a call that repeats an argument (so that the callee has more
    arguments than the caller has names) is accepted by the real code, and then an allocator value is
    re-translated by an outer frame's local name — hierarchical evaluation and expansion differ. -/
def exRepeated : Program :=
  ⟨[⟨1, 1, [.prim 4 [0, 1]]⟩, ⟨3, 1, [.call 0 [3]]⟩], ⟨1, 0, [.call 1 [0, 0, 0]]⟩⟩

theorem repeated_args_diverge : WF exRepeated = false ∧ eval exRepeated ≠ expand exRepeated := by decide

end QV.Props.C19
