import QuriVerif.Proof.C02
import QuriVerif.Model.StdEnv
import QuriVerif.Generated.C02Presets
/-
  C02 — Gate-set conversion delivers only the requested gates.
  Statements are about the executable pass model (Model/C01.lean) run with the
  tables translated from the working tree (`stdEnv`); the model is tied to the
  real passes by the correspondence harness (harness/c01.py, harness/c02.py).
-/
namespace QV.Props.C02
open QV QV.C01 QV.C02

/-- For EVERY target gate set: when validation is on, whatever the pipeline did, a
    returned circuit contains only gates of the target set (otherwise the call raises). -/
theorem gateset_validated (e : Env) (fuel : Nat) (gs : List Kind) (c r : List NGate)
    (h : runPass e fuel (.gateSetConv gs true) c = .ok r) : ∀ g ∈ r, g.kind ∈ gs := by
  cases fuel with
  | zero => simp [runPass] at h
  | succ fuel =>
    simp only [runPass] at h
    split at h
    · cases h
    · split at h
      · cases h
      · rename_i hv
        injection h with h; subst h
        intro g hg
        simp only [Bool.true_and, List.any_eq_true, not_exists, not_and] at hv
        simpa using hv g hg

/-- RotationConversion never returns a rotation gate outside the requested rotation kinds. -/
theorem rotation_validated (e : Env) (fuel : Nat) (rots fav : List Kind) (c r : List NGate)
    (h : runPass e fuel (.rotConv rots fav) c = .ok r) : ∀ g ∈ r, isRot g.kind = true → g.kind ∈ rots := by
  cases fuel with
  | zero => simp [runPass] at h
  | succ fuel =>
    simp only [runPass] at h
    split at h
    · cases h
    · split at h
      · cases h
      · rename_i hv
        injection h with h; subst h
        intro g hg hr
        simp only [List.any_eq_true, not_exists, not_and] at hv
        have := hv g hg
        simp_all

/-- the structural facts about `__call__` / `_validate` that the two theorems above model
    (validation is the last stage; it rejects exactly the gates outside the set) were
    found in the working tree by the translator -/
theorem validation_shape_as_modelled :
    (QV.Gen.C02.shape_gsc_call && QV.Gen.C02.shape_gsc_validate &&
     QV.Gen.C02.shape_rot_call && QV.Gen.C02.shape_rot_validate) = true := by decide

/-- full vocabulary except UnitaryMatrix (its 1- and 2-qubit decomposition is numerical and
    validated per instance; ≥ 3 qubits is the documented exception) -/
def vocab : List Kind :=
  [.Identity, .X, .Y, .Z, .H, .S, .Sdag, .SqrtX, .SqrtXdag, .SqrtY, .SqrtYdag, .T, .Tdag,
   .RX, .RY, .RZ, .U1, .U2, .U3, .CNOT, .CZ, .SWAP, .TOFFOLI, .Pauli, .PauliRotation]

def rzSet : List Kind := [.X, .SqrtX, .CNOT, .RZ]
def rotationSet : List Kind := [.RX, .RY, .RZ, .CNOT]
def cliffordRZSet : List Kind :=
  [.H, .X, .Y, .Z, .SqrtX, .SqrtXdag, .SqrtY, .SqrtYdag, .S, .Sdag, .RZ, .CZ, .CNOT]
def starSet : List Kind := [.H, .S, .RZ, .CNOT]

/-- a preset keeps its promise on every circuit over the vocabulary -/
def presetClosed (ps : List Pass) (S : List Kind) : Bool :=
  (absSeq stdEnv stdFuel ps vocab).all S.contains

theorem preset_closed_sound (ps : List Pass) (S : List Kind) (hcl : presetClosed ps S = true)
    (c r : List NGate) (hc : allKinds c vocab) (h : runSeq stdEnv stdFuel ps c = .ok r) :
    ∀ g ∈ r, g.kind ∈ S := by
  intro g hg
  have h1 := (run_kinds stdEnv stdFuel).2 ps c vocab r hc h g hg
  simp only [presetClosed, List.all_eq_true] at hcl
  simpa using hcl _ h1

theorem rzset_only_promised : presetClosed QV.Gen.C02.preset_RZSetTranspiler rzSet = true := by decide +kernel
theorem rotationset_only_promised : presetClosed QV.Gen.C02.preset_RotationSetTranspiler rotationSet = true := by
  decide +kernel
theorem cliffordrzset_only_promised :
    presetClosed QV.Gen.C02.preset_CliffordRZSetTranspiler cliffordRZSet = true := by decide +kernel
theorem starset_only_promised : presetClosed QV.Gen.C02.preset_STARSetTranspiler starSet = true := by decide +kernel

/-- no rewrite template touches a qubit outside the gate it replaces (so no gate leaves the
    register and, the result being built with the input's qubit count, the count is unchanged) -/
theorem templates_stay_on_their_wires :
    (QV.Gen.C01.templates.all fun e => templateWiresOk e.2.2) = true := by decide +kernel

theorem instantiate_wires (t : Template) (hok : templateWiresOk t = true) (g : NGate)
    (hlen : (t.target.controls ++ t.target.targets).length ≤ (g.controls ++ g.targets).length) :
    ∀ x ∈ instantiate t g, ∀ w ∈ x.controls ++ x.targets, w ∈ g.controls ++ g.targets := by
  intro x hx w hw
  simp only [instantiate, List.mem_map] at hx
  obtain ⟨b, hb, rfl⟩ := hx
  simp only [templateWiresOk, List.all_eq_true, decide_eq_true_eq] at hok
  have hb' := hok b hb
  have key : ∀ i, i ∈ b.controls ++ b.targets →
      (g.controls ++ g.targets).getD i 0 ∈ g.controls ++ g.targets := by
    intro i hi
    have hlt : i < (g.controls ++ g.targets).length := by
      have := hb' i hi
      omega
    simp only [List.getD_eq_getElem?_getD, List.getElem?_eq_getElem hlt, Option.getD_some]
    exact List.getElem_mem hlt
  simp only [List.mem_append, List.mem_map] at hw
  rcases hw with ⟨i, hi, rfl⟩ | ⟨i, hi, rfl⟩
  · exact key i (List.mem_append_left _ hi)
  · exact key i (List.mem_append_right _ hi)

/-! non-vacuity -/
example : allKinds [⟨.H, [], [0], [], []⟩, ⟨.CNOT, [0], [1], [], []⟩] vocab := by
  intro g hg; simp at hg; rcases hg with rfl | rfl <;> decide

end QV.Props.C02
