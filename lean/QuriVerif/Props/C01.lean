import QuriVerif.Proof.C01
import QuriVerif.Generated.C01Templates
import QuriVerif.Generated.C01Ladders
import QuriVerif.Generated.C01Tables
/-
  C01 — Transpilation preserves the action of the circuit.

  Property theorems only (helper lemmas live in Proof/C01.lean, generated
  per-template / per-row obligations in Generated/C01*.lean – those are part of
  this property's obligation set and are re-checked against the working tree on
  every run).
-/
namespace QV.Props.C01
open QV QV.C01 PhaseMonoid

variable {M : Type} [PhaseMonoid M] {Γ : Type}

/-- GateDecomposer / GateKindDecomposer / ParallelDecomposer: if every rewritten gate
    is replaced by a list with the same action up to phase (the generated `tpl_*_ok`,
    `lad_*_ok`, `clif_*_ok` obligations), the whole circuit keeps its action. -/
theorem decomposer_sound (sem : Γ → M) (d : Γ → List Γ)
    (h : ∀ g, d g = [g] ∨ PhaseMonoid.equiv (semList sem (d g)) (sem g)) (c : List Γ) :
    PhaseMonoid.equiv (semList sem (c.flatMap d)) (semList sem c) :=
  flatMap_sound_of_or sem d h c

/-- SequentialTranspiler and every preset pipeline: composition of sound passes. -/
theorem sequential_sound (sem : Γ → M) (ps : List (List Γ → List Γ))
    (h : ∀ p ∈ ps, ∀ c, PhaseMonoid.equiv (semList sem (p c)) (semList sem c)) (c : List Γ) :
    PhaseMonoid.equiv (semList sem (ps.foldl (fun acc p => p acc) c)) (semList sem c) :=
  seq_sound sem ps h c

/-- AdjacentGateFuser.__call__ for every `is_target_sequence` / `fuse` pair whose
    `fuse` preserves the action of the window. -/
theorem fuser_sound (sem : Γ → M) (k : Nat) (isT : List Γ → Bool) (fuse : List Γ → List Γ)
    (h : ∀ ts, isT ts = true → PhaseMonoid.equiv (semList sem (fuse ts)) (semList sem ts))
    (fuel : Nat) (c out : List Γ) (e : fuserLoop k isT fuse fuel c [] = some out) :
    PhaseMonoid.equiv (semList sem out) (semList sem c) := by
  simpa using fuserLoop_sound sem k isT fuse h fuel c [] out e

/-- IdentityElimination / ZeroRotationElimination -/
theorem elimination_sound (sem : Γ → M) (keep : Γ → Bool)
    (h : ∀ g, keep g = false → PhaseMonoid.equiv (sem g) PhaseMonoid.one) (c : List Γ) :
    PhaseMonoid.equiv (semList sem (c.filter keep)) (semList sem c) :=
  filter_sound sem keep h c

/-- IdentityInsertion -/
theorem insertion_sound (sem : Γ → M) (c extra : List Γ)
    (h : ∀ g ∈ extra, PhaseMonoid.equiv (sem g) PhaseMonoid.one) :
    PhaseMonoid.equiv (semList sem (c ++ extra)) (semList sem c) :=
  append_sound sem c extra h

/-- FuseRotationTranspiler terminates on every circuit -/
theorem fuseRot_terminates (c : List NGate) : (fuseRotPass c).isSome = true := fuseRotPass_total c

/-- CNOTHCNOTFusingTranspiler terminates on every circuit (3 gates → 7 gates, but
    the potential `length + 5·#CNOT` drops); uses the template read from fuse.py -/
theorem fuseCHC_terminates (c : List NGate) : (fuseCHCPass QV.Gen.C01T.chcTemplate c).isSome = true :=
  fuseCHCPass_total _ (by decide) c

/-! kernel-checked identities over all real angles (symbolic φ₀, φ₁) -/

def rotPair (k : Kind) : Template :=
  ⟨1, G k [] [0] [(Angle.var 0).add (Angle.var 1)], [G k [] [0] [Angle.var 0], G k [] [0] [Angle.var 1]]⟩

/-- R(a)·R(b) = R(a+b) exactly, for RX, RY, RZ (FuseRotation's `fuse`) -/
theorem rot_fuse_exact : ([Kind.RX, .RY, .RZ].all fun k => (rotPair k).checkExact) = true := by decide +kernel

def rotShift (k : Kind) : Template :=
  ⟨1, G k [] [0] [Angle.var 0], [G k [] [0] [(Angle.var 0).add ⟨[], 8⟩]]⟩

/-- R(θ + 2π) ∝ R(θ): the only fact about `% 2π` that FuseRotation, NormalizeRotation,
    the ladders and ZeroRotationElimination rely on -/
theorem rot_shift_2pi : ([Kind.RX, .RY, .RZ].all fun k => (rotShift k).check) = true := by decide +kernel

/-- the Identity gate is the identity matrix (IdentityInsertion / IdentityElimination) -/
theorem identity_gate_is_one : SMat.eq ((G .Identity [] [0] []).mat 1) (SMat.identity 2) = true := by
  decide +kernel

/-! PauliDecompose / PauliRotationDecompose, all Pauli-id vectors on up to 3 qubits,
    symbolic angle; stated phase-exactly.  (`_partial`: the full statement is for every
    number of target qubits – the induction over the CNOT ladder is not done; K and the
    oracle cover larger sizes per instance.) -/

def idVectors : Nat → List (List Nat)
  | 0 => [[]]
  | n + 1 => (idVectors n).flatMap fun v => [1, 2, 3].map fun p => p :: v

def pauliRotCase (ids : List Nat) : Bool :=
  let n := ids.length
  let g : PGate Angle := { kind := .PauliRotation, targets := List.range n, params := [Angle.var 0], paulis := ids }
  SMat.eq (circMat n ((pauliRotDec g).map PGate.toGate)) (g.toGate.mat n)

def pauliCase (ids : List Nat) : Bool :=
  let n := ids.length
  let g : PGate Angle := { kind := .Pauli, targets := List.range n, paulis := ids }
  SMat.eq (circMat n ((pauliDec g).map PGate.toGate)) (g.toGate.mat n)

theorem pauli_rotation_decompose_partial :
    ([1, 2].all fun n => (idVectors n).all pauliRotCase) = true := by decide +kernel

theorem pauli_decompose_partial :
    ([1, 2, 3].all fun n => (idVectors n).all pauliCase) = true := by decide +kernel

/-- wire permutations of the same statement: targets in reversed order -/
def pauliRotCaseRev (ids : List Nat) : Bool :=
  let n := ids.length
  let g : PGate Angle := { kind := .PauliRotation, targets := (List.range n).reverse, params := [Angle.var 0], paulis := ids }
  SMat.eq (circMat n ((pauliRotDec g).map PGate.toGate)) (g.toGate.mat n)

theorem pauli_rotation_decompose_rev_partial :
    ((idVectors 2).all pauliRotCaseRev) = true := by decide +kernel

/-! non-vacuity: the hypotheses of the lifting theorems are met by a concrete instance -/
example : (fuseRotPass [⟨.RX, [], [0], [5], []⟩, ⟨.RX, [], [0], [7], []⟩]) =
    some [⟨.RX, [], [0], [12], []⟩] := by decide

end QV.Props.C01
