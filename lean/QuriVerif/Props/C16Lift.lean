import QuriVerif.Props.ReflectLift
import QuriVerif.Proof.SupSound
/-
  C16 over complex operators, for ALL register sizes: the Pauli bookkeeping of
  `ComputationalBasisState` (`_add_single_pauli`, `_add_pauli`, `with_gates_applied` on Pauli-kind gates;
  model `Model/C16.lean`) describes exactly the state vector obtained with the gate matrices of
  `Found/Gate.lean` (`opC`: `embedAct` of the documented local matrices).

  `Props/C16.lean` proves this against the text-book 2×2 action `apply1` on amplitude functions and
  kernel-checks the agreement with the dense embedding only on ≤ 3 qubits; here the embedding
  semantics itself is used, for every `n`.

    * `single_pauli_complex`  one `_add_single_pauli` step = one X / Y / Z gate (column, exactly);
    * `pauli_track_complex`   chain theorem: a gate list accepted by `track`, every gate read as the list of
                              its single-qubit Pauli factors (`pauliFactorGates`, the model's own `factors`);
    * `pauli_track_gates_complex_partial`
                              the same for the gates themselves; X, Y, Z gates are covered
                              (`sameOp_single_complex`), for a multi-qubit `Pauli` gate the identification of
                              its local matrix with the product of its factors is the hypothesis `SameOp`
                              (kernel-checked on ≤ 3 qubits: `Props/C16.pauli_dense_small`,
                              `Props/C16Deep.pauli_dense_3`).
  No angle variables occur: the statements hold for every φ.
-/
namespace QV.Props.C16Lift
open QV QV.C16 QV.MatSound QV.Props.Reflect

/-- `i` in ℂ is `ζ^4`; the amplitude `i^k` of the theorems is `zetaC ^ (4k)` -/
theorem amp_is_i_pow (k : ℤ) : zetaC ^ (4 * k) = Complex.I ^ k := by
  rw [zpow_mul, ← zetaC_pow_four]; congr 1

/-- **(1) one bookkeeping step is one gate.**  If `_add_single_pauli` maps `(n, b, p)` to `(n, b', p')`
    (X: flip; Y: flip, `p ± 1`; Z: `p + 2` on a set bit) then column `b` of the operator of that Pauli
    gate on wire `q` of an `n`-qubit register is `i^(p'−p)·e_{b'}`. -/
theorem single_pauli_complex (φ : ℕ → ℝ) (s s' : CB) (p : P1) (q : ℕ)
    (h : addSinglePauli s p q = .ok s') (hwf : s.wf) (r : ℕ) (hr : r < 2 ^ s.n) :
    opC φ [G (kindOfP1 p) [] [q]] r s.bits
      = if r = s'.bits then Complex.I ^ (s'.phase - s.phase) else 0 := by
  rw [← amp_is_i_pow]
  exact single_pauli_col zetaC_pow_eight s s' p q h hwf r hr

/-- **(3) chain theorem.**  Whenever the bookkeeping accepts a list of Pauli-kind gates (X, Y, Z,
    multi-qubit Pauli; any length, any `n`, any bit pattern, any phase counter), the tuple `(n, b', p')`
    it returns is exactly the vector obtained by applying the gates – as products of their single-qubit
    factors – to `|b⟩`:  `U e_b = i^(p'−p) e_{b'}`. -/
theorem pauli_track_complex (φ : ℕ → ℝ) (s s' : CB) (gs : List RGate) (h : track s gs = .ok s')
    (hwf : s.wf) :
    s'.n = s.n ∧ s'.wf ∧ WellFormed s.n (gs.flatMap pauliFactorGates) ∧
    ∀ r, r < 2 ^ s.n → opC φ (gs.flatMap pauliFactorGates) r s.bits
      = if r = s'.bits then Complex.I ^ (s'.phase - s.phase) else 0 := by
  obtain ⟨c, w⟩ := track_col (ζ := zetaC) (ρ := rhoC φ) zetaC_pow_eight s s' gs h hwf
  refine ⟨c.n_eq, by unfold CB.wf; rw [c.n_eq]; exact c.lt, w, fun r hr => ?_⟩
  rw [← amp_is_i_pow]
  exact c.col r hr

/-- X, Y, Z gates on one target are their own factor -/
theorem sameOp_single_complex (φ : ℕ → ℝ) (n : ℕ) (g : RGate) (i : ℕ) (hi : i < n)
    (ht : g.targets = [i]) (hc : g.controls = [])
    (hk : g.kind = .X ∨ g.kind = .Y ∨ g.kind = .Z) : SameOp zetaC (rhoC φ) n g :=
  sameOp_single n g i hi ht hc hk

/-- **chain theorem for the gates themselves** (`_partial`: `SameOp` for the multi-qubit `Pauli` gates
    of the list is a hypothesis) -/
theorem pauli_track_gates_complex_partial (φ : ℕ → ℝ) (s s' : CB) (gs : List RGate)
    (h : track s gs = .ok s') (hwf : s.wf) (hg : ∀ g ∈ gs, SameOp zetaC (rhoC φ) s.n g) :
    ∀ r, r < 2 ^ s.n → opC φ (gs.map RGate.toGate) r s.bits
      = if r = s'.bits then Complex.I ^ (s'.phase - s.phase) else 0 := by
  intro r hr
  rw [← amp_is_i_pow]
  exact (track_col_gates zetaC_pow_eight s s' gs h hwf hg).col r hr

/-! ### non-vacuity: a 5-qubit chain with Y, Z and a multi-qubit Pauli gate -/

private def chain : List RGate :=
  [{ kind := .Y, targets := [0] }, { kind := .Z, targets := [4] },
   { kind := .Pauli, targets := [3, 1, 4], paulis := [2, 1, 3] }, { kind := .X, targets := [2] },
   { kind := .Y, targets := [3] }]

/-- the model side, by evaluation: `|10101⟩` with counter 7 ends in `|10010⟩` with counter 10 -/
private theorem chain_track : track ⟨5, 0b10101, 7⟩ chain = .ok ⟨5, 0b10010, 10⟩ := by decide +kernel

/-- the factor reading of the chain: 7 single-qubit gates -/
example : (chain.flatMap pauliFactorGates ==
    [G .Y [] [0], G .Z [] [4], G .Y [] [3], G .X [] [1], G .Z [] [4], G .X [] [2], G .Y [] [3]]) = true := by
  decide +kernel

/-- … and the operator side, for the 32×32 operator, from the theorem: amplitude `i^(10−7) = −i` at
    `|10010⟩`, zero elsewhere -/
example (φ : ℕ → ℝ) (r : ℕ) (hr : r < 2 ^ 5) :
    opC φ (chain.flatMap pauliFactorGates) r 0b10101 = if r = 0b10010 then Complex.I ^ (3 : ℤ) else 0 :=
  (pauli_track_complex φ ⟨5, 0b10101, 7⟩ ⟨5, 0b10010, 10⟩ chain chain_track (by decide)).2.2.2 r hr

/-- single gates: `Y|0⟩ = i|1⟩`, `Y|1⟩ = −i|0⟩`, `Z|1⟩ = −|1⟩` on wire 2 of 3 qubits -/
example (φ : ℕ → ℝ) (r : ℕ) (hr : r < 2 ^ 3) :
    opC φ [G .Y [] [2]] r 0b001 = if r = 0b101 then Complex.I ^ (1 : ℤ) else 0 :=
  single_pauli_complex φ ⟨3, 0b001, 0⟩ ⟨3, 0b101, 1⟩ .Y 2 (by decide) (by decide) r hr

example (φ : ℕ → ℝ) (r : ℕ) (hr : r < 2 ^ 3) :
    opC φ [G .Y [] [2]] r 0b101 = if r = 0b001 then Complex.I ^ (-1 : ℤ) else 0 := by
  have := single_pauli_complex φ ⟨3, 0b101, 0⟩ ⟨3, 0b001, -1⟩ .Y 2 (by decide) (by decide) r hr
  simpa [kindOfP1] using this

/-- a list of single-qubit Pauli gates as gates (no hypothesis left) -/
private def chainS : List RGate :=
  [{ kind := .Y, targets := [0] }, { kind := .Z, targets := [4] }, { kind := .X, targets := [2] }]

example (φ : ℕ → ℝ) (r : ℕ) (hr : r < 2 ^ 5) :
    opC φ (chainS.map RGate.toGate) r 0b10101 = if r = 0b10000 then Complex.I ^ (1 : ℤ) else 0 :=
  pauli_track_gates_complex_partial φ ⟨5, 0b10101, 0⟩ ⟨5, 0b10000, 1⟩ chainS (by decide +kernel)
    (by decide) (fun g hg => by
      simp only [chainS, List.mem_cons, List.not_mem_nil, or_false] at hg
      rcases hg with rfl | rfl | rfl
      · exact sameOp_single_complex φ 5 _ 0 (by omega) rfl rfl (Or.inr (Or.inl rfl))
      · exact sameOp_single_complex φ 5 _ 4 (by omega) rfl rfl (Or.inr (Or.inr rfl))
      · exact sameOp_single_complex φ 5 _ 2 (by omega) rfl rfl (Or.inl rfl)) r hr

/-! ### the multi-qubit `Pauli` gate itself, every number of targets (`Proof/PauliSound`) -/

/-- **(2) a multi-qubit `Pauli` gate is the product of its single-qubit factors**, as complex
    operators on the `2^n` block, for every number of targets -/
theorem sameOp_pauli_complex (φ : ℕ → ℝ) (n : ℕ) (g : RGate) (h : pauliGateOK n g = true) :
    SameOp zetaC (rhoC φ) n g :=
  sameOp_of_ok zetaC_pow_eight n g h

/-- **chain theorem for the gates themselves, UNCONDITIONAL**: for every list of well-formed
    Pauli-kind gates (`pauliGateOK`: X, Y, Z on one target; `Pauli` with distinct targets `< n`, no
    controls, ids in `{1,2,3}`) that the bookkeeping accepts, the tuple `(n, b', p')` it returns is
    exactly the vector obtained by applying the gates' operators to `|b⟩`: `U e_b = i^(p'−p) e_{b'}`.
    All `n`, all bit patterns, all counters, all lists. -/
theorem pauli_track_gates_complex (φ : ℕ → ℝ) (s s' : CB) (gs : List RGate)
    (h : track s gs = .ok s') (hwf : s.wf) (hg : ∀ g ∈ gs, pauliGateOK s.n g = true) :
    ∀ r, r < 2 ^ s.n → opC φ (gs.map RGate.toGate) r s.bits
      = if r = s'.bits then Complex.I ^ (s'.phase - s.phase) else 0 :=
  pauli_track_gates_complex_partial φ s s' gs h hwf
    (fun g hgm => sameOp_pauli_complex φ s.n g (hg g hgm))

/-- the 5-qubit chain with its 3-target `Pauli` gate as a GATE: `|10101⟩ ↦ i³·|10010⟩` -/
example (φ : ℕ → ℝ) (r : ℕ) (hr : r < 2 ^ 5) :
    opC φ (chain.map RGate.toGate) r 0b10101 = if r = 0b10010 then Complex.I ^ (3 : ℤ) else 0 :=
  pauli_track_gates_complex φ ⟨5, 0b10101, 7⟩ ⟨5, 0b10010, 10⟩ chain chain_track (by decide)
    (by decide +kernel) r hr

/-! ### `comp_basis_superposition` (`Proof/SupSound`): the prepared state, every register size -/

/-- in ℂ with `θ = φ 0`, `φ = φ 1` the ring constants are `2cos θ`, `2 sin θ`, `e^{iφ}`, `i^k` -/
theorem twoCos_complex (φ : ℕ → ℝ) : twoCosK (rhoC φ) = 2 * Complex.cos (φ 0) := by
  unfold twoCosK
  have h2 : rhoC φ 0 ^ (2 : ℤ) = Complex.exp ((φ 0 : ℂ) * Complex.I) := by
    rw [zpow_ofNat, rhoC_sq, mul_comm]
  have hm : rhoC φ 0 ^ (-2 : ℤ) = Complex.exp (-(φ 0 : ℂ) * Complex.I) := by
    rw [zpow_neg, h2, ← Complex.exp_neg]; congr 1; ring
  rw [h2, hm, Complex.two_cos]

theorem twoSin_complex (φ : ℕ → ℝ) : twoSinK zetaC (rhoC φ) = 2 * Complex.sin (φ 0) := by
  unfold twoSinK
  have h2 : rhoC φ 0 ^ (2 : ℤ) = Complex.exp ((φ 0 : ℂ) * Complex.I) := by
    rw [zpow_ofNat, rhoC_sq, mul_comm]
  have hm : rhoC φ 0 ^ (-2 : ℤ) = Complex.exp (-(φ 0 : ℂ) * Complex.I) := by
    rw [zpow_neg, h2, ← Complex.exp_neg]; congr 1; ring
  rw [h2, hm, zetaC_pow_four, Complex.two_sin]
  ring

theorem ePhi_complex (φ : ℕ → ℝ) : ePhiK (rhoC φ) = Complex.exp (Complex.I * (φ 1 : ℂ)) := by
  unfold ePhiK; rw [zpow_ofNat, rhoC_sq]

theorem iPow_complex (k : ℤ) : iPowK zetaC k = Complex.I ^ k := amp_is_i_pow k

/-- **(5) the superposition builder.**  For all `n`, all `a ≠ b` below `2^n` with phase counters
    `pa`, `pb`, and all real θ = `φ 0`, φ = `φ 1`: whenever `comp_basis_superposition` returns a circuit,
    the vector it prepares from `|0…0⟩` – column `0` of the operator of the emitted gates – is ONE
    non-zero complex factor times
        `2cos θ · i^pa · |a⟩ + e^{iφ} · 2 sin θ · i^pb · |b⟩`
    (the common factor 2 is the integer scaling of the `PauliRotation` matrix, scale exponent 2).  The
    factor `c` is the value of `globalPhase` of `Props/C16` (`eval_globalPhase`). -/
theorem superposition_complex (φ : ℕ → ℝ) (sa sb : CB) (gs : List RGate) (hn : sa.n = sb.n)
    (hwa : sa.wf) (hwb : sb.wf) (hne : sa.bits ≠ sb.bits) (h : supCircuit sa sb = .ok gs) :
    ∃ c : ℂ, c ≠ 0 ∧ ∀ r, r < 2 ^ sa.n → opC φ (gs.map RGate.toGate) r 0
      = c * (if r = sa.bits then 2 * Complex.cos (φ 0) * Complex.I ^ sa.phase
             else if r = sb.bits then
               Complex.exp (Complex.I * (φ 1 : ℂ)) * (2 * Complex.sin (φ 0)) * Complex.I ^ sb.phase
             else 0) := by
  refine ⟨supPhase zetaC (rhoC φ) sa.phase sb.phase,
    supPhase_ne_zero zetaC_pow_eight (rhoC_ne_zero φ) _ _, fun r hr => ?_⟩
  rw [← twoCos_complex, ← twoSin_complex, ← ePhi_complex, ← iPow_complex, ← iPow_complex]
  exact supCircuit_col zetaC_pow_eight (rhoC_ne_zero φ) sa sb gs hn hwa hwb hne h r hr

/-- `a = b`: the model returns the circuit of `|a⟩` (θ, φ are ignored); the prepared vector is `|a⟩` -/
theorem superposition_same_complex (φ : ℕ → ℝ) (sa sb : CB) (gs : List RGate) (hn : sa.n = sb.n)
    (hwa : sa.wf) (he : sa.bits = sb.bits) (h : supCircuit sa sb = .ok gs) :
    ∀ r, r < 2 ^ sa.n → opC φ (gs.map RGate.toGate) r 0 = if r = sa.bits then 1 else 0 :=
  fun r hr => supCircuit_col_same sa sb gs hn hwa he h r hr

/-- the emitted circuit for `|101⟩·i` and `|011⟩·i²` on 3 qubits … -/
private theorem sup_ex : supCircuit ⟨3, 0b101, 1⟩ ⟨3, 0b011, 2⟩ = .ok
    [{ kind := .X, targets := [0] }, { kind := .X, targets := [2] },
     rotGate [1, 2], rzGate 1 1 1 2] := by decide +kernel

/-- … prepares `c·(2cos θ·i·|101⟩ + e^{iφ}·2 sin θ·i²·|011⟩)`, `c ≠ 0`, for all real θ, φ -/
example (φ : ℕ → ℝ) : ∃ c : ℂ, c ≠ 0 ∧ ∀ r, r < 2 ^ 3 →
    opC φ ([{ kind := .X, targets := [0] }, { kind := .X, targets := [2] },
      rotGate [1, 2], rzGate 1 1 1 2].map RGate.toGate) r 0
      = c * (if r = 0b101 then 2 * Complex.cos (φ 0) * Complex.I ^ (1 : ℤ)
             else if r = 0b011 then
               Complex.exp (Complex.I * (φ 1 : ℂ)) * (2 * Complex.sin (φ 0)) * Complex.I ^ (2 : ℤ)
             else 0) :=
  superposition_complex φ ⟨3, 0b101, 1⟩ ⟨3, 0b011, 2⟩ _ rfl (by decide) (by decide) (by decide) sup_ex

end QV.Props.C16Lift
