import QuriVerif.Proof.C17
import QuriVerif.Proof.C17Fp
/-
  C17 — Noise instructions describe physical channels: the property theorems.

  Reading guide.  `accepts A pc gs ps` = the validation prefix `gs` of a factory lets the parameter list `ps`
  through (arithmetic `A`, `_check_valid_probability` body `pc`).  `Kind.inRange` = the documented range.
  `Complete S ks` = the evaluated Kraus matrices satisfy Σ KᵀK = 1 in the ring `S` (any commutative ring
  containing ℚ with a square root on the non-negative rationals; ℝ is one).  `exact` = ordered-field arithmetic,
  `fp53` = IEEE binary64 rounding, `Faithful A` = rounding is monotone and fixes 0 and 1.

  The source violates the full statements in the following ways; for each the full statement is kept in its
  `_partial` form (the hypothesis names the excluded inputs) next to a `_defect` theorem proving the negation
  on a concrete input:
    * NaN passes `_check_valid_probability`                          (`probCheck_nan_defect`)
    * `p0 + p1 > 1` is tested after rounding, `1 - p0 - p1` is not    (`reset_fp53_defect`, `pad_fp53_defect`)
    * `ThermalRelaxationNoise` raises TypeError on every valid input (`thermal_typeError_defect`)
    * `KrausNoise` / `ProbabilisticNoise` check shapes only          (`kraus_unchecked_defect`, `probabilistic_unchecked_defect`)
-/
set_option linter.unusedSimpArgs false
set_option linter.unusedSectionVars false
set_option linter.unnecessarySeqFocus false
set_option linter.unusedVariables false
namespace QV.Props.C17
open QV.C17

/-! ## 1. `_check_valid_probability` -/

/-- PARTIAL (excludes NaN): the check raises exactly when the argument is not a finite number in [0,1]. -/
theorem probCheck_rejects_iff_partial (A : Arith) (x : XR) (h : x.isNaN = false) :
    specProbCheck.eval A [x] = !x.isProb :=
  probCheck_eq A x h

example : (XR.fin (1/2)).isNaN = false := rfl

/-- DEFECT: NaN is accepted although it is not a probability. -/
theorem probCheck_nan_defect (A : Arith) : specProbCheck.eval A [.nan] = false ∧ XR.nan.isProb = false :=
  ⟨probCheck_nan A, rfl⟩

/-! ## 2. rejects_iff: validation prefix = documented range (exact arithmetic)
    PARTIAL: NaN-free parameter lists (see `probCheck_nan_defect`). -/

theorem rejects_iff_flip_partial (k : Kind) (hk : k.isFlip = true) (x0 : XR) (h0 : x0.isNaN = false) :
    accepts exact specProbCheck (specGuards k) [x0] = k.inRange [x0] := by
  cases k <;> simp [Kind.isFlip] at hk <;>
    simp only [specGuards, accepts_cons, accepts_nil, Guard.fails, Expr.eval, List.getD_cons_zero, probCheck_eq, h0, p,
      Kind.inRange, Bool.not_not, Bool.and_true]

theorem rejects_iff_phaseDamping_partial (x0 : XR) (h0 : x0.isNaN = false) :
    accepts exact specProbCheck (specGuards .phaseDamping) [x0] = Kind.inRange .phaseDamping [x0] := by
  simp only [specGuards, accepts_cons, accepts_nil, Guard.fails, Expr.eval, List.getD_cons_zero, probCheck_eq, h0, p,
    Kind.inRange, Bool.not_not, Bool.and_true]

theorem rejects_iff_reset_partial (x0 x1 : XR) (h0 : x0.isNaN = false) (h1 : x1.isNaN = false) :
    accepts exact specProbCheck (specGuards .reset) [x0, x1] = Kind.inRange .reset [x0, x1] := by
  simp only [specGuards, accepts_cons, accepts_nil, Guard.fails, Expr.eval, List.getD_cons_zero,
    List.getD_cons_succ, probCheck_eq, h0, h1, p, one, zero, BExpr.eval]
  cases x0 <;> cases x1 <;> simp_all [XR.isProb, Kind.inRange, XR.isNaN, XR.add, XR.lt] <;> grind

theorem rejects_iff_amplitudeDamping_partial (x0 x1 : XR) (h0 : x0.isNaN = false) (h1 : x1.isNaN = false) :
    accepts exact specProbCheck (specGuards .amplitudeDamping) [x0, x1] = Kind.inRange .amplitudeDamping [x0, x1] := by
  simp only [specGuards, accepts_cons, accepts_nil, Guard.fails, Expr.eval, List.getD_cons_zero,
    List.getD_cons_succ, probCheck_eq, h0, h1, p, Kind.inRange, Bool.not_not, Bool.and_true]

theorem rejects_iff_phaseAmplitudeDamping_partial (x0 x1 x2 : XR) (h0 : x0.isNaN = false) (h1 : x1.isNaN = false)
    (h2 : x2.isNaN = false) :
    accepts exact specProbCheck (specGuards .phaseAmplitudeDamping) [x0, x1, x2]
      = Kind.inRange .phaseAmplitudeDamping [x0, x1, x2] := by
  simp only [specGuards, accepts_cons, accepts_nil, Guard.fails, Expr.eval, List.getD_cons_zero,
    List.getD_cons_succ, probCheck_eq, h0, h1, h2, p, one, zero, BExpr.eval]
  cases x0 <;> cases x1 <;> cases x2 <;> simp_all [XR.isProb, Kind.inRange, XR.isNaN, XR.add, XR.lt] <;> grind

/-- thermal relaxation: 0 ≤ population ≤ 1, gate_time ≥ 0, T1 > 0, T2 > 0 (both may be +∞), T2 ≤ 2·T1 -/
theorem rejects_iff_thermalRelaxation_partial (x0 x1 x2 x3 : XR) (h0 : x0.isNaN = false) (h1 : x1.isNaN = false)
    (h2 : x2.isNaN = false) (h3 : x3.isNaN = false) :
    accepts exact specProbCheck (specGuards .thermalRelaxation) [x0, x1, x2, x3]
      = Kind.inRange .thermalRelaxation [x0, x1, x2, x3] := by
  simp only [specGuards, accepts_cons, accepts_nil, Guard.fails, Expr.eval, List.getD_cons_zero,
    List.getD_cons_succ, probCheck_eq, h0, h1, h2, h3, p, one, zero, BExpr.eval]
  cases x0 <;> cases x1 <;> cases x2 <;> cases x3 <;>
    simp_all [XR.isProb, Kind.inRange, XR.isNaN, XR.add, XR.lt, XR.le, XR.mul, XR.mulInf, XR.isPosTime] <;> grind

example : Kind.inRange .thermalRelaxation [.fin 50, .pinf, .fin 1, .fin (1/10)] = false := by decide +kernel
example : Kind.inRange .thermalRelaxation [.pinf, .pinf, .fin 1, .fin (1/10)] = true := by decide +kernel
example : Kind.inRange .reset [.fin (1/2), .fin (1/2)] = true := by decide +kernel

/-- regression example for the repaired defect F4 (fixed in 3056bcf: the flip factories used to validate nothing):
    3/2 — which would give the mixture a negative weight — is now rejected by every flip factory. -/
example (k : Kind) (hk : k.isFlip = true) :
    accepts exact specProbCheck (codeGuards k) [.fin (3/2)] = false ∧ k.inRange [.fin (3/2)] = false ∧
    ∃ w ∈ flipWeights k (3/2), w < 0 := by
  cases k <;> simp [Kind.isFlip] at hk <;> exact ⟨by decide +kernel, by decide +kernel, by decide +kernel⟩

/-- the whole flip factory (exact arithmetic, finite parameter): it returns an instruction exactly on [0,1] — where the
    mixture Qulacs builds from it is a probability distribution — and raises ValueError otherwise. -/
theorem factory_physical_flip (k : Kind) (hk : k.isFlip = true) (tc : ThermalCfg) (q : Rat) :
    match scalarFactory exact specProbCheck codeGuards specKraus tc k [.fin q] with
    | .ok ins => k.inRange [.fin q] = true ∧ ins.params = [.fin q] ∧ (flipWeights k q).sum = 1 ∧ ∀ w ∈ flipWeights k q, 0 ≤ w
    | .error e => e = .valueError ∧ k.inRange [.fin q] = false := by
  have hr := rejects_iff_flip_partial k hk (.fin q) rfl
  have hne : (k = Kind.thermalRelaxation) = False := by cases k <;> simp [Kind.isFlip] at hk <;> simp
  have har : [XR.fin q].length = k.arity := by cases k <;> simp [Kind.isFlip] at hk <;> rfl
  by_cases h : k.inRange [.fin q] = true
  · have hw : ∀ w ∈ flipWeights k q, 0 ≤ w := by
      rw [flip_nonneg_iff k hk q]
      cases k <;> simp [Kind.isFlip] at hk <;> simpa [Kind.inRange, XR.isProb] using h
    simp only [scalarFactory, har, ne_eq, not_true_eq_false, if_false, codeGuards, hr, h, Bool.not_true,
      Bool.false_eq_true, hne, decide_false, Bool.false_and]
    exact ⟨trivial, trivial, flip_sum k hk q, hw⟩
  · simp only [Bool.not_eq_true] at h
    simp [scalarFactory, har, codeGuards, hr, h]

/-! ## 3. flip kinds: the mixture is a probability distribution exactly on [0,1] -/

/-- weights (I, X, Y, Z order; Qulacs' BitFlip / Dephasing / IndependentXZ / Depolarizing) always sum to 1 and are
    all non-negative iff 0 ≤ p ≤ 1: the documented range is exactly the set of physical parameters. -/
theorem flip_mixture_valid (k : Kind) (hk : k.isFlip = true) (q : Rat) :
    (flipWeights k q).sum = 1 ∧ ((∀ w ∈ flipWeights k q, 0 ≤ w) ↔ k.inRange [.fin q] = true) := by
  refine ⟨flip_sum k hk q, ?_⟩
  rw [flip_nonneg_iff k hk q]
  cases k <;> simp [Kind.isFlip] at hk <;> simp [Kind.inRange, XR.isProb]

/-! ## 4. closed-form Kraus sets are complete on the whole documented range (exact arithmetic) -/

variable {R : Type} [CommRing R]

theorem kraus_complete_reset (S : SqrtRing R) (a b : Rat) (h : Kind.inRange .reset [.fin a, .fin b] = true) :
    completeQ ((specKraus .reset).map (KMat.value exact [.fin a, .fin b])) = true ∧
    Complete S ((specKraus .reset).map (KMat.value exact [.fin a, .fin b])) := by
  simp only [Kind.inRange, XR.isProb, Bool.and_eq_true, decide_eq_true_eq] at h
  exact complete_of_tplGram S exact [a, b] (specKraus .reset) (by c17_finite) (by c17_rads) (by c17_gram)

theorem kraus_complete_phaseDamping (S : SqrtRing R) (a : Rat) (h : Kind.inRange .phaseDamping [.fin a] = true) :
    completeQ ((specKraus .phaseDamping).map (KMat.value exact [.fin a])) = true ∧
    Complete S ((specKraus .phaseDamping).map (KMat.value exact [.fin a])) := by
  simp only [Kind.inRange, XR.isProb, Bool.and_eq_true, decide_eq_true_eq] at h
  exact complete_of_tplGram S exact [a] (specKraus .phaseDamping) (by c17_finite) (by c17_rads) (by c17_gram)

theorem kraus_complete_amplitudeDamping (S : SqrtRing R) (a s : Rat)
    (h : Kind.inRange .amplitudeDamping [.fin a, .fin s] = true) :
    completeQ ((specKraus .amplitudeDamping).map (KMat.value exact [.fin a, .fin s])) = true ∧
    Complete S ((specKraus .amplitudeDamping).map (KMat.value exact [.fin a, .fin s])) := by
  simp only [Kind.inRange, XR.isProb, Bool.and_eq_true, decide_eq_true_eq] at h
  exact complete_of_tplGram S exact [a, s] (specKraus .amplitudeDamping) (by c17_finite) (by c17_rads) (by c17_gram)

theorem kraus_complete_phaseAmplitudeDamping (S : SqrtRing R) (a b s : Rat)
    (h : Kind.inRange .phaseAmplitudeDamping [.fin a, .fin b, .fin s] = true) :
    completeQ ((specKraus .phaseAmplitudeDamping).map (KMat.value exact [.fin a, .fin b, .fin s])) = true ∧
    Complete S ((specKraus .phaseAmplitudeDamping).map (KMat.value exact [.fin a, .fin b, .fin s])) := by
  simp only [Kind.inRange, XR.isProb, Bool.and_eq_true, decide_eq_true_eq] at h
  exact complete_of_tplGram S exact [a, b, s] (specKraus .phaseAmplitudeDamping) (by c17_finite) (by c17_rads)
    (by c17_gram)

example : Kind.inRange .phaseAmplitudeDamping [.fin (1/4), .fin (1/2), .fin (1/3)] = true := by decide +kernel
example : Kind.inRange .amplitudeDamping [.fin 1, .fin 0] = true := by decide +kernel

/-- the whole factory (reference validation + reference templates, exact arithmetic, finite parameters):
    it returns an instruction exactly on the documented range, and then the Kraus set is complete;
    otherwise it raises ValueError. -/
theorem factory_physical_reset (S : SqrtRing R) (tc : ThermalCfg) (a b : Rat) :
    match scalarFactory exact specProbCheck specGuards specKraus tc .reset [.fin a, .fin b] with
    | .ok ins => Kind.inRange .reset [.fin a, .fin b] = true ∧ Complete S ins.kraus
    | .error e => e = .valueError ∧ Kind.inRange .reset [.fin a, .fin b] = false := by
  have hr := rejects_iff_reset_partial (.fin a) (.fin b) rfl rfl
  by_cases h : Kind.inRange .reset [.fin a, .fin b] = true
  · simp only [scalarFactory, List.length_cons, List.length_nil, Kind.arity, ne_eq, not_true_eq_false, if_false, hr, h,
      Bool.not_true, Bool.false_eq_true, Bool.false_and, reduceCtorEq, decide_false]
    exact ⟨trivial, (kraus_complete_reset S a b h).2⟩
  · simp only [Bool.not_eq_true] at h
    simp [scalarFactory, Kind.arity, hr, h]

theorem factory_physical_amplitudeDamping (S : SqrtRing R) (tc : ThermalCfg) (a s : Rat) :
    match scalarFactory exact specProbCheck specGuards specKraus tc .amplitudeDamping [.fin a, .fin s] with
    | .ok ins => Kind.inRange .amplitudeDamping [.fin a, .fin s] = true ∧ Complete S ins.kraus
    | .error e => e = .valueError ∧ Kind.inRange .amplitudeDamping [.fin a, .fin s] = false := by
  have hr := rejects_iff_amplitudeDamping_partial (.fin a) (.fin s) rfl rfl
  by_cases h : Kind.inRange .amplitudeDamping [.fin a, .fin s] = true
  · simp only [scalarFactory, List.length_cons, List.length_nil, Kind.arity, ne_eq, not_true_eq_false, if_false, hr, h,
      Bool.not_true, Bool.false_eq_true, Bool.false_and, reduceCtorEq, decide_false]
    exact ⟨trivial, (kraus_complete_amplitudeDamping S a s h).2⟩
  · simp only [Bool.not_eq_true] at h
    simp [scalarFactory, Kind.arity, hr, h]

theorem factory_physical_phaseDamping (S : SqrtRing R) (tc : ThermalCfg) (a : Rat) :
    match scalarFactory exact specProbCheck specGuards specKraus tc .phaseDamping [.fin a] with
    | .ok ins => Kind.inRange .phaseDamping [.fin a] = true ∧ Complete S ins.kraus
    | .error e => e = .valueError ∧ Kind.inRange .phaseDamping [.fin a] = false := by
  have hr := rejects_iff_phaseDamping_partial (.fin a) rfl
  by_cases h : Kind.inRange .phaseDamping [.fin a] = true
  · simp only [scalarFactory, List.length_cons, List.length_nil, Kind.arity, ne_eq, not_true_eq_false, if_false, hr, h,
      Bool.not_true, Bool.false_eq_true, Bool.false_and, reduceCtorEq, decide_false]
    exact ⟨trivial, (kraus_complete_phaseDamping S a h).2⟩
  · simp only [Bool.not_eq_true] at h
    simp [scalarFactory, Kind.arity, hr, h]

theorem factory_physical_phaseAmplitudeDamping (S : SqrtRing R) (tc : ThermalCfg) (a b s : Rat) :
    match scalarFactory exact specProbCheck specGuards specKraus tc .phaseAmplitudeDamping [.fin a, .fin b, .fin s] with
    | .ok ins => Kind.inRange .phaseAmplitudeDamping [.fin a, .fin b, .fin s] = true ∧ Complete S ins.kraus
    | .error e => e = .valueError ∧ Kind.inRange .phaseAmplitudeDamping [.fin a, .fin b, .fin s] = false := by
  have hr := rejects_iff_phaseAmplitudeDamping_partial (.fin a) (.fin b) (.fin s) rfl rfl rfl
  by_cases h : Kind.inRange .phaseAmplitudeDamping [.fin a, .fin b, .fin s] = true
  · simp only [scalarFactory, List.length_cons, List.length_nil, Kind.arity, ne_eq, not_true_eq_false, if_false, hr, h,
      Bool.not_true, Bool.false_eq_true, Bool.false_and, reduceCtorEq, decide_false]
    exact ⟨trivial, (kraus_complete_phaseAmplitudeDamping S a b s h).2⟩
  · simp only [Bool.not_eq_true] at h
    simp [scalarFactory, Kind.arity, hr, h]

/-! ## 5. floating point: which radicands survive rounding -/

/-- Under ANY faithful rounding the single-subtraction radicands of the phase- and amplitude-damping factories are
    non-negative on the documented range: these factories can never produce NaN. -/
theorem rads_nonneg_rounded_phaseDamping (A : Arith) (F : Faithful A) (a : Rat)
    (h : Kind.inRange .phaseDamping [.fin a] = true) :
    ∀ r ∈ tplRads (specKraus .phaseDamping), 0 ≤ r.evalQ A [a] := by
  simp only [Kind.inRange, XR.isProb, Bool.and_eq_true, decide_eq_true_eq] at h
  have h1 : 0 ≤ A.rnd (1 + -a) := F.nonneg (by linarith)
  simp [tplRads, specKraus, Expr.evalQ, h1, h.1]

theorem rads_nonneg_rounded_amplitudeDamping (A : Arith) (F : Faithful A) (a s : Rat)
    (h : Kind.inRange .amplitudeDamping [.fin a, .fin s] = true) :
    ∀ r ∈ tplRads (specKraus .amplitudeDamping), 0 ≤ r.evalQ A [a, s] := by
  simp only [Kind.inRange, XR.isProb, Bool.and_eq_true, decide_eq_true_eq] at h
  have h1 : 0 ≤ A.rnd (1 + -a) := F.nonneg (by linarith)
  have h2 : 0 ≤ A.rnd (1 + -s) := F.nonneg (by linarith)
  simp [tplRads, specKraus, Expr.evalQ, h1, h2, h.1.1, h.2.1]

/-- Under any faithful rounding, parameters in the documented range are never rejected by the validation of the
    four closed-form factories (the rounded sum of two numbers with exact sum ≤ 1 is ≤ 1). -/
theorem valid_never_rejected_rounded_reset (A : Arith) (F : Faithful A) (a b : Rat)
    (h : Kind.inRange .reset [.fin a, .fin b] = true) :
    accepts A specProbCheck (specGuards .reset) [.fin a, .fin b] = true := by
  simp only [Kind.inRange, decide_eq_true_eq] at h
  have := F.le_one h.2.2
  simp only [specGuards, accepts_cons, accepts_nil, Guard.fails, Expr.eval, List.getD_cons_zero,
    List.getD_cons_succ, probCheck_eq _ _ (rfl : (XR.fin _).isNaN = false), p, one, BExpr.eval, XR.isProb,
    XR.add_fin_fin, XR.lt_fin_fin]
  simp only [Bool.not_not, Bool.and_true, Bool.and_eq_true, decide_eq_true_eq, Bool.not_eq_true',
    decide_eq_false_iff_not, not_lt]
  exact ⟨⟨h.1, by linarith⟩, ⟨h.2.1, by linarith⟩, this⟩

/-- PARTIAL (hypothesis: the EXACT sum p0 + p1 is ≤ 1 and p1 is representable): under faithful rounding the
    radicand 1 - p0 - p1 of `ResetNoise` is non-negative.  The source tests the ROUNDED sum instead. -/
theorem reset_rads_rounded_partial (A : Arith) (F : Faithful A) (a b : Rat) (hb : A.rnd b = b)
    (h : Kind.inRange .reset [.fin a, .fin b] = true) :
    ∀ r ∈ tplRads (specKraus .reset), 0 ≤ r.evalQ A [a, b] := by
  simp only [Kind.inRange, decide_eq_true_eq] at h
  have h1 : b ≤ A.rnd (1 + -a) := by
    have := F.mono b (1 + -a) (by linarith); rwa [hb] at this
  have h2 : 0 ≤ A.rnd (A.rnd (1 + -a) + -b) := F.nonneg (by linarith)
  simp [tplRads, specKraus, Expr.evalQ, h2, h.1, h.2.1]

example : exact.rnd (1/4) = 1/4 ∧ Kind.inRange .reset [.fin (3/4), .fin (1/4)] = true := ⟨rfl, by decide +kernel⟩


/-- the executable IEEE-754 model used by the correspondence harness IS a faithful rounding
    (monotone on all rationals, fixes 0 and 1), so the `Faithful` theorems above apply to it … -/
theorem fp53_is_faithful : Faithful fp53 := fp53_faithful

example : Faithful exact := exact_faithful

/-- … in particular, with IEEE doubles the phase- and amplitude-damping factories never produce NaN on their
    documented range and never reject a valid `ResetNoise` parameter pair. -/
theorem damping_never_nan_fp53 (a s : Rat) :
    (Kind.inRange .phaseDamping [.fin a] = true → ∀ r ∈ tplRads (specKraus .phaseDamping), 0 ≤ r.evalQ fp53 [a]) ∧
    (Kind.inRange .amplitudeDamping [.fin a, .fin s] = true →
      ∀ r ∈ tplRads (specKraus .amplitudeDamping), 0 ≤ r.evalQ fp53 [a, s]) :=
  ⟨rads_nonneg_rounded_phaseDamping fp53 fp53_faithful a, rads_nonneg_rounded_amplitudeDamping fp53 fp53_faithful a s⟩

/-- DEFECT (F5): with IEEE doubles `ResetNoise(1.0, 2⁻⁶⁰)` passes `p0 + p1 > 1` (the sum rounds to 1.0) although
    the exact sum exceeds 1, and the radicand `(1 - p0) - p1 = -2⁻⁶⁰` is negative: √ gives NaN. -/
theorem reset_fp53_defect :
    accepts fp53 specProbCheck (specGuards .reset) [.fin 1, .fin (pow2 (-60))] = true ∧
    Kind.inRange .reset [.fin 1, .fin (pow2 (-60))] = false ∧
    (∃ r ∈ tplRads (specKraus .reset), r.evalQ fp53 [1, pow2 (-60)] < 0) ∧
    completeQ ((specKraus .reset).map (KMat.value fp53 [.fin 1, .fin (pow2 (-60))])) = false := by
  refine ⟨by decide +kernel, by decide +kernel, ?_, by decide +kernel⟩
  exact ⟨.sub (.sub one (p 0)) (p 1), by decide +kernel, by decide +kernel⟩

/-- DEFECT (F5, same shape): `PhaseAmplitudeDampingNoise(2⁻⁶⁰, 1.0, s)`. -/
theorem pad_fp53_defect :
    accepts fp53 specProbCheck (specGuards .phaseAmplitudeDamping) [.fin (pow2 (-60)), .fin 1, .fin (1/2)] = true ∧
    Kind.inRange .phaseAmplitudeDamping [.fin (pow2 (-60)), .fin 1, .fin (1/2)] = false ∧
    completeQ ((specKraus .phaseAmplitudeDamping).map
      (KMat.value fp53 [.fin (pow2 (-60)), .fin 1, .fin (1/2)])) = false := by
  refine ⟨by decide +kernel, by decide +kernel, by decide +kernel⟩

/-! ## 6. probability-list factories -/

/-- PARTIAL (NaN-free): validation of a probability list accepts iff every entry is a finite number in [0,1]
    and the sum is at most 1 + eq_tolerance. -/
theorem probList_rejects_iff_partial (tol : Rat) (xs : List XR) (hn : noNaN xs = true) :
    probListOk exact specProbCheck (.fin tol) xs = true ↔
      ∃ qs : List Rat, xs = qs.map .fin ∧ (∀ q ∈ qs, 0 ≤ q ∧ q ≤ 1) ∧ qs.sum ≤ 1 + tol :=
  probListOk_iff tol xs hn

example : noNaN [.fin (1/2), .fin (1/4)] = true := rfl

/-- PARTIAL (NaN-free): an accepted `PauliNoise` stores the given lists; weights are in [0,1] and sum to at most
    1 + tol (Qulacs assigns the missing weight to the identity); every Pauli string has `qubit_count` ids ≤ 3. -/
theorem pauli_accepted_weights_partial (name : String) (paulis : List (List Nat)) (probs : List XR) (nIdx : Nat)
    (tol : Rat) (ins : Instr) (hn : noNaN probs = true)
    (h : pauliNoise exact specProbCheck name paulis probs nIdx (.fin tol) = .ok ins) :
    ins.pauliList = paulis ∧ paulis ≠ [] ∧ paulis.length = probs.length ∧
    (∀ r ∈ paulis, r.length = ins.qubitCount ∧ ∀ i ∈ r, i ≤ 3) ∧
    ∃ qs : List Rat, ins.probList = qs.map .fin ∧ probs = qs.map .fin ∧ (∀ q ∈ qs, 0 ≤ q ∧ q ≤ 1) ∧
      qs.sum ≤ 1 + tol :=
  pauliNoise_ok name paulis probs nIdx tol ins hn h

/-- PARTIAL (NaN-free, tol ≥ 0): an accepted `ProbabilisticNoise` stores a weight list that is non-negative, sums
    to EXACTLY 1 whenever the given sum is ≤ 1 (identity completion), never exceeds 1 + tol, with one matrix per
    weight. -/
theorem probabilistic_accepted_weights_partial (ms : List (List (List Rat))) (probs : List XR) (nIdx : Nat)
    (tol : Rat) (ht : 0 ≤ tol) (ins : Instr) (hn : noNaN probs = true)
    (h : probabilisticNoise exact specProbCheck ms probs nIdx (.fin tol) = .ok ins) :
    ∃ qs ws : List Rat, probs = qs.map .fin ∧ ins.probList = ws.map .fin ∧ (∀ w ∈ ws, 0 ≤ w ∧ w ≤ 1) ∧
      (qs.sum ≤ 1 → ws.sum = 1) ∧ ws.sum ≤ 1 + tol ∧ ins.gateMatrices.length = ws.length ∧
      ms.length = qs.length :=
  probabilisticNoise_ok ms probs nIdx tol ht ins hn h

example : (probabilisticNoise exact specProbCheck [[[0, 1], [1, 0]]] [.fin (1/4)] 0 (.fin (1/100000000))).toOption.map
    (·.probList) = some [.fin (1/4), .fin (3/4)] := by decide +kernel

/-- `GeneralDepolarizingNoise`, every qubit count n: accepted exactly when n > 0, 0 ≤ p ≤ 1 and the qubit filter
    is empty or of length n (the inner `PauliNoise` validation never fires); otherwise ValueError. -/
theorem generalDepolarizing_rejects_iff (q : Rat) (n nIdx : Nat) :
    (0 < n ∧ 0 ≤ q ∧ q ≤ 1 ∧ qubitIndicesBad n nIdx = false →
      generalDepolarizing exact specProbCheck (.fin q) n nIdx =
        .ok { name := "GeneralDepolarizingNoise", qubitCount := n, params := [], pauliList := pauliProduct n,
              probList := generalDepolProbs exact (.fin q) n }) ∧
    (¬(0 < n ∧ 0 ≤ q ∧ q ≤ 1 ∧ qubitIndicesBad n nIdx = false) →
      generalDepolarizing exact specProbCheck (.fin q) n nIdx = .error .valueError) :=
  generalDepol_spec q n nIdx

/-- … and its 4ⁿ weights are a probability distribution: non-negative, each ≤ 1, sum exactly 1, the first
    (identity string) being 1 - p; the Pauli list has 4ⁿ rows of n ids ≤ 3 starting with the identity string. -/
theorem generalDepolarizing_weights (q : Rat) (n : Nat) (hn : 0 < n) (h0 : 0 ≤ q) (h1 : q ≤ 1) :
    (∃ ws : List Rat, generalDepolProbs exact (.fin q) n = ws.map .fin ∧ ws.length = 4 ^ n ∧ ws.sum = 1 ∧
      (∀ w ∈ ws, 0 ≤ w ∧ w ≤ 1) ∧ ws.head? = some (1 - q)) ∧
    (pauliProduct n).length = 4 ^ n ∧ (∀ r ∈ pauliProduct n, r.length = n ∧ ∀ i ∈ r, i ≤ 3) ∧
    (pauliProduct n).head? = some (List.replicate n 0) :=
  ⟨generalDepol_weights q n hn h0 h1, pauliProduct_length n, pauliProduct_rows n, pauliProduct_head n⟩

example : (0 : Nat) < 2 ∧ (0 : Rat) ≤ 3/10 ∧ (3/10 : Rat) ≤ 1 := by decide +kernel

/-- DEFECT: `KrausNoise` checks shapes only — the incomplete set {2·I} is accepted. -/
theorem kraus_unchecked_defect :
    (krausNoise [[[2, 0], [0, 2]]] 0).toOption.map (fun ins => completeQ ins.kraus) = some false := by
  decide +kernel

/-- DEFECT: `ProbabilisticNoise` checks shapes and weights only — the non-orthogonal "gate" 2·I is accepted. -/
theorem probabilistic_unchecked_defect :
    (probabilisticNoise exact specProbCheck [[[2, 0], [0, 2]]] [.fin 1] 0 (.fin (1/100000000))).toOption.map
      (fun ins => ins.gateMatrices.all isOrthogonalQ) = some false := by
  decide +kernel

/-! ## 7. thermal relaxation -/

/-- The Choi matrix the factory builds, in terms of a = 1 - e^{-t/T1} ∈ [0,1], e = e^{-t/T2} with e² ≤ 1 - a
    (which is what T2 ≤ 2·T1 gives) and the population s ∈ [0,1]:
    it is positive semidefinite (two 1×1 blocks ≥ 0, the 2×2 block on rows/columns {0,3} has non-negative diagonal
    and determinant) and trace preserving (the partial trace over the output is the identity).
    PARTIAL: the matrix square root that turns it into Kraus operators is numerical and not modelled. -/
theorem thermal_choi_psd_tp_partial (a e s : Rat) (ha0 : 0 ≤ a) (ha1 : a ≤ 1) (he : e * e ≤ 1 - a) (hs0 : 0 ≤ s)
    (hs1 : s ≤ 1) :
    thermalChoi a e s =
      [[1 - s * a, 0, 0, e], [0, s * a, 0, 0], [0, 0, (1 - s) * a, 0], [e, 0, 0, 1 - (1 - s) * a]] ∧
    0 ≤ s * a ∧ 0 ≤ (1 - s) * a ∧ 0 ≤ 1 - s * a ∧ 0 ≤ 1 - (1 - s) * a ∧
    e * e ≤ (1 - s * a) * (1 - (1 - s) * a) ∧
    (1 - s * a) + s * a = 1 ∧ (1 - s) * a + (1 - (1 - s) * a) = 1 := by
  obtain ⟨h1, h2, h3, h4, h5⟩ := thermal_choi a e s ha0 ha1 he hs0 hs1
  exact ⟨rfl, h1, h2, h3, h4, h5, by ring, by ring⟩

example : (0 : Rat) ≤ 1/2 ∧ (1/2 : Rat) ≤ 1 ∧ (1/2 : Rat) * (1/2) ≤ 1 - 1/2 := by decide +kernel

/-- DEFECT (F3): when the factory uses `la.eig` without a real projection, NumPy returns complex128 and the
    instruction stores `f64`, EVERY parameter vector that passes validation ends in TypeError. -/
theorem thermal_typeError_defect (A : Arith) (pc : BExpr) (g : Kind → List Guard) (tpl : Kind → List KMat)
    (ps : List XR) (hl : ps.length = 4) (hacc : accepts A pc (g .thermalRelaxation) ps = true) :
    scalarFactory A pc g tpl ⟨true, true, true⟩ .thermalRelaxation ps = .error .typeError := by
  simp [scalarFactory, Kind.arity, hl, hacc, ThermalCfg.typeError]

example : accepts exact specProbCheck (specGuards .thermalRelaxation) [.fin 1, .fin 1, .fin (1/10), .fin (1/10)] = true := by
  decide +kernel

/-- PARTIAL (hypothesis: not the `la.eig`/complex/f64 combination): valid parameters are never rejected. -/
theorem thermal_accepts_valid_partial (tc : ThermalCfg) (htc : tc.typeError = false) (x0 x1 x2 x3 : XR)
    (h0 : x0.isNaN = false) (h1 : x1.isNaN = false) (h2 : x2.isNaN = false) (h3 : x3.isNaN = false) :
    (scalarFactory exact specProbCheck specGuards specKraus tc .thermalRelaxation [x0, x1, x2, x3]).isOk
      = Kind.inRange .thermalRelaxation [x0, x1, x2, x3] := by
  have hr := rejects_iff_thermalRelaxation_partial x0 x1 x2 x3 h0 h1 h2 h3
  by_cases h : Kind.inRange .thermalRelaxation [x0, x1, x2, x3] = true
  · simp [scalarFactory, Kind.arity, hr, h, htc, Except.isOk, Except.toBool]
  · simp only [Bool.not_eq_true] at h
    simp [scalarFactory, Kind.arity, hr, h, Except.isOk, Except.toBool]

example : (ThermalCfg.mk false true true).typeError = false := rfl

end QV.Props.C17
