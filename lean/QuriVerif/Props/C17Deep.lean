import QuriVerif.Props.C17
import Mathlib.Analysis.SpecialFunctions.Sqrt
import Mathlib.Analysis.SpecialFunctions.Exp
import Mathlib.LinearAlgebra.Matrix.PosDef
/-
  C17 (thorough tier) — the abstract statements of Props/C17.lean instantiated in ℝ / ℂ with Mathlib:
    * ℝ with `Real.sqrt` is a `SqrtRing`; `Complete` means Σ KᵀK = 1 for `Matrix (Fin 2) (Fin 2) ℝ`;
    * a Kraus family with Σ K†K = 1 preserves the trace and positive semidefiniteness of every density matrix
      (any finite dimension) — what the density-matrix simulator must therefore show;
    * the hypotheses of `thermal_choi_psd_tp_partial` are theorems about the real exponential.
-/
set_option linter.unusedSimpArgs false
set_option linter.unusedVariables false
set_option linter.unusedSectionVars false
namespace QV.Props.C17Deep
open QV.C17 Matrix
open scoped ComplexOrder

/-! ## ℝ is a SqrtRing -/

noncomputable def realSqrtRing : SqrtRing ℝ where
  ι := Rat.castHom ℝ
  sqrt q := Real.sqrt (q : ℝ)
  sqrt_sq q hq := by
    have : (0 : ℝ) ≤ (q : ℝ) := by exact_mod_cast hq
    simp [Real.mul_self_sqrt this]
  sqrt_zero := by simp

/-- the documented matrices of the model as Mathlib matrices -/
def M2.toMatrix (m : M2 ℝ) : Matrix (Fin 2) (Fin 2) ℝ := !![m.a, m.b; m.c, m.d]

theorem toMatrix_gram (m : M2 ℝ) : M2.toMatrix m.gram = (M2.toMatrix m)ᵀ * M2.toMatrix m := by
  ext i j
  fin_cases i <;> fin_cases j <;> simp [M2.toMatrix, M2.gram, Matrix.mul_apply, Fin.sum_univ_two]

theorem toMatrix_add (x y : M2 ℝ) : M2.toMatrix (M2.add x y) = M2.toMatrix x + M2.toMatrix y := by
  ext i j
  fin_cases i <;> fin_cases j <;> simp [M2.toMatrix, M2.add]

theorem toMatrix_one : M2.toMatrix (M2.one : M2 ℝ) = 1 := by
  ext i j
  fin_cases i <;> fin_cases j <;> simp [M2.toMatrix, M2.one]

theorem toMatrix_zero : M2.toMatrix (M2.zero : M2 ℝ) = 0 := by
  ext i j
  fin_cases i <;> fin_cases j <;> simp [M2.toMatrix, M2.zero]

theorem gramSum_real : ∀ (ks : List (List (List EV))) (g : M2 ℝ), gramSum realSqrtRing ks = some g →
    ∃ Ms : List (Matrix (Fin 2) (Fin 2) ℝ), Ms.length = ks.length ∧ (Ms.map fun K => Kᵀ * K).sum = M2.toMatrix g := by
  intro ks
  induction ks with
  | nil =>
    intro g h
    simp only [gramSum, Option.some.injEq] at h
    exact ⟨[], rfl, by simp [← h, toMatrix_zero]⟩
  | cons k ks ih =>
    intro g h
    simp only [gramSum] at h
    split at h
    · rename_i m acc hm hacc
      cases h
      obtain ⟨Ms, hl, hs⟩ := ih acc hacc
      exact ⟨M2.toMatrix m :: Ms, by simp [hl], by simp [hs, toMatrix_add, toMatrix_gram]⟩
    · cases h

/-- `Complete` in ℝ: there are real 2×2 matrices (one per operator of the model) with Σ KᵀK = 1. -/
theorem complete_real (ks : List (List (List EV))) (h : Complete realSqrtRing ks) :
    ∃ Ms : List (Matrix (Fin 2) (Fin 2) ℝ), Ms.length = ks.length ∧ (Ms.map fun K => Kᵀ * K).sum = 1 := by
  obtain ⟨Ms, hl, hs⟩ := gramSum_real ks M2.one h
  exact ⟨Ms, hl, by rw [hs, toMatrix_one]⟩

/-- amplitude damping with excited-state population, over the reals, on its whole documented range -/
theorem amplitudeDamping_real (a s : Rat) (h : Kind.inRange .amplitudeDamping [.fin a, .fin s] = true) :
    ∃ Ms : List (Matrix (Fin 2) (Fin 2) ℝ), Ms.length = 4 ∧ (Ms.map fun K => Kᵀ * K).sum = 1 := by
  obtain ⟨Ms, hl, hs⟩ := complete_real _ (QV.Props.C17.kraus_complete_amplitudeDamping realSqrtRing a s h).2
  exact ⟨Ms, by simpa [specKraus] using hl, hs⟩

example : Kind.inRange .amplitudeDamping [.fin (3/10), .fin (1/5)] = true := by decide +kernel

/-! ## a complete Kraus family is a physical channel (any dimension, complex matrices) -/

variable {n : Type} [Fintype n] [DecidableEq n]

/-- the channel ρ ↦ Σ K ρ K† -/
def channel (Ks : List (Matrix n n ℂ)) (ρ : Matrix n n ℂ) : Matrix n n ℂ := (Ks.map fun K => K * ρ * Kᴴ).sum

theorem trace_channel (Ks : List (Matrix n n ℂ)) (ρ : Matrix n n ℂ) :
    (channel Ks ρ).trace = ((Ks.map fun K => Kᴴ * K).sum * ρ).trace := by
  induction Ks with
  | nil => simp [channel]
  | cons K Ks ih =>
    simp only [channel, List.map_cons, List.sum_cons, Matrix.trace_add, Matrix.add_mul] at ih ⊢
    rw [ih, Matrix.trace_mul_cycle K ρ Kᴴ]

/-- trace preservation: Σ K†K = 1 ⇒ tr(Σ KρK†) = tr ρ -/
theorem channel_trace_preserving (Ks : List (Matrix n n ℂ)) (h : (Ks.map fun K => Kᴴ * K).sum = 1) (ρ : Matrix n n ℂ) :
    (channel Ks ρ).trace = ρ.trace := by
  rw [trace_channel, h, Matrix.one_mul]

/-- complete positivity on states: ρ ⪰ 0 ⇒ Σ KρK† ⪰ 0 -/
theorem channel_posSemidef (Ks : List (Matrix n n ℂ)) (ρ : Matrix n n ℂ) (hρ : ρ.PosSemidef) :
    (channel Ks ρ).PosSemidef := by
  induction Ks with
  | nil => simpa [channel] using Matrix.PosSemidef.zero
  | cons K Ks ih =>
    simp only [channel, List.map_cons, List.sum_cons] at ih ⊢
    exact (hρ.mul_mul_conjTranspose_same K).add ih

example : ((1 : Matrix (Fin 2) (Fin 2) ℂ)).PosSemidef := Matrix.PosSemidef.one

/-! ## the exponential facts behind the thermal Choi matrix -/

/-- for T1, T2 > 0, gate time t ≥ 0 and T2 ≤ 2·T1: a = 1 - e^{-t/T1} ∈ [0,1] and (e^{-t/T2})² ≤ 1 - a -/
theorem thermal_exp_facts (t1 t2 t : ℝ) (h1 : 0 < t1) (h2 : 0 < t2) (ht : 0 ≤ t) (h21 : t2 ≤ 2 * t1) :
    0 ≤ 1 - Real.exp (-t / t1) ∧ 1 - Real.exp (-t / t1) ≤ 1 ∧
    Real.exp (-t / t2) * Real.exp (-t / t2) ≤ 1 - (1 - Real.exp (-t / t1)) := by
  refine ⟨?_, ?_, ?_⟩
  · have : Real.exp (-t / t1) ≤ 1 := by
      apply Real.exp_le_one_iff.mpr
      exact div_nonpos_of_nonpos_of_nonneg (by linarith) (le_of_lt h1)
    linarith
  · have := Real.exp_pos (-t / t1); linarith
  · rw [← Real.exp_add]
    have : -t / t2 + -t / t2 ≤ -t / t1 := by
      have e1 : -t / t2 + -t / t2 = -(2 * t) / t2 := by ring
      rw [e1, div_le_div_iff₀ h2 h1]
      nlinarith
    have := Real.exp_le_exp.mpr this
    linarith

example : (0 : ℝ) < 50 ∧ (0 : ℝ) < 70 ∧ (0 : ℝ) ≤ 1 ∧ (70 : ℝ) ≤ 2 * 50 := by norm_num

end QV.Props.C17Deep
