import QuriVerif.Props.ReflectLift
import QuriVerif.Generated.C03Adapters
/-
  C03 over complex operators: what a discharged adapter row `rowOk kind ctor conv = true` MEANS, for all register
  sizes, placements and angles – GIVEN the backend semantics assumed in `Model/C03.sem`.

  TRUSTED PART (not proved here, validated by the correspondence harness on every run): `sem ctor = (k, c)` says
  that the backend constructor `ctor` implements the documented quri-parts gate of kind `k` with the argument
  convention `c` (`same`; `opposite`: the backend rotates by `exp(+iθP/2)`; `halfturns`: angles in units of π).
  Everything below is a statement about the gate `backendGate ctor conv` := the canonical gate of kind `k`
  (`canonical k …`, parameters `φ₀, φ₁, …`; for `opposite` the parameter is negated by the adapter and again by the
  backend, `((var i).neg).neg`), i.e. about the backend constructor AS DESCRIBED BY `sem`.

    * `rowOk_meaning`           `rowOk kind ctor conv = true` ⇒ the adapter's convention is the one `sem` assumes
                                (`(sem ctor).2 = conv`) and, when both kinds have a matrix model, the one-gate
                                template `⟨n, documented gate of kind, [backendGate]⟩` passes `Template.check`;
    * `adapter_row_complex`     for such a template with non-vanishing certificate: for every n, every placement σ,
                                every affine angle substitution and all real angles, the operator of the (assumed)
                                backend gate is `c ·` the operator of the documented gate, `c ≠ 0`;
    * `forward_rows_complex`    the table version over `Generated/C03Adapters.forwardRows`, ONE kernel evaluation
                                `all_rows_ok` (= `Props/C03.forward_rows_sound` + certificates + side conditions).

  NOT expressed at operator level (and why):
    * `halfturns` rows: `rowOk` only compares the convention TAG (`(sem ctor).2 == conv`); the rescaling
      θ ↦ θ/π is not representable on the ring's angle grid (`Angle` = integer combinations of the variables
      plus multiples of π/4), so the matrix identity checked is the one at equal angles;
    * kinds without matrix model (`canonical … = none`: `UnitaryMatrix`, `Measurement`, parametric kinds, backend
      natives): `rowOk` compares kind names only; `rowTemplate = none`, no operator statement;
    * the reverse direction, qubit-order / endianness of multi-qubit matrices, and `sem` itself.
-/
namespace QV.Props.C03Lift
open QV QV.C03 QV.MatSound QV.Props.Reflect

/-- the gate the backend constructor is ASSUMED (`sem`) to implement, fed according to `conv` -/
def backendGate (ctor : BCtor) (conv : Conv) : Option (Nat × Gate) :=
  canonical (sem ctor).1 (conv == .opposite)

/-- the one-gate template a row stands for: documented gate of `kind` vs. the assumed backend gate -/
def rowTemplate (kind : Kind) (ctor : BCtor) (conv : Conv) : Option Template :=
  match canonical kind false, backendGate ctor conv with
  | some (n, target), some (_, body) => some ⟨n, target, [body]⟩
  | _, _ => none

/-- **`rowOk` unfolded** -/
theorem rowOk_meaning (kind : Kind) (ctor : BCtor) (conv : Conv) (h : rowOk kind ctor conv = true) :
    (sem ctor).2 = conv ∧ ∀ t, rowTemplate kind ctor conv = some t → t.check = true := by
  unfold rowOk at h
  simp only [Bool.and_eq_true, beq_iff_eq] at h
  refine ⟨h.1, ?_⟩
  intro t ht
  unfold rowTemplate backendGate at ht
  have h2 := h.2
  cases h1 : canonical kind false with
  | none => rw [h1] at ht; simp at ht
  | some a =>
    obtain ⟨n, target⟩ := a
    cases h3 : canonical (sem ctor).1 (conv == .opposite) with
    | none => rw [h1, h3] at ht; simp at ht
    | some b =>
      obtain ⟨n', body⟩ := b
      rw [h1, h3] at ht h2
      simp only [Option.some.injEq] at ht
      simp only [Bool.and_eq_true] at h2
      rw [← ht]
      exact h2.2

/-- side conditions and certificate evaluated together with `rowOk` -/
def tmplOK (t : Template) : Bool :=
  t.check && t.nz && decide (WellFormed t.nq t.body) && decide (WellFormed t.nq [t.target]) &&
  t.body.all (fun g => decide (g.kind ≠ .UnitaryMatrix)) && decide (t.target.kind ≠ .UnitaryMatrix)

def rowEntryOK (kind : Kind) (ctor : BCtor) (conv : Conv) : Bool :=
  rowOk kind ctor conv &&
  match rowTemplate kind ctor conv with
  | some t => tmplOK t
  | none => true

/-- **the operator-level content of one row** (for any template passing the evaluated conditions) -/
theorem adapter_row_complex (t : Template) (h : tmplOK t = true) {σ : ℕ → ℕ} {n : ℕ}
    (P : Placement σ t.nq n) (as : List Angle) (φ : ℕ → ℝ) :
    ∃ c : ℂ, c ≠ 0 ∧ ∀ r, r < 2 ^ n → ∀ j, j < 2 ^ n →
      opC φ ((t.body.map (Gate.subst as)).map (Gate.relabel σ)) r j
        = c * opC φ [(t.target.subst as).relabel σ] r j := by
  simp only [tmplOK, Bool.and_eq_true, decide_eq_true_eq, List.all_eq_true] at h
  obtain ⟨⟨⟨⟨⟨hc, hz⟩, wfb⟩, wft⟩, hkb⟩, hkt⟩ := h
  exact instance_complex_nz t hc hz wfb wft P as hkb hkt φ

/-- ONE evaluation over every adapter row read from the working tree -/
theorem all_rows_ok :
    (QV.Gen.C03.forwardRows.all fun r => rowEntryOK r.1 r.2.1 r.2.2) = true := by decide +kernel

/-- **every adapter row, on every register size and placement and for all angles, denotes the documented
    operator up to a non-zero scalar – GIVEN `Model/C03.sem`**: the adapter uses the convention `sem` assumes, and
    the backend gate as described by `sem` (body) is `c ·` the documented gate of the row's kind (target). -/
theorem forward_rows_complex (row : Kind × BCtor × Conv) (hrow : row ∈ QV.Gen.C03.forwardRows) :
    (sem row.2.1).2 = row.2.2 ∧
    ∀ t, rowTemplate row.1 row.2.1 row.2.2 = some t →
      ∀ {σ : ℕ → ℕ} {n : ℕ} (_ : Placement σ t.nq n) (as : List Angle) (φ : ℕ → ℝ),
        ∃ c : ℂ, c ≠ 0 ∧ ∀ r, r < 2 ^ n → ∀ j, j < 2 ^ n →
          opC φ ((t.body.map (Gate.subst as)).map (Gate.relabel σ)) r j
            = c * opC φ [(t.target.subst as).relabel σ] r j := by
  have h := List.all_eq_true.mp all_rows_ok row hrow
  unfold rowEntryOK at h
  rw [Bool.and_eq_true] at h
  refine ⟨(rowOk_meaning _ _ _ h.1).1, ?_⟩
  intro t ht σ n P as φ
  have h2 := h.2
  rw [ht] at h2
  exact adapter_row_complex t h2 P as φ

/-! ### the statements are not vacuous -/

/-- how many rows carry an operator statement -/
example : 150 ≤ (QV.Gen.C03.forwardRows.filter fun r => (rowTemplate r.1 r.2.1 r.2.2).isSome).length := by
  decide +kernel

/-- the Qulacs `RX` row (opposite sign convention): template and instance on wire 2 of a 4-qubit register -/
example : rowTemplate .RX .qulacs_qulacspgatepRX .opposite
    = some ⟨1, G .RX [] [0] [Angle.var 0], [G .RX [] [0] [((Angle.var 0).neg).neg]]⟩ := rfl

example (φ : ℕ → ℝ) : ∃ c : ℂ, c ≠ 0 ∧ ∀ r, r < 2 ^ 4 → ∀ j, j < 2 ^ 4 →
    opC φ (([G .RX [] [0] [((Angle.var 0).neg).neg]].map (Gate.subst [⟨[0, 1], 2⟩])).map
        (Gate.relabel fun _ => 2)) r j
      = c * opC φ [((G .RX [] [0] [Angle.var 0]).subst [⟨[0, 1], 2⟩]).relabel fun _ => 2] r j :=
  (forward_rows_complex (.RX, .qulacs_qulacspgatepRX, .opposite) (by decide +kernel)).2 _ rfl
    (⟨fun a ha b hb _ => by omega, fun _ _ => by decide⟩ : Placement (fun _ => 2) 1 4) _ φ

/-- a wrong sign is refuted by the same checker (`Props/C03`): no theorem for it -/
example : rowOk .RX .qulacs_qulacspgatepRX .same = false := by decide +kernel

end QV.Props.C03Lift
