import QuriVerif.Props.ReflectLift
import QuriVerif.Generated.C10Tables
/-
  C10 over complex operators: the rewrite rules of the parametric transpilers, translated from the working tree
  (`Generated/C10Tables`: `rx2rzh`, `ry2rzh`, `pauli`), and binding.

    * `rule_parametric_complex` / `rule_bound_complex`: the rule `Parametric-k(θ) ↦ body` and its non-parametric
      counterpart `k(θ) ↦ body`, instantiated at any affine angle and placed on any wire of any register, preserve
      the complex operator up to a non-zero scalar;
    * `bind_rule_commute`: binding the rewritten parametric gates gives literally the gate list the
      non-parametric rule produces, and binding does not change operators (`opC_bindG`) – so rewriting before or
      after binding gives the same operator up to a scalar;
    * `pauli_decomp_complex`: the Pauli-rotation decomposition of `Model/C10` on 1 and 2 target qubits, all
      Pauli-id vectors, both target orders, EXACT, every placement and angle expression.
  Covered: RX→H·RZ·H (`rx2rzh.rx`), RY→RZ·H·RZ·H·RZ (`ry2rzh.ry`), `keep` rules (trivially), Pauli decomposition
  arity ≤ 2 (arity 3 is `Props/C10Deep`; general arity is the C01 pass `pauliRotDec` of `Proof/RotSound`, a
  different function).  Kernel evaluation: `rules_ok`, `pauli_ok` (one pass each).
  `Props/C10.transpile_bind_commute` reduces the whole-circuit statement to `TablesSound`; its rule clauses are
  what is proved here at ℂ, its `inner` clause (the wrapped non-parametric transpiler preserves the operator) is
  `Props/C01Pipeline.runSeq_sound` for the real transpilers and stays a hypothesis for the model's test doubles.
  The template-level "transpile and bind commute" for C01's decomposition templates is `Props/C01Bind`.
  This file imports no `Generated` file other than `C10Tables`.
-/
namespace QV.Props.C10Lift
open QV QV.MatSound QV.Props.Reflect QV.C10

/-! ### (B) the rewrite rules of the parametric transpilers -/

/-- bind a parametric gate: `ParametricRX ↦ RX` etc. (the angle is already a value / expression) -/
def bindKind : Kind → Kind
  | .ParametricRX => .RX
  | .ParametricRY => .RY
  | .ParametricRZ => .RZ
  | .ParametricPauliRotation => .PauliRotation
  | k => k

def bindG (g : Gate) : Gate := { g with kind := bindKind g.kind }

theorem localMat_bindG (g : Gate) : (bindG g).localMat = g.localMat := by
  unfold bindG Gate.localMat
  cases hk : g.kind <;> simp [bindKind, Gate.p]

/-- **binding does not change the operator** -/
theorem opC_bindG (φ : ℕ → ℝ) (gs : List Gate) : opC φ (gs.map bindG) = opC φ gs := by
  unfold opC
  induction gs using List.reverseRec with
  | nil => rfl
  | append_singleton gs g ih =>
    rw [List.map_append, List.map_singleton, semCirc_snoc, semCirc_snoc, ih, localMat_bindG]
    rfl

/-- the fixed items of a rule body are not themselves parametric kinds -/
def fixedOK (body : List TI) : Bool :=
  body.all fun t => match t with
    | .fx kind _ => decide (bindKind kind = kind)
    | .pr _ => true

/-- binding the body of the parametric rule gives the body of the non-parametric rule, gate for gate -/
theorem bind_rule_body (k : PK) (body : List TI) (hf : fixedOK body = true) :
    (ruleTemplate k body).body.map bindG = (boundTemplate k body).body := by
  unfold ruleTemplate boundTemplate
  simp only [List.map_map]
  apply List.map_congr_left
  intro t ht
  have h := List.all_eq_true.mp hf t ht
  cases t with
  | fx kind ps =>
    simp only [decide_eq_true_eq] at h
    show bindG (G kind [] [0] _) = G kind [] [0] _
    unfold bindG G
    simp only [h]
  | pr k' => cases k' <;> rfl

theorem bind_rule_target (k : PK) (body : List TI) :
    bindG (ruleTemplate k body).target = (boundTemplate k body).target := by
  cases k <;> rfl

/-- the `seq` rules of the translated rewriters -/
def seqRules : List (PK × List TI) :=
  ([(PK.rx, QV.Gen.C10.rx2rzh.rx), (PK.ry, QV.Gen.C10.ry2rzh.ry), (PK.rx, QV.Gen.C10.ry2rzh.rx),
    (PK.ry, QV.Gen.C10.rx2rzh.ry), (PK.rz, QV.Gen.C10.rx2rzh.rz), (PK.rz, QV.Gen.C10.ry2rzh.rz)]).filterMap
    fun kr => match kr.2 with
      | .seq body => some (kr.1, body)
      | _ => none

def tmplOK (t : Template) : Bool :=
  t.check && t.nz && decide (WellFormed t.nq t.body) && decide (WellFormed t.nq [t.target]) &&
  t.body.all (fun g => decide (g.kind ≠ .UnitaryMatrix)) && decide (t.target.kind ≠ .UnitaryMatrix)

/-- ONE evaluation: every translated `seq` rule, parametric and bound form, with non-vanishing certificates -/
theorem rules_ok : (seqRules.all fun kb =>
    tmplOK (ruleTemplate kb.1 kb.2) && tmplOK (boundTemplate kb.1 kb.2) && fixedOK kb.2) = true := by
  decide +kernel

example : seqRules = [(.rx, QV.Gen.C10.nrx), (.ry, QV.Gen.C10.nry)] := by decide

theorem tmpl_complex (t : Template) (h : tmplOK t = true) {σ : ℕ → ℕ} {n : ℕ} (P : Placement σ t.nq n)
    (as : List Angle) (φ : ℕ → ℝ) :
    ∃ c : ℂ, c ≠ 0 ∧ ∀ r, r < 2 ^ n → ∀ j, j < 2 ^ n →
      opC φ ((t.body.map (Gate.subst as)).map (Gate.relabel σ)) r j
        = c * opC φ [(t.target.subst as).relabel σ] r j := by
  simp only [tmplOK, Bool.and_eq_true, decide_eq_true_eq, List.all_eq_true] at h
  obtain ⟨⟨⟨⟨⟨hc, hz⟩, wfb⟩, wft⟩, hkb⟩, hkt⟩ := h
  exact instance_complex_nz t hc hz wfb wft P as hkb hkt φ

/-- **a translated parametric rule preserves the operator**, any angle expression, any wire, any register -/
theorem rule_parametric_complex (kb : PK × List TI) (h : kb ∈ seqRules) {σ : ℕ → ℕ} {n : ℕ}
    (P : Placement σ 1 n) (as : List Angle) (φ : ℕ → ℝ) :
    ∃ c : ℂ, c ≠ 0 ∧ ∀ r, r < 2 ^ n → ∀ j, j < 2 ^ n →
      opC φ (((ruleTemplate kb.1 kb.2).body.map (Gate.subst as)).map (Gate.relabel σ)) r j
        = c * opC φ [((ruleTemplate kb.1 kb.2).target.subst as).relabel σ] r j := by
  have := List.all_eq_true.mp rules_ok kb h
  simp only [Bool.and_eq_true] at this
  exact tmpl_complex _ this.1.1 (show Placement σ (ruleTemplate kb.1 kb.2).nq n from P) as φ

/-- … and so does its non-parametric counterpart -/
theorem rule_bound_complex (kb : PK × List TI) (h : kb ∈ seqRules) {σ : ℕ → ℕ} {n : ℕ}
    (P : Placement σ 1 n) (as : List Angle) (φ : ℕ → ℝ) :
    ∃ c : ℂ, c ≠ 0 ∧ ∀ r, r < 2 ^ n → ∀ j, j < 2 ^ n →
      opC φ (((boundTemplate kb.1 kb.2).body.map (Gate.subst as)).map (Gate.relabel σ)) r j
        = c * opC φ [((boundTemplate kb.1 kb.2).target.subst as).relabel σ] r j := by
  have := List.all_eq_true.mp rules_ok kb h
  simp only [Bool.and_eq_true] at this
  exact tmpl_complex _ this.1.2 (show Placement σ (boundTemplate kb.1 kb.2).nq n from P) as φ

theorem bindG_subst_relabel (σ : ℕ → ℕ) (as : List Angle) (g : Gate) :
    bindG ((g.subst as).relabel σ) = ((bindG g).subst as).relabel σ := rfl

/-- **rewriting before or after binding**: binding the rewritten parametric gate list IS the list the
    non-parametric rule produces from the bound gate; both have the operator of the bound gate up to a
    non-zero scalar -/
theorem bind_rule_commute (kb : PK × List TI) (h : kb ∈ seqRules) {σ : ℕ → ℕ} {n : ℕ}
    (P : Placement σ 1 n) (as : List Angle) (φ : ℕ → ℝ) :
    (((ruleTemplate kb.1 kb.2).body.map (Gate.subst as)).map (Gate.relabel σ)).map bindG
        = ((boundTemplate kb.1 kb.2).body.map (Gate.subst as)).map (Gate.relabel σ) ∧
    bindG (((ruleTemplate kb.1 kb.2).target.subst as).relabel σ)
        = ((boundTemplate kb.1 kb.2).target.subst as).relabel σ ∧
    ∃ c : ℂ, c ≠ 0 ∧ ∀ r, r < 2 ^ n → ∀ j, j < 2 ^ n →
      opC φ ((((ruleTemplate kb.1 kb.2).body.map (Gate.subst as)).map (Gate.relabel σ)).map bindG) r j
        = c * opC φ [bindG (((ruleTemplate kb.1 kb.2).target.subst as).relabel σ)] r j := by
  have e1 : (((ruleTemplate kb.1 kb.2).body.map (Gate.subst as)).map (Gate.relabel σ)).map bindG
      = ((boundTemplate kb.1 kb.2).body.map (Gate.subst as)).map (Gate.relabel σ) := by
    have hfx : fixedOK kb.2 = true := by
      have := List.all_eq_true.mp rules_ok kb h
      simp only [Bool.and_eq_true] at this
      exact this.2
    rw [← bind_rule_body kb.1 kb.2 hfx]
    simp only [List.map_map]
    rfl
  have e2 : bindG (((ruleTemplate kb.1 kb.2).target.subst as).relabel σ)
      = ((boundTemplate kb.1 kb.2).target.subst as).relabel σ := by
    rw [← bind_rule_target]; rfl
  refine ⟨e1, e2, ?_⟩
  rw [e1, e2]
  exact rule_bound_complex kb h P as φ

/-! ### the Pauli-rotation decomposition of `Model/C10`, small arities -/

/-- the template `PauliRotation(ids, θ) ↦ pauliRotDec` on `|ids|` wires, targets ascending or descending -/
def pauliTemplate (rev : Bool) (ids : List ℕ) : Option Template :=
  let n := ids.length
  let ts := if rev then (List.range n).reverse else List.range n
  let g : FG Unit := { kind := .PauliRotation, targets := ts, params := [.val ()], paulis := ids }
  match pauliRotDec g with
  | .ok out => some ⟨n, fgGate g, out.map fgGate⟩
  | .error _ => none

def exactOK (t : Template) : Bool :=
  t.checkExact && decide (WellFormed t.nq t.body) && decide (WellFormed t.nq [t.target]) &&
  t.body.all (fun g => decide (g.kind ≠ .UnitaryMatrix)) && decide (t.target.kind ≠ .UnitaryMatrix)

def pauliCases : List (Bool × List ℕ) :=
  ([1, 2].flatMap idVectors).flatMap fun ids => [(false, ids), (true, ids)]

theorem pauli_ok : (pauliCases.all fun c => match pauliTemplate c.1 c.2 with
    | some t => exactOK t
    | none => false) = true := by decide +kernel

/-- **the Pauli-rotation decomposition (1 and 2 targets) is exact**: every placement, every angle expression -/
theorem pauli_decomp_complex (c : Bool × List ℕ) (hc : c ∈ pauliCases) (t : Template)
    (ht : pauliTemplate c.1 c.2 = some t) {σ : ℕ → ℕ} {n : ℕ} (P : Placement σ t.nq n)
    (as : List Angle) (φ : ℕ → ℝ) :
    ∃ k : ℂ, k ≠ 0 ∧ ∀ r, r < 2 ^ n → ∀ j, j < 2 ^ n →
      opC φ ((t.body.map (Gate.subst as)).map (Gate.relabel σ)) r j
        = k * opC φ [(t.target.subst as).relabel σ] r j := by
  have h := List.all_eq_true.mp pauli_ok c hc
  rw [ht] at h
  simp only [exactOK, Bool.and_eq_true, decide_eq_true_eq, List.all_eq_true] at h
  obtain ⟨⟨⟨⟨hx, wfb⟩, wft⟩, hkb⟩, hkt⟩ := h
  exact instance_exact_complex t hx wfb wft P as hkb hkt φ

/-! ### the statements are not vacuous -/

/-- the RX rule on wire 2 of a 4-qubit register with the symbolic angle `2θ₁ − θ₃ + π/2`:
    `H₂ · ParametricRZ₂(…) · H₂` against `ParametricRX₂(…)`, and after binding `H₂ RZ₂ H₂` against `RX₂` -/
example (φ : ℕ → ℝ) : ∃ c : ℂ, c ≠ 0 ∧ ∀ r, r < 2 ^ 4 → ∀ j, j < 2 ^ 4 →
    opC φ (((boundTemplate .rx QV.Gen.C10.nrx).body.map (Gate.subst [⟨[0, 2, 0, -1], 2⟩])).map
        (Gate.relabel fun _ => 2)) r j
      = c * opC φ [((boundTemplate .rx QV.Gen.C10.nrx).target.subst [⟨[0, 2, 0, -1], 2⟩]).relabel
          fun _ => 2] r j :=
  rule_bound_complex (.rx, QV.Gen.C10.nrx) (by decide)
    (⟨fun a ha b hb _ => by omega, fun _ _ => by decide⟩ : Placement (fun _ => 2) 1 4)
    [⟨[0, 2, 0, -1], 2⟩] φ

/-- … the gate lists spelled out (`Gate` has `BEq` only) -/
example : ((((boundTemplate .rx QV.Gen.C10.nrx).body.map (Gate.subst [⟨[0, 2, 0, -1], 2⟩])).map
      (Gate.relabel fun _ => 2))
    == [G .H [] [2] [], G .RZ [] [2] [⟨[0, 2, 0, -1], 2⟩], G .H [] [2] []]) = true := by decide +kernel
example : ((((ruleTemplate .rx QV.Gen.C10.nrx).body.map (Gate.subst [⟨[0, 2, 0, -1], 2⟩])).map
      (Gate.relabel fun _ => 2))
    == [G .H [] [2] [], G .ParametricRZ [] [2] [⟨[0, 2, 0, -1], 2⟩], G .H [] [2] []]) = true := by
  decide +kernel

example : 18 ≤ pauliCases.length := by decide

end QV.Props.C10Lift
