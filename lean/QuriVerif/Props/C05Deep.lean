import QuriVerif.Model.C05
/-
  C05 (thorough tier): kernel-evaluated exhaustive instances of the executable model, independent of
  the inductive proofs in Props/C05.lean — every pair of Pauli strings on ≤ 3 qubits against the
  specification `actD`, and the three exports against `amp` on sample operators.
-/
namespace QV.Props.C05Deep
open QV.C05

def p1s : List P1 := [.I, .X, .Y, .Z]

/-- all dense strings of length n -/
def allDense : Nat → List (List P1)
  | 0 => [[]]
  | n + 1 => (allDense n).flatMap fun r => p1s.map fun p => p :: r

def sparseOf (ps : List P1) : Label :=
  ((List.range ps.length).zip ps).filter fun e => e.2 != .I

def productOK (n : Nat) : Bool :=
  (allDense n).all fun ps => (allDense n).all fun qs =>
    let p := sparseOf ps
    let q := sparseOf qs
    let r := pauliProduct p q
    (List.range (2 ^ n)).all fun b =>
      (actD ps (actD qs b).2).2 == (actL r.1 b).2 &&
      ((actD qs b).1 + (actD ps (actD qs b).2).1) % 4 == (r.2 + (actL r.1 b).1) % 4 &&
      (actL p b == actD ps b)

theorem product_exhaustive_2q : productOK 2 = true := by decide +kernel
theorem product_exhaustive_3q : productOK 3 = true := by decide +kernel

def sampleA : Op := [([(0, .X), (2, .Y)], ⟨3, -1⟩), ([], ⟨0, 2⟩), ([(1, .Z)], ⟨-2, 5⟩), ([(0, .Y), (1, .Y), (2, .X)], ⟨1, 1⟩)]
def sampleB : Op := [([(0, .Z), (1, .X)], ⟨2, 0⟩), ([(2, .Y)], ⟨0, -3⟩), ([(0, .X), (2, .Y)], ⟨-3, 1⟩)]

def kEq (a b : K) : Bool := a.re == b.re && a.im == b.im

def matSum (a b : Op) (m n : Nat) : K :=
  (List.range 8).foldl (fun s k => K.add s (K.mul (amp a m k) (amp b k n))) K.zero

def exportsOK (a b : Op) : Bool :=
  (List.range 8).all fun m => (List.range 8).all fun n =>
    kEq (tamp (tampRepr a) m n) (amp a m n) &&
    (match sparseOp a (some 3) with
      | .ok (_, f) => kEq (f m n) (amp a m n)
      | .error _ => false) &&
    kEq (amp (mul a b) m n) (matSum a b m n) &&
    kEq (amp (herm a) m n) (K.conj (amp a n m)) &&
    kEq (amp (commutator a b) m n) (K.sub (matSum a b m n) (matSum b a m n))

theorem exports_sample : exportsOK sampleA sampleB = true ∧ exportsOK sampleB sampleA = true := by decide +kernel

end QV.Props.C05Deep
