import QuriVerif.Props.Reflect
import QuriVerif.Proof.NzSound
/-
  From a kernel-checked template on wires `0..nq-1` with symbolic angles to whole circuits, read in ℂ
  (`Props/Reflect`: `K = ℂ`, `ζ = exp(iπ/8)`, `ρ j = exp(i φⱼ / 2)`):

    * `opC_subst`        substituting affine angles for the template variables = changing the real angles;
    * `instance_exact_complex`, `instance_complex`
                         every instance of a template (any affine angles, any placement `σ` on an
                         `n`-qubit register) : body = c · target, `c ≠ 0`;
    * `instance_complex_nz`
                         the same for `check`-ed (up-to-phase) templates carrying the kernel-checked
                         non-vanishing certificate `Template.nz` : unconditional `c ≠ 0`;
    * `replace_complex`  replacing a sub-list inside any context preserves the operator up to `c`;
    * `rewrite_complex`  gate-wise rewriting (`flatMap d`) preserves the operator up to a non-zero scalar.
-/
namespace QV.Props.Reflect
open QV QV.MatSound

/-- real value of an integer linear form in the angles -/
def linVal (φ : ℕ → ℝ) : ℕ → List ℤ → ℝ
  | _, [] => 0
  | i, c :: cs => c * φ i + linVal φ (i + 1) cs

/-- the real angle denoted by the affine angle `Σ cⱼ φⱼ + k·π/4` -/
noncomputable def angleValue (φ : ℕ → ℝ) (a : Angle) : ℝ := a.k * (Real.pi / 4) + linVal φ 0 a.cs

theorem evalExps_rhoC (φ : ℕ → ℝ) (cs : List ℤ) (i : ℕ) :
    Poly.evalExps (rhoC φ) i cs = Complex.exp (Complex.I * (linVal φ i cs : ℂ) / 2) := by
  induction cs generalizing i with
  | nil => simp [Poly.evalExps, linVal]
  | cons c cs ih =>
    rw [Poly.evalExps, ih, rhoC, ← Complex.exp_int_mul, ← Complex.exp_add]
    congr 1
    simp only [linVal]
    push_cast
    ring

/-- `θ(a) = exp(i·a/2)` for the real value of the affine angle `a` -/
theorem theta_complex (φ : ℕ → ℝ) (a : Angle) :
    theta zetaC (rhoC φ) a = Complex.exp (Complex.I * (angleValue φ a : ℂ) / 2) := by
  unfold theta
  rw [evalExps_rhoC, zetaC, ← Complex.exp_int_mul, ← Complex.exp_add]
  congr 1
  unfold angleValue
  push_cast
  ring

/-- the assignment induced by a substitution is again an assignment of real angles -/
theorem substRho_complex (φ : ℕ → ℝ) (as : List Angle) :
    substRho zetaC (rhoC φ) as = rhoC (fun i => angleValue φ (as.getD i {})) := by
  funext i
  rw [substRho, theta_complex, rhoC]

/-- **Substituting affine angles for the variables of a gate list = evaluating the list at the
    substituted real angles.** -/
theorem opC_subst (φ : ℕ → ℝ) (as : List Angle) (gs : List Gate)
    (hk : ∀ g ∈ gs, g.kind ≠ .UnitaryMatrix) :
    opC φ (gs.map (Gate.subst as)) = opC (fun i => angleValue φ (as.getD i {})) gs := by
  unfold opC
  rw [semCirc_subst zetaC_pow_eight (rhoC_ne_zero φ) as gs hk, substRho_complex]

/-- **Every instance of a `checkExact`-ed template, in ℂ**: for all real angles `φ`, all affine angle
    arguments `as`, every placement `σ` into an `n`-qubit register, the instantiated body equals the
    instantiated target gate up to the explicit non-zero factor `√2^(k_body - k_target)`. -/
theorem instance_exact_complex (t : Template) (h : t.checkExact = true)
    (wfb : WellFormed t.nq t.body) (wft : WellFormed t.nq [t.target])
    {σ : ℕ → ℕ} {n : ℕ} (P : Placement σ t.nq n) (as : List Angle)
    (hkb : ∀ g ∈ t.body, g.kind ≠ .UnitaryMatrix) (hkt : t.target.kind ≠ .UnitaryMatrix)
    (φ : ℕ → ℝ) :
    ∃ c : ℂ, c ≠ 0 ∧ ∀ r, r < 2 ^ n → ∀ j, j < 2 ^ n →
      opC φ ((t.body.map (Gate.subst as)).map (Gate.relabel σ)) r j
        = c * opC φ [(t.target.subst as).relabel σ] r j :=
  ⟨_, Template.placed_exact_ne_zero zetaC_pow_eight two_ne_zero t,
    Template.instance_exact zetaC_pow_eight (rhoC_ne_zero φ) two_ne_zero t h wfb wft P as hkb hkt⟩

/-- **Every instance of a `check`-ed template, in ℂ** (non-vanishing of the two template operators
    at the substituted angles is a hypothesis; it holds for unitaries). -/
theorem instance_complex (t : Template) (h : t.check = true)
    (wfb : WellFormed t.nq t.body) (wft : WellFormed t.nq [t.target])
    {σ : ℕ → ℕ} {n : ℕ} (P : Placement σ t.nq n) (as : List Angle)
    (hkb : ∀ g ∈ t.body, g.kind ≠ .UnitaryMatrix) (hkt : t.target.kind ≠ .UnitaryMatrix)
    (φ : ℕ → ℝ)
    (k l : ℕ) (hk : k < 2 ^ t.nq)
    (hneT : opC (fun i => angleValue φ (as.getD i {})) [t.target] k l ≠ 0)
    (k' l' : ℕ) (hk' : k' < 2 ^ t.nq)
    (hneB : opC (fun i => angleValue φ (as.getD i {})) t.body k' l' ≠ 0) :
    ∃ c : ℂ, c ≠ 0 ∧ ∀ r, r < 2 ^ n → ∀ j, j < 2 ^ n →
      opC φ ((t.body.map (Gate.subst as)).map (Gate.relabel σ)) r j
        = c * opC φ [(t.target.subst as).relabel σ] r j := by
  unfold opC at hneT hneB
  rw [← substRho_complex] at hneT hneB
  exact Template.instance_sound zetaC_pow_eight (rhoC_ne_zero φ) t h wfb wft P as hkb hkt
    k l hk hneT k' l' hk' hneB

/-- **Replacement inside a circuit, in ℂ** -/
theorem replace_complex (n : ℕ) (pre mid mid' post : List Gate) (wfm : WellFormed n mid)
    (wfm' : WellFormed n mid') (wfp : WellFormed n post) (φ : ℕ → ℝ) (c : ℂ)
    (h : ∀ r, r < 2 ^ n → ∀ k, k < 2 ^ n → opC φ mid r k = c * opC φ mid' r k) :
    ∀ r, r < 2 ^ n → ∀ j, opC φ (pre ++ mid ++ post) r j = c * opC φ (pre ++ mid' ++ post) r j :=
  replace_sound n pre mid mid' post wfm wfm' wfp c h

/-- **Whole-circuit rewriting, in ℂ**: if every gate `g` of a well-formed `n`-qubit circuit is
    replaced by a well-formed list `d g` with `⟦d g⟧ = c_g ⟦g⟧`, `c_g ≠ 0`, then
    `⟦gs.flatMap d⟧ = c ⟦gs⟧` for some `c ≠ 0`. -/
theorem rewrite_complex (n : ℕ) (d : Gate → List Gate) (gs : List Gate) (wf : WellFormed n gs)
    (wfd : ∀ g ∈ gs, WellFormed n (d g)) (φ : ℕ → ℝ)
    (h : ∀ g ∈ gs, ∃ c : ℂ, c ≠ 0 ∧
      ∀ r, r < 2 ^ n → ∀ k, k < 2 ^ n → opC φ (d g) r k = c * opC φ [g] r k) :
    ∃ c : ℂ, c ≠ 0 ∧ ∀ r, r < 2 ^ n → ∀ j, opC φ (gs.flatMap d) r j = c * opC φ gs r j :=
  flatMap_scalar n d gs wf wfd h

/-! ### non-vacuity: `RX(θ) = H · RZ(θ) · H`, instantiated at `θ = 2φ₁ + 3π/4` on wire 2 of 4 -/

private def rxT : Template :=
  ⟨1, G .RX [] [0] [Angle.var 0], [G .H [] [0], G .RZ [] [0] [Angle.var 0], G .H [] [0]]⟩
private theorem rxT_exact : rxT.checkExact = true := by decide +kernel

example (φ : ℕ → ℝ) : ∃ c : ℂ, c ≠ 0 ∧ ∀ r, r < 2 ^ 4 → ∀ j, j < 2 ^ 4 →
    opC φ [G .H [] [2], G .RZ [] [2] [Angle.subst [⟨[0, 2], 3⟩] (Angle.var 0)], G .H [] [2]] r j
      = c * opC φ [G .RX [] [2] [Angle.subst [⟨[0, 2], 3⟩] (Angle.var 0)]] r j :=
  instance_exact_complex rxT rxT_exact (by decide) (by decide)
    (σ := fun q => q + 2) (n := 4) ⟨fun a _ b _ h => by omega, fun q hq => by have : q < 1 := hq; omega⟩
    [⟨[0, 2], 3⟩] (by decide) (by decide) φ

/-! ### `check`-ed templates with the non-vanishing certificate `Template.nz`: unconditional -/

/-- **Every instance of a `check`-ed template with `nz` certificate, in ℂ**: for all real angles `φ`,
    all affine angle arguments `as`, every placement `σ` into an `n`-qubit register, the instantiated
    body equals the instantiated target gate up to a non-zero complex factor. -/
theorem instance_complex_nz (t : Template) (h : t.check = true) (hz : t.nz = true)
    (wfb : WellFormed t.nq t.body) (wft : WellFormed t.nq [t.target])
    {σ : ℕ → ℕ} {n : ℕ} (P : Placement σ t.nq n) (as : List Angle)
    (hkb : ∀ g ∈ t.body, g.kind ≠ .UnitaryMatrix) (hkt : t.target.kind ≠ .UnitaryMatrix)
    (φ : ℕ → ℝ) :
    ∃ c : ℂ, c ≠ 0 ∧ ∀ r, r < 2 ^ n → ∀ j, j < 2 ^ n →
      opC φ ((t.body.map (Gate.subst as)).map (Gate.relabel σ)) r j
        = c * opC φ [(t.target.subst as).relabel σ] r j :=
  Template.instance_sound_nz zetaC_pow_eight (rhoC_ne_zero φ) two_ne_zero t h hz wfb wft P as hkb hkt

/-- the certificate alone: neither operator of the template vanishes, for any real angles -/
theorem nz_complex (t : Template) (hz : t.nz = true)
    (wfb : WellFormed t.nq t.body) (wft : WellFormed t.nq [t.target]) (φ : ℕ → ℝ) :
    (∃ l, opC φ [t.target] 0 l ≠ 0) ∧ (∃ l, opC φ t.body 0 l ≠ 0) :=
  Template.nz_sem zetaC_pow_eight (rhoC_ne_zero φ) two_ne_zero t hz wfb wft

/-! ### sanity: the certificate holds (kernel-checked) for real templates of C01 -/

private theorem rxT_nz : rxT.nz = true := by decide +kernel

/-- `CNOT2CZHTranspiler` -/
private def cnotT : Template :=
  ⟨2, G .CNOT [0] [1] [], [G .H [] [1] [], G .CZ [0] [1] [], G .H [] [1] []]⟩
private theorem cnotT_check : cnotT.check = true := by decide +kernel
private theorem cnotT_nz : cnotT.nz = true := by decide +kernel

/-- `U3ToRZSqrtXTranspiler` (three angle variables, scale exponent 4 on the body) -/
private def u3T : Template :=
  ⟨1, G .U3 [] [0] [⟨[1], 0⟩, ⟨[0, 1], 0⟩, ⟨[0, 0, 1], 0⟩],
    [G .RZ [] [0] [⟨[0, 0, 1], 0⟩], G .SqrtX [] [0] [], G .RZ [] [0] [⟨[1], 4⟩], G .SqrtX [] [0] [],
     G .RZ [] [0] [⟨[0, 1], 4⟩]]⟩
private theorem u3T_check : u3T.check = true := by decide +kernel
private theorem u3T_nz : u3T.nz = true := by decide +kernel

/-- `TOFFOLI2HTTdagCNOTTranspiler` (3 qubits, 15 gates) -/
private def toffoliT : Template :=
  ⟨3, G .TOFFOLI [0, 1] [2] [],
    [G .H [] [2] [], G .CNOT [1] [2] [], G .Tdag [] [2] [], G .CNOT [0] [2] [], G .T [] [2] [],
     G .CNOT [1] [2] [], G .Tdag [] [2] [], G .CNOT [0] [2] [], G .T [] [1] [], G .T [] [2] [],
     G .H [] [2] [], G .CNOT [0] [1] [], G .T [] [0] [], G .Tdag [] [1] [], G .CNOT [0] [1] []]⟩
private theorem toffoliT_check : toffoliT.check = true := by decide +kernel
private theorem toffoliT_nz : toffoliT.nz = true := by decide +kernel

/-- the U3 decomposition at arbitrary affine angles `a b c`, on wire 1 of a 3-qubit register:
    equal up to a non-zero factor for all real `φ` – no side conditions left -/
example (a b c : Angle) (φ : ℕ → ℝ) : ∃ z : ℂ, z ≠ 0 ∧ ∀ r, r < 2 ^ 3 → ∀ j, j < 2 ^ 3 →
    opC φ ((u3T.body.map (Gate.subst [a, b, c])).map (Gate.relabel (· + 1))) r j
      = z * opC φ [(u3T.target.subst [a, b, c]).relabel (· + 1)] r j :=
  instance_complex_nz u3T u3T_check u3T_nz (by decide) (by decide)
    (n := 3) ⟨fun a _ b _ h => by omega, fun q hq => by have : q < 1 := hq; omega⟩
    [a, b, c] (by decide) (by decide) φ

/-- Toffoli decomposition placed on wires 4,2,0 (in this order) of a 5-qubit register -/
example (φ : ℕ → ℝ) : ∃ z : ℂ, z ≠ 0 ∧ ∀ r, r < 2 ^ 5 → ∀ j, j < 2 ^ 5 →
    opC φ ((toffoliT.body.map (Gate.subst [])).map (Gate.relabel (fun q => 4 - 2 * q))) r j
      = z * opC φ [(toffoliT.target.subst []).relabel (fun q => 4 - 2 * q)] r j :=
  instance_complex_nz toffoliT toffoliT_check toffoliT_nz (by decide) (by decide)
    (n := 5) ⟨fun a ha b hb h => by have : a < 3 := ha; have : b < 3 := hb; omega,
      fun q hq => by have : q < 3 := hq; omega⟩
    [] (by decide) (by decide) φ

end QV.Props.Reflect
