import QuriVerif.Props.ReflectLift
import QuriVerif.Proof.ConsSound
/-
  C15 over complex operators, for ALL register sizes and ALL parameter values: circuits built from
  certified blocks conserve what the blocks conserve.

  `ConservesOn n w A`  :=  `∀ r j < 2^n, w r ≠ w j → A r j = 0`   (no entry between different sectors).
  With `A = opC φ gs` (the `embedAct` semantics of the gate list with the documented local matrices,
  angle variables instantiated by the real numbers `φ`):

    * `conserves_comp_complex`     closed under composition (any two well-formed lists);
    * `conserves_placed_complex`   a `k`-wire block that conserves a local weight, placed by an injective
                                   wire map `σ` into `n` wires, conserves the global weight, for the pairs
                                   `WeightPlaced`: number/number, parity/parity, S_z/S_z with spin lists of
                                   lengths `k`, `n` that agree along `σ`;
    * `block_conserves_complex`    `blockConserves k ws real gs = true` (the model's Bool, the kernel check
                                   of every generated obligation `block_i_ok`) implies that the operator of
                                   the block conserves every `w ∈ ws`, for ALL values of its angle variables
                                   – also after substituting affine angle expressions (`Gate.subst`);
    * `ansatz_conserves_complex`   a circuit that is the concatenation of placed (`Gate.relabel σ`),
                                   instantiated (`Gate.subst as`) certified blocks conserves the global
                                   weight for all `n`, all placements, all parameter values.

  Covered: every block certified through `blockConserves` (matrix check).  Hypotheses that stay (all
  decidable, discharged by `decide` in the examples): the block is `WellFormed k` (distinct wires `< k`),
  contains no `UnitaryMatrix` gate (angle substitution is not defined for a literal matrix), `σ` is
  injective on `0..k-1` with values `< n` (`Placement`), spin lists have the lengths `k` and `n`.
  NOT covered: blocks certified only through `pauliGroupConserves` (the Pauli-algebra commutator check for
  wide rotation groups, `block_i_pauli_ok` without a matrix check) – no link from that decision procedure to
  `semCirc` is proved here; the `real` flag (`Mat.isReal`) is not used; that a concrete ansatz builder emits
  exactly a concatenation of placed blocks is the extraction step of the harness (not a Lean statement).

  This file does not import `Generated/C15Blocks` (regenerated on every run; it fails to build exactly
  when a window of a real builder does not conserve); the examples below re-state three of its blocks
  verbatim.  `Generated/C15Lifted` (also regenerated every run) applies `block_conserves_complex` to every
  matrix-certified block extracted from the working tree.
-/
namespace QV.Props.C15Lift
open QV QV.C15 QV.MatSound QV.Props.Reflect

/-- (i) composition -/
theorem conserves_comp_complex {ω : Type} (φ : ℕ → ℝ) (n : ℕ) (w : ℕ → ω) (a b : List Gate)
    (wb : WellFormed n b) (ha : ConservesOn n w (opC φ a)) (hb : ConservesOn n w (opC φ b)) :
    ConservesOn n w (opC φ (a ++ b)) :=
  conserves_append n w a b wb ha hb

/-- (ii) placement -/
theorem conserves_placed_complex (φ : ℕ → ℝ) {σ : ℕ → ℕ} {k n : ℕ} (P : Placement σ k n)
    (wl wg : Weight) (hw : WeightPlaced σ k n wl wg) (gs : List Gate) (wf : WellFormed k gs)
    (h : ConservesOn k (wl.eval k) (opC φ gs)) :
    ConservesOn n (wg.eval n) (opC φ (gs.map (Gate.relabel σ))) :=
  conserves_placed P _ _ (weightPlaced_compat P hw) gs wf h

/-- (iii) the kernel check implies conservation, for all angle values and all substitutions -/
theorem block_conserves_complex (k : ℕ) (ws : List Weight) (real : Bool) (gs : List Gate)
    (wf : WellFormed k gs) (h : blockConserves k ws real gs = true) (φ : ℕ → ℝ) :
    ∀ w ∈ ws, ConservesOn k (w.eval k) (opC φ gs) :=
  blockConserves_sound zetaC_pow_eight (rhoC_ne_zero φ) k ws real gs wf h

theorem block_subst_conserves_complex (k : ℕ) (ws : List Weight) (real : Bool) (gs : List Gate)
    (wf : WellFormed k gs) (hk : ∀ g ∈ gs, g.kind ≠ .UnitaryMatrix)
    (h : blockConserves k ws real gs = true) (as : List Angle) (φ : ℕ → ℝ) :
    ∀ w ∈ ws, ConservesOn k (w.eval k) (opC φ (gs.map (Gate.subst as))) :=
  block_subst_conserves zetaC_pow_eight (rhoC_ne_zero φ) k ws real gs wf hk h as

/-- **concatenations of placed certified blocks conserve the promised weight**, all `n`, all `φ` -/
theorem ansatz_conserves_complex (n : ℕ) (wg : Weight) (blocks : List PlacedBlock)
    (h : ∀ b ∈ blocks, b.OK n wg) (φ : ℕ → ℝ) :
    WellFormed n (blocks.flatMap PlacedBlock.gates) ∧
    ConservesOn n (wg.eval n) (opC φ (blocks.flatMap PlacedBlock.gates)) :=
  ansatz_conserves zetaC_pow_eight (rhoC_ne_zero φ) n wg blocks h

/-- the weights in closed form: number = `Σ bit_i`, parity = number mod 2, `S_z = Σ ± bit_i` -/
theorem number_is_popcount (n x : ℕ) : Weight.eval n .number x = addW (fun _ => 1) n x :=
  eval_number n x
theorem parity_is_mod2 (n x : ℕ) : Weight.eval n .parity x = addW (fun _ => 1) n x % 2 :=
  eval_parity n x
theorem sz_is_signed (spins : List ℕ) (n x : ℕ) (h : spins.length = n) :
    Weight.eval n (.sz spins) x = addW (szCoeff spins) n x := eval_sz spins n x h

/-! ### the statements are not vacuous -/

/-- wire map of a two-wire block -/
def pair (c t : ℕ) : ℕ → ℕ := fun i => if i = 0 then c else t

theorem placement_pair (c t n : ℕ) (hc : c < n) (ht : t < n) (hct : c ≠ t) :
    Placement (pair c t) 2 n := by
  constructor
  · intro a ha b hb h
    have ha' : a = 0 ∨ a = 1 := by omega
    have hb' : b = 0 ∨ b = 1 := by omega
    rcases ha' with rfl | rfl <;> rcases hb' with rfl | rfl <;> simp [pair] at h <;> omega
  · intro q hq
    unfold pair
    split <;> assumption

/-- block 1 of `Generated/C15Blocks` (the real-valued number-conserving "A gate", 48 instances) -/
def blockA : List Gate := [G .CNOT [0] [1] [], G .RY [] [0] [⟨[1], 0⟩], G .CNOT [1] [0] [],
  G .RY [] [0] [⟨[-1], 0⟩], G .CNOT [0] [1] []]
theorem blockA_ok : blockConserves 2 [.number] true blockA = true := by decide +kernel

/-- block 6: CZ -/
def blockCZ : List Gate := [G .CZ [0] [1] []]
theorem blockCZ_ok : blockConserves 2 [.number] false blockCZ = true := by decide +kernel

/-- block 15: Givens rotation between two spin-up orbitals (number and S_z) -/
def blockG : List Gate := [G .CNOT [0] [1] [], G .RY [] [0] [⟨[1], 0⟩], G .CNOT [1] [0] [],
  G .RY [] [0] [⟨[-1], 0⟩], G .CNOT [1] [0] [], G .CNOT [0] [1] []]
theorem blockG_ok : blockConserves 2 [.number, .sz [0, 0]] false blockG = true := by decide +kernel

/-- A(θ₀) on (0,1), A(θ₁) on (2,3), CZ on (1,2), A(θ₂ − θ₀ + π/2) on (3,1): a 4-qubit circuit -/
def exBlocks : List PlacedBlock :=
  [⟨2, blockA, [.number], true, [Angle.var 0], pair 0 1⟩,
   ⟨2, blockA, [.number], true, [Angle.var 1], pair 2 3⟩,
   ⟨2, blockCZ, [.number], false, [], pair 1 2⟩,
   ⟨2, blockA, [.number], true, [⟨[-1, 0, 1], 2⟩], pair 3 1⟩]

theorem exBlocks_ok : ∀ b ∈ exBlocks, b.OK 4 .number := by
  intro b hb
  simp only [exBlocks, List.mem_cons, List.mem_nil_iff, or_false] at hb
  rcases hb with rfl | rfl | rfl | rfl
  · exact ⟨by decide, by decide, blockA_ok, placement_pair 0 1 4 (by decide) (by decide) (by decide),
      .number, by simp, .number⟩
  · exact ⟨by decide, by decide, blockA_ok, placement_pair 2 3 4 (by decide) (by decide) (by decide),
      .number, by simp, .number⟩
  · exact ⟨by decide, by decide, blockCZ_ok, placement_pair 1 2 4 (by decide) (by decide) (by decide),
      .number, by simp, .number⟩
  · exact ⟨by decide, by decide, blockA_ok, placement_pair 3 1 4 (by decide) (by decide) (by decide),
      .number, by simp, .number⟩

/-- the 16-gate circuit conserves the particle number for all real θ₀, θ₁, θ₂ -/
example (φ : ℕ → ℝ) (r j : ℕ) (hr : r < 2 ^ 4) (hj : j < 2 ^ 4)
    (h : Weight.eval 4 .number r ≠ Weight.eval 4 .number j) :
    opC φ (exBlocks.flatMap PlacedBlock.gates) r j = 0 :=
  (ansatz_conserves_complex 4 .number exBlocks exBlocks_ok φ).2 r hr j hj h

/-- e.g. no amplitude from `|0011⟩` (index 3, two particles) to `|0111⟩` (index 7, three particles) -/
example (φ : ℕ → ℝ) : opC φ (exBlocks.flatMap PlacedBlock.gates) 7 3 = 0 :=
  (ansatz_conserves_complex 4 .number exBlocks exBlocks_ok φ).2 7 (by decide) 3 (by decide) (by decide)

/-- Givens rotations between the spin-up orbitals (0,2) and, with the block certified for spin-down
    (`sz [1,1]`), … here only spin-up: on a register with spins up,down,up,down the placed block conserves
    `S_z` -/
example (φ : ℕ → ℝ) : ConservesOn 4 (Weight.eval 4 (.sz [0, 1, 0, 1]))
    (opC φ ((blockG.map (Gate.subst [Angle.var 5])).map (Gate.relabel (pair 0 2)))) := by
  have hP := placement_pair 0 2 4 (by decide) (by decide) (by decide)
  refine conserves_placed_complex φ hP (.sz [0, 0]) (.sz [0, 1, 0, 1])
    (.sz [0, 0] [0, 1, 0, 1] rfl rfl ?_) _ (wellFormed_subst 2 blockG _ (by decide)) ?_
  · intro a ha
    have : a = 0 ∨ a = 1 := by omega
    rcases this with rfl | rfl <;> rfl
  · exact block_subst_conserves_complex 2 _ false blockG (by decide) (by decide) blockG_ok _ φ
      (.sz [0, 0]) (by simp)

/-- the same block placed across different spins (0 ↦ 0 up, 1 ↦ 1 down) is NOT covered: the side
    condition of `WeightPlaced.sz` fails -/
example : ¬ ∀ a, a < 2 → (([0, 0] : List ℕ).getD a 0 == 0) = (([0, 1, 0, 1] : List ℕ).getD (pair 0 1 a) 0 == 0) := by
  intro h
  have := h 1 (by decide)
  simp [pair] at this

end QV.Props.C15Lift
