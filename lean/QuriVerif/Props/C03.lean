import QuriVerif.Model.C03
import QuriVerif.Generated.C03Adapters
/-
  C03 — Backend circuit conversion preserves circuit semantics.

  `forward_rows_sound`: every row of every adapter's name table read from the working tree
  (quri-parts kind ↦ backend constructor, with the argument convention its branch code uses)
  maps the gate to a backend constructor whose assumed semantics (Model/C03.lean `sem`) is the
  documented matrix of that gate up to global phase, for all angles (exact ring, kernel).
  `shapes_as_modelled`: the functions holding the argument-order / sign / endianness logic are
  the ones the argument conventions were read from (normalised-AST equality with golden copies).
  The reverse direction and multi-qubit matrix endianness are covered by the round-trip
  correspondence of harness/c03.py (backends' own simulators), not by a theorem: `_partial`.
-/
namespace QV.Props.C03
open QV QV.C03

theorem forward_rows_sound :
    (QV.Gen.C03.forwardRows.all fun r => rowOk r.1 r.2.1 r.2.2) = true := by decide +kernel

theorem shapes_as_modelled : (QV.Gen.C03.shapeFlags.all (·.2)) = true := by decide

/-- reverse tables only name kinds of the documented vocabulary, and each backend gate name is
    mapped to one kind (no duplicate keys with different values survive in the literal) -/
theorem reverse_rows_functional :
    (QV.Gen.C03.reverseRows.all fun r => QV.Gen.C03.reverseRows.all fun r' =>
      !(r.1 == r'.1 && r.2.1 == r'.2.1) || r.2.2 == r'.2.2) = true := by decide

/-! non-vacuity / sanity of the checker itself: a wrong sign or a wrong constructor is refuted -/
example : rowOk .RX .qulacs_qulacspgatepRX .same = false := by decide +kernel
example : rowOk .RX .qulacs_qulacspgatepRY .opposite = false := by decide +kernel
example : rowOk .RX .qulacs_qulacspgatepRX .opposite = true := by decide +kernel

end QV.Props.C03
