import QuriVerif.Proof.ShiftSound
import QuriVerif.Props.C09Real
/-
  C09 over complex operators: the parameter-shift rule for CIRCUITS, every register size.

  `Props/C09` proves the shift rule, the chain rule and gradient / Hessian soundness for abstract trigonometric
  expressions `TExp` that are affine in every pair `(cos φ_j, sin φ_j)`; `Props/C09Real` reads `TExp.deriv` as
  `HasDerivAt` over ℝ.  This file supplies the missing link: the expectation value of a circuit whose parametric
  gates are RX / RY / RZ / PauliRotation IS such an expression.

  Objects: `hop φ gs` the honest operator of a gate list, `mv n U ψ` matrix·vector and `sesq n O a b = a†Ob` on the
  `2^n` block, `expv n O ψ = ⟨ψ|O|ψ⟩` (`Proof/BornSound`), `rotM P t = cos(t/2)·1 − i sin(t/2)·P`.
  `O` is ANY matrix (e.g. `DenC`/`DenQ` of an operator with valid labels – no hermiticity is used), `ψ` any vector.

    (1) `rotation_complex`          `hop φ [g] = rotM (opC φ [genGate g]) (angle of g)` for `g` of kind RX, RY, RZ on
                                    any wire or PauliRotation on any distinct wires with any Pauli ids, ANY affine
                                    angle (`Angle`), all real `φ`; `genGate g` = the X / Y / Z / Pauli gate on the
                                    same wires;
    (2) `single_occurrence_shift`   `A ; g(α) ; B` with arbitrary gate lists `A`, `B`: `E(α) = a + b cos α + c sin α`
                                    (`Proof/ShiftSound.sesq_rot`, explicit `a, b, c`), hence
                                    `dE/dα = ½ (E(α+π/2) − E(α−π/2))` as `HasDerivAt`, and `E` at the gate's own angle
                                    is the expectation value of the circuit;
        `expectation_is_texp`       several occurrences with distinct raw indices: the expectation is
                                    `TExp.eval (ptC t) (texp …)`, `texp` affine in every pair and mentioning only
                                    the occurrence indices – exactly the hypotheses of `Props/C09.shift_rule`,
                                    `chain_rule`, `RawDistinct`;
        `shift_rule_occ`            the shift rule for one raw angle among several, `HasDerivAt`;
    (3) `gradient_occ`, `circuit_gradient`   shared parameters / affine maps: when the circuit parameters move in
                                    a direction `d`, occurrence `k` moves with velocity `v_k` (the linear part of its
                                    angle applied to `d`) and the derivative is `Σ_k v_k·½(E(t_k+π/2) − E(t_k−π/2))`,
                                    each pair of shifts applied to ONE occurrence (what `parameter_shift_gradient`
                                    computes via `get_shifted_parameters_and_coef`); `circuit_expectation` ties the
                                    occurrence form to the gate list;
    (4) `hessian_symmetric`         mixed second derivatives of the expectation commute (`Props/C09.deriv_commute`).
  Hypotheses that stay: the rotation gates are well placed (`RotGate n`: no controls, wires distinct and `< n`), the
  fixed parts between them are well-formed (`PCircOK`) and, for (3), do not depend on the angle assignment
  (`Static`; `static_of_noParams`: gate lists without parameters and without literal matrices are static).  The
  parametric kinds `ParametricRX` … have the same local matrices as their bound kinds (`C10Lift.opC_bindG`).
  Not covered: rotation gates with controls, other parametric kinds (U1/U2/U3 angles), finite-shot estimators.
-/
namespace QV.Props.C09Lift
open QV QV.MatSound QV.Props.Reflect QV.C09 QV.C09.TExp QV.Props.C09
open scoped BigOperators

/-! ### the abstract layer over ℂ-valued expressions of real angles -/

/-- `TExp.deriv v e` is the derivative of `s ↦ E(t + s·v)` at `s = 0`, complex coefficients -/
theorem hasDerivAt_evalC (e : TExp ℂ) (t v : ℕ → ℝ) :
    HasDerivAt (fun s : ℝ => eval (ptC fun j => t j + s * v j) e)
      (eval (ptC t) (TExp.deriv (fun j => (v j : ℂ)) e)) 0 := by
  have hlin : ∀ j, HasDerivAt (fun s : ℝ => t j + s * v j) (v j) 0 := by
    intro j
    have := ((hasDerivAt_id (0 : ℝ)).mul_const (v j)).const_add (t j)
    simpa using this
  have h0 : (ptC fun j => t j + 0 * v j) = ptC t := by funext j; simp [ptC]
  induction e with
  | const k => exact hasDerivAt_const (0 : ℝ) k
  | cos j =>
    have := ((hlin j).cos).ofReal_comp
    refine this.congr_deriv ?_
    show ((-Real.sin (t j + 0 * v j) * v j : ℝ) : ℂ) = -(v j : ℂ) * (Real.sin (t j) : ℂ)
    rw [zero_mul, add_zero]; push_cast; ring
  | sin j =>
    have := ((hlin j).sin).ofReal_comp
    refine this.congr_deriv ?_
    show ((Real.cos (t j + 0 * v j) * v j : ℝ) : ℂ) = (v j : ℂ) * (Real.cos (t j) : ℂ)
    rw [zero_mul, add_zero]; push_cast; ring
  | add a b iha ihb => exact iha.add ihb
  | mul a b iha ihb =>
    refine (iha.mul ihb).congr_deriv ?_
    show _ = eval (ptC t) (TExp.deriv _ a) * eval (ptC t) b + eval (ptC t) a * eval (ptC t) (TExp.deriv _ b)
    rw [h0]

/-- the angle vector with coordinate `k` moved by `δ` -/
def bump (t : ℕ → ℝ) (k : ℕ) (δ : ℝ) : ℕ → ℝ := fun j => if j = k then t j + δ else t j

theorem upd_rot (t : ℕ → ℝ) (k : ℕ) : upd (ptC t) k (rot (ptC t k)) = ptC (bump t k (Real.pi / 2)) := by
  funext j
  unfold upd bump ptC rot
  by_cases e : j = k
  · subst e
    simp only [if_true]
    rw [Real.cos_add_pi_div_two, Real.sin_add_pi_div_two]
    push_cast; rfl
  · simp only [e, if_false]

theorem upd_rotInv (t : ℕ → ℝ) (k : ℕ) :
    upd (ptC t) k (rotInv (ptC t k)) = ptC (bump t k (-(Real.pi / 2))) := by
  funext j
  unfold upd bump ptC rotInv
  by_cases e : j = k
  · subst e
    simp only [if_true]
    rw [← sub_eq_add_neg, Real.cos_sub_pi_div_two, Real.sin_sub_pi_div_two]
    push_cast; rfl
  · simp only [e, if_false]

/-! ### occurrences: expectation, shift rule, gradient with shared parameters -/

/-- the expectation value of `O` after the occurrences, as a function of the raw angles -/
noncomputable def expOcc (n : ℕ) (χ₀ : ℕ → ℂ) (O : ℕ → ℕ → ℂ) (occs : List Occ) (t : ℕ → ℝ) : ℂ :=
  sesq n O (stateOf n χ₀ t occs) (stateOf n χ₀ t occs)

/-- **the expectation is an expression of the abstract layer, multi-affine in distinct raw angles** -/
theorem expectation_is_texp (n : ℕ) (χ₀ : ℕ → ℂ) (O : ℕ → ℕ → ℂ) (occs : List Occ)
    (hn : (occIdx occs).Nodup) :
    (∀ t, expOcc n χ₀ O occs t = eval (ptC t) (texp n χ₀ O occs)) ∧
    (∀ j, affineIn j (texp n χ₀ O occs) = true) ∧
    ∀ j ∈ raws (texp n χ₀ O occs), j ∈ occIdx occs :=
  ⟨fun t => (texp_eval n χ₀ t occs O).symm, fun j => texp_affine n χ₀ j occs O hn,
    texp_raws n χ₀ occs O⟩

/-- **(2 i) the two-term shift rule for one raw angle**, as a derivative over ℝ: for occurrences with distinct
    indices, `∂E/∂t_k = ½ (E(t_k + π/2) − E(t_k − π/2))` -/
theorem shift_rule_occ (n : ℕ) (χ₀ : ℕ → ℂ) (O : ℕ → ℕ → ℂ) (occs : List Occ)
    (hn : (occIdx occs).Nodup) (t : ℕ → ℝ) (k : ℕ) :
    HasDerivAt (fun s : ℝ => expOcc n χ₀ O occs (bump t k s))
      ((1 / 2 : ℂ) * (expOcc n χ₀ O occs (bump t k (Real.pi / 2))
        - expOcc n χ₀ O occs (bump t k (-(Real.pi / 2))))) 0 := by
  obtain ⟨hE, haff, _⟩ := expectation_is_texp n χ₀ O occs hn
  have hd := hasDerivAt_evalC (texp n χ₀ O occs) t (fun j => if j = k then 1 else 0)
  have hf : (fun s : ℝ => expOcc n χ₀ O occs (bump t k s))
      = fun s : ℝ => eval (ptC fun j => t j + s * (if j = k then (1 : ℝ) else 0)) (texp n χ₀ O occs) := by
    funext s
    rw [hE]
    congr 2
    funext j
    unfold bump
    by_cases e : j = k <;> simp [e]
  rw [hf]
  refine hd.congr_deriv ?_
  have hdir : (fun j => (((if j = k then (1 : ℝ) else 0) : ℝ) : ℂ)) = fun j' => if j' = k then (1 : ℂ) else 0 := by
    funext j; by_cases e : j = k <;> simp [e]
  rw [hdir]
  have hs := shift_rule (Rat.castHom ℂ) (texp n χ₀ O occs) k (ptC t) (haff k)
  unfold dRaw at hs
  rw [hs, upd_rot, upd_rotInv, hE, hE]
  simp

/-- **(3) shared parameters / affine maps**: if the raw angle of occurrence `k` moves with velocity `v k`
    (`v k` = the coefficient of the circuit parameter in the angle of occurrence `k`), the derivative of the
    expectation is `Σ_k v_k · ½ (E(t_k + π/2) − E(t_k − π/2))` – the quantity `parameter_shift_gradient` computes -/
theorem gradient_occ (n : ℕ) (χ₀ : ℕ → ℂ) (O : ℕ → ℕ → ℂ) (occs : List Occ)
    (hn : (occIdx occs).Nodup) (t v : ℕ → ℝ) :
    HasDerivAt (fun s : ℝ => expOcc n χ₀ O occs (fun j => t j + s * v j))
      (lsum (occIdx occs) fun k => (v k : ℂ) * ((1 / 2 : ℂ) *
        (expOcc n χ₀ O occs (bump t k (Real.pi / 2)) - expOcc n χ₀ O occs (bump t k (-(Real.pi / 2)))))) 0 := by
  obtain ⟨hE, haff, hraws⟩ := expectation_is_texp n χ₀ O occs hn
  have hd := hasDerivAt_evalC (texp n χ₀ O occs) t v
  have hf : (fun s : ℝ => expOcc n χ₀ O occs (fun j => t j + s * v j))
      = fun s : ℝ => eval (ptC fun j => t j + s * v j) (texp n χ₀ O occs) := by
    funext s; rw [hE]
  rw [hf]
  refine hd.congr_deriv ?_
  rw [chain_rule (texp n χ₀ O occs) (fun j => (v j : ℂ)) (ptC t) (occIdx occs) hn hraws]
  congr 1
  funext k
  have hs := shift_rule (Rat.castHom ℂ) (texp n χ₀ O occs) k (ptC t) (haff k)
  rw [hs, upd_rot, upd_rotInv, hE, hE]
  simp

/-! ### circuits: from gate lists to occurrences -/

/-- composition of circuits is composition of `mv` -/
theorem mv_hop_append (φ : ℕ → ℝ) (n : ℕ) (a b : List Gate) (wb : WellFormed n b) (ψ : ℕ → ℂ) (x : ℕ)
    (hx : x < 2 ^ n) : mv n (hop φ (a ++ b)) ψ x = mv n (hop φ b) (mv n (hop φ a) ψ) x := by
  unfold mv
  rw [Finset.sum_congr rfl (fun j _ => by rw [hop_append φ n a b wb x j hx, list_range_sum, Finset.sum_mul])]
  rw [Finset.sum_comm]
  apply Finset.sum_congr rfl
  intro k _
  rw [Finset.mul_sum]
  apply Finset.sum_congr rfl
  intro j _
  ring

/-- a rotation gate applied to a vector -/
theorem mv_rotgate (φ : ℕ → ℝ) (n : ℕ) (g : Gate) (hg : RotGate n g) (χ : ℕ → ℂ) (x : ℕ) (hx : x < 2 ^ n) :
    mv n (hop φ [g]) χ x = mv n (rotM (opC φ [genGate g]) (angleValue φ (g.p 0))) χ x := by
  unfold mv
  apply Finset.sum_congr rfl
  intro j hj
  rw [hop_rotation φ n g hg x j hx (Finset.mem_range.mp hj)]

theorem rotGate_wf {n : ℕ} {g : Gate} (hg : RotGate n g) : WellFormed n [g] := by
  intro g' hg'
  simp only [List.mem_singleton] at hg'
  subst hg'
  obtain ⟨hc, h | h⟩ := hg
  · obtain ⟨_, q, ht, hq⟩ := h
    have : g'.wires = [q] := by simp [Gate.wires, hc, ht]
    rw [this]
    exact ⟨by simp, by intro w hw; simp at hw; omega⟩
  · exact ⟨h.2.1, h.2.2⟩

/-- a parametrised circuit: a fixed prefix `A`, then occurrences `(rotation gate, fixed gates after it)` -/
def circOf (A : List Gate) (os : List (Gate × List Gate)) : List Gate :=
  A ++ os.flatMap fun o => o.1 :: o.2

/-- the occurrences as matrices (head = applied last), raw index of the `i`-th occurrence = `k + i` -/
noncomputable def occsFrom (φ : ℕ → ℝ) (k : ℕ) : List (Gate × List Gate) → List Occ
  | [] => []
  | o :: rest => occsFrom φ (k + 1) rest ++ [⟨opC φ [genGate o.1], k, hop φ o.2⟩]

theorem stateOf_snoc (n : ℕ) (t : ℕ → ℝ) (o : Occ) : ∀ (L : List Occ) (χ₀ : ℕ → ℂ),
    stateOf n χ₀ t (L ++ [o]) = stateOf n (mv n o.B (mv n (rotM o.P (t o.j)) χ₀)) t L := by
  intro L
  induction L with
  | nil => intro χ₀; rfl
  | cons a L ih => intro χ₀; simp only [List.cons_append, stateOf, ih]

theorem stateOf_congr (n : ℕ) (t : ℕ → ℝ) : ∀ (L : List Occ) (χ χ' : ℕ → ℂ),
    (∀ x, x < 2 ^ n → χ x = χ' x) → ∀ x, x < 2 ^ n → stateOf n χ t L x = stateOf n χ' t L x := by
  intro L
  induction L with
  | nil => intro χ χ' h x hx; exact h x hx
  | cons a L ih =>
    intro χ χ' h x _
    exact mv_congr n _ _ _ (fun y _ => mv_congr n _ _ _ (fun z hz => ih χ χ' h z hz) y) x

theorem occIdx_occsFrom (φ : ℕ → ℝ) : ∀ (os : List (Gate × List Gate)) (k : ℕ),
    occIdx (occsFrom φ k os) = (List.range' k os.length).reverse := by
  intro os
  induction os with
  | nil => intro k; rfl
  | cons o rest ih =>
    intro k
    simp only [occsFrom, occIdx, List.map_append, List.map_cons, List.map_nil, List.length_cons,
      List.range'_succ, List.reverse_cons]
    rw [← ih (k + 1)]
    rfl

theorem occsFrom_nodup (φ : ℕ → ℝ) (os : List (Gate × List Gate)) (k : ℕ) :
    (occIdx (occsFrom φ k os)).Nodup := by
  rw [occIdx_occsFrom, List.nodup_reverse]
  exact List.nodup_range'

/-- well-formedness of a parametrised circuit on `n` wires -/
def PCircOK (n : ℕ) (os : List (Gate × List Gate)) : Prop :=
  ∀ o ∈ os, RotGate n o.1 ∧ WellFormed n o.2

/-- **the state prepared by the circuit is the state of its occurrences** (on the block) -/
theorem circuit_state (φ : ℕ → ℝ) (n : ℕ) (ψ : ℕ → ℂ) (t : ℕ → ℝ) :
    ∀ (os : List (Gate × List Gate)) (k : ℕ) (A : List Gate), PCircOK n os →
      (∀ i (h : i < os.length), t (k + i) = angleValue φ ((os[i]).1.p 0)) →
      ∀ x, x < 2 ^ n →
        stateOf n (mv n (hop φ A) ψ) t (occsFrom φ k os) x = mv n (hop φ (circOf A os)) ψ x := by
  intro os
  induction os with
  | nil =>
    intro k A _ _ x _
    simp [occsFrom, stateOf, circOf]
  | cons o rest ih =>
    intro k A hok ht x hx
    have ho := hok o (List.mem_cons_self ..)
    have hrest : PCircOK n rest := fun a ha => hok a (List.mem_cons_of_mem _ ha)
    have e1 : circOf A (o :: rest) = circOf (A ++ o.1 :: o.2) rest := by
      simp [circOf, List.append_assoc]
    rw [occsFrom, stateOf_snoc, e1]
    have hχ : ∀ y, y < 2 ^ n →
        mv n (hop φ o.2) (mv n (rotM (opC φ [genGate o.1]) (t k)) (mv n (hop φ A) ψ)) y
          = mv n (hop φ (A ++ o.1 :: o.2)) ψ y := by
      intro y hy
      have e2 : A ++ o.1 :: o.2 = (A ++ [o.1]) ++ o.2 := by simp
      rw [e2, mv_hop_append φ n _ _ ho.2 ψ y hy]
      apply mv_congr
      intro z hz
      rw [mv_hop_append φ n A [o.1] (rotGate_wf ho.1) ψ z hz, mv_rotgate φ n o.1 ho.1 _ z hz]
      have := ht 0 (by simp)
      simp only [Nat.add_zero, List.getElem_cons_zero] at this
      rw [this]
    rw [stateOf_congr n t _ _ _ hχ x hx]
    exact ih (k + 1) (A ++ o.1 :: o.2) hrest (fun i h => by
      have := ht (i + 1) (by simpa using h)
      simpa [Nat.add_assoc, Nat.add_comm 1 i] using this) x hx

/-- the raw angles of the occurrences: occurrence `i` has the value of its gate's affine angle -/
noncomputable def rawAngles (φ : ℕ → ℝ) (os : List (Gate × List Gate)) : ℕ → ℝ :=
  fun i => angleValue φ ((os.getD i default).1.p 0)

/-- **the expectation value of the circuit is the expectation of its occurrences at the raw angles** -/
theorem circuit_expectation (φ : ℕ → ℝ) (n : ℕ) (ψ : ℕ → ℂ) (O : ℕ → ℕ → ℂ) (A : List Gate)
    (os : List (Gate × List Gate)) (hok : PCircOK n os) :
    expv n O (mv n (hop φ (circOf A os)) ψ)
      = expOcc n (mv n (hop φ A) ψ) O (occsFrom φ 0 os) (rawAngles φ os) := by
  unfold expOcc
  rw [expv_eq_sesq]
  apply sesq_congr <;>
  · intro x hx
    rw [circuit_state φ n ψ (rawAngles φ os) os 0 A hok (fun i h => by
      unfold rawAngles
      rw [Nat.zero_add, List.getD_eq_getElem?_getD, List.getElem?_eq_getElem h]
      rfl) x hx]

/-! ### the derivative with respect to circuit parameters -/

theorem linVal_add (φ d : ℕ → ℝ) (s : ℝ) : ∀ (cs : List ℤ) (k : ℕ),
    linVal (fun i => φ i + s * d i) k cs = linVal φ k cs + s * linVal d k cs := by
  intro cs
  induction cs with
  | nil => intro k; simp [linVal]
  | cons c cs ih => intro k; simp only [linVal, ih]; ring

theorem angleValue_add (φ d : ℕ → ℝ) (s : ℝ) (a : Angle) :
    angleValue (fun i => φ i + s * d i) a = angleValue φ a + s * linVal d 0 a.cs := by
  unfold angleValue; rw [linVal_add]; ring

/-- the operator of the gate list does not depend on the angle assignment -/
def Static (gs : List Gate) : Prop := ∀ φ φ' : ℕ → ℝ, opC φ gs = opC φ' gs

theorem withParams_nil (g : Gate) (h : g.params = []) : g.withParams [] = g := by
  cases g; simp only [Gate.withParams] at *; subst h; rfl

/-- gate lists without parameters (and without literal matrices) are static: substituting nothing for the
    (absent) variables shows that the operator is the one at the constant assignment `ρ ≡ 1` -/
theorem static_of_noParams (gs : List Gate) (h : ∀ g ∈ gs, g.params = [] ∧ g.kind ≠ .UnitaryMatrix) :
    Static gs := by
  have key : ∀ φ : ℕ → ℝ, opC φ gs = semCirc zetaC (fun _ => (1 : ℂ)) gs := by
    intro φ
    unfold opC
    have hmap : gs.map (Gate.subst []) = gs := by
      conv_rhs => rw [← List.map_id gs]
      apply List.map_congr_left
      intro g hg
      show g.withParams (g.params.map (Angle.subst [])) = g
      rw [(h g hg).1]
      exact withParams_nil g (h g hg).1
    have := semCirc_subst (ζ := zetaC) (ρ := rhoC φ) zetaC_pow_eight (rhoC_ne_zero φ) [] gs
      (fun g hg => (h g hg).2)
    rw [hmap] at this
    rw [this]
    congr 1
    funext i
    unfold substRho
    simp only [List.getD_nil]
    exact theta_default
  intro φ φ'
  rw [key φ, key φ']

theorem genGate_static (n : ℕ) (g : Gate) (hg : RotGate n g) : Static [genGate g] := by
  apply static_of_noParams
  intro g' hg'
  simp only [List.mem_singleton] at hg'
  subst hg'
  refine ⟨rfl, ?_⟩
  obtain ⟨_, h | h⟩ := hg
  · rcases h.1 with hk | hk | hk <;> simp [genGate, genKind, hk]
  · simp [genGate, genKind, h.1]

theorem hop_static {gs : List Gate} (h : Static gs) (φ φ' : ℕ → ℝ) : hop φ gs = hop φ' gs := by
  funext r j; unfold hop; rw [h φ φ']

theorem occsFrom_static (n : ℕ) (φ φ' : ℕ → ℝ) : ∀ (os : List (Gate × List Gate)) (k : ℕ),
    PCircOK n os → (∀ o ∈ os, Static o.2) → occsFrom φ k os = occsFrom φ' k os := by
  intro os
  induction os with
  | nil => intro k _ _; rfl
  | cons o rest ih =>
    intro k hok hst
    have ho := hok o (List.mem_cons_self ..)
    simp only [occsFrom]
    rw [ih (k + 1) (fun a ha => hok a (List.mem_cons_of_mem _ ha))
      (fun a ha => hst a (List.mem_cons_of_mem _ ha)), genGate_static n o.1 ho.1 φ φ',
      hop_static (hst o (List.mem_cons_self ..)) φ φ']

/-- **(3) the gradient of a circuit with shared / affinely mapped parameters**: move the circuit parameters in the
    direction `d`; occurrence `k` then moves with velocity `v_k = Σ_p coef_{k,p}·d_p`, and the derivative of the
    expectation value is `Σ_k v_k · ½ (E(t_k + π/2) − E(t_k − π/2))`, the shifts applied to ONE occurrence at a time -/
theorem circuit_gradient (φ d : ℕ → ℝ) (n : ℕ) (ψ : ℕ → ℂ) (O : ℕ → ℕ → ℂ) (A : List Gate)
    (os : List (Gate × List Gate)) (hok : PCircOK n os) (hA : Static A) (hB : ∀ o ∈ os, Static o.2) :
    HasDerivAt (fun s : ℝ => expv n O (mv n (hop (fun i => φ i + s * d i) (circOf A os)) ψ))
      (lsum (occIdx (occsFrom φ 0 os)) fun k =>
        ((linVal d 0 ((os.getD k default).1.p 0).cs : ℝ) : ℂ) * ((1 / 2 : ℂ) *
          (expOcc n (mv n (hop φ A) ψ) O (occsFrom φ 0 os) (bump (rawAngles φ os) k (Real.pi / 2))
            - expOcc n (mv n (hop φ A) ψ) O (occsFrom φ 0 os)
                (bump (rawAngles φ os) k (-(Real.pi / 2)))))) 0 := by
  have hf : (fun s : ℝ => expv n O (mv n (hop (fun i => φ i + s * d i) (circOf A os)) ψ))
      = fun s : ℝ => expOcc n (mv n (hop φ A) ψ) O (occsFrom φ 0 os)
          (fun k => rawAngles φ os k + s * linVal d 0 ((os.getD k default).1.p 0).cs) := by
    funext s
    rw [circuit_expectation (fun i => φ i + s * d i) n ψ O A os hok,
      occsFrom_static n (fun i => φ i + s * d i) φ os 0 hok hB, hop_static hA (fun i => φ i + s * d i) φ]
    congr 1
    funext k
    unfold rawAngles
    rw [angleValue_add]
  rw [hf]
  exact gradient_occ n _ O _ (occsFrom_nodup φ os 0) (rawAngles φ os)
    (fun k => linVal d 0 ((os.getD k default).1.p 0).cs)

/-- **(2) one occurrence in a circuit**: `A ; g(α) ; B` with `A`, `B` arbitrary (evaluated at `φ`), the angle of
    this occurrence varied alone: the two-term shift rule as a derivative over ℝ -/
theorem single_occurrence_shift (φ : ℕ → ℝ) (n : ℕ) (ψ : ℕ → ℂ) (O : ℕ → ℕ → ℂ) (A B : List Gate)
    (g : Gate) (hg : RotGate n g) (hB : WellFormed n B) (α : ℝ) :
    let E : ℝ → ℂ := fun t => sesq n O
      (mv n (hop φ B) (mv n (rotM (opC φ [genGate g]) t) (mv n (hop φ A) ψ)))
      (mv n (hop φ B) (mv n (rotM (opC φ [genGate g]) t) (mv n (hop φ A) ψ)))
    HasDerivAt E ((1 / 2 : ℂ) * (E (α + Real.pi / 2) - E (α - Real.pi / 2))) α ∧
    E (angleValue φ (g.p 0)) = expv n O (mv n (hop φ (A ++ g :: B)) ψ) := by
  intro E
  constructor
  · have hE : E = fun t => sesq n (opA n O (hop φ B) (opC φ [genGate g])) (mv n (hop φ A) ψ) (mv n (hop φ A) ψ)
        + sesq n (opB n O (hop φ B) (opC φ [genGate g])) (mv n (hop φ A) ψ) (mv n (hop φ A) ψ)
            * (Real.cos t : ℂ)
        + sesq n (opS n O (hop φ B) (opC φ [genGate g])) (mv n (hop φ A) ψ) (mv n (hop φ A) ψ)
            * (Real.sin t : ℂ) := by
      funext t
      show sesq n O _ _ = _
      rw [sesq_rot]; ring
    rw [hE]
    have := hasDerivAt_trig
      (sesq n (opA n O (hop φ B) (opC φ [genGate g])) (mv n (hop φ A) ψ) (mv n (hop φ A) ψ))
      (sesq n (opB n O (hop φ B) (opC φ [genGate g])) (mv n (hop φ A) ψ) (mv n (hop φ A) ψ))
      (sesq n (opS n O (hop φ B) (opC φ [genGate g])) (mv n (hop φ A) ψ) (mv n (hop φ A) ψ)) α
    refine this.congr_deriv ?_
    rw [trig_shift]
  · show sesq n O _ _ = _
    rw [expv_eq_sesq]
    apply sesq_congr <;>
    · intro x hx
      have e2 : A ++ g :: B = (A ++ [g]) ++ B := by simp
      rw [e2, mv_hop_append φ n _ _ hB ψ x hx]
      apply mv_congr
      intro z hz
      rw [mv_hop_append φ n A [g] (rotGate_wf hg) ψ z hz, mv_rotgate φ n g hg _ z hz]

/-- **(1) a rotation gate is `cos(α/2)·1 − i sin(α/2)·P`** -/
theorem rotation_complex (φ : ℕ → ℝ) (n : ℕ) (g : Gate) (hg : RotGate n g) (r j : ℕ) (hr : r < 2 ^ n)
    (hj : j < 2 ^ n) :
    hop φ [g] r j
      = (Real.cos (angleValue φ (g.p 0) / 2) : ℂ) * (if r = j then 1 else 0)
        - Complex.I * (Real.sin (angleValue φ (g.p 0) / 2) : ℂ) * opC φ [genGate g] r j :=
  hop_rotation φ n g hg r j hr hj

/-- **(4) Hessian symmetry**: the two second directional derivatives of the expectation (as derivations of the
    abstract expression, i.e. as iterated `HasDerivAt` by `hasDerivAt_evalC`) commute -/
theorem hessian_symmetric (n : ℕ) (χ₀ : ℕ → ℂ) (O : ℕ → ℕ → ℂ) (occs : List Occ) (d1 d2 : ℕ → ℂ)
    (t : ℕ → ℝ) :
    eval (ptC t) (TExp.deriv d1 (TExp.deriv d2 (texp n χ₀ O occs)))
      = eval (ptC t) (TExp.deriv d2 (TExp.deriv d1 (texp n χ₀ O occs))) :=
  deriv_commute (texp n χ₀ O occs) d1 d2 (ptC t)

/-! ### the statements are not vacuous -/

/-- the circuit `H₀ ; RY₁(θ₀) ; CNOT₀₁ ; RZ₁(2θ₀ + π/4)` on 2 qubits: the parameter `θ₀` enters two gates -/
def exA : List Gate := [G .H [] [0] []]
def exOs : List (Gate × List Gate) :=
  [(G .RY [] [1] [Angle.var 0], [G .CNOT [0] [1] []]), (G .RZ [] [1] [⟨[2], 1⟩], [])]

example : circOf exA exOs
    = [G .H [] [0] [], G .RY [] [1] [Angle.var 0], G .CNOT [0] [1] [], G .RZ [] [1] [⟨[2], 1⟩]] := rfl

theorem exOs_ok : PCircOK 2 exOs := by
  intro o ho
  simp only [exOs, List.mem_cons, List.mem_nil_iff, or_false] at ho
  rcases ho with rfl | rfl
  · exact ⟨⟨rfl, Or.inl ⟨Or.inr (Or.inl rfl), 1, rfl, by decide⟩⟩, by decide⟩
  · exact ⟨⟨rfl, Or.inl ⟨Or.inr (Or.inr rfl), 1, rfl, by decide⟩⟩, by decide⟩

theorem exA_static : Static exA :=
  static_of_noParams _ (by intro g hg; simp only [exA, List.mem_singleton] at hg; subst hg; exact ⟨rfl, by decide⟩)

theorem exOs_static : ∀ o ∈ exOs, Static o.2 := by
  intro o ho
  simp only [exOs, List.mem_cons, List.mem_nil_iff, or_false] at ho
  rcases ho with rfl | rfl
  · exact static_of_noParams _ (by
      intro g hg; simp only [List.mem_singleton] at hg; subst hg; exact ⟨rfl, by decide⟩)
  · exact static_of_noParams _ (by intro g hg; cases hg)

/-- direction "increase `θ₀`" -/
def e0 : ℕ → ℝ := fun i => if i = 0 then 1 else 0

/-- the velocities of the two occurrences: `1` (RY) and `2` (RZ) -/
example : linVal e0 0 [1] = 1 ∧ linVal e0 0 [2] = 2 := by simp [linVal, e0]

example : occIdx (occsFrom (fun _ => 0) 0 exOs) = [1, 0] := by
  rw [occIdx_occsFrom]; rfl

/-- the gradient of `⟨ψ| 2·Z₀Z₁ + X₁ |ψ⟩` (i.e. `2·(Z₀Z₁ + 0.5·X₁)`) along `θ₀`, for every `ψ` and every `φ`:
    `2·½(E(t₁ ± π/2)) + 1·½(E(t₀ ± π/2))`, the shifts applied to the RZ occurrence and to the RY occurrence
    separately -/
example (φ : ℕ → ℝ) (ψ : ℕ → ℂ) :
    let O : ℕ → ℕ → ℂ := fun r j => 2 * opC φ [G .Z [] [0] [], G .Z [] [1] []] r j + opC φ [G .X [] [1] []] r j
    HasDerivAt (fun s : ℝ => expv 2 O (mv 2 (hop (fun i => φ i + s * e0 i) (circOf exA exOs)) ψ))
      (lsum (occIdx (occsFrom φ 0 exOs)) fun k =>
        ((linVal e0 0 ((exOs.getD k default).1.p 0).cs : ℝ) : ℂ) * ((1 / 2 : ℂ) *
          (expOcc 2 (mv 2 (hop φ exA) ψ) O (occsFrom φ 0 exOs) (bump (rawAngles φ exOs) k (Real.pi / 2))
            - expOcc 2 (mv 2 (hop φ exA) ψ) O (occsFrom φ 0 exOs)
                (bump (rawAngles φ exOs) k (-(Real.pi / 2)))))) 0 := by
  intro O
  exact circuit_gradient φ e0 2 ψ O exA exOs exOs_ok exA_static exOs_static

/-- the RY occurrence alone: `A = [H₀]`, `B = [CNOT₀₁, RZ₁(2θ₀+π/4)]` held fixed -/
example (φ : ℕ → ℝ) (ψ : ℕ → ℂ) (O : ℕ → ℕ → ℂ) (α : ℝ) :=
  (single_occurrence_shift φ 2 ψ O exA [G .CNOT [0] [1] [], G .RZ [] [1] [⟨[2], 1⟩]]
    (G .RY [] [1] [Angle.var 0]) (exOs_ok _ (List.mem_cons_self ..)).1 (by decide) α).1

end QV.Props.C09Lift
