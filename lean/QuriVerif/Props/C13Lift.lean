import QuriVerif.Props.C05Lift
import QuriVerif.Proof.JWSound
import QuriVerif.Model.C13
/-
  C13 — Jordan–Wigner at operator level, over complex matrices, for every number of spin orbitals.

  Convention (`oracle/fock.py`, OpenFermion): `|x⟩ = a†_{i1} a†_{i2} … |vac⟩`, `i1 < i2 < …` the set bits of the
  occupation mask `x`; `a†_p|x⟩ = (−1)^{#{k<p : x_k}}|x + 2^p⟩`; JW: `a_p = ½(X_p + iY_p)Z_0…Z_{p−1}`.
  The JW state mapper is the identity on bit patterns (occupation mask = computational-basis index;
  confirmed on the model `Model/C13.stateMapper` for the JW number operators in `jw_state_mapper_example`,
  in general it is the statement `trans = inv = 1` of `Props/C13`).

  `Model/C13JW`: `jwLadder p dag` = the DOUBLED ladder operator (`2a_p`, `2a†_p`) as an operator of `Model/C05`
  with Gaussian-integer coefficients; `jwWord w` = the product of the ladders computed by the dict arithmetic
  `C05.mul` (it denotes `2^|w|` times the word); `fockLadder`, `fockWord` = the Fock-space reference semantics.
  Matrices: `DenC φ op` of `Props/C05Lift` (sums of X/Y/Z GATE matrices, `embedAct`), `mulB n` = matrix product.

    * `ladder_complex`     `DenC (jwLadder p dag) r x = 2·⟨r| a_p^{(†)} |x⟩_Fock`   (all `n > p`, `r, x < 2^n`);
      `annihilation_entries`, `creation_entries`: the same spelled out (bit set / clear, `r = x xor 2^p`, the
      sign `(−1)^{parBelow p x}`);
    * `car_mixed_complex`  `A_p·A_q† + A_q†·A_p = 4·δ_pq·1`,   `car_same_complex`  `A_p·A_q + A_q·A_p = 0` (and
      daggered), `number_complex`  `A_p†·A_p = diag(4·bit_p)` – as matrices on the block, all `n > p, q`;
    * `word_complex`       `DenC (jwWord w) r x = 2^|w|·⟨r| w |x⟩_Fock` for every word with modes `< n`: the
      mapped operator between mapped basis states is the Fock matrix element;
    * `fop_complex`        linear extension to finite Gaussian-integer combinations of words (`jwFOp`);
    * `row_complex`        a literal term list accepted by the Boolean `jwRowOk` (what a translator emits from
      the real `jordan_wigner` output, coefficients doubled, any term order) has the matrix of `jwLadder`.
  Kernel evaluation: none beyond the examples (`decide`).
  Hypotheses that stay: modes `< n`, indices `< 2^n`.  Coefficient halves are handled by doubling (`2^|w|`).
  NOT covered: the Bravyi–Kitaev and symmetry-conserving BK OPERATOR transforms (still trusted to OpenFermion;
  their state mappers are in `Props/C13`), real `jordan_wigner` output for composite operators (normal
  ordering / simplification inside OpenFermion) – only ladder operators and their `C05.mul` products.
-/
namespace QV.Props.C13Lift
open QV QV.MatSound QV.C13JW QV.Props.Reflect QV.Props.C05Lift

/-- **(2) the doubled JW ladder operator is twice the Fock ladder operator** -/
theorem ladder_complex (φ : ℕ → ℝ) (n p : ℕ) (hp : p < n) (dag : Bool) (r x : ℕ) (hr : r < 2 ^ n)
    (hx : x < 2 ^ n) :
    DenC φ (jwLadder p dag) r x = 2 * actMat ℂ (fockLadder p dag x) r := by
  rw [DenC_eq]; exact Den_ladder zetaC_pow_eight n p hp dag r x hr hx

/-- annihilation: needs the mode occupied; `x xor 2^p` is `x − 2^p` then -/
theorem annihilation_entries (φ : ℕ → ℝ) (n p : ℕ) (hp : p < n) (r x : ℕ) (hr : r < 2 ^ n)
    (hx : x < 2 ^ n) :
    DenC φ (jwLadder p false) r x
      = if x.testBit p = true ∧ r = x ^^^ 2 ^ p then 2 * (if parBelow p x then -1 else 1) else 0 := by
  rw [ladder_complex φ n p hp false r x hr hx]
  unfold fockLadder actMat signOf
  cases hb : x.testBit p <;> simp

/-- creation: needs the mode empty; `x xor 2^p` is `x + 2^p` then -/
theorem creation_entries (φ : ℕ → ℝ) (n p : ℕ) (hp : p < n) (r x : ℕ) (hr : r < 2 ^ n)
    (hx : x < 2 ^ n) :
    DenC φ (jwLadder p true) r x
      = if x.testBit p = false ∧ r = x ^^^ 2 ^ p then 2 * (if parBelow p x then -1 else 1) else 0 := by
  rw [ladder_complex φ n p hp true r x hr hx]
  unfold fockLadder actMat signOf
  cases hb : x.testBit p <;> simp

theorem mulB_DenC (φ : ℕ → ℝ) (n : ℕ) (a b : C05.Op) (r j : ℕ) :
    mulB n (DenC φ a) (DenC φ b) r j = mulB n (Den zetaC (rhoC φ) a) (Den zetaC (rhoC φ) b) r j :=
  mulB_congr n _ _ _ _ r j (fun k _ => DenC_eq φ a r k) (fun k _ => DenC_eq φ b k j)

/-- **(3) CAR**: `A_p·A_q† + A_q†·A_p = 4·δ_pq·1` -/
theorem car_mixed_complex (φ : ℕ → ℝ) (n p q : ℕ) (hp : p < n) (hq : q < n) (r x : ℕ) (hr : r < 2 ^ n)
    (hx : x < 2 ^ n) :
    mulB n (DenC φ (jwLadder p false)) (DenC φ (jwLadder q true)) r x
      + mulB n (DenC φ (jwLadder q true)) (DenC φ (jwLadder p false)) r x
      = if p = q ∧ r = x then 4 else 0 := by
  rw [mulB_DenC, mulB_DenC]; exact car_mixed zetaC_pow_eight n p q hp hq r x hr hx

/-- `A_p·A_q + A_q·A_p = 0`, `A_p†·A_q† + A_q†·A_p† = 0` -/
theorem car_same_complex (φ : ℕ → ℝ) (n p q : ℕ) (hp : p < n) (hq : q < n) (d : Bool) (r x : ℕ)
    (hr : r < 2 ^ n) (hx : x < 2 ^ n) :
    mulB n (DenC φ (jwLadder p d)) (DenC φ (jwLadder q d)) r x
      + mulB n (DenC φ (jwLadder q d)) (DenC φ (jwLadder p d)) r x = 0 := by
  rw [mulB_DenC, mulB_DenC]; exact car_same zetaC_pow_eight n p q hp hq d r x hr hx

/-- number operator: `A_p†·A_p = diag(4·bit_p)` -/
theorem number_complex (φ : ℕ → ℝ) (n p : ℕ) (hp : p < n) (r x : ℕ) (hr : r < 2 ^ n) (hx : x < 2 ^ n) :
    mulB n (DenC φ (jwLadder p true)) (DenC φ (jwLadder p false)) r x
      = if x.testBit p = true ∧ r = x then 4 else 0 := by
  rw [mulB_DenC]; exact number_diag zetaC_pow_eight n p hp r x hr hx

/-- **(4) words**: the mapped word between mapped basis states is the Fock matrix element -/
theorem word_complex (φ : ℕ → ℝ) (n : ℕ) (w : List (ℕ × Bool)) (hw : WordOn n w) (r x : ℕ)
    (hr : r < 2 ^ n) (hx : x < 2 ^ n) :
    DenC φ (jwWord w) r x = 2 ^ w.length * actMat ℂ (fockWord w x) r := by
  rw [DenC_eq]; exact Den_word zetaC_pow_eight n w hw r hr x hx

/-- linear extension -/
theorem fop_complex (φ : ℕ → ℝ) (n : ℕ) (op : FOp) (h : ∀ t ∈ op, WordOn n t.2) (r x : ℕ)
    (hr : r < 2 ^ n) (hx : x < 2 ^ n) :
    DenC φ (jwFOp op) r x
      = (op.map fun t => toC t.1 * (2 ^ t.2.length * actMat ℂ (fockWord t.2 x) r)).sum := by
  rw [DenC_eq, Den_fop zetaC_pow_eight n op h r hr x hx]
  congr 1
  apply List.map_congr_left
  intro t _
  rw [toF_zetaC]

/-- a translated row accepted by the checker -/
theorem row_complex (φ : ℕ → ℝ) (n p : ℕ) (hp : p < n) (dag : Bool) (terms : C05.Op)
    (h : jwRowOk p dag terms = true) (r x : ℕ) (hr : r < 2 ^ n) (hx : x < 2 ^ n) :
    DenC φ terms r x = 2 * actMat ℂ (fockLadder p dag x) r := by
  rw [DenC_eq, jwRowOk_sound p dag terms h, ← DenC_eq]
  exact ladder_complex φ n p hp dag r x hr hx

/-! ### the statements are not vacuous -/

/-- `a†_3 a_1 a†_2 a_2` on `|0110⟩` gives `−|1100⟩` -/
example : fockWord [(3, true), (1, false), (2, true), (2, false)] 0b0110 = some (-1, 0b1100) := by decide

example (φ : ℕ → ℝ) (r : ℕ) (hr : r < 2 ^ 4) :
    DenC φ (jwWord [(3, true), (1, false), (2, true), (2, false)]) r 0b0110
      = 2 ^ 4 * (if r = 0b1100 then -1 else 0) := by
  have := word_complex φ 4 [(3, true), (1, false), (2, true), (2, false)] (by
    intro l hl
    simp only [List.mem_cons, List.mem_nil_iff, or_false] at hl
    rcases hl with rfl | rfl | rfl | rfl <;> decide) r 0b0110 hr (by decide)
  rw [this, show fockWord [(3, true), (1, false), (2, true), (2, false)] 0b0110 = some (-1, 0b1100) by decide]
  simp [actMat]

/-- the ladder operator of mode 2 and a row in the other term order, as a translator would emit it -/
example : jwLadder 2 true = [([(0, .Z), (1, .Z), (2, .X)], ⟨1, 0⟩), ([(0, .Z), (1, .Z), (2, .Y)], ⟨0, -1⟩)] := by
  decide
example : jwRowOk 2 true [([(0, .Z), (1, .Z), (2, .Y)], ⟨0, -1⟩), ([(0, .Z), (1, .Z), (2, .X)], ⟨1, 0⟩)]
    = true := by decide
/-- … a wrong sign is rejected -/
example : jwRowOk 2 true [([(0, .Z), (1, .Z), (2, .Y)], ⟨0, 1⟩), ([(0, .Z), (1, .Z), (2, .X)], ⟨1, 0⟩)]
    = false := by decide

/-- the product `(2a_1)(2a†_1)` as computed by the dict arithmetic: `2·(1 + Z_1)`, i.e. `4·(1 − n_1)` -/
example : jwWord [(1, false), (1, true)] = [([], ⟨2, 0⟩), ([(1, .Z)], ⟨2, 0⟩)] := by decide

/-- the JW state mapper of `Model/C13` on 4 spin orbitals (number operators `1 − 2n_i ↦ Z_i`): occupation
    list `[1, 2]` ↦ basis index `0b0110` -/
theorem jw_state_mapper_example :
    (C13.mkMapping .jw 4 none none ((List.range 4).map fun i => [([(i, 3)], 1)])).bind
      (fun m => C13.stateMapper m [1, 2]) = .ok 0b0110 := by decide

end QV.Props.C13Lift
