import QuriVerif.Proof.C16
/-
  C16 — heavier kernel computations (thorough tier): the dense cross-checks on 3 qubits.
-/
namespace QV.Props.C16Deep
open QV QV.C16

/-- every pair `(a, b)` on 3 qubits (incl. `a = b`), phase pairs covering every difference mod 8: the dense column
    `circuit·|000⟩` equals `globalPhase·(promised vector)` in the exact ring -/
theorem superposition_dense_3 : denseSupAll 3 phasePairs = true := by decide +kernel

/-- bookkeeping against the dense Pauli matrices on 3 qubits: X/Y/Z, all 1- and 2-factor Pauli gates in both target
    orders and 3-factor Pauli gates in four target orders, every basis state -/
theorem pauli_dense_3 : densePauliAll 3 = true := by decide +kernel

end QV.Props.C16Deep
