import QuriVerif.Props.C08Lift
import QuriVerif.Props.C07Lift
/-
  C08 — the chain closed: from an operator (term table of `Model/C08` with a numbering of its Pauli labels) through
  the grouping functions of `Model/C07`, the measurement circuits, exact outcome frequencies and the model's
  `_Estimate.value` (`C08.accumulate`) to `⟨ψ| Σ c_P P |ψ⟩` – with NO partition hypothesis.

  Input: `op : C08.Op` (label numbers ↦ Gaussian-rational coefficients), `lbl : ℕ → Label` the numbering.
  Hypotheses that stay (all about the INPUT):
    * `OpData.dict`   the label numbers of `op` are distinct (it is a dict);
    * `OpData.id0`    number `0` is the identity label, `lbl 0 = []` (the convention of `Model/C08`);
    * `OpData.inj`    the numbering is injective on the keys of `op`;
    * `OpData.valid`  every label is a valid label on `n` qubits (`LabelOK n`);
    * exact frequencies: for every group, the delivered counts are `κ·|(V_g ψ)_x|²` for the group's OWN circuit.
  Constructed here (definitional): the groups are the grouping function applied to the list of non-identity labels
  of `op` (in key order); group `g` is handed to `Model/C08` as `Meas` with `paulis := g.map num` (`num` = the
  inverse numbering on the keys) and `recon p := recOf (lbl p)` (the reconstructor of `Model/C07`); its circuit is
  `gatesOf g` = what `C07.measCircuit g` returns.
  Residual difference to the real code, named precisely: the real estimator calls the measurement factory on ALL
  labels and then drops the group `{identity}` (`Props/C08.identity_group_filtered`); here the grouping is applied
  to the non-identity labels directly.  For `bitwise_pauli_grouping` the identity label only ever enters its own
  bin (`C07.bwStep`, case `identity`), so the remaining groups coincide; this coincidence is not proved here.
  The pairing of groups with delivered counts is the list `grps.map fun g => (measOf g, cnt g)`, i.e. every group
  is paired with its own counts (finding F2 of `Props/C08` is about the real code violating exactly this).
-/
namespace QV.Props.C08Partition
open QV QV.MatSound QV.Props.Reflect QV.Props.C08Lift

/-- the keys of the operator -/
def keys (op : C08.Op) : List ℕ := op.map (·.1)

/-- what is assumed about the operator and the numbering of its labels -/
structure OpData (n : ℕ) (lbl : ℕ → C06.Label) (op : C08.Op) : Prop where
  dict : (keys op).Nodup
  id0 : lbl 0 = []
  inj : ∀ a ∈ keys op, ∀ b ∈ keys op, lbl a = lbl b → a = b
  valid : ∀ k ∈ keys op, LabelOK n (lbl k)

/-- the non-identity labels of the operator, in key order -/
def labelsOf (lbl : ℕ → C06.Label) (op : C08.Op) : List C06.Label :=
  ((keys op).filter fun k => k != 0).map lbl

/-- the inverse numbering on the keys (0 for labels that do not occur) -/
def num (lbl : ℕ → C06.Label) (op : C08.Op) (L : C06.Label) : ℕ :=
  ((keys op).find? fun k => lbl k == L).getD 0

theorem num_lbl {n : ℕ} {lbl : ℕ → C06.Label} {op : C08.Op} (h : OpData n lbl op) (k : ℕ)
    (hk : k ∈ keys op) : num lbl op (lbl k) = k := by
  unfold num
  cases hf : (keys op).find? (fun k' => lbl k' == lbl k) with
  | none =>
    have := List.find?_eq_none.mp hf k hk
    simp at this
  | some k' =>
    have h1 := List.find?_some hf
    have h2 := List.mem_of_find?_eq_some hf
    simp only [Option.getD_some]
    exact h.inj k' h2 k hk (by simpa using h1)

/-- the measurement circuit of a group, as the model computes it -/
def gatesOf (g : List C06.Label) : List C07.MGate :=
  match C07.measCircuit g with
  | .ok gs => gs
  | .valueError => []

/-- the group as `Model/C08` sees it: label numbers and the reconstructor of `Model/C07` -/
def measOf (lbl : ℕ → C06.Label) (op : C08.Op) (g : List C06.Label) : C08.Meas :=
  ⟨g.map (num lbl op), fun p x => recOf (lbl p) x⟩

/-- a grouping of the non-identity labels into non-empty qubit-wise commuting groups -/
structure Grouping (lbl : ℕ → C06.Label) (op : C08.Op) (grps : List (List C06.Label)) : Prop where
  perm : grps.flatten.Perm (labelsOf lbl op)
  ne : ∀ g ∈ grps, g ≠ []
  qwc : ∀ g ∈ grps, ∀ a ∈ g, ∀ b ∈ g, C07.bitwiseCommute (C07.bsv a) (C07.bsv b) = true

theorem mem_labels {lbl : ℕ → C06.Label} {op : C08.Op} {grps : List (List C06.Label)}
    (hg : Grouping lbl op grps) {g : List C06.Label} (hgm : g ∈ grps) {L : C06.Label} (hL : L ∈ g) :
    ∃ k ∈ keys op, k ≠ 0 ∧ lbl k = L := by
  have : L ∈ labelsOf lbl op := hg.perm.mem_iff.mp (List.mem_flatten.mpr ⟨g, hgm, hL⟩)
  obtain ⟨k, hk, rfl⟩ := List.mem_map.mp this
  have := List.mem_filter.mp hk
  exact ⟨k, this.1, by simpa using this.2, rfl⟩

theorem lookup_isSome_of_key (op : C08.Op) (k : ℕ) (hk : k ∈ keys op) : (op.lookup k).isSome = true := by
  induction op with
  | nil => cases hk
  | cons a op ih =>
    obtain ⟨k', c⟩ := a
    rw [List.lookup_cons]
    by_cases e : k = k'
    · subst e; simp
    · have : (k == k') = false := by simpa using e
      rw [this]
      simp only [keys, List.map_cons, List.mem_cons] at hk
      rcases hk with h | h
      · exact absurd h e
      · exact ih h

theorem filter_all {α : Type} (q : α → Bool) (l : List α) (h : ∀ x ∈ l, q x = true) : l.filter q = l :=
  List.filter_eq_self.mpr h

/-- **the end-to-end theorem for any grouping** into non-empty qubit-wise commuting groups that partition the
    non-identity labels: exact frequencies for every group's own circuit ⇒ the accumulated estimate is the exact
    expectation value of the whole operator -/
theorem estimate_exact_of_grouping (φ : ℕ → ℝ) (n : ℕ) (lbl : ℕ → C06.Label) (op : C08.Op)
    (hop : OpData n lbl op) (ψ : ℕ → ℂ) (grps : List (List C06.Label)) (hgr : Grouping lbl op grps)
    (cnt : List C06.Label → C08.Counts) (κ : List C06.Label → ℝ)
    (hexact : ∀ g ∈ grps,
      CountsExact (cnt g) (κ g) (prob φ n ((gatesOf g).map MGate.toGate) ψ) (2 ^ n))
    (v : C08.C)
    (hv : C08.accumulate op (C08.constOf op) (grps.map fun g => (measOf lbl op g, cnt g)) = .ok v) :
    toCC v * nrm n ψ = expv n (DenQ φ lbl op) ψ := by
  let ds : List Measured := grps.map fun g => ⟨measOf lbl op g, cnt g, g, gatesOf g, κ g⟩
  have hmap : (ds.map fun d => (d.m, d.cnt)) = grps.map fun g => (measOf lbl op g, cnt g) := by
    simp only [ds, List.map_map]; rfl
  -- every group satisfies the hypotheses of `accumulate_born`
  have hOK : ∀ d ∈ ds, d.OK φ n lbl op ψ := by
    intro d hd
    obtain ⟨g, hgm, rfl⟩ := List.mem_map.mp hd
    have hlab : ∀ L ∈ g, LabelOK n L := by
      intro L hL
      obtain ⟨k, hk, _, rfl⟩ := mem_labels hgr hgm hL
      exact hop.valid k hk
    obtain ⟨gates, hgates⟩ := QV.Props.C07Lift.qwc_accepted g (hgr.ne g hgm) n hlab (hgr.qwc g hgm)
    have hgo : gatesOf g = gates := by unfold gatesOf; rw [hgates]
    refine ⟨⟨by rw [hgo]; exact hgates, fun L hL e he => ((hlab L hL).2 e he).1⟩, hexact g hgm, ?_⟩
    refine ⟨hop.id0, ?_, fun p _ _ => rfl⟩
    intro p hp _ _
    obtain ⟨L, hL, rfl⟩ := List.mem_map.mp hp
    obtain ⟨k, hk, _, rfl⟩ := mem_labels hgr hgm hL
    rw [num_lbl hop k hk]
    exact ⟨hL, hop.valid k hk⟩
  -- the partition
  have hpart : Partitions op ds := by
    refine ⟨hop.dict, ?_⟩
    have e1 : (ds.flatMap fun d => d.m.paulis) = grps.flatten.map (num lbl op) := by
      simp only [ds, List.flatMap_map, measOf]
      rw [List.flatMap_def, List.map_flatten]
    have e2 : (labelsOf lbl op).map (num lbl op) = (keys op).filter fun k => k != 0 := by
      unfold labelsOf
      rw [List.map_map]
      conv_rhs => rw [← List.map_id ((keys op).filter fun k => k != 0)]
      apply List.map_congr_left
      intro k hk
      exact num_lbl hop k (List.mem_filter.mp hk).1
    have hp1 : (grps.flatten.map (num lbl op)).Perm ((keys op).filter fun k => k != 0) := by
      rw [← e2]; exact hgr.perm.map _
    rw [e1, filter_all _ _ (fun p hp => lookup_isSome_of_key op p
      ((List.mem_filter.mp (hp1.mem_iff.mp hp)).1))]
    exact hp1
  exact estimate_is_expectation φ n lbl hop.id0 op ψ ds hOK hpart v (hmap ▸ hv)

theorem labelsOK {n : ℕ} {lbl : ℕ → C06.Label} {op : C08.Op} (hop : OpData n lbl op) :
    ∀ L ∈ labelsOf lbl op, LabelOK n L := by
  intro L hL
  obtain ⟨k, hk, rfl⟩ := List.mem_map.mp hL
  exact hop.valid k (List.mem_filter.mp hk).1

/-- `bitwise_pauli_grouping` of the non-identity labels is such a grouping -/
theorem bitwise_is_grouping (lbl : ℕ → C06.Label) (op : C08.Op) :
    Grouping lbl op (C07.bitwiseGrouping (labelsOf lbl op)) :=
  ⟨QV.Props.C07.bitwise_grouping_partition _, QV.Props.C07Lift.bitwiseGrouping_ne _,
    QV.Props.C07.bitwise_grouping_qwc _⟩

/-- `sorted_injection_grouping` of the non-identity labels is such a grouping -/
theorem sorted_is_grouping (lbl : ℕ → C06.Label) (op : C08.Op) :
    Grouping lbl op ((C07.sortedInjection (labelsOf lbl op)).map (·.members)) := by
  refine ⟨?_, ?_, ?_⟩
  · have := QV.Props.C07.sorted_injection_partition (labelsOf lbl op)
    simpa [C07.allMembers, List.flatMap_def] using this
  · intro g hg
    obtain ⟨G, hG, rfl⟩ := List.mem_map.mp hg
    exact QV.Props.C07Lift.foldl_add_ne _ [] (by intro g hg; cases hg) G hG
  · intro g hg
    obtain ⟨G, hG, rfl⟩ := List.mem_map.mp hg
    exact QV.Props.C07.sorted_injection_qwc _ G hG

/-- **C08 end to end, bitwise grouping**: for every `n`, every operator with valid labels on `n` qubits, every
    `ψ`: measure every group of `bitwise_pauli_grouping` with its own circuit, feed the exact outcome frequencies
    to `_Estimate.value` – the result is `⟨ψ| Σ c_P P |ψ⟩ / ⟨ψ|ψ⟩` -/
theorem estimate_exact_bitwise (φ : ℕ → ℝ) (n : ℕ) (lbl : ℕ → C06.Label) (op : C08.Op)
    (hop : OpData n lbl op) (ψ : ℕ → ℂ) (cnt : List C06.Label → C08.Counts) (κ : List C06.Label → ℝ)
    (hexact : ∀ g ∈ C07.bitwiseGrouping (labelsOf lbl op),
      CountsExact (cnt g) (κ g) (prob φ n ((gatesOf g).map MGate.toGate) ψ) (2 ^ n))
    (v : C08.C)
    (hv : C08.accumulate op (C08.constOf op)
      ((C07.bitwiseGrouping (labelsOf lbl op)).map fun g => (measOf lbl op g, cnt g)) = .ok v) :
    toCC v * nrm n ψ = expv n (DenQ φ lbl op) ψ :=
  estimate_exact_of_grouping φ n lbl op hop ψ _ (bitwise_is_grouping lbl op) cnt κ hexact v hv

/-- **the same for `sorted_injection_grouping`** -/
theorem estimate_exact_sorted (φ : ℕ → ℝ) (n : ℕ) (lbl : ℕ → C06.Label) (op : C08.Op)
    (hop : OpData n lbl op) (ψ : ℕ → ℂ) (cnt : List C06.Label → C08.Counts) (κ : List C06.Label → ℝ)
    (hexact : ∀ g ∈ (C07.sortedInjection (labelsOf lbl op)).map (·.members),
      CountsExact (cnt g) (κ g) (prob φ n ((gatesOf g).map MGate.toGate) ψ) (2 ^ n))
    (v : C08.C)
    (hv : C08.accumulate op (C08.constOf op)
      (((C07.sortedInjection (labelsOf lbl op)).map (·.members)).map
        fun g => (measOf lbl op g, cnt g)) = .ok v) :
    toCC v * nrm n ψ = expv n (DenQ φ lbl op) ψ :=
  estimate_exact_of_grouping φ n lbl op hop ψ _ (sorted_is_grouping lbl op) cnt κ hexact v hv

/-! ### the construction on a concrete operator -/

/-- `3 + 2·X₀Y₁ − X₀ + i·Y₁Z₂ + Z₀` with labels numbered 0..4 -/
def exOp : C08.Op := [(0, ⟨3, 0⟩), (1, ⟨2, 0⟩), (2, ⟨-1, 0⟩), (3, ⟨0, 1⟩), (4, ⟨1, 0⟩)]

def exLbl : ℕ → C06.Label
  | 1 => [(0, 1), (1, 2)]
  | 2 => [(0, 1)]
  | 3 => [(1, 2), (2, 3)]
  | 4 => [(0, 3)]
  | _ => []

theorem exOp_data : OpData 3 exLbl exOp := by
  refine ⟨by decide, rfl, ?_, ?_⟩
  · intro a ha b hb
    simp only [keys, exOp, List.map_cons, List.map_nil, List.mem_cons, List.mem_nil_iff, or_false] at ha hb
    rcases ha with rfl | rfl | rfl | rfl | rfl <;> rcases hb with rfl | rfl | rfl | rfl | rfl <;> decide
  · intro k hk
    simp only [keys, exOp, List.map_cons, List.map_nil, List.mem_cons, List.mem_nil_iff, or_false] at hk
    rcases hk with rfl | rfl | rfl | rfl | rfl <;> decide

/-- the groups, their numbering and their circuits as computed by the models -/
example : C07.bitwiseGrouping (labelsOf exLbl exOp)
    = [[[(0, 1), (1, 2)], [(1, 2), (2, 3)]], [[(0, 1)]], [[(0, 3)]]] := by decide
example : (C07.bitwiseGrouping (labelsOf exLbl exOp)).map (fun g => (measOf exLbl exOp g).paulis)
    = [[1, 3], [2], [4]] := by decide
example : (C07.bitwiseGrouping (labelsOf exLbl exOp)).map gatesOf
    = [[.H 0, .Sdag 1, .H 1], [.H 0], []] := by decide

end QV.Props.C08Partition
