import QuriVerif.Props.C01Lift
import QuriVerif.Proof.PassSound
/-
  C01, pass level: the EXECUTABLE MODEL of `GateKindDecomposer` / `ParallelDecomposer.__call__`
  (`Model/C01.decompPass`, the function that the correspondence harness compares gate for gate with
  the real transpilers) preserves the operator of every well-formed numeric circuit up to a non-zero
  complex factor, for the translated table `Generated/C01Templates.templates` and every selection
  `names` of decomposers.

  Numeric gates carry angles in units of π/64; they are read as symbolic gates over ONE angle
  variable `φ₀ = π/64` (`NGate.toGate`, `opN`).  The model computes the emitted angles with
  `evalAngle` (integer arithmetic, `k·π/4 = 16k` units); `Proof/PassSound.theta_evalAngle` identifies
  this with the symbolic substitution used by `translated_template_sound`.
-/
namespace QV.Props.C01Pass
open QV QV.C01 QV.MatSound QV.Props.Reflect QV.Props.C01Lift

/-- all angle variables are read as π/64 (only variable 0 occurs in `NGate.toGate`) -/
noncomputable def φ64 : ℕ → ℝ := fun _ => Real.pi / 64

/-- complex operator of a numeric circuit -/
noncomputable def opN (c : List NGate) : ℕ → ℕ → ℂ := opC φ64 (c.map NGate.toGate)

/-- a numeric parameter `p` denotes the real angle `p·π/64` -/
theorem angleValue_unit (p : ℤ) : angleValue φ64 (unitAngle p) = p * (Real.pi / 64) := by
  simp [angleValue, unitAngle, linVal, φ64]

/-- 16 units are π/4 -/
theorem rho64_pow : rhoC φ64 0 ^ 16 = zetaC := by
  unfold rhoC zetaC φ64
  rw [← Complex.exp_nat_mul]
  congr 1
  push_cast
  ring

/-- shape of the translated table, evaluated once by the kernel: every key is its target's kind,
    targets sit on wires `0..nq-1` (controls first) with parameters `φ₀, φ₁, …` -/
theorem table_shape_ok : (QV.Gen.C01.templates.all tableEntryOK) = true := by decide +kernel

theorem entrySound (e : String × Kind × Template) (he : e ∈ QV.Gen.C01.templates) (φ : ℕ → ℝ) :
    EntrySound zetaC (rhoC φ) e := by
  have h := List.all_eq_true.mp all_entries_ok e he
  simp only [entryOK, Bool.and_eq_true, decide_eq_true_eq, List.all_eq_true] at h
  obtain ⟨⟨⟨⟨⟨_, _⟩, wfb⟩, _⟩, hkb⟩, _⟩ := h
  exact ⟨List.all_eq_true.mp table_shape_ok e he, hkb, wfb,
    fun σ n P as => translated_template_sound e he P as φ⟩

/-- **One gate**: what `instantiate` emits for a gate of matching arity, from any table entry whose
    key is the gate's kind, has the gate's operator up to a non-zero factor. -/
theorem instantiate_sound (e : String × Kind × Template) (he : e ∈ QV.Gen.C01.templates) (n : ℕ)
    (g : NGate) (hnd : (g.controls ++ g.targets).Nodup) (hlt : ∀ w ∈ g.controls ++ g.targets, w < n)
    (hU : g.kind ≠ .UnitaryMatrix) (hk : e.2.1 = g.kind) (hs : shapeOK e.2.2 g = true) :
    ∃ z : ℂ, z ≠ 0 ∧ ∀ r, r < 2 ^ n → ∀ j, j < 2 ^ n →
      opN (instantiate e.2.2 g) r j = z * opN [g] r j :=
  (instantiate_scalar zetaC_pow_eight (rhoC_ne_zero φ64) rho64_pow e (entrySound e he φ64) n g
    hnd hlt hU hk hs).2

/-- **The decomposition pass of the model is sound**: for every selection `names` of decomposers of
    the translated table and every well-formed numeric circuit on `n` qubits, the output circuit has
    the input's operator up to a non-zero complex factor. -/
theorem decompPass_sound (names : List String) (n : ℕ) (c : List NGate)
    (h : CircOK n QV.Gen.C01.templates names c) :
    ∃ z : ℂ, z ≠ 0 ∧ ∀ r, r < 2 ^ n → ∀ j, j < 2 ^ n →
      opN (decompPass QV.Gen.C01.templates names c) r j = z * opN c r j := by
  obtain ⟨z, hz, hs⟩ := decompPass_scalar zetaC_pow_eight (rhoC_ne_zero φ64) rho64_pow
    QV.Gen.C01.templates names n c (fun e he => entrySound e he φ64) h
  exact ⟨z, hz, fun r hr j _ => hs r hr j⟩

/-! ### non-vacuity: a 3-qubit circuit with H, CNOT, RX(5π/64) -/

private def names3 : List String :=
  ["CNOT2CZHTranspiler", "RX2RZSqrtXTranspiler", "H2RZSqrtXTranspiler"]

private def circ3 : List NGate :=
  [{ kind := .H, targets := [0] }, { kind := .CNOT, controls := [0], targets := [2] },
   { kind := .RX, targets := [1], params := [5] }, { kind := .Z, targets := [2] }]

private theorem circ3_ok : CircOK 3 QV.Gen.C01.templates names3 circ3 := by decide +kernel

/-- the pass really rewrites: 3 + 3 + 5 + 1 gates, the RX angle 5 reappears as 5 + 64 (θ + π) -/
example : decompPass QV.Gen.C01.templates names3 circ3 =
    [{ kind := .RZ, targets := [0], params := [32] }, { kind := .SqrtX, targets := [0] },
     { kind := .RZ, targets := [0], params := [32] },
     { kind := .H, targets := [2] }, { kind := .CZ, controls := [0], targets := [2] },
     { kind := .H, targets := [2] },
     { kind := .RZ, targets := [1], params := [32] }, { kind := .SqrtX, targets := [1] },
     { kind := .RZ, targets := [1], params := [69] }, { kind := .SqrtX, targets := [1] },
     { kind := .RZ, targets := [1], params := [32] },
     { kind := .Z, targets := [2] }] := by decide +kernel

example : ∃ z : ℂ, z ≠ 0 ∧ ∀ r, r < 2 ^ 3 → ∀ j, j < 2 ^ 3 →
    opN (decompPass QV.Gen.C01.templates names3 circ3) r j = z * opN circ3 r j :=
  decompPass_sound names3 3 circ3 circ3_ok

end QV.Props.C01Pass
