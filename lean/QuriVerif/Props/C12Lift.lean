import QuriVerif.Props.ReflectLift
import QuriVerif.Proof.PassSound
import QuriVerif.Proof.InvSound
import QuriVerif.Generated.C12Inverse
/-
  C12 over complex operators: the lifting theorems of `Props/C12.lean` (abstract `PhaseMonoid`) made
  CONCRETE for `semCirc` / `opC`, and tied to the inverse table translated from `inverse.py`
  (`Generated/C12Inverse.lean`).

    * `all_rows_ok`      one kernel evaluation over the translated rows: each pair `[g, inverse_gate g]`
                         is a non-zero multiple of the identity for ALL angles (two-list template
                         `[g, g'] ∝ []` with non-vanishing certificate) and has the expected shape;
    * `pair_identity_complex`             (item 1)  every placement, all affine angles, all real φ;
    * `inverse_circuit_sound_complex`     (item 2)  `c ++ inverse_circuit(c)` = z·1, z ≠ 0, given the
                                          per-gate fact; `…_partial` : unconditional for circuits over
                                          the kinds of the table;
    * `fold_sound_complex`                (item 3)  `scaling_circuit_folding` keeps the operator up to
                                          z ≠ 0; `…_partial` likewise.

  `_partial` = restricted to the kinds of `invRows`: all rows of the generated file EXCEPT `U2`, `U3`
  (known finding: the real `inverse_gate` negates all parameters, which does not invert U2/U3; see
  `Props/C12.inv_U2_pinned_defect`), and except `UnitaryMatrix` (literal matrices; its inverse is the
  conjugate transpose, `invUnitary_is_dagger`), `Pauli`, `PauliRotation` (variable arity; kernel-checked
  for ≤ 2 qubits in `Props/C12.pauli_rotation_inverse_partial`).
-/
namespace QV.Props.C12Lift
open QV QV.C01 QV.C12 QV.MatSound QV.Props.Reflect QV.Gen.C12

/-- the translated rows (all but the known-defect rows U2, U3) -/
def invRows : List InvRow :=
  [(1, inv_Identity), (1, inv_X), (1, inv_Y), (1, inv_Z), (1, inv_H), (1, inv_S), (1, inv_Sdag),
   (1, inv_SqrtX), (1, inv_SqrtXdag), (1, inv_SqrtY), (1, inv_SqrtYdag), (1, inv_T), (1, inv_Tdag),
   (1, inv_RX), (1, inv_RY), (1, inv_RZ), (1, inv_U1), (2, inv_CNOT), (2, inv_CZ), (2, inv_SWAP),
   (3, inv_TOFFOLI)].filterMap fun x => rowOf x.1 x.2

/-- no row was dropped when reading the generated lists as pairs -/
theorem invRows_length : invRows.length = 21 := by decide +kernel

/-- **every translated row is certified** (one kernel evaluation): `[g, g'] ∝ 1` for all angles with
    non-vanishing certificate, target on wires `0..nq-1` with parameters `φ₀, …`, inverse on the same
    wires -/
theorem all_rows_ok : (invRows.all rowOK) = true := by decide +kernel

theorem rows_ok : ∀ r ∈ invRows, rowOK r = true := fun r hr => List.all_eq_true.mp all_rows_ok r hr

/-- the inverse function described by the table -/
def invC : Gate → Gate := invGate invRows

/-- operator of `b` = non-zero complex multiple of the operator of `a` on the `2^n` block -/
def GOpEqvC (φ : ℕ → ℝ) (n : ℕ) (a b : List Gate) : Prop :=
  ∃ z : ℂ, z ≠ 0 ∧ ∀ r, r < 2 ^ n → ∀ j, j < 2 ^ n → opC φ b r j = z * opC φ a r j

/-- **(1) a translated row, placed and instantiated**: for every placement `σ` of its wires into an
    `n`-qubit register, all affine angle arguments and all real angles, the gate followed by its
    library inverse is a non-zero multiple of the identity -/
theorem pair_identity_complex (r : InvRow) (hr : r ∈ invRows) {σ : ℕ → ℕ} {n : ℕ}
    (P : Placement σ r.1 n) (as : List Angle) (φ : ℕ → ℝ) :
    ∃ c : ℂ, c ≠ 0 ∧ ∀ x, x < 2 ^ n → ∀ j, j < 2 ^ n →
      opC φ [(r.2.1.subst as).relabel σ, (r.2.2.subst as).relabel σ] x j = c * idMat x j :=
  pair_identity zetaC_pow_eight (rhoC_ne_zero φ) two_ne_zero r (rows_ok r hr) P as

/-- **(2) inverse circuits**, given the per-gate fact for the gates of the circuit -/
theorem inverse_circuit_sound_complex (φ : ℕ → ℝ) (n : ℕ) (inv : Gate → Gate) (c : List Gate)
    (h : ∀ g ∈ c, InvOK zetaC (rhoC φ) n inv g) :
    ∃ z : ℂ, z ≠ 0 ∧ ∀ r, r < 2 ^ n → ∀ j, j < 2 ^ n →
      opC φ (c ++ inverseCircuit inv c) r j = z * idMat r j :=
  inverse_circuit_scalar n inv c h

/-- **(3) folding**, given the per-gate fact -/
theorem fold_sound_complex (φ : ℕ → ℝ) (n : ℕ) (inv : Gate → Gate) (k : ℕ) (added : List ℕ)
    (c : List Gate) (h : ∀ g ∈ c, InvOK zetaC (rhoC φ) n inv g) :
    GOpEqvC φ n c (foldCircuit inv k added c) :=
  fold_scalar n inv k added c h

/-- **(4) the per-gate fact holds for every gate of the translated kinds** (any wires, any affine
    angles, all real φ) -/
theorem invOK_translated (φ : ℕ → ℝ) (n : ℕ) (g : Gate) (hg : gateShapeOK n invRows g = true) :
    InvOK zetaC (rhoC φ) n invC g :=
  invOK_of_row zetaC_pow_eight (rhoC_ne_zero φ) two_ne_zero invRows rows_ok n g hg

/-- **inverse circuits, unconditional for circuits over the translated kinds** (`_partial`: U2, U3 –
    known finding –, UnitaryMatrix, Pauli, PauliRotation are not covered) -/
theorem inverse_circuit_sound_complex_partial (φ : ℕ → ℝ) (n : ℕ) (c : List Gate)
    (hc : CircInvOK n invRows c) :
    ∃ z : ℂ, z ≠ 0 ∧ ∀ r, r < 2 ^ n → ∀ j, j < 2 ^ n →
      opC φ (c ++ inverseCircuit invC c) r j = z * idMat r j :=
  inverse_circuit_rows zetaC_pow_eight (rhoC_ne_zero φ) two_ne_zero invRows rows_ok n c hc

/-- **folding, unconditional for circuits over the translated kinds** (`_partial`, same exclusions):
    any number `k` of global folds and any selection `added` of locally folded gates -/
theorem fold_sound_complex_partial (φ : ℕ → ℝ) (n k : ℕ) (added : List ℕ) (c : List Gate)
    (hc : CircInvOK n invRows c) : GOpEqvC φ n c (foldCircuit invC k added c) :=
  fold_rows zetaC_pow_eight (rhoC_ne_zero φ) two_ne_zero invRows rows_ok n k added c hc

/-- U2 / U3 gates are rejected by the side condition (no certified row) -/
example : gateShapeOK 1 invRows (G .U2 [] [0] [Angle.var 0, Angle.var 1]) = false := by decide +kernel

/-! ### non-vacuity -/

/-- a symbolic 3-qubit circuit: H, RX(2φ₀ + π/4), CNOT, S, TOFFOLI, RZ(−φ₁) -/
private def circ : List Gate :=
  [G .H [] [0], G .RX [] [1] [⟨[2], 1⟩], G .CNOT [0] [2], G .S [] [2], G .TOFFOLI [2, 0] [1],
   G .RZ [] [0] [⟨[0, -1], 0⟩]]

private theorem circ_ok : CircInvOK 3 invRows circ := by decide +kernel

/-- the inverse circuit computed from the table: reversed, S ↦ Sdag, angles negated -/
example : (inverseCircuit invC circ ==
    [G .RZ [] [0] [⟨[0, 1], 0⟩], G .TOFFOLI [2, 0] [1], G .Sdag [] [2], G .CNOT [0] [2],
     G .RX [] [1] [⟨[-2], -1⟩], G .H [] [0]]) = true := by decide +kernel

example (φ : ℕ → ℝ) : ∃ z : ℂ, z ≠ 0 ∧ ∀ r, r < 2 ^ 3 → ∀ j, j < 2 ^ 3 →
    opC φ (circ ++ inverseCircuit invC circ) r j = z * idMat r j :=
  inverse_circuit_sound_complex_partial φ 3 circ circ_ok

/-- left folding with scale factor 5/2 on 6 gates: one global fold would need s ≥ 3, so k = 0 and the
    first ⌊(5/2 − 1)·6/2⌋ = 4 gates are folded locally -/
example : numFoldAll 5 2 = 0 ∧ residual 5 2 6 = 4 ∧
    (foldCircuit invC (numFoldAll 5 2) (foldingLeft 5 2 6) circ).length = 14 := by decide +kernel

example (φ : ℕ → ℝ) :
    GOpEqvC φ 3 circ (foldCircuit invC (numFoldAll 5 2) (foldingLeft 5 2 circ.length) circ) :=
  fold_sound_complex_partial φ 3 _ _ circ circ_ok

/-- numeric circuits (angles in units of π/64) are covered through `NGate.toGate` -/
private def ncirc : List NGate :=
  [{ kind := .RY, targets := [1], params := [37] }, { kind := .CZ, controls := [1], targets := [0] },
   { kind := .T, targets := [0] }]

example : CircInvOK 2 invRows (ncirc.map NGate.toGate) := by decide +kernel
example (φ : ℕ → ℝ) : GOpEqvC φ 2 (ncirc.map NGate.toGate)
    (foldCircuit invC 2 [1] (ncirc.map NGate.toGate)) :=
  fold_sound_complex_partial φ 2 2 [1] _ (by decide +kernel)

end QV.Props.C12Lift
