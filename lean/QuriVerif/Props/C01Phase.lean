import QuriVerif.Props.C01Pipeline
import QuriVerif.Proof.PhaseUnit
/-
  C01, "up to a GLOBAL PHASE": closes the gap recorded in DESIGN §6 C01 ("that two proportional unitaries
  differ by a unit-modulus factor is not formalised").

  The pipeline theorems (`C01Pipeline.runSeq_sound …`) deliver `OpEqvC n c c'`: the operator of `c'` is a
  NON-ZERO complex multiple `z` of the operator of `c` on the `2^n` block.  Here:

    * `rowNormSq d F i`  – squared Euclidean norm of row `i` of the `d × d` block of `F`;
    * `scalar_normSq`    – if `F = z • G` on the block, then `‖row i of F‖² = |z|² ‖row i of G‖²`;
    * `unit_phase`       – hence if some row of `F` and the same row of `G` have the same non-zero norm
                           (true of every pair of unitaries, and of every pair `s•U`, `s•V` with the same
                           scale `s`, which is how `semCirc` represents circuits), then `|z| = 1`:
                           the factor is a phase;
    * `opEqvC_unit_phase`– the statement for the witnesses of `OpEqvC`;
    * `unit_phase_of_unitary` – the textbook form: `F`, `G` with orthonormal rows on the block.

  No hypothesis on `z` other than proportionality is used, so the theorem is not vacuous for `z = 0`
  either: `z = 0` contradicts the norm hypothesis.
-/
namespace QV.Props.C01Phase
open QV QV.C01 QV.Phase QV.Props.C01Pass QV.Props.C01Pipeline

export QV.Phase (rowNormSq scalar_normSq unit_phase unit_phase_of_unitary RowsNormal)

/-- **for the pipeline theorems**: every witness `z` of `OpEqvC n c c'` is a phase as soon as one row of the
    two (identically scaled) operators has the same non-zero norm. -/
theorem opEqvC_unit_phase (n : ℕ) (c c' : List NGate) (z : ℂ)
    (h : ∀ r, r < 2 ^ n → ∀ j, j < 2 ^ n → opN c' r j = z * opN c r j)
    (i : ℕ) (hi : i < 2 ^ n)
    (hn : rowNormSq (2 ^ n) (opN c') i = rowNormSq (2 ^ n) (opN c) i)
    (hc : rowNormSq (2 ^ n) (opN c) i ≠ 0) : ‖z‖ = 1 :=
  unit_phase (2 ^ n) (opN c') (opN c) z h i hi hn hc

/-! ### non-vacuity: `F = i • 1`, `G = 1` on the 2 × 2 block -/

private noncomputable def G0 : ℕ → ℕ → ℂ := fun i j => if i = j then 1 else 0
private noncomputable def F0 : ℕ → ℕ → ℂ := fun i j => Complex.I * G0 i j

example : ‖Complex.I‖ = 1 := by
  refine unit_phase_of_unitary 2 (by decide) F0 G0 Complex.I (fun _ _ _ _ => rfl) ?_ ?_
  · intro i hi
    have : i = 0 ∨ i = 1 := by omega
    rcases this with rfl | rfl <;> simp [rowNormSq, F0, G0, List.range_succ]
  · intro i hi
    have : i = 0 ∨ i = 1 := by omega
    rcases this with rfl | rfl <;> simp [rowNormSq, G0, List.range_succ]

end QV.Props.C01Phase
