import QuriVerif.Proof.MatSound
import Mathlib.Analysis.SpecialFunctions.Trigonometric.Basic
/-
  What a kernel-checked template obligation (`T.check = true`, `T.checkExact = true`, discharged by
  `decide +kernel` in the generated files of C01, C03, C06, C07, C10, C12, C13, C15, C16, C19) MEANS:
  a statement about complex operators for ALL real angles.

  `Proof/PolySound` + `Proof/MatSound` prove it for every field `K`, every `ζ` with `ζ^8 = -1` and every
  assignment `ρ` of non-zero values to the half-angle variables.  Here the instance the whole of /verif
  reads the ring in is constructed:  `K = ℂ`, `ζ = exp(iπ/8)`, `ρ j = exp(i φⱼ / 2)` for arbitrary real
  `φ : ℕ → ℝ`.

  Trusted specification (short, to be read): `MatSound.embedAct` (how a local matrix on wires `ws` acts on
  the rows of an operator, little endian), `MatSound.semCirc` (first gate applied first), and the local
  matrices `Gate.localMat` restated from the documentation of `gates.py` (cross-checked numerically against
  `oracle/dense.py` on every C01 run).
-/
namespace QV.Props.Reflect
open QV QV.MatSound

/-- ζ₁₆ -/
noncomputable def zetaC : ℂ := Complex.exp (Real.pi * Complex.I / 8)

/-- value of the half-angle variable `xⱼ` at the real angle `φ j` -/
noncomputable def rhoC (φ : ℕ → ℝ) (j : ℕ) : ℂ := Complex.exp (Complex.I * (φ j : ℂ) / 2)

theorem zetaC_pow_eight : zetaC ^ 8 = -1 := by
  unfold zetaC
  rw [← Complex.exp_nat_mul]
  have : ((8 : ℕ) : ℂ) * (Real.pi * Complex.I / 8) = Real.pi * Complex.I := by push_cast; ring
  rw [this, Complex.exp_pi_mul_I]

theorem rhoC_ne_zero (φ : ℕ → ℝ) (j : ℕ) : rhoC φ j ≠ 0 := Complex.exp_ne_zero _

/-- the variable really is `exp(iφ/2)`: its square is `exp(iφ)` and its inverse is its conjugate direction -/
theorem rhoC_sq (φ : ℕ → ℝ) (j : ℕ) : rhoC φ j ^ 2 = Complex.exp (Complex.I * (φ j : ℂ)) := by
  unfold rhoC
  rw [← Complex.exp_nat_mul]
  congr 1
  push_cast
  ring

/-- the `i` of the ring is the imaginary unit -/
theorem zetaC_pow_four : zetaC ^ 4 = Complex.I := by
  unfold zetaC
  rw [← Complex.exp_nat_mul]
  have : ((4 : ℕ) : ℂ) * (Real.pi * Complex.I / 8) = (Real.pi / 2 : ℂ) * Complex.I := by push_cast; ring
  rw [this, Complex.exp_mul_I]
  have h1 : Complex.cos (Real.pi / 2 : ℂ) = 0 := by exact_mod_cast congrArg (fun x : ℝ => (x : ℂ)) Real.cos_pi_div_two
  have h2 : Complex.sin (Real.pi / 2 : ℂ) = 1 := by exact_mod_cast congrArg (fun x : ℝ => (x : ℂ)) Real.sin_pi_div_two
  rw [h1, h2]; ring

/-- the complex operator denoted by a gate list at the real angles `φ` (rows `< 2^n` are meaningful) -/
noncomputable def opC (φ : ℕ → ℝ) (gs : List Gate) : ℕ → ℕ → ℂ := semCirc zetaC (rhoC φ) gs

/-- the scale `√2` of the ring squares to 2 in ℂ -/
theorem sqrt2C_sq (φ : ℕ → ℝ) :
    Poly.eval zetaC (rhoC φ) Poly.sqrt2 * Poly.eval zetaC (rhoC φ) Poly.sqrt2 = 2 :=
  eval_sqrt2_sq zetaC_pow_eight

/-- **A discharged `check` obligation, read in ℂ**: for all real angles the body's operator and the target
    gate's operator are linearly dependent (all 2×2 minors vanish). -/
theorem check_complex (t : Template) (h : t.check = true)
    (wfb : WellFormed t.nq t.body) (wft : WellFormed t.nq [t.target]) (φ : ℕ → ℝ)
    (i j k l : ℕ) (hi : i < 2 ^ t.nq) (hk : k < 2 ^ t.nq) :
    opC φ t.body i j * opC φ [t.target] k l = opC φ t.body k l * opC φ [t.target] i j :=
  Template.check_sem zetaC_pow_eight (rhoC_ne_zero φ) t h wfb wft i j k l hi hk

/-- … hence, wherever the target operator has a non-zero entry (every unitary has one), the body is a complex
    multiple of the target: equality up to a global factor, for all real angles. -/
theorem check_complex_scalar (t : Template) (h : t.check = true)
    (wfb : WellFormed t.nq t.body) (wft : WellFormed t.nq [t.target]) (φ : ℕ → ℝ)
    (k l : ℕ) (hk : k < 2 ^ t.nq) (hne : opC φ [t.target] k l ≠ 0) :
    ∃ c : ℂ, ∀ i j, i < 2 ^ t.nq → opC φ t.body i j = c * opC φ [t.target] i j :=
  Template.check_sem_scalar zetaC_pow_eight (rhoC_ne_zero φ) t h wfb wft k l hk hne

/-- **A discharged `checkExact` obligation, read in ℂ**: the scaled operators agree, phase included. -/
theorem checkExact_complex (t : Template) (h : t.checkExact = true)
    (wfb : WellFormed t.nq t.body) (wft : WellFormed t.nq [t.target]) (φ : ℕ → ℝ)
    (i j : ℕ) (hi : i < 2 ^ t.nq) :
    Poly.eval zetaC (rhoC φ) Poly.sqrt2 ^ semK [t.target] * opC φ t.body i j
      = Poly.eval zetaC (rhoC φ) Poly.sqrt2 ^ semK t.body * opC φ [t.target] i j :=
  Template.checkExact_sem zetaC_pow_eight (rhoC_ne_zero φ) t h wfb wft i j hi

/-- non-vacuity: a concrete kernel-checked template (H·H = 1 on one qubit) run through the chain -/
private def hh : Template := ⟨1, G .Identity [] [0], [G .H [] [0], G .H [] [0]]⟩
private theorem hh_exact : hh.checkExact = true := by decide +kernel
example (φ : ℕ → ℝ) (i j : ℕ) (hi : i < 2) :
    Poly.eval zetaC (rhoC φ) Poly.sqrt2 ^ semK [hh.target] * opC φ hh.body i j
      = Poly.eval zetaC (rhoC φ) Poly.sqrt2 ^ semK hh.body * opC φ [hh.target] i j :=
  checkExact_complex hh hh_exact (by decide) (by decide) φ i j hi

end QV.Props.Reflect
