import QuriVerif.Proof.C18
/-
  C18 — Qubit remapping and count un-mapping are mutually inverse.

  Property theorems only (helper lemmas: Proof/C18.lean; model: Model/C18.lean).
  `m : QMap` is the list of items of the Python dict `qubit_mapping` (from, to);
  a dict has distinct keys: hypothesis `(keys m).Nodup`.  "Injective mapping" is
  `(vals m).Nodup`.  Every statement is for all mappings, all register sizes, all
  integers (no bound on the number of bits), all circuits / count dictionaries.
-/
namespace QV.Props.C18
open QV.C18

/-! ## bits -/

/-- For an injective mapping the dict comprehension `{1 << v: 1 << k}` has one entry per
    item, in order (nothing is overwritten). -/
theorem reverse_map_spec (m : QMap) (hv : (vals m).Nodup) :
    createReverseMap m = m.map (fun p => (1 <<< p.2, 1 <<< p.1)) :=
  createReverseMap_of_nodup m hv

/-- `result += original_bits` computes the same integer as `result |= original_bits`. -/
theorem plus_eq_or (m : QMap) (y : Nat) (hk : (keys m).Nodup) (hv : (vals m).Nodup) :
    reverseMapBits y (createReverseMap m) = reverseMapBitsOr y (createReverseMap m) :=
  unmapBits_eq_or m y hk hv

/-- the docstring mapping 0 → 4, 1 → 2, 2 → 5, 3 → 0 satisfies both hypotheses used below -/
example : (keys [(0, 4), (1, 2), (2, 5), (3, 0)]).Nodup ∧ (vals [(0, 4), (1, 2), (2, 5), (3, 0)]).Nodup := by decide

/-- Bit `k` of the un-mapped outcome is bit `m[k]` of the backend outcome when `k` is mapped,
    and 0 otherwise. -/
theorem unmap_bits_testBit (m : QMap) (y k : Nat) (hk : (keys m).Nodup) (hv : (vals m).Nodup) :
    (unmapBits m y).testBit k
      = match lookup m k with
        | some v => y.testBit v
        | none => false := by
  by_cases h : k ∈ keys m
  · obtain ⟨v, hl⟩ := lookup_isSome_of_mem_keys h
    rw [testBit_unmapBits_of_mem m y k hk hv h]
    simp [look, hl]
  · rw [testBit_unmapBits_of_not_mem m y k hk hv h, lookup_none_of_not_mem_keys h]

/-- Round trip on outcomes: if the backend reports logical outcome `x` on the mapped qubits
    (`fwdBits m x`) and *anything* (`s`) on backend qubits that are not in the range of the
    mapping, `_reverse_map_bits` returns exactly `x`. -/
theorem roundtrip_bits (m : QMap) (x s : Nat) (hk : (keys m).Nodup) (hv : (vals m).Nodup)
    (hx : ∀ i, x.testBit i = true → i ∈ keys m) (hs : ∀ v ∈ vals m, s.testBit v = false) :
    unmapBits m (fwdBits m x ||| s) = x :=
  roundtrip_bits_aux m x s hk hv hx hs

example : unmapBits [(0, 4), (1, 2), (2, 5), (3, 0)] (fwdBits [(0, 4), (1, 2), (2, 5), (3, 0)] 0b1011 ||| 0b1001000010) = 0b1011 := by
  decide

/-- Bits on unmapped backend qubits are dropped — for every mapping, injective or not. -/
theorem stray_bits_dropped (m : QMap) (y y' : Nat) (h : ∀ v ∈ vals m, y.testBit v = y'.testBit v) :
    unmapBits m y = unmapBits m y' :=
  unmapBits_congr m y y' h

/-- The other composition: every backend outcome is the image of its un-mapped value plus its
    stray bits (so `unmapBits` is onto and `fwdBits` is its section). -/
theorem backend_outcome_decomposes (m : QMap) (y : Nat) (hk : (keys m).Nodup) (hv : (vals m).Nodup) :
    fwdBits m (unmapBits m y) ||| strayPart m y = y ∧
      (∀ v ∈ vals m, (strayPart m y).testBit v = false) :=
  ⟨decompose_aux m y hk hv, strayPart_off_range m y⟩

/-! ## counts -/

/-- Total counts are conserved — for every mapping and every count dictionary. -/
theorem counts_total (m : QMap) (c : Counts) : total (unmapCounts m c) = total c := by
  unfold unmapCounts reverseMapCounts
  rw [total_reverseMapCounts_aux]
  simp [total]

/-- The un-mapped dictionary is the push-forward of the backend distribution along `unmapBits`:
    the entry at `x` is the sum of the counts of all backend outcomes that un-map to `x`
    (and the result is a well-formed dict: distinct keys). -/
theorem distribution_pushforward (m : QMap) (c : Counts) (x : Nat) :
    dictGet (unmapCounts m c) x 0 = total (c.filter fun p => unmapBits m p.1 == x) ∧
      ((unmapCounts m c).map (·.1)).Nodup := by
  constructor
  · unfold unmapCounts reverseMapCounts
    rw [dictGet_reverseMapCounts_aux]
    simp [dictGet, massAt, unmapBits]
  · unfold unmapCounts reverseMapCounts
    exact reverseMapCounts_keys_nodup_aux _ _ _ (by simp)

/-- Round trip on count dictionaries, bit for bit: take any dictionary `c` of logical outcomes
    (distinct keys, supported on mapped qubits), let the backend report each outcome `x` as
    `fwdBits m x` with arbitrary stray bits `stray x` on unmapped backend qubits; un-mapping
    returns exactly `c` — same keys, same counts, same order. -/
theorem roundtrip_counts (m : QMap) (c : Counts) (stray : Nat → Nat)
    (hk : (keys m).Nodup) (hv : (vals m).Nodup)
    (hc : (c.map (·.1)).Nodup)
    (hx : ∀ p ∈ c, ∀ i, p.1.testBit i = true → i ∈ keys m)
    (hs : ∀ p ∈ c, ∀ v ∈ vals m, (stray p.1).testBit v = false) :
    unmapCounts m (c.map fun p => (fwdBits m p.1 ||| stray p.1, p.2)) = c := by
  unfold unmapCounts reverseMapCounts
  have := reverseMapCounts_image_aux (createReverseMap m) (fun x => fwdBits m x ||| stray x) c []
    (fun p hp => roundtrip_bits_aux m p.1 (stray p.1) hk hv (hx p hp) (hs p hp)) (by simpa using hc)
  simpa using this

example : unmapCounts [(0, 2), (1, 0)] ([(0, 5), (1, 7), (3, -2)].map fun p => (fwdBits [(0, 2), (1, 0)] p.1 ||| 2, p.2))
    = [(0, 5), (1, 7), (3, -2)] := by decide

/-! ## the transpiler: what is accepted, what is rejected, what comes out -/

/-- Duplicate targets are rejected at construction, whatever the circuit. -/
theorem remap_rejects_duplicates (m : QMap) (c : Circuit) (h : ¬ (vals m).Nodup) :
    mkTranspiler m = .error .dupValues ∧ remapCircuit m c = .error .dupValues := by
  have := mkTranspiler_dup m h
  exact ⟨this, by simp [remapCircuit, this]⟩

example : ¬ (vals [(0, 1), (1, 1)]).Nodup := by decide

/-- A mapping that misses a used qubit is rejected (with a `ValueError`). -/
theorem remap_rejects_unmapped (m : QMap) (c : Circuit) (q : Nat)
    (hq : q ∈ usedQubits c.gates) (hm : q ∉ keys m) : ∃ e, remapCircuit m c = .error e := by
  unfold remapCircuit
  cases hmk : mkTranspiler m with
  | error e => exact ⟨e, rfl⟩
  | ok mx =>
    have hmx := ((mkTranspiler_ok_iff m mx).1 hmk).2
    obtain ⟨e, he⟩ := remapGates_error m mx c.cbitCount hmx c.gates (fun h => hm (h.1 q hq))
    exact ⟨e, by simp [callTranspiler, he]⟩

example : (2 : Nat) ∈ usedQubits [⟨"H", [2], [], [], ""⟩] ∧ (2 : Nat) ∉ keys [(0, 0)] := by decide

/-- Exact acceptance condition of the model on arbitrary `Circuit` values (including ones that
    violate the class invariant `classicalOk`, which no real `QuantumCircuit` does). -/
theorem remap_accepts_iff_model (m : QMap) (c : Circuit) :
    (∃ c', remapCircuit m c = .ok c') ↔
      (vals m).Nodup ∧ m ≠ [] ∧ (∀ q ∈ usedQubits c.gates, q ∈ keys m) ∧
        classicalOk c.cbitCount c.gates = true := by
  unfold remapCircuit
  cases hmk : mkTranspiler m with
  | error e =>
    constructor
    · intro ⟨c', h⟩; cases h
    · intro ⟨hv, hne, _, _⟩
      exfalso
      cases hmx : maxOf (vals m) with
      | none =>
        have : vals m = [] := (maxOf_none_iff _).1 hmx
        exact hne (by simpa [vals] using this)
      | some mx =>
        have := (mkTranspiler_ok_iff m mx).2 ⟨hv, hmx⟩
        rw [hmk] at this; cases this
  | ok mx =>
    obtain ⟨hv, hmx⟩ := (mkTranspiler_ok_iff m mx).1 hmk
    have hne : m ≠ [] := by
      intro e; subst e; simp [vals, maxOf] at hmx
    by_cases hcov : (∀ q ∈ usedQubits c.gates, q ∈ keys m) ∧ classicalOk c.cbitCount c.gates = true
    · have := remapGates_ok m mx c.cbitCount hmx c.gates hcov.1 hcov.2
      simp only [callTranspiler, this]
      exact ⟨fun _ => ⟨hv, hne, hcov.1, hcov.2⟩, fun _ => ⟨_, rfl⟩⟩
    · obtain ⟨e, he⟩ := remapGates_error m mx c.cbitCount hmx c.gates hcov
      simp only [callTranspiler, he]
      constructor
      · intro ⟨c', h⟩; cases h
      · intro ⟨_, _, h1, h2⟩; exact absurd ⟨h1, h2⟩ hcov

/-- Full strength: for every circuit — Measurement gates included — a (non-empty) mapping is
    accepted iff it is injective and covers the used qubits.  `classicalOk` is not a restriction
    on the inputs: it is the invariant `QuantumCircuit.add_gate` enforces on every circuit object
    (classical indices inside the classical register).  Before ec63c89 this only held for circuits
    without classical indices (`QuantumCircuit(max_index + 1)` dropped `cbit_count`). -/
theorem remap_accepts_iff (m : QMap) (c : Circuit) (hc : classicalOk c.cbitCount c.gates = true) :
    (∃ c', remapCircuit m c = .ok c') ↔
      (vals m).Nodup ∧ m ≠ [] ∧ (∀ q ∈ usedQubits c.gates, q ∈ keys m) := by
  rw [remap_accepts_iff_model]
  simp [hc]

def witnessMap : QMap := [(0, 1), (1, 0)]
def witnessCircuit : Circuit :=
  ⟨2, 1, [⟨"H", [0], [], [], ""⟩, ⟨"Measurement", [0], [], [0], ""⟩]⟩

example : classicalOk witnessCircuit.cbitCount witnessCircuit.gates = true := by decide

/-- Regression for the repaired defect `remap-drops-cbit-count`: the former counterexample
    (H; Measurement q0 → c0 under 0 ↦ 1, 1 ↦ 0) is accepted, the classical register and the
    classical index are kept, the wires are relabelled. -/
theorem remap_accepts_measurement_regression :
    remapCircuit witnessMap witnessCircuit
      = .ok ⟨2, 1, [⟨"H", [1], [], [], ""⟩, ⟨"Measurement", [1], [], [0], ""⟩]⟩ := by
  decide

/-- What comes out: the register is `max(values) + 1` wide, the classical register is kept, every gate keeps its name, payload
    and classical indices and gets its wires relabelled through the mapping, and every index of
    the output is inside the new register. -/
theorem remap_shape (m : QMap) (c c' : Circuit) (h : remapCircuit m c = .ok c') :
    (∃ mx, maxOf (vals m) = some mx ∧ c'.qubitCount = mx + 1) ∧
      c'.cbitCount = c.cbitCount ∧
      c'.gates = c.gates.map (relabel m) ∧
      (∀ q ∈ usedQubits c'.gates, q < c'.qubitCount) := by
  have hacc := (remap_accepts_iff_model m c).1 ⟨c', h⟩
  obtain ⟨hv, hne, hcov, hcl⟩ := hacc
  unfold remapCircuit at h
  cases hmk : mkTranspiler m with
  | error e => rw [hmk] at h; cases h
  | ok mx =>
    rw [hmk] at h
    have hmx := ((mkTranspiler_ok_iff m mx).1 hmk).2
    have hg := remapGates_ok m mx c.cbitCount hmx c.gates hcov hcl
    simp only [callTranspiler, hg, Except.ok.injEq] at h
    subst h
    refine ⟨⟨mx, hmx, rfl⟩, rfl, rfl, ?_⟩
    intro q hq
    simp only [usedQubits, List.mem_flatMap, List.mem_map] at hq
    obtain ⟨g', ⟨g, hg1, e⟩, hq⟩ := hq
    subst e
    simp only [relabel, List.mem_append, List.mem_map] at hq
    have hle : q ≤ mx := by
      rcases hq with ⟨a, ha, e⟩ | ⟨a, ha, e⟩
      · rw [← e]
        exact look_le_of_max m mx hmx a (hcov a (by
          simp only [usedQubits, List.mem_flatMap]; exact ⟨g, hg1, List.mem_append_left _ ha⟩))
      · rw [← e]
        exact look_le_of_max m mx hmx a (hcov a (by
          simp only [usedQubits, List.mem_flatMap]; exact ⟨g, hg1, List.mem_append_right _ ha⟩))
    show q < mx + 1
    omega

/-! ## semantics -/

/-- The remapped circuit acts as the original on the relabelled qubits and as the identity
    elsewhere.  Stated for every interpretation `sem` of gate names/parameters as local matrices
    over any amplitude type `α` (no algebraic law is needed), every state `φ` of the backend
    register and every backend basis index `y`:

      ⟨y| remap(c) |φ⟩ = ⟨unmap y| c |x ↦ φ(fwd x ∪ stray y)⟩

    i.e. `remap(c) = P (c ⊗ 1) P⁻¹` for the basis-state bijection
    `y ↔ (unmapBits m y, strayPart m y)` — the same `unmapBits` that translates the counts. -/
theorem remap_sem {α : Type} [Add α] [Mul α] [Zero α] (sem : Interp α) (m : QMap) (c c' : Circuit)
    (hk : (keys m).Nodup) (h : remapCircuit m c = .ok c') (φ : Nat → α) (y : Nat) :
    run sem c'.gates φ y
      = run sem c.gates (fun x => φ (fwdBits m x ||| strayPart m y)) (unmapBits m y) := by
  obtain ⟨hv, _, hcov, _⟩ := (remap_accepts_iff_model m c).1 ⟨c', h⟩
  rw [(remap_shape m c c' h).2.2.1]
  have hd := decompose_aux m y hk hv
  have := run_place sem m (strayPart m y) c.gates φ (unmapBits m y) hk hv (strayPart_off_range m y) hcov
  unfold place at this
  rw [hd] at this
  exact this

example : ∃ c', remapCircuit [(0, 4), (1, 2), (2, 5), (3, 0)]
    ⟨4, 0, [⟨"CNOT", [3], [0], [], ""⟩, ⟨"RX", [2], [], [], "0.5"⟩]⟩ = .ok c' := by
  exact ⟨⟨6, 0, [⟨"CNOT", [0], [4], [], ""⟩, ⟨"RX", [5], [], [], "0.5"⟩]⟩, by decide⟩

/-- Sampling from |0…0⟩: the amplitude of backend outcome `y` in the remapped circuit is the
    amplitude of the logical outcome `unmapBits m y` in the original circuit when `y` has no 1 on
    an unmapped backend qubit, and 0 otherwise.  Hence outcome probabilities — whatever function
    of the amplitude they are — of the un-mapped distribution equal those of the original
    circuit.  Only `a * 0 = 0` and `0 + 0 = 0` are assumed of the amplitude type. -/
theorem remap_zero_state {α : Type} [Add α] [Mul α] [Zero α] (hmul : ∀ a : α, a * 0 = 0)
    (hadd : (0 : α) + 0 = 0) (sem : Interp α) (m : QMap) (c c' : Circuit)
    (hk : (keys m).Nodup) (h : remapCircuit m c = .ok c') (one : α) (y : Nat) :
    run sem c'.gates (basis0 one) y
      = if strayPart m y = 0 then run sem c.gates (basis0 one) (unmapBits m y) else 0 := by
  obtain ⟨hv, _, hcov, _⟩ := (remap_accepts_iff_model m c).1 ⟨c', h⟩
  rw [remap_sem sem m c c' hk h]
  by_cases hs : strayPart m y = 0
  · simp only [hs, if_true, Nat.or_zero]
    apply run_congr_on sem m c.gates _ _ _ hcov _ (unmapBits_supported m y hk hv)
    intro x hx
    unfold basis0
    by_cases e : x = 0
    · simp [e, (fwdBits_eq_zero_iff m 0 hk hv (by intro i hi; simp at hi)).2 rfl]
    · have : ¬ fwdBits m x = 0 := fun e' => e ((fwdBits_eq_zero_iff m x hk hv hx).1 e')
      simp [e, this]
  · simp only [hs, if_false]
    have : (fun x => basis0 one (fwdBits m x ||| strayPart m y)) = fun _ => (0 : α) := by
      funext x
      unfold basis0
      have : ¬ (fwdBits m x ||| strayPart m y) = 0 := fun e => hs (Nat.or_eq_zero_iff.1 e).2
      simp [this]
    rw [this]
    exact run_zero hmul hadd sem c.gates _

example : (∀ a : Int, a * 0 = 0) ∧ ((0 : Int) + 0 = 0) := ⟨Int.mul_zero, rfl⟩

/-! ## the integer keys the back ends hand to the un-mapping -/

/-- qiskit helper `int(result, 2)`: bit `i` of the key is the `i`-th character from the right. -/
theorem qiskit_key_testBit (s : List Bool) (i : Nat) :
    (binStrValue s).testBit i = s.reverse.getD i false :=
  testBit_binStrValue s i

/-- PARTIAL.  Braket `int(np.dot([2**q …], row))`: bit `q` of the key is the measured value of
    qubit `q` (distinct measured labels).  The full statement is for every list of measured
    labels; the unchanged code satisfies it only off NumPy's float path, i.e. unless the largest
    measured label is exactly 63 (finding `braket-key-float64-qubit63`, see
    `braket_key_float_witness`). -/
theorem braket_key_testBit_partial (qs : List Nat) (row : List Bool) (hn : qs.Nodup)
    (hf : npFloatPath qs = false) (j : Nat) :
    (braketKeyImpl qs row).testBit j = (qs.zip row).any (fun p => p.1 == j && p.2) := by
  unfold braketKeyImpl
  simp only [hf, Bool.false_eq_true, if_false]
  exact testBit_braketKey qs row hn j

example : [3, 0, 70].Nodup ∧ npFloatPath [3, 0, 70] = false := by decide

/-- The negation of the full statement on a concrete input: qubits 0 and 63 both measured as 1,
    but bit 0 of the key is 0 (the key is 2^63 instead of 2^63 + 1). -/
theorem braket_key_float_witness :
    [0, 63].Nodup ∧ (braketKeyImpl [0, 63] [true, true]).testBit 0 = false ∧
      ([0, 63].zip [true, true]).any (fun p => p.1 == 0 && p.2) = true := by
  decide

end QV.Props.C18
