import QuriVerif.Props.ReflectLift
import QuriVerif.Proof.ConjSound
import QuriVerif.Generated.C06Tables
/-
  C06 over complex operators, for ALL register sizes: `clifford_gate_conjugation` is exact.

  For every covered Clifford gate `g` (below) placed on arbitrary distinct wires of an `n`-qubit register
  and every well-formed Pauli label `P` (distinct qubits `< n`, ids in {1,2,3} = X,Y,Z) the model
  `Model/C06.cliffordConj` over the translated tables `QV.Gen.C06.tables` returns `.ok P' k`
  (never an error), `P'` is again a well-formed label, and

        ⟦g⟧ · ⟦P⟧ = i^k · ⟦P'⟧ · ⟦g⟧        as operators on the 2^n block,

  `⟦g⟧ = opC φ [g]` the embedding (`embedAct`) of the documented local matrix of `Found/Gate.lean`,
  `⟦P⟧ = opC φ (labelGates P)` the operator of the list of the single-qubit X / Y / Z gates of the label.
  (`Props/C06.lean` proves the matrix identity by kernel evaluation on the gate's own qubits and the
  spectator bookkeeping separately; here both are combined for every `n`, including the tensor step.)

  Covered (`Covered`):
    * one target, no control : X, Y, Z, H, S, Sdag, SqrtX, SqrtXdag, SqrtY, SqrtYdag, Identity;
    * control `c` ≠ target `t` : CNOT, CZ;
    * two targets `a ≠ b`      : SWAP.
  These are all members of `cliffordNames` except `Pauli`, for which the function raises
  `NotImplementedError` (model: `.notImplemented`).

  The only kernel evaluation is `tables_ok`: ONE pass over the translated tables (9 product entries
  against `refMul`; 30 single-qubit rows and 18 two-qubit rows as exact two-list certificates `exact2`
  in the ring `Poly`), and the Boolean `total_ok` (every covered kind has all its rows).
  No `Generated.C01*` file is imported.  No angle variables occur: the statements hold for every φ.
-/
namespace QV.Props.C06Lift
open QV QV.C06 QV.MatSound QV.Props.Reflect

def T : Tables := QV.Gen.C06.tables

/-- the table certificate: product table = Pauli multiplication, every conjugation row exact -/
theorem tables_ok : tablesOK T = true := by decide +kernel

/-- every covered kind is in `cliffordNames` and has a row for X, Y, Z (both roles for 2-qubit gates) -/
theorem total_ok : totalOK T = true := by decide +kernel

/-- `i^k` in ℂ is `ζ^(4k)` -/
theorem amp_is_i_pow (k : ℕ) : zetaC ^ (4 * k) = Complex.I ^ k := by
  rw [pow_mul, zetaC_pow_four]

/-- product of two operators on the `2^n` block -/
noncomputable def mulN (n : ℕ) (A B : ℕ → ℕ → ℂ) (x j : ℕ) : ℂ :=
  ((List.range (2 ^ n)).map fun k => A x k * B k j).sum

/-- running `a` and then `b` is the matrix product `⟦b⟧·⟦a⟧` -/
theorem opC_append (φ : ℕ → ℝ) (n : ℕ) (a b : List Gate) (wb : WellFormed n b) (x j : ℕ)
    (hx : x < 2 ^ n) : opC φ (a ++ b) x j = mulN n (opC φ b) (opC φ a) x j := by
  unfold opC mulN
  rw [semCirc_append, actCirc_eq_sum n b wb _ x j hx]

/-- the gate applications covered by the theorems -/
inductive Covered (n : ℕ) : Kind → List ℕ → List ℕ → Prop
  | one (k : Kind) (hk : k ∈ kinds1 ∨ k = .Identity) (t : ℕ) (ht : t < n) : Covered n k [] [t]
  | ctrl (k : Kind) (hk : k ∈ kindsC) (c t : ℕ) (hc : c < n) (ht : t < n) (hct : c ≠ t) :
      Covered n k [c] [t]
  | swap (a b : ℕ) (ha : a < n) (hb : b < n) (hab : a ≠ b) : Covered n .SWAP [] [a, b]

theorem Covered.wf {n : ℕ} {k : Kind} {cs ts : List ℕ} (h : Covered n k cs ts) :
    WellFormed n [G k cs ts] := by
  intro g hg
  simp only [List.mem_singleton] at hg
  subst hg
  cases h with
  | one k hk t ht => exact ⟨by simp [G, Gate.wires], by intro w h; simp [G, Gate.wires] at h; omega⟩
  | ctrl k hk c t hc ht hct =>
    exact ⟨by simp [G, Gate.wires, hct], by
      intro w h; simp [G, Gate.wires] at h; rcases h with rfl | rfl <;> assumption⟩
  | swap a b ha hb hab =>
    exact ⟨by simp [G, Gate.wires, hab], by
      intro w h; simp [G, Gate.wires] at h; rcases h with rfl | rfl <;> assumption⟩

/-- soundness for a given result, generic-field statement instantiated at ℂ -/
theorem clifford_conj_seq (φ : ℕ → ℝ) (n : ℕ) (k : Kind) (cs ts : List ℕ) (hg : Covered n k cs ts)
    (L : Label) (hL : LabelOK n L) (r : Label) (ph : ℕ) (h : cliffordConj T k cs ts L = .ok r ph) :
    LabelOK n r ∧
    SEq zetaC (rhoC φ) n (zetaC ^ (4 * ph)) ([G k cs ts] ++ pauliStr n (obsF r))
      (pauliStr n (obsF L) ++ [G k cs ts]) ∧
    SEq zetaC (rhoC φ) n (zetaC ^ (4 * ph)) ([G k cs ts] ++ labelGates r)
      (labelGates L ++ [G k cs ts]) := by
  cases hg with
  | one k hk t ht =>
    exact cliffordConj_1q_sound zetaC_pow_eight (rhoC_ne_zero φ) two_ne_zero T tables_ok n k t ht L hL r
      ph h
  | ctrl k hk c t hc ht hct =>
    exact cliffordConj_2q_sound zetaC_pow_eight (rhoC_ne_zero φ) two_ne_zero T tables_ok n k
      (by rintro rfl; revert hk; decide) (by rintro rfl; revert hk; decide) c t hc ht hct L hL r ph h
  | swap a b ha hb hab =>
    exact cliffordConj_swap_sound zetaC_pow_eight (rhoC_ne_zero φ) two_ne_zero T tables_ok n a b ha hb
      hab L hL r ph h

/-- the model never fails on a covered gate and a well-formed label -/
theorem clifford_conj_total (n : ℕ) (k : Kind) (cs ts : List ℕ) (hg : Covered n k cs ts)
    (L : Label) (hL : LabelOK n L) : ∃ r ph, cliffordConj T k cs ts L = .ok r ph := by
  cases hg with
  | one k hk t ht => exact cliffordConj_1q_total T total_ok n k hk t L hL
  | ctrl k hk c t hc ht hct => exact cliffordConj_2q_total T total_ok n k hk c t L hL
  | swap a b ha hb hab => exact cliffordConj_swap_total T total_ok n a b L hL

/-- **C06 for all `n`, given a result.**  If the model returns `(P', k)` for a covered gate `g` and a
    well-formed label `P`, then `P'` is a well-formed label and `⟦g⟧·⟦P⟧ = i^k·⟦P'⟧·⟦g⟧` entry by entry on
    the `2^n` block (`mulN` = matrix product; strings as the gates of the label in list order). -/
theorem clifford_conj_complex_of_eq (φ : ℕ → ℝ) (n : ℕ) (k : Kind) (cs ts : List ℕ)
    (hg : Covered n k cs ts) (L : Label) (hL : LabelOK n L) (r : Label) (ph : ℕ)
    (h : cliffordConj T k cs ts L = .ok r ph) :
    LabelOK n r ∧ ∀ x, x < 2 ^ n → ∀ j, j < 2 ^ n →
      mulN n (opC φ [G k cs ts]) (opC φ (labelGates L)) x j
        = Complex.I ^ ph * mulN n (opC φ (labelGates r)) (opC φ [G k cs ts]) x j := by
  obtain ⟨hr, _, hs⟩ := clifford_conj_seq φ n k cs ts hg L hL r ph h
  refine ⟨hr, fun x hx j hj => ?_⟩
  have e := hs x hx j hj
  rw [amp_is_i_pow] at e
  rw [← opC_append φ n _ _ hg.wf x j hx,
    ← opC_append φ n _ _ (wf_labelGates n r (fun y hy => (hr.2 y hy).1)) x j hx]
  exact e

/-- **C06 for all `n`.**  For every covered Clifford gate on distinct wires `< n` and every well-formed
    Pauli label `P` the model returns some `(P', k)`, `P'` is a well-formed label, and
    `⟦g⟧·⟦P⟧ = i^k·⟦P'⟧·⟦g⟧` on the `2^n` block. -/
theorem clifford_conj_complex (φ : ℕ → ℝ) (n : ℕ) (k : Kind) (cs ts : List ℕ)
    (hg : Covered n k cs ts) (L : Label) (hL : LabelOK n L) :
    ∃ r ph, cliffordConj T k cs ts L = .ok r ph ∧ LabelOK n r ∧
      ∀ x, x < 2 ^ n → ∀ j, j < 2 ^ n →
        mulN n (opC φ [G k cs ts]) (opC φ (labelGates L)) x j
          = Complex.I ^ ph * mulN n (opC φ (labelGates r)) (opC φ [G k cs ts]) x j := by
  obtain ⟨r, ph, h⟩ := clifford_conj_total n k cs ts hg L hL
  exact ⟨r, ph, h, clifford_conj_complex_of_eq φ n k cs ts hg L hL r ph h⟩

/-- the same with both strings read as functions `qubit ↦ id` (the dictionary reading of a label:
    `obsF P q` = id stored for `q`, 0 if absent), factors in qubit order -/
theorem clifford_conj_complex_fn (φ : ℕ → ℝ) (n : ℕ) (k : Kind) (cs ts : List ℕ)
    (hg : Covered n k cs ts) (L : Label) (hL : LabelOK n L) (r : Label) (ph : ℕ)
    (h : cliffordConj T k cs ts L = .ok r ph) :
    ∀ x, x < 2 ^ n → ∀ j, j < 2 ^ n →
      mulN n (opC φ [G k cs ts]) (opC φ (pauliStr n (obsF L))) x j
        = Complex.I ^ ph * mulN n (opC φ (pauliStr n (obsF r))) (opC φ [G k cs ts]) x j := by
  obtain ⟨_, hs, _⟩ := clifford_conj_seq φ n k cs ts hg L hL r ph h
  intro x hx j hj
  have e := hs x hx j hj
  rw [amp_is_i_pow] at e
  rw [← opC_append φ n _ _ hg.wf x j hx, ← opC_append φ n _ _ (wf_canonM n n (le_refl n) _) x j hx]
  exact e

/-! ### the statements are not vacuous -/

theorem labelOK_iff (n : ℕ) (L : Label) :
    LabelOK n L ↔ (L.Pairwise fun a b => a.1 ≠ b.1) ∧ ∀ e ∈ L, e.1 < n ∧ (e.2 = 1 ∨ e.2 = 2 ∨ e.2 = 3) :=
  Iff.rfl

instance (n : ℕ) (L : Label) : Decidable (LabelOK n L) := decidable_of_iff _ (labelOK_iff n L).symm

/-- CNOT with control 3 and target 1 in a 5-qubit register, spectators on 0 and 4:
    `X₀ Z₁ X₃ Y₄ ↦ − X₀ Y₃ Y₁ Y₄` -/
example : cliffordConj T .CNOT [3] [1] [(0, 1), (1, 3), (3, 1), (4, 2)]
    = .ok [(0, 1), (3, 2), (1, 2), (4, 2)] 2 := by decide +kernel

example (φ : ℕ → ℝ) (x j : ℕ) (hx : x < 2 ^ 5) (hj : j < 2 ^ 5) :
    mulN 5 (opC φ [G .CNOT [3] [1]]) (opC φ [G .X [] [0], G .Z [] [1], G .X [] [3], G .Y [] [4]]) x j
      = Complex.I ^ 2 * mulN 5 (opC φ [G .X [] [0], G .Y [] [3], G .Y [] [1], G .Y [] [4]])
          (opC φ [G .CNOT [3] [1]]) x j :=
  (clifford_conj_complex_of_eq φ 5 .CNOT [3] [1]
    (.ctrl .CNOT (by decide) 3 1 (by decide) (by decide) (by decide))
    [(0, 1), (1, 3), (3, 1), (4, 2)] (by decide) [(0, 1), (3, 2), (1, 2), (4, 2)] 2
    (by decide +kernel)).2 x hx j hj

/-- H on wire 2 of a 3-qubit register: `Y₂ Z₀ ↦ − Y₂ Z₀` -/
example (φ : ℕ → ℝ) (x j : ℕ) (hx : x < 2 ^ 3) (hj : j < 2 ^ 3) :
    mulN 3 (opC φ [G .H [] [2]]) (opC φ [G .Y [] [2], G .Z [] [0]]) x j
      = Complex.I ^ 2 * mulN 3 (opC φ [G .Y [] [2], G .Z [] [0]]) (opC φ [G .H [] [2]]) x j :=
  (clifford_conj_complex_of_eq φ 3 .H [] [2] (.one .H (by decide) 2 (by decide))
    [(2, 2), (0, 3)] (by decide) [(2, 2), (0, 3)] 2 (by decide +kernel)).2 x hx j hj

/-- SWAP of wires 4 and 0: `X₀ Z₂ Y₄ ↦ X₄ Z₂ Y₀` -/
example (φ : ℕ → ℝ) (x j : ℕ) (hx : x < 2 ^ 5) (hj : j < 2 ^ 5) :
    mulN 5 (opC φ [G .SWAP [] [4, 0]]) (opC φ [G .X [] [0], G .Z [] [2], G .Y [] [4]]) x j
      = Complex.I ^ 0 * mulN 5 (opC φ [G .X [] [4], G .Z [] [2], G .Y [] [0]])
          (opC φ [G .SWAP [] [4, 0]]) x j :=
  (clifford_conj_complex_of_eq φ 5 .SWAP [] [4, 0] (.swap 4 0 (by decide) (by decide) (by decide))
    [(0, 1), (2, 3), (4, 2)] (by decide) [(4, 1), (2, 3), (0, 2)] 0 (by decide +kernel)).2 x hx j hj

/-- CZ with control 0, target 2: `Y₀ X₂ Z₁ ↦ − X₀ Y₂ Z₁` -/
example (φ : ℕ → ℝ) (x j : ℕ) (hx : x < 2 ^ 3) (hj : j < 2 ^ 3) :
    mulN 3 (opC φ [G .CZ [0] [2]]) (opC φ [G .Y [] [0], G .X [] [2], G .Z [] [1]]) x j
      = Complex.I ^ 2 * mulN 3 (opC φ [G .X [] [0], G .Y [] [2], G .Z [] [1]])
          (opC φ [G .CZ [0] [2]]) x j :=
  (clifford_conj_complex_of_eq φ 3 .CZ [0] [2]
    (.ctrl .CZ (by decide) 0 2 (by decide) (by decide) (by decide))
    [(0, 2), (2, 1), (1, 3)] (by decide) [(0, 1), (2, 2), (1, 3)] 2 (by decide +kernel)).2 x hx j hj

end QV.Props.C06Lift
