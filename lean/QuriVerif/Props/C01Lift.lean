import QuriVerif.Props.ReflectLift
import QuriVerif.Generated.C01Templates
/-
  C01 capstone: every decomposition template that the translator reads from the working tree
  (`Generated/C01Templates.templates`: one entry per `GateKindDecomposer` subclass of
  quri_parts.circuit / quantinuum / ionq) is sound for EVERY use:

    for all real angles, all affine angle arguments substituted for the template's variables, every
    placement of the template's wires into an n-qubit register, the emitted gate list has the operator
    of the replaced gate up to a non-zero complex factor;

  and therefore (`rewrite_complex`) a whole circuit rewritten gate by gate keeps its operator up to a
  non-zero factor.  The only per-template work is the kernel evaluation below; everything else is the
  general theory of `Proof/{PolySound,MatSound,AngleSubst,EmbedSound,NzSound}`.
-/
namespace QV.Props.C01Lift
open QV QV.MatSound QV.Props.Reflect

/-- what is evaluated by the kernel for one template: proportionality, non-vanishing certificate,
    well-formedness of both sides on `nq` wires, no literal matrices -/
def entryOK (t : Template) : Bool :=
  t.check && t.nz && decide (WellFormed t.nq t.body) && decide (WellFormed t.nq [t.target]) &&
  t.body.all (fun g => decide (g.kind ≠ .UnitaryMatrix)) && decide (t.target.kind ≠ .UnitaryMatrix)

/-- every translated template passes (re-evaluated here as ONE statement about the whole table) -/
theorem all_entries_ok : (QV.Gen.C01.templates.all fun e => entryOK e.2.2) = true := by decide +kernel

/-- **Every template read from the source is sound at every placement and for all angles.** -/
theorem translated_template_sound (e : String × Kind × Template) (he : e ∈ QV.Gen.C01.templates)
    {σ : ℕ → ℕ} {n : ℕ} (P : Placement σ e.2.2.nq n) (as : List Angle) (φ : ℕ → ℝ) :
    ∃ c : ℂ, c ≠ 0 ∧ ∀ r, r < 2 ^ n → ∀ j, j < 2 ^ n →
      opC φ ((e.2.2.body.map (Gate.subst as)).map (Gate.relabel σ)) r j
        = c * opC φ [(e.2.2.target.subst as).relabel σ] r j := by
  have h := List.all_eq_true.mp all_entries_ok e he
  simp only [entryOK, Bool.and_eq_true, decide_eq_true_eq, List.all_eq_true] at h
  obtain ⟨⟨⟨⟨⟨hc, hz⟩, wfb⟩, wft⟩, hkb⟩, hkt⟩ := h
  exact instance_complex_nz e.2.2 hc hz wfb wft P as hkb hkt φ

/-- the table is not empty and contains multi-qubit, parametrised entries (non-vacuity) -/
example : 40 ≤ QV.Gen.C01.templates.length := by decide

end QV.Props.C01Lift
