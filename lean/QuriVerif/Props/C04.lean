import QuriVerif.Proof.C04
/-
  C04 — Exact estimators return the true expectation value.

  Property theorems only (model: Model/C04.lean, lemmas: Proof/C04.lean).  What is proved is the LOGIC
  that makes every estimator variant return the same number; the number itself is
  `Σ coef · ⟨ψ|P|ψ⟩` with `⟨ψ|P|ψ⟩ = ev st P` supplied by the backend (trusted, validated numerically
  on every run against an independent dense oracle).

  Every statement is for all operators (any labels, any coefficients, identity term, empty operator,
  bare Pauli labels), all cache histories, all batch sizes, all parameter vectors and linear mappings,
  all qubit counts.
-/
namespace QV.Props.C04
open QV.C04

/-! ## (i) the content-keyed conversion cache -/

/-- `cache_sound`.  After ANY sequence of `convert_operator` calls (successful or raising), a further
    successful call returns a backend operator on the requested number of qubits whose terms are a
    permutation of the items of the operator that was asked for — whether it was built now or found
    in the cache under an equal key. -/
theorem cache_sound (reqs : List (Estimatable × Nat)) (e : Estimatable) (n : Nat) (o : ConvOut)
    (h : convert (runConv [] reqs) e n = .ok o) :
    o.op.nq = n ∧ o.op.terms.Perm (items e) :=
  (convert_sound (valid_runConv valid_nil reqs) h).2

example : (match convert (runConv [] [(.op [([(0, 3)], ⟨8, 0⟩)], 2), (.op [([(7, 1)], ⟨8, 0⟩)], 2)])
      (.op [([(0, 3)], ⟨8, 0⟩)]) 2 with
    | .ok o => o.hit && o.cache.length == 1
    | .error _ => false) = true := by decide

/-- Consequently the value computed from the returned operator does not depend on the call history:
    it is the value of a freshly built operator, for every backend valuation `ev`. -/
theorem cache_value_history_independent (ev : Label → Int) (reqs : List (Estimatable × Nat))
    (e : Estimatable) (n : Nat) (o : ConvOut) (h : convert (runConv [] reqs) e n = .ok o) :
    expectTerms ev o.op.terms = expectTerms ev (build e n).terms :=
  expectTerms_perm ev (cache_sound reqs e n o h).2

/-- The key is the frozen *content*: two requests share a cache entry only if they ask for the same
    number of qubits and their items are permutations of each other (so an operator mutated after a
    call is looked up under a different key). -/
theorem key_sound (a b : Estimatable) (n m : Nat) (h : keyOf a n = keyOf b m) :
    n = m ∧ (items a).Perm (items b) := by
  simp only [keyOf, Key.mk.injEq] at h
  exact ⟨h.2, perm_of_isort_eq h.1⟩

/-- Conversely the key depends on the content only: the same items in any insertion order (a different
    `dict`, an equal `frozenset`) on the same number of qubits give the same key — so the second of two
    such requests is a hit. -/
theorem key_complete (a b : Estimatable) (n : Nat) (h : (items a).Perm (items b)) : keyOf a n = keyOf b n := by
  simp only [keyOf, isort_eq_of_perm h]

example : keyOf (.op [([(0, 3)], ⟨8, 0⟩), ([], ⟨4, 4⟩)]) 2 = keyOf (.op [([], ⟨4, 4⟩), ([(0, 3)], ⟨8, 0⟩)]) 2 := by decide

/-- a bare Pauli label and the operator `{label: 1}` share their key (`frozenset({(label, 1.0)})`) -/
theorem key_label_eq_unit_operator (l : Label) (n : Nat) : keyOf (.label l) n = keyOf (.op [(l, Coef.one)]) n := rfl

/-- a hit never changes the cache, a miss appends exactly one entry, an error changes nothing -/
theorem cache_growth (c : Cache) (e : Estimatable) (n : Nat) :
    match convert c e n with
    | .ok o => (o.hit = true ∧ o.cache = c) ∨ (o.hit = false ∧ o.cache = c ++ [(keyOf e n, o.op)])
    | .error _ => True := by
  unfold convert
  cases cacheGet c (keyOf e n) with
  | some b => simp
  | none =>
    by_cases hr : (items e).all (fun t => labelInRange n t.1) = true
    · simp [hr]
    · simp [hr]

/-- an operator with a label outside the register is rejected (qulacs / stim IndexError) unless an
    equal key is already cached — which, from an empty cache, cannot happen -/
theorem convert_rejects_out_of_range (e : Estimatable) (n : Nat)
    (h : (items e).all (fun t => labelInRange n t.1) = false) :
    convert [] e n = .error .indexError := by
  simp [convert, cacheGet, h]

example : convert [] (.op [([(5, 3)], Coef.one)]) 2 = .error .indexError := by decide

/-- stim's dense index list is the little-endian dense form of the label, cut after its largest index -/
theorem stim_indices (l : Label) (n : Nat) (hw : wfLabel l n = true) :
    stimIndices l n = some ((dense l n).take (maxIndex l + 1)) :=
  stimIndices_spec l n hw

example : wfLabel [(2, 3), (0, 1)] 4 = true ∧ stimIndices [(2, 3), (0, 1)] 4 = some [1, 0, 3] := by decide

/-! ## (ii) batch shapes -/

/-- `batch_shape`.  For an admissible shape (≥ 1 operator, ≥ 1 state, and 1:N, N:1 or N:N) the
    qulacs/stim dispatcher returns `max numOps numStates` pairs and result `i` belongs to operator `i`
    (or the only operator) and state `i` (or the only state); the single-state worker is used exactly
    when there is one state. -/
theorem batch_shape (a b : Nat) (h : shapeOk a b = true) :
    dispatch a b = .ok (if b = 1 then .singleState else .pairs, (List.range (max a b)).map (pairIdx a b)) :=
  dispatch_ok_of_shape h

example : shapeOk 1 3 = true ∧ shapeOk 3 1 = true ∧ shapeOk 3 3 = true ∧ shapeOk 1 1 = true := by decide
example : dispatch 3 1 = .ok (.singleState, [(0, 0), (1, 0), (2, 0)]) := by decide
example : dispatch 1 3 = .ok (.pairs, [(0, 0), (0, 1), (0, 2)]) := by decide

/-- errors exactly in the documented cases, and which one: no operator, else no state, else N:M -/
theorem batch_errors (a b : Nat) :
    (dispatch a b = .error .noOperator ↔ a = 0) ∧
    (dispatch a b = .error .noState ↔ a ≠ 0 ∧ b = 0) ∧
    (dispatch a b = .error .mismatch ↔ 1 < a ∧ 1 < b ∧ a ≠ b) :=
  dispatch_error_iff a b

/-- the shapes that are not admissible are exactly the rejected ones -/
theorem batch_rejects (a b : Nat) (h : shapeOk a b = false) :
    ∃ e, dispatch a b = .error e ∧ coreDispatch a b = .error e :=
  dispatch_error_of_not_shape h

example : shapeOk 2 3 = false ∧ shapeOk 0 1 = false ∧ shapeOk 0 0 = false := by decide

/-- the generic lifting in core (`create_concurrent_estimator_from_estimator`) pairs identically -/
theorem batch_core_agrees (a b : Nat) (h : shapeOk a b = true) :
    coreDispatch a b = .ok ((List.range (max a b)).map (pairIdx a b)) :=
  coreDispatch_ok_of_shape h

/-! ## all estimator paths return the specification -/

/-- The single estimator (`_estimate`, with its early exit for `zero()`), started in any reachable
    cache state, returns `Σ coef·⟨P⟩` with error 0. -/
theorem estimate_correct {σ : Type} (ev : σ → Label → Int) (nq : σ → Nat) (reqs : List (Estimatable × Nat))
    (e : Estimatable) (st : σ) (c' : Cache) (r : Estimate)
    (h : estimateOne ev nq (runConv [] reqs) e st = .ok (c', r)) :
    r = specEstimate ev e st :=
  (estimateOne_spec ev nq (valid_runConv valid_nil reqs) h).2

/-- `estimators_agree`.  The qulacs/stim-shaped concurrent estimator (single-state fast path or pair
    path) and the core-lifted one, started in any reachable cache state, both return — whenever they
    return — exactly the documented list: entry `i` is the specification value for the `i`-th
    (operator, state) pair of the broadcasting rule.  In particular they agree with each other and
    with per-pair calls of the single estimator, and nothing depends on the cache history. -/
theorem estimators_agree {σ : Type} (ev : σ → Label → Int) (nq : σ → Nat) (dflt : σ)
    (reqs : List (Estimatable × Nat)) (ops : List Estimatable) (states : List σ) :
    (∀ c' rs, concurrentEstimate ev nq dflt (runConv [] reqs) ops states = .ok (c', rs) →
        rs = specBatch ev dflt ops states) ∧
    (∀ c' rs, coreConcurrentEstimate ev nq dflt (runConv [] reqs) ops states = .ok (c', rs) →
        rs = specBatch ev dflt ops states) :=
  ⟨fun _ _ h => (concurrentEstimate_spec ev nq dflt (valid_runConv valid_nil reqs) ops states h).2,
   fun _ _ h => (coreConcurrentEstimate_spec ev nq dflt (valid_runConv valid_nil reqs) ops states h).2⟩

/-- non-vacuity: a 2:1 call (single-state path; the empty operator is converted and cached there) and
    a 1:2 call (pair path; `zero()` short-circuits) both succeed on concrete data -/
example :
    (match concurrentEstimate (fun (st : Nat) l => if l.isEmpty then 1 else if st = 0 then 1 else -1)
        (fun _ => 1) 0 [] [.label [(0, 3)], .op []] [1] with
     | .ok (c, rs) => c.length == 2 && rs == [⟨⟨-16, 0⟩, 0⟩, ⟨⟨0, 0⟩, 0⟩]
     | .error _ => false) = true ∧
    (match coreConcurrentEstimate (fun (st : Nat) l => if l.isEmpty then 1 else if st = 0 then 1 else -1)
        (fun _ => 1) 0 [] [.op [([(0, 3)], ⟨8, 4⟩), ([], ⟨16, 0⟩)]] [0, 1] with
     | .ok (c, rs) => c.length == 1 && rs == [⟨⟨24, 4⟩, 0⟩, ⟨⟨8, -4⟩, 0⟩]
     | .error _ => false) = true := by decide

/-- the concurrent estimators leave the cache in a state satisfying the invariant (so the theorem
    above applies to the next call as well) -/
theorem estimators_preserve_cache {σ : Type} (ev : σ → Label → Int) (nq : σ → Nat) (dflt : σ)
    (c : Cache) (hc : Valid c) (ops : List Estimatable) (states : List σ) (c' : Cache) (rs : List Estimate)
    (h : concurrentEstimate ev nq dflt c ops states = .ok (c', rs)) : Valid c' :=
  (concurrentEstimate_spec ev nq dflt hc ops states h).1

example : Valid [] := valid_nil

/-! ## (v) zero operator, reported error -/

/-- the empty operator has value 0 on every path (early exit or conversion of an empty term list) -/
theorem zero_operator {σ : Type} (ev : σ → Label → Int) (st : σ) :
    specEstimate ev (.op []) st = ⟨Coef.zero, 0⟩ := rfl

/-- every value of the specification has reported error 0 — hence, by `estimators_agree`, so has
    every result of every path -/
theorem error_zero {σ : Type} (ev : σ → Label → Int) (dflt : σ) (ops : List Estimatable) (states : List σ) :
    ∀ r ∈ specBatch ev dflt ops states, r.error = 0 := by
  intro r hr
  simp only [specBatch, List.mem_map] at hr
  obtain ⟨i, _, rfl⟩ := hr
  rfl

/-! ## `GeneralQuantumEstimator.__call__` -/

/-- without `param` every argument shape is accepted and routed to the estimator / concurrent
    estimator with the documented numbers of operators and states -/
theorem general_call_no_param (o : OpArg) (s : StateArg) :
    generalCall o s .none = .ok
      (match o, s with
       | .single, .single => .estimator
       | .single, .seq m => .concurrent 1 m
       | .seq k, .single => .concurrent k 1
       | .seq k, .seq m => .concurrent k m) := by
  cases o <;> cases s <;> rfl

/-- Full statement wanted: for one operator, one parametric state and ANY parameter argument the call
    is routed to the parametric (flat vector) or concurrent parametric (vector of vectors) estimator.
    Proved only for a non-empty parameter argument; see `general_call_empty_param_witness`. -/
theorem general_call_param_partial (p : ParamArg) (h1 : p ≠ .none) (h2 : p ≠ .empty) :
    generalCall .single .single p = .ok
      (match p with
       | .nested cnt => .concurrentParametric cnt
       | _ => .parametric) := by
  cases p with
  | none => exact absurd rfl h1
  | empty => exact absurd rfl h2
  | flat len => rfl
  | nested cnt => rfl

example : (ParamArg.flat 3 ≠ .none) ∧ (ParamArg.flat 3 ≠ .empty) := by decide

/-- FINDING (key `general-estimator.empty-params-StopIteration`): for a parametric state without
    parameters the (valid) empty parameter vector makes `__call__` leak `StopIteration` from
    `next(iter(param))`, although the parametric estimator it wraps accepts it. -/
theorem general_call_empty_param_witness :
    generalCall .single .single .empty = .error .stopIteration := by decide

/-! ## (iii) parametric states -/

/-- `parametric_eq_bound` (partial: length hypothesis).  For a parameter vector of the circuit's
    parameter count, the backend angles that `_sequential_parametric_estimate` sets on the (fresh or
    copied) parametric backend circuit — `-p`, resp. `-(seq_mapper p)` — are exactly the backend angles
    of the circuit bound to `p` and converted by the (negating) adapter.  Same circuit ⇒ same state ⇒
    same value.  The full statement (any `p`) fails, see the two witnesses below. -/
theorem parametric_eq_bound_partial (pc : PCirc) (p : List Int) (h : p.length = pc.paramCount) :
    parametricBackendAngles pc p = boundBackendAngles pc p :=
  parametric_eq_bound_aux pc p h

example : ([3, -5] : List Int).length = (PCirc.linear 2 [⟨[2, -1], 4⟩, ⟨[0, 3], 0⟩, ⟨[1, 0], 0⟩]).paramCount ∧
    parametricBackendAngles (.linear 2 [⟨[2, -1], 4⟩, ⟨[0, 3], 0⟩, ⟨[1, 0], 0⟩]) [3, -5] = .ok [-15, 15, -3] := by
  decide

/-- in terms of the documented rotation angles (a backend angle `a` implements the quri-parts rotation
    by `-a`): the circuit that is simulated has the angles `bind_parameters(p)` produces -/
theorem parametric_effective_angles (pc : PCirc) (p : List Int) (h : p.length = pc.paramCount) :
    (match parametricBackendAngles pc p with
     | .ok v => .ok (v.map (fun x => -x))
     | .error e => .error e) = bindAngles pc p := by
  rw [parametric_eq_bound_aux pc p h]
  unfold boundBackendAngles
  cases bindAngles pc p with
  | ok v => simp [List.map_map, Function.comp_def]
  | error e => rfl

/-- FINDING (key `qulacs-vector-parametric.short-params-zero-padded`): with too few values for a
    `ParametricQuantumCircuit` the vector parametric estimators silently evaluate the circuit with the
    missing angles equal to 0, while binding raises ValueError (and so do the density-matrix and the
    generically lifted parametric estimators). -/
theorem parametric_short_vector_witness :
    parametricBackendAngles (.unbound 2) [5] = .ok [-5, 0] ∧
    boundBackendAngles (.unbound 2) [5] = .error .valueError := by decide

/-- the mirror image on the binding side (outside the anchored files: `bind_parameters` of a
    linear-mapped circuit zips and ignores surplus values), recorded so that the hypothesis of
    `parametric_eq_bound_partial` is seen to be necessary in both directions -/
theorem parametric_long_vector_witness :
    parametricBackendAngles (.linear 1 [⟨[2], 0⟩]) [5, 7] = .error .valueError ∧
    boundBackendAngles (.linear 1 [⟨[2], 0⟩]) [5, 7] = .ok [-10] := by decide

/-- per-call copy: whatever the sequence of parameter vectors (valid, short, too long, raising),
    the `i`-th estimation on a compiled circuit uses the angles a fresh conversion would use -/
theorem compiled_history_independent (pc : PCirc) (ps : List (List Int)) :
    Compiled.run Compiled.call (compile pc) ps = ps.map (parametricBackendAngles pc) :=
  compiled_run_call pc ps

/-- without the copy the second of these two calls would see the first call's second angle -/
example : Compiled.run Compiled.callNoCopy (compile (.unbound 2)) [[1, 2], [3]] = [.ok [-1, -2], .ok [-3, -2]] ∧
    Compiled.run Compiled.call (compile (.unbound 2)) [[1, 2], [3]] = [.ok [-1, -2], .ok [-3, 0]] := by decide

/-! ## (iv) sparse matrices -/

/-- `sparse_denote`.  For a well-formed label on `n ≥ 1` qubits, `get_sparse_matrix` succeeds, has
    dimension `2^n`, and its (r, c) entry is the little-endian tensor product: the factor for qubit `q`
    is entry (bit q of r, bit q of c) of the label's Pauli on qubit `q` — i.e. placing the factor at list
    position `n-1-q` and taking Kronecker products left to right is the index bijection
    "qubit q ↔ bit q of the basis index". -/
theorem sparse_denote (l : Label) (n : Nat) (hn : 0 < n) (hw : wfLabel l n = true) :
    ∃ m, labelMatrix l (some n) = .ok m ∧ m.dim = 2 ^ n ∧ ∀ r c, m.ent r c = leSpec (dense l n) r c :=
  labelMatrix_some_ok l n hn hw

example : wfLabel [(0, 1), (2, 3)] 3 = true := by decide

/-- the three rejected situations of the label conversion -/
theorem sparse_label_errors (l : Label) (n : Nat) :
    labelMatrix [] none = .error .assertion ∧
    labelMatrix [] (some 0) = .error .typeError ∧
    (l ≠ [] → n < maxIndex l + 1 → labelMatrix l (some n) = .error .assertion) := by
  refine ⟨rfl, rfl, ?_⟩
  intro hl hn
  cases l with
  | nil => exact absurd rfl hl
  | cons x t => simp [labelMatrix, hn]

/-- an operator's matrix is the coefficient-weighted entrywise sum of its label matrices -/
theorem sparse_operator_linear (n : Nat) (t : Term) (rest : List Term) (m : Mat) (f : Nat → Nat → Coef)
    (hm : labelMatrix t.1 (some n) = .ok m) (hf : sumTermMatrices n rest = .ok f) :
    sumTermMatrices n (t :: rest) = .ok (fun r c => Coef.add (Coef.mulGI t.2 (m.ent r c)) (f r c)) := by
  simp [sumTermMatrices, hm, hf]

/-- the empty operator is the zero matrix (1×1 when no size is given) -/
theorem sparse_zero (n? : Option Nat) :
    ∃ f, operatorMatrix [] n? = .ok (match n? with | none => 1 | some n => 2 ^ n, f) ∧ ∀ r c, f r c = Coef.zero :=
  ⟨fun _ _ => Coef.zero, rfl, fun _ _ => rfl⟩

/-- Every matrix `get_sparse_matrix` returns is the true Pauli matrix of its label, whatever was done
    before — earlier calls, and in-place operations of the callers on the matrices they received
    (every call hands out a matrix of its own; the module's Pauli table is never changed). -/
theorem sparse_history_independent (pre : List SparseOp) (l : Label) (n : Nat) :
    (SparseSession.run ⟨SparseTable.init, []⟩ pre).table = SparseTable.init ∧
    handleFactor (getLabel ((SparseSession.run ⟨SparseTable.init, []⟩ pre).table) l n) = 1 := by
  rw [table_run]
  exact ⟨rfl, handleFactor_getLabel_init l n⟩

/-- An in-place operation on one returned matrix changes no other returned matrix. -/
theorem sparse_scale_is_local (s : SparseSession) (i j : Nat) (k : Int) (hij : i ≠ j) :
    (s.step (.scale i k)).handles[j]? = s.handles[j]? :=
  scale_other_handle s i j k hij

/-- The history of the repaired defect (fix 60b9f57; formerly finding
    `sparse.single-qubit-label-returns-shared-table-entry`): `m = get_sparse_matrix(X0)` on one qubit,
    `m *= 2`, then `get_sparse_matrix(X0 X1)` is X⊗X itself (it used to come out multiplied by 4). -/
theorem sparse_mutated_result_does_not_leak :
    let s := SparseSession.run ⟨SparseTable.init, []⟩ [.get [(0, 1)] 1, .scale 0 2]
    s.handles = [.fresh 2 [(0, 1)] 1] ∧ getLabel s.table [(0, 1), (1, 1)] 2 = .fresh 1 [(0, 1), (1, 1)] 2 := by decide

end QV.Props.C04
