import QuriVerif.Props.C11
/-
  C11 — thorough tier: exhaustive enumeration, by kernel evaluation, of EVERY merge of the statement
  lists of the two demo task systems of Props/C11.lean.  These are instances of
  `schedule_independence` / `discipline_needed` obtained without the general proof: they check the
  executable semantics (`runSched`, `exec`, `iout`) that the driver runs against the real traces.
-/
namespace QV.Props.C11Deep
open QV.C11 QV.Props.C11

/-- all interleavings of `a` steps of task 0 with `b` steps of task 1 (`fuel ≥ a + b`) -/
def merges : Nat → Nat → Nat → List (List Nat)
  | 0, _, _ => [[]]
  | fuel + 1, a, b =>
    match a, b with
    | 0, 0 => [[]]
    | a + 1, 0 => (merges fuel a 0).map (0 :: ·)
    | 0, b + 1 => (merges fuel 0 b).map (1 :: ·)
    | a + 1, b + 1 => (merges fuel a (b + 1)).map (0 :: ·) ++ (merges fuel (a + 1) b).map (1 :: ·)

example : (merges 13 6 7).length = 1716 := by decide +kernel

/-- every one of the 1716 interleavings of the disciplined demo workers is complete and returns the
    solo results of both workers -/
theorem demo_all_interleavings :
    (merges 13 6 7).all (fun s =>
      let fin := runSched demoSem s (init demoTasks (fun _ => 0) [] (fun _ => []))
      complete 2 fin
        && fin.st.out 0 == iout demoSem (progOf demoTasks 0) (fun _ => 0)
        && fin.st.out 1 == iout demoSem (progOf demoTasks 1) (fun _ => 0)
        && cacheOK demoSem fin.st.cache) = true := by
  decide +kernel

/-- of the 20 interleavings of the two workers sharing a state-vector cell, some disagree with the
    sequential result -/
theorem racy_some_interleaving_differs :
    (merges 6 3 3).any (fun s =>
      (runSched demoSem s (init racyTasks (fun _ => 0) [] (fun _ => []))).st.out 0
        != (runSched demoSem (seqSched racyTasks) (init racyTasks (fun _ => 0) [] (fun _ => []))).st.out 0) = true := by
  decide +kernel

end QV.Props.C11Deep
