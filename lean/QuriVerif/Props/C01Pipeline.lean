import QuriVerif.Props.C01Pass
import QuriVerif.Proof.PassSound6
import QuriVerif.Model.StdEnv
/-
  C01, pipeline level: passes of the executable model `Model/C01.lean` other than `decompPass`, and
  their composition by `runPass` / `runSeq` in the standard environment `stdEnv` (tables translated
  from the working tree), read in ℂ at `φ₀ = π/64` (`opN`).

  Invariant: `CInv n c` (decidable) – every gate has distinct wires `< n` and the arity of its kind.
  Every theorem has the form   `CInv n c → CInv n (pass c) ∧ OpEqvC n c (pass c)`,
  where `OpEqvC n c c' :⇔ ∃ z ≠ 0, ∀ r j < 2^n, opN c' r j = z · opN c r j`.

  Status of the `Pass` constructors:
    proved   : decomp, fuseRot, normalize, ladder (for the certified ladders: all of `stdEnv` except
               `U1qNormalizeWithRZTranspiler`, whose general row is a known finding), clifConv,
               idElim, idInsert m (m ≤ n), um1, um2 (identities in the model),
               rotConv (nested pipeline of decomp passes), cliffApprox (never run by `runPass`:
               it is an approximation, deliberately not operator preserving, and returns an error);
               fuseCHC, cnotRzRzz (third round, two-list templates);
               pauliDec (fourth round: the multi-qubit Pauli gate IS the product of its factors, every
               number of targets, `Proof/PauliSound`);
               pauliRotDec (fifth round, `Proof/RotSound`: commutation of gates on disjoint wires, the
               CNOT ladder, basis layer, the local matrix `(v+w)·1 − (v−w)·P`; every number of targets);
    pending  : none.  `runSeq_sound` / `runPass_sound` cover every `Pass` constructor, including the nested
               pipelines of `rotConv` and `gateSetConv`.
-/
namespace QV.Props.C01Pipeline
open QV QV.C01 QV.MatSound QV.Props.Reflect QV.Props.C01Lift QV.Props.C01Pass

/-- operator of `c'` = non-zero complex multiple of the operator of `c`, on the `2^n` block -/
def OpEqvC (n : ℕ) (c c' : List NGate) : Prop :=
  ∃ z : ℂ, z ≠ 0 ∧ ∀ r, r < 2 ^ n → ∀ j, j < 2 ^ n → opN c' r j = z * opN c r j

theorem opEqvC_iff (n : ℕ) (c c' : List NGate) :
    OpEqvC n c c' ↔ OpEqv zetaC (rhoC φ64) n c c' := Iff.rfl

/-- every table entry respects the arities of the kinds (kernel-evaluated once) -/
theorem table_arity_ok : (QV.Gen.C01.templates.all tableArityOK) = true := by decide +kernel

theorem stdTableOK : TableOK zetaC (rhoC φ64) stdEnv.templates :=
  ⟨fun e he => entrySound e he φ64, fun e he => List.all_eq_true.mp table_arity_ok e he⟩

/-- `CInv` implies the side condition of `decompPass_sound` -/
theorem decompPass_sound' (names : List String) (n : ℕ) (c : List NGate) (hc : CInv n c) :
    CInv n (decompPass QV.Gen.C01.templates names c) ∧
    OpEqvC n c (decompPass QV.Gen.C01.templates names c) :=
  decompPass_ok zetaC_pow_eight (rhoC_ne_zero φ64) rho64_pow _ stdTableOK names n c hc

/-- `IdentityEliminationTranspiler` -/
theorem idElimPass_sound (n : ℕ) (c : List NGate) (hc : CInv n c) :
    CInv n (idElimPass c) ∧ OpEqvC n c (idElimPass c) := idElimPass_ok n c hc

/-- `IdentityInsertionTranspiler` -/
theorem idInsertPass_sound (n m : ℕ) (hm : m ≤ n) (c : List NGate) (hc : CInv n c) :
    CInv n (idInsertPass m c) ∧ OpEqvC n c (idInsertPass m c) := idInsertPass_ok n m hm c hc

/-- `NormalizeRotationTranspiler`: `R(θ + 2πm) = (−1)^m R(θ)` for RX, RY, RZ and every integer `m` -/
theorem normalizePass_sound (n : ℕ) (lo : ℤ) (c : List NGate) (hc : CInv n c) :
    CInv n (normalizePass lo c) ∧ OpEqvC n c (normalizePass lo c) :=
  normalizePass_ok zetaC_pow_eight (rhoC_ne_zero φ64) rho64_pow n lo c hc

/-- **Pipelines, unconditional part**: `runSeq` in the standard environment, for pipelines built from
    `decomp`, `normalize`, `idElim`, `idInsert m` (`m ≤ n`), `um1`, `um2`, `rotConv`. -/
theorem runSeq_sound_proved (n fuel : ℕ) (ps : List Pass) (c c' : List NGate)
    (hf : ∀ p ∈ ps, p.fits n = true ∧ provedPass p = true) (hc : CInv n c)
    (h : runSeq stdEnv fuel ps c = .ok c') : CInv n c' ∧ OpEqvC n c c' :=
  MatSound.runSeq_sound_proved zetaC_pow_eight (rhoC_ne_zero φ64) rho64_pow stdEnv stdTableOK n fuel
    ps c c' hf hc h

/-- **Pipelines, general (partial)**: every pipeline, including `gateSetConv`, assuming soundness of
    the pending primitive passes (see the header). -/
theorem runSeq_sound_partial (n : ℕ)
    (hpend : ∀ p, pendingPass p = true → PrimOK zetaC (rhoC φ64) stdEnv n p)
    (fuel : ℕ) (ps : List Pass) (c c' : List NGate) (hf : ∀ p ∈ ps, p.fits n = true)
    (hc : CInv n c) (h : runSeq stdEnv fuel ps c = .ok c') : CInv n c' ∧ OpEqvC n c c' :=
  MatSound.runSeq_sound_partial zetaC_pow_eight (rhoC_ne_zero φ64) rho64_pow stdEnv stdTableOK n
    hpend fuel ps c c' hf hc h

/-! ### non-vacuity -/

private def circ : List NGate :=
  [{ kind := .Identity, targets := [1] }, { kind := .RX, targets := [0], params := [5 + 3 * 128] },
   { kind := .CNOT, controls := [0], targets := [2] }, { kind := .RY, targets := [2], params := [-7] },
   { kind := .Identity, targets := [0] }]

private theorem circ_inv : CInv 4 circ := by decide +kernel

example : idElimPass circ =
    [{ kind := .RX, targets := [0], params := [389] }, { kind := .CNOT, controls := [0], targets := [2] },
     { kind := .RY, targets := [2], params := [-7] }] := by decide +kernel
example : OpEqvC 4 circ (idElimPass circ) := (idElimPass_sound 4 circ circ_inv).2

example : idInsertPass 4 circ = circ ++ [{ kind := .Identity, targets := [3] }] := by decide +kernel
example : OpEqvC 4 circ (idInsertPass 4 circ) := (idInsertPass_sound 4 4 (le_refl 4) circ circ_inv).2

/-- 389 = 5 + 3·128 ↦ 5 (three full turns: factor (−1)³), −7 ↦ 121 -/
example : normalizePass 0 circ =
    [{ kind := .Identity, targets := [1] }, { kind := .RX, targets := [0], params := [5] },
     { kind := .CNOT, controls := [0], targets := [2] }, { kind := .RY, targets := [2], params := [121] },
     { kind := .Identity, targets := [0] }] := by decide +kernel
example : OpEqvC 4 circ (normalizePass 0 circ) := (normalizePass_sound 4 0 circ circ_inv).2

private def pipe : List Pass :=
  [.idInsert 4, .normalize 0, .decomp ["CNOT2CZHTranspiler"], .rotConv [.RZ] [.SqrtX], .idElim]

private def pipeOut : List NGate :=
  match runSeq stdEnv stdFuel pipe circ with
  | .ok r => r
  | .error _ => []

private theorem pipe_runs : runSeq stdEnv stdFuel pipe circ = .ok pipeOut := by decide +kernel
private theorem pipe_len : pipeOut.length = 12 := by decide +kernel

example : CInv 4 pipeOut ∧ OpEqvC 4 circ pipeOut :=
  runSeq_sound_proved 4 stdFuel pipe circ pipeOut (by decide) circ_inv pipe_runs

/-! ## second round: `fuseRot`, `clifConv`, `ladder`, and `GateSetConversion` pipelines -/

/-- every (key, candidate) pair of the Clifford equivalence table is a certified template of the
    right shape (kernel-evaluated once) -/
theorem clif_table_ok : (stdEnv.clifTable.all fun kc => kc.2.all fun cand =>
    tplOK (clifTpl kc.1 cand) && tableEntryOK ("", kc.1, clifTpl kc.1 cand) &&
    tableArityOK ("", kc.1, clifTpl kc.1 cand)) = true := by decide +kernel

theorem stdClifTableOK : ClifTableOK zetaC (rhoC φ64) stdEnv.clifTable := by
  intro kc hkc cand hcand
  have h := List.all_eq_true.mp (List.all_eq_true.mp clif_table_ok kc hkc) cand hcand
  simp only [Bool.and_eq_true] at h
  exact ⟨entrySound_of_tplOK zetaC_pow_eight (rhoC_ne_zero φ64) two_ne_zero _ h.1.1 h.1.2, h.2⟩

/-- the ladders of `RX/RY/RZ2NamedTranspiler` and `ZeroRotationEliminationTranspiler` carry their
    certificates: every row, every listed threshold, every alternative (kernel-evaluated once) -/
theorem std_ladders_ok :
    ((stdEnv.ladders.filter fun l => l.1 != "U1qNormalizeWithRZTranspiler").all
      fun l => ladderOK l.2) = true := by decide +kernel

/-- known finding (DESIGN: "`U1qNormalizeWithRZTranspiler` general branch in matrix-product order"):
    the general row of this ladder is NOT a valid identity, so the ladder is not certified -/
example : ladderOK QV.Gen.C01L.ladder_U1qNormalizeWithRZTranspiler_U1q = false := by decide +kernel

theorem std_subpipelines_ok :
    (rotationFuser ++ rotation2Named).all (Pass.ladderGood stdEnv) = true := by decide +kernel

theorem stdEnvOK : EnvOK zetaC (rhoC φ64) stdEnv := ⟨stdTableOK, stdClifTableOK, std_subpipelines_ok⟩

/-- `FuseRotationTranspiler` -/
theorem fuseRotPass_sound (n : ℕ) (c out : List NGate) (hc : CInv n c)
    (h : fuseRotPass c = some out) : CInv n out ∧ OpEqvC n c out :=
  fuseRotPass_ok zetaC_pow_eight (rhoC_ne_zero φ64) rho64_pow two_ne_zero n c out hc h

/-- `CliffordConversionTranspiler` -/
theorem clifConvPass_sound (tset : List Kind) (n : ℕ) (c : List NGate) (hc : CInv n c) :
    CInv n (clifConvPass stdEnv.clifTable stdEnv.cliff1q tset c) ∧
    OpEqvC n c (clifConvPass stdEnv.clifTable stdEnv.cliff1q tset c) :=
  clifConvPass_ok zetaC_pow_eight (rhoC_ne_zero φ64) rho64_pow _ stdClifTableOK _ tset n c hc

/-- threshold ladders (`RX2Named…`, `RY2Named…`, `RZ2Named…`, `ZeroRotationElimination…`) -/
theorem ladderPass_sound (ls : List Ladder) (hls : ∀ l ∈ ls, ladderOK l = true) (alt n : ℕ)
    (c : List NGate) (hc : CInv n c) :
    CInv n (ladderPass ls alt c) ∧ OpEqvC n c (ladderPass ls alt c) :=
  ladderPass_ok zetaC_pow_eight (rhoC_ne_zero φ64) rho64_pow two_ne_zero ls hls alt n c hc

/-- **Pipelines, unconditional** (`provedPass3`): decomp, fuseRot, normalize, certified ladders,
    clifConv, idElim, idInsert, um1, um2, rotConv -/
theorem runSeq_sound_proved3 (n fuel : ℕ) (ps : List Pass) (c c' : List NGate)
    (hf : ∀ p ∈ ps, p.fits n = true ∧ p.ladderGood stdEnv = true ∧ provedPass3 p = true)
    (hc : CInv n c) (h : runSeq stdEnv fuel ps c = .ok c') : CInv n c' ∧ OpEqvC n c c' :=
  MatSound.runSeq_sound_proved3 zetaC_pow_eight (rhoC_ne_zero φ64) rho64_pow two_ne_zero stdEnv
    stdEnvOK n fuel ps c c' hf hc h

/-- **Pipelines, general** – including `GateSetConversionTranspiler` – assuming soundness of
    `fuseCHC`, `pauliDec`, `pauliRotDec`, `cnotRzRzz` -/
theorem runSeq_sound_partial3 (n : ℕ)
    (hpend : ∀ p, pendingPass3 p = true → PrimOK zetaC (rhoC φ64) stdEnv n p)
    (fuel : ℕ) (ps : List Pass) (c c' : List NGate)
    (hf : ∀ p ∈ ps, p.fits n = true ∧ p.ladderGood stdEnv = true)
    (hc : CInv n c) (h : runSeq stdEnv fuel ps c = .ok c') : CInv n c' ∧ OpEqvC n c c' :=
  MatSound.runSeq_sound_partial3 zetaC_pow_eight (rhoC_ne_zero φ64) rho64_pow two_ne_zero stdEnv
    stdEnvOK n hpend fuel ps c c' hf hc h

/-! ### non-vacuity, second round -/

private def circ2 : List NGate :=
  [{ kind := .RZ, targets := [0], params := [20] }, { kind := .RZ, targets := [0], params := [12] },
   { kind := .RX, targets := [1], params := [100] }, { kind := .RX, targets := [1], params := [28] },
   { kind := .CNOT, controls := [0], targets := [1] }, { kind := .RY, targets := [1], params := [64] },
   { kind := .X, targets := [0] }]

private theorem circ2_inv : CInv 2 circ2 := by decide +kernel

/-- RZ(20)RZ(12) ↦ RZ(32); RX(100)RX(28) ↦ RX(128 mod 128 = 0) -/
example : fuseRotPass circ2 = some
    [{ kind := .RZ, targets := [0], params := [32] }, { kind := .RX, targets := [1], params := [0] },
     { kind := .CNOT, controls := [0], targets := [1] }, { kind := .RY, targets := [1], params := [64] },
     { kind := .X, targets := [0] }] := by decide +kernel

/-- `rotationFuser ++ rotation2Named ++ [clifConv [H, S]]`: RZ(32) ↦ S, RX(0) eliminated, RY(64) ↦ Y,
    then X, Y re-expressed over {H, S} -/
private def pipe2 : List Pass := rotationFuser ++ rotation2Named ++ [.clifConv [.H, .S]]

private def pipe2Out : List NGate :=
  match runSeq stdEnv stdFuel pipe2 circ2 with
  | .ok r => r
  | .error _ => []

private theorem pipe2_runs : runSeq stdEnv stdFuel pipe2 circ2 = .ok pipe2Out := by decide +kernel
private theorem pipe2_kinds : pipe2Out.map (·.kind) =
    [.S, .CNOT, .S, .S, .H, .S, .S, .H, .H, .S, .S, .H] := by decide +kernel

example : CInv 2 pipe2Out ∧ OpEqvC 2 circ2 pipe2Out :=
  runSeq_sound_proved3 2 stdFuel pipe2 circ2 pipe2Out (by decide +kernel) circ2_inv pipe2_runs

/-! ## third round: `fuseCHC`, `cnotRzRzz` (two-list templates) -/

/-- RZZ(0,1,θ) ∝ CNOT(0,1)·RZ(1,θ)·CNOT(0,1) for all θ, with non-vanishing certificates -/
theorem rzz_cert : tpl2OK rzzT2 = true := by decide +kernel

/-- the 7-gate CHC replacement ∝ CNOT(0,1)·H(0)·CNOT(0,1), with certificates and arities -/
theorem chc_cert : chcOK stdEnv.chc = true := by decide +kernel

theorem stdEnvOK4 : EnvOK4 zetaC (rhoC φ64) stdEnv := ⟨stdEnvOK, chc_cert, rzz_cert⟩

/-- `fuseCHCPass` -/
theorem fuseCHCPass_sound (n : ℕ) (c out : List NGate) (hc : CInv n c)
    (h : fuseCHCPass stdEnv.chc c = some out) : CInv n out ∧ OpEqvC n c out :=
  fuseCHCPass_ok zetaC_pow_eight (rhoC_ne_zero φ64) rho64_pow two_ne_zero _ chc_cert n c out hc h

/-- `cnotRzRzzPass` -/
theorem cnotRzRzzPass_sound (n : ℕ) (c : List NGate) (hc : CInv n c) :
    CInv n (cnotRzRzzPass c) ∧ OpEqvC n c (cnotRzRzzPass c) :=
  cnotRzRzzPass_ok zetaC_pow_eight (rhoC_ne_zero φ64) two_ne_zero rzz_cert n c hc

/-- **Pipelines, unconditional** (`provedPass4`): every primitive pass except `pauliDec` and
    `pauliRotDec`, and `rotConv` -/
theorem runSeq_sound_proved4 (n fuel : ℕ) (ps : List Pass) (c c' : List NGate)
    (hf : ∀ p ∈ ps, p.fits n = true ∧ p.ladderGood stdEnv = true ∧ provedPass4 p = true)
    (hc : CInv n c) (h : runSeq stdEnv fuel ps c = .ok c') : CInv n c' ∧ OpEqvC n c c' :=
  MatSound.runSeq_sound_proved4 zetaC_pow_eight (rhoC_ne_zero φ64) rho64_pow two_ne_zero stdEnv
    stdEnvOK4 n fuel ps c c' hf hc h

/-- **Pipelines, general** – including `GateSetConversionTranspiler` – assuming soundness of
    `pauliDec` and `pauliRotDec` only -/
theorem runSeq_sound_partial4 (n : ℕ)
    (hpend : ∀ p, pendingPass4 p = true → PrimOK zetaC (rhoC φ64) stdEnv n p)
    (fuel : ℕ) (ps : List Pass) (c c' : List NGate)
    (hf : ∀ p ∈ ps, p.fits n = true ∧ p.ladderGood stdEnv = true)
    (hc : CInv n c) (h : runSeq stdEnv fuel ps c = .ok c') : CInv n c' ∧ OpEqvC n c c' :=
  MatSound.runSeq_sound_partial4 zetaC_pow_eight (rhoC_ne_zero φ64) rho64_pow two_ne_zero stdEnv
    stdEnvOK4 n hpend fuel ps c c' hf hc h

/-! ### non-vacuity, third round: circuits where the two window passes fire -/

private def circ3 : List NGate :=
  [{ kind := .X, targets := [2] },
   { kind := .CNOT, controls := [0], targets := [1] }, { kind := .H, targets := [0] },
   { kind := .CNOT, controls := [0], targets := [1] },
   { kind := .CNOT, controls := [2], targets := [1] }, { kind := .RZ, targets := [1], params := [9] },
   { kind := .CNOT, controls := [2], targets := [1] }, { kind := .RZ, targets := [0], params := [3] }]

private theorem circ3_inv : CInv 3 circ3 := by decide +kernel

/-- the CHC window on wires (0,1) is replaced by the 7-gate list -/
example : fuseCHCPass stdEnv.chc circ3 = some
    [{ kind := .X, targets := [2] },
     { kind := .S, targets := [0] }, { kind := .H, targets := [1] },
     { kind := .CNOT, controls := [1], targets := [0] }, { kind := .Sdag, targets := [0] },
     { kind := .S, targets := [1] }, { kind := .H, targets := [0] }, { kind := .H, targets := [1] },
     { kind := .CNOT, controls := [2], targets := [1] }, { kind := .RZ, targets := [1], params := [9] },
     { kind := .CNOT, controls := [2], targets := [1] }, { kind := .RZ, targets := [0], params := [3] }] := by
  decide +kernel

/-- the CNOT·RZ·CNOT window on wires (2,1) becomes RZZ(2,1; 9) -/
example : cnotRzRzzPass circ3 =
    [{ kind := .X, targets := [2] },
     { kind := .CNOT, controls := [0], targets := [1] }, { kind := .H, targets := [0] },
     { kind := .CNOT, controls := [0], targets := [1] },
     { kind := .RZZ, targets := [2, 1], params := [9] }, { kind := .RZ, targets := [0], params := [3] }] := by
  decide +kernel

example : OpEqvC 3 circ3 (cnotRzRzzPass circ3) := (cnotRzRzzPass_sound 3 circ3 circ3_inv).2

private def pipe3 : List Pass :=
  [.cnotRzRzz, .fuseCHC, .decomp ["X2HZTranspiler"], .fuseRot, .normalize 0, .clifConv [.H, .S, .Z]]

private def pipe3Out : List NGate :=
  match runSeq stdEnv stdFuel pipe3 circ3 with
  | .ok r => r
  | .error _ => []

private theorem pipe3_runs : runSeq stdEnv stdFuel pipe3 circ3 = .ok pipe3Out := by decide +kernel
private theorem pipe3_len : pipe3Out.length = 13 := by decide +kernel

example : CInv 3 pipe3Out ∧ OpEqvC 3 circ3 pipe3Out :=
  runSeq_sound_proved4 3 stdFuel pipe3 circ3 pipe3Out (by decide +kernel) circ3_inv pipe3_runs

/-! ## fourth round: `pauliDec` -/

/-- `PauliDecomposeTranspiler`: a multi-qubit Pauli gate (any number of targets) and the list of its
    single-qubit factors have the same operator (factor exactly 1) -/
theorem pauliDecPass_sound (n : ℕ) (c : List NGate) (hc : CInv n c) :
    CInv n (pauliDecPass c) ∧ OpEqvC n c (pauliDecPass c) :=
  pauliDecPass_ok zetaC_pow_eight n c hc

/-- **Pipelines, unconditional** (`provedPass5`): every primitive pass except `pauliRotDec` -/
theorem runSeq_sound_proved5 (n fuel : ℕ) (ps : List Pass) (c c' : List NGate)
    (hf : ∀ p ∈ ps, p.fits n = true ∧ p.ladderGood stdEnv = true ∧ provedPass5 p = true)
    (hc : CInv n c) (h : runSeq stdEnv fuel ps c = .ok c') : CInv n c' ∧ OpEqvC n c c' :=
  MatSound.runSeq_sound_proved5 zetaC_pow_eight (rhoC_ne_zero φ64) rho64_pow two_ne_zero stdEnv
    stdEnvOK4 n fuel ps c c' hf hc h

/-- **Pipelines, general** – including `GateSetConversionTranspiler` – assuming soundness of
    `pauliRotDec` only -/
theorem runSeq_sound_partial5 (n : ℕ) (hpend : PrimOK zetaC (rhoC φ64) stdEnv n .pauliRotDec)
    (fuel : ℕ) (ps : List Pass) (c c' : List NGate)
    (hf : ∀ p ∈ ps, p.fits n = true ∧ p.ladderGood stdEnv = true)
    (hc : CInv n c) (h : runSeq stdEnv fuel ps c = .ok c') : CInv n c' ∧ OpEqvC n c c' :=
  MatSound.runSeq_sound_partial5 zetaC_pow_eight (rhoC_ne_zero φ64) rho64_pow two_ne_zero stdEnv
    stdEnvOK4 n hpend fuel ps c c' hf hc h

/-! ### non-vacuity, fourth round -/

private def circ4 : List NGate :=
  [{ kind := .H, targets := [1] },
   { kind := .Pauli, targets := [3, 0, 2, 1], paulis := [2, 1, 3, 2] },
   { kind := .CNOT, controls := [0], targets := [3] }]

private theorem circ4_inv : CInv 4 circ4 := by decide +kernel

example : pauliDecPass circ4 =
    [{ kind := .H, targets := [1] }, { kind := .Y, targets := [3] }, { kind := .X, targets := [0] },
     { kind := .Z, targets := [2] }, { kind := .Y, targets := [1] },
     { kind := .CNOT, controls := [0], targets := [3] }] := by decide +kernel

example : OpEqvC 4 circ4 (pauliDecPass circ4) := (pauliDecPass_sound 4 circ4 circ4_inv).2

private def pipe4 : List Pass :=
  [.pauliDec, .decomp ["Y2RYTranspiler", "X2RXTranspiler", "Z2RZTranspiler"], .fuseRot, .normalize 0]

private def pipe4Out : List NGate :=
  match runSeq stdEnv stdFuel pipe4 circ4 with
  | .ok r => r
  | .error _ => []

private theorem pipe4_runs : runSeq stdEnv stdFuel pipe4 circ4 = .ok pipe4Out := by decide +kernel

example : CInv 4 pipe4Out ∧ OpEqvC 4 circ4 pipe4Out :=
  runSeq_sound_proved5 4 stdFuel pipe4 circ4 pipe4Out (by decide +kernel) circ4_inv pipe4_runs

/-! ## fifth round: `pauliRotDec`; no pending pass is left -/

/-- `PauliRotationDecomposeTranspiler`: `exp(−iθ/2·P)` = basis changes · CNOT ladder · RZ(θ) · ladder ·
    inverse basis changes, for every number of targets and every Pauli string -/
theorem pauliRotDecPass_sound (n : ℕ) (c : List NGate) (hc : CInv n c) :
    CInv n (pauliRotDecPass c) ∧ OpEqvC n c (pauliRotDecPass c) :=
  pauliRotDecPass_ok zetaC_pow_eight (rhoC_ne_zero φ64) rho64_pow two_ne_zero n c hc

/-- **Pipelines, final form.**  In the standard environment (tables translated from the working tree),
    EVERY pipeline that `runSeq` completes – every `Pass` constructor, including
    `RotationConversionTranspiler` and `GateSetConversionTranspiler` with their nested pipelines – maps a
    numeric circuit satisfying the invariant `CInv n` to one satisfying it, with the same complex operator
    up to a non-zero factor.  Side conditions: `idInsert m` needs `m ≤ n` (`Pass.fits`), a `ladder` pass
    must select certified ladders (`Pass.ladderGood`: everything but `U1qNormalizeWithRZTranspiler`, a
    known finding).  `cliffApprox` (an approximation) is not executed by `runPass`. -/
theorem runSeq_sound (n fuel : ℕ) (ps : List Pass) (c c' : List NGate)
    (hf : ∀ p ∈ ps, p.fits n = true ∧ p.ladderGood stdEnv = true)
    (hc : CInv n c) (h : runSeq stdEnv fuel ps c = .ok c') : CInv n c' ∧ OpEqvC n c c' :=
  runSeq_sound6 zetaC_pow_eight (rhoC_ne_zero φ64) rho64_pow two_ne_zero stdEnv stdEnvOK4 n fuel
    ps c c' hf hc h

/-- the same for one pass -/
theorem runPass_sound (n fuel : ℕ) (p : Pass) (c c' : List NGate)
    (hf : p.fits n = true ∧ p.ladderGood stdEnv = true)
    (hc : CInv n c) (h : runPass stdEnv fuel p c = .ok c') : CInv n c' ∧ OpEqvC n c c' :=
  runPass_sound6 zetaC_pow_eight (rhoC_ne_zero φ64) rho64_pow two_ne_zero stdEnv stdEnvOK4 n fuel
    p c c' hf hc h

/-! ### non-vacuity, fifth round: `GateSetConversionTranspiler` end to end -/

private def circ5 : List NGate :=
  [{ kind := .PauliRotation, targets := [0, 2], paulis := [1, 2], params := [10] },
   { kind := .Pauli, targets := [1, 0], paulis := [3, 2] },
   { kind := .TOFFOLI, controls := [0, 1], targets := [2] },
   { kind := .H, targets := [1] }]

private theorem circ5_inv : CInv 3 circ5 := by decide +kernel

/-- `exp(−iθ/2·X₀Y₂)`: H(0), RX(2, π/2), CNOT(2→0), RZ(0, θ), CNOT(2→0), H(0), RX(2, −π/2) -/
example : pauliRotDecPass circ5 =
    [{ kind := .H, targets := [0] }, { kind := .RX, targets := [2], params := [32] },
     { kind := .CNOT, controls := [2], targets := [0] }, { kind := .RZ, targets := [0], params := [10] },
     { kind := .CNOT, controls := [2], targets := [0] },
     { kind := .H, targets := [0] }, { kind := .RX, targets := [2], params := [-32] },
     { kind := .Pauli, targets := [1, 0], paulis := [3, 2] },
     { kind := .TOFFOLI, controls := [0, 1], targets := [2] }, { kind := .H, targets := [1] }] := by
  decide +kernel

example : OpEqvC 3 circ5 (pauliRotDecPass circ5) := (pauliRotDecPass_sound 3 circ5 circ5_inv).2

/-- conversion to the gate set {RX, RZ, CNOT} with validation, and to {H, S, T, CNOT, RZ} -/
private def gsA : List Pass := [.gateSetConv [.RX, .RZ, .CNOT] true]
private def gsB : List Pass := [.gateSetConv [.H, .S, .T, .CNOT, .RZ] false]

private def outOf (ps : List Pass) : List NGate :=
  match runSeq stdEnv stdFuel ps circ5 with
  | .ok r => r
  | .error _ => []

private theorem gsA_runs : runSeq stdEnv stdFuel gsA circ5 = .ok (outOf gsA) := by decide +kernel
private theorem gsB_runs : runSeq stdEnv stdFuel gsB circ5 = .ok (outOf gsB) := by decide +kernel
private theorem gsA_len : (outOf gsA).length = 37 ∧ (outOf gsA).all (fun g =>
    [Kind.RX, .RZ, .CNOT].contains g.kind) = true := by decide +kernel
private theorem gsB_len : (outOf gsB).length = 39 := by decide +kernel

example : CInv 3 (outOf gsA) ∧ OpEqvC 3 circ5 (outOf gsA) :=
  runSeq_sound 3 stdFuel gsA circ5 _ (by decide +kernel) circ5_inv gsA_runs

example : CInv 3 (outOf gsB) ∧ OpEqvC 3 circ5 (outOf gsB) :=
  runSeq_sound 3 stdFuel gsB circ5 _ (by decide +kernel) circ5_inv gsB_runs

end QV.Props.C01Pipeline
