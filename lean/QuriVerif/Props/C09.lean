import QuriVerif.Proof.C09
/-
  C09 — Parameter-shift gradients and Hessians equal the analytic derivatives.

  Property theorems only (model: Model/C09.lean, helper lemmas: Proof/C09.lean).

  Setting.  `K` is an arbitrary commutative ring (ℝ or ℂ in the intended reading), `ι : ℚ →+* K`
  embeds the coefficients handled by the code (every float is a rational).  The expectation value of
  a circuit is a trigonometric expression `e : TExp K` in the pairs `(cos φ_j, sin φ_j)`, one pair
  per raw gate parameter `j`; a *point* assigns a pair to every raw parameter; `TExp.deriv dc` is
  the derivation along a direction in which `φ_j` moves with velocity `dc j` (Leibniz rule,
  `cos' = −sin`, `sin' = cos`), i.e. the true derivative; a shift by `k·π/2` acts on a point by
  `k` quarter turns (`rotI`).  Every statement is for all expressions / mappings / points / parameter
  values — no bounds.

  Finding F6 (unchanged code).  The statement "for every linearly mapped parametric circuit the
  parameter-shift gradient is the derivative" is FALSE for circuits obtained by combining the same
  sub-circuit twice (`sub + sub`): `LinearParameterMapping.combine` concatenates `in_params` and
  `out_params` without de-duplication and the Rust `extend` re-uses the raw `Parameter` objects, so a
  raw parameter feeds two gates (the expectation is no longer affine in `(cos φ_j, sin φ_j)`) and
  occurs twice in `out_params` (its shift terms are counted twice).  The proved statements therefore
  carry the hypothesis `RawDistinct` (suffix `_partial`); `shared_raw_counterexample` proves the negation
  of the unrestricted statement on a concrete circuit, and the harness replays it on the real code.
-/
namespace QV.Props.C09
open QV.C09 QV.C09.TExp

variable {K : Type} [CommRing K] (ι : ℚ →+* K)

/-- the hypothesis forced by the proof: the raw parameters listed in `out_params` are pairwise distinct,
    they include every raw parameter the expectation depends on, and each of them drives one gate only
    (⇒ the expectation is affine in its `(cos, sin)` pair) -/
def RawDistinct (m : Mapping) (e : TExp K) : Prop :=
  m.outParams.Nodup ∧ (∀ j ∈ raws e, j ∈ m.outParams) ∧ ∀ j ∈ m.outParams, affineIn j e = true

instance (m : Mapping) (e : TExp K) : Decidable (RawDistinct m e) := by
  unfold RawDistinct; exact inferInstance

/-! ## Mechanism 1 — the parameter-shift rule -/

/-- `∂E/∂φ_j = ½ (E(φ_j + π/2) − E(φ_j − π/2))` for every expression affine in `(cos φ_j, sin φ_j)`,
    at every point -/
theorem shift_rule (e : TExp K) (j : Nat) (q : Point K) (h : affineIn j e = true) :
    eval q (dRaw j e)
      = ι (1 / 2) * (eval (upd q j (rot (q j))) e - eval (upd q j (rotInv (q j))) e) := by
  rw [shift_rule_two e j q h]
  have := half_two ι
  calc eval q (dRaw j e) = (ι (1 / 2) * 2) * eval q (dRaw j e) := by rw [this]; ring
    _ = _ := by ring

/-- multi-affinity is necessary: for `cos² φ_0` the two-term rule gives 0, the derivative is `−2cs` -/
theorem shift_rule_needs_affine :
    let e : TExp ℚ := .mul (.cos 0) (.cos 0)
    let q : Point ℚ := fun _ => (3 / 5, 4 / 5)
    affineIn 0 e = false ∧
      eval q (dRaw 0 e) ≠ (1 / 2) * (eval (upd q 0 (rot (q 0))) e - eval (upd q 0 (rotInv (q 0))) e) := by
  refine ⟨rfl, ?_⟩
  simp [eval, dRaw, deriv, upd, rot, rotInv]
  norm_num

/-- the finite-difference companion (numerical gradient): `E(φ_j + h) − E(φ_j − h) = 2 sin h · ∂E/∂φ_j`;
    with `h = δ/2` the central difference quotient of `numerical_gradient_estimates` for a parameter
    driving a single gate with coefficient 1 is `(sin(δ/2)/(δ/2)) · ∂E/∂θ`, which tends to the derivative
    as `δ → 0` (the limit itself is not formalised; the harness checks the `δ²` error bound) -/
theorem central_difference (e : TExp K) (j : Nat) (q : Point K) (ch sh : K) (h : affineIn j e = true) :
    eval (upd q j (turn ch sh (q j))) e - eval (upd q j (turn ch (-sh) (q j))) e
      = 2 * sh * eval q (dRaw j e) :=
  central_diff e j q ch sh h

/-! ## Mechanism 2 — derivative of the linear mapping and the chain rule -/

/-- `LinearParameterMapping.get_derivatives` returns the Jacobian of the (affine) mapper: moving input
    parameter `p` by `t` moves the raw angle `φ_raw` by exactly `t · derivCoef m p raw`; constant offsets,
    shared parameters and arbitrary coefficients included -/
theorem mapping_deriv_sound (m : Mapping) (hwf : m.WF) (θ : Nat → ℚ) (p : Nat) (t : ℚ) (raw : Nat) :
    phiT m (updQ θ p (θ p + t)) raw = phiT m θ raw + t * derivCoef m p raw :=
  phiT_upd m hwf θ p t raw

/-- the executable `mapper` computes `phiT` -/
theorem mapper_sound (m : Mapping) (vals ov : List ℚ) (h : mapper m vals = .ok ov) :
    List.Forall₂ (fun raw v => v = phiT m (θof m.inParams vals) raw) m.outParams ov :=
  mapper_ok m vals ov h

/-- chain rule: the derivative along the direction with velocities `dc` is `Σ_j dc_j · ∂/∂φ_j`, the sum
    over any duplicate-free list containing the raw parameters of the expression -/
theorem chain_rule (e : TExp K) (dc : Nat → K) (q : Point K) (outs : List Nat)
    (hn : outs.Nodup) (hsub : ∀ j ∈ raws e, j ∈ outs) :
    eval q (deriv dc e) = lsum outs fun raw => dc raw * eval q (dRaw raw e) :=
  chain_rule_lsum e dc q outs hn hsub

/-- mixed second derivatives commute -/
theorem deriv_commute (e : TExp K) (d1 d2 : Nat → K) (q : Point K) :
    eval q (deriv d1 (deriv d2 e)) = eval q (deriv d2 (deriv d1 e)) :=
  deriv_comm e d1 d2 q

/-! ## Mechanism 3 — the shift-set algebra of `_get_derivative` -/

/-- one application of `ShiftedParameters._get_derivative` to ANY shift set `swc` differentiates the
    value it stands for: `Σ coef'·E(φ + shift'·π/2) = d/dθ Σ coef·E(φ + shift·π/2)` — merge of equal
    shift sets, cancellation `+1 −1 → no shift`, the skipped zero coefficients and the factor
    `coef·c·sign/2` included.  Iterating gives derivatives of every order. -/
theorem get_derivative_sound_partial (m : Mapping) (e : TExp K) (pt : Point K) (dc : Nat → ℚ)
    (hd : RawDistinct m e) (swc : List Term) :
    sem ι e pt (getDerivative dc m.outParams swc) = sem ι (deriv (fun j => ι (dc j)) e) pt swc :=
  sem_getDerivative ι e pt dc m.outParams hd.1 hd.2.1 hd.2.2 swc

/-- shift sets stay canonical (sorted by raw parameter, no zero entry), and canonical lists are equal
    iff they are equal as `frozenset`s — so the model's key comparison is the code's -/
theorem shifts_canonical (s : Shifts) (j : Nat) (σ : Int) (h : Canon s) : Canon (bump s j σ) :=
  canon_bump s j σ h

theorem shifts_canonical_unique (s s' : Shifts) (h : Canon s) (h' : Canon s')
    (hg : ∀ j, getShift s j = getShift s' j) : s = s' :=
  canon_ext s s' h h' hg

/-- the update performed on the `dict`: the shift of `j` moves by `σ`, every other shift is unchanged
    (`del` at 0 is the same as storing 0) -/
theorem bump_spec (s : Shifts) (j : Nat) (σ : Int) (j' : Nat) :
    getShift (bump s j σ) j' = if j' = j then getShift s j + σ else getShift s j' :=
  getShift_bump s j σ j'

/-! ## Mechanism 4 — evaluation on the primitive circuit and recombination -/

/-- GRADIENT.  For an exact estimator (`estOf`: the expectation `e` evaluated at the raw parameter
    vector handed to it, a shift `k·π/2` acting as `k` quarter turns), every successful run of
    `parameter_shift_gradient_estimates` returns, for each entry `p` of `in_params`, the derivative of the
    expectation along `θ_p` at the base point — `deriv` with velocities `∂φ_j/∂θ_p = derivCoef m p j`
    (`mapping_deriv_sound`).  Entry `idx` refers to the parameter *object* `in_params[idx]`.
    Partial: needs `RawDistinct` (false for `sub + sub`, see `shared_raw_counterexample`; there `in_params` also
    lists the same parameter twice, so two entries refer to one parameter whose value `bind_parameters` takes from
    the last slot — `assign`). -/
theorem grad_sound_partial (cs : ℚ → K × K) (e : TExp K) (m : Mapping) (vals : List ℚ) (g : List K)
    (hd : RawDistinct m e)
    (h : psGradient (0 : K) (· + ·) (fun v c => v * ι c) (estOf cs e m.outParams) m vals = .ok g) :
    g = m.inParams.map fun p =>
      eval (basePt cs m vals) (deriv (fun j => ι (derivCoef m p j)) e) := by
  rw [psGradient_ok ι cs e m vals g hd.2.1 h]
  apply List.map_congr_left
  intro p _
  rw [sem_getDerivative ι e _ _ m.outParams hd.1 hd.2.1 hd.2.2, sem_noShift]

/-- HESSIAN.  Entry `(i, j)` is the second derivative along `θ_{p_i}` and `θ_{p_j}` (second application
    of `_get_derivative`, including the merge of `+1` then `−1` into "no shift"). -/
theorem hess_sound_partial (cs : ℚ → K × K) (e : TExp K) (m : Mapping) (vals : List ℚ) (H : List (List K))
    (hd : RawDistinct m e)
    (h : psHessian (0 : K) (· + ·) (fun v c => v * ι c) (estOf cs e m.outParams) m vals = .ok H) :
    H = m.inParams.map fun pi => m.inParams.map fun pj =>
      eval (basePt cs m vals)
        (deriv (fun j => ι (derivCoef m pi j)) (deriv (fun j => ι (derivCoef m pj j)) e)) := by
  rw [psHessian_ok ι cs e m vals H hd.2.1 h]
  apply List.map_congr_left
  intro pi _
  apply List.map_congr_left
  intro pj _
  rw [sem_getDerivative ι e _ _ m.outParams hd.1 hd.2.1 hd.2.2]
  rw [sem_getDerivative ι _ _ _ m.outParams hd.1
    (fun j hj => hd.2.1 j (raws_deriv e _ j hj))
    (fun j hj => affineIn_deriv e _ j (hd.2.2 j hj)), sem_noShift]

/-- the Hessian returned by the code is symmetric -/
theorem hess_symm_partial (cs : ℚ → K × K) (e : TExp K) (m : Mapping) (vals : List ℚ) (H : List (List K))
    (hd : RawDistinct m e)
    (h : psHessian (0 : K) (· + ·) (fun v c => v * ι c) (estOf cs e m.outParams) m vals = .ok H)
    (i j : Nat) :
    (H[i]?).bind (·[j]?) = (H[j]?).bind (·[i]?) := by
  rw [hess_sound_partial ι cs e m vals H hd h]
  simp only [List.getElem?_map]
  cases hi : m.inParams[i]? <;> cases hj : m.inParams[j]? <;>
    simp [hi, hj, List.getElem?_map, deriv_comm]

/-! ## Circuits: `RawDistinct` holds when every parametric gate has its own raw parameter -/

/-- the expectation value of a circuit whose parametric gates carry pairwise distinct raw parameters is
    affine in every `(cos φ_j, sin φ_j)` and mentions only the raw parameters of its gates — for every
    gate list, every observable `O` and every initial-state functional `ℓ` -/
theorem expectation_multiaffine (ℓ : List K) (steps : List (Step K)) (O : List K)
    (h : (stepRaws steps).Nodup) :
    (∀ j, affineIn j (expectation ℓ steps O) = true) ∧
      ∀ j ∈ raws (expectation ℓ steps O), j ∈ stepRaws steps :=
  expectation_good ℓ steps O h

/-- gradient soundness for circuits built gate by gate (`out_params` = raw parameters in gate order) -/
theorem grad_sound_circuit_partial (cs : ℚ → K × K) (ℓ : List K) (steps : List (Step K)) (O : List K)
    (m : Mapping) (vals : List ℚ) (g : List K)
    (hout : m.outParams = stepRaws steps) (hraw : (stepRaws steps).Nodup)
    (h : psGradient (0 : K) (· + ·) (fun v c => v * ι c)
      (estOf cs (expectation ℓ steps O) m.outParams) m vals = .ok g) :
    g = m.inParams.map fun p =>
      eval (basePt cs m vals) (deriv (fun j => ι (derivCoef m p j)) (expectation ℓ steps O)) := by
  have hg := expectation_good ℓ steps O hraw
  exact grad_sound_partial ι cs _ m vals g
    ⟨hout ▸ hraw, fun j hj => hout ▸ hg.2 j hj, fun j _ => hg.1 j⟩ h


/-! ## Which inputs are rejected (the error branch is explicit: `Except`) -/

/-- the mapper — hence `bind_parameters`, `get_shifted_parameters_and_coef` — accepts exactly the parameter
    values that cover every output parameter: each has a mapping entry and each input parameter it refers to
    received a value (`zip` silently truncates; too many values are ignored) -/
theorem mapper_ok_iff (m : Mapping) (vals : List ℚ) :
    (∃ ov, mapper m vals = .ok ov) ↔ Covered m vals :=
  mapper_ok_iff' m vals

/-- and otherwise raises `KeyError` -/
theorem mapper_error_is_keyError (m : Mapping) (vals : List ℚ) (e : Err) (h : mapper m vals = .error e) :
    e = .keyError :=
  mapper_error' m vals e h

/-- `parameter_shift_gradient_estimates` returns a value (for any estimator) iff the circuit has no input
    parameter — nothing is evaluated — or the mapper accepts the values; no other failure exists: the
    shifted parameters produced by `_get_derivative` are always output parameters -/
theorem gradient_ok_iff {V : Type} (zero : V) (add : V → V → V) (scale : V → ℚ → V) (est : List Angle → V)
    (m : Mapping) (vals : List ℚ) :
    (∃ g, psGradient zero add scale est m vals = .ok g) ↔ (m.inParams = [] ∨ Covered m vals) := by
  rw [← gradientTerms_ok_iff]
  simp only [psGradient, bind, Except.bind]
  cases gradientTerms m vals <;> simp [pure, Except.pure]

theorem hessian_ok_iff {V : Type} (zero : V) (add : V → V → V) (scale : V → ℚ → V) (est : List Angle → V)
    (m : Mapping) (vals : List ℚ) :
    (∃ H, psHessian zero add scale est m vals = .ok H) ↔ (m.inParams = [] ∨ Covered m vals) := by
  rw [← hessianTerms_ok_iff]
  simp only [psHessian, bind, Except.bind]
  cases hessianTerms m vals <;> simp [pure, Except.pure]

/-- `numerical_gradient_estimates` raises exactly when there is a parameter and `delta = 0`
    (`ZeroDivisionError`); otherwise entry `i` is the central difference quotient with step `delta` -/
theorem numerical_gradient_raises_iff (est : List ℚ → ℚ) (params : List ℚ) (delta : ℚ) (e : Err) :
    numGradient est params delta = .error e ↔ e = .zeroDivision ∧ params ≠ [] ∧ delta = 0 := by
  unfold numGradient
  by_cases hp : params.length = 0 <;> by_cases hd : delta = 0
  · simp [List.length_eq_zero_iff.mp hp]
  · simp [List.length_eq_zero_iff.mp hp]
  · have : params ≠ [] := fun h => hp (by simp [h])
    simp [hp, hd, this, eq_comm]
  · simp [hp, hd]

theorem numerical_gradient_spec (est : List ℚ → ℚ) (params : List ℚ) (delta : ℚ) (hd : delta ≠ 0) :
    numGradient est params delta = .ok ((List.range params.length).map fun i =>
      (est (setAt params i (delta * (1 / 2))) - est (setAt params i (-(delta * (1 / 2))))) / delta) := by
  unfold numGradient
  by_cases hp : params.length = 0
  · simp [hp]
  · simp [hp, hd]

/-! ## Finding F6 — the unrestricted statement is false -/

/-- conjugation of the observable vector `(Z, Y)` by `RX(φ)`: `Z ↦ cos φ·Z + sin φ·Y`, `Y ↦ cos φ·Y − sin φ·Z` -/
def rxStep (j : Nat) : Step ℚ := .param j [[0, 0], [0, 0]] [[1, 0], [0, 1]] [[0, -1], [1, 0]]

/-- `sub + sub` for `sub = RX(x)` on one qubit: both gates carry the same raw parameter 0 -/
def subTwice : List (Step ℚ) := [rxStep 0, rxStep 0]

/-- its mapping as produced by `combine`: `in_params = (x, x)`, `out_params = (p0, p0)`, `{p0: x}` -/
def subTwiceMap : Mapping := ⟨[0, 0], [0, 0], [(0, .param 0)]⟩

/-- `⟨Z⟩` after the two gates, `= cos² φ − sin² φ = cos 2φ` -/
def subTwiceE : TExp ℚ := expectation [1, 0] subTwice [1, 0]

/-- on `sub + sub` the code's parameter-shift gradient is `(0, 0)` at the point `(cos φ, sin φ) = (3/5, 4/5)`
    while the derivative of the expectation along `x` is `−4·cos φ·sin φ = −48/25` -/
theorem shared_raw_counterexample :
    ¬ (stepRaws subTwice).Nodup ∧ subTwiceMap.outParams = stepRaws subTwice ∧
    psGradient (0 : ℚ) (· + ·) (fun v c => v * c) (estOf (fun _ => (3 / 5, 4 / 5)) subTwiceE subTwiceMap.outParams)
        subTwiceMap [0, 0] = .ok [0, 0] ∧
    eval (basePt (fun _ => ((3 / 5 : ℚ), (4 / 5 : ℚ))) subTwiceMap [0, 0])
        (deriv (fun j => derivCoef subTwiceMap 0 j) subTwiceE) = -48 / 25 := by
  refine ⟨by decide, rfl, by decide +kernel, by decide +kernel⟩

/-! ## Non-vacuity: the hypotheses are satisfiable by non-trivial data -/

/-- `H; RX(p0); RY(p1)`-like two-gate circuit with distinct raw parameters, shared input parameter,
    constant offset and non-unit coefficients -/
def okSteps : List (Step ℚ) := [rxStep 0, rxStep 1]
def okMap : Mapping :=
  ⟨[10, 11], [0, 1], [(0, .fn [(.p 10, 1 / 2), (.p 11, -2), (.const, 1 / 4)]), (1, .param 10)]⟩
def okE : TExp ℚ := expectation [1, 0] okSteps [1, 0]

example : RawDistinct okMap okE := by decide
example : okMap.WF := by decide
example : Covered okMap [1, 2] := by decide
example : ¬ Covered okMap [1] := by decide
example : (stepRaws okSteps).Nodup ∧ okMap.outParams = stepRaws okSteps := by decide
example : psGradient (0 : ℚ) (· + ·) (fun v c => v * c) (estOf (fun _ => (3 / 5, 4 / 5)) okE okMap.outParams)
    okMap [1, 2] = .ok [-36 / 25, 48 / 25] := by decide +kernel
example : psHessian (0 : ℚ) (· + ·) (fun v c => v * c) (estOf (fun _ => (3 / 5, 4 / 5)) okE okMap.outParams)
    okMap [1, 2] = .ok [[63 / 100, -21 / 25], [-21 / 25, 28 / 25]] := by decide +kernel
example : Canon [(0, 1), (3, -2)] := by
  refine ⟨by decide, ?_⟩
  intro e he; simp at he; rcases he with rfl | rfl <;> decide
example : affineIn 0 okE = true ∧ affineIn 1 okE = true := by decide

end QV.Props.C09
